(* C02 — Needle on-disk encoding round-trips and is self-checking.
   Only statements closed by [exact]; proofs live in proof/NeedleProofs.v.
   [crc] is any function list N -> N; [crc32c] is CRC32-Castagnoli itself (model/NeedleCrc.v,
   bit by bit; compared with the Go library's value on every byte string of every case). *)
From Coq Require Import List NArith Bool.
From SW Require Import model.Needle model.NeedleCrc model.NeedleStream proof.NeedleProofs proof.NeedleCrcProofs proof.NeedleScanProofs proof.NeedleStreamProofs.
Import ListNotations.
Local Open Scope N_scope.

(* Every record is exactly as long as the index says (GetActualSize of the size field) and that
   length is a multiple of 8 — for every needle a writer may pass (mime < 256 bytes, a TTL when
   the TTL flag is set, PairsSize = len(Pairs)), every flag combination, version 2 and 3. *)
Theorem c02_aligned : forall v n, enc_okb n = true ->
  len (encode v n) = actual_size (body_size n) v /\ len (encode v n) mod 8 = 0.
Proof. exact encode_aligned. Qed.
Print Assumptions c02_aligned.

(* ... and GetActualSize is 8-aligned with 1..8 padding bytes for every size and version. *)
Theorem c02_actual_size_aligned : forall s v,
  actual_size s v mod 8 = 0 /\ 1 <= padding_length s v <= 8.
Proof. exact (fun s v => conj (actual_size_aligned s v) (padding_range s v)). Qed.
Print Assumptions c02_actual_size_aligned.

(* Round trip, FULL statement restricted by the trigger of known finding 0 (empty payload):
   a record with non-empty data decodes (ReadBytes on its own bytes) to the same blob without error. *)
Theorem c02_roundtrip_partial : forall crc v n, empty_payload n = false -> enc_okb n = true ->
  ranges_ok n -> checksum n = crc (data n) ->
  read_bytes crc (encode v n) (body_size n) v = (dview v n, SOk).
Proof. exact roundtrip_partial. Qed.
Print Assumptions c02_roundtrip_partial.

(* the same through ReadData at the record's offset inside any file *)
Theorem c02_roundtrip_in_file : forall crc v n pre post, empty_payload n = false -> enc_okb n = true ->
  ranges_ok n -> checksum n = crc (data n) ->
  read_data crc (pre ++ encode v n ++ post) (len pre) (body_size n) v = (dview v n, SOk).
Proof. exact roundtrip_in_file. Qed.
Print Assumptions c02_roundtrip_in_file.

(* [dview]/[view] drop nothing from a needle whose unflagged fields are empty *)
Theorem c02_view_is_identity : forall v n, normalb v n = true -> view v n = n.
Proof. exact view_normal. Qed.
Print Assumptions c02_view_is_identity.

(* Known finding 0: without the trigger hypothesis the round trip is false — a well-formed needle
   with empty data loses its name (and flags, mime, pairs, TTL, last-modified). *)
Theorem c02_roundtrip_refuted : exists n, enc_okb n = true /\ ranges_ok n /\
  forall crc v, checksum n = crc (data n) ->
    read_bytes crc (encode v n) (body_size n) v <> (dview v n, SOk).
Proof. exact roundtrip_refuted. Qed.
Print Assumptions c02_roundtrip_refuted.

(* what does come back for empty data (faithful variant): size 0, header and timestamp only *)
Theorem c02_roundtrip_empty : forall crc v n, empty_payload n = true ->
  cookie n < 2 ^ 32 -> id n < 2 ^ 64 -> append_at_ns n < 2 ^ 64 ->
  body_size n = 0 /\ read_bytes crc (encode v n) (body_size n) v = (stripped v n 0, SOk).
Proof. exact roundtrip_empty. Qed.
Print Assumptions c02_roundtrip_empty.

(* Scanning [prefix ++ records] from the end of the prefix visits exactly the records, in
   order, each at its own offset — for every list of records (with or without payload). *)
Theorem c02_scan : forall crc v pre rs, Forall rec_ok rs ->
  scan crc v (pre ++ concat (map (encode v) rs)) (len pre) = scan_expected crc v rs (len pre).
Proof. exact scan_records. Qed.
Print Assumptions c02_scan.

(* ... where the visited needle of a record with payload is the written blob ... *)
Theorem c02_scan_visits_written : forall crc v pre rs, Forall rec_ok rs ->
  Forall (fun n => empty_payload n = false /\ checksum n = crc (data n)) rs ->
  scan crc v (pre ++ concat (map (encode v) rs)) (len pre) = written v rs (len pre).
Proof. exact scan_written. Qed.
Print Assumptions c02_scan_visits_written.

(* ... and id, cookie and offset are right for every record. *)
Theorem c02_scan_ids : forall crc v rs off,
  map (fun p => (id (d_n (fst p)), cookie (d_n (fst p)), snd p)) (scan_expected crc v rs off) =
  (fix go (rs : list needle) (off : N) :=
     match rs with [] => [] | n :: rs' => (id n, cookie n, off) :: go rs' (off + actual_size (body_size n) v) end) rs off.
Proof. exact scan_expected_ids. Qed.
Print Assumptions c02_scan_ids.

(* Self-checking: overwrite the data bytes of a stored record by any other bytes of the same
   length; if the CRC oracle tells the two strings apart, ReadBytes reports the CRC error. *)
Theorem c02_crc_detects : forall crc, (forall b, crc b < 2 ^ 32) ->
  forall v n d', data n <> [] -> enc_okb n = true -> ranges_ok n ->
  checksum n = crc (data n) -> len d' = len (data n) -> crc d' <> crc (data n) ->
  snd (read_bytes crc (overwrite_data (encode v n) (len (data n)) d') (body_size n) v) = SCrc.
Proof. exact altered_data_detected. Qed.
Print Assumptions c02_crc_detects.

(* overwriting in place is the encoding of the needle with the new data and the OLD checksum *)
Theorem c02_overwrite_is_encode : forall v n d', data n <> [] -> len d' = len (data n) ->
  encode v (n_set_data n d') = overwrite_data (encode v n) (len (data n)) d'.
Proof. exact encode_set_data. Qed.
Print Assumptions c02_overwrite_is_encode.

(* ---------- the self-checking clause with the real checksum ---------- *)
(* CRC32-C changes whenever one byte of a string changes (any of the 255 non-zero masks -
   every single-bit flip in particular - at any position, any length): the register is
   GF(2)-linear and a step never turns a non-zero 32-bit value into zero. *)
Theorem c02_crc32c_detects_byte : forall l pos mask, pos < len l -> 0 < mask < 256 ->
  crc32c (flip_byte l pos mask) <> crc32c l.
Proof. exact crc32c_detects_byte. Qed.
Print Assumptions c02_crc32c_detects_byte.

(* "A stored record whose data bytes are altered is reported as corrupted instead of being
   returned", for ReadBytes and one altered byte, with NO assumption about the checksum. *)
Theorem c02_crc32c_flip_detected : forall v n pos mask, enc_okb n = true -> ranges_ok n -> bytes_ok (data n) ->
  checksum n = crc32c (data n) -> pos < len (data n) -> 0 < mask < 256 ->
  snd (read_bytes crc32c (flip_byte (encode v n) (20 + pos) mask) (body_size n) v) = SCrc.
Proof. exact crc32c_flip_detected. Qed.
Print Assumptions c02_crc32c_flip_detected.

(* ... and for any change confined to 4 consecutive data bytes (bursts of up to 32 bits in a
   byte-aligned window; in particular every burst of at most 25 bits) *)
Theorem c02_crc32c_burst_detected : forall v n a x b w, enc_okb n = true -> ranges_ok n -> bytes_ok (data n) ->
  checksum n = crc32c (data n) -> data n = a ++ x ++ b ->
  length x = length w -> (length w <= 4)%nat -> bytes_ok w -> Exists (fun m => m <> 0) w ->
  snd (read_bytes crc32c (overwrite_data (encode v n) (len (data n)) (a ++ xor_list x w ++ b)) (body_size n) v) = SCrc.
Proof. exact crc32c_burst_detected. Qed.
Print Assumptions c02_crc32c_burst_detected.

Theorem c02_crc32c_detects_burst : forall a x b w, length x = length w -> (length w <= 4)%nat ->
  bytes_ok w -> Exists (fun m => m <> 0) w ->
  crc32c (a ++ xor_list x w ++ b) <> crc32c (a ++ x ++ b).
Proof. exact crc32c_detects_burst. Qed.
Print Assumptions c02_crc32c_detects_burst.

(* the same through ReadData, the record anywhere in a file *)
Theorem c02_crc32c_flip_detected_in_file : forall v n pre post pos mask, enc_okb n = true -> ranges_ok n ->
  bytes_ok (data n) -> checksum n = crc32c (data n) -> pos < len (data n) -> 0 < mask < 256 ->
  snd (read_data crc32c (flip_byte (pre ++ encode v n ++ post) (len pre + (20 + pos)) mask) (len pre) (body_size n) v) = SCrc.
Proof. exact crc32c_flip_detected_in_file. Qed.
Print Assumptions c02_crc32c_flip_detected_in_file.

(* ---------- the scan path is NOT self-checking (known finding 1) ---------- *)
(* ReadNeedleBodyBytes sets n.Checksum = NewCRC(n.Data) instead of comparing; a visitor that
   re-appends what it is handed (VolumeFileScanner4Vacuum, i.e. the scan-based Volume.Compact)
   therefore writes every record with a checksum that fits whatever data the scan decoded. *)
Theorem c02_scan_copy_fixes : forall crc v npre pre rs, Forall rec_ok rs ->
  scan_copy crc v npre (pre ++ concat (map (encode v) rs)) (len pre)
    = npre ++ concat (map (encode v) (map (fix_checksum crc) rs)) /\
  scan_copy_index crc v npre (pre ++ concat (map (encode v) rs)) (len pre) = layout v rs (len npre).
Proof. exact scan_copy_fixes. Qed.
Print Assumptions c02_scan_copy_fixes.

(* every record with payload of the copy reads back with status ok ... *)
Theorem c02_scan_copy_reads_ok : forall crc v npre pre rs1 n rs2,
  Forall rec_ok (rs1 ++ n :: rs2) -> data n <> [] ->
  read_data crc (scan_copy crc v npre (pre ++ concat (map (encode v) (rs1 ++ n :: rs2))) (len pre))
            (len npre + len (concat (map (encode v) rs1))) (body_size n) v
    = (dview v (fix_checksum crc n), SOk).
Proof. exact scan_copy_reads_ok. Qed.
Print Assumptions c02_scan_copy_reads_ok.

(* ... in particular a record whose data bytes were overwritten in place by ANY d': after the
   copy it is returned with the altered bytes d', not reported. *)
Theorem c02_scan_copy_launders : forall crc v npre pre rs1 n d' rs2,
  Forall rec_ok (rs1 ++ n :: rs2) -> data n <> [] -> len d' = len (data n) ->
  let file := pre ++ concat (map (encode v) rs1) ++ overwrite_data (encode v n) (len (data n)) d'
                  ++ concat (map (encode v) rs2) in
  exists r, read_data crc (scan_copy crc v npre file (len pre))
                      (len npre + len (concat (map (encode v) rs1))) (body_size n) v = (r, SOk)
            /\ data (d_n r) = d'.
Proof. exact scan_copy_launders. Qed.
Print Assumptions c02_scan_copy_launders.

(* FULL statement (scan_self_checking: after a scan-based copy of a file with an altered
   record, reading that record does not succeed) REFUTED for the real checksum ... *)
Theorem c02_scan_self_checking_refuted : ~ scan_self_checking crc32c.
Proof. exact scan_self_checking_refuted. Qed.
Print Assumptions c02_scan_self_checking_refuted.

(* ... and for every checksum function that can tell two equally long strings apart at all *)
Theorem c02_scan_self_checking_refuted_gen : forall crc n d', rec_ok n -> data n <> [] ->
  checksum n = crc (data n) -> len d' = len (data n) -> crc d' <> crc (data n) ->
  ~ scan_self_checking crc.
Proof. exact scan_self_checking_refuted_gen. Qed.
Print Assumptions c02_scan_self_checking_refuted_gen.

(* the witness (harness cases 2 and 3): id 1 "hello", lowest bit of 'h' flipped: the direct
   read answers the CRC error, the read after the copy returns "iello" with status ok *)
Theorem c02_launder_witness :
  let n := launder_witness in
  let sb := [3; 0; 0; 0; 0; 0; 0; 0] in
  let bad := sb ++ overwrite_data (encode 3 n) 5 [105; 101; 108; 108; 111] in
  snd (read_data crc32c bad 8 (body_size n) 3) = SCrc /\
  (let '(r, s) := read_data crc32c (scan_copy crc32c 3 sb bad 8) 8 (body_size n) 3 in
   (data (d_n r), s)) = ([105; 101; 108; 108; 111], SOk).
Proof. exact launder_witness_computed. Qed.
Print Assumptions c02_launder_witness.

(* PARTIAL (trigger: some record's checksum disagrees with its data, [unaltered] = false): a
   scan-based copy of an undamaged file is that file after the new prefix - so every record
   reads back as written (c02_roundtrip_in_file) *)
Theorem c02_scan_copy_partial : forall crc v npre pre rs, Forall rec_ok rs -> unaltered crc rs = true ->
  scan_copy crc v npre (pre ++ concat (map (encode v) rs)) (len pre) = npre ++ concat (map (encode v) rs).
Proof. exact scan_copy_clean. Qed.
Print Assumptions c02_scan_copy_partial.

(* ---------- torn tail ---------- *)
(* records followed by a record cut after k bytes: the complete records are visited as
   before; the torn one is not visited if its header is incomplete, else once with the
   header only; nothing else *)
Theorem c02_scan_torn : forall crc v pre rs n k, Forall rec_ok rs -> rec_ok n -> k < len (encode v n) ->
  scan crc v (pre ++ concat (map (encode v) rs) ++ takeN k (encode v n)) (len pre) =
    scan_expected crc v rs (len pre)
    ++ (if k <? 16 then []
        else [(header_needle (cookie n) (id n) (body_size n), len pre + len (concat (map (encode v) rs)))]).
Proof. exact scan_torn. Qed.
Print Assumptions c02_scan_torn.

(* the decoder as it runs (DataSize read within the capacity of the blob, [read_v2_x]) and the
   simpler [read_v2] agree on every body of 0 or >= 4 bytes *)
Theorem c02_decoder_variants_agree : forall ext body d, body = [] \/ 4 <= len body ->
  read_v2_x ext body d = read_v2 body d.
Proof. exact read_v2_x_eq. Qed.
Print Assumptions c02_decoder_variants_agree.

(* ---------- which writers and readers of records the theorems cover ----------
   Producers of on-disk needle records in weed/storage (grep CookieToBytes / NeedleIdToBytes /
   prepareWriteBuffer / StreamWrite / WriteNeedleBlob):
   1. Needle.prepareWriteBuffer / Needle.Append ([encode]): every HTTP / gRPC write, the
      scan-based Volume.Compact (re-append of every visited needle, [scan_copy]), replication.
      Theorems c02_aligned .. c02_scan_torn above.
   2. Volume.StreamWrite ([stream_encode], the volume server's -tcp put path): a VERSION-3
      record with header (cookie, id, Size = 4 + dataSize + 1), DataSize, the data as io.Copy
      moved them from the reader, ONE flags byte, the checksum ACCUMULATED by CRCwriter over
      the Write calls, AppendAtNs, padding.  It writes NO name, mime, last-modified, TTL or
      pairs whatever the flags byte announces, and (unlike Append) it also writes the 5-byte
      body for empty data.  Theorems c02_stream_* below: the record is 8-aligned, decodes to
      the same blob and passes the CRC check for every data length (zero included), every
      flags byte and every way the reader cuts the data into pieces; with no field flag it is
      byte for byte [encode 3] of [stream_needle], so the scan and CRC-detection theorems
      above apply to it.
   3. needle.WriteNeedleBlob / Volume.WriteNeedleBlob ([restamp]): a raw blob read with
      ReadNeedleBlob on another server, appended with a fresh timestamp (volume.check.disk).
      Theorem c02_restamp_encode.
   Raw record bytes are also copied WITHOUT being decoded by the index-based compaction
   (Volume.Compact2 / copyDataBasedOnIndexFile), the incremental backup / tail
   (volume_backup.go, BinarySearchByAppendAtNs + raw copy) and makeupDiff of CommitCompact:
   these are covered by their own properties (C04 compaction is invisible to readers, C37
   incremental backup converges to the source); erasure coding re-slices the .dat bytes (C06);
   the mount's chunk cache stores chunk bytes in needle-map-indexed cache volumes of its own
   (C31).  Consumers: Needle.ReadData / ReadBytes (CRC compare),
   ScanVolumeFileFrom (no compare: finding 1), Volume.StreamRead (no compare: finding 2). *)

(* CRCwriter: the checksum after any sequence of Write calls is the CRC32-C of everything
   written - however the data were cut *)
Theorem c02_crc_writer_accumulates : forall chunks,
  crc_writer crc32c_update chunks = crc32c (concat chunks).
Proof. exact crc_writer_whole. Qed.
Print Assumptions c02_crc_writer_accumulates.

Theorem c02_crc_writer_split_irrelevant : forall szs l,
  crc_writer crc32c_update (chunks_of szs l) = crc32c l.
Proof. exact crc_writer_split_irrelevant. Qed.
Print Assumptions c02_crc_writer_split_irrelevant.

(* a stream-written record is as long as GetActualSize of its index entry says: 8-aligned *)
Theorem c02_stream_aligned : forall upd c i fl ds chunks ts, len (concat chunks) = ds ->
  len (stream_encode upd c i fl ds chunks ts) = actual_size (stream_size ds) 3 /\
  len (stream_encode upd c i fl ds chunks ts) mod 8 = 0.
Proof. exact stream_aligned. Qed.
Print Assumptions c02_stream_aligned.

(* ROUND TRIP of the stream writer, any checksum whose Update accumulates: ReadData at the
   record's offset inside any file returns cookie, id, the data, the flags byte, the checksum
   of the WHOLE data and the timestamp with status ok (the CRC compare passed) - any data
   length including zero, any flags byte, any cut into Write calls *)
Theorem c02_stream_roundtrip : forall crc upd,
  (forall chunks, crc_writer upd chunks = crc (concat chunks)) ->
  forall c i fl chunks ts pre post,
  c < 2 ^ 32 -> i < 2 ^ 64 -> stream_size (len (concat chunks)) < 2 ^ 31 -> ts < 2 ^ 64 ->
  read_data crc (pre ++ stream_encode upd c i fl (len (concat chunks)) chunks ts ++ post) (len pre)
            (stream_size (len (concat chunks))) 3 =
    (stream_dneedle c i fl (concat chunks) (crc (concat chunks)) ts, SOk).
Proof. exact stream_read_data. Qed.
Print Assumptions c02_stream_roundtrip.

(* ... and with the real CRC32-C and CRC.Update, no assumption left, the data [d] cut after
   any sizes [szs] *)
Theorem c02_stream_roundtrip_crc32c : forall c i fl szs d ts pre post,
  c < 2 ^ 32 -> i < 2 ^ 64 -> stream_size (len d) < 2 ^ 31 -> ts < 2 ^ 64 ->
  read_data crc32c (pre ++ stream_encode crc32c_update c i fl (len d) (chunks_of szs d) ts ++ post) (len pre)
            (stream_size (len d)) 3 =
    (stream_dneedle c i fl d (crc32c d) ts, SOk).
Proof. exact stream_roundtrip_crc32c. Qed.
Print Assumptions c02_stream_roundtrip_crc32c.

(* with no field-announcing flag and some data, the stream writer's bytes are Append's bytes
   for [stream_needle] (which is a well-formed record: rec_ok), so c02_scan, c02_scan_torn,
   c02_crc_detects, c02_crc32c_burst_detected speak about stream-written records too *)
Theorem c02_stream_is_encode : forall upd c i fl chunks ts,
  no_field_flags fl = true -> concat chunks <> [] ->
  stream_encode upd c i fl (len (concat chunks)) chunks ts =
    encode 3 (stream_needle c i fl (concat chunks) (crc_writer upd chunks) ts).
Proof. exact stream_is_encode. Qed.
Print Assumptions c02_stream_is_encode.

Theorem c02_stream_rec_ok : forall c i fl d ck ts, no_field_flags fl = true -> d <> [] ->
  c < 2 ^ 32 -> i < 2 ^ 64 -> stream_size (len d) < 2 ^ 31 -> ts < 2 ^ 64 ->
  rec_ok (stream_needle c i fl d ck ts).
Proof. exact stream_needle_rec_ok. Qed.
Print Assumptions c02_stream_rec_ok.

(* self-checking, stream-written record, real checksum: one altered data byte is reported by
   ReadBytes *)
Theorem c02_stream_flip_detected : forall c i fl szs d ts pos mask,
  no_field_flags fl = true -> c < 2 ^ 32 -> i < 2 ^ 64 -> stream_size (len d) < 2 ^ 31 -> ts < 2 ^ 64 ->
  bytes_ok d -> pos < len d -> 0 < mask < 256 ->
  snd (read_bytes crc32c (flip_byte (stream_encode crc32c_update c i fl (len d) (chunks_of szs d) ts) (20 + pos) mask)
                  (stream_size (len d)) 3) = SCrc.
Proof. exact stream_flip_detected. Qed.
Print Assumptions c02_stream_flip_detected.

(* ---------- Volume.StreamRead is NOT self-checking (known finding 2) ---------- *)
(* PARTIAL (trigger: the data bytes of the record were altered): on the record as written
   StreamRead hands out DataSize and the written data *)
Theorem c02_stream_read_partial : forall upd c i fl chunks ts pre post,
  len (concat chunks) < 2 ^ 32 ->
  stream_read (pre ++ stream_encode upd c i fl (len (concat chunks)) chunks ts ++ post) (len pre) =
    be_encode 4 (len (concat chunks)) ++ concat chunks.
Proof. exact stream_read_written. Qed.
Print Assumptions c02_stream_read_partial.

(* the defect: overwrite the data bytes in place by ANY d' - StreamRead returns d' *)
Theorem c02_stream_read_returns_altered : forall upd c i fl chunks ts pre post d',
  len d' = len (concat chunks) -> len d' < 2 ^ 32 ->
  stream_read (pre ++ overwrite_data (stream_encode upd c i fl (len (concat chunks)) chunks ts) (len (concat chunks)) d' ++ post)
              (len pre) = be_encode 4 (len d') ++ d'.
Proof. exact stream_read_returns_altered. Qed.
Print Assumptions c02_stream_read_returns_altered.

(* FULL statement (altered data are not handed out) REFUTED *)
Theorem c02_stream_read_self_checking_refuted : ~ stream_read_self_checking.
Proof. exact stream_read_self_checking_refuted. Qed.
Print Assumptions c02_stream_read_self_checking_refuted.

(* the witness (harness case 5), also the non-vacuity example of the stream theorems: "hello"
   written in two pieces after the super block round-trips and StreamRead returns it; after
   flipping the lowest bit of 'h' ReadData answers the CRC error, StreamRead "iello" *)
Theorem c02_stream_witness :
  read_data crc32c stream_witness_file 8 10 3
    = (stream_dneedle 4660 1 0 [104; 101; 108; 108; 111] (crc32c [104; 101; 108; 108; 111]) 5, SOk) /\
  stream_read stream_witness_file 8 = [0; 0; 0; 5; 104; 101; 108; 108; 111] /\
  snd (read_data crc32c (flip_byte stream_witness_file 28 1) 8 10 3) = SCrc /\
  stream_read (flip_byte stream_witness_file 28 1) 8 = [0; 0; 0; 5; 105; 101; 108; 108; 111].
Proof. exact stream_witness_computed. Qed.
Print Assumptions c02_stream_witness.

(* ---------- WriteNeedleBlob ---------- *)
(* a record copied as a raw blob and re-stamped is the record of the same needle with the new
   timestamp (so it round-trips by c02_roundtrip_in_file); version 2 copies verbatim *)
Theorem c02_restamp_encode : forall n ts, enc_okb n = true ->
  restamp (encode 3 n) (body_size n) ts 3 = encode 3 (n_set_append n ts).
Proof. exact restamp_encode. Qed.
Print Assumptions c02_restamp_encode.

Theorem c02_restamp_v2 : forall blob size ts, restamp blob size ts 2 = blob.
Proof. exact restamp_v2. Qed.
Print Assumptions c02_restamp_v2.

(* non-vacuity: a version-3 needle with every defined flag set and the real CRC32-C satisfies
   all the hypotheses, is 8-aligned, round-trips, is found by the scan after an 8-byte super
   block, a changed data byte is detected, a torn copy is visited header-only, and the
   scan-based copy of the undamaged file is the file. *)
Example c02_example :
  let n := example_needle_c in
  let sb := [3; 0; 0; 0; 0; 0; 0; 0] in
  enc_okb n = true /\ ranges_ok n /\ rec_ok n /\ checksum n = crc32c (data n) /\
  empty_payload n = false /\ normalb 3 n = true /\ unaltered crc32c [n; n] = true /\
  len (encode 3 n) = 64 /\
  read_bytes crc32c (encode 3 n) (body_size n) 3 = (dview 3 n, SOk) /\
  scan crc32c 3 (sb ++ encode 3 n ++ encode 3 n) 8 = [(dview 3 n, 8); (dview 3 n, 72)] /\
  snd (read_bytes crc32c (flip_byte (encode 3 n) (20 + 2) 4) (body_size n) 3) = SCrc /\
  scan crc32c 3 (sb ++ encode 3 n ++ takeN 40 (encode 3 n)) 8
    = [(dview 3 n, 8); (header_needle (cookie n) (id n) (body_size n), 72)] /\
  scan_copy crc32c 3 sb (sb ++ encode 3 n ++ encode 3 n) 8 = sb ++ encode 3 n ++ encode 3 n.
Proof. exact example_holds. Qed.
Print Assumptions c02_example.

Example c02_example_bytes : bytes_ok (data example_needle_c).
Proof. exact example_bytes_ok. Qed.
Print Assumptions c02_example_bytes.

(* the generic-checksum theorems are not vacuous either (toy checksum) *)
Example c02_example_toy :
  let n := example_needle in
  enc_okb n = true /\ ranges_ok n /\ rec_ok n /\ checksum n = toy_crc (data n) /\
  empty_payload n = false /\ normalb 3 n = true /\
  len (encode 3 n) = 64 /\
  read_bytes toy_crc (encode 3 n) (body_size n) 3 = (dview 3 n, SOk) /\
  scan toy_crc 3 ([3; 0; 0; 0; 0; 0; 0; 0] ++ encode 3 n ++ encode 3 n) 8 = [(dview 3 n, 8); (dview 3 n, 72)] /\
  snd (read_bytes toy_crc (overwrite_data (encode 3 n) 5 [1; 2; 7; 255; 0]) (body_size n) 3) = SCrc.
Proof. exact example_toy_holds. Qed.
Print Assumptions c02_example_toy.
