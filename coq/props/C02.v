(* C02 — Needle on-disk encoding round-trips and is self-checking.
   Only statements closed by [exact]; proofs live in proof/NeedleProofs.v.
   [crc] is the CRC32-Castagnoli oracle (any function list N -> N). *)
From Coq Require Import List NArith Bool.
From SW Require Import model.Needle proof.NeedleProofs.
Import ListNotations.
Local Open Scope N_scope.

(* Every record is exactly as long as the index says (GetActualSize of the size field) and that
   length is a multiple of 8 — for every needle a writer may pass (mime < 256 bytes, a TTL when
   the TTL flag is set, PairsSize = len(Pairs)), every flag combination, version 2 and 3. *)
Theorem c02_aligned : forall v n, enc_okb n = true ->
  len (encode v n) = actual_size (body_size n) v /\ len (encode v n) mod 8 = 0.
Proof. exact encode_aligned. Qed.
Print Assumptions c02_aligned.

(* ... and GetActualSize is 8-aligned with 1..8 padding bytes for every size and version. *)
Theorem c02_actual_size_aligned : forall s v,
  actual_size s v mod 8 = 0 /\ 1 <= padding_length s v <= 8.
Proof. exact (fun s v => conj (actual_size_aligned s v) (padding_range s v)). Qed.
Print Assumptions c02_actual_size_aligned.

(* Round trip, FULL statement restricted by the trigger of known finding 0 (empty payload):
   a record with non-empty data decodes (ReadBytes on its own bytes) to the same blob without error. *)
Theorem c02_roundtrip_partial : forall crc v n, empty_payload n = false -> enc_okb n = true ->
  ranges_ok n -> checksum n = crc (data n) ->
  read_bytes crc (encode v n) (body_size n) v = (dview v n, SOk).
Proof. exact roundtrip_partial. Qed.
Print Assumptions c02_roundtrip_partial.

(* the same through ReadData at the record's offset inside any file *)
Theorem c02_roundtrip_in_file : forall crc v n pre post, empty_payload n = false -> enc_okb n = true ->
  ranges_ok n -> checksum n = crc (data n) ->
  read_data crc (pre ++ encode v n ++ post) (len pre) (body_size n) v = (dview v n, SOk).
Proof. exact roundtrip_in_file. Qed.
Print Assumptions c02_roundtrip_in_file.

(* [dview]/[view] drop nothing from a needle whose unflagged fields are empty *)
Theorem c02_view_is_identity : forall v n, normalb v n = true -> view v n = n.
Proof. exact view_normal. Qed.
Print Assumptions c02_view_is_identity.

(* Known finding 0: without the trigger hypothesis the round trip is false — a well-formed needle
   with empty data loses its name (and flags, mime, pairs, TTL, last-modified). *)
Theorem c02_roundtrip_refuted : exists n, enc_okb n = true /\ ranges_ok n /\
  forall crc v, checksum n = crc (data n) ->
    read_bytes crc (encode v n) (body_size n) v <> (dview v n, SOk).
Proof. exact roundtrip_refuted. Qed.
Print Assumptions c02_roundtrip_refuted.

(* what does come back for empty data (faithful variant): size 0, header and timestamp only *)
Theorem c02_roundtrip_empty : forall crc v n, empty_payload n = true ->
  cookie n < 2 ^ 32 -> id n < 2 ^ 64 -> append_at_ns n < 2 ^ 64 ->
  body_size n = 0 /\ read_bytes crc (encode v n) (body_size n) v = (stripped v n 0, SOk).
Proof. exact roundtrip_empty. Qed.
Print Assumptions c02_roundtrip_empty.

(* Scanning [prefix ++ records] from the end of the prefix visits exactly the records, in
   order, each at its own offset — for every list of records (with or without payload). *)
Theorem c02_scan : forall crc v pre rs, Forall rec_ok rs ->
  scan crc v (pre ++ concat (map (encode v) rs)) (len pre) = scan_expected crc v rs (len pre).
Proof. exact scan_records. Qed.
Print Assumptions c02_scan.

(* ... where the visited needle of a record with payload is the written blob ... *)
Theorem c02_scan_visits_written : forall crc v pre rs, Forall rec_ok rs ->
  Forall (fun n => empty_payload n = false /\ checksum n = crc (data n)) rs ->
  scan crc v (pre ++ concat (map (encode v) rs)) (len pre) = written v rs (len pre).
Proof. exact scan_written. Qed.
Print Assumptions c02_scan_visits_written.

(* ... and id, cookie and offset are right for every record. *)
Theorem c02_scan_ids : forall crc v rs off,
  map (fun p => (id (d_n (fst p)), cookie (d_n (fst p)), snd p)) (scan_expected crc v rs off) =
  (fix go (rs : list needle) (off : N) :=
     match rs with [] => [] | n :: rs' => (id n, cookie n, off) :: go rs' (off + actual_size (body_size n) v) end) rs off.
Proof. exact scan_expected_ids. Qed.
Print Assumptions c02_scan_ids.

(* Self-checking: overwrite the data bytes of a stored record by any other bytes of the same
   length; if the CRC oracle tells the two strings apart, ReadBytes reports the CRC error. *)
Theorem c02_crc_detects : forall crc, (forall b, crc b < 2 ^ 32) ->
  forall v n d', data n <> [] -> enc_okb n = true -> ranges_ok n ->
  checksum n = crc (data n) -> len d' = len (data n) -> crc d' <> crc (data n) ->
  snd (read_bytes crc (overwrite_data (encode v n) (len (data n)) d') (body_size n) v) = SCrc.
Proof. exact altered_data_detected. Qed.
Print Assumptions c02_crc_detects.

(* overwriting in place is the encoding of the needle with the new data and the OLD checksum *)
Theorem c02_overwrite_is_encode : forall v n d', data n <> [] -> len d' = len (data n) ->
  encode v (n_set_data n d') = overwrite_data (encode v n) (len (data n)) d'.
Proof. exact encode_set_data. Qed.
Print Assumptions c02_overwrite_is_encode.

(* non-vacuity: a version-3 needle with every defined flag set satisfies all the hypotheses,
   is 8-aligned, round-trips, is found by the scan after an 8-byte super block, and a changed
   data byte is detected (toy checksum). *)
Example c02_example :
  let n := example_needle in
  enc_okb n = true /\ ranges_ok n /\ rec_ok n /\ checksum n = toy_crc (data n) /\
  empty_payload n = false /\ normalb 3 n = true /\
  len (encode 3 n) = 64 /\
  read_bytes toy_crc (encode 3 n) (body_size n) 3 = (dview 3 n, SOk) /\
  scan toy_crc 3 ([3; 0; 0; 0; 0; 0; 0; 0] ++ encode 3 n ++ encode 3 n) 8 = [(dview 3 n, 8); (dview 3 n, 72)] /\
  snd (read_bytes toy_crc (overwrite_data (encode 3 n) 5 [1; 2; 7; 255; 0]) (body_size n) 3) = SCrc.
Proof. vm_compute. repeat split; try reflexivity; discriminate. Qed.
