(* Translator tie for function bodies (DESIGN.md section 3.1).
   gen/Funcs.v is REGENERATED from the Go source text of the tree on every run by
   harness/cmd/funcgen (go/parser + go/ast; fixed-width integer semantics of
   base/GoInt.v).  Every theorem below states that one generated definition equals the
   hand-written model function the property theorems are about, on the stated range of
   the Go parameter types.  A semantic change of such a Go function therefore breaks a
   proof obligation here, for all inputs, before any sampled case runs.
   Proofs: proof/FuncsTieProofs.v. *)
From Coq Require Import ZArith NArith List Bool.
From SW Require Import base.GoInt.
From SW Require gen.Funcs.
From SW Require model.Needle model.EcIndex model.EC model.Ttl model.Codecs model.VolPlanner model.TopoPlace model.EcBalance model.TopoCount.
From SW Require proof.FuncsTieProofs.
Import FuncsTieProofs.
Local Open Scope Z_scope.

(* needle.PaddingLength / NeedleBodyLength / GetActualSize (C02, C03, C04): size is an int32 >= 0;
   size_max = MaxInt32 - 28 keeps NeedleHeaderSize+size+NeedleChecksumSize+TimestampSize inside int32 *)
Theorem tie_PaddingLength : forall size v : N,
  (size <= size_max)%N -> (v < 256)%N ->
  Funcs.PaddingLength (Z.of_N size) (Z.of_N v) = Z.of_N (Needle.padding_length size v).
Proof. exact tie_PaddingLength_proof. Qed.
Print Assumptions tie_PaddingLength.

Theorem tie_NeedleBodyLength : forall size v : N,
  (size <= size_max)%N -> (v < 256)%N ->
  Funcs.NeedleBodyLength (Z.of_N size) (Z.of_N v) = Z.of_N (Needle.body_length size v).
Proof. exact tie_NeedleBodyLength_proof. Qed.
Print Assumptions tie_NeedleBodyLength.

Theorem tie_GetActualSize : forall size v : N,
  (size <= size_max)%N -> (v < 256)%N ->
  Funcs.GetActualSize (Z.of_N size) (Z.of_N v) = Z.of_N (Needle.actual_size size v).
Proof. exact tie_GetActualSize_proof. Qed.
Print Assumptions tie_GetActualSize.

(* types.Size.IsDeleted / IsValid (C05, C07): every Z *)
Theorem tie_Size_IsDeleted : forall s : Z, Funcs.Size_IsDeleted s = EcIndex.size_is_deleted s.
Proof. exact tie_Size_IsDeleted_proof. Qed.
Print Assumptions tie_Size_IsDeleted.

Theorem tie_Size_IsValid : forall s : Z, Funcs.Size_IsValid s = EcIndex.size_is_valid s.
Proof. exact tie_Size_IsValid_proof. Qed.
Print Assumptions tie_Size_IsValid.

(* needle.TTL (C09): Count and Unit are bytes *)
Theorem tie_TTL_Minutes : forall c u : N, (c < 256)%N -> (u < 256)%N ->
  Funcs.TTL_Minutes (ttl_rec c u) = Z.of_N (Ttl.minutes {| Ttl.t_count := c; Ttl.t_unit := u |}).
Proof. exact tie_TTL_Minutes_proof. Qed.
Print Assumptions tie_TTL_Minutes.

Theorem tie_TTL_ToUint32 : forall c u : N, (c < 256)%N -> (u < 256)%N ->
  Funcs.TTL_ToUint32 false (ttl_rec c u) = Z.of_N (Ttl.to_uint32 {| Ttl.t_count := c; Ttl.t_unit := u |}).
Proof. exact tie_TTL_ToUint32_proof. Qed.
Print Assumptions tie_TTL_ToUint32.

Theorem tie_toStoredByte : forall a : Ascii.ascii,
  Funcs.toStoredByte (Z.of_N (Ascii.N_of_ascii a)) = Z.of_N (Ttl.to_stored_byte a).
Proof. exact tie_toStoredByte_proof. Qed.
Print Assumptions tie_toStoredByte.

(* SecondsToTTL(int32) string: every Z (no operation of the function can leave int32) *)
Theorem tie_SecondsToTTL : forall s : Z, render_fmt (Funcs.SecondsToTTL s) = Ttl.seconds_to_ttl s.
Proof. exact tie_SecondsToTTL_proof. Qed.
Print Assumptions tie_SecondsToTTL.

(* super_block.ReplicaPlacement (C08, C10, C15) *)
Theorem tie_ReplicaPlacement_Byte : forall dc rack same : N,
  (dc < 2 ^ 56)%N -> (rack < 2 ^ 56)%N -> (same < 2 ^ 56)%N ->
  Funcs.ReplicaPlacement_Byte false (rp_rec dc rack same) = Z.of_N (Codecs.rp_byte (dc, rack, same)).
Proof. exact tie_ReplicaPlacement_Byte_proof. Qed.
Print Assumptions tie_ReplicaPlacement_Byte.

Theorem tie_ReplicaPlacement_GetCopyCount : forall (nilflag : bool) (dc rack same : nat),
  Z.of_nat dc < 2 ^ 61 -> Z.of_nat rack < 2 ^ 61 -> Z.of_nat same < 2 ^ 61 ->
  Funcs.ReplicaPlacement_GetCopyCount nilflag (rp_rec (N.of_nat dc) (N.of_nat rack) (N.of_nat same)) =
  Z.of_nat (VolPlanner.copy_count {| VolPlanner.rp_dc := dc; VolPlanner.rp_rack := rack; VolPlanner.rp_same := same |}).
Proof. exact tie_ReplicaPlacement_GetCopyCount_proof. Qed.
Print Assumptions tie_ReplicaPlacement_GetCopyCount.

(* erasure_coding ec_locate.go (C06): max63 = MaxInt64; offsets, sizes and block lengths are non-negative,
   the bounds are the no-overflow conditions of the int64 code against the model's unbounded Z *)
Theorem tie_locateOffsetWithinBlocks : forall bl off,
  0 < bl <= max63 -> 0 <= off <= max63 ->
  Funcs.locateOffsetWithinBlocks bl off = Some (EC.locate_within bl off).
Proof. exact tie_locateOffsetWithinBlocks_proof. Qed.
Print Assumptions tie_locateOffsetWithinBlocks.

Theorem tie_locateOffset : forall L S D off,
  0 < L -> L * 10 <= max63 -> 0 < S <= max63 -> 0 <= D <= max63 -> 0 <= off <= max63 ->
  Funcs.locateOffset L S D off = Some (EC.locate_offset L S D off).
Proof. exact tie_locateOffset_proof. Qed.
Print Assumptions tie_locateOffset.

Theorem tie_Interval_ToShardIdAndOffset : forall (iv : EC.interval) L S,
  0 <= EC.i_block iv <= max63 -> 0 <= EC.i_inner iv -> 0 <= EC.i_rows iv -> 0 <= L -> 0 <= S ->
  (if EC.i_large iv then EC.i_inner iv + Z.quot (EC.i_block iv) 10 * L
   else EC.i_inner iv + (EC.i_rows iv * L + Z.quot (EC.i_block iv) 10 * S)) <= max63 ->
  Funcs.Interval_ToShardIdAndOffset (conv_iv iv) L S = EC.to_shard_offset L S iv.
Proof. exact tie_Interval_ToShardIdAndOffset_proof. Qed.
Print Assumptions tie_Interval_ToShardIdAndOffset.

(* LocateData: a `for size > 0` loop appending to the result slice; fuel size+1 suffices *)
Theorem tie_LocateData : forall L S D off size (fuel : nat),
  0 < L -> L * 10 <= max63 -> 0 < S <= max63 -> 0 <= D <= max63 ->
  0 <= off -> 0 <= size < 2147483648 -> off + size <= max63 ->
  (Z.to_nat size + 1 <= fuel)%nat ->
  Funcs.LocateData fuel L S D off size = Some (map conv_iv (EC.locate_data L S D off size)).
Proof. exact tie_LocateData_proof. Qed.
Print Assumptions tie_LocateData.

(* needle.CRC.Value (C02): the stored checksum word of a raw CRC32-C value *)
Theorem tie_CRC_Value : forall c : N, (c < 4294967296)%N ->
  Funcs.CRC_Value (Z.of_N c) = Z.of_N (Needle.crc_value c).
Proof. exact tie_CRC_Value_proof. Qed.
Print Assumptions tie_CRC_Value.

(* topology.DiskUsageCounts.FreeSpace (C10, C12): counters within +-2^61 (no int64 overflow) *)
Theorem tie_DiskUsageCounts_FreeSpace : forall (nilflag : bool) (c : TopoPlace.counts),
  small61 (TopoPlace.volumeCount c) -> small61 (TopoPlace.remoteVolumeCount c) ->
  small61 (TopoPlace.ecShardCount c) -> small61 (TopoPlace.maxVolumeCount c) ->
  Funcs.DiskUsageCounts_FreeSpace nilflag (conv_counts c) = TopoPlace.free_space c.
Proof. exact tie_DiskUsageCounts_FreeSpace_proof. Qed.
Print Assumptions tie_DiskUsageCounts_FreeSpace.

(* operation.StorageOption.TtlString (C09): the filer's TtlSec -> volume TTL string *)
Theorem tie_StorageOption_TtlString : forall (nilflag fsync : bool) (s growth : Z),
  render_fmt (Funcs.StorageOption_TtlString nilflag (Funcs.mkStorageOption s fsync growth)) = Ttl.seconds_to_ttl s.
Proof. exact tie_StorageOption_TtlString_proof. Qed.
Print Assumptions tie_StorageOption_TtlString.

(* types.ToOffset / Offset.ToActualOffset / Offset.IsZero, 4-byte offsets (C03, C05, C07): the models keep the
   stored offset as the number off/8; the Go code splits it into 4 bytes (offset_units reads them back) *)
Theorem tie_ToOffset : forall off, 0 <= off < 34359738368 ->
  offset_units (Funcs.ToOffset off) = off / 8 /\
  0 <= Funcs.Offset_b0 (Funcs.ToOffset off) < 256 /\ 0 <= Funcs.Offset_b1 (Funcs.ToOffset off) < 256 /\
  0 <= Funcs.Offset_b2 (Funcs.ToOffset off) < 256 /\ 0 <= Funcs.Offset_b3 (Funcs.ToOffset off) < 256.
Proof. exact tie_ToOffset_proof. Qed.
Print Assumptions tie_ToOffset.

Theorem tie_Offset_ToActualOffset : forall b3 b2 b1 b0,
  0 <= b0 < 256 -> 0 <= b1 < 256 -> 0 <= b2 < 256 -> 0 <= b3 < 256 ->
  Funcs.Offset_ToActualOffset (Funcs.mkOffset b3 b2 b1 b0) = 8 * offset_units (Funcs.mkOffset b3 b2 b1 b0).
Proof. exact tie_Offset_ToActualOffset_proof. Qed.
Print Assumptions tie_Offset_ToActualOffset.

Theorem tie_Offset_roundtrip : forall off, 0 <= off < 34359738368 ->
  Funcs.Offset_ToActualOffset (Funcs.ToOffset off) = 8 * (off / 8).
Proof. exact tie_Offset_roundtrip_proof. Qed.
Print Assumptions tie_Offset_roundtrip.

Theorem tie_Offset_IsZero : forall off, 0 <= off < 34359738368 ->
  Funcs.Offset_IsZero (Funcs.ToOffset off) = (off / 8 =? 0).
Proof. exact tie_Offset_IsZero_proof. Qed.
Print Assumptions tie_Offset_IsZero.

(* erasure_coding.ShardBits (C12, C16): ids below 32 (shard ids are < 14) *)
Theorem tie_ShardBits_AddShardId : forall b i : N, (i < 32)%N ->
  Funcs.ShardBits_AddShardId (Z.of_N b) (Z.of_N i) = Z.of_N (EcBalance.add_id b i).
Proof. exact tie_ShardBits_AddShardId_proof. Qed.
Print Assumptions tie_ShardBits_AddShardId.

Theorem tie_ShardBits_RemoveShardId : forall b i : N, (i < 32)%N ->
  Funcs.ShardBits_RemoveShardId (Z.of_N b) (Z.of_N i) = Z.of_N (EcBalance.remove_id b i).
Proof. exact tie_ShardBits_RemoveShardId_proof. Qed.
Print Assumptions tie_ShardBits_RemoveShardId.

Theorem tie_ShardBits_HasShardId : forall b i : N, (i < 32)%N ->
  Funcs.ShardBits_HasShardId (Z.of_N b) (Z.of_N i) = EcBalance.has b i.
Proof. exact tie_ShardBits_HasShardId_proof. Qed.
Print Assumptions tie_ShardBits_HasShardId.

Theorem tie_ShardBits_Minus : forall a b : N,
  Funcs.ShardBits_Minus (Z.of_N a) (Z.of_N b) = Z.of_N (N.ldiff a b).
Proof. exact tie_ShardBits_Minus_proof. Qed.
Print Assumptions tie_ShardBits_Minus.

Theorem tie_ShardBits_Plus : forall a b : N,
  Funcs.ShardBits_Plus (Z.of_N a) (Z.of_N b) = Z.of_N (N.lor a b).
Proof. exact tie_ShardBits_Plus_proof. Qed.
Print Assumptions tie_ShardBits_Plus.

(* ShardBits.ShardIdCount (C12): the loop `for count = 0; b > 0; count++ { b &= b - 1 }` computes the
   structural bit count of the model; fuel popcount+1 suffices, 33 always does for a uint32 *)
Theorem tie_ShardBits_ShardIdCount : forall (n : N) (fuel : nat),
  (n < 4294967296)%N -> (Z.to_nat (TopoCount.popcount n) + 1 <= fuel)%nat ->
  Funcs.ShardBits_ShardIdCount fuel (Z.of_N n) = Some (TopoCount.popcount n).
Proof. exact tie_ShardBits_ShardIdCount_proof. Qed.
Print Assumptions tie_ShardBits_ShardIdCount.

Theorem tie_ShardIdCount_fuel : forall n : N, (n < 4294967296)%N -> TopoCount.popcount n <= 32.
Proof. exact popcount_u32. Qed.
Print Assumptions tie_ShardIdCount_fuel.
