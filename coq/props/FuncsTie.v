(* Translator tie for function bodies (DESIGN.md section 3.1).
   gen/Funcs.v is REGENERATED from the Go source text of the tree on every run by
   harness/cmd/funcgen (go/parser + go/ast; fixed-width integer semantics of
   base/GoInt.v).  Every theorem below states that one generated definition equals the
   hand-written model function the property theorems are about, on the stated range of
   the Go parameter types.  A semantic change of such a Go function therefore breaks a
   proof obligation here, for all inputs, before any sampled case runs.
   Proofs: proof/FuncsTieProofs.v. *)
From Coq Require Import ZArith NArith List Bool.
From SW Require Import base.GoInt.
From SW Require gen.Funcs.
From SW Require gen.Funcs5.
From SW Require model.Needle model.EcIndex model.EC model.Ttl model.Codecs model.VolPlanner model.TopoPlace model.EcBalance model.TopoCount model.NeedleMap model.Chunks model.S3Paths.
From SW Require proof.FuncsTieProofs.
Import FuncsTieProofs.
Import ListNotations.
Local Open Scope Z_scope.

(* needle.PaddingLength / NeedleBodyLength / GetActualSize (C02, C03, C04): size is an int32 >= 0;
   size_max = MaxInt32 - 28 keeps NeedleHeaderSize+size+NeedleChecksumSize+TimestampSize inside int32 *)
Theorem tie_PaddingLength : forall size v : N,
  (size <= size_max)%N -> (v < 256)%N ->
  Funcs.PaddingLength (Z.of_N size) (Z.of_N v) = Z.of_N (Needle.padding_length size v).
Proof. exact tie_PaddingLength_proof. Qed.
Print Assumptions tie_PaddingLength.

Theorem tie_NeedleBodyLength : forall size v : N,
  (size <= size_max)%N -> (v < 256)%N ->
  Funcs.NeedleBodyLength (Z.of_N size) (Z.of_N v) = Z.of_N (Needle.body_length size v).
Proof. exact tie_NeedleBodyLength_proof. Qed.
Print Assumptions tie_NeedleBodyLength.

Theorem tie_GetActualSize : forall size v : N,
  (size <= size_max)%N -> (v < 256)%N ->
  Funcs.GetActualSize (Z.of_N size) (Z.of_N v) = Z.of_N (Needle.actual_size size v).
Proof. exact tie_GetActualSize_proof. Qed.
Print Assumptions tie_GetActualSize.

(* types.Size.IsDeleted / IsValid (C05, C07): every Z *)
Theorem tie_Size_IsDeleted : forall s : Z, Funcs.Size_IsDeleted s = EcIndex.size_is_deleted s.
Proof. exact tie_Size_IsDeleted_proof. Qed.
Print Assumptions tie_Size_IsDeleted.

Theorem tie_Size_IsValid : forall s : Z, Funcs.Size_IsValid s = EcIndex.size_is_valid s.
Proof. exact tie_Size_IsValid_proof. Qed.
Print Assumptions tie_Size_IsValid.

(* needle.TTL (C09): Count and Unit are bytes *)
Theorem tie_TTL_Minutes : forall c u : N, (c < 256)%N -> (u < 256)%N ->
  Funcs.TTL_Minutes (ttl_rec c u) = Z.of_N (Ttl.minutes {| Ttl.t_count := c; Ttl.t_unit := u |}).
Proof. exact tie_TTL_Minutes_proof. Qed.
Print Assumptions tie_TTL_Minutes.

Theorem tie_TTL_ToUint32 : forall c u : N, (c < 256)%N -> (u < 256)%N ->
  Funcs.TTL_ToUint32 false (ttl_rec c u) = Z.of_N (Ttl.to_uint32 {| Ttl.t_count := c; Ttl.t_unit := u |}).
Proof. exact tie_TTL_ToUint32_proof. Qed.
Print Assumptions tie_TTL_ToUint32.

Theorem tie_toStoredByte : forall a : Ascii.ascii,
  Funcs.toStoredByte (Z.of_N (Ascii.N_of_ascii a)) = Z.of_N (Ttl.to_stored_byte a).
Proof. exact tie_toStoredByte_proof. Qed.
Print Assumptions tie_toStoredByte.

(* SecondsToTTL(int32) string: every Z (no operation of the function can leave int32) *)
Theorem tie_SecondsToTTL : forall s : Z, render_fmt (Funcs.SecondsToTTL s) = Ttl.seconds_to_ttl s.
Proof. exact tie_SecondsToTTL_proof. Qed.
Print Assumptions tie_SecondsToTTL.

(* super_block.ReplicaPlacement (C08, C10, C15) *)
Theorem tie_ReplicaPlacement_Byte : forall dc rack same : N,
  (dc < 2 ^ 56)%N -> (rack < 2 ^ 56)%N -> (same < 2 ^ 56)%N ->
  Funcs.ReplicaPlacement_Byte false (rp_rec dc rack same) = Z.of_N (Codecs.rp_byte (dc, rack, same)).
Proof. exact tie_ReplicaPlacement_Byte_proof. Qed.
Print Assumptions tie_ReplicaPlacement_Byte.

Theorem tie_ReplicaPlacement_GetCopyCount : forall (nilflag : bool) (dc rack same : nat),
  Z.of_nat dc < 2 ^ 61 -> Z.of_nat rack < 2 ^ 61 -> Z.of_nat same < 2 ^ 61 ->
  Funcs.ReplicaPlacement_GetCopyCount nilflag (rp_rec (N.of_nat dc) (N.of_nat rack) (N.of_nat same)) =
  Z.of_nat (VolPlanner.copy_count {| VolPlanner.rp_dc := dc; VolPlanner.rp_rack := rack; VolPlanner.rp_same := same |}).
Proof. exact tie_ReplicaPlacement_GetCopyCount_proof. Qed.
Print Assumptions tie_ReplicaPlacement_GetCopyCount.

(* erasure_coding ec_locate.go (C06): max63 = MaxInt64; offsets, sizes and block lengths are non-negative,
   the bounds are the no-overflow conditions of the int64 code against the model's unbounded Z *)
Theorem tie_locateOffsetWithinBlocks : forall bl off,
  0 < bl <= max63 -> 0 <= off <= max63 ->
  Funcs.locateOffsetWithinBlocks bl off = Some (EC.locate_within bl off).
Proof. exact tie_locateOffsetWithinBlocks_proof. Qed.
Print Assumptions tie_locateOffsetWithinBlocks.

Theorem tie_locateOffset : forall L S D off,
  0 < L -> L * 10 <= max63 -> 0 < S <= max63 -> 0 <= D <= max63 -> 0 <= off <= max63 ->
  Funcs.locateOffset L S D off = Some (EC.locate_offset L S D off).
Proof. exact tie_locateOffset_proof. Qed.
Print Assumptions tie_locateOffset.

Theorem tie_Interval_ToShardIdAndOffset : forall (iv : EC.interval) L S,
  0 <= EC.i_block iv <= max63 -> 0 <= EC.i_inner iv -> 0 <= EC.i_rows iv -> 0 <= L -> 0 <= S ->
  (if EC.i_large iv then EC.i_inner iv + Z.quot (EC.i_block iv) 10 * L
   else EC.i_inner iv + (EC.i_rows iv * L + Z.quot (EC.i_block iv) 10 * S)) <= max63 ->
  Funcs.Interval_ToShardIdAndOffset (conv_iv iv) L S = EC.to_shard_offset L S iv.
Proof. exact tie_Interval_ToShardIdAndOffset_proof. Qed.
Print Assumptions tie_Interval_ToShardIdAndOffset.

(* LocateData: a `for size > 0` loop appending to the result slice; fuel size+1 suffices *)
Theorem tie_LocateData : forall L S D off size (fuel : nat),
  0 < L -> L * 10 <= max63 -> 0 < S <= max63 -> 0 <= D <= max63 ->
  0 <= off -> 0 <= size < 2147483648 -> off + size <= max63 ->
  (Z.to_nat size + 1 <= fuel)%nat ->
  Funcs.LocateData fuel L S D off size = Some (map conv_iv (EC.locate_data L S D off size)).
Proof. exact tie_LocateData_proof. Qed.
Print Assumptions tie_LocateData.

(* needle.CRC.Value (C02): the stored checksum word of a raw CRC32-C value *)
Theorem tie_CRC_Value : forall c : N, (c < 4294967296)%N ->
  Funcs.CRC_Value (Z.of_N c) = Z.of_N (Needle.crc_value c).
Proof. exact tie_CRC_Value_proof. Qed.
Print Assumptions tie_CRC_Value.

(* topology.DiskUsageCounts.FreeSpace (C10, C12): counters within +-2^61 (no int64 overflow) *)
Theorem tie_DiskUsageCounts_FreeSpace : forall (nilflag : bool) (c : TopoPlace.counts),
  small61 (TopoPlace.volumeCount c) -> small61 (TopoPlace.remoteVolumeCount c) ->
  small61 (TopoPlace.ecShardCount c) -> small61 (TopoPlace.maxVolumeCount c) ->
  Funcs.DiskUsageCounts_FreeSpace nilflag (conv_counts c) = TopoPlace.free_space c.
Proof. exact tie_DiskUsageCounts_FreeSpace_proof. Qed.
Print Assumptions tie_DiskUsageCounts_FreeSpace.

(* operation.StorageOption.TtlString (C09): the filer's TtlSec -> volume TTL string *)
Theorem tie_StorageOption_TtlString : forall (nilflag fsync : bool) (s growth : Z),
  render_fmt (Funcs.StorageOption_TtlString nilflag (Funcs.mkStorageOption s fsync growth)) = Ttl.seconds_to_ttl s.
Proof. exact tie_StorageOption_TtlString_proof. Qed.
Print Assumptions tie_StorageOption_TtlString.

(* types.ToOffset / Offset.ToActualOffset / Offset.IsZero, 4-byte offsets (C03, C05, C07): the models keep the
   stored offset as the number off/8; the Go code splits it into 4 bytes (offset_units reads them back) *)
Theorem tie_ToOffset : forall off, 0 <= off < 34359738368 ->
  offset_units (Funcs.ToOffset off) = off / 8 /\
  0 <= Funcs.Offset_b0 (Funcs.ToOffset off) < 256 /\ 0 <= Funcs.Offset_b1 (Funcs.ToOffset off) < 256 /\
  0 <= Funcs.Offset_b2 (Funcs.ToOffset off) < 256 /\ 0 <= Funcs.Offset_b3 (Funcs.ToOffset off) < 256.
Proof. exact tie_ToOffset_proof. Qed.
Print Assumptions tie_ToOffset.

Theorem tie_Offset_ToActualOffset : forall b3 b2 b1 b0,
  0 <= b0 < 256 -> 0 <= b1 < 256 -> 0 <= b2 < 256 -> 0 <= b3 < 256 ->
  Funcs.Offset_ToActualOffset (Funcs.mkOffset b3 b2 b1 b0) = 8 * offset_units (Funcs.mkOffset b3 b2 b1 b0).
Proof. exact tie_Offset_ToActualOffset_proof. Qed.
Print Assumptions tie_Offset_ToActualOffset.

Theorem tie_Offset_roundtrip : forall off, 0 <= off < 34359738368 ->
  Funcs.Offset_ToActualOffset (Funcs.ToOffset off) = 8 * (off / 8).
Proof. exact tie_Offset_roundtrip_proof. Qed.
Print Assumptions tie_Offset_roundtrip.

Theorem tie_Offset_IsZero : forall off, 0 <= off < 34359738368 ->
  Funcs.Offset_IsZero (Funcs.ToOffset off) = (off / 8 =? 0).
Proof. exact tie_Offset_IsZero_proof. Qed.
Print Assumptions tie_Offset_IsZero.

(* erasure_coding.ShardBits (C12, C16): ids below 32 (shard ids are < 14) *)
Theorem tie_ShardBits_AddShardId : forall b i : N, (i < 32)%N ->
  Funcs.ShardBits_AddShardId (Z.of_N b) (Z.of_N i) = Z.of_N (EcBalance.add_id b i).
Proof. exact tie_ShardBits_AddShardId_proof. Qed.
Print Assumptions tie_ShardBits_AddShardId.

Theorem tie_ShardBits_RemoveShardId : forall b i : N, (i < 32)%N ->
  Funcs.ShardBits_RemoveShardId (Z.of_N b) (Z.of_N i) = Z.of_N (EcBalance.remove_id b i).
Proof. exact tie_ShardBits_RemoveShardId_proof. Qed.
Print Assumptions tie_ShardBits_RemoveShardId.

Theorem tie_ShardBits_HasShardId : forall b i : N, (i < 32)%N ->
  Funcs.ShardBits_HasShardId (Z.of_N b) (Z.of_N i) = EcBalance.has b i.
Proof. exact tie_ShardBits_HasShardId_proof. Qed.
Print Assumptions tie_ShardBits_HasShardId.

Theorem tie_ShardBits_Minus : forall a b : N,
  Funcs.ShardBits_Minus (Z.of_N a) (Z.of_N b) = Z.of_N (N.ldiff a b).
Proof. exact tie_ShardBits_Minus_proof. Qed.
Print Assumptions tie_ShardBits_Minus.

Theorem tie_ShardBits_Plus : forall a b : N,
  Funcs.ShardBits_Plus (Z.of_N a) (Z.of_N b) = Z.of_N (N.lor a b).
Proof. exact tie_ShardBits_Plus_proof. Qed.
Print Assumptions tie_ShardBits_Plus.

(* ShardBits.ShardIdCount (C12): the loop `for count = 0; b > 0; count++ { b &= b - 1 }` computes the
   structural bit count of the model; fuel popcount+1 suffices, 33 always does for a uint32 *)
Theorem tie_ShardBits_ShardIdCount : forall (n : N) (fuel : nat),
  (n < 4294967296)%N -> (Z.to_nat (TopoCount.popcount n) + 1 <= fuel)%nat ->
  Funcs.ShardBits_ShardIdCount fuel (Z.of_N n) = Some (TopoCount.popcount n).
Proof. exact tie_ShardBits_ShardIdCount_proof. Qed.
Print Assumptions tie_ShardBits_ShardIdCount.

Theorem tie_ShardIdCount_fuel : forall n : N, (n < 4294967296)%N -> TopoCount.popcount n <= 32.
Proof. exact popcount_u32. Qed.
Print Assumptions tie_ShardIdCount_fuel.

(* ================= anonymous literals (gen/Funcs.v, section "anonymous literals"; harness/cmd/funcgen/lits.go) =================
   Each Lit_* is read from the Go function body by a structural pattern that must match exactly once. *)

(* C03 / C07: CheckAndFixVolumeDataIntegrity verifies the last 10 index entries *)
Theorem lit_CheckAndFix_window : forall es recs len,
  EcIndex.dm_check_fix es recs len =
  EcIndex.dm_cf_loop (Z.to_nat Funcs.Lit_CheckAndFix_window) (rev es) (N.of_nat (List.length es) - 1) recs len (N.of_nat (List.length es)).
Proof. exact lit_CheckAndFix_window_proof. Qed.
Print Assumptions lit_CheckAndFix_window.

Theorem lit_CheckAndFix_window_pin : Funcs.Lit_CheckAndFix_window = 10.   (* VolumeCrash.check_and_fix: check_loop 10 *)
Proof. exact lit_CheckAndFix_window_pin_proof. Qed.
Print Assumptions lit_CheckAndFix_window_pin.

(* C05: CompactSection.Set look-back *)
Theorem lit_lookback : Funcs.Lit_CompactSection_Set_lookback = Z.of_nat NeedleMap.lookback.
Proof. exact lit_lookback_proof. Qed.
Print Assumptions lit_lookback.

(* C08: SuperBlock.Bytes extra size limit 256*256-2 *)
Theorem lit_sb_extra_max : Funcs.Lit_SuperBlock_Bytes_extraMax = Z.of_N Codecs.sb_extra_max.
Proof. exact lit_sb_extra_max_proof. Qed.
Print Assumptions lit_sb_extra_max.

(* C17: math.MaxInt64 as "to the end" in ViewFromChunks / ViewFromVisibleIntervals *)
Theorem lit_max_int64 :
  Funcs.Lit_ViewFromVisibleIntervals_toEnd = Z.of_N Chunks.max_int64 /\
  Funcs.Lit_ViewFromChunks_stop = Z.of_N Chunks.max_int64.
Proof. exact lit_max_int64_proof. Qed.
Print Assumptions lit_max_int64.

(* C29: the default buckets folder and the uploads folder format "%s/%s/.uploads" *)
Theorem lit_buckets_path : Funcs.Lit_startS3Server_bucketsPath = S3Paths.buckets_path.
Proof. exact lit_buckets_path_proof. Qed.
Print Assumptions lit_buckets_path.

Theorem lit_uploads_folder : forall b : String.string,
  S3Paths.uploads_dir b = subst_s Funcs.Lit_genUploadsFolder_format [S3Paths.buckets_path; b].
Proof. exact lit_uploads_folder_proof. Qed.
Print Assumptions lit_uploads_folder.

(* C08: ParseNeedleIdCookie length limits CookieSize*2 = 8 and (NeedleIdSize+CookieSize)*2 = 24 *)
Theorem lit_parse_key_cookie : forall s : list N,
  Codecs.parse_key_cookie s =
  if (Needle.len s <=? Z.to_N Funcs.Lit_ParseNeedleIdCookie_minLen)%N then None
  else if (Z.to_N Funcs.Lit_ParseNeedleIdCookie_maxLen <? Needle.len s)%N then None
  else
    let split := (Needle.len s - Z.to_N Funcs.Lit_ParseNeedleIdCookie_cookieLen)%N in
    match Codecs.parse_uint_hex 64 (Needle.takeN split s) with
    | None => None
    | Some key => match Codecs.parse_uint_hex 32 (Needle.dropN split s) with
                  | None => None
                  | Some cookie => Some (key, cookie)
                  end
    end.
Proof. exact lit_parse_key_cookie_proof. Qed.
Print Assumptions lit_parse_key_cookie.

(* pinned literals (the model / check / harness uses the number inline; see proof/FuncsTieProofs.v):
   C05 batch; C06 EC buffer sizes; C38 startWorker limits and channel capacity; C18 rename page size;
   C22 log buffer constants; C14 vacuum comparison operator (5 = >=) and timeout constants *)
Theorem lit_pins :
  Funcs.Lit_needle_map_batch = 100000 /\
  Funcs.Lit_WriteEcFiles_bufferSize = 262144 /\ Funcs.Lit_RebuildEcFiles_bufferSize = 262144 /\
  Funcs.Lit_startWorker_maxBytes = 4194304 /\ Funcs.Lit_startWorker_maxRequests = 128 /\
  Funcs.Lit_NewVolume_chanCapacity = 128 /\
  Funcs.Lit_moveFolderSubEntries_pageSize = 1024 /\
  Funcs.Lit_log_buffer_PreviousBufferCount = 3 /\ Funcs.Lit_log_buffer_BufferSize = 4194304 /\
  Funcs.Lit_NewLogBuffer_flushChanCapacity = 256 /\
  Funcs.Lit_batchVacuumVolumeCheck_cmp = 5 /\ Funcs.Lit_batchVacuumVolumeCheck_timeoutDivisor = 1000 /\
  Funcs.Lit_batchVacuumVolumeCompact_timeoutFactor = 3.
Proof. exact lit_pins_proof. Qed.
Print Assumptions lit_pins.

(* C11: the master's refresh loop and registration compare sizes with the limit by >= (operator code 5),
   the crowded test by > (code 4): TopoMulti.is_full = (limit <=? size), is_crowded = (limit*9 <? size*10),
   TopoLayout.remember_oversized = (c_limit c <=? vi_size vi) *)
Theorem lit_collect_pins :
  Funcs.Lit_CollectFull_cmp = 5 /\ Funcs.Lit_CollectCrowded_cmp = 4 /\ Funcs.Lit_isOversized_cmp = 5.
Proof. exact lit_collect_pins_proof. Qed.
Print Assumptions lit_collect_pins.

(* ================= offset width: 4-byte build (gen/Funcs.v) and 5BytesOffset build (gen/Funcs5.v) (C03 C05 C07 C08) ================= *)

Theorem tie_ToOffset_w4 : forall a : N, Z.of_N a <= max63 ->
  offset_units (Funcs.ToOffset (Z.of_N a)) = Z.of_N (Codecs.to_offset_w 4 a).
Proof. exact tie_ToOffset_w4_proof. Qed.
Print Assumptions tie_ToOffset_w4.

Theorem tie5_ToOffset : forall a : N, Z.of_N a <= max63 ->
  offset_units5 (Funcs5.ToOffset (Z.of_N a)) = Z.of_N (Codecs.to_offset_w 5 a) /\
  0 <= Funcs5.Offset_b0 (Funcs5.ToOffset (Z.of_N a)) < 256 /\ 0 <= Funcs5.Offset_b1 (Funcs5.ToOffset (Z.of_N a)) < 256 /\
  0 <= Funcs5.Offset_b2 (Funcs5.ToOffset (Z.of_N a)) < 256 /\ 0 <= Funcs5.Offset_b3 (Funcs5.ToOffset (Z.of_N a)) < 256 /\
  0 <= Funcs5.Offset_b4 (Funcs5.ToOffset (Z.of_N a)) < 256.
Proof. exact tie5_ToOffset_proof. Qed.
Print Assumptions tie5_ToOffset.

Theorem tie5_Offset_ToActualOffset : forall b4 b3 b2 b1 b0,
  0 <= b0 < 256 -> 0 <= b1 < 256 -> 0 <= b2 < 256 -> 0 <= b3 < 256 -> 0 <= b4 < 256 ->
  Funcs5.Offset_ToActualOffset (Funcs5.mkOffset b4 b3 b2 b1 b0) = 8 * offset_units5 (Funcs5.mkOffset b4 b3 b2 b1 b0).
Proof. exact tie5_Offset_ToActualOffset_proof. Qed.
Print Assumptions tie5_Offset_ToActualOffset.

Theorem tie5_Offset_roundtrip : forall a : N, (a < Codecs.max_volume_size 5)%N ->
  Funcs5.Offset_ToActualOffset (Funcs5.ToOffset (Z.of_N a)) = 8 * (Z.of_N a / 8).
Proof. exact tie5_Offset_roundtrip_proof. Qed.
Print Assumptions tie5_Offset_roundtrip.

Theorem tie5_Offset_IsZero : forall a : N, Z.of_N a <= max63 ->
  Funcs5.Offset_IsZero (Funcs5.ToOffset (Z.of_N a)) = (Codecs.to_offset_w 5 a =? 0)%N.
Proof. exact tie5_Offset_IsZero_proof. Qed.
Print Assumptions tie5_Offset_IsZero.

Theorem tie_BytesToOffset_w4 : forall x0 x1 x2 x3 : N,
  exists o, Funcs.BytesToOffset [Z.of_N x0; Z.of_N x1; Z.of_N x2; Z.of_N x3] = Some o /\
            offset_units o = Z.of_N (Codecs.off_parse 4 [x0; x1; x2; x3]).
Proof. exact tie_BytesToOffset_w4_proof. Qed.
Print Assumptions tie_BytesToOffset_w4.

Theorem tie5_BytesToOffset : forall x0 x1 x2 x3 x4 : N,
  exists o, Funcs5.BytesToOffset [Z.of_N x0; Z.of_N x1; Z.of_N x2; Z.of_N x3; Z.of_N x4] = Some o /\
            offset_units5 o = Z.of_N (Codecs.off_parse 5 [x0; x1; x2; x3; x4]).
Proof. exact tie5_BytesToOffset_proof. Qed.
Print Assumptions tie5_BytesToOffset.

Theorem tie5_BytesToOffset_short : forall b : list Z, (List.length b < 5)%nat -> Funcs5.BytesToOffset b = None.
Proof. exact tie5_BytesToOffset_short_proof. Qed.
Print Assumptions tie5_BytesToOffset_short.

Theorem tie_width_consts :
  Funcs.Const_OffsetSize = 4 /\ Funcs5.Const_OffsetSize = 5 /\
  Funcs.Const_MaxPossibleVolumeSize = Z.of_N (Codecs.max_volume_size 4) /\
  Funcs5.Const_MaxPossibleVolumeSize = Z.of_N (Codecs.max_volume_size 5) /\
  Funcs.Const_NeedleMapEntrySize = Z.of_N (EcIndex.entry_size 4) /\
  Funcs5.Const_NeedleMapEntrySize = Z.of_N (EcIndex.entry_size 5).
Proof. exact tie_width_consts_proof. Qed.
Print Assumptions tie_width_consts.

(* ================= big-endian byte readers (weed/util/bytes.go, weed/storage/types): loops over a slice (C02 C05 C07 C08) =================
   slices are lists; b[i] out of range is a panic (None).  be_decode is the models' big-endian reading. *)
Theorem tie_BytesToUint32 : forall (l : list N) (fuel : nat),
  Forall (fun x => (x < 256)%N) l -> (1 <= List.length l <= 4)%nat -> (List.length l <= fuel)%nat ->
  Funcs.BytesToUint32 fuel (map Z.of_N l) = Some (Z.of_N (Needle.be_decode l)).
Proof. exact tie_BytesToUint32_proof. Qed.
Print Assumptions tie_BytesToUint32.

Theorem tie_BytesToUint64 : forall (l : list N) (fuel : nat),
  Forall (fun x => (x < 256)%N) l -> (1 <= List.length l <= 8)%nat -> (List.length l <= fuel)%nat ->
  Funcs.BytesToUint64 fuel (map Z.of_N l) = Some (Z.of_N (Needle.be_decode l)).
Proof. exact tie_BytesToUint64_proof. Qed.
Print Assumptions tie_BytesToUint64.

Theorem tie_BytesToSize : forall (l : list N) (fuel : nat),
  Forall (fun x => (x < 256)%N) l -> (1 <= List.length l <= 4)%nat -> (List.length l <= fuel)%nat ->
  Funcs.BytesToSize fuel (map Z.of_N l) = Some (EcIndex.size_of_u32 (Needle.be_decode l)).
Proof. exact tie_BytesToSize_proof. Qed.
Print Assumptions tie_BytesToSize.

Theorem tie_BytesToNeedleId : forall (l : list N) (fuel : nat),
  Forall (fun x => (x < 256)%N) l -> (1 <= List.length l <= 8)%nat -> (List.length l <= fuel)%nat ->
  Funcs.BytesToNeedleId fuel (map Z.of_N l) = Some (Z.of_N (Needle.be_decode l)).
Proof. exact tie_BytesToNeedleId_proof. Qed.
Print Assumptions tie_BytesToNeedleId.

Theorem tie_BytesToCookie : forall (l : list N) (fuel : nat),
  Forall (fun x => (x < 256)%N) l -> (4 <= List.length l)%nat -> (4 <= fuel)%nat ->
  Funcs.BytesToCookie fuel (map Z.of_N l) = Some (Z.of_N (Needle.be_decode (firstn 4 l))).
Proof. exact tie_BytesToCookie_proof. Qed.
Print Assumptions tie_BytesToCookie.

(* ShardBits.ShardIds (C16): the loop over the 14 shard ids; fuel 15 suffices *)
Theorem tie_ShardBits_ShardIds : forall (b : N) (fuel : nat), (15 <= fuel)%nat ->
  Funcs.ShardBits_ShardIds fuel (Z.of_N b) = Some (map Z.of_N (EcBalance.shard_ids b)).
Proof. exact tie_ShardBits_ShardIds_proof. Qed.
Print Assumptions tie_ShardBits_ShardIds.
