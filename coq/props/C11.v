(* C11 — Writable-volume set and lookups reflect the cluster state.
   Only statements closed by [exact]; proofs live in proof/TopoLayoutProofs.v.

   Histories are lists of [event] (full heartbeat, incremental heartbeat,
   collector sweep, disconnect; a heartbeat after a disconnect is the reconnect)
   run from the empty master state.  [wf_history]: a heartbeat lists each volume
   once and an incremental message does not add and delete the same volume.
   The registered state is [s_nodes]; [holders ns v] are the linked data nodes
   that hold volume v; [crit] is the property's criterion evaluated on it. *)
From Coq Require Import List NArith Bool.
From SW Require Import model.TopoLayout proof.TopoLayoutProofs.
Import ListNotations.
Local Open Scope N_scope.

(* Volume lookups return exactly the servers currently registered for the
   volume (each once) — after every history. *)
Theorem c11_lookup_exact : forall c, 1 <= c_copy c ->
  forall es, wf_history es -> forall v,
    let s := run c init es in
    NoDup (lookup s v) /\ forall n, In n (lookup s v) <-> In n (holders (s_nodes s) v).
Proof. exact lookup_exact. Qed.
Print Assumptions c11_lookup_exact.

(* The writable clause at full strength ([writable_sound c]: after every history,
   a volume in writables satisfies the whole criterion) does NOT hold for the
   code: a volume whose registered size is over the limit and which the collector
   removed is put back by the next ensureCorrectWritables (known finding 0). *)
Theorem c11_writable_sound_refuted : exists c, 1 <= c_copy c /\ 0 < c_limit c /\ ~ writable_sound c.
Proof. exact (ex_intro _ cfg000 (conj (N.le_refl 1) (conj eq_refl writable_sound_refuted))). Qed.
Print Assumptions c11_writable_sound_refuted.

(* What the code guarantees on every history: replica count (equal, or larger
   with replication-as-minimum) and no read-only replica. *)
Theorem c11_writable_copies_rw : forall c, 1 <= c_copy c ->
  forall es, wf_history es -> forall v,
    let s := run c init es in
    writable s v = true ->
    enough c (nlen (holders (s_nodes s) v)) = true /\
    forallb (replica_rw (s_nodes s) v) (holders (s_nodes s) v) = true.
Proof. exact writable_copies_rw. Qed.
Print Assumptions c11_writable_copies_rw.

(* The whole criterion, outside the trigger of finding 0 (no full heartbeat
   reports a size at or over the limit). *)
Theorem c11_writable_sound_partial : forall c, 1 <= c_copy c -> 0 < c_limit c ->
  forall es, wf_history es -> trigger_size c es = false -> forall v,
    let s := run c init es in writable s v = true -> crit c (s_nodes s) v = true.
Proof. exact writable_sound_partial. Qed.
Print Assumptions c11_writable_sound_partial.

(* ... and on every history right after a sweep of the full-volume collector:
   the size clause is enforced only by that periodic sweep. *)
Theorem c11_writable_sound_after_collect : forall c, 1 <= c_copy c ->
  forall es, wf_history es -> forall v,
    let s := run c init (es ++ [ECollect]) in writable s v = true -> crit c (s_nodes s) v = true.
Proof. exact writable_sound_after_collect. Qed.
Print Assumptions c11_writable_sound_after_collect.

(* The size clause already fails between a size report and the next sweep. *)
Theorem c11_size_lag_witness :
  let s := run cfg000 init [EFull 1 [vi 1 10 false]; EFull 1 [vi 1 150 false]] in
  writable s 1 = true /\ crit cfg000 (s_nodes s) 1 = false.
Proof. exact size_lag_witness. Qed.
Print Assumptions c11_size_lag_witness.

(* non-vacuity: a well-formed two-replica history outside the trigger with a
   writable volume that satisfies the criterion *)
Example c11_example :
  wf_history sample_history /\ trigger_size cfg001 sample_history = false /\
  let s := run cfg001 init sample_history in
  writable s 1 = true /\ writable s 2 = false /\ lookup s 1 = [2; 1] /\ crit cfg001 (s_nodes s) 1 = true.
Proof. exact sample_history_ok. Qed.
