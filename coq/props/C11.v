(* C11 — Writable-volume set and lookups reflect the cluster state.
   Only statements closed by [exact]; proofs live in proof/TopoLayoutProofs.v.

   Histories are lists of [event] (full heartbeat, incremental heartbeat,
   collector sweep, disconnect; a heartbeat after a disconnect is the reconnect)
   run from the empty master state.  [wf_history]: a heartbeat lists each volume
   once and an incremental message does not add and delete the same volume.
   The registered state is [s_nodes]; [holders ns v] are the linked data nodes
   that hold volume v; [crit] is the property's criterion evaluated on it. *)
From Coq Require Import List NArith Bool.
From SW Require Import model.TopoLayout model.TopoMulti proof.TopoLayoutProofs proof.TopoLayoutMulti proof.TopoLayoutCollect.
Import ListNotations.
Local Open Scope N_scope.

(* Volume lookups return exactly the servers currently registered for the
   volume (each once) — after every history. *)
Theorem c11_lookup_exact : forall c, 1 <= c_copy c ->
  forall es, wf_history es -> forall v,
    let s := run c init es in
    NoDup (lookup s v) /\ forall n, In n (lookup s v) <-> In n (holders (s_nodes s) v).
Proof. exact lookup_exact. Qed.
Print Assumptions c11_lookup_exact.

(* The writable clause at full strength ([writable_sound c]: after every history,
   a volume in writables satisfies the whole criterion) does NOT hold for the
   code: a volume whose registered size is over the limit and which the collector
   removed is put back by the next ensureCorrectWritables (known finding 0). *)
Theorem c11_writable_sound_refuted : exists c, 1 <= c_copy c /\ 0 < c_limit c /\ ~ writable_sound c.
Proof. exact (ex_intro _ cfg000 (conj (N.le_refl 1) (conj eq_refl writable_sound_refuted))). Qed.
Print Assumptions c11_writable_sound_refuted.

(* What the code guarantees on every history: replica count (equal, or larger
   with replication-as-minimum) and no read-only replica. *)
Theorem c11_writable_copies_rw : forall c, 1 <= c_copy c ->
  forall es, wf_history es -> forall v,
    let s := run c init es in
    writable s v = true ->
    enough c (nlen (holders (s_nodes s) v)) = true /\
    forallb (replica_rw (s_nodes s) v) (holders (s_nodes s) v) = true.
Proof. exact writable_copies_rw. Qed.
Print Assumptions c11_writable_copies_rw.

(* The whole criterion, outside the trigger of finding 0 (no full heartbeat
   reports a size at or over the limit). *)
Theorem c11_writable_sound_partial : forall c, 1 <= c_copy c -> 0 < c_limit c ->
  forall es, wf_history es -> trigger_size c es = false -> forall v,
    let s := run c init es in writable s v = true -> crit c (s_nodes s) v = true.
Proof. exact writable_sound_partial. Qed.
Print Assumptions c11_writable_sound_partial.

(* ... and on every history right after a sweep of the full-volume collector:
   the size clause is enforced only by that periodic sweep. *)
Theorem c11_writable_sound_after_collect : forall c, 1 <= c_copy c ->
  forall es, wf_history es -> forall v,
    let s := run c init (es ++ [ECollect]) in writable s v = true -> crit c (s_nodes s) v = true.
Proof. exact writable_sound_after_collect. Qed.
Print Assumptions c11_writable_sound_after_collect.

(* The size clause already fails between a size report and the next sweep. *)
Theorem c11_size_lag_witness :
  let s := run cfg000 init [EFull 1 [vi 1 10 false]; EFull 1 [vi 1 150 false]] in
  writable s 1 = true /\ crit cfg000 (s_nodes s) 1 = false.
Proof. exact size_lag_witness. Qed.
Print Assumptions c11_size_lag_witness.

(* non-vacuity: a well-formed two-replica history outside the trigger with a
   writable volume that satisfies the criterion *)
Example c11_example :
  wf_history sample_history /\ trigger_size cfg001 sample_history = false /\
  let s := run cfg001 init sample_history in
  writable s 1 = true /\ writable s 2 = false /\ lookup s 1 = [2; 1] /\ crit cfg001 (s_nodes s) 1 = true.
Proof. exact sample_history_ok. Qed.
Print Assumptions c11_example.

(* The size clause PER VOLUME: the whole criterion for every vid whose own full
   reports stay under the limit, whatever is reported about other vids (the
   trigger of finding 0 is per vid, not history-wide). *)
Theorem c11_writable_sound_partial_per_vid : forall c, 1 <= c_copy c -> 0 < c_limit c ->
  forall es, wf_history es -> forall v, trigger_size_v c es v = false ->
    let s := run c init es in writable s v = true -> crit c (s_nodes s) v = true.
Proof. exact writable_sound_partial_v. Qed.
Print Assumptions c11_writable_sound_partial_per_vid.

(* ... strictly stronger than the history-wide form: a history inside the old
   trigger whose vid 2 the per-vid theorem still covers *)
Example c11_per_vid_trigger_narrower :
  let h := [EFull 1 [vi 1 150 false]; EFull 1 [vi 2 10 false; vi 1 150 false]] in
  trigger_size cfg000 h = true /\ trigger_size_v cfg000 h 2 = false /\ writable (run cfg000 init h) 2 = true.
Proof. exact per_vid_trigger_narrower. Qed.
Print Assumptions c11_per_vid_trigger_narrower.

(* The oversized-set guard (volume_layout.go rememberOversizedVolume +
   ensureCorrectWritables): registering a replica whose size is at or over the
   limit never ADDS the vid to writables, in any layout state, and records it in
   the oversized set. *)
Theorem c11_oversized_registration_not_admitted : forall c ns vi n l,
  c_limit c <= vi_size vi ->
  mem (vi_id vi) (l_writ (register_layout c ns vi n l)) = true -> mem (vi_id vi) (l_writ l) = true.
Proof. exact oversized_registration_not_admitted. Qed.
Print Assumptions c11_oversized_registration_not_admitted.
Theorem c11_oversized_registration_recorded : forall c ns vi n l,
  c_limit c <= vi_size vi -> bs_true (vi_id vi) (l_os (register_layout c ns vi n l)) = true.
Proof. exact oversized_registration_recorded. Qed.
Print Assumptions c11_oversized_registration_recorded.

(* ---------- the collector sweep and the size limit ----------
   NodeImpl.CollectDeadNodeAndFullVolumes tests v.Size >= volumeSizeLimit (model:
   c_limit <=? vi_size, the same test as VolumeLayout.isOversized) and
   SetVolumeCapacityFull takes the vid out of writables.
   Right after a sweep no volume that has a REGISTERED replica of size at or over
   the limit is writable - on every history. *)
Theorem c11_after_collect_registered_small : forall c, 1 <= c_copy c ->
  forall es, wf_history es -> forall v,
    writable (run c init (es ++ [ECollect])) v = true ->
    forall n i, ginfo (s_nodes (run c init es)) n v = Some i -> vi_size i < c_limit c.
Proof. exact after_collect_registered_small. Qed.
Print Assumptions c11_after_collect_registered_small.

(* The same about the sizes the servers last REPORTED ([sreported]: computed from
   the events alone) does NOT hold for the code at full strength: an incremental
   "new" message about a registered volume overwrites its registered size with 0
   (finding 3), and the sweep only sees the registered size. *)
Theorem c11_collect_enforces_reported_refuted : exists c, 1 <= c_copy c /\ 0 < c_limit c /\ ~ collect_enforces_reported c.
Proof. exact (ex_intro _ cfg000 (conj (N.le_refl 1) (conj eq_refl collect_enforces_reported_refuted))). Qed.
Print Assumptions c11_collect_enforces_reported_refuted.

(* It holds for every vid outside the per-(server, vid) trigger: no server sent
   an incremental "new" message for the vid while its own last reported size of it
   was at or over the limit, without a full heartbeat or disconnect of that server since. *)
Theorem c11_collect_enforces_reported_partial : forall c, 1 <= c_copy c ->
  forall es, wf_history es -> forall v, trigger_clobber_size_v c es v = false ->
    writable (run c init (es ++ [ECollect])) v = true ->
    forall n sz, rsize (sreported es) n v = Some sz -> sz < c_limit c.
Proof. exact collect_enforces_reported_partial. Qed.
Print Assumptions c11_collect_enforces_reported_partial.

Theorem c11_clobber_size_witness :
  writable (run cfg000 init (clobber_size_history ++ [ECollect])) 1 = true /\
  rsize (sreported clobber_size_history) 1 1 = Some 100 /\
  trigger_clobber_size_v cfg000 clobber_size_history 1 = true /\
  trigger_clobber_size_v cfg000 (clobber_size_history ++ [EFull 1 [vi 1 100 false]]) 1 = false.
Proof. exact clobber_size_witness. Qed.
Print Assumptions c11_clobber_size_witness.

(* non-vacuity and the edge of the test: three writable volumes are reported at
   limit-1, limit, limit+1; the sweep keeps the first and removes the other two *)
Example c11_collect_boundary :
  wf_history boundary_history /\
  forallb (fun v => negb (trigger_clobber_size_v cfg000 boundary_history v)) [1; 2; 3] = true /\
  (let s := run cfg000 init boundary_history in
   writable s 1 = true /\ writable s 2 = true /\ writable s 3 = true) /\
  (let s := run cfg000 init (boundary_history ++ [ECollect]) in
   writable s 1 = true /\ writable s 2 = false /\ writable s 3 = false) /\
  map (rsize (sreported boundary_history) 1) [1; 2; 3] = [Some 99; Some 100; Some 101].
Proof. exact collect_boundary. Qed.
Print Assumptions c11_collect_boundary.

(* ---------- several layouts, DataNode objects, heartbeat streams (model/TopoMulti.v) ----------
   [m_lookup_exact mc] / [m_writable_sound mc]: the two clauses at full strength
   over ALL histories of the multi model, measured against the cluster state as
   the servers reported it ([truth], computed from the events alone).  Both are
   refuted by the code; each witness lies inside exactly the per-vid trigger named. *)

(* finding 1: a server reports a registered vid under another replication, then deletes it *)
Theorem c11_multi_lookup_refuted_relayout : ~ m_lookup_exact mc12.
Proof. exact m_lookup_exact_refuted_relayout. Qed.
Print Assumptions c11_multi_lookup_refuted_relayout.
Theorem c11_multi_writable_refuted_relayout : ~ m_writable_sound mc12.
Proof. exact m_writable_sound_refuted_relayout. Qed.
Print Assumptions c11_multi_writable_refuted_relayout.
Theorem c11_relayout_witness :
  let s := mrun mc12 minit relayout_history in let t := fold_left tstep relayout_history tinit in
  t_holders t 1 = [] /\ mlookup s 1 = Some [1] /\ mwritable s 0 1 = true /\
  trig_relayout_v relayout_history 1 = true.
Proof. exact relayout_witness. Qed.
Print Assumptions c11_relayout_witness.

(* finding 2: overlapping heartbeat streams of one server *)
Theorem c11_multi_lookup_refuted_object : ~ m_lookup_exact mc1.
Proof. exact m_lookup_exact_refuted_object. Qed.
Print Assumptions c11_multi_lookup_refuted_object.
Theorem c11_stale_object_witness :
  let s := mrun mc1 minit stale_object_history in let t := fold_left tstep stale_object_history tinit in
  t_holders t 1 = [1] /\ mlookup s 1 = Some [] /\ mlookup s 2 = Some [1] /\ mwritable s 0 2 = true /\
  pick_panics s 0 = true /\ trig_object_v stale_object_history 1 = true.
Proof. exact stale_object_witness. Qed.
Print Assumptions c11_stale_object_witness.
Theorem c11_late_close_witness :
  let s := mrun mc1 minit late_close_history in let t := fold_left tstep late_close_history tinit in
  t_holders t 1 = [1] /\ mlookup s 1 = Some [] /\ trig_object_v late_close_history 1 = true.
Proof. exact late_close_witness. Qed.
Print Assumptions c11_late_close_witness.

(* finding 3: a short "new" message resets the registered size / read-only flag *)
Theorem c11_multi_writable_refuted_clobber : ~ m_writable_sound mc1.
Proof. exact m_writable_sound_refuted_clobber. Qed.
Print Assumptions c11_multi_writable_refuted_clobber.
Theorem c11_clobber_witness :
  let s := mrun mc1 minit clobber_history in let t := fold_left tstep clobber_history tinit in
  mwritable s 0 1 = true /\ t_rw_ok t 1 = false /\ trig_clobber_v mc1 clobber_history 1 = true /\
  trig_size_v mc1 clobber_history 1 = false.
Proof. exact clobber_witness. Qed.
Print Assumptions c11_clobber_witness.
(* the registered state the single-layout theorems speak about is NOT the reported one here *)
Theorem c11_clobber_single_witness :
  let s := run cfg000 init [EFull 1 [vi 1 10 true]; EIncr 1 [1] []] in
  writable s 1 = true /\ ginfo (s_nodes s) 1 1 = Some (vi 1 0 false).
Proof. exact clobber_single_witness. Qed.
Print Assumptions c11_clobber_single_witness.

(* finding 4: replicas of one vid under two layouts *)
Theorem c11_multi_lookup_refuted_split : ~ m_lookup_exact mc33.
Proof. exact m_lookup_exact_refuted_split. Qed.
Print Assumptions c11_multi_lookup_refuted_split.
Theorem c11_split_witness :
  let s := mrun mc33 minit split_history in let t := fold_left tstep split_history tinit in
  t_holders t 3 = [2; 3] /\ lookup_candidates s 3 = [[2]; [3]] /\ mlookup s 3 = None /\
  trig_split_v split_history 3 = true /\ trig_relayout_v split_history 3 = false.
Proof. exact split_witness. Qed.
Print Assumptions c11_split_witness.

(* non-vacuity: a two-layout history with a reconnect outside every trigger;
   lookups exact, the offered volumes meet the criterion *)
Example c11_multi_example :
  let s := mrun mc12 minit multi_sample in let t := fold_left tstep multi_sample tinit in
  mlookup s 1 = Some [1] /\ mlookup s 2 = Some [2; 1] /\ t_holders t 2 = [2; 1] /\
  mwritable s 0 1 = true /\ mwritable s 1 2 = true /\ t_crit mc12 t 1 2 = true /\
  forallb (fun v => negb (trig_relayout_v multi_sample v || trig_split_v multi_sample v ||
                          trig_object_v multi_sample v || trig_clobber_v mc12 multi_sample v || trig_size_v mc12 multi_sample v)) [1; 2] = true.
Proof. exact multi_sample_ok. Qed.
Print Assumptions c11_multi_example.

(* the sweep's crowded test (size > 0.9 * limit, below the limit) and the rule
   crowded <= writables, at the edges *)
Example c11_crowded_boundary :
  let s := mrun mc1 minit crowded_history in
  l_writ (lay (ms_lays s) 0) = [1; 2; 3] /\ mcrowded s 0 = [2; 3] /\
  mcrowded (mrun mc1 minit (crowded_history ++ [MFull 1 [mi 1 90 false 0; mi 2 91 true 0; mi 3 100 false 0; mi 4 100 false 0]; MCollect])) 0 = [].
Proof. exact crowded_boundary. Qed.
Print Assumptions c11_crowded_boundary.
