(* C26 — S3 requests take effect only with a valid, permitted signature.
   Only statements closed by [exact]; proofs live in proof/S3AuthProofs.v and
   proof/S3AuthPolicyProofs.v.

   Vocabulary (model/S3Auth.v): [auth ids r c action] is IdentityAccessManagement.Auth's
   decision for request r under the configured identities ids when the wrapped handler's
   action is [action]; the claim c says how the request was really signed (HMAC is an
   oracle: a signature verifies iff it was made with the secret of the first credential
   carrying the named access key and nothing signed was altered).  [authorized] is the
   property's right-hand side; [trigger r] = the request classifies as streaming-signed or
   post-policy. *)
From Coq Require Import List NArith Bool String.
From SW Require Import model.S3Auth proof.S3AuthProofs proof.S3AuthPolicyProofs proof.S3AuthHandlerProofs.
Import ListNotations.
Local Open Scope string_scope.

(* FULL statement: with identities configured, a handler behind Auth runs only for a request
   carrying a valid signature of an identity allowed to do the route's action on the bucket,
   or an anonymous request with an allowed anonymous identity. *)
Example c26_full_statement_is :
  handler_implies_authorized_statement =
  (forall ids r c action w, ids <> [] -> auth ids r c action = Run w -> authorized ids r c action).
Proof. exact eq_refl. Qed.
Print Assumptions c26_full_statement_is.

(* It FAILS on the code as it is (finding 0): an unsigned PUT /b1 with the streaming sha256
   header reaches PutBucketHandler (action Admin); an unsigned POST /b1/o?uploads with a
   multipart/form-data content type reaches NewMultipartUploadHandler (action Write). *)
Theorem c26_refuted :
  handler_runs_unauthorized witness_ids witness_streaming no_claim /\
  handler_runs_unauthorized witness_ids witness_form no_claim.
Proof. exact (conj witness_streaming_bad witness_form_bad). Qed.
Print Assumptions c26_refuted.

Theorem c26_handler_implies_authorized_refuted : ~ handler_implies_authorized_statement.
Proof. exact full_statement_false. Qed.
Print Assumptions c26_handler_implies_authorized_refuted.

(* ... and the failure is total inside the trigger set: every bypass-type request passes
   Auth for every action, whatever the identities and however (un)signed it is. *)
Theorem c26_bypass_passes : forall ids r c action,
  trigger r = true -> auth ids r c action = Run None.
Proof. exact bypass_passes. Qed.
Print Assumptions c26_bypass_passes.

(* PARTIAL (strongest true statement): outside the trigger set — V2 header, V2 presigned,
   V4 header, V4 presigned, anonymous, JWT, unknown — the handler runs only if authorised,
   and Auth hands the handler a configured identity. *)
Theorem c26_partial : forall ids r c action w,
  ids <> [] -> trigger r = false -> auth ids r c action = Run w ->
  authorized ids r c action /\ exists id, w = Some id /\ In id ids.
Proof. exact auth_partial. Qed.
Print Assumptions c26_partial.

(* The same on EVERY route of the table (and ListBuckets, which authenticates inside the
   handler with authUser): whichever route the router picks for a non-bypass request. *)
Theorem c26_partial_every_route : forall ids r c i w,
  ids <> [] -> trigger r = false -> route_match r = Some i ->
  route_decision ids r c i = Run w ->
  match nth_error route_table (N.to_nat i) with
  | Some rt => authorized ids r c (rt_action rt)
  | None => authenticated ids r c
  end.
Proof. exact every_route_partial. Qed.
Print Assumptions c26_partial_every_route.

Theorem c26_bypass_every_route : forall ids r c i,
  trigger r = true -> route_decision ids r c i = Run None.
Proof. exact every_route_bypass. Qed.
Print Assumptions c26_bypass_every_route.

(* router semantics of the model: first registered matching route *)
Theorem c26_route_match_first : forall r i, route_match r = Some i ->
  (exists rt, nth_error route_table (N.to_nat i) = Some rt /\ route_matches r rt = true /\
     forall k' y, (k' < N.to_nat i)%nat -> nth_error route_table k' = Some y -> route_matches r y = false)
  \/
  (i = list_buckets_index /\ rq_bucket r = "" /\ rq_method r = "GET" /\
   forall rt, In rt route_table -> route_matches r rt = false).
Proof. exact route_match_first. Qed.
Print Assumptions c26_route_match_first.

(* canDo is "some configured action string grants (action, bucket)" *)
Theorem c26_can_do_is_allows : forall acts action bucket,
  can_do acts action bucket = allows acts action bucket.
Proof. exact can_do_allows. Qed.
Print Assumptions c26_can_do_is_allows.

(* the executable oracles of the correspondence check are the Props of the theorems *)
Theorem c26_oracle_is_authorized : forall ids r c action,
  authorized_spec ids (get_request_auth_type r) c action (rq_bucket r) = true <-> authorized ids r c action.
Proof. exact authorized_spec_iff. Qed.
Print Assumptions c26_oracle_is_authorized.

Theorem c26_oracle_is_authenticated : forall ids r c,
  authenticated_spec ids (get_request_auth_type r) c = true <-> authenticated ids r c.
Proof. exact authenticated_spec_iff. Qed.
Print Assumptions c26_oracle_is_authenticated.

(* IAM policy documents (FULL): the (action, bucket) pairs granted by GetActions are among
   those named by the document's Allow statements; PutUserPolicy adds nothing else. *)
Theorem c26_policy_sound : forall doc action bucket,
  is_s3_action action = true ->
  can_do (get_actions doc) action bucket = true -> named doc action bucket = true.
Proof. exact policy_sound. Qed.
Print Assumptions c26_policy_sound.

Theorem c26_put_user_policy_sound : forall prior doc action bucket,
  is_s3_action action = true ->
  can_do (put_user_policy prior doc) action bucket = true ->
  can_do prior action bucket = true \/ named doc action bucket = true.
Proof. exact put_user_policy_sound. Qed.
Print Assumptions c26_put_user_policy_sound.

Theorem c26_named_meaning : forall doc action bucket,
  named doc action bucket = true <->
  exists st, In st doc /\ st_effect st = "Allow" /\
             (exists a, In a (st_actions st) /\ act_names a action = true) /\
             (exists r, In r (st_resources st) /\ res_covers r bucket = true).
Proof. exact named_iff. Qed.
Print Assumptions c26_named_meaning.

Theorem c26_non_allow_grants_nothing : forall doc,
  Forall (fun st => String.eqb (st_effect st) "Allow" = false) doc -> get_actions doc = [].
Proof. exact non_allow_grants_nothing. Qed.
Print Assumptions c26_non_allow_grants_nothing.


(* ---------- the handlers' own verification (V4 streaming seed, POST policy) ----------
   [takes_effect ids r c e i = Some w]: Auth lets the request through AND the handler behind
   route i passes its own verification, i.e. the request goes on to the filer; e is the
   environment (upload known to the filer, POST body and how its policy was signed,
   identity headers the client sent). *)

(* V4 streaming seed (FULL on PutObject / PutObjectPart): a streaming-signed upload goes on to
   the filer only with a valid seed signature of a configured identity allowed to Write *)
Theorem c26_streaming_put_needs_seed : forall ids r c e i w,
  ids <> [] -> get_request_auth_type r = StreamingSigned ->
  i = PUT_OBJECT_IDX \/ i = PUT_OBJECT_PART_IDX ->
  takes_effect ids r c e i = Some w ->
  seed_spec ids r c = true /\ exists id, w = Some id /\ In id ids /\
    can_do (id_actions id) ACTION_WRITE (rq_bucket r) = true.
Proof. exact streaming_put_needs_seed. Qed.
Print Assumptions c26_streaming_put_needs_seed.

Theorem c26_seed_spec_meaning : forall ids r c,
  seed_spec ids r c = true <->
  sprefix signV4Algorithm (remove_spaces (hdr_authz r)) = true /\
  exists id secret, lookup_by_access_key ids (cl_ak c) = Some (id, secret) /\ secret = cl_secret c /\
                    sig_fresh false (cl_damage c) = true /\
                    can_do (id_actions id) ACTION_WRITE (rq_bucket r) = true.
Proof. exact seed_spec_meaning. Qed.
Print Assumptions c26_seed_spec_meaning.

(* POST policy (authentication FULL, every classified type): PostPolicyBucketHandler goes on to
   the filer only with an unexpired policy validly signed (V2 or V4) by a configured identity *)
Theorem c26_post_policy_needs_signature : forall ids r c e w,
  takes_effect ids r c e POST_POLICY_IDX = Some w ->
  exists id, w = Some id /\ policy_signer ids (e_form e) = Some id.
Proof. exact post_policy_needs_signature. Qed.
Print Assumptions c26_post_policy_needs_signature.

Theorem c26_policy_signer_meaning : forall ids f id,
  policy_signer ids f = Some id <->
  exists v2 pc secret, f = FormPolicy v2 pc /\ lookup_by_access_key ids (cl_ak pc) = Some (id, secret) /\
                       secret = cl_secret pc /\ cl_damage pc = Intact.
Proof. exact policy_signer_meaning. Qed.
Print Assumptions c26_policy_signer_meaning.

(* The property on every route, all five signature kinds of the text.  FULL statement: *)
Example c26_effect_statement_is :
  effect_implies_authorized_statement =
  (forall ids r c e i w, ids <> [] -> route_match r = Some i ->
     takes_effect ids r c e i = Some w -> effect_authorized_spec ids r c e i = true).
Proof. exact eq_refl. Qed.
Print Assumptions c26_effect_statement_is.

(* refuted three times: finding 0 (unsigned streaming-typed PUT /b1 runs PutBucketHandler),
   finding 1 (a POST policy upload signed by an identity that may only Read is written) and
   finding 3 (a copy reads a source bucket its signer may not Read) *)
Theorem c26_effect_refuted : ~ effect_implies_authorized_statement.
Proof. exact effect_statement_false. Qed.
Print Assumptions c26_effect_refuted.

Theorem c26_effect_refuted_finding0 :
  route_match witness_streaming = Some 14%N /\
  takes_effect witness_ids witness_streaming no_claim env0 14%N = Some None /\
  effect_authorized_spec witness_ids witness_streaming no_claim env0 14%N = false /\
  trigger0 witness_ids witness_streaming no_claim 14%N = true.
Proof. exact effect_refuted_0. Qed.
Print Assumptions c26_effect_refuted_finding0.

Theorem c26_effect_refuted_finding1 :
  route_match witness_post = Some POST_POLICY_IDX /\
  (exists id, takes_effect witness_ids1 witness_post no_claim env1 POST_POLICY_IDX = Some (Some id) /\
              id_name id = "reader" /\ can_do (id_actions id) ACTION_WRITE "b1" = false) /\
  effect_authorized_spec witness_ids1 witness_post no_claim env1 POST_POLICY_IDX = false /\
  trigger0 witness_ids1 witness_post no_claim POST_POLICY_IDX = false /\
  trigger1 witness_ids1 witness_post env1 POST_POLICY_IDX = true.
Proof. exact effect_refuted_1. Qed.
Print Assumptions c26_effect_refuted_finding1.

(* finding 3: the right-hand side asks, for a copy (CopyObject / CopyObjectPart), Write on the
   destination bucket AND Read on the bucket X-Amz-Copy-Source names; Auth and the copy handlers
   only ever look at the destination.  writer1 (Write:b1, nothing on b2) copies b2/src into b1,
   as an object and as a part. *)
Example c26_effect_spec_is : forall ids r c e i,
  effect_authorized_spec ids r c e i =
  effect_authorized_spec0 ids r c e i &&
  match copy_reads_source r e i with
  | Some sb => authorized_spec ids (get_request_auth_type r) c ACTION_READ sb
  | None => true
  end.
Proof. exact (fun _ _ _ _ _ => eq_refl). Qed.
Print Assumptions c26_effect_spec_is.

Theorem c26_effect_refuted_finding3 :
  route_match witness_copy = Some COPY_OBJECT_IDX /\
  (exists id, takes_effect witness_ids3 witness_copy wr1_claim env0 COPY_OBJECT_IDX = Some (Some id) /\
              id_name id = "writer1" /\ can_do (id_actions id) ACTION_READ "b2" = false) /\
  copy_reads_source witness_copy env0 COPY_OBJECT_IDX = Some "b2" /\
  effect_authorized_spec0 witness_ids3 witness_copy wr1_claim env0 COPY_OBJECT_IDX = true /\
  effect_authorized_spec witness_ids3 witness_copy wr1_claim env0 COPY_OBJECT_IDX = false /\
  trigger0 witness_ids3 witness_copy wr1_claim COPY_OBJECT_IDX = false /\
  trigger1 witness_ids3 witness_copy env0 COPY_OBJECT_IDX = false /\
  trigger3 witness_ids3 witness_copy wr1_claim env0 COPY_OBJECT_IDX = true /\
  route_match witness_copy_part = Some COPY_OBJECT_PART_IDX /\
  copy_reads_source witness_copy_part env0 COPY_OBJECT_PART_IDX = Some "b2" /\
  (exists id, takes_effect witness_ids3 witness_copy_part wr1_claim env0 COPY_OBJECT_PART_IDX = Some (Some id) /\ id_name id = "writer1") /\
  effect_authorized_spec witness_ids3 witness_copy_part wr1_claim env0 COPY_OBJECT_PART_IDX = false /\
  trigger3 witness_ids3 witness_copy_part wr1_claim env0 COPY_OBJECT_PART_IDX = true.
Proof. exact effect_refuted_3. Qed.
Print Assumptions c26_effect_refuted_finding3.

(* ... and the failure is total: on a copy route the source plays no part in whether the request
   goes on to the filer *)
Theorem c26_copy_ignores_source_rights : forall ids r c e i w,
  i = COPY_OBJECT_IDX \/ i = COPY_OBJECT_PART_IDX ->
  takes_effect ids r c e i = Some w <-> route_decision ids r c i = Run w.
Proof. exact copy_ignores_source_rights. Qed.
Print Assumptions c26_copy_ignores_source_rights.

(* PARTIAL (strongest true statement): outside the three NARROWED trigger sets —
   trigger0: bypass type on a route other than PutObject / PostPolicy (PutObjectPart: unless the
   seed signature is valid); trigger1: POST policy validly signed by an identity that may not
   Write the bucket; trigger3: a copy that is authorised to Write the destination, really reads
   the source (the handler does not answer before) and whose signer may not Read the source
   bucket — a request that goes on to the filer is authorised, for a copy on BOTH buckets.  In
   particular valid streaming uploads, valid POST policy uploads and copies by an identity that
   may Read the source are OUTSIDE the trigger sets. *)
Theorem c26_effect_partial : forall ids r c e i w,
  ids <> [] -> route_match r = Some i -> takes_effect ids r c e i = Some w ->
  trigger0 ids r c i = false -> trigger1 ids r e i = false -> trigger3 ids r c e i = false ->
  effect_authorized_spec ids r c e i = true.
Proof. exact effect_partial. Qed.
Print Assumptions c26_effect_partial.

(* the route-action half alone needs only the first two *)
Theorem c26_effect_partial_destination : forall ids r c e i w,
  ids <> [] -> route_match r = Some i -> takes_effect ids r c e i = Some w ->
  trigger0 ids r c i = false -> trigger1 ids r e i = false ->
  effect_authorized_spec0 ids r c e i = true.
Proof. exact effect_partial0. Qed.
Print Assumptions c26_effect_partial_destination.

(* identity context handed to the handlers (finding 2): Auth sets s3-identity-id /
   s3-is-admin but never removes what the client sent *)
Theorem c26_identity_headers_refuted : ~ idhdr_statement.
Proof. exact idhdr_statement_false. Qed.
Print Assumptions c26_identity_headers_refuted.

Theorem c26_identity_headers_partial : forall d e,
  e_client_idhdr e = ("", false) -> seen_id_header d e = id_header d.
Proof. exact seen_header_partial. Qed.
Print Assumptions c26_identity_headers_partial.

(* PutUserPolicy histories: grants stay inside "prior or named by SOME document ever put";
   nothing is ever revoked; the bound by the LAST document fails *)
Theorem c26_put_history_sound : forall docs prior action bucket,
  is_s3_action action = true ->
  can_do (put_history prior docs) action bucket = true ->
  can_do prior action bucket = true \/ exists doc, In doc docs /\ named doc action bucket = true.
Proof. exact put_history_sound. Qed.
Print Assumptions c26_put_history_sound.

Theorem c26_put_history_never_revokes : forall docs prior action bucket,
  can_do prior action bucket = true -> can_do (put_history prior docs) action bucket = true.
Proof. exact put_history_never_revokes. Qed.
Print Assumptions c26_put_history_never_revokes.

Theorem c26_last_document_bound_refuted :
  can_do (put_history [] [doc_wide; doc_narrow]) ACTION_WRITE "b2" = true /\
  named doc_narrow ACTION_WRITE "b2" = false /\ named doc_wide ACTION_WRITE "b2" = true.
Proof. exact last_document_bound_refuted. Qed.
Print Assumptions c26_last_document_bound_refuted.

(* ---------- non-vacuity ---------- *)
(* the hypotheses of c26_partial are satisfiable: a V4-signed PUT by writer1 on b1 reaches
   PutObject; the same signature on b2 is refused; an anonymous GET is served (anonymous may
   Read) but an anonymous PUT is refused; a wrong secret is refused *)
Example c26_example :
  trigger ex_put = false /\ route_match ex_put = Some 13%N /\
  (exists id, auth ex_ids ex_put ex_claim ACTION_WRITE = Run (Some id) /\ id_name id = "writer1") /\
  auth ex_ids {| rq_method := "PUT"; rq_bucket := "b2"; rq_object := "o"; rq_query := [];
                 rq_authz := Some "AWS4-HMAC-SHA256 Credent"; rq_sha256 := ""; rq_ctype := ""; rq_copysrc := "" |}
       ex_claim ACTION_WRITE = Reject ErrAccessDenied /\
  trigger ex_get = false /\ route_match ex_get = Some 18%N /\
  (exists id, auth ex_ids ex_get no_claim ACTION_READ = Run (Some id) /\ id_name id = "anonymous") /\
  auth ex_ids ex_get no_claim ACTION_WRITE = Reject ErrAccessDenied /\
  auth ex_ids ex_put {| cl_ak := "AKWR1"; cl_secret := "sk-other"; cl_damage := Intact |} ACTION_WRITE
    = Reject ErrSignatureDoesNotMatch.
Proof. exact wrapper_example. Qed.
Print Assumptions c26_example.

(* the hypotheses of c26_effect_partial are satisfiable on the two other signature kinds: a
   streaming upload with writer1's seed signature goes on, an unsigned one does not; a POST
   policy signed (V2) by writer1 goes on, a POST without a form does not *)
Example c26_effect_example :
  get_request_auth_type ex_stream = StreamingSigned /\ route_match ex_stream = Some PUT_OBJECT_IDX /\
  trigger0 ex_ids2 ex_stream ex_wr_claim PUT_OBJECT_IDX = false /\
  trigger1 ex_ids2 ex_stream env0 PUT_OBJECT_IDX = false /\
  (exists id, takes_effect ex_ids2 ex_stream ex_wr_claim env0 PUT_OBJECT_IDX = Some (Some id) /\ id_name id = "writer1") /\
  takes_effect ex_ids2 ex_stream no_claim env0 PUT_OBJECT_IDX = None /\
  get_request_auth_type witness_post = PostPolicy /\
  trigger1 ex_ids2 witness_post env_wr POST_POLICY_IDX = false /\
  (exists id, takes_effect ex_ids2 witness_post no_claim env_wr POST_POLICY_IDX = Some (Some id) /\ id_name id = "writer1") /\
  takes_effect ex_ids2 witness_post no_claim env0 POST_POLICY_IDX = None.
Proof. exact effect_example. Qed.
Print Assumptions c26_effect_example.

(* the trigger3 hypothesis is satisfiable on a real copy: "rw" (Write:b1, Read:b2) copies b2/src
   into b1 outside the trigger set and authorised; writer1's same copy is inside; a copy onto
   itself reads nothing; a copy inside b1 reads b1 *)
Example c26_copy_example :
  trigger3 ex_ids3 witness_copy rw_claim env0 COPY_OBJECT_IDX = false /\
  (exists id, takes_effect ex_ids3 witness_copy rw_claim env0 COPY_OBJECT_IDX = Some (Some id) /\ id_name id = "rw") /\
  effect_authorized_spec ex_ids3 witness_copy rw_claim env0 COPY_OBJECT_IDX = true /\
  trigger3 ex_ids3 witness_copy wr1_claim env0 COPY_OBJECT_IDX = true /\
  copy_reads_source {| rq_method := "PUT"; rq_bucket := "b1"; rq_object := "o"; rq_query := [];
                       rq_authz := None; rq_sha256 := ""; rq_ctype := ""; rq_copysrc := "/b1/o" |} env0 COPY_OBJECT_IDX = None /\
  copy_reads_source {| rq_method := "PUT"; rq_bucket := "b1"; rq_object := "o"; rq_query := [];
                       rq_authz := None; rq_sha256 := ""; rq_ctype := ""; rq_copysrc := "b1/other" |} env0 COPY_OBJECT_IDX = Some "b1".
Proof. exact copy_example. Qed.
Print Assumptions c26_copy_example.

(* a policy document with an Allow and a Deny statement: grants exactly Read/List on b1 *)
Example c26_policy_example :
  let doc := [ {| st_effect := "Allow"; st_actions := ["s3:Get*"; "s3:List*"]; st_resources := ["arn:aws:s3:::b1/*"] |};
               {| st_effect := "Deny"; st_actions := ["s3:*"]; st_resources := ["arn:aws:s3:::*"] |} ] in
  get_actions doc = ["Read:b1"; "List:b1"] /\
  can_do (get_actions doc) ACTION_READ "b1" = true /\ named doc ACTION_READ "b1" = true /\
  can_do (get_actions doc) ACTION_READ "b2" = false /\
  can_do (get_actions doc) ACTION_WRITE "b1" = false /\ named doc ACTION_WRITE "b1" = false.
Proof. exact policy_example. Qed.
Print Assumptions c26_policy_example.
