(* C26 — S3 requests take effect only with a valid, permitted signature.
   Only statements closed by [exact]; proofs live in proof/S3AuthProofs.v and
   proof/S3AuthPolicyProofs.v.

   Vocabulary (model/S3Auth.v): [auth ids r c action] is IdentityAccessManagement.Auth's
   decision for request r under the configured identities ids when the wrapped handler's
   action is [action]; the claim c says how the request was really signed (HMAC is an
   oracle: a signature verifies iff it was made with the secret of the first credential
   carrying the named access key and nothing signed was altered).  [authorized] is the
   property's right-hand side; [trigger r] = the request classifies as streaming-signed or
   post-policy. *)
From Coq Require Import List NArith Bool String.
From SW Require Import model.S3Auth proof.S3AuthProofs proof.S3AuthPolicyProofs.
Import ListNotations.
Local Open Scope string_scope.

(* FULL statement: with identities configured, a handler behind Auth runs only for a request
   carrying a valid signature of an identity allowed to do the route's action on the bucket,
   or an anonymous request with an allowed anonymous identity. *)
Example c26_full_statement_is :
  handler_implies_authorized_statement =
  (forall ids r c action w, ids <> [] -> auth ids r c action = Run w -> authorized ids r c action).
Proof. exact eq_refl. Qed.

(* It FAILS on the code as it is (finding 0): an unsigned PUT /b1 with the streaming sha256
   header reaches PutBucketHandler (action Admin); an unsigned POST /b1/o?uploads with a
   multipart/form-data content type reaches NewMultipartUploadHandler (action Write). *)
Theorem c26_refuted :
  handler_runs_unauthorized witness_ids witness_streaming no_claim /\
  handler_runs_unauthorized witness_ids witness_form no_claim.
Proof. exact (conj witness_streaming_bad witness_form_bad). Qed.
Print Assumptions c26_refuted.

Theorem c26_handler_implies_authorized_refuted : ~ handler_implies_authorized_statement.
Proof. exact full_statement_false. Qed.
Print Assumptions c26_handler_implies_authorized_refuted.

(* ... and the failure is total inside the trigger set: every bypass-type request passes
   Auth for every action, whatever the identities and however (un)signed it is. *)
Theorem c26_bypass_passes : forall ids r c action,
  trigger r = true -> auth ids r c action = Run None.
Proof. exact bypass_passes. Qed.
Print Assumptions c26_bypass_passes.

(* PARTIAL (strongest true statement): outside the trigger set — V2 header, V2 presigned,
   V4 header, V4 presigned, anonymous, JWT, unknown — the handler runs only if authorised,
   and Auth hands the handler a configured identity. *)
Theorem c26_partial : forall ids r c action w,
  ids <> [] -> trigger r = false -> auth ids r c action = Run w ->
  authorized ids r c action /\ exists id, w = Some id /\ In id ids.
Proof. exact auth_partial. Qed.
Print Assumptions c26_partial.

(* The same on EVERY route of the table (and ListBuckets, which authenticates inside the
   handler with authUser): whichever route the router picks for a non-bypass request. *)
Theorem c26_partial_every_route : forall ids r c i w,
  ids <> [] -> trigger r = false -> route_match r = Some i ->
  route_decision ids r c i = Run w ->
  match nth_error route_table (N.to_nat i) with
  | Some rt => authorized ids r c (rt_action rt)
  | None => authenticated ids r c
  end.
Proof. exact every_route_partial. Qed.
Print Assumptions c26_partial_every_route.

Theorem c26_bypass_every_route : forall ids r c i,
  trigger r = true -> route_decision ids r c i = Run None.
Proof. exact every_route_bypass. Qed.
Print Assumptions c26_bypass_every_route.

(* router semantics of the model: first registered matching route *)
Theorem c26_route_match_first : forall r i, route_match r = Some i ->
  (exists rt, nth_error route_table (N.to_nat i) = Some rt /\ route_matches r rt = true /\
     forall k' y, (k' < N.to_nat i)%nat -> nth_error route_table k' = Some y -> route_matches r y = false)
  \/
  (i = list_buckets_index /\ rq_bucket r = "" /\ rq_method r = "GET" /\
   forall rt, In rt route_table -> route_matches r rt = false).
Proof. exact route_match_first. Qed.
Print Assumptions c26_route_match_first.

(* canDo is "some configured action string grants (action, bucket)" *)
Theorem c26_can_do_is_allows : forall acts action bucket,
  can_do acts action bucket = allows acts action bucket.
Proof. exact can_do_allows. Qed.
Print Assumptions c26_can_do_is_allows.

(* the executable oracles of the correspondence check are the Props of the theorems *)
Theorem c26_oracle_is_authorized : forall ids r c action,
  authorized_spec ids (get_request_auth_type r) c action (rq_bucket r) = true <-> authorized ids r c action.
Proof. exact authorized_spec_iff. Qed.
Print Assumptions c26_oracle_is_authorized.

Theorem c26_oracle_is_authenticated : forall ids r c,
  authenticated_spec ids (get_request_auth_type r) c = true <-> authenticated ids r c.
Proof. exact authenticated_spec_iff. Qed.
Print Assumptions c26_oracle_is_authenticated.

(* IAM policy documents (FULL): the (action, bucket) pairs granted by GetActions are among
   those named by the document's Allow statements; PutUserPolicy adds nothing else. *)
Theorem c26_policy_sound : forall doc action bucket,
  is_s3_action action = true ->
  can_do (get_actions doc) action bucket = true -> named doc action bucket = true.
Proof. exact policy_sound. Qed.
Print Assumptions c26_policy_sound.

Theorem c26_put_user_policy_sound : forall prior doc action bucket,
  is_s3_action action = true ->
  can_do (put_user_policy prior doc) action bucket = true ->
  can_do prior action bucket = true \/ named doc action bucket = true.
Proof. exact put_user_policy_sound. Qed.
Print Assumptions c26_put_user_policy_sound.

Theorem c26_named_meaning : forall doc action bucket,
  named doc action bucket = true <->
  exists st, In st doc /\ st_effect st = "Allow" /\
             (exists a, In a (st_actions st) /\ act_names a action = true) /\
             (exists r, In r (st_resources st) /\ res_covers r bucket = true).
Proof. exact named_iff. Qed.
Print Assumptions c26_named_meaning.

Theorem c26_non_allow_grants_nothing : forall doc,
  Forall (fun st => String.eqb (st_effect st) "Allow" = false) doc -> get_actions doc = [].
Proof. exact non_allow_grants_nothing. Qed.
Print Assumptions c26_non_allow_grants_nothing.

(* ---------- non-vacuity ---------- *)
Definition ex_ids : list identity :=
  [ {| id_name := "writer1"; id_creds := [("AKWR1", "sk-wr1")]; id_actions := ["Write:b1"] |};
    {| id_name := "anonymous"; id_creds := []; id_actions := [ACTION_READ] |} ].
Definition ex_put : request :=
  {| rq_method := "PUT"; rq_bucket := "b1"; rq_object := "o"; rq_query := [];
     rq_authz := Some "AWS4-HMAC-SHA256 Credent"; rq_sha256 := ""; rq_ctype := ""; rq_copysrc := "" |}.
Definition ex_get : request :=
  {| rq_method := "GET"; rq_bucket := "b2"; rq_object := "o"; rq_query := [];
     rq_authz := None; rq_sha256 := ""; rq_ctype := ""; rq_copysrc := "" |}.
Definition ex_claim : claim := {| cl_ak := "AKWR1"; cl_secret := "sk-wr1"; cl_damage := Intact |}.

(* the hypotheses of c26_partial are satisfiable: a V4-signed PUT by writer1 on b1 reaches
   PutObject; the same signature on b2 is refused; an anonymous GET is served (anonymous may
   Read) but an anonymous PUT is refused; a wrong secret is refused *)
Example c26_example :
  trigger ex_put = false /\ route_match ex_put = Some 13%N /\
  (exists id, auth ex_ids ex_put ex_claim ACTION_WRITE = Run (Some id) /\ id_name id = "writer1") /\
  auth ex_ids {| rq_method := "PUT"; rq_bucket := "b2"; rq_object := "o"; rq_query := [];
                 rq_authz := Some "AWS4-HMAC-SHA256 Credent"; rq_sha256 := ""; rq_ctype := ""; rq_copysrc := "" |}
       ex_claim ACTION_WRITE = Reject ErrAccessDenied /\
  trigger ex_get = false /\ route_match ex_get = Some 18%N /\
  (exists id, auth ex_ids ex_get no_claim ACTION_READ = Run (Some id) /\ id_name id = "anonymous") /\
  auth ex_ids ex_get no_claim ACTION_WRITE = Reject ErrAccessDenied /\
  auth ex_ids ex_put {| cl_ak := "AKWR1"; cl_secret := "sk-other"; cl_damage := Intact |} ACTION_WRITE
    = Reject ErrSignatureDoesNotMatch.
Proof.
  repeat split; try (vm_compute; reflexivity);
  eexists; split; vm_compute; reflexivity.
Qed.

(* a policy document with an Allow and a Deny statement: grants exactly Read/List on b1 *)
Example c26_policy_example :
  let doc := [ {| st_effect := "Allow"; st_actions := ["s3:Get*"; "s3:List*"]; st_resources := ["arn:aws:s3:::b1/*"] |};
               {| st_effect := "Deny"; st_actions := ["s3:*"]; st_resources := ["arn:aws:s3:::*"] |} ] in
  get_actions doc = ["Read:b1"; "List:b1"] /\
  can_do (get_actions doc) ACTION_READ "b1" = true /\ named doc ACTION_READ "b1" = true /\
  can_do (get_actions doc) ACTION_READ "b2" = false /\
  can_do (get_actions doc) ACTION_WRITE "b1" = false /\ named doc ACTION_WRITE "b1" = false.
Proof. vm_compute. repeat split; reflexivity. Qed.
