(* C35 — Clients' volume location cache mirrors master updates.
   Only statements closed by [exact]; proofs live in proof/VidMapProofs.v.

   Model: model/VidMap.v — vid2Locations as Go slices (array id, len, cap) over a
   heap of backing arrays, addLocation / deleteLocation / lookups as in
   weed/wdclient/vid_map.go, and the update events the receive loop of
   masterclient.go performs.  Each event is ONE acquisition of the write lock:
   addLocation, deleteLocation, and — since fix-c35-reset-under-lock —
   EvReset = vidMap.reset() after a lost or failed connection (before that repair
   tryAllMasters overwrote the struct, mutex included, without any lock and a
   concurrent GetLocations died in RUnlock).  Reference: plain per-volume lists.

   The tree is the REPAIRED one (fix-c35-delete-copies, fix-c35-reconnect-dc,
   fix-c35-vid-parse, fix-c35-reset-under-lock, fix-c35-delete-last-entry); all
   statements below are full. *)
From Coq Require Import String List NArith ZArith Bool Permutation.
From SW Require Import model.VidMap proof.VidMapProofs.
Import ListNotations.
Local Open Scope string_scope.
Local Open Scope list_scope.

(* ---------------- sequential: lookups after any history ---------------- *)

(* after ANY sequence of add / remove notifications and lost connections the
   lookup returns exactly the reference's current locations of the volume, those
   of the client's data center first, or not-found *)
Theorem c35_sequential_exact : forall d evs v,
  lookup_locs (run (init d) evs) v = r_lookup d (r_run [] evs) v.
Proof. exact sequential_exact. Qed.
Print Assumptions c35_sequential_exact.

(* what the reference's lists are, in terms of the history alone: every Url at
   most once; a Url is present exactly when it is "currently added" ([live]: added
   and neither removed nor dropped by a reconnect since), with the record of the
   notification that added it *)
Theorem c35_locations_exact : forall d evs v,
  let ls := view_list (run (init d) evs) v in
  NoDup (map url ls) /\ forall u, find_url u ls = live v u evs.
Proof. exact locations_exact. Qed.
Print Assumptions c35_locations_exact.

(* the cache and the reference agree list for list on every history *)
Theorem c35_view_is_reference : forall d evs v,
  view (run (init d) evs) v = r_find v (r_run [] evs).
Proof. exact view_is_reference. Qed.
Print Assumptions c35_view_is_reference.

(* the "or not-found" clause: not-found exactly when no location of the volume is
   currently added (never added, all removed, or dropped by a lost connection) *)
Theorem c35_not_found_iff : forall d evs v,
  lookup_locs (run (init d) evs) v = Err ErrNotFound <-> forall u, live v u evs = None.
Proof. exact not_found_iff. Qed.
Print Assumptions c35_not_found_iff.

(* ... and never "found, no locations" *)
Theorem c35_found_is_nonempty : forall d evs v ls, view (run (init d) evs) v = Some ls -> ls <> [].
Proof. exact view_nonempty. Qed.
Print Assumptions c35_found_is_nonempty.

(* "same data center first" on the cache's own lookup after any history: own-DC
   locations, then the others; a permutation of the cached list; never empty *)
Theorem c35_lookup_same_dc_first : forall d evs v ls, lookup_locs (run (init d) evs) v = Ok ls ->
  exists a b, ls = a ++ b /\ forallb (same_dc d) a = true /\
              forallb (fun l => negb (same_dc d l)) b = true /\
              Permutation ls (view_list (run (init d) evs) v) /\ ls <> [].
Proof. exact lookup_same_dc_first. Qed.
Print Assumptions c35_lookup_same_dc_first.

(* "same data center first" read off the reference answer *)
Theorem c35_same_dc_first : forall d r v ls, r_lookup d r v = Ok ls ->
  exists a b, ls = a ++ b /\ forallb (same_dc d) a = true /\
              forallb (fun l => negb (same_dc d l)) b = true /\
              Permutation ls (r_list r v).
Proof. exact same_dc_first. Qed.
Print Assumptions c35_same_dc_first.

(* ordering after reconnects: the data center the cache orders by is the client's,
   whatever happened *)
Theorem c35_reconnect_keeps_data_center : forall d evs, data_center (run (init d) evs) = d.
Proof. exact data_center_kept. Qed.
Print Assumptions c35_reconnect_keeps_data_center.

(* ---------------- concurrent readers ---------------- *)

(* a slice taken with GetLocations at any time and read later, while updates
   proceed in any interleaving of their atomic steps, shows the list of SOME state
   of the history *)
Theorem c35_concurrent_views : forall d evs1 evs2 v hd,
  get_locations (run (init d) evs1) v = Some hd ->
  exists k, k <= length (evs1 ++ evs2) /\
    view (run (init d) (firstn k (evs1 ++ evs2))) v
      = Some (cells (heap (run (init d) (evs1 ++ evs2))) hd).
Proof. exact snapshot_some_past_state. Qed.
Print Assumptions c35_concurrent_views.

(* precisely: it keeps showing the list of the moment it was taken *)
Theorem c35_snapshot_stable : forall d evs1 evs2 v hd,
  get_locations (run (init d) evs1) v = Some hd ->
  cells (heap (run (init d) (evs1 ++ evs2))) hd = cells (heap (run (init d) evs1)) hd.
Proof. exact snapshot_stable. Qed.
Print Assumptions c35_snapshot_stable.

(* a LOOKUP that overlaps updates: LookupVolumeServerUrl holds the read lock only
   inside GetLocations (after evs1); it then reads cell i of the slice after any
   further updates [t i] and vc.DataCenter after any further updates [t'] — and
   still answers what the atomic lookup answered at the moment of the lock *)
Theorem c35_concurrent_lookup : forall d evs1 (t : nat -> list ev) t' v,
  lookup_locs_conc (run (init d) evs1) (fun i => run (init d) (evs1 ++ t i))
                   (run (init d) (evs1 ++ t')) v
  = lookup_locs (run (init d) evs1) v.
Proof. exact concurrent_lookup. Qed.
Print Assumptions c35_concurrent_lookup.

(* a reader that takes the read lock after j of the updates sees the reference's
   list of that index: every Url once, exactly the currently added ones, not-found
   iff none *)
Theorem c35_concurrent_get_exact : forall d evs j v,
  let ls := view_list (run (init d) (firstn j evs)) v in
  view (run (init d) (firstn j evs)) v = r_find v (r_run [] (firstn j evs)) /\
  NoDup (map url ls) /\ (forall u, find_url u ls = live v u (firstn j evs)) /\
  (view (run (init d) (firstn j evs)) v = None <-> forall u, live v u (firstn j evs) = None).
Proof. exact concurrent_get_exact. Qed.
Print Assumptions c35_concurrent_get_exact.

(* the decidable checker the concurrent harness mode is judged by: a reader call
   that began after lo updates had completed and returned before more than hi had
   begun is accepted iff SOME index in that window explains its answer *)
Theorem c35_window_checker : forall p lo hi,
  window_ok p lo hi = true <-> exists j, lo <= j <= hi /\ p j = true.
Proof. exact window_ok_spec. Qed.
Print Assumptions c35_window_checker.

(* ---------------- lookup by volume-id string ---------------- *)

(* a string is answered only with the locations of the uint32 volume id it spells *)
Theorem c35_lookup_by_string : forall m s us, lookup_volume_server_url m s = Ok us ->
  exists v ls, parse_uint32 s = Some v /\ (v < 4294967296)%N /\
               lookup_locs m v = Ok ls /\ us = map url ls.
Proof. exact lookup_by_string. Qed.
Print Assumptions c35_lookup_by_string.

Theorem c35_lookup_by_string_rejects : forall m s, parse_uint32 s = None ->
  lookup_volume_server_url m s = Err ErrParse.
Proof. exact lookup_by_string_rejects. Qed.
Print Assumptions c35_lookup_by_string_rejects.

Theorem c35_parse_uint32_sound : forall s v, parse_uint32 s = Some v ->
  s <> "" /\ digits s 0%N = Some v /\ (v < 4294967296)%N.
Proof. exact parse_uint32_sound. Qed.
Print Assumptions c35_parse_uint32_sound.

(* ---------------- messages ---------------- *)
(* a message carrying a leader hint performs no update at all *)
Theorem c35_leader_hint_ignored : forall g, m_leader g <> "" -> events_of_op (Msg g) = [].
Proof. exact leader_hint_ignored. Qed.
Print Assumptions c35_leader_hint_ignored.

(* non-vacuity / regression: the former witnesses of the five repaired defects *)
Example c35_example :
  (* a slice held across a delete still shows what it showed *)
  (exists hd, get_locations (run (init dcA) alias_before) 1%N = Some hd /\
     map url (cells (heap (run (init dcA) (alias_before ++ alias_after))) hd) = ["u1"; "u2"; "u3"]) /\
  map url (view_list (run (init dcA) (alias_before ++ alias_after)) 1%N) = ["u2"; "u3"] /\
  (* own data center first after a reconnect *)
  lookup_locs (run (init dcA) reconnect_witness) 1%N = Ok [locA; locB] /\
  (* an id string that is no uint32 is rejected *)
  lookup_volume_server_url (run (init dcA) [EvAdd 1%N locA]) "4294967297" = Err ErrParse /\
  lookup_volume_server_url (run (init dcA) [EvAdd 1%N locA]) "1" = Ok ["u1"] /\
  (* the last location removed: not-found, not "found, empty" *)
  lookup_locs (run (init dcA) last_gone) 1%N = Err ErrNotFound /\
  get_locations (run (init dcA) last_gone) 1%N = None /\
  (* and a slice taken before still shows it, across the removal and a reconnect *)
  (exists hd, get_locations (run (init dcA) [EvAdd 1%N locA]) 1%N = Some hd /\
     map url (cells (heap (run (init dcA) (last_gone ++ [EvReset; EvAdd 1%N locB]))) hd) = ["u1"]) /\
  (* the window checker: an answer explained by index 2 only *)
  window_ok (fun j => Nat.eqb j 2) 1 3 = true /\ window_ok (fun j => Nat.eqb j 2) 3 5 = false.
Proof. exact example_witnesses. Qed.
Print Assumptions c35_example.
