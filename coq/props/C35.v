(* C35 — Clients' volume location cache mirrors master updates.
   Only statements closed by [exact]; proofs live in proof/VidMapProofs.v.

   Model: model/VidMap.v — vid2Locations as Go slices (array id, len, cap) over a
   heap of backing arrays, addLocation / deleteLocation / lookups as in
   weed/wdclient/vid_map.go, and the update events the receive loop of
   masterclient.go performs (one lock acquisition each; EvReset = the cache
   replacement after a lost connection).  Reference: plain per-volume lists.

   The tree is the REPAIRED one (fix-c35-delete-copies, fix-c35-reconnect-dc,
   fix-c35-vid-parse); all statements below are full. *)
From Coq Require Import String List NArith ZArith Bool Permutation.
From SW Require Import model.VidMap proof.VidMapProofs.
Import ListNotations.
Local Open Scope string_scope.
Local Open Scope list_scope.

(* ---------------- sequential: lookups after any history ---------------- *)

(* after ANY sequence of add / remove notifications and lost connections the
   lookup returns exactly the reference's current locations of the volume, those
   of the client's data center first, or not-found *)
Theorem c35_sequential_exact : forall d evs v,
  lookup_locs (run (init d) evs) v = r_lookup d (r_run [] evs) v.
Proof. exact sequential_exact. Qed.
Print Assumptions c35_sequential_exact.

(* what the reference's lists are, in terms of the history alone: every Url at
   most once; a Url is present exactly when it is "currently added" ([live]: added
   and neither removed nor dropped by a reconnect since), with the record of the
   notification that added it *)
Theorem c35_locations_exact : forall d evs v,
  let ls := view_list (run (init d) evs) v in
  NoDup (map url ls) /\ forall u, find_url u ls = live v u evs.
Proof. exact locations_exact. Qed.
Print Assumptions c35_locations_exact.

(* the cache and the reference agree list for list on every history *)
Theorem c35_view_is_reference : forall d evs v,
  view (run (init d) evs) v = r_find v (r_run [] evs).
Proof. exact view_is_reference. Qed.
Print Assumptions c35_view_is_reference.

(* "same data center first" read off the reference answer *)
Theorem c35_same_dc_first : forall d r v ls, r_lookup d r v = Ok ls ->
  exists a b, ls = a ++ b /\ forallb (same_dc d) a = true /\
              forallb (fun l => negb (same_dc d l)) b = true /\
              Permutation ls (r_list r v).
Proof. exact same_dc_first. Qed.
Print Assumptions c35_same_dc_first.

(* ordering after reconnects: the data center the cache orders by is the client's,
   whatever happened *)
Theorem c35_reconnect_keeps_data_center : forall d evs, data_center (run (init d) evs) = d.
Proof. exact data_center_kept. Qed.
Print Assumptions c35_reconnect_keeps_data_center.

(* ---------------- concurrent readers ---------------- *)

(* a slice taken with GetLocations at any time and read later, while updates
   proceed in any interleaving of their atomic steps, shows the list of SOME state
   of the history *)
Theorem c35_concurrent_views : forall d evs1 evs2 v hd,
  get_locations (run (init d) evs1) v = Some hd ->
  exists k, k <= length (evs1 ++ evs2) /\
    view (run (init d) (firstn k (evs1 ++ evs2))) v
      = Some (cells (heap (run (init d) (evs1 ++ evs2))) hd).
Proof. exact snapshot_some_past_state. Qed.
Print Assumptions c35_concurrent_views.

(* precisely: it keeps showing the list of the moment it was taken *)
Theorem c35_snapshot_stable : forall d evs1 evs2 v hd,
  get_locations (run (init d) evs1) v = Some hd ->
  cells (heap (run (init d) (evs1 ++ evs2))) hd = cells (heap (run (init d) evs1)) hd.
Proof. exact snapshot_stable. Qed.
Print Assumptions c35_snapshot_stable.

(* ---------------- lookup by volume-id string ---------------- *)

(* a string is answered only with the locations of the uint32 volume id it spells *)
Theorem c35_lookup_by_string : forall m s us, lookup_volume_server_url m s = Ok us ->
  exists v ls, parse_uint32 s = Some v /\ (v < 4294967296)%N /\
               lookup_locs m v = Ok ls /\ us = map url ls.
Proof. exact lookup_by_string. Qed.
Print Assumptions c35_lookup_by_string.

Theorem c35_lookup_by_string_rejects : forall m s, parse_uint32 s = None ->
  lookup_volume_server_url m s = Err ErrParse.
Proof. exact lookup_by_string_rejects. Qed.
Print Assumptions c35_lookup_by_string_rejects.

Theorem c35_parse_uint32_sound : forall s v, parse_uint32 s = Some v ->
  s <> "" /\ digits s 0%N = Some v /\ (v < 4294967296)%N.
Proof. exact parse_uint32_sound. Qed.
Print Assumptions c35_parse_uint32_sound.

(* ---------------- messages ---------------- *)
(* a message carrying a leader hint performs no update at all *)
Theorem c35_leader_hint_ignored : forall g, m_leader g <> "" -> events_of_op (Msg g) = [].
Proof. exact leader_hint_ignored. Qed.
Print Assumptions c35_leader_hint_ignored.

(* non-vacuity / regression: the former witnesses of the three repaired defects *)
Example c35_example :
  (* a slice held across a delete still shows what it showed *)
  (exists hd, get_locations (run (init dcA) alias_before) 1%N = Some hd /\
     map url (cells (heap (run (init dcA) (alias_before ++ alias_after))) hd) = ["u1"; "u2"; "u3"]) /\
  map url (view_list (run (init dcA) (alias_before ++ alias_after)) 1%N) = ["u2"; "u3"] /\
  (* own data center first after a reconnect *)
  lookup_locs (run (init dcA) reconnect_witness) 1%N = Ok [locA; locB] /\
  (* an id string that is no uint32 is rejected *)
  lookup_volume_server_url (run (init dcA) [EvAdd 1%N locA]) "4294967297" = Err ErrParse /\
  lookup_volume_server_url (run (init dcA) [EvAdd 1%N locA]) "1" = Ok ["u1"].
Proof. vm_compute. repeat split; try reflexivity. eexists. split; reflexivity. Qed.
