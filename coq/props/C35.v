(* C35 — Clients' volume location cache mirrors master updates.
   Only statements closed by [exact]; proofs live in proof/VidMapProofs.v.

   Model: model/VidMap.v — vid2Locations as Go slices (array id, len, cap) over a
   heap of backing arrays, addLocation / deleteLocation / lookups as in
   weed/wdclient/vid_map.go, and the update events the receive loop of
   masterclient.go performs (one lock acquisition each; EvReset = the cache
   replacement after a lost connection).  Reference: plain per-volume lists. *)
From Coq Require Import String List NArith ZArith Bool Permutation.
From SW Require Import model.VidMap proof.VidMapProofs.
Import ListNotations.
Local Open Scope string_scope.
Local Open Scope list_scope.

(* ---------------- sequential: lookups after any notification sequence ---------------- *)

(* FULL over all sequences of add / remove notifications: the lookup returns
   exactly the reference's current locations of the volume, those of the
   client's data center first, or not-found. *)
Theorem c35_sequential_exact : forall d evs v, forallb notification evs = true ->
  lookup_locs (run (init d) evs) v = r_lookup d (r_run [] evs) v.
Proof. exact sequential_exact. Qed.
Print Assumptions c35_sequential_exact.

(* what the reference's lists are, in terms of the history alone: every Url at
   most once; a Url is present exactly when it is "currently added" ([live]: added
   and neither removed nor dropped by a reconnect since), with the record of the
   notification that added it.  Holds for EVERY history, reconnects included. *)
Theorem c35_locations_exact : forall d evs v,
  let ls := view_list (run (init d) evs) v in
  NoDup (map url ls) /\ forall u, find_url u ls = live v u evs.
Proof. exact locations_exact. Qed.
Print Assumptions c35_locations_exact.

(* the cache and the reference agree list for list on every history *)
Theorem c35_view_is_reference : forall d evs v,
  view (run (init d) evs) v = r_find v (r_run [] evs).
Proof. exact view_is_reference. Qed.
Print Assumptions c35_view_is_reference.

(* "same data center first" read off the reference answer *)
Theorem c35_same_dc_first : forall d r v ls, r_lookup d r v = Ok ls ->
  exists a b, ls = a ++ b /\ forallb (same_dc d) a = true /\
              forallb (fun l => negb (same_dc d l)) b = true /\
              Permutation ls (r_list r v).
Proof. exact same_dc_first. Qed.
Print Assumptions c35_same_dc_first.

(* Known finding 1.  With lost connections in the history the statement above is
   FALSE: tryAllMasters installs newVidMap(""), forgetting the client's data center. *)
Theorem c35_reconnect_keeps_order_refuted : exists d evs v,
  lookup_locs (run (init d) evs) v <> r_lookup d (r_run [] evs) v.
Proof. exact lookup_exact_refuted. Qed.
Print Assumptions c35_reconnect_keeps_order_refuted.

(* strongest true statements: exact as long as no reconnect happened ... *)
Theorem c35_reconnect_keeps_order_partial : forall d evs v, has_reset evs = false ->
  lookup_locs (run (init d) evs) v = r_lookup d (r_run [] evs) v.
Proof. exact lookup_exact_partial. Qed.
Print Assumptions c35_reconnect_keeps_order_partial.

(* ... and in every case exact with respect to the data center the cache holds NOW *)
Theorem c35_lookup_orders_by_current_dc : forall d evs v,
  let m := run (init d) evs in
  lookup_locs m v = r_lookup (data_center m) (r_run [] evs) v.
Proof. exact lookup_is_reference_current_dc. Qed.
Print Assumptions c35_lookup_orders_by_current_dc.

(* ---------------- concurrent readers ---------------- *)

(* Known finding 0.  FULL statement "a slice taken with GetLocations at any time
   and read later, while updates proceed, shows the list of SOME state of the
   history" is FALSE: deleteLocation compacts the shared backing array in place. *)
Theorem c35_concurrent_views_refuted : exists d evs1 evs2 v hd,
  get_locations (run (init d) evs1) v = Some hd /\
  forall k, view (run (init d) (firstn k (evs1 ++ evs2))) v
            <> Some (cells (heap (run (init d) (evs1 ++ evs2))) hd).
Proof. exact snapshot_some_past_state_refuted. Qed.
Print Assumptions c35_concurrent_views_refuted.

(* strongest true statement: if no update removes a location of that volume while
   the slice is held ([delete_while_held], decidable), the slice keeps showing
   exactly the list of the moment it was taken — for every interleaving of the
   atomic updates that follow. *)
Theorem c35_concurrent_views_partial : forall d evs1 evs2 v hd,
  get_locations (run (init d) evs1) v = Some hd ->
  delete_while_held (r_run [] evs1) v evs2 = false ->
  cells (heap (run (init d) (evs1 ++ evs2))) hd = cells (heap (run (init d) evs1)) hd.
Proof. exact snapshot_stable_partial. Qed.
Print Assumptions c35_concurrent_views_partial.

(* ---------------- lookup by volume-id string ---------------- *)

(* Known finding 2.  strconv.Atoi followed by uint32(id): a decimal string that
   is not a volume id at all is answered with another volume's locations. *)
Theorem c35_lookup_by_string_refuted : exists m s z,
  atoi s = Some z /\ (z < 0 \/ 4294967296 <= z)%Z /\
  exists us, lookup_volume_server_url m s = Ok us /\ us <> [].
Proof. exact lookup_by_string_refuted. Qed.
Print Assumptions c35_lookup_by_string_refuted.

Theorem c35_lookup_by_string_partial : forall m s z,
  atoi s = Some z -> (0 <= z < 4294967296)%Z ->
  lookup_volume_server_url m s =
    match lookup_locs m (Z.to_N z) with Ok ls => Ok (map url ls) | Err e => Err e end.
Proof. exact lookup_by_string_partial. Qed.
Print Assumptions c35_lookup_by_string_partial.

(* ---------------- messages ---------------- *)
(* a message carrying a leader hint performs no update at all *)
Theorem c35_leader_hint_ignored : forall g, m_leader g <> "" -> events_of_op (Msg g) = [].
Proof. exact leader_hint_ignored. Qed.
Print Assumptions c35_leader_hint_ignored.

(* non-vacuity: the hypotheses of the partial theorems hold on non-trivial
   histories, and the witnesses fall inside the triggers *)
Example c35_example :
  let evs1 := [EvAdd 1%N locA; EvAdd 1%N locB; EvAdd 2%N locA; EvAdd 1%N locC] in
  let evs2 := [EvAdd 1%N {| url := "u4"; public_url := ""; dc := "dcB" |}; EvDel 2%N locA; EvDel 1%N {| url := "nope"; public_url := ""; dc := "" |}] in
  forallb notification (evs1 ++ evs2) = true /\
  (exists hd, get_locations (run (init dcA) evs1) 1%N = Some hd /\ s_len hd = 3) /\
  delete_while_held (r_run [] evs1) 1%N evs2 = false /\
  lookup_locs (run (init dcA) (evs1 ++ evs2)) 1%N
    = Ok [locC; locA; locB; {| url := "u4"; public_url := ""; dc := "dcB" |}] /\
  delete_while_held (r_run [] alias_before) 1%N alias_after = true /\
  has_reset reconnect_witness = true.
Proof. vm_compute. repeat split; try reflexivity. eexists. split; reflexivity. Qed.
