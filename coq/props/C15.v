(* C15 — Volume balancing and replica repair never break placement.
   Only statements closed by [exact]; proofs live in proof/VolPlannerProofs*.v.

   Shape: the planners are transition systems; [balance_accepts], [evac_accepts],
   [fix_accepts] say that a recorded plan is one the Go code can produce on a
   snapshot; [prop_trace] evaluates the four clauses of the property on the real
   cluster after every step (ok_coloc, ok_cap, ok_pres, ok_repair).  All theorems
   quantify over all snapshots and all accepted plans (induction over the plan).
   Six defects of the Go planners were confirmed; three are repaired in the tree
   (repair counts its planned copies, -retry does not repeat a successful repair,
   isGoodMove is consulted for replication 000) and the model follows the repaired code:
   their clauses are now full theorems.  For the three that remain (k0 balance capacity,
   k1 evacuate capacity, k2 isGoodMove rack count) the broken clauses are stated as
   [_refuted] (witness evaluated in the faithful model) and [_partial] (under the
   decidable trigger of the finding being off). *)
From Coq Require Import List NArith ZArith Bool.
From SW Require Import model.VolPlanner proof.VolPlannerProofs proof.VolPlannerProofs2
  proof.VolPlannerProofs3 proof.VolPlannerProofs4 proof.VolPlannerProofs5 proof.VolPlannerProofs6
  proof.VolPlannerProofs7 proof.VolPlannerProofs8 proof.VolPlannerProofs9.
Import ListNotations.

(* ===== the two placement functions against the spec (all inputs) ===== *)

(* satisfyReplicaPlacement: a copy it admits goes to a server without the volume and
   keeps a set that could be completed to a valid xyz layout completable.  FULL. *)
Theorem c15_satisfy_keeps_completable : forall p l c,
  SubP p l -> ids_ok (c :: l) -> satisfy p l c = true ->
  SubP p (c :: l) /\ ~ In (l_node c) (map l_node l).
Proof. exact (fun p l c H1 H2 H3 => conj (satisfy_SubP p l c H1 H2 H3) (satisfy_no_coloc p l c H2 H3)). Qed.
Print Assumptions c15_satisfy_keeps_completable.

(* isGoodMove: never onto a server holding the volume.  FULL. *)
Theorem c15_good_move_no_colocation : forall p l f t, ids_ok (t :: l) ->
  is_good_move p l f t = true -> ~ In (l_node t) (map l_node l).
Proof. exact good_move_no_coloc. Qed.
Print Assumptions c15_good_move_no_colocation.

(* isGoodMove: a valid layout stays valid — PARTIAL: unless x >= 1 and y >= 2 ... *)
Theorem c15_good_move_preserves_partial : forall p l f t,
  valid_placement p l = true -> In f l -> ids_ok (t :: l) ->
  is_good_move p l f t = true -> rp_trig p = false ->
  valid_placement p (relocate_loc f t l) = true.
Proof. exact good_move_valid. Qed.
Print Assumptions c15_good_move_preserves_partial.

(* ... REFUTED for replication 120: three racks + one becomes two + two. *)
Theorem c15_good_move_preserves_refuted : exists p l f t,
  valid_placement p l = true /\ is_good_move p l f t = true /\
  valid_placement p (relocate_loc f t l) = false.
Proof. exact (ex_intro _ _ (ex_intro _ _ (ex_intro _ _ (ex_intro _ _ w5_fn_facts)))). Qed.
Print Assumptions c15_good_move_preserves_refuted.

(* ===== c15_no_colocation ===== *)
(* FULL (over well-formed snapshots, for all three planners) *)
Theorem c15_no_colocation_balance : forall limit s colls dts tr w',
  wf_snap s -> phases_ok (phases_of colls dts) = true ->
  balance_accepts limit s colls dts tr = Some w' ->
  ok_coloc (prop_trace s (init_world s) tr) = true.
Proof. exact (fun limit s colls dts tr w' H1 H3 H4 => proj1 (balance_accepts_safe limit s colls dts tr w' H1 H3 H4)). Qed.
Print Assumptions c15_no_colocation_balance.

Theorem c15_no_colocation_evacuate : forall s this skip evs,
  wf_snap s -> evac_accepts s this skip evs = true ->
  ok_coloc (prop_trace s (init_world s) (evac_steps this evs)) = true.
Proof. exact (fun s this skip evs H1 H3 => proj1 (evac_accepts_safe s this skip evs H1 H3)). Qed.
Print Assumptions c15_no_colocation_evacuate.

Theorem c15_no_colocation_repair : forall s retry evs, wf_snap s -> fix_accepts s retry evs = true ->
  ok_coloc (prop_trace s (init_world s) (fix_steps evs)) = true.
Proof. exact (fun s retry evs H1 H2 => proj1 (fix_accepts_safe s retry evs H1 H2)). Qed.
Print Assumptions c15_no_colocation_repair.

(* ===== c15_capacity ===== *)
(* by the planner's OWN bookkeeping: FULL *)
Theorem c15_capacity_own_repair : forall s planned vid from to, fix_copy_ok s planned vid from to = true ->
  exists src t, In src (reps_of s vid) /\ l_node (r_loc src) = from /\ In t s /\ n_id t = to /\
    (0 < cap_free t (v_dt (r_info src)) - planned to (v_dt (r_info src)))%Z.
Proof. exact fix_copy_own_capacity. Qed.
Print Assumptions c15_capacity_own_repair.

Theorem c15_capacity_own_balance : forall c st vid dt from to t,
  balance_step_ok c st vid dt from to = true -> find_cap c to = Some t ->
  (0 < bc_max_total c)%Z -> (bc_sel_total c <= bc_max_total c)%Z -> (0 < snd t)%Z ->
  (nsel st t + 1 <= snd t)%Z.
Proof. exact balance_step_own_capacity. Qed.
Print Assumptions c15_capacity_own_balance.

(* by the true count: PARTIAL *)
Theorem c15_capacity_balance_partial : forall limit s colls dts tr w',
  NoDup (map n_id s) -> caps_nonneg s ->
  balance_accepts limit s colls dts tr = Some w' ->
  trig_balance_cap limit s (phases_of colls dts) (init_world s) tr = false ->
  ok_cap (prop_trace s (init_world s) tr) = true.
Proof.
  exact (fun limit s colls dts tr w' H1 H2 H3 H4 =>
           proj1 (balance_run_capacity limit s (phases_of colls dts) (init_world s) tr w' H1 H2 H3 H4)).
Qed.
Print Assumptions c15_capacity_balance_partial.

Theorem c15_capacity_evacuate_partial : forall s this skip evs,
  NoDup (map n_id s) -> trig_evac_cap s this = false -> evac_accepts s this skip evs = true ->
  ok_cap (prop_trace s (init_world s) (evac_steps this evs)) = true.
Proof. exact evac_accepts_capacity. Qed.
Print Assumptions c15_capacity_evacuate_partial.

(* repair, by the true count: FULL (VolumeCount of a disk >= number of its volumes) *)
Theorem c15_capacity_repair : forall s retry evs, wf_snap s -> counts_okb s = true ->
  fix_accepts s retry evs = true ->
  ok_cap (prop_trace s (init_world s) (fix_steps evs)) = true.
Proof. exact fix_accepts_capacity. Qed.
Print Assumptions c15_capacity_repair.

(* REFUTED for balance and evacuate *)
Theorem c15_capacity_refuted :
  (exists limit s colls dts tr, wf_snap s /\ is_some (balance_accepts limit s colls dts tr) = true /\
      ok_cap (prop_trace s (init_world s) tr) = false) /\
  (exists s this skip evs, wf_snap s /\ evac_accepts s this skip evs = true /\
      ok_cap (prop_trace s (init_world s) (evac_steps this evs)) = false).
Proof.
  exact (conj
    (ex_intro _ 1000%N (ex_intro _ w0_snap (ex_intro _ [None] (ex_intro _ [0%N] (ex_intro _ w0_plan
       (conj (proj1 (wf_snapb_iff _) (proj1 w0_facts)) (proj2 w0_facts)))))))
    (ex_intro _ w1_snap (ex_intro _ 1%N (ex_intro _ true (ex_intro _ w1_events
       (conj (proj1 (wf_snapb_iff _) (proj1 w1_facts)) (proj2 w1_facts))))))).
Qed.
Print Assumptions c15_capacity_refuted.

(* ===== c15_placement_preserved ===== *)
Theorem c15_placement_preserved_balance_partial : forall limit s colls dts tr w',
  wf_snap s -> phases_ok (phases_of colls dts) = true ->
  balance_accepts limit s colls dts tr = Some w' -> trig_rp_xy s = false ->
  ok_pres (prop_trace s (init_world s) tr) = true.
Proof. exact (fun limit s colls dts tr w' H1 H3 H4 => proj2 (balance_accepts_safe limit s colls dts tr w' H1 H3 H4)). Qed.
Print Assumptions c15_placement_preserved_balance_partial.

Theorem c15_placement_preserved_evacuate_partial : forall s this skip evs,
  wf_snap s -> evac_accepts s this skip evs = true -> trig_rp_xy s = false ->
  ok_pres (prop_trace s (init_world s) (evac_steps this evs)) = true.
Proof. exact (fun s this skip evs H1 H3 => proj2 (evac_accepts_safe s this skip evs H1 H3)). Qed.
Print Assumptions c15_placement_preserved_evacuate_partial.

Theorem c15_placement_preserved_refuted : exists s this skip evs,
  wf_snap s /\ evac_accepts s this skip evs = true /\
  ok_pres (prop_trace s (init_world s) (evac_steps this evs)) = false.
Proof.
  exact (ex_intro _ w5_snap (ex_intro _ 3%N (ex_intro _ true (ex_intro _ w5_events
           (conj (proj1 (wf_snapb_iff _) (proj1 w5_facts)) (proj2 w5_facts)))))).
Qed.
Print Assumptions c15_placement_preserved_refuted.

(* ===== c15_repair_satisfies ===== *)
(* every copy of an accepted repair plan (any -retry) keeps its volume's replica set
   completable to a valid layout, and a purge never goes below the copy count.  FULL. *)
Theorem c15_repair_satisfies : forall s retry evs, wf_snap s -> fix_accepts s retry evs = true ->
  ok_repair (prop_trace s (init_world s) (fix_steps evs)) = true /\
  ok_pres (prop_trace s (init_world s) (fix_steps evs)) = true.
Proof. exact (fun s retry evs H1 H2 => proj2 (fix_accepts_safe s retry evs H1 H2)). Qed.
Print Assumptions c15_repair_satisfies.

(* ===== non-vacuity: accepted, non-empty plans with every hypothesis satisfied ===== *)
Example c15_example_balance :
  wf_snapb ex_snap = true /\ trig_rp_xy ex_snap = false /\
  phases_ok (phases_of [None] [0%N; 1%N]) = true /\ phases_ok (phases_of [Some 1%N; Some 2%N] [0%N; 1%N]) = true /\
  is_some (balance_accepts 1000 ex_snap [None] [0%N] ex_plan) = true /\
  trig_balance_cap 1000 ex_snap (phases_of [None] [0%N]) (init_world ex_snap) ex_plan = false /\
  v4_all (prop_trace ex_snap (init_world ex_snap) ex_plan) = true.
Proof. vm_compute. repeat split; reflexivity. Qed.

Example c15_example_evacuate_repair :
  evac_accepts ex_snap 1 true [EMove 1 0 2; EMove 2 0 2; ESkip 3]%N = true /\ trig_evac_cap ex_snap 1 = false /\
  wf_snapb ex_fix_snap = true /\ counts_okb ex_fix_snap = true /\
  fix_accepts ex_fix_snap 0 [FCopy 1 1 3]%N = true.
Proof. vm_compute. repeat split; reflexivity. Qed.

(* the witnesses of the three repaired defects: the old plans are no longer accepted,
   the plans of the repaired code are, and every clause holds on them *)
Example c15_example_repaired :
  (fix_accepts w2_snap 0 [FCopy 1 1 2; FCopy 2 1 2]%N = false /\ fix_accepts w2_snap 0 w2_events = true /\
   v4_all (prop_trace w2_snap (init_world w2_snap) (fix_steps w2_events)) = true) /\
  (fix_accepts w3_snap 1 [FCopy 1 1 2; FCopy 1 1 2]%N = false /\ fix_accepts w3_snap 1 w3_events = true /\
   v4_all (prop_trace w3_snap (init_world w3_snap) (fix_steps w3_events)) = true) /\
  (is_some (balance_accepts 1000 w4_snap [None] [0%N] [Move 1 0 1 2]%N) = false /\
   is_some (balance_accepts 1000 w4_snap [None] [0%N] w4_plan) = true /\
   v4_all (prop_trace w4_snap (init_world w4_snap) w4_plan) = true).
Proof. vm_compute. repeat split; reflexivity. Qed.
