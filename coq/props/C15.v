(* C15 — Volume balancing and replica repair never break placement.
   Only statements closed by [exact]; proofs live in proof/VolPlannerProofs*.v.

   Shape: the planners are transition systems; [balance_accepts], [evac_accepts],
   [fix_accepts] say that a recorded plan is one the Go code can produce on a
   snapshot; [prop_step] evaluates the four clauses of the property on the real
   cluster at every step (ok_coloc, ok_cap, ok_pres, ok_repair), [prop_trace] is their
   conjunction over a plan.  All theorems quantify over all snapshots and all accepted
   plans (induction over the plan).
   Eight defects of the Go planners were confirmed; three are repaired in the tree
   (repair counts its planned copies, -retry does not repeat a successful repair,
   isGoodMove is consulted for replication 000) and the model follows the repaired code:
   their clauses are full theorems.  For the four that remain (k0 balance capacity,
   k1 evacuate capacity, k2 isGoodMove rack count, k3 purge of an over-replicated volume
   ignores placement) the broken clauses are stated as [_refuted] (witness evaluated in the
   faithful model) and [_partial].  The partial theorems are PER STEP:
   [excused clause trig s w plan] says that every step of the plan either satisfies the clause
   or lies in the decidable trigger set of the finding — evaluated for that step alone (the
   moved replica's replication setting, the target server of the move, the purged volume's
   replica set), so no other violation can hide behind another volume or server. *)
From Coq Require Import List NArith ZArith Bool.
From SW Require Import model.VolPlanner proof.VolPlannerProofs proof.VolPlannerProofs2
  proof.VolPlannerProofs3 proof.VolPlannerProofs4 proof.VolPlannerProofs5 proof.VolPlannerProofs6
  proof.VolPlannerProofs7 proof.VolPlannerProofs8 proof.VolPlannerProofs9 proof.VolPlannerProofs10
  proof.VolPlannerProofs11.
Import ListNotations.

(* ===== the two placement functions against the spec (all inputs) ===== *)

(* satisfyReplicaPlacement: a copy it admits goes to a server without the volume and
   keeps a set that could be completed to a valid xyz layout completable.  FULL. *)
Theorem c15_satisfy_keeps_completable : forall p l c,
  SubP p l -> ids_ok (c :: l) -> satisfy p l c = true ->
  SubP p (c :: l) /\ ~ In (l_node c) (map l_node l).
Proof. exact (fun p l c H1 H2 H3 => conj (satisfy_SubP p l c H1 H2 H3) (satisfy_no_coloc p l c H2 H3)). Qed.
Print Assumptions c15_satisfy_keeps_completable.

(* a completable set never has more than copy_count members, hence satisfyReplicaPlacement
   admits no copy for a volume whose replicas already form a valid layout.  FULL. *)
Theorem c15_completable_at_most_copy_count : forall p l, SubP p l -> length l <= copy_count p.
Proof. exact SubP_length. Qed.
Print Assumptions c15_completable_at_most_copy_count.

Theorem c15_satisfy_refuses_satisfied_volume : forall p l c,
  ids_ok (c :: l) -> satisfy p l c = true -> valid_placement p l = false.
Proof. exact satisfy_not_valid. Qed.
Print Assumptions c15_satisfy_refuses_satisfied_volume.

(* isGoodMove: never onto a server holding the volume.  FULL. *)
Theorem c15_good_move_no_colocation : forall p l f t, ids_ok (t :: l) ->
  is_good_move p l f t = true -> ~ In (l_node t) (map l_node l).
Proof. exact good_move_no_coloc. Qed.
Print Assumptions c15_good_move_no_colocation.

(* isGoodMove: a valid layout stays valid — PARTIAL: unless x >= 1 and y >= 2 ... *)
Theorem c15_good_move_preserves_partial : forall p l f t,
  valid_placement p l = true -> In f l -> ids_ok (t :: l) ->
  is_good_move p l f t = true -> rp_trig p = false ->
  valid_placement p (relocate_loc f t l) = true.
Proof. exact good_move_valid. Qed.
Print Assumptions c15_good_move_preserves_partial.

(* ... REFUTED for replication 120: three racks + one becomes two + two. *)
Theorem c15_good_move_preserves_refuted : exists p l f t,
  valid_placement p l = true /\ is_good_move p l f t = true /\
  valid_placement p (relocate_loc f t l) = false.
Proof. exact (ex_intro _ _ (ex_intro _ _ (ex_intro _ _ (ex_intro _ _ w5_fn_facts)))). Qed.
Print Assumptions c15_good_move_preserves_refuted.

(* ===== c15_no_colocation ===== *)
(* FULL (over well-formed snapshots, for all three planners) *)
Theorem c15_no_colocation_balance : forall limit s colls dts tr w',
  wf_snap s -> phases_ok (phases_of colls dts) = true ->
  balance_accepts limit s colls dts tr = Some w' ->
  ok_coloc (prop_trace s (init_world s) tr) = true.
Proof. exact (fun limit s colls dts tr w' H1 H3 H4 => proj1 (balance_accepts_safe limit s colls dts tr w' H1 H3 H4)). Qed.
Print Assumptions c15_no_colocation_balance.

Theorem c15_no_colocation_evacuate : forall s this skip evs,
  wf_snap s -> evac_accepts s this skip evs = true ->
  ok_coloc (prop_trace s (init_world s) (evac_steps this evs)) = true.
Proof. exact (fun s this skip evs H1 H3 => proj1 (evac_accepts_safe s this skip evs H1 H3)). Qed.
Print Assumptions c15_no_colocation_evacuate.

Theorem c15_no_colocation_repair : forall s retry evs, wf_snap s -> fix_accepts s retry evs = true ->
  ok_coloc (prop_trace s (init_world s) (fix_steps evs)) = true.
Proof. exact (fun s retry evs H1 H2 => proj1 (fix_accepts_safe s retry evs H1 H2)). Qed.
Print Assumptions c15_no_colocation_repair.

(* ===== c15_capacity ===== *)
(* by the planner's OWN bookkeeping: FULL *)
Theorem c15_capacity_own_repair : forall s planned vid from to, fix_copy_ok s planned vid from to = true ->
  exists src t, In src (reps_of s vid) /\ l_node (r_loc src) = from /\ In t s /\ n_id t = to /\
    (0 < cap_free t (v_dt (r_info src)) - planned to (v_dt (r_info src)))%Z.
Proof. exact fix_copy_own_capacity. Qed.
Print Assumptions c15_capacity_own_repair.

Theorem c15_capacity_own_balance : forall c st vid dt from to t,
  balance_step_ok c st vid dt from to = true -> find_cap c to = Some t ->
  (0 < bc_max_total c)%Z -> (bc_sel_total c <= bc_max_total c)%Z -> (0 < snd t)%Z ->
  (nsel st t + 1 <= snd t)%Z.
Proof. exact balance_step_own_capacity. Qed.
Print Assumptions c15_capacity_own_balance.

(* by the true count: PARTIAL, per step — every move of an accepted volume.balance plan goes to
   a server with a free slot, or THAT target server is in the trigger set of finding 0
   ([node_cap_trig]: its unselected volumes leave no room for its ideal share) *)
Theorem c15_capacity_balance_partial : forall limit s colls dts tr w',
  NoDup (map n_id s) -> caps_nonneg s ->
  balance_accepts limit s colls dts tr = Some w' ->
  balance_cap_excused limit s (phases_of colls dts) (init_world s) tr = true.
Proof. exact (fun limit s colls dts tr w' H1 H2 H3 =>
                balance_run_cap_excused limit s (phases_of colls dts) (init_world s) tr w' H1 H2 H3). Qed.
Print Assumptions c15_capacity_balance_partial.

(* the former, coarser form (no phase starts with ANY server in the trigger set) *)
Theorem c15_capacity_balance_partial_run : forall limit s colls dts tr w',
  NoDup (map n_id s) -> caps_nonneg s ->
  balance_accepts limit s colls dts tr = Some w' ->
  trig_balance_cap limit s (phases_of colls dts) (init_world s) tr = false ->
  ok_cap (prop_trace s (init_world s) tr) = true.
Proof.
  exact (fun limit s colls dts tr w' H1 H2 H3 H4 =>
           proj1 (balance_run_capacity limit s (phases_of colls dts) (init_world s) tr w' H1 H2 H3 H4)).
Qed.
Print Assumptions c15_capacity_balance_partial_run.

(* PARTIAL, per step — every move of an accepted evacuate plan goes to a server with a free slot,
   or THAT target cannot take all volumes of the moved volume's disk type that the evacuated
   server holds ([evac_cap_trig s this to dt], finding 1) *)
Theorem c15_capacity_evacuate_partial : forall s this skip evs,
  NoDup (map n_id s) -> evac_accepts s this skip evs = true ->
  excused ok_cap (step_evac_trig s this) s (init_world s) (evac_steps this evs) = true.
Proof. exact evac_accepts_cap_excused. Qed.
Print Assumptions c15_capacity_evacuate_partial.

(* the former, coarser form (NO other server is in the trigger set) *)
Theorem c15_capacity_evacuate_partial_run : forall s this skip evs,
  NoDup (map n_id s) -> trig_evac_cap s this = false -> evac_accepts s this skip evs = true ->
  ok_cap (prop_trace s (init_world s) (evac_steps this evs)) = true.
Proof. exact evac_accepts_capacity. Qed.
Print Assumptions c15_capacity_evacuate_partial_run.

(* repair, by the true count: FULL (VolumeCount of a disk >= number of its volumes) *)
Theorem c15_capacity_repair : forall s retry evs, wf_snap s -> counts_okb s = true ->
  fix_accepts s retry evs = true ->
  ok_cap (prop_trace s (init_world s) (fix_steps evs)) = true.
Proof. exact fix_accepts_capacity. Qed.
Print Assumptions c15_capacity_repair.

(* REFUTED for balance and evacuate *)
Theorem c15_capacity_refuted :
  (exists limit s colls dts tr, wf_snap s /\ is_some (balance_accepts limit s colls dts tr) = true /\
      ok_cap (prop_trace s (init_world s) tr) = false) /\
  (exists s this skip evs, wf_snap s /\ evac_accepts s this skip evs = true /\
      ok_cap (prop_trace s (init_world s) (evac_steps this evs)) = false).
Proof.
  exact (conj
    (ex_intro _ 1000%N (ex_intro _ w0_snap (ex_intro _ [None] (ex_intro _ [0%N] (ex_intro _ w0_plan
       (conj (proj1 (wf_snapb_iff _) (proj1 w0_facts)) (proj2 w0_facts)))))))
    (ex_intro _ w1_snap (ex_intro _ 1%N (ex_intro _ true (ex_intro _ w1_events
       (conj (proj1 (wf_snapb_iff _) (proj1 w1_facts)) (proj2 w1_facts))))))).
Qed.
Print Assumptions c15_capacity_refuted.

(* the EC half of volumeServer.evacuate: PARTIAL, per step — every EC shard of an accepted plan
   goes to a server with a free EC slot, or THAT server cannot take all the shards the evacuated
   server holds ([ec_cap_trig], finding 4: moveAwayOneEcVolume never tests freeEcSlot) *)
Theorem c15_capacity_evacuate_ec_partial : forall es this skip evs,
  NoDup (map e_id es) -> ec_evac_accepts es this skip evs = true ->
  ec_cap_steps (ec_cap_trig es this) (ec_others es this) evs = true.
Proof. exact ec_evac_accepts_cap_excused. Qed.
Print Assumptions c15_capacity_evacuate_ec_partial.

(* REFUTED: the shards go to the server with the fewest shards of the volume, here one without
   any free EC slot, although another server has 18 *)
Theorem c15_capacity_evacuate_ec_refuted : exists es this skip evs,
  NoDup (map e_id es) /\ ec_evac_accepts es this skip evs = true /\
  ec_ok_cap (ec_others es this) evs = false.
Proof.
  exact (ex_intro _ w9_ec (ex_intro _ 1%N (ex_intro _ true (ex_intro _ w9_events
    (conj (proj1 w9_facts) (conj (proj1 (proj2 w9_facts)) (proj1 (proj2 (proj2 w9_facts))))))))).
Qed.
Print Assumptions c15_capacity_evacuate_ec_refuted.

(* ===== c15_placement_preserved ===== *)
(* PARTIAL, per step — every move of an accepted plan keeps a valid layout valid, or the
   replication setting of the MOVED replica has x >= 1 and y >= 2 ([step_rp_trig], finding 2) *)
Theorem c15_placement_preserved_balance_partial : forall limit s colls dts tr w',
  wf_snap s -> phases_ok (phases_of colls dts) = true ->
  balance_accepts limit s colls dts tr = Some w' ->
  excused ok_pres step_rp_trig s (init_world s) tr = true.
Proof. exact balance_accepts_excused. Qed.
Print Assumptions c15_placement_preserved_balance_partial.

Theorem c15_placement_preserved_evacuate_partial : forall s this skip evs,
  wf_snap s -> evac_accepts s this skip evs = true ->
  excused ok_pres step_rp_trig s (init_world s) (evac_steps this evs) = true.
Proof. exact evac_accepts_excused. Qed.
Print Assumptions c15_placement_preserved_evacuate_partial.

(* the former, coarser forms (NO volume of the snapshot has x >= 1 and y >= 2) *)
Theorem c15_placement_preserved_balance_partial_run : forall limit s colls dts tr w',
  wf_snap s -> phases_ok (phases_of colls dts) = true ->
  balance_accepts limit s colls dts tr = Some w' -> trig_rp_xy s = false ->
  ok_pres (prop_trace s (init_world s) tr) = true.
Proof. exact (fun limit s colls dts tr w' H1 H3 H4 => proj2 (balance_accepts_safe limit s colls dts tr w' H1 H3 H4)). Qed.
Print Assumptions c15_placement_preserved_balance_partial_run.

Theorem c15_placement_preserved_evacuate_partial_run : forall s this skip evs,
  wf_snap s -> evac_accepts s this skip evs = true -> trig_rp_xy s = false ->
  ok_pres (prop_trace s (init_world s) (evac_steps this evs)) = true.
Proof. exact (fun s this skip evs H1 H3 => proj2 (evac_accepts_safe s this skip evs H1 H3)). Qed.
Print Assumptions c15_placement_preserved_evacuate_partial_run.

Theorem c15_placement_preserved_refuted : exists s this skip evs,
  wf_snap s /\ evac_accepts s this skip evs = true /\
  ok_pres (prop_trace s (init_world s) (evac_steps this evs)) = false.
Proof.
  exact (ex_intro _ w5_snap (ex_intro _ 3%N (ex_intro _ true (ex_intro _ w5_events
           (conj (proj1 (wf_snapb_iff _) (proj1 w5_facts)) (proj2 w5_facts)))))).
Qed.
Print Assumptions c15_placement_preserved_refuted.

(* ===== c15_repair_satisfies ===== *)
(* every copy of an accepted repair plan (any -retry) keeps its volume's replica set
   completable to a valid layout.  FULL. *)
Theorem c15_repair_satisfies : forall s retry evs, wf_snap s -> fix_accepts s retry evs = true ->
  ok_repair (prop_trace s (init_world s) (fix_steps evs)) = true.
Proof. exact (fun s retry evs H1 H2 => proj1 (proj2 (fix_accepts_safe s retry evs H1 H2))). Qed.
Print Assumptions c15_repair_satisfies.

(* a purge never goes below the copy count.  FULL. *)
Theorem c15_purge_keeps_copy_count : forall s retry evs, wf_snap s -> fix_accepts s retry evs = true ->
  all_steps purge_count_ok s (init_world s) (fix_steps evs) = true.
Proof. exact (fun s retry evs H1 H2 => proj2 (proj2 (proj2 (fix_accepts_safe s retry evs H1 H2)))). Qed.
Print Assumptions c15_purge_keeps_copy_count.

(* repair never turns a satisfied volume into an unsatisfied one: a copy is never planned for a
   volume whose replicas form a valid layout (FULL inside the clause), and if copy_count of an
   over-replicated volume's copies formed a valid layout, copy_count of the copies left by the
   purge still do — PARTIAL, per step: unless some OLDEST copy of THAT volume is needed by every
   valid subset ([delete_pres_trig], finding 3: pickOneReplicaToDelete ranks by age alone) *)
Theorem c15_repair_preserves_partial : forall s retry evs, wf_snap s -> fix_accepts s retry evs = true ->
  excused ok_pres step_delete_trig s (init_world s) (fix_steps evs) = true.
Proof. exact (fun s retry evs H1 H2 => proj1 (proj2 (proj2 (fix_accepts_safe s retry evs H1 H2)))). Qed.
Print Assumptions c15_repair_preserves_partial.

(* REFUTED: 010 volume on n1 (r1), n2 (r1), n3 (r2), n3 the oldest: n3 is purged, both
   remaining copies share rack r1 although {n1, n3} was a valid layout *)
Theorem c15_repair_preserves_refuted : exists s retry evs,
  wf_snap s /\ counts_okb s = true /\ fix_accepts s retry evs = true /\
  ok_pres (prop_trace s (init_world s) (fix_steps evs)) = false.
Proof.
  exact (ex_intro _ w6_snap (ex_intro _ 0 (ex_intro _ w6_events
    (conj (proj1 (wf_snapb_iff _) (proj1 w6_facts))
      (conj (proj1 (proj2 w6_facts))
        (conj (proj1 (proj2 (proj2 w6_facts)))
              (proj1 (proj2 (proj2 (proj2 (proj2 (proj2 w6_facts)))))))))))).
Qed.
Print Assumptions c15_repair_preserves_refuted.

(* ===== non-vacuity: the hypotheses are satisfiable on non-trivial inputs ===== *)
(* hypotheses of c15_good_move_preserves_partial / c15_good_move_no_colocation: a 010 volume *)
Example c15_example_good_move :
  let p := rp_of_byte 10 in let l := [exl 1 1 1; exl 1 2 2]%N in let f := exl 1 1 1 in let t := exl 1 3 3 in
  valid_placement p l = true /\ In f l /\ ids_ok (t :: l) /\ is_good_move p l f t = true /\
  rp_trig p = false /\ valid_placement p (relocate_loc f t l) = true.
Proof. exact ex_good_move_facts. Qed.
Print Assumptions c15_example_good_move.

(* hypotheses of c15_satisfy_keeps_completable: a 011 volume lacking its same-rack copy *)
Example c15_example_satisfy :
  let p := rp_of_byte 11 in let l := [exl 1 1 1; exl 1 2 2]%N in let c := exl 1 1 3 in
  SubP p l /\ ids_ok (c :: l) /\ satisfy p l c = true /\ valid_placement p (c :: l) = true.
Proof. exact ex_satisfy_facts. Qed.
Print Assumptions c15_example_satisfy.

(* hypotheses of c15_capacity_own_balance, on the first step of the run below *)
Example c15_example_own_capacity :
  balance_step_ok ex2_ctx ex2_st 1 0 1 3 = true /\
  find_cap ex2_ctx 3 = Some (exl 1 3 3, 4%Z) /\
  (0 < bc_max_total ex2_ctx)%Z /\ (bc_sel_total ex2_ctx <= bc_max_total ex2_ctx)%Z /\ (0 < snd (exl 1 3 3, 4%Z))%Z.
Proof. exact ex2_own_capacity_facts. Qed.
Print Assumptions c15_example_own_capacity.

(* an accepted, non-empty volume.balance plan that moves a replicated (010) volume whose
   placement is valid before and after; no trigger, every clause holds *)
Example c15_example_balance_replicated :
  wf_snapb ex2_snap = true /\ phases_ok (phases_of [None] [0%N]) = true /\
  is_some (balance_accepts 1000 ex2_snap [None] [0%N] ex2_plan) = true /\
  balance_cap_excused 1000 ex2_snap (phases_of [None] [0%N]) (init_world ex2_snap) ex2_plan = true /\
  trig_balance_cap 1000 ex2_snap (phases_of [None] [0%N]) (init_world ex2_snap) ex2_plan = false /\
  step_rp_trig (init_world ex2_snap) (Move 1 0 1 3) = false /\
  valid_placement (rp_of_byte 10) (locs (w_reps (init_world ex2_snap) 1)) = true /\
  valid_placement (rp_of_byte 10) (locs (w_reps (run_trace ex2_snap (init_world ex2_snap) ex2_plan) 1)) = true /\
  v4_all (prop_trace ex2_snap (init_world ex2_snap) ex2_plan) = true.
Proof. exact ex2_facts. Qed.
Print Assumptions c15_example_balance_replicated.

(* one volume moved twice in one run (010: both copies go to new racks r3, r4), and the run
   where the second move must be refused (the empty servers share rack r3) *)
Example c15_example_two_moves :
  wf_snapb w7_snap = true /\
  is_some (balance_accepts 1000 w7_snap [None] [0%N] w7_plan) = true /\
  v4_all (prop_trace w7_snap (init_world w7_snap) w7_plan) = true /\
  locs (w_reps (run_trace w7_snap (init_world w7_snap) w7_plan) 1) =
    [ {| l_dc := 1; l_rack := 4; l_node := 4 |}; {| l_dc := 1; l_rack := 3; l_node := 3 |} ]%N /\
  wf_snapb w8_snap = true /\
  is_some (balance_accepts 1000 w8_snap [None] [0%N] w8_plan) = true /\
  is_some (balance_accepts 1000 w8_snap [None] [0%N] [Move 1 0 2 3; Move 1 0 1 4]%N) = false /\
  ok_pres (prop_trace w8_snap (init_world w8_snap) [Move 1 0 2 3; Move 1 0 1 4]%N) = false /\
  v4_all (prop_trace w8_snap (init_world w8_snap) w8_plan) = true.
Proof. exact w7_facts. Qed.
Print Assumptions c15_example_two_moves.

Example c15_example_balance :
  wf_snapb ex_snap = true /\ trig_rp_xy ex_snap = false /\
  phases_ok (phases_of [None] [0%N; 1%N]) = true /\ phases_ok (phases_of [Some 1%N; Some 2%N] [0%N; 1%N]) = true /\
  is_some (balance_accepts 1000 ex_snap [None] [0%N] ex_plan) = true /\
  trig_balance_cap 1000 ex_snap (phases_of [None] [0%N]) (init_world ex_snap) ex_plan = false /\
  v4_all (prop_trace ex_snap (init_world ex_snap) ex_plan) = true.
Proof. exact ex_balance_facts. Qed.
Print Assumptions c15_example_balance.

Example c15_example_evacuate_repair :
  evac_accepts ex_snap 1 true [EMove 1 0 2; EMove 2 0 2; ESkip 3]%N = true /\ trig_evac_cap ex_snap 1 = false /\
  excused ok_cap (step_evac_trig ex_snap 1) ex_snap (init_world ex_snap)
          (evac_steps 1 [EMove 1 0 2; EMove 2 0 2; ESkip 3]%N) = true /\
  step_evac_trig ex_snap 1 (init_world ex_snap) (Move 1 0 1 2) = false /\
  wf_snapb ex_fix_snap = true /\ counts_okb ex_fix_snap = true /\
  fix_accepts ex_fix_snap 0 [FCopy 1 1 3]%N = true /\
  v4_all (prop_trace ex_fix_snap (init_world ex_fix_snap) [Copy 1 1 3]%N) = true.
Proof. exact ex_evacuate_repair_facts. Qed.
Print Assumptions c15_example_evacuate_repair.

(* the EC half of evacuate: the witness with its trigger, and a plan where every step has a free
   EC slot and no trigger is on *)
Example c15_example_evacuate_ec :
  (NoDup (map e_id w9_ec) /\ ec_evac_accepts w9_ec 1 true w9_events = true /\
   ec_ok_cap (ec_others w9_ec 1) w9_events = false /\
   ec_cap_trig w9_ec 1 2 = true /\ ec_cap_trig w9_ec 1 3 = false /\
   ec_evac_accepts w9_ec 1 true [EcMove 7 0 3; EcMove 7 1 3; EcMove 7 2 3]%N = false) /\
  (NoDup (map e_id ex_ec) /\
   ec_evac_accepts ex_ec 1 true [EcMove 7 0 2; EcMove 7 1 2; EcMove 8 5 3]%N = true /\
   ec_ok_cap (ec_others ex_ec 1) [EcMove 7 0 2; EcMove 7 1 2; EcMove 8 5 3]%N = true /\
   ec_cap_trig ex_ec 1 2 = false /\ ec_cap_trig ex_ec 1 3 = false).
Proof. exact (conj w9_facts ex_ec_facts). Qed.
Print Assumptions c15_example_evacuate_ec.

(* the purge finding: the witness is accepted, its trigger is on; only the head of the
   over-replicated list is purged in a dry run, and with equally old copies the trigger is off *)
Example c15_example_purge :
  (wf_snapb w6_snap = true /\ counts_okb w6_snap = true /\
   fix_accepts w6_snap 0 w6_events = true /\
   has_valid_subset (rp_of_byte 10) (locs (reps_of w6_snap 1)) = true /\
   has_valid_subset (rp_of_byte 10) (locs (remove_at 3 (reps_of w6_snap 1))) = false /\
   ok_pres (prop_trace w6_snap (init_world w6_snap) (fix_steps w6_events)) = false /\
   step_delete_trig (init_world w6_snap) (Delete 1 3) = true /\
   fix_accepts w6_snap 0 [FOver 1; FDelete 1 1]%N = false /\
   ok_pres (prop_trace w6_snap (init_world w6_snap) [Delete 1 1]%N) = true) /\
  (fix_accepts w6b_snap 0 [FOver 1; FOver 2; FDelete 1 2]%N = true /\
   fix_accepts w6b_snap 0 [FOver 2; FOver 1; FDelete 2 1]%N = true /\
   fix_accepts w6b_snap 0 [FOver 1; FOver 2; FDelete 2 1]%N = false /\
   step_delete_trig (init_world w6b_snap) (Delete 1 2) = false).
Proof. exact (conj w6_facts w6b_facts). Qed.
Print Assumptions c15_example_purge.

(* the witnesses of the three repaired defects: the old plans are no longer accepted,
   the plans of the repaired code are, and every clause holds on them *)
Example c15_example_repaired :
  (fix_accepts w2_snap 0 [FCopy 1 1 2; FCopy 2 1 2]%N = false /\ fix_accepts w2_snap 0 w2_events = true /\
   v4_all (prop_trace w2_snap (init_world w2_snap) (fix_steps w2_events)) = true) /\
  (fix_accepts w3_snap 1 [FCopy 1 1 2; FCopy 1 1 2]%N = false /\ fix_accepts w3_snap 1 w3_events = true /\
   v4_all (prop_trace w3_snap (init_world w3_snap) (fix_steps w3_events)) = true) /\
  (is_some (balance_accepts 1000 w4_snap [None] [0%N] [Move 1 0 1 2]%N) = false /\
   is_some (balance_accepts 1000 w4_snap [None] [0%N] w4_plan) = true /\
   v4_all (prop_trace w4_snap (init_world w4_snap) w4_plan) = true).
Proof. exact ex_repaired_facts. Qed.
Print Assumptions c15_example_repaired.
