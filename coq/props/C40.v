(* C40 — Replicated writes leave every replica with the same blob.
   Only statements closed by [exact]; proofs live in proof/ReplWriteProofs.v (the
   replication request, field by field) and proof/ReplWriteHistProofs.v (the state machine).

   The model (model/ReplWrite.v) is a state machine: every listed location of the
   volume holds, per file id, nothing / a record (cookie, needle) / a tombstone; a step
   is an upload or a delete sent to the primary, with a fault per replica for that step
   only.  The theorems speak about ONE step from an ARBITRARY state (whatever earlier
   uploads and deletes - acknowledged or failed half-way - left on the servers), and
   therefore about every step of every history. *)
From Coq Require Import List NArith Bool String.
From SW Require Import model.ReplWrite proof.ReplWriteProofs proof.ReplWriteHistProofs.
Import ListNotations.
Local Open Scope string_scope.
Local Open Scope N_scope.

(* The property at full strength — every acknowledged upload leaves every listed
   replica with the primary's outcome — is false for the code as it is. *)
Theorem c40_same_outcome_refuted : exists h,
  exists2 r, nth_error (run (init 1 false false) h) 0 = Some r &
  success (snd r) = true /\ upload_consistent (snd r) (key_views (fst r) 7) = false.
Proof. exact same_outcome_refuted. Qed.
Print Assumptions c40_same_outcome_refuted.

(* finding 0: the replica re-derives the mime type (sniffed type instead of none;
   a PUT's application/octet-stream dropped) *)
Theorem c40_refuted_mime :
  statuses one_replica witness_sniffed = [201] /\
  consistent_of_run one_replica witness_sniffed = [false] /\
  triggers_of_run one_replica witness_sniffed = [Some 0] /\
  map (map so_mime) (views_of_run one_replica witness_sniffed) = [[""; "text/plain; charset=utf-8"]] /\
  statuses one_replica witness_put_octet = [201] /\
  triggers_of_run one_replica witness_put_octet = [Some 0] /\
  map (map so_mime) (views_of_run one_replica witness_put_octet) = [[octet; ""]].
Proof. exact same_outcome_refuted_mime. Qed.
Print Assumptions c40_refuted_mime.

(* finding 1: an empty payload keeps nothing on the primary, everything on the
   replica, and the acknowledged delete leaves the primary still serving it *)
Theorem c40_refuted_empty :
  statuses one_replica witness_empty = [201; 202] /\
  consistent_of_run one_replica witness_empty = [false; false] /\
  triggers_of_run one_replica witness_empty = [Some 1; Some 1] /\
  map (map so_name) (views_of_run one_replica witness_empty) = [[""; "a.txt"]; [""; ""]] /\
  map (map so_state) (views_of_run one_replica witness_empty) = [[0; 0]; [0; 2]].
Proof. exact same_outcome_refuted_empty. Qed.
Print Assumptions c40_refuted_empty.

(* finding 2: a server that finds the bytes it holds unchanged keeps its old metadata
   and acknowledges, while the other servers are sent - and may store - the new request.
   Without any fault: the same bytes under another mime type (the replica's stored bytes
   were the gzip stream, now they are plain, so the replica rewrites).  With a fault: an
   upload that failed on the replica, then the same bytes under another name. *)
Theorem c40_refuted_unchanged :
  statuses one_replica witness_unchanged = [201; 204] /\
  consistent_of_run one_replica witness_unchanged = [true; false] /\
  triggers_of_run one_replica witness_unchanged = [None; Some 2] /\
  map (map so_mime) (views_of_run one_replica witness_unchanged) = [["text/plain"; "text/plain"]; ["text/plain"; "image/jpeg"]] /\
  statuses one_replica witness_unchanged_fault = [500; 204] /\
  consistent_of_run one_replica witness_unchanged_fault = [true; false] /\
  triggers_of_run one_replica witness_unchanged_fault = [None; Some 2] /\
  map (map so_name) (views_of_run one_replica witness_unchanged_fault) = [["a.txt"; ""]; ["a.txt"; "b.txt"]].
Proof. exact same_outcome_refuted_unchanged. Qed.
Print Assumptions c40_refuted_unchanged.

(* The strongest true statement for uploads.  From ANY state of the primary and of any
   number of listed locations (holding the volume or not), for every request (POST or
   PUT, any name, mime, pairs, ts, ttl, cm, gzip-encoded or not), every oracle answer,
   every cookie and every per-replica fault of the step: if the upload is acknowledged
   then every listed location serves the primary's decoded content, name, mime, pairs,
   last-modified and TTL for the file id - outside three decidable triggers, each
   evaluated on this step alone: (1) the primary stores the empty record while the
   replicas are sent a gzip stream; (0) the body is not empty and the replica re-derives
   the mime type of this request; (2) some server holds exactly the bytes it is sent,
   under the same cookie, with another outcome (it answers "unchanged" and keeps the old
   one) - unless every server does and they all agree already. *)
Theorem c40_upload_step_partial : forall sy o q k ck fs,
  trig_empty o q = false -> trig_mime o q = false -> trig_unchanged sy o q k ck = false ->
  upload_consistent (snd (upload_step sy o q k ck fs)) (key_views (fst (upload_step sy o q k ck fs)) k) = true.
Proof. exact upload_step_partial. Qed.
Print Assumptions c40_upload_step_partial.

(* Inside trigger 0 only the mime type can differ: outside triggers 1 and 2 an
   acknowledged upload leaves every listed location with the primary's decoded content,
   name, pairs, last-modified and TTL ... *)
Theorem c40_upload_step_but_mime : forall sy o q k ck fs,
  trig_empty o q = false -> trig_unchanged sy o q k ck = false ->
  success (snd (upload_step sy o q k ck fs)) = true ->
  forallb (same_but_mime (slot_view (sy_p (fst (upload_step sy o q k ck fs)) k)))
          (map (fun r => server_view r k) (sy_r (fst (upload_step sy o q k ck fs)))) = true.
Proof. exact upload_step_but_mime. Qed.
Print Assumptions c40_upload_step_but_mime.

(* ... and (full, no trigger at all) an acknowledged upload ALWAYS leaves every listed
   location serving the same decoded bytes: the findings are about metadata only. *)
Theorem c40_upload_step_content : forall sy o q k ck fs,
  success (snd (upload_step sy o q k ck fs)) = true ->
  forallb (same_content (slot_view (sy_p (fst (upload_step sy o q k ck fs)) k)))
          (map (fun r => server_view r k) (sy_r (fst (upload_step sy o q k ck fs)))) = true.
Proof. exact upload_step_content. Qed.
Print Assumptions c40_upload_step_content.

(* The strongest true statement for deletes: from any state, for every cookie and
   every fault, an acknowledged delete leaves the file id served by no listed location -
   unless some server holds the Size = 0 record of an empty upload for it (finding 1,
   evaluated on this file id and this state) ... *)
Theorem c40_delete_step_partial : forall sy k ck fs,
  trig_empty_slot sy k = false ->
  delete_consistent (snd (delete_step sy k ck fs)) (key_views (fst (delete_step sy k ck fs)) k) = true.
Proof. exact delete_step_partial. Qed.
Print Assumptions c40_delete_step_partial.

(* ... and (full) whatever a server still serves after an acknowledged delete is that
   empty record. *)
Theorem c40_delete_step_residual : forall sy k ck fs,
  success (snd (delete_step sy k ck fs)) = true ->
  forallb gone_or_empty (key_views (fst (delete_step sy k ck fs)) k) = true.
Proof. exact delete_step_residual. Qed.
Print Assumptions c40_delete_step_residual.

(* The triggers are no wider than the violations.  Trigger 0 and trigger 1, on a file id
   the primary and the first listed replica do not hold yet: an acknowledged upload inside
   the trigger is inconsistent (for trigger 1: unless the stored last-modified is 0). *)
Theorem c40_trig_mime_exact : forall o q k ck p s rs fs,
  p k = Absent -> s k = Absent -> trig_mime o q = true ->
  let r := upload_step {| sy_p := p; sy_r := Some s :: rs; sy_nolookup := false |} o q k ck fs in
  success (snd r) = true -> upload_consistent (snd r) (key_views (fst r) k) = false.
Proof. exact trig_mime_exact. Qed.
Print Assumptions c40_trig_mime_exact.

Theorem c40_trig_empty_exact : forall o q k ck p s rs fs,
  p k = Absent -> s k = Absent -> trig_empty o q = true ->
  n_lastmod (create_needle o q) mod 1099511627776 <> 0 ->
  let r := upload_step {| sy_p := p; sy_r := Some s :: rs; sy_nolookup := false |} o q k ck fs in
  success (snd r) = true -> upload_consistent (snd r) (key_views (fst r) k) = false.
Proof. exact trig_empty_exact. Qed.
Print Assumptions c40_trig_empty_exact.

(* Trigger 2, from any state: outside triggers 0 and 1 an acknowledged upload inside
   trigger 2 is inconsistent. *)
Theorem c40_trig_unchanged_exact : forall sy o q k ck fs,
  trig_unchanged sy o q k ck = true -> trig_empty o q = false -> trig_mime o q = false ->
  success (snd (upload_step sy o q k ck fs)) = true ->
  upload_consistent (snd (upload_step sy o q k ck fs)) (key_views (fst (upload_step sy o q k ck fs)) k) = false.
Proof. exact trig_unchanged_exact. Qed.
Print Assumptions c40_trig_unchanged_exact.

(* The delete trigger, from any state: an acknowledged delete inside it is inconsistent. *)
Theorem c40_trig_empty_slot_exact : forall sy k ck fs,
  trig_empty_slot sy k = true -> success (snd (delete_step sy k ck fs)) = true ->
  delete_consistent (snd (delete_step sy k ck fs)) (key_views (fst (delete_step sy k ck fs)) k) = false.
Proof. exact trig_empty_slot_exact. Qed.
Print Assumptions c40_trig_empty_slot_exact.

(* (full) a replica that fails every attempt of the step (it answers 500, drops the
   connection, or serves the request and loses the answer), a listed volume server that
   does not hold the volume (the repaired ReplicatedWrite), or a location lookup that
   fails or lists fewer locations than the copy count, makes the upload fail towards
   the client, from any state ... *)
Theorem c40_upload_failure_reported : forall sy o q k ck fs,
  existsb blocks_upload (firstn (List.length (sy_r sy)) fs) = true \/ In None (sy_r sy) \/ sy_nolookup sy = true ->
  success (snd (upload_step sy o q k ck fs)) = false.
Proof. exact upload_failure_reported. Qed.
Print Assumptions c40_upload_failure_reported.

(* ... and a replica that fails the single attempt of a delete (once is enough:
   util.Delete does not retry), or a failing lookup, makes the delete fail. *)
Theorem c40_delete_failure_reported : forall sy k ck fs,
  existsb blocks_delete (firstn (List.length (sy_r sy)) fs) = true \/ sy_nolookup sy = true ->
  success (snd (delete_step sy k ck fs)) = false.
Proof. exact delete_failure_reported. Qed.
Print Assumptions c40_delete_failure_reported.

(* (full) a step on one file id changes what no server holds for another *)
Theorem c40_step_frame : forall sy s k', k' <> s_key s ->
  key_views (fst (do_step sy s)) k' = key_views sy k'.
Proof. exact step_frame. Qed.
Print Assumptions c40_step_frame.

(* every step of every history from every state: consistent outside the step's own
   trigger, the rest of the property inside it, and every blocking fault reported *)
Theorem c40_history_partial : forall h sy, hist_ok sy h.
Proof. exact history_partial. Qed.
Print Assumptions c40_history_partial.

(* an upload that failed on the replica and its identical retry: the primary finds its
   copy unchanged (204) and the replica is sent the needle nevertheless - outside every
   trigger, all servers agree afterwards *)
Theorem c40_retry_reaches_replica :
  statuses one_replica witness_retry = [500; 204] /\
  triggers_of_run one_replica witness_retry = [None; None] /\
  map (map so_state) (views_of_run one_replica witness_retry) = [[0; 1]; [0; 0]] /\
  consistent_of_run one_replica witness_retry = [true; true].
Proof. exact retry_reaches_replica. Qed.
Print Assumptions c40_retry_reaches_replica.

(* regression witness of the repaired defect (formerly finding 2 of the first round): the
   listed location without the volume holds nothing and the upload is answered with 500 *)
Theorem c40_lost_volume_reported :
  statuses (init 1 true false) witness_lost_volume = [500] /\
  map (map so_state) (views_of_run (init 1 true false) witness_lost_volume) = [[0; 3]] /\
  consistent_of_run (init 1 true false) witness_lost_volume = [true].
Proof. exact lost_volume_reported. Qed.
Print Assumptions c40_lost_volume_reported.

(* (full) the pieces the partial theorem rests on, each for every request and oracle:
   the file name survives the replication request (path.Base is idempotent) ... *)
Theorem c40_base_idempotent : forall s, base (base s) = base s.
Proof. exact base_idempotent. Qed.
Print Assumptions c40_base_idempotent.

(* ... and so do pairs, last-modified, TTL and the decoded content, always. *)
Theorem c40_fields_always_equal : forall o q,
  let n := create_needle o q in
  let n' := create_needle o (replicate o n) in
  (if n_has_name n' then n_name n' else "") = (if n_has_name n then n_name n else "") /\
  (if n_has_pairs n' then n_pairs n' else []) = (if n_has_pairs n then n_pairs n else []) /\
  n_lastmod n' = n_lastmod n /\
  (if n_ttl_set n' then ttl_norm (n_ttl n') else (0, 0)) = (if n_ttl_set n then ttl_norm (n_ttl n) else (0, 0)) /\
  (if n_compressed n' then b_gz (n_body n') else true) = (if n_compressed n then b_gz (n_body n) else true) /\
  b_len (n_body n') = b_len (n_body n) /\ b_crc (n_body n') = b_crc (n_body n).
Proof.
  exact (fun o q => conj (replica_name_view o q) (conj (replica_pairs_view o q) (conj (replica_lastmod o q)
          (conj (replica_ttl_view o q) (replica_content o q))))).
Qed.
Print Assumptions c40_fields_always_equal.

(* non-vacuity: a three-step history on two replicas - an upload with a name, a mime the
   extension does not imply, pairs, a TTL and a large text payload the replication client
   gzips, failing on the second replica; the identical retry, whose first attempt the first
   replica answers with 500; a delete - is outside every trigger at every step, and every
   step satisfies the hypotheses of the partial theorems with a non-trivial outcome (the
   replicas' stored form differs: compressed) *)
Example c40_example :
  triggers_of_run (init 2 false false) example_hist = [None; None; None] /\
  statuses (init 2 false false) example_hist = [500; 204; 202] /\
  map (map so_flags) (views_of_run (init 2 false false) example_hist) = [[62; 63; 0]; [62; 63; 63]; [0; 0; 0]] /\
  map (map so_state) (views_of_run (init 2 false false) example_hist) = [[0; 0; 1]; [0; 0; 0]; [2; 2; 2]] /\
  map (map so_name) (views_of_run (init 2 false false) example_hist) =
    [["report.txt"; "report.txt"; ""]; ["report.txt"; "report.txt"; "report.txt"]; [""; ""; ""]] /\
  consistent_of_run (init 2 false false) example_hist = [true; true; true].
Proof. exact example_history. Qed.
Print Assumptions c40_example.

(* non-vacuity of the exactness theorems: requests inside trigger 0 and trigger 1, and
   an empty payload that is NOT inside trigger 1 (it reaches the replica empty) *)
Example c40_example_exact :
  trig_mime (mk_or text_utf8 [(".bin", octet)]) (mk_req false "b.bin" "" 24 1485685935) = true /\
  trig_empty (mk_or text_utf8 txt_types) (mk_req false "a.txt" "text/plain" 0 0) = true /\
  n_lastmod (create_needle (mk_or text_utf8 txt_types) (mk_req false "a.txt" "text/plain" 0 0)) mod 1099511627776 <> 0 /\
  trig_empty (mk_or text_utf8 [(".jpg", "image/jpeg")]) (mk_req false "c.jpg" "image/png" 0 0) = false.
Proof. exact example_exact. Qed.
Print Assumptions c40_example_exact.
