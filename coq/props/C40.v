(* C40 — Replicated writes leave every replica with the same blob.
   Only statements closed by [exact]; proofs live in proof/ReplWriteProofs.v. *)
From Coq Require Import List NArith Bool String.
From SW Require Import model.ReplWrite proof.ReplWriteProofs.
Import ListNotations.
Local Open Scope string_scope.
Local Open Scope N_scope.

(* The property at full strength — for every client request, every oracle answer
   and every fault, an acknowledged upload leaves every listed replica with the
   primary's outcome — is false for the code as it is. *)
Theorem c40_same_outcome_refuted : exists u,
  success (upload_status u) = true /\ upload_consistent (upload_status u) (views_after_upload u) = false.
Proof. exact same_outcome_refuted. Qed.
Print Assumptions c40_same_outcome_refuted.

(* finding 0: the replica re-derives the mime type (sniffed type instead of none;
   a PUT's application/octet-stream dropped) *)
Theorem c40_refuted_mime :
  success (upload_status witness_sniffed) = true /\
  upload_consistent (upload_status witness_sniffed) (views_after_upload witness_sniffed) = false /\
  map so_mime (views_after_upload witness_sniffed) = [""; "text/plain; charset=utf-8"] /\
  success (upload_status witness_put_octet) = true /\
  map so_mime (views_after_upload witness_put_octet) = [octet; ""].
Proof. exact same_outcome_refuted_mime. Qed.
Print Assumptions c40_refuted_mime.

(* finding 1: an empty payload keeps nothing on the primary, everything on the
   replica, and the acknowledged delete leaves the primary still serving it *)
Theorem c40_refuted_empty :
  success (upload_status witness_empty) = true /\
  upload_consistent (upload_status witness_empty) (views_after_upload witness_empty) = false /\
  map so_name (views_after_upload witness_empty) = [""; "a.txt"] /\
  success (delete_status witness_empty) = true /\
  map so_state (views_after_delete witness_empty) = [0; 2].
Proof. exact same_outcome_refuted_empty. Qed.
Print Assumptions c40_refuted_empty.

(* The strongest true statement: outside the two decidable triggers, for every
   request (POST or PUT, any name, mime, pairs, ts, ttl, cm, gzip-encoded or not),
   every oracle answer, any number of replicas and ANY fault (a replica answering 500,
   unreachable, or not holding the volume), an acknowledged upload leaves every
   listed replica with the primary's decoded content, name, mime, pairs,
   last-modified and TTL, and an acknowledged delete leaves the file served by no
   listed replica. *)
Theorem c40_same_outcome_partial : forall u,
  trig_empty u = false -> trig_mime u = false ->
  upload_consistent (upload_status u) (views_after_upload u) = true /\
  delete_consistent (delete_status u) (views_after_delete u) = true.
Proof. exact same_outcome_partial. Qed.
Print Assumptions c40_same_outcome_partial.

(* (full) a replica that answers with an error, is unreachable, or is a volume server
   that does not hold the volume (the repaired ReplicatedWrite) makes the upload fail
   towards the client; the first two also make the delete fail *)
Theorem c40_failure_reported : forall u,
  (u_fault u = 1 \/ u_fault u = 2 \/ u_fault u = 3 -> success (upload_status u) = false) /\
  (u_fault u = 1 \/ u_fault u = 2 -> success (delete_status u) = false).
Proof. exact failure_reported. Qed.
Print Assumptions c40_failure_reported.

(* regression witness of the repaired defect (formerly finding 2): the listed location
   without the volume holds nothing and the upload is answered with 500 *)
Theorem c40_lost_volume_reported :
  map so_state (views_after_upload witness_lost_volume) = [0; 3] /\
  upload_status witness_lost_volume = 500 /\
  upload_consistent (upload_status witness_lost_volume) (views_after_upload witness_lost_volume) = true.
Proof. exact lost_volume_reported. Qed.
Print Assumptions c40_lost_volume_reported.

(* (full) the pieces the partial theorem rests on, each for every request and oracle:
   the file name survives the replication request (path.Base is idempotent) ... *)
Theorem c40_base_idempotent : forall s, base (base s) = base s.
Proof. exact base_idempotent. Qed.
Print Assumptions c40_base_idempotent.

(* ... and so do pairs, last-modified, TTL and the decoded content, always. *)
Theorem c40_fields_always_equal : forall o q,
  let n := create_needle o q in
  let n' := create_needle o (replicate o n) in
  (if n_has_name n' then n_name n' else "") = (if n_has_name n then n_name n else "") /\
  (if n_has_pairs n' then n_pairs n' else []) = (if n_has_pairs n then n_pairs n else []) /\
  n_lastmod n' = n_lastmod n /\
  (if n_ttl_set n' then ttl_norm (n_ttl n') else (0, 0)) = (if n_ttl_set n then ttl_norm (n_ttl n) else (0, 0)) /\
  (if n_compressed n' then b_gz (n_body n') else true) = (if n_compressed n then b_gz (n_body n) else true) /\
  b_len (n_body n') = b_len (n_body n) /\ b_crc (n_body n') = b_crc (n_body n).
Proof.
  exact (fun o q => conj (replica_name_view o q) (conj (replica_pairs_view o q) (conj (replica_lastmod o q)
          (conj (replica_ttl_view o q) (replica_content o q))))).
Qed.
Print Assumptions c40_fields_always_equal.

(* non-vacuity: a request with a name, a mime the extension does not imply, pairs, a
   TTL, a large text payload the replication client gzips, two replicas and a delete is
   outside every trigger, is acknowledged, and the replica's stored form differs
   (compressed flag) while its outcome is the same *)
Example c40_example :
  let u := {| u_req := {| q_put := false; q_name := "dir/report.txt"; q_ctype := "text/x-log"; q_gzip := false;
                          q_pairs := [("A", "1"); ("Bb", "v v")]; q_ts := 0; q_ttl_set := true; q_ttl := (3, 1);
                          q_cm := false; q_body := {| b_len := 19800; b_crc := 3515653520; b_gz := false |} |};
              u_oracles := {| o_detect := "text/plain; charset=utf-8"; o_gz128 := true;
                              o_ext_types := [(".txt", "text/plain; charset=utf-8")] |};
              u_nrepl := 2; u_fault := 0; u_delete := true |} in
  trigger u = None /\ upload_status u = 201 /\
  map so_flags (views_after_upload u) = [62; 63; 63] /\
  map so_name (views_after_upload u) = ["report.txt"; "report.txt"; "report.txt"] /\
  map so_mime (views_after_upload u) = ["text/x-log"; "text/x-log"; "text/x-log"] /\
  upload_consistent (upload_status u) (views_after_upload u) = true /\
  map so_state (views_after_delete u) = [2; 2; 2].
Proof. vm_compute. repeat split. Qed.
