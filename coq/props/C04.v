(* C04 — Compaction is invisible to readers.
   Only statements closed by [exact]; proofs live in proof/Compaction*.v.

   [g]                      volume TTL (the offset width, 4 or 5 bytes, no longer matters: makeupDiff repaired)
   [h1] [h2]                writes / deletes before the compaction and between Compact and CommitCompact
                            (each with the clock reading that becomes AppendAtNs)
   [al]                     Scan = Volume.Compact, Index = Volume.Compact2
   [now_s] [now_r]          the clock Compact reads (s) and the clock of the reads after the commit (ns)
   [ord]                    the order in which makeupDiff iterates its Go map: any permutation of the touched keys
   [compacted g al now_s ord h1 h2]   the volume after run h1; Compact; run h2; CommitCompact (rename + reload)
   [twin g h1 h2]                     the volume after run (h1 ++ h2), never compacted
   [read_of st now_r id]              what Store.ReadVolumeNeedle gives: Some (count, needle) or None          *)
From Coq Require Import List NArith ZArith Bool Permutation.
From SW Require Import model.Volume model.Compaction.
From SW Require Import proof.CompactionInv proof.CompactionRead proof.CompactionCopy proof.CompactionMakeup proof.CompactionProofs proof.CompactionTail proof.CompactionIl.
Import ListNotations.
Local Open Scope N_scope.

(* For EVERY pair of histories, both algorithms, every map iteration order: each key reads the same
   (same count, data, cookie, flags, name, mime, pairs, last-modified, TTL; or unreadable on both)
   on the compacted volume as on the never-compacted one -- provided
     no empty payload is written                                           (finding 0),
     the TTL filter of the copy loop drops only what a read already refuses (finding 1),
     the integrity check of the reload leaves the new files alone           (finding 2, scan-based copy).
   (The former hypothesis "both .dat files within 32 GiB" went away with the repair of makeupDiff.) *)
Theorem c04_invisible_partial : forall g al now_s now_r ord h1 h2,
  Permutation ord (default_ord g h1 h2) ->
  has_empty (h1 ++ h2) = false ->
  ttl_consistent (g_vttl g) now_s now_r h1 = true ->
  reload_noop g al now_s ord h1 h2 = true ->
  forall id, read_of (compacted g al now_s ord h1 h2) now_r id = read_of (twin g h1 h2) now_r id.
Proof. exact invisible_partial. Qed.
Print Assumptions c04_invisible_partial.

(* The same PER KEY and with writers running DURING the copy loop (Volume.Compact takes no lock:
   VisitNeedle consults the live needle map while writers append).  [sched] lists, for the visit of
   the 1st, 2nd, ... record, the writes/deletes that complete between the scanner reading that record
   and VisitNeedle looking the key up; records appended during the scan are visited too; h2 are the
   operations after the copy loop.  For every schedule, history, algorithm and map order, a key reads
   the same after the commit as on the never-compacted volume provided
     no empty payload was written TO THIS KEY                                  (finding 0, per key),
     no needle OF THIS KEY written before the compaction is dropped by the TTL
       filter while a read still returns it                                    (finding 1, per key),
     the integrity check of the reload leaves the new files alone              (finding 2).
   What happens to other keys (empty blobs, TTL drops) does not matter.  With [sched = []] the files
   are those of the phase-structured run (c04_interleaved_nil), so this subsumes c04_invisible_partial. *)
Theorem c04_invisible_key_interleaved : forall g al now_s now_r ord h1 sched h2 id,
  Permutation ord (default_ord g h1 (concat sched ++ h2)) ->
  no_empty_on id (h1 ++ concat sched ++ h2) = true ->
  ttl_consistent_on id (g_vttl g) now_s now_r h1 = true ->
  check_noop (check_files (compacted_files_il g al now_s ord h1 sched h2)) = true ->
  read_of (commit (compacted_files_il g al now_s ord h1 sched h2)) now_r id =
  read_of (twin g h1 (concat sched ++ h2)) now_r id.
Proof. exact invisible_il_key. Qed.
Print Assumptions c04_invisible_key_interleaved.

Theorem c04_interleaved_nil : forall g al now_s ord h1 h2,
  compacted_files_il g al now_s ord h1 [] h2 = compacted_files g al now_s ord h1 h2.
Proof. exact compacted_files_il_nil. Qed.
Print Assumptions c04_interleaved_nil.

(* the history-wide hypotheses imply the per-key ones, for every key *)
Theorem c04_key_hypotheses_weaker : forall (id : N) (vt : N * N) (now_s now_r : N) (h1 h : list cevent),
  (has_empty h = false -> no_empty_on id h = true) /\
  (ttl_consistent vt now_s now_r h1 = true -> ttl_consistent_on id vt now_s now_r h1 = true).
Proof. exact key_hypotheses_weaker. Qed.
Print Assumptions c04_key_hypotheses_weaker.

(* ... strictly: an empty blob on key 1 (finding 0) leaves the guarantee for key 2 intact *)
Example c04_key_narrowing :
  has_empty (w_empty_h1 ++ []) = true /\
  no_empty_on 2 (w_empty_h1 ++ concat [] ++ []) = true /\
  ttl_consistent_on 2 (g_vttl g4) 1000 (1001 * sec) w_empty_h1 = true /\
  check_noop (check_files (compacted_files_il g4 Index 1000 [] w_empty_h1 [] [])) = true /\
  read_of (commit (compacted_files_il g4 Index 1000 [] w_empty_h1 [] [])) (1001 * sec) 2 =
  Some (1%Z, view_of (nd 2 [7] 8 1000 (0, 0))).
Proof. exact key_narrowing_ok. Qed.
Print Assumptions c04_key_narrowing.

(* non-vacuity of the interleaved theorem: during a scan-based compaction key 1 is overwritten after
   its record was copied, key 2 is deleted before the scanner reaches it, key 4 is created (its record
   is visited by the scanner AND replayed by makeupDiff: 7 records in the new .dat); all hypotheses
   hold for every key and every key reads the same *)
Example c04_interleaved_example :
  let ord := default_ord g4 il_h1 (concat il_sched ++ []) in
  let F := compacted_files_il g4 Scan 1000 ord il_h1 il_sched [] in
  forallb (fun k => no_empty_on k (il_h1 ++ concat il_sched ++ []) &&
                    ttl_consistent_on k (g_vttl g4) 1000 (1001 * sec) il_h1) [1; 2; 3; 4] = true /\
  check_noop (check_files F) = true /\
  length (f_recs F) = 7%nat /\
  map (fun k => option_map fst (read_of (commit F) (1001 * sec) k)) [1; 2; 3; 4] = [Some 2%Z; None; Some 1%Z; Some 1%Z] /\
  map (fun k => option_map fst (read_of (twin g4 il_h1 (concat il_sched ++ [])) (1001 * sec) k)) [1; 2; 3; 4]
  = [Some 2%Z; None; Some 1%Z; Some 1%Z].
Proof. exact il_example_ok. Qed.
Print Assumptions c04_interleaved_example.

(* For the algorithm the volume server uses (Compact2, index-based) and histories of writes and
   deletes, the last hypothesis always holds: the reload check changes nothing.  So for Compact2
   the partial theorem has hypotheses on the history only. *)
Theorem c04_index_reload_noop : forall g now_s ord h1 h2,
  Permutation ord (default_ord g h1 h2) ->
  no_pad (h1 ++ h2) = true ->
  reload_noop g Index now_s ord h1 h2 = true.
Proof. exact index_reload_noop. Qed.
Print Assumptions c04_index_reload_noop.

(* The full statement is false; each hypothesis is needed on its own (the other two hold). *)
(* finding 0: an empty blob reads as present (0 bytes) without compaction, as absent after it *)
Theorem c04_invisible_refuted_empty : exists g al now_s now_r ord h1 h2 id,
  Permutation ord (default_ord g h1 h2) /\
  ttl_consistent (g_vttl g) now_s now_r h1 = true /\
  reload_noop g al now_s ord h1 h2 = true /\
  read_of (compacted g al now_s ord h1 h2) now_r id <> read_of (twin g h1 h2) now_r id.
Proof.
  exact (ex_intro _ g4 (ex_intro _ Index (ex_intro _ 1000 (ex_intro _ (1001 * sec) (ex_intro _ []
        (ex_intro _ w_empty_h1 (ex_intro _ [] (ex_intro _ 1 refuted_empty_neq)))))))).
Qed.
Print Assumptions c04_invisible_refuted_empty.

(* finding 1: a needle with a 3-day TTL in a volume without TTL is dropped while still readable *)
Theorem c04_invisible_refuted_ttl : exists g al now_s now_r ord h1 h2 id,
  Permutation ord (default_ord g h1 h2) /\
  has_empty (h1 ++ h2) = false /\
  reload_noop g al now_s ord h1 h2 = true /\
  read_of (compacted g al now_s ord h1 h2) now_r id <> read_of (twin g h1 h2) now_r id.
Proof.
  exact (ex_intro _ g4 (ex_intro _ Index (ex_intro _ 1000 (ex_intro _ (1001 * sec) (ex_intro _ []
        (ex_intro _ w_ttl_h1 (ex_intro _ [] (ex_intro _ 1 refuted_ttl_neq)))))))).
Qed.
Print Assumptions c04_invisible_refuted_ttl.

(* finding 2: scan-based copy, the largest key is not the last record: the reload truncates the .dat *)
Theorem c04_invisible_refuted_scan : exists g al now_s now_r ord h1 h2 id,
  Permutation ord (default_ord g h1 h2) /\
  has_empty (h1 ++ h2) = false /\ ttl_consistent (g_vttl g) now_s now_r h1 = true /\
  read_of (compacted g al now_s ord h1 h2) now_r id <> read_of (twin g h1 h2) now_r id.
Proof.
  exact (ex_intro _ g4 (ex_intro _ Scan (ex_intro _ 1000 (ex_intro _ (1001 * sec) (ex_intro _ []
        (ex_intro _ w_scan_h1 (ex_intro _ [] (ex_intro _ 1 refuted_scan_neq)))))))).
Qed.
Print Assumptions c04_invisible_refuted_scan.

(* the repaired former finding 3: a write beyond 32 GiB (hole in the old .dat) while the
   compaction runs reads the same on both volumes, for both iteration orders of the map *)
Theorem c04_beyond_32g_repaired : forall ord, ord = [2; 3] \/ ord = [3; 2] ->
  reload_noop g4 Index 1000 ord w_hi_h1 w_hi_h2 = true /\
  map (read_of (compacted g4 Index 1000 ord w_hi_h1 w_hi_h2) (1001 * sec)) [1; 2; 3] =
  map (read_of (twin g4 w_hi_h1 w_hi_h2) (1001 * sec)) [1; 2; 3] /\
  read_of (twin g4 w_hi_h1 w_hi_h2) (1001 * sec) 2 = Some (1%Z, view_of (nd 2 [7] 8 1000 (0, 0))).
Proof. exact beyond_32g_ok. Qed.
Print Assumptions c04_beyond_32g_repaired.

(* the witnesses in full *)
Theorem c04_witness_empty :
  Permutation [] (default_ord g4 w_empty_h1 []) /\
  ttl_consistent (g_vttl g4) 1000 (1001 * sec) w_empty_h1 = true /\
  reload_noop g4 Index 1000 [] w_empty_h1 [] = true /\
  read_of (compacted g4 Index 1000 [] w_empty_h1 []) (1001 * sec) 1 = None /\
  read_of (twin g4 w_empty_h1 []) (1001 * sec) 1 = Some (0%Z, blank_view 0).
Proof. exact refuted_empty. Qed.
Print Assumptions c04_witness_empty.

Theorem c04_witness_scan :
  Permutation [] (default_ord g4 w_scan_h1 []) /\
  has_empty (w_scan_h1 ++ []) = false /\
  ttl_consistent (g_vttl g4) 1000 (1001 * sec) w_scan_h1 = true /\
  check_files (compacted_files g4 Scan 1000 [] w_scan_h1 []) = (0%nat, Some 48, false) /\
  read_of (compacted g4 Scan 1000 [] w_scan_h1 []) (1001 * sec) 1 = None /\
  read_of (twin g4 w_scan_h1 []) (1001 * sec) 1 = Some (1%Z, view_of (nd 1 [7] 8 1000 (0, 0))).
Proof. exact refuted_scan. Qed.
Print Assumptions c04_witness_scan.

(* A deleted blob is never resurrected: FULL -- any histories, payloads, TTLs, sizes, either
   algorithm, any map order, whatever the integrity check does.  A key whose needle-map entry
   is a tombstone on the never-compacted volume cannot be read after the commit (this covers
   deletes issued while the compaction runs, which reach the new files through makeupDiff). *)
Theorem c04_no_resurrect : forall g al now_s now_r ord h1 h2 id,
  Permutation ord (default_ord g h1 h2) ->
  (exists nv, nm_get (nm (twin g h1 h2)) id = Some nv /\ (nv_size nv < 0)%Z) ->
  read_of (compacted g al now_s ord h1 h2) now_r id = None.
Proof. exact no_resurrect. Qed.
Print Assumptions c04_no_resurrect.

(* ... and in terms of the history: the last operation on the key is a delete and no empty
   payload was ever written to it *)
Theorem c04_no_resurrect_history : forall g al now_s now_r ord h1 h2 id,
  Permutation ord (default_ord g h1 h2) ->
  last_is_delete id (h1 ++ h2) = true ->
  no_empty_on id (h1 ++ h2) = true ->
  read_of (compacted g al now_s ord h1 h2) now_r id = None.
Proof. exact no_resurrect_history. Qed.
Print Assumptions c04_no_resurrect_history.

(* non-vacuity: a history with overwrite, delete and a TTL needle before the compaction and a
   rewrite, a delete and a new key during it satisfies all hypotheses, for both algorithms *)
Example c04_example : forall al,
  let ord := default_ord g4 ex_h1 ex_h2 in
  has_empty (ex_h1 ++ ex_h2) = false /\
  ttl_consistent (g_vttl g4) 1000 (1001 * sec) ex_h1 = true /\
  reload_noop g4 al 1000 ord ex_h1 ex_h2 = true /\
  map (fun k => option_map fst (read_of (compacted g4 al 1000 ord ex_h1 ex_h2) (1001 * sec) k)) [1; 2; 3; 4; 5]
  = [None; Some 1%Z; None; Some 1%Z; None] /\
  map (fun k => option_map fst (read_of (twin g4 ex_h1 ex_h2) (1001 * sec) k)) [1; 2; 3; 4; 5]
  = [None; Some 1%Z; None; Some 1%Z; None].
Proof. exact example_ok. Qed.
Print Assumptions c04_example.
