(* C22 — Metadata change subscribers see every change once, in order.
   Only statements closed by [exact]; proofs live in proof/LogBuf*.v.

   Vocabulary (model/LogBuf.v): a schedule is a list of atomic steps
     Add ev len id | Seal | FlushWrite | FlushMark | SubStep | SubLoop | (stateless reads)
   [run iv hf y ops] executes it; [run_events] lists the appended events with the timestamps
   AddToBuffer assigned; the subscriber [subs y] started at t0 ([sys0 c t0], buffer size c)
   alternates ReadPersistedLogBuffer ("disk" = the buffers flushFn has been given) and
   ReadFromBuffer; [got] is what it has been handed, in order; [run_trig] = None says the
   schedule never enters the trigger set of known finding 0 (a sealed buffer is pushed out
   of the 3-slot ring before lastFlushTime covers it). *)
From Coq Require Import List ZArith NArith Bool.
From SW Require Import model.LogBuf proof.LogBufProofs proof.LogBufInv proof.LogBufSteps
  proof.LogBufMain proof.LogBufSafety proof.LogBufLive proof.LogBufLive2 proof.LogBufRefute.
Import ListNotations.
Local Open Scope Z_scope.

(* Timestamps assigned by AddToBuffer strictly increase and are positive — on EVERY schedule,
   with or without flush function, triggers or not. *)
Theorem c22_ts_strict : forall iv hf c t0 ops,
  incr 0 (run_events iv hf {| buf := init c; subs := sub_init t0 |} ops).
Proof. exact ts_strict. Qed.
Print Assumptions c22_ts_strict.

(* FULL statement ("for any interleaving"), refuted: there is a schedule (the flush lagging
   four rotations behind) on which an event later than t0 is skipped for good: what the
   subscriber received is not a prefix of what was appended. *)
Theorem c22_exactly_once_in_order_refuted : exists iv c t0 ops,
  0 <= t0 /\ ops_wf ops /\
  ~ exists rest, filter (later t0) (run_events iv true (sys0 c t0) ops)
                 = got (subs (run iv true (sys0 c t0) ops)) ++ rest.
Proof. exact no_skip_refuted. Qed.
Print Assumptions c22_exactly_once_in_order_refuted.

(* Strongest true statement: on every schedule that stays outside the trigger, at every
   moment, what the subscriber has received is strictly increasing and later than t0 (no
   duplicate, no reordering) and is a prefix, in append order, of the events later than t0
   (nothing skipped); everything still missing is later than its position. *)
Theorem c22_exactly_once_in_order_partial : forall iv c t0 ops,
  0 <= t0 -> ops_wf ops -> run_trig iv true (sys0 c t0) ops = None ->
  let y := run iv true (sys0 c t0) ops in
  let E := run_events iv true (sys0 c t0) ops in
  incr t0 (got (subs y)) /\
  exists rest, filter (later t0) E = got (subs y) ++ rest /\
               (forall e, In e rest -> lastRead (subs y) < e_ts e).
Proof. exact exactly_once_in_order. Qed.
Print Assumptions c22_exactly_once_in_order_partial.

(* The same, as an equation: received = the appended events with t0 < ts <= position. *)
Theorem c22_received_is_range_partial : forall iv c t0 ops,
  0 <= t0 -> ops_wf ops -> run_trig iv true (sys0 c t0) ops = None ->
  let y := run iv true (sys0 c t0) ops in
  let E := run_events iv true (sys0 c t0) ops in
  t0 <= lastRead (subs y) /\ got (subs y) = filter (in_range t0 (lastRead (subs y))) E.
Proof. exact safety. Qed.
Print Assumptions c22_received_is_range_partial.

(* Liveness: after any such schedule, once the pending sealed buffers are flushed
   (FlushWrite;FlushMark per queued buffer, plus one), three steps of the subscriber deliver
   every event later than t0 — whether it sits on disk, in a sealed buffer or in the
   current buffer. *)
Theorem c22_liveness_partial : forall iv c t0 ops,
  0 <= t0 -> ops_wf ops -> run_trig iv true (sys0 c t0) ops = None ->
  let y := run iv true (sys0 c t0) ops in
  let E := run_events iv true (sys0 c t0) ops in
  let y' := run iv true y (flush_all (S (length (queue (buf y)))) ++ [SubStep; SubStep; SubStep]) in
  got (subs y') = filter (later t0) E.
Proof. exact liveness. Qed.
Print Assumptions c22_liveness_partial.

(* The trigger is what the refuting schedule runs into; the schedule that exposed the
   repaired SealBuffer aliasing (three unflushed sealed buffers) is outside it and fine. *)
Theorem c22_witnesses :
  run_trig far_iv true (sys0 100 0) witness_evict = Some 0%N /\
  run_trig far_iv true (sys0 100 0) witness_alias = None /\
  map e_id (got (subs (run far_iv true (sys0 100 0) witness_alias))) = [1; 2; 3]%N.
Proof. exact (conj trig_witness_evict witness_alias_ok). Qed.
Print Assumptions c22_witnesses.

(* flushFn = nil (the aggregated buffer that serves SubscribeMetadata; copyToFlush sets
   lastFlushTime at once and nothing is flushed): with the buffer's own (empty) flushed data as
   the persisted log, a subscriber behind the last seal never receives the sealed event,
   however many steps it takes -- outside the trigger of finding 0.  Liveness ("receives
   every later change") is therefore refuted for hf = false at this level; what the real
   SubscribeMetadata reads instead (the LOCAL log, other timestamps) is not modelled. *)
Theorem c22_nil_flush_liveness_refuted :
  ops_wf witness_nilflush /\
  run_trig far_iv false (sys0 100 0) witness_nilflush = None /\
  map e_id (filter (later 0) (run_events far_iv false (sys0 100 0) witness_nilflush)) = [1%N] /\
  forall n, got (subs (run far_iv false (sys0 100 0) (witness_nilflush ++ repeat SubStep n))) = [].
Proof. exact nil_flush_stuck. Qed.
Print Assumptions c22_nil_flush_liveness_refuted.

(* non-vacuity: a schedule with timestamp adjustment, size rotation, an interval seal, a
   lagging flush and a subscriber starting in the middle stays outside the triggers, and the
   subscriber gets records 3..8 *)
Example c22_example :
  ops_wf example_ops /\ run_trig 1000000 true (sys0 100 1001) example_ops = None /\
  map e_ts (run_events 1000000 true (sys0 100 1001) example_ops) = [1000; 1001; 1002; 1020; 1030; 1040; 1050; 1060] /\
  map e_id (got (subs (run 1000000 true (sys0 100 1001) example_ops))) = [3; 4; 5; 6; 7; 8]%N.
Proof. exact example_ok. Qed.
Print Assumptions c22_example.
