(* C18 — The filer namespace stays a well-formed tree.
   Only statements closed by [exact]; proofs live in proof/FilerNS*.v.
   Model: model/FilerNS.v (Filer.CreateEntry/UpdateEntry/DeleteEntryMetaAndData and
   FilerServer.AtomicRenameEntry over a flat store without transactions, as in the
   leveldb family), with the own-subtree check of AtomicRenameEntry in place; model/FilerNSRaw.v:
   the request layer of AtomicRenameEntry on the raw strings (path.Clean of the directories, refusal
   of names that are not plain entry names, CanRename across buckets) and the narrow trigger. *)
From Coq Require Import List NArith Bool String Permutation.
From SW Require Import model.FilerNS model.FilerNSRaw proof.FilerNSProofs.
Import ListNotations.

(* ---------- every entry's ancestors exist and are directories: FULL ---------- *)

(* the invariant is kept by every operation, whatever its outcome (also by a rename that
   fails half-way and by the renames inside the trigger of the known finding) *)
Theorem c18_wellformed_step : forall s o, wf s -> wf (fst (step s o)).
Proof. exact step_wf. Qed.
Print Assumptions c18_wellformed_step.

(* hence after any sequence of creates, updates, deletes and renames from the empty namespace,
   at the end and after every single operation *)
Theorem c18_wellformed : forall ops, wf (final [] ops) /\ Forall (fun sr => wf (fst sr)) (run [] ops).
Proof. exact (fun ops => conj (final_wf ops [] wf_nil) (run_wf ops [] wf_nil)). Qed.
Print Assumptions c18_wellformed.

(* the same over histories whose renames are RAW requests (any strings as directories and names) *)
Theorem c18_wellformed_raw : forall xs, wf (xfinal [] xs) /\ Forall (fun sr => wf (fst sr)) (xrun [] xs).
Proof. exact (fun xs => conj (xfinal_wf xs [] wf_nil) (xrun_wf xs [] wf_nil)). Qed.
Print Assumptions c18_wellformed_raw.

(* what the invariant says: ALL ancestors of an entry, not only its parent *)
Theorem c18_ancestors_exist_and_are_directories : forall s, wf s -> forall a r e,
  find s (a ++ r) = Some e -> a <> [] -> r <> [] -> exists d, find s a = Some d /\ e_dir d = true.
Proof. exact wf_all_ancestors. Qed.
Print Assumptions c18_ancestors_exist_and_are_directories.

(* the executable predicate evaluated by the correspondence check is this invariant *)
Theorem c18_wf_decided : forall s, wf_b s = true <-> wf s.
Proof. exact wf_b_spec. Qed.
Print Assumptions c18_wf_decided.

(* ---------- deletes: FULL ---------- *)

(* a non-recursive delete of a non-empty directory fails without changing anything *)
Theorem c18_delete_nonrecursive_nonempty_refused : forall s p e ign, wf s -> p <> [] ->
  find s p = Some e -> e_dir e = true -> has_children s p = true ->
  delete_entry s p false ign = (s, ENotEmpty).
Proof. exact delete_nonrec_nonempty. Qed.
Print Assumptions c18_delete_nonrecursive_nonempty_refused.

(* a successful delete removes exactly the subtree: the path, everything below it, nothing else *)
Theorem c18_delete_removes_exactly_the_subtree : forall s p rec ign s', wf s -> p <> [] ->
  delete_entry s p rec ign = (s', OK) ->
  forall q, find s' q = if is_prefix p q then None else find s q.
Proof. exact delete_removes_subtree. Qed.
Print Assumptions c18_delete_removes_exactly_the_subtree.

(* and a recursive delete of an existing entry does succeed (the model's fuel suffices) *)
Theorem c18_delete_recursive_succeeds : forall s p e ign, wf s -> p <> [] -> find s p = Some e ->
  snd (delete_entry s p true ign) = OK.
Proof. exact delete_rec_succeeds. Qed.
Print Assumptions c18_delete_recursive_succeeds.

(* ---------- renaming a directory into itself or one of its descendants is refused: FULL
   (after the repair of AtomicRenameEntry; before it the recursion did not terminate) ---------- *)
Theorem c18_rename_into_own_subtree_refused : forall s od on nd nn,
  is_prefix (child od on) nd = true -> rename s od on nd nn = (s, EInvalid).
Proof. exact rename_into_own_subtree_refused. Qed.
Print Assumptions c18_rename_into_own_subtree_refused.

(* the same on the RAW request, over the normalised paths: however the two directories are spelled
   (doubled or trailing '/', '.', '..', no leading '/') and whatever the names are, a request whose
   cleaned target directory is the cleaned source path or lies below it changes nothing *)
Theorem c18_rename_raw_into_own_subtree_refused : forall s od on nd nn,
  is_prefix (child (clean_dir od) on) (clean_dir nd) = true -> rename_raw s od on nd nn = (s, EInvalid).
Proof. exact rename_raw_into_own_subtree_refused. Qed.
Print Assumptions c18_rename_raw_into_own_subtree_refused.

(* a name that is not a plain entry name ("", ".", "..", or containing '/') is refused: it can not
   put the target below the source behind the back of the directory comparison
   (before the repair 4bdf6264:  mv /a -> "/" + "a/b"  recursed without end) *)
Theorem c18_rename_raw_bad_name_refused : forall s od on nd nn,
  valid_name on && valid_name nn = false -> rename_raw s od on nd nn = (s, EInvalid).
Proof. exact rename_raw_bad_name_refused. Qed.
Print Assumptions c18_rename_raw_bad_name_refused.

Theorem c18_rename_raw_slash_name_refused : forall s od on nd nn,
  has_slash on = true \/ has_slash nn = true -> rename_raw s od on nd nn = (s, EInvalid).
Proof. exact rename_raw_slash_name_refused. Qed.
Print Assumptions c18_rename_raw_slash_name_refused.

(* Filer.CanRename: no move from one bucket into another *)
Theorem c18_rename_raw_cross_bucket_refused : forall s od on nd nn,
  can_rename (clean_dir od) (clean_dir nd) = false -> rename_raw s od on nd nn = (s, EInvalid).
Proof. exact rename_raw_cross_bucket_refused. Qed.
Print Assumptions c18_rename_raw_cross_bucket_refused.

(* every other request IS the rename of the normalised request, whose directories are lists of plain
   names: all rename theorems below apply to it *)
Theorem c18_rename_raw_is_rename_of_normalised_request : forall s od on nd nn,
  valid_name on = true -> valid_name nn = true -> can_rename (clean_dir od) (clean_dir nd) = true ->
  rename_raw s od on nd nn = rename s (clean_dir od) on (clean_dir nd) nn.
Proof. exact rename_raw_valid. Qed.
Print Assumptions c18_rename_raw_is_rename_of_normalised_request.

Theorem c18_clean_dir_segments_are_plain_names : forall d, Forall (fun n => valid_name n = true) (clean_dir d).
Proof. exact clean_dir_valid. Qed.
Print Assumptions c18_clean_dir_segments_are_plain_names.

(* ---------- a rename moves the whole subtree without loss or duplication ----------
   FULL statement: for every well-formed s and every rename not into its own subtree that
   returns OK, each entry at  old ++ r  is afterwards at  new ++ r.
   It is REFUTED by the code as it is (known finding 0): a directory renamed onto an existing
   NON-EMPTY directory (POSIX: ENOTEMPTY) is merged entry by entry ... *)

(* ... and when the target is an ancestor of the source the rename returns OK with entries lost *)
Theorem c18_rename_moves_subtree_refuted :
  exists s od on nd nn s' r e,
    wf s /\ is_prefix (child od on) nd = false /\ child od on <> child nd nn /\
    rename_trigger s od on nd nn = true /\
    rename s od on nd nn = (s', OK) /\
    find s (child od on ++ r) = Some e /\ find s' (child nd nn ++ r) <> Some (strip_hl e).
Proof. exact rename_onto_ancestor_loses_entries. Qed.
Print Assumptions c18_rename_moves_subtree_refuted.

(* ... and on a type conflict below the two directories the rename fails half-way and keeps
   what it has already moved and overwritten (no rollback in the leveldb family) *)
Theorem c18_rename_all_or_nothing_refuted :
  exists s od on nd nn q,
    wf s /\ is_prefix (child od on) nd = false /\ rename_trigger s od on nd nn = true /\
    snd (rename s od on nd nn) <> OK /\ find (fst (rename s od on nd nn)) q <> find s q.
Proof. exact rename_merge_conflict_half_moves. Qed.
Print Assumptions c18_rename_all_or_nothing_refuted.

(* PARTIAL: outside the decidable trigger (source and target both directories, target has
   children) a successful rename moves exactly the subtree: every entry below the source
   appears at the same relative path below the target (hard-link fields dropped, as
   moveSelfEntry does), nothing is left below the source, and every other path is untouched
   except that missing ancestors of the target are created *)
Theorem c18_rename_moves_subtree_partial : forall s od on nd nn s', wf s ->
  rename_trigger s od on nd nn = false ->
  rename s od on nd nn = (s', OK) -> child od on <> child nd nn ->
  exists eo, find s (child od on) = Some eo /\
    (forall r, find s' (child nd nn ++ r) = option_map strip_hl (find s (child od on ++ r))) /\
    (forall r, find s' (child od on ++ r) = None) /\
    (forall q, is_prefix (child nd nn) q = false -> is_prefix (child od on) q = false ->
               find s' q = with_ancestors s (child nd nn) (strip_hl eo) q).
Proof. exact rename_moves_subtree. Qed.
Print Assumptions c18_rename_moves_subtree_partial.

(* the same as a multiset statement: the (relative path, entry) pairs of the target subtree are
   a permutation of those of the source subtree, and the source subtree is empty *)
Theorem c18_rename_preserves_multiset_partial : forall s od on nd nn s', wf s ->
  rename_trigger s od on nd nn = false ->
  rename s od on nd nn = (s', OK) -> child od on <> child nd nn ->
  Permutation (subtree_rel s' (child nd nn))
              (map (fun re => (fst re, strip_hl (snd re))) (subtree_rel s (child od on))) /\
  subtree_rel s' (child od on) = [].
Proof. exact rename_preserves_multiset. Qed.
Print Assumptions c18_rename_preserves_multiset_partial.

(* outside the trigger a rename that fails changes nothing *)
Theorem c18_rename_all_or_nothing_partial : forall s od on nd nn, wf s ->
  rename_trigger s od on nd nn = false ->
  snd (rename s od on nd nn) <> OK -> equiv (fst (rename s od on nd nn)) s.
Proof. exact rename_failure_atomic. Qed.
Print Assumptions c18_rename_all_or_nothing_partial.

(* ---------- a file is never replaced by a directory or vice versa ----------
   FULL for create, update and delete (their trigger is false by definition), PARTIAL for
   rename (outside the trigger above): a path present before and after a step keeps its type *)
Theorem c18_no_type_flip_partial : forall s o q a b, wf s -> op_trigger s o = false -> q <> [] ->
  find s q = Some a -> find (fst (step s o)) q = Some b -> e_dir b = e_dir a.
Proof. exact step_no_type_flip. Qed.
Print Assumptions c18_no_type_flip_partial.

(* the FULL statement (no trigger hypothesis) is REFUTED by the code as it is (known finding 0,
   third witness): with directory /a/b/a and file /a/b/b/a,  mv /a/b -> /a  fails with ENotEmpty
   and leaves the FILE at /a/b/a *)
Theorem c18_no_type_flip_refuted :
  exists s od on nd nn q a b,
    wf s /\ is_prefix (child od on) nd = false /\ rename_trigger_n s od on nd nn = true /\
    q <> [] /\ find s q = Some a /\ find (fst (rename s od on nd nn)) q = Some b /\ e_dir b <> e_dir a.
Proof. exact rename_onto_ancestor_flips_type. Qed.
Print Assumptions c18_no_type_flip_refuted.

(* the witnesses of the two other refutations lie inside the NARROW trigger used by the check
   (target an ancestor of the source, or a type conflict at a common relative path) *)
Theorem c18_witnesses_inside_narrow_trigger :
  rename_trigger_n w_lost ["a"%string] "a"%string [] "a"%string = true /\
  rename_trigger_n w_half [] "a"%string [] "b"%string = true.
Proof. exact witnesses_inside_narrow_trigger. Qed.
Print Assumptions c18_witnesses_inside_narrow_trigger.

(* ---------- the model against the reference namespace used as the property oracle ----------
   every history that never meets the trigger does, step by step, exactly what the declarative
   reference (ref_create / ref_update / ref_delete / ref_rename) says: same error class, same map *)
Theorem c18_history_refines_reference_partial : forall ops s, wf s ->
  history_trigger s ops = false -> refines s ops.
Proof. exact history_refines. Qed.
Print Assumptions c18_history_refines_reference_partial.

Theorem c18_step_refines_reference_partial : forall s o, wf s -> op_trigger s o = false ->
  exists se, ref_step s o = Some (se, snd (step s o)) /\ equiv (fst (step s o)) se.
Proof. exact step_ref. Qed.
Print Assumptions c18_step_refines_reference_partial.

Theorem c18_rename_raw_refines_reference_partial : forall s od on nd nn, wf s ->
  valid_name on && valid_name nn && can_rename (clean_dir od) (clean_dir nd) &&
    rename_trigger s (clean_dir od) on (clean_dir nd) nn = false ->
  exists se, ref_rename_raw s od on nd nn = Some (se, snd (rename_raw s od on nd nn)) /\
             equiv (fst (rename_raw s od on nd nn)) se.
Proof. exact rename_raw_ref. Qed.
Print Assumptions c18_rename_raw_refines_reference_partial.

(* ---------- non-vacuity ---------- *)
(* a history with nested directories, two directory renames (one creating the missing ancestors
   of its target), a file rename, and both kinds of delete never meets the trigger, succeeds
   at every step and ends in the expected non-empty namespace *)
Example c18_example_history :
  history_trigger [] ex_ops = false /\
  map snd (run [] ex_ops) = [OK; OK; OK; OK; OK; OK; OK; OK] /\
  store_equiv_b (final [] ex_ops)
    [(["x"]%string, implicit_dir (wF 1)); (["x"; "y"]%string, implicit_dir (wF 1));
     (["x"; "y"; "z"]%string, implicit_dir (wF 1)); (["x"; "y"; "z"; "a"]%string, wF 1);
     (["x"; "y"; "z"; "x"]%string, wF 3)] = true.
Proof. exact ex_history_outside_trigger. Qed.
Print Assumptions c18_example_history.

(* the hypotheses of the partial rename theorems hold for a directory with children *)
Example c18_example_rename :
  let s := final [] [Create ["a"; "b"; "a"]%string (wF 1) false; Create ["a"; "b"; "b"]%string (wD 2) false] in
  wf s /\ rename_trigger s ["a"]%string "b"%string []%list "c"%string = false /\
  snd (rename s ["a"]%string "b"%string []%list "c"%string) = OK /\
  child ["a"]%string "b"%string <> child []%list "c"%string.
Proof. exact ex_rename_hypotheses. Qed.
Print Assumptions c18_example_rename.

(* raw requests: the spellings tried by the audit are refused, a valid unclean one moves the entry *)
Example c18_example_raw_requests :
  let s := final [] [Create ["a"; "x"]%string (wF 1) false] in
  rename_raw s "/" "a" "/" "a/b" = (s, EInvalid) /\
  rename_raw s "/" "a" "//a" "b" = (s, EInvalid) /\
  rename_raw s "/" "a" "/a/../a/./" "b" = (s, EInvalid) /\
  rename_raw s "/a" "" "/a/x2" "y" = (s, EInvalid) /\
  rename_raw s "/" "a" "/buckets/c" "a" = (s, EInvalid) /\
  clean_dir "//a/./b/../c/" = ["a"; "c"]%string /\ clean_dir "/../.." = [] /\ clean_dir "" = [] /\
  snd (rename_raw s "//a/" "x" "/b/../c" "y") = OK /\
  find (fst (rename_raw s "//a/" "x" "/b/../c" "y")) ["c"; "y"]%string = Some (wF 1).
Proof. exact ex_raw_requests. Qed.
Print Assumptions c18_example_raw_requests.

(* the failing-rename hypothesis of c18_rename_all_or_nothing_partial: a directory onto a file *)
Example c18_example_rename_fails_outside_trigger :
  let s := final [] [Create ["a"; "x"]%string (wF 1) false; Create ["b"]%string (wF 2) false] in
  wf s /\ rename_trigger s [] "a"%string [] "b"%string = false /\
  snd (rename s [] "a"%string [] "b"%string) = EIsFile.
Proof. exact ex_rename_fails_outside_trigger. Qed.
Print Assumptions c18_example_rename_fails_outside_trigger.

(* the hypotheses of the delete theorems *)
Example c18_example_delete :
  let s := final [] [Create ["a"; "b"; "x"]%string (wF 1) false; Create ["c"]%string (wF 2) false] in
  wf s /\ find s ["a"]%string = Some (implicit_dir (wF 1)) /\ has_children s ["a"]%string = true /\
  delete_entry s ["a"]%string false false = (s, ENotEmpty) /\
  snd (delete_entry s ["a"]%string true false) = OK /\
  keys (fst (delete_entry s ["a"]%string true false)) = [["c"]%string].
Proof. exact ex_delete_hypotheses. Qed.
Print Assumptions c18_example_delete.

(* the hypotheses of c18_no_type_flip_partial *)
Example c18_example_no_flip :
  let s := final [] [Create ["a"; "x"]%string (wF 1) false; Create ["b"; "x"]%string (wF 2) false] in
  let o := Rename [] "a"%string [] "c"%string in
  wf s /\ op_trigger s o = false /\
  find s ["b"; "x"]%string = Some (wF 2) /\ find (fst (step s o)) ["b"; "x"]%string = Some (wF 2) /\
  snd (step s (Update ["a"; "x"]%string (wD 9))) = EIsFile.
Proof. exact ex_no_flip_hypotheses. Qed.
Print Assumptions c18_example_no_flip.
