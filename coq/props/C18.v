(* C18 — The filer namespace stays a well-formed tree.
   Only statements closed by [exact]; proofs live in proof/FilerNS*.v.
   Model: model/FilerNS.v (Filer.CreateEntry/UpdateEntry/DeleteEntryMetaAndData and
   FilerServer.AtomicRenameEntry over a flat store without transactions, as in the
   leveldb family), with the own-subtree check of AtomicRenameEntry in place. *)
From Coq Require Import List NArith Bool String Permutation.
From SW Require Import model.FilerNS proof.FilerNSProofs.
Import ListNotations.

(* ---------- every entry's ancestors exist and are directories: FULL ---------- *)

(* the invariant is kept by every operation, whatever its outcome (also by a rename that
   fails half-way and by the renames inside the trigger of the known finding) *)
Theorem c18_wellformed_step : forall s o, wf s -> wf (fst (step s o)).
Proof. exact step_wf. Qed.
Print Assumptions c18_wellformed_step.

(* hence after any sequence of creates, updates, deletes and renames from the empty namespace,
   at the end and after every single operation *)
Theorem c18_wellformed : forall ops, wf (final [] ops) /\ Forall (fun sr => wf (fst sr)) (run [] ops).
Proof. exact (fun ops => conj (final_wf ops [] wf_nil) (run_wf ops [] wf_nil)). Qed.
Print Assumptions c18_wellformed.

(* what the invariant says: ALL ancestors of an entry, not only its parent *)
Theorem c18_ancestors_exist_and_are_directories : forall s, wf s -> forall a r e,
  find s (a ++ r) = Some e -> a <> [] -> r <> [] -> exists d, find s a = Some d /\ e_dir d = true.
Proof. exact wf_all_ancestors. Qed.
Print Assumptions c18_ancestors_exist_and_are_directories.

(* the executable predicate evaluated by the correspondence check is this invariant *)
Theorem c18_wf_decided : forall s, wf_b s = true <-> wf s.
Proof. exact wf_b_spec. Qed.
Print Assumptions c18_wf_decided.

(* ---------- deletes: FULL ---------- *)

(* a non-recursive delete of a non-empty directory fails without changing anything *)
Theorem c18_delete_nonrecursive_nonempty_refused : forall s p e ign, wf s -> p <> [] ->
  find s p = Some e -> e_dir e = true -> has_children s p = true ->
  delete_entry s p false ign = (s, ENotEmpty).
Proof. exact delete_nonrec_nonempty. Qed.
Print Assumptions c18_delete_nonrecursive_nonempty_refused.

(* a successful delete removes exactly the subtree: the path, everything below it, nothing else *)
Theorem c18_delete_removes_exactly_the_subtree : forall s p rec ign s', wf s -> p <> [] ->
  delete_entry s p rec ign = (s', OK) ->
  forall q, find s' q = if is_prefix p q then None else find s q.
Proof. exact delete_removes_subtree. Qed.
Print Assumptions c18_delete_removes_exactly_the_subtree.

(* and a recursive delete of an existing entry does succeed (the model's fuel suffices) *)
Theorem c18_delete_recursive_succeeds : forall s p e ign, wf s -> p <> [] -> find s p = Some e ->
  snd (delete_entry s p true ign) = OK.
Proof. exact delete_rec_succeeds. Qed.
Print Assumptions c18_delete_recursive_succeeds.

(* ---------- renaming a directory into itself or one of its descendants is refused: FULL
   (after the repair of AtomicRenameEntry; before it the recursion did not terminate) ---------- *)
Theorem c18_rename_into_own_subtree_refused : forall s od on nd nn,
  is_prefix (child od on) nd = true -> rename s od on nd nn = (s, EInvalid).
Proof. exact rename_into_own_subtree_refused. Qed.
Print Assumptions c18_rename_into_own_subtree_refused.

(* ---------- a rename moves the whole subtree without loss or duplication ----------
   FULL statement: for every well-formed s and every rename not into its own subtree that
   returns OK, each entry at  old ++ r  is afterwards at  new ++ r.
   It is REFUTED by the code as it is (known finding 0): a directory renamed onto an existing
   NON-EMPTY directory (POSIX: ENOTEMPTY) is merged entry by entry ... *)

(* ... and when the target is an ancestor of the source the rename returns OK with entries lost *)
Theorem c18_rename_moves_subtree_refuted :
  exists s od on nd nn s' r e,
    wf s /\ is_prefix (child od on) nd = false /\ child od on <> child nd nn /\
    rename_trigger s od on nd nn = true /\
    rename s od on nd nn = (s', OK) /\
    find s (child od on ++ r) = Some e /\ find s' (child nd nn ++ r) <> Some (strip_hl e).
Proof. exact rename_onto_ancestor_loses_entries. Qed.
Print Assumptions c18_rename_moves_subtree_refuted.

(* ... and on a type conflict below the two directories the rename fails half-way and keeps
   what it has already moved and overwritten (no rollback in the leveldb family) *)
Theorem c18_rename_all_or_nothing_refuted :
  exists s od on nd nn q,
    wf s /\ is_prefix (child od on) nd = false /\ rename_trigger s od on nd nn = true /\
    snd (rename s od on nd nn) <> OK /\ find (fst (rename s od on nd nn)) q <> find s q.
Proof. exact rename_merge_conflict_half_moves. Qed.
Print Assumptions c18_rename_all_or_nothing_refuted.

(* PARTIAL: outside the decidable trigger (source and target both directories, target has
   children) a successful rename moves exactly the subtree: every entry below the source
   appears at the same relative path below the target (hard-link fields dropped, as
   moveSelfEntry does), nothing is left below the source, and every other path is untouched
   except that missing ancestors of the target are created *)
Theorem c18_rename_moves_subtree_partial : forall s od on nd nn s', wf s ->
  rename_trigger s od on nd nn = false ->
  rename s od on nd nn = (s', OK) -> child od on <> child nd nn ->
  exists eo, find s (child od on) = Some eo /\
    (forall r, find s' (child nd nn ++ r) = option_map strip_hl (find s (child od on ++ r))) /\
    (forall r, find s' (child od on ++ r) = None) /\
    (forall q, is_prefix (child nd nn) q = false -> is_prefix (child od on) q = false ->
               find s' q = with_ancestors s (child nd nn) (strip_hl eo) q).
Proof. exact rename_moves_subtree. Qed.
Print Assumptions c18_rename_moves_subtree_partial.

(* the same as a multiset statement: the (relative path, entry) pairs of the target subtree are
   a permutation of those of the source subtree, and the source subtree is empty *)
Theorem c18_rename_preserves_multiset_partial : forall s od on nd nn s', wf s ->
  rename_trigger s od on nd nn = false ->
  rename s od on nd nn = (s', OK) -> child od on <> child nd nn ->
  Permutation (subtree_rel s' (child nd nn))
              (map (fun re => (fst re, strip_hl (snd re))) (subtree_rel s (child od on))) /\
  subtree_rel s' (child od on) = [].
Proof. exact rename_preserves_multiset. Qed.
Print Assumptions c18_rename_preserves_multiset_partial.

(* outside the trigger a rename that fails changes nothing *)
Theorem c18_rename_all_or_nothing_partial : forall s od on nd nn, wf s ->
  rename_trigger s od on nd nn = false ->
  snd (rename s od on nd nn) <> OK -> equiv (fst (rename s od on nd nn)) s.
Proof. exact rename_failure_atomic. Qed.
Print Assumptions c18_rename_all_or_nothing_partial.

(* ---------- a file is never replaced by a directory or vice versa ----------
   FULL for create, update and delete (their trigger is false by definition), PARTIAL for
   rename (outside the trigger above): a path present before and after a step keeps its type *)
Theorem c18_no_type_flip_partial : forall s o q a b, wf s -> op_trigger s o = false -> q <> [] ->
  find s q = Some a -> find (fst (step s o)) q = Some b -> e_dir b = e_dir a.
Proof. exact step_no_type_flip. Qed.
Print Assumptions c18_no_type_flip_partial.

(* ---------- the model against the reference namespace used as the property oracle ----------
   every history that never meets the trigger does, step by step, exactly what the declarative
   reference (ref_create / ref_update / ref_delete / ref_rename) says: same error class, same map *)
Theorem c18_history_refines_reference_partial : forall ops s, wf s ->
  history_trigger s ops = false -> refines s ops.
Proof. exact history_refines. Qed.
Print Assumptions c18_history_refines_reference_partial.

Theorem c18_step_refines_reference_partial : forall s o, wf s -> op_trigger s o = false ->
  exists se, ref_step s o = Some (se, snd (step s o)) /\ equiv (fst (step s o)) se.
Proof. exact step_ref. Qed.
Print Assumptions c18_step_refines_reference_partial.

(* ---------- non-vacuity ---------- *)
(* a history with nested directories, two directory renames (one creating the missing ancestors
   of its target), a file rename, and both kinds of delete never meets the trigger, succeeds
   at every step and ends in the expected non-empty namespace *)
Example c18_example_history :
  history_trigger [] ex_ops = false /\
  map snd (run [] ex_ops) = [OK; OK; OK; OK; OK; OK; OK; OK] /\
  store_equiv_b (final [] ex_ops)
    [(["x"]%string, implicit_dir (wF 1)); (["x"; "y"]%string, implicit_dir (wF 1));
     (["x"; "y"; "z"]%string, implicit_dir (wF 1)); (["x"; "y"; "z"; "a"]%string, wF 1);
     (["x"; "y"; "z"; "x"]%string, wF 3)] = true.
Proof. exact ex_history_outside_trigger. Qed.

(* the hypotheses of the partial rename theorems hold for a directory with children *)
Example c18_example_rename :
  let s := final [] [Create ["a"; "b"; "a"]%string (wF 1) false; Create ["a"; "b"; "b"]%string (wD 2) false] in
  wf s /\ rename_trigger s ["a"]%string "b"%string []%list "c"%string = false /\
  snd (rename s ["a"]%string "b"%string []%list "c"%string) = OK /\
  child ["a"]%string "b"%string <> child []%list "c"%string.
Proof. exact ex_rename_hypotheses. Qed.
