(* C06 — Erasure coding reconstructs and serves the exact original volume.
   Only statements closed by [exact]; proofs live in proof/EC*Proofs.v.

   The model (model/EC.v) follows the REPAIRED tree: nLargeBlockRows = (datSize-1)/(10*large)
   in LocateData and locateOffset, and `>` in the large-block loop of WriteDatFile.

   dat : Z -> byte is the .dat content, D its size; [dslice dat a n] = the bytes
   dat[a, a+n).  [sizes_ok L S buf]: block sizes positive, small | large, and the
   encoder's buffer divides the small block (otherwise encodeData calls glog.Fatalf). *)
From Coq Require Import List ZArith NArith Bool.
From SW Require Import model.EC proof.ECProofs proof.ECReadProofs proof.ECDecodeProofs proof.ECRebuildProofs proof.ECSpecProofs.
Import ListNotations.
Local Open Scope Z_scope.

(* the encoder's two loops write R large rows then s small rows, R and s determined by D *)
Theorem c06_layout : forall L S D, 0 < L -> 0 < S ->
  exists R s, layout L S D R s /\ encode_layout L S D = lrows L 0 R ++ srows S (R * (L * 10)) s.
Proof. exact encode_layout_spec. Qed.
Print Assumptions c06_layout.

(* the repaired row-count formula recovers the encoder's R from the true size AND from
   10 x shard size (shard size = R*L + s*S) *)
Theorem c06_rows_from_true_size : forall L S D R s,
  0 < L -> 0 < S -> 0 <= D -> layout L S D R s -> n_large_rows L D = R.
Proof. exact n_large_rows_true. Qed.
Print Assumptions c06_rows_from_true_size.

Theorem c06_rows_from_shard_size : forall L S D R s m,
  0 < L -> 0 < S -> 0 <= D -> L = m * S -> layout L S D R s ->
  n_large_rows L (10 * (R * L + s * S)) = R.
Proof. exact n_large_rows_prod. Qed.
Print Assumptions c06_rows_from_shard_size.

(* MAIN 1: the production read path (intervals located from 10 x the size of shard
   file 0, then ToShardIdAndOffset + ReadAt on the data shards) returns exactly
   dat[offset, offset+size) — for every block size pair, every .dat size, every needle. *)
Theorem c06_read_exact : forall dat L S buf D offset size,
  sizes_ok L S buf -> 0 <= offset -> 0 <= size -> offset + size <= D ->
  read_needle_prod L S (data_shards dat L S buf D) offset size = Some (dslice dat offset size).
Proof. exact read_exact_prod. Qed.
Print Assumptions c06_read_exact.

(* MAIN 2: the same with the locator fed the true .dat size (the path of ec_test.go) *)
Theorem c06_read_exact_true_size : forall dat L S buf D offset size,
  sizes_ok L S buf -> 0 <= offset -> 0 <= size -> offset + size <= D ->
  read_intervals L S (data_shards dat L S buf D) (locate_data L S D offset size) =
  Some (dslice dat offset size).
Proof. exact read_exact_true_size. Qed.
Print Assumptions c06_read_exact_true_size.

(* MAIN 3: WriteDatFile over the 10 data shards gives back the .dat, for every size *)
Theorem c06_decode : forall dat L S buf D,
  sizes_ok L S buf -> 0 <= D ->
  write_dat L S (data_shards dat L S buf D) D = Some (dslice dat 0 D).
Proof. exact decode_exact. Qed.
Print Assumptions c06_decode.

(* MAIN 4: rebuildEcFiles regenerates every subset of at most 4 lost shards
   byte-identically — RELATIVE to the Reed-Solomon oracle: rs_col (Encode on one byte
   column) yields 4 parity bytes, and rs_rec (Reconstruct on one byte column) is MDS.
   B is the buffer size of rebuildEcFiles (ErasureCodingSmallBlockSize); the shard
   size is a multiple of it (production: B = small block) or below it (scaled-down runs). *)
Theorem c06_rebuild :
  forall (rs_col : list byte -> list byte) (rs_rec : list (option byte) -> option (list byte)),
  (forall d, length d = 10%nat -> length (rs_col d) = 4%nat) ->
  (forall d present, length d = 10%nat -> length present = 14%nat -> count_lost present <= 4 ->
     rs_rec (apply_mask present (d ++ rs_col d)) = Some (d ++ rs_col d)) ->
  forall dat L S buf D B present,
  sizes_ok L S buf -> 0 < B -> length present = 14%nat -> count_lost present <= 4 ->
  let shards := all_shards rs_col dat L S buf D in
  let len := zlen (znth shards 0 []) in
  (len mod B = 0 \/ len < B) ->
  rebuild rs_rec B (apply_mask present shards) = Some shards.
Proof. exact rebuild_exact. Qed.
Print Assumptions c06_rebuild.

(* in production B = small block size divides every shard size *)
Theorem c06_rebuild_production_buffer : forall rs_col dat L S buf D,
  sizes_ok L S buf -> 0 <= D ->
  zlen (znth (all_shards rs_col dat L S buf D) 0 []) mod S = 0.
Proof. exact shard_len_multiple_of_small. Qed.
Print Assumptions c06_rebuild_production_buffer.

(* what [dslice] means for a file given as a list of bytes *)
Theorem c06_dslice_is_sublist : forall (l : list byte) a n,
  0 <= a -> 0 <= n -> a + n <= zlen l ->
  dslice (dat_of_list l) a n = firstn (Z.to_nat n) (skipn (Z.to_nat a) l).
Proof. exact dslice_sublist. Qed.
Print Assumptions c06_dslice_is_sublist.

Theorem c06_dslice_whole : forall (l : list byte), dslice (dat_of_list l) 0 (zlen l) = l.
Proof. exact dslice_whole. Qed.
Print Assumptions c06_dslice_whole.

(* non-vacuity, at the sizes where the unrepaired code went wrong:
   a 995-byte .dat with large=100 small=10 (shard size 100: only small rows),
   read of 8 bytes at offset 0 through the production path; a .dat of exactly one
   large row worth of data (1000 bytes) decoded; hypotheses of c06_rebuild other than
   the oracle's. *)
Example c06_example :
  sizes_ok 100 10 10 /\
  (let l := lcg_bytes 995 7 in
   read_needle_prod 100 10 (data_shards (dat_of_list l) 100 10 10 995) 0 8 = Some (firstn 8 l) /\
   map i_large (locate_data 100 10 (10 * 100) 0 8) = [false]) /\
  (let l := lcg_bytes 1000 9 in
   write_dat 100 10 (data_shards (dat_of_list l) 100 10 10 1000) 1000 = Some l) /\
  (let present := [true; false; true; true; false; true; true; true; true; true; false; true; true; false] in
   length present = 14%nat /\ count_lost present <= 4 /\
   let len := zlen (znth (all_shards (fun _ => [0; 0; 0; 0]%N) (dat_of_list (lcg_bytes 437 3)) 40 10 10 437) 0 []) in
   len = 50 /\ len < 1048576).
Proof.
  split.
  - split; [reflexivity|]. split; [exists 1|exists 10]; split; reflexivity.
  - vm_compute. repeat split; reflexivity || (intro; discriminate).
Qed.
