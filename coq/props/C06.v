(* C06 — Erasure coding reconstructs and serves the exact original volume.
   Only statements closed by [exact]; proofs live in proof/EC*Proofs.v.

   The model (model/EC.v) follows the REPAIRED tree: nLargeBlockRows = (datSize-1)/(10*large)
   in LocateData and locateOffset, and `>` in the large-block loop of WriteDatFile.

   dat : Z -> byte is the .dat content, D its size; [dslice dat a n] = the bytes
   dat[a, a+n).  [sizes_ok L S buf]: block sizes positive, small | large, and the
   encoder's buffer divides the small block (otherwise encodeData calls glog.Fatalf). *)
From Coq Require Import List ZArith NArith Bool.
From SW Require Import model.EC proof.ECProofs proof.ECReadProofs proof.ECDecodeProofs proof.ECRebuildProofs proof.ECSpecProofs.
Import ListNotations.
Local Open Scope Z_scope.

(* the encoder's two loops write R large rows then s small rows, R and s determined by D *)
Theorem c06_layout : forall L S D, 0 < L -> 0 < S ->
  exists R s, layout L S D R s /\ encode_layout L S D = lrows L 0 R ++ srows S (R * (L * 10)) s.
Proof. exact encode_layout_spec. Qed.
Print Assumptions c06_layout.

(* the repaired row-count formula recovers the encoder's R from the true size AND from
   10 x shard size (shard size = R*L + s*S) *)
Theorem c06_rows_from_true_size : forall L S D R s,
  0 < L -> 0 < S -> 0 <= D -> layout L S D R s -> n_large_rows L D = R.
Proof. exact n_large_rows_true. Qed.
Print Assumptions c06_rows_from_true_size.

Theorem c06_rows_from_shard_size : forall L S D R s m,
  0 < L -> 0 < S -> 0 <= D -> L = m * S -> layout L S D R s ->
  n_large_rows L (10 * (R * L + s * S)) = R.
Proof. exact n_large_rows_prod. Qed.
Print Assumptions c06_rows_from_shard_size.

(* MAIN 1: the production read path (intervals located from 10 x the size of shard
   file 0, then ToShardIdAndOffset + ReadAt on the data shards) returns exactly
   dat[offset, offset+size) — for every block size pair, every .dat size, every needle. *)
Theorem c06_read_exact : forall dat L S buf D offset size,
  sizes_ok L S buf -> 0 <= offset -> 0 <= size -> offset + size <= D ->
  read_needle_prod L S (data_shards dat L S buf D) offset size = Some (dslice dat offset size).
Proof. exact read_exact_prod. Qed.
Print Assumptions c06_read_exact.

(* MAIN 2: the same with the locator fed the true .dat size (the path of ec_test.go) *)
Theorem c06_read_exact_true_size : forall dat L S buf D offset size,
  sizes_ok L S buf -> 0 <= offset -> 0 <= size -> offset + size <= D ->
  read_intervals L S (data_shards dat L S buf D) (locate_data L S D offset size) =
  Some (dslice dat offset size).
Proof. exact read_exact_true_size. Qed.
Print Assumptions c06_read_exact_true_size.

(* MAIN 3: WriteDatFile over the 10 data shards gives back the .dat, for every size *)
Theorem c06_decode : forall dat L S buf D,
  sizes_ok L S buf -> 0 <= D ->
  write_dat L S (data_shards dat L S buf D) D = Some (dslice dat 0 D).
Proof. exact decode_exact. Qed.
Print Assumptions c06_decode.

(* MAIN 4: rebuildEcFiles regenerates every subset of at most 4 lost shards
   byte-identically — RELATIVE to the Reed-Solomon oracle: rs_col (Encode on one byte
   column) yields 4 parity bytes, and rs_rec (Reconstruct on one byte column) is MDS.
   B is the buffer size of rebuildEcFiles (ErasureCodingSmallBlockSize); the shard
   size is a multiple of it (production: B = small block) or below it (scaled-down runs). *)
Theorem c06_rebuild :
  forall (rs_col : list byte -> list byte) (rs_rec : list (option byte) -> option (list byte)),
  (forall d, length d = 10%nat -> length (rs_col d) = 4%nat) ->
  (forall d present, length d = 10%nat -> length present = 14%nat -> count_lost present <= 4 ->
     rs_rec (apply_mask present (d ++ rs_col d)) = Some (d ++ rs_col d)) ->
  forall dat L S buf D B present,
  sizes_ok L S buf -> 0 < B -> length present = 14%nat -> count_lost present <= 4 ->
  let shards := all_shards rs_col dat L S buf D in
  let len := zlen (znth shards 0 []) in
  (len mod B = 0 \/ len < B) ->
  rebuild rs_rec B (apply_mask present shards) = Some shards.
Proof. exact rebuild_exact. Qed.
Print Assumptions c06_rebuild.

(* in production B = small block size divides every shard size *)
Theorem c06_rebuild_production_buffer : forall rs_col dat L S buf D,
  sizes_ok L S buf -> 0 <= D ->
  zlen (znth (all_shards rs_col dat L S buf D) 0 []) mod S = 0.
Proof. exact shard_len_multiple_of_small. Qed.
Print Assumptions c06_rebuild_production_buffer.

(* what [dslice] means for a file given as a list of bytes *)
Theorem c06_dslice_is_sublist : forall (l : list byte) a n,
  0 <= a -> 0 <= n -> a + n <= zlen l ->
  dslice (dat_of_list l) a n = firstn (Z.to_nat n) (skipn (Z.to_nat a) l).
Proof. exact dslice_sublist. Qed.
Print Assumptions c06_dslice_is_sublist.

Theorem c06_dslice_whole : forall (l : list byte), dslice (dat_of_list l) 0 (zlen l) = l.
Proof. exact dslice_whole. Qed.
Print Assumptions c06_dslice_whole.

(* closed forms used by the check for production-size shard files (too big to build as
   lists): byte o of data shard i, and the shard file length *)
Theorem c06_shard_byte : forall dat L S buf D i o,
  sizes_ok L S buf -> 0 <= D -> 0 <= i < 10 -> 0 <= o < zlen (data_shard dat L S buf D i) ->
  znth (data_shard dat L S buf D i) o 0%N = shard_byte dat L S D i o.
Proof. exact shard_byte_correct. Qed.
Print Assumptions c06_shard_byte.

Theorem c06_shard_len : forall dat L S buf D i,
  sizes_ok L S buf -> 0 <= D -> 0 <= i < 10 ->
  zlen (data_shard dat L S buf D i) = shard_len L S D.
Proof. exact shard_len_correct. Qed.
Print Assumptions c06_shard_len.

(* non-vacuity, at the sizes where the unrepaired code went wrong:
   a 995-byte .dat with large=100 small=10 (shard size 100: only small rows),
   read of 8 bytes at offset 0 through the production path; a .dat of exactly one
   large row worth of data (1000 bytes) decoded; hypotheses of c06_rebuild other than
   the oracle's. *)
Example c06_example :
  sizes_ok 100 10 10 /\
  (let l := lcg_bytes 995 7 in
   read_needle_prod 100 10 (data_shards (dat_of_list l) 100 10 10 995) 0 8 = Some (firstn 8 l) /\
   map i_large (locate_data 100 10 (10 * 100) 0 8) = [false]) /\
  (let l := lcg_bytes 1000 9 in
   write_dat 100 10 (data_shards (dat_of_list l) 100 10 10 1000) 1000 = Some l) /\
  (let present := [true; false; true; true; false; true; true; true; true; true; false; true; true; false] in
   length present = 14%nat /\ count_lost present <= 4 /\
   let len := zlen (znth (all_shards (fun _ => [0; 0; 0; 0]%N) (dat_of_list (lcg_bytes 437 3)) 40 10 10 437) 0 []) in
   len = 50 /\ len < 1048576) /\
  (let l := lcg_bytes 650 5 in
   shard_len 40 10 650 = 70 /\
   map (shard_byte (dat_of_list l) 40 10 650 3) (zrange 0 70) = data_shard (dat_of_list l) 40 10 10 650 3).
Proof. exact c06_example_holds. Qed.
Print Assumptions c06_example.

(* ===== decode + mount (audit item 1) ===== *)
(* ec.decode (VolumeEcShardsToVolume: FindDatFileSize, WriteDatFile, WriteIdxFileFromEcIndex)
   followed by the mount of the decoded volume (Volume.load with CheckAndFixVolumeDataIntegrity),
   at the record level of C04's volume model (model/Compaction.v); model/ECVolume.v.
   [c_exec vt cinit h] = the volume (with its .idx) after the history h of writes and deletes,
   [mounted s] = the decoded and mounted volume (None: cannot be mounted), [read_of v now id] =
   what a reader of id gets.  The byte level below it (WriteDatFile gives the first datSize bytes
   of the encoded .dat) is c06_decode; it needs the size FindDatFileSize computes to have as many
   large block rows as the encoded .dat ([fewer_large_rows L s = false]).  The .ecj is empty. *)
From SW Require Import model.Volume model.Compaction model.ECVolume proof.ECVolumeProofs.
Local Open Scope N_scope.

(* FULL statement "the decoded volume serves the exact original volume" is false: finding 0
   (witness Write(1,"aaa"), Write(2,"bbb"), Write(1,"cccc"): the key-sorted .idx makes the
   integrity check truncate the .dat behind the record of key 2; key 1 is lost) *)
Theorem c06_decode_mount_refuted :
  exists h id now, no_pad h = true /\ has_empty h = false /\
    read_mounted (mounted (c_exec (0, 0) cinit h)) now id <> read_of (cv (c_exec (0, 0) cinit h)) now id.
Proof. exact decode_mount_refuted. Qed.
Print Assumptions c06_decode_mount_refuted.

(* finding 1: nothing live (Write(1,"aaa"), Delete(1)): FindDatFileSize = 0, the decoded .dat has
   no super block, the volume cannot be mounted *)
Theorem c06_decode_unmountable :
  exists h, no_pad h = true /\ has_empty h = false /\
    dat_size (c_exec (0, 0) cinit h) = 0 /\ mounted (c_exec (0, 0) cinit h) = None /\
    decode_trigger 1073741824 (c_exec (0, 0) cinit h) = Some 1.
Proof. exact decode_unmountable. Qed.
Print Assumptions c06_decode_unmountable.

(* finding 2 (block sizes 40/10): the live part (344 bytes) has fewer large rows than the
   encoded .dat (480 bytes); what WriteDatFile then produces is the byte-level model's business
   (EC.write_dat on the shards of the 480-byte file with datSize 344), not a prefix *)
Theorem c06_decode_fewer_rows :
  exists h, no_pad h = true /\ has_empty h = false /\
    dat_end (cv (c_exec (0, 0) cinit h)) = 480 /\ dat_size (c_exec (0, 0) cinit h) = 344 /\
    large_rows 40 480 = 1%Z /\ large_rows 40 344 = 0%Z /\
    decode_trigger 40 (c_exec (0, 0) cinit h) = Some 2.
Proof. exact decode_fewer_rows. Qed.
Print Assumptions c06_decode_fewer_rows.

(* PARTIAL: every history of writes (non-empty payloads; an empty payload does not survive ANY
   reload of a volume, C04 finding 0) and deletes, any volume TTL, any large block size: outside
   the three triggers the decoded volume is mounted, its .dat has the size FindDatFileSize
   computed, it is writable, and EVERY id reads exactly as before the encoding *)
Theorem c06_decode_mount_partial : forall vt (L : Z) h now id,
  no_pad h = true -> has_empty h = false ->
  no_live_entry (c_exec vt cinit h) = false ->
  fewer_large_rows L (c_exec vt cinit h) = false ->
  sorted_idx_truncates (c_exec vt cinit h) = false ->
  exists m, mounted (c_exec vt cinit h) = Some m /\
            dat_end m = dat_size (c_exec vt cinit h) /\
            no_write_or_delete m = false /\
            read_of m now id = read_of (cv (c_exec vt cinit h)) now id.
Proof. exact decode_mount_partial. Qed.
Print Assumptions c06_decode_mount_partial.

(* outside finding 0 the integrity check of the mount changes nothing *)
Theorem c06_decode_mount_check_noop : forall vt h,
  no_pad h = true ->
  sorted_idx_truncates (c_exec vt cinit h) = false ->
  check_noop (check_files (decoded_files (c_exec vt cinit h))) = true.
Proof. exact decode_mount_check_noop. Qed.
Print Assumptions c06_decode_mount_check_noop.

(* non-vacuity: Write(1,"aaa"), Write(2,"bbb"), Delete(1), Write(2,"cccc") (the LARGEST key is
   overwritten): no trigger, ids 1..3 read the same, id 2 is served *)
Example c06_decode_mount_example :
  no_pad w_clean = true /\ has_empty w_clean = false /\
  decode_trigger 1073741824 (c_exec (0, 0) cinit w_clean) = None /\
  no_live_entry (c_exec (0, 0) cinit w_clean) = false /\
  fewer_large_rows 1073741824 (c_exec (0, 0) cinit w_clean) = false /\
  sorted_idx_truncates (c_exec (0, 0) cinit w_clean) = false /\
  (forall id, In id [1; 2; 3] ->
     read_mounted (mounted (c_exec (0, 0) cinit w_clean)) 10 id = read_of (cv (c_exec (0, 0) cinit w_clean)) 10 id) /\
  read_of (cv (c_exec (0, 0) cinit w_clean)) 10 2 <> None.
Proof. exact decode_mount_example. Qed.
Print Assumptions c06_decode_mount_example.
