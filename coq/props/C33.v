(* C33 — Client-side compression and encryption are transparent and robust.
   Only statements closed by [exact]; proofs live in proof/UploadCodecProofs.v.
   gzip / AES-GCM / content sniffing are oracles; the laws they must satisfy are
   the record [laws] (gunzip . gzip = id, gzip output starts with 1f 8b,
   open . seal = id). *)
From Coq Require Import List NArith Bool String.
From SW Require Import model.UploadCodec proof.UploadCodecProofs.
Import ListNotations.
Local Open Scope N_scope.

(* Upload then fetch returns the bytes the caller meant ([clear_of]: the data, or
   its gunzip when the caller passed isInputCompressed with a valid stream), for
   every data / name / mime / cipher choice, full fetch and every in-range
   ranged fetch; the recorded size is the clear length. *)
Theorem c33_roundtrip : forall O, laws O -> forall u clear,
  List.length (u_nonce u) = 12%nat -> clear_of O u = Some clear ->
  let w := fst (upload O u) in let r := snd (upload O u) in
  r_size r = len clear /\
  (forall off size, off + size <= len clear ->
     fetch O (server_store w) (r_key r) (r_gzip r) true off size = FOk clear) /\
  (forall off size, 0 < size -> off + size <= len clear ->
     fetch O (server_store w) (r_key r) (r_gzip r) false off size = FOk (slice off size clear)).
Proof. exact roundtrip. Qed.
Print Assumptions c33_roundtrip.

(* Decompressing ANY input never panics (working tree: ungzipData and the four
   http_util.go readers check the error of gzip.NewReader) — for every behaviour
   of the gzip / AES / sniffing libraries, no law assumed: the decompression
   helpers on any input ... *)
Theorem c33_no_panic : forall (blob : Type) (L : gzlib blob) (input : blob),
  decompress_data true L input <> DPanic /\ maybe_decompress_data true L input <> MPanic.
Proof. exact (fun blob L input => conj (decompress_no_panic L input) (maybe_decompress_no_panic L input)). Qed.
Print Assumptions c33_no_panic.

(* ... and the download path on ANY stored needle (whatever bytes and flags the
   volume server holds), any key, any request. *)
Theorem c33_fetch_no_panic : forall O n key gz full off size, fetch O n key gz full off size <> FPanic.
Proof. exact fetch_no_panic. Qed.
Print Assumptions c33_fetch_no_panic.

(* The pinned code (error of gzip.NewReader ignored) did panic, exactly on inputs
   that carry the gzip magic but no valid header; this is what the repair removed. *)
Theorem c33_pinned_decompress_panics : exists (L : gzlib bytes) input, decompress_data false L input = DPanic.
Proof. exact pinned_decompress_panics. Qed.
Print Assumptions c33_pinned_decompress_panics.

Theorem c33_pinned_panic_iff : forall (blob : Type) (L : gzlib blob) (input : blob),
  decompress_data false L input = DPanic <->
  is_gzipped_content L input = true /\ gz_gunzip L input = GzHdrErr.
Proof. exact (fun blob L input => decompress_pinned_panic_iff L input). Qed.
Print Assumptions c33_pinned_panic_iff.

(* The pinned download path (http_util.go, same unchecked gzip.NewReader) panicked
   exactly on a needle flagged compressed with the gzip magic and an invalid
   header, on a full or an encrypted fetch; reachable through UploadData with
   isInputCompressed (the witness below); repaired in the working tree. *)
Theorem c33_pinned_fetch_panic_iff : forall O n key gz full off size,
  fetch_gen false O n key gz full off size = FPanic <-> pinned_fetch_panic O n key full = true.
Proof. exact pinned_fetch_panic_iff. Qed.
Print Assumptions c33_pinned_fetch_panic_iff.

Theorem c33_pinned_fetch_witness : exists O u, laws O /\
  fetch_gen false O (server_store (fst (upload O u))) (r_key (snd (upload O u))) (r_gzip (snd (upload O u))) true 0 5 = FPanic /\
  fetch O (server_store (fst (upload O u))) (r_key (snd (upload O u))) (r_gzip (snd (upload O u))) true 0 5 = FErr.
Proof. exact pinned_fetch_after_upload_panics. Qed.
Print Assumptions c33_pinned_fetch_witness.

(* non-vacuity: an oracle satisfying the laws exists, and on it a compressible
   text, an encrypted upload and a pre-compressed upload all come back *)
Example c33_example :
  laws toy /\
  (let u := {| u_name := "a.txt"%string; u_cipher := false; u_data := [104; 105; 32; 104; 105]; u_ic := false;
               u_mime := ""%string; u_key := []; u_nonce := [] |} in
   r_gzip (snd (upload toy u)) = true /\
   fetch toy (server_store (fst (upload toy u))) None true true 0 5 = FOk [104; 105; 32; 104; 105] /\
   fetch toy (server_store (fst (upload toy u))) None true false 1 3 = FOk [105; 32; 104]) /\
  (let u := {| u_name := "x"%string; u_cipher := true; u_data := [31; 139; 1; 2]; u_ic := false;
               u_mime := ""%string; u_key := [9]; u_nonce := [1; 2; 3; 4; 5; 6; 7; 8; 9; 10; 11; 12] |} in
   fetch toy (server_store (fst (upload toy u))) (r_key (snd (upload toy u))) (r_gzip (snd (upload toy u))) false 1 2 = FOk [139; 1]).
Proof. split; [exact toy_laws | vm_compute; repeat split; reflexivity]. Qed.
