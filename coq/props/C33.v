(* C33 — Client-side compression and encryption are transparent and robust.
   Only statements closed by [exact]; proofs live in proof/UploadCodecProofs.v.
   gzip / AES-GCM / content sniffing are oracles; the laws they must satisfy are
   the record [laws] (gunzip . gzip = id, gzip output starts with 1f 8b,
   open . seal = id). *)
From Coq Require Import List NArith Bool String.
From SW Require Import model.UploadCodec proof.UploadCodecProofs proof.UploadCodecMore.
Import ListNotations.
Local Open Scope N_scope.

(* Upload then fetch returns the bytes the caller meant ([clear_of]: the data, or
   its gunzip when the caller passed isInputCompressed with a valid stream), for
   every data / name / mime / cipher choice, full fetch and every in-range
   ranged fetch; the recorded size is the clear length. *)
Theorem c33_roundtrip : forall O, laws O -> forall u clear,
  List.length (u_nonce u) = 12%nat -> clear_of O u = Some clear ->
  let w := fst (upload O u) in let r := snd (upload O u) in
  r_size r = len clear /\
  (forall off size, off + size <= len clear ->
     fetch O (server_store w) (r_key r) (r_gzip r) true off size = FOk clear) /\
  (forall off size, 0 < size -> off + size <= len clear ->
     fetch O (server_store w) (r_key r) (r_gzip r) false off size = FOk (slice off size clear)).
Proof. exact roundtrip. Qed.
Print Assumptions c33_roundtrip.

(* Decompressing ANY input never panics (working tree: ungzipData and the four
   http_util.go readers check the error of gzip.NewReader) — for every behaviour
   of the gzip / AES / sniffing libraries, no law assumed: the decompression
   helpers on any input ... *)
Theorem c33_no_panic : forall (blob : Type) (L : gzlib blob) (input : blob),
  decompress_data true L input <> DPanic /\ maybe_decompress_data true L input <> MPanic.
Proof. exact (fun blob L input => conj (decompress_no_panic L input) (maybe_decompress_no_panic L input)). Qed.
Print Assumptions c33_no_panic.

(* ... and the download path on ANY stored needle (whatever bytes and flags the
   volume server holds), any key, any request. *)
Theorem c33_fetch_no_panic : forall O n key gz full off size, fetch O n key gz full off size <> FPanic.
Proof. exact fetch_no_panic. Qed.
Print Assumptions c33_fetch_no_panic.

(* The pinned code (error of gzip.NewReader ignored) did panic, exactly on inputs
   that carry the gzip magic but no valid header; this is what the repair removed. *)
Theorem c33_pinned_decompress_panics : exists (L : gzlib bytes) input, decompress_data false L input = DPanic.
Proof. exact pinned_decompress_panics. Qed.
Print Assumptions c33_pinned_decompress_panics.

Theorem c33_pinned_panic_iff : forall (blob : Type) (L : gzlib blob) (input : blob),
  decompress_data false L input = DPanic <->
  is_gzipped_content L input = true /\ gz_gunzip L input = GzHdrErr.
Proof. exact (fun blob L input => decompress_pinned_panic_iff L input). Qed.
Print Assumptions c33_pinned_panic_iff.

(* The pinned download path (http_util.go, same unchecked gzip.NewReader) panicked
   exactly on a needle flagged compressed with the gzip magic and an invalid
   header, on a full or an encrypted fetch; reachable through UploadData with
   isInputCompressed (the witness below); repaired in the working tree. *)
Theorem c33_pinned_fetch_panic_iff : forall O n key gz full off size,
  fetch_gen false O n key gz full off size = FPanic <-> pinned_fetch_panic O n key full = true.
Proof. exact pinned_fetch_panic_iff. Qed.
Print Assumptions c33_pinned_fetch_panic_iff.

Theorem c33_pinned_fetch_witness : exists O u, laws O /\
  fetch_gen false O (server_store (fst (upload O u))) (r_key (snd (upload O u))) (r_gzip (snd (upload O u))) true 0 5 = FPanic /\
  fetch O (server_store (fst (upload O u))) (r_key (snd (upload O u))) (r_gzip (snd (upload O u))) true 0 5 = FErr.
Proof. exact pinned_fetch_after_upload_panics. Qed.
Print Assumptions c33_pinned_fetch_witness.

(* ---------- the other two readers of util/http_util.go ---------- *)
(* The same round trip through ReadUrlAsStream (result and the bytes handed to fn),
   ReadUrl (any buffer length: a prefix) and ReadUrlAsReaderCloser + ReadAll. *)
Theorem c33_roundtrip_all_readers : forall O, laws O -> forall u clear,
  List.length (u_nonce u) = 12%nat -> clear_of O u = Some clear ->
  let w := fst (upload O u) in let r := snd (upload O u) in
  let n := server_store w in
  r_size r = len clear /\
  (forall off size, off + size <= len clear ->
     fetch O n (r_key r) (r_gzip r) true off size = FOk clear /\
     fetch_handed O n (r_key r) (r_gzip r) true off size = clear /\
     (forall buflen, read_url true O n (r_key r) (r_gzip r) true off size buflen = FOk (firstn (N.to_nat buflen) clear))) /\
  (forall off size, 0 < size -> off + size <= len clear ->
     fetch O n (r_key r) (r_gzip r) false off size = FOk (slice off size clear) /\
     fetch_handed O n (r_key r) (r_gzip r) false off size = slice off size clear /\
     (forall buflen, read_url true O n (r_key r) (r_gzip r) false off size buflen =
                     FOk (firstn (N.to_nat buflen) (slice off size clear)))) /\
  (u_cipher u = false ->
     read_closer true O n None = FOk clear /\
     forall off size, 0 < size -> off + size <= len clear ->
       read_closer true O n (Some (off, size)) = FOk (slice off size clear)).
Proof. exact roundtrip_all_readers. Qed.
Print Assumptions c33_roundtrip_all_readers.

(* ReadUrl and ReadUrlAsReaderCloser never panic on ANY stored needle (working tree),
   no law assumed ... *)
Theorem c33_read_url_no_panic : forall O n key gz full off size buflen,
  read_url true O n key gz full off size buflen <> FPanic.
Proof. exact read_url_no_panic. Qed.
Print Assumptions c33_read_url_no_panic.

Theorem c33_read_closer_no_panic : forall O n rng, read_closer true O n rng <> FPanic.
Proof. exact read_closer_no_panic. Qed.
Print Assumptions c33_read_closer_no_panic.

(* ... and the pinned code panicked in both exactly where ReadUrlAsStream did. *)
Theorem c33_pinned_read_url_panic_iff : forall O n key gz full off size buflen,
  read_url false O n key gz full off size buflen = FPanic <-> pinned_fetch_panic O n key full = true.
Proof. exact pinned_read_url_panic_iff. Qed.
Print Assumptions c33_pinned_read_url_panic_iff.

Theorem c33_pinned_read_closer_panic_iff : forall O n rng,
  read_closer false O n rng = FPanic <->
  pinned_fetch_panic O n None (match rng with None => true | Some _ => false end) = true.
Proof. exact pinned_read_closer_panic_iff. Qed.
Print Assumptions c33_pinned_read_closer_panic_iff.

(* ---------- known finding 0: isInputCompressed on data that is not gzip ---------- *)
(* "any content ... is fetched back" fails on the faithful model: with
   isInputCompressed set and data that starts with 1f 8b but is no gzip stream,
   doUploadData drops the DecompressData error and uploads anyway.  Not encrypted:
   no full fetch ever succeeds and a ranged read silently returns nothing.
   Encrypted: the result says 5 bytes, the sealed plaintext is empty. *)
Theorem c33_any_content_refuted : exists O, laws O /\
  (exists u, List.length (u_nonce u) = 12%nat /\ u_cipher u = false /\ ~ any_content_ok O u /\
     fetch O (server_store (fst (upload O u))) None true false 0 5 = FOk []) /\
  (exists u, List.length (u_nonce u) = 12%nat /\ u_cipher u = true /\ ~ any_content_ok O u /\
     r_size (snd (upload O u)) = 5 /\
     decrypt O (u_key u) (w_body (fst (upload O u))) = Some []).
Proof. exact any_content_refuted. Qed.
Print Assumptions c33_any_content_refuted.

(* Outside the (decidable) trigger the full statement holds for EVERY input: the bytes
   that come back are the data, or its gunzip when the caller said it is compressed. *)
Theorem c33_roundtrip_partial : forall O, laws O -> forall u,
  List.length (u_nonce u) = 12%nat -> false_gzip_promise O u = false ->
  exists clear,
    (clear = u_data u \/ (u_ic u = true /\ o_gunzip O (u_data u) = GzOk clear)) /\
    let w := fst (upload O u) in let r := snd (upload O u) in
    r_size r = len clear /\
    (forall off size, off + size <= len clear ->
       fetch O (server_store w) (r_key r) (r_gzip r) true off size = FOk clear) /\
    (forall off size, 0 < size -> off + size <= len clear ->
       fetch O (server_store w) (r_key r) (r_gzip r) false off size = FOk (slice off size clear)).
Proof. exact roundtrip_partial. Qed.
Print Assumptions c33_roundtrip_partial.

(* the trigger is exactly the complement of c33_roundtrip's hypothesis *)
Theorem c33_trigger_exact : forall O u, clear_of O u = None <-> false_gzip_promise O u = true.
Proof. exact clear_of_none_iff. Qed.
Print Assumptions c33_trigger_exact.

(* Inside the trigger the behaviour is fully determined (so nothing else can hide
   there).  Not encrypted: the junk is stored as is and flagged compressed, every full
   fetch is an error, a ranged fetch serves the server's partial decompression. *)
Theorem c33_false_promise_plain : forall O u,
  false_gzip_promise O u = true -> u_cipher u = false ->
  let w := fst (upload O u) in let r := snd (upload O u) in
  w_body w = u_data u /\ w_ce_gzip w = true /\ r_gzip r = true /\ r_key r = None /\ r_size r = len (u_data u) /\
  (forall gz off size, fetch O (server_store w) None gz true off size = FErr) /\
  read_closer true O (server_store w) None = FErr /\
  (forall gz off size, fetch O (server_store w) None gz false off size =
     let body := gunzip_partial O (u_data u) in
     if (size =? 0) || (len body <? off) then FErr
     else FOk (slice off (N.min (off + size) (len body) - off) body)).
Proof. exact false_promise_plain. Qed.
Print Assumptions c33_false_promise_plain.

(* Encrypted: what is sealed is DecompressData's partial output, the recorded size is
   the input length. *)
Theorem c33_false_promise_cipher : forall O, laws O -> forall u,
  false_gzip_promise O u = true -> u_cipher u = true -> List.length (u_nonce u) = 12%nat ->
  let w := fst (upload O u) in let r := snd (upload O u) in
  let p := gunzip_partial O (u_data u) in
  w_body w = encrypt O (u_key u) (u_nonce u) p /\ r_size r = len (u_data u) /\ r_gzip r = false /\
  forall full off size,
    fetch O (server_store w) (r_key r) (r_gzip r) full off size =
    if len p <? off + size then FErr else if full then FOk p else FOk (slice off size p).
Proof. exact false_promise_cipher. Qed.
Print Assumptions c33_false_promise_cipher.

(* non-vacuity: an oracle satisfying the laws exists; on it a compressible text
   (through all three readers), an encrypted upload and a pre-compressed upload
   (hypotheses of c33_roundtrip / c33_roundtrip_partial hold) come back, and the two
   witnesses are inside the trigger *)
Example c33_example :
  laws toy /\
  (r_gzip (snd (upload toy ex_text)) = true /\
   fetch toy (server_store (fst (upload toy ex_text))) None true true 0 5 = FOk [104; 105; 32; 104; 105] /\
   fetch toy (server_store (fst (upload toy ex_text))) None true false 1 3 = FOk [105; 32; 104] /\
   read_url true toy (server_store (fst (upload toy ex_text))) None true true 0 5 2 = FOk [104; 105] /\
   read_closer true toy (server_store (fst (upload toy ex_text))) (Some (1, 3)) = FOk [105; 32; 104]) /\
  fetch toy (server_store (fst (upload toy ex_cipher))) (r_key (snd (upload toy ex_cipher)))
        (r_gzip (snd (upload toy ex_cipher))) false 1 2 = FOk [139; 1] /\
  (false_gzip_promise toy ex_pregz = false /\ clear_of toy ex_pregz = Some [65; 66; 67] /\
   List.length (u_nonce ex_pregz) = 12%nat /\
   fetch toy (server_store (fst (upload toy ex_pregz))) None true true 0 3 = FOk [65; 66; 67]) /\
  (false_gzip_promise toy junk_upload = true /\ false_gzip_promise toy junk_cipher_upload = true).
Proof. exact example_holds. Qed.
Print Assumptions c33_example.
