(* C13 -- File keys and volume ids are never handed out twice.
   Only statements closed by [exact]; proofs live in proof/SeqProofs.v.

   Vocabulary (model/Seq.v): a run is a list of atomic steps by several actors;
   its trace is the list of events [Ret m s c] (master m handed out the keys
   s .. s+c-1) and [Max m k] (master m finished SetMax k) in the order in which
   the calls completed.  [ev_ok e1 e2] for e1 before e2: two Ret have no key in
   common; a Ret by the master that finished SetMax k only contains keys > k.
   [ForallOrdPairs ev_ok trace] is the property for one run; every theorem
   quantifies over ALL runs (all interleavings, counts, reported keys). *)
From Coq Require Import List NArith Bool Sorted.
From SW Require Import model.Seq proof.SeqProofs.
Import ListNotations.
Local Open Scope N_scope.

(* the executable oracle used by the correspondence check IS the property *)
Theorem c13_oracle_is_property : forall tr, trace_okb tr = true <-> ForallOrdPairs ev_ok tr.
Proof. exact trace_okb_spec. Qed.
Print Assumptions c13_oracle_is_property.

(* ... and so is its linear-time shortcut used on long traces *)
Theorem c13_fast_oracle_is_oracle : forall tr, trace_okb_fast tr = trace_okb tr.
Proof. exact trace_okb_fast_eq. Qed.
Print Assumptions c13_fast_oracle_is_oracle.

(* ---------------- memory sequencer: full ---------------- *)
(* every interleaving of NextFileId(count) / SetMax(k) critical sections, as
   long as the 64-bit key space is not exhausted (no addition wraps) *)
Theorem c13_memory : forall ops, mem_fits mem_init ops = true ->
  ForallOrdPairs ev_ok (somes (snd (mem_run mem_init ops))).
Proof. exact mem_ok. Qed.
Print Assumptions c13_memory.

(* ... and that hypothesis is needed: uint64 wrap-around repeats keys *)
Theorem c13_memory_needs_key_space :
  exists ops, ~ ForallOrdPairs ev_ok (somes (snd (mem_run mem_init ops))).
Proof. exact mem_nofit_refuted. Qed.
Print Assumptions c13_memory_needs_key_space.

(* leader change: a fresh sequencer (counter 1) whose first step is the
   heartbeat SetMax(k), k not below any key handed out by the old leader,
   never repeats a key of the old leader *)
Theorem c13_memory_failover : forall ops1 ops2 k,
  mem_fits mem_init ops1 = true ->
  mem_fits mem_init (MSetMax k :: ops2) = true ->
  (forall m s c x, In (Ret m s c) (somes (snd (mem_run mem_init ops1))) -> in_range x s c -> x <= k) ->
  forall e1 e2, In e1 (somes (snd (mem_run mem_init ops1))) ->
                In e2 (somes (snd (mem_run mem_init (MSetMax k :: ops2)))) -> ranges_ok e1 e2.
Proof. exact mem_failover_ok. Qed.
Print Assumptions c13_memory_failover.

(* ---------------- etcd sequencer: partial + refuted ---------------- *)
(* any number n of masters sharing the etcd counter; every KeysAPI call is a
   separate step; calls may fail or lose their answer; masters may restart.
   Key ranges never overlap unless an etcd error made NextFileId return 0. *)
Theorem c13_etcd_ranges : forall n sched,
  etcd_err_trigger (etcd_trace n sched) = false ->
  ForallOrdPairs ranges_ok (map vis (etcd_trace n sched)).
Proof. exact etcd_ranges_ok. Qed.
Print Assumptions c13_etcd_ranges.

(* the whole property, when moreover every SetMax(k) was harmless: k below
   currentSeqId, or the etcd counter was already above k *)
Theorem c13_etcd_partial : forall n sched,
  etcd_err_trigger (etcd_trace n sched) = false ->
  etcd_setmax_trigger (etcd_trace n sched) = false ->
  ForallOrdPairs ev_ok (map vis (etcd_trace n sched)).
Proof. exact etcd_partial_ok. Qed.
Print Assumptions c13_etcd_partial.

(* finding 0: SetMax(k), k > maxSeqId, then NextFileId hands out k itself *)
Theorem c13_etcd_refuted :
  exists n sched, etcd_err_trigger (etcd_trace n sched) = false /\
                  ~ ForallOrdPairs ev_ok (map vis (etcd_trace n sched)).
Proof. exact etcd_setmax_refuted. Qed.
Print Assumptions c13_etcd_refuted.

(* finding 0, second form: SetMax(k) with currentSeqId <= k <= maxSeqId is ignored *)
Theorem c13_etcd_ignored_refuted :
  etcd_err_trigger (etcd_trace 1 wit_setmax_ignored) = false /\
  map vis (etcd_trace 1 wit_setmax_ignored) = [Ret 0 1 1; Max 0 300; Ret 0 2 1] /\
  ~ ForallOrdPairs ev_ok (map vis (etcd_trace 1 wit_setmax_ignored)).
Proof. exact etcd_setmax_ignored_refuted. Qed.
Print Assumptions c13_etcd_ignored_refuted.

(* finding 2: an etcd error makes NextFileId return key 0, every time *)
Theorem c13_etcd_err_refuted :
  exists n sched, etcd_setmax_trigger (etcd_trace n sched) = false /\
                  ~ ForallOrdPairs ev_ok (map vis (etcd_trace n sched)).
Proof. exact etcd_err_refuted. Qed.
Print Assumptions c13_etcd_err_refuted.

(* ---------------- snowflake sequencer: partial + refuted ---------------- *)
(* several masters with distinct 10-bit node ids, monotone clocks; holds when
   every count is <= 1 (SetMax is a no-op for this sequencer: no claim) *)
Theorem c13_snowflake_partial : forall nids calls,
  sf_nodes_ok nids = true ->
  sf_clock_ok nids (sf_init nids) calls = true ->
  sf_count_trigger calls = false ->
  ForallOrdPairs ev_ok (somes (snd (sf_run nids (sf_init nids) calls))).
Proof. exact sf_partial_ok. Qed.
Print Assumptions c13_snowflake_partial.

(* finding 1: count is ignored; two NextFileId(3) in one millisecond overlap *)
Theorem c13_snowflake_refuted :
  exists nids calls, sf_nodes_ok nids = true /\ sf_clock_ok nids (sf_init nids) calls = true /\
                     ~ ForallOrdPairs ev_ok (somes (snd (sf_run nids (sf_init nids) calls))).
Proof. exact sf_count_refuted. Qed.
Print Assumptions c13_snowflake_refuted.

(* ---------------- volume ids: full under the growth lock ---------------- *)
(* any interleaving of NextVolumeId (read max / raft apply, which may fail) and
   heartbeats registering volumes, with at most one NextVolumeId in flight
   (VolumeGrowth.accessLock) and the 32-bit id space not exhausted *)
Theorem c13_volume_ids : forall sched, vlocked vinit sched = true -> vfits vinit sched = true ->
  StronglySorted N.lt (rets (snd (vrun vinit sched))).
Proof. exact vol_sorted. Qed.
Print Assumptions c13_volume_ids.

Theorem c13_volume_ids_unique : forall sched, vlocked vinit sched = true -> vfits vinit sched = true ->
  NoDup (rets (snd (vrun vinit sched))).
Proof. exact vol_unique. Qed.
Print Assumptions c13_volume_ids_unique.

(* after ANY run, a NextVolumeId returns an id above every volume id the
   master knew (from heartbeats or from earlier grants) when it read the max *)
Theorem c13_volume_ids_fresh : forall pre a hbs,
  let s := fst (vrun vinit pre) in
  vfind (vpend s) a = None -> vmax s + 1 < two32 ->
  exists next,
    snd (vrun s (VRead a :: map VHb hbs ++ [VApply a true])) =
      None :: map (fun _ => None) hbs ++ [Some (Ret a next 1)] /\
    forall v, In v (vknown pre (snd (vrun vinit pre))) -> v < next.
Proof. exact vol_fresh. Qed.
Print Assumptions c13_volume_ids_fresh.

(* the lock is needed; and a heartbeat between read and apply is not seen *)
Theorem c13_volume_ids_needs_lock :
  exists sched, vfits vinit sched = true /\ ~ NoDup (rets (snd (vrun vinit sched))).
Proof. exact vol_unlocked_refuted. Qed.
Print Assumptions c13_volume_ids_needs_lock.

Theorem c13_volume_ids_hb_between :
  vlocked vinit [VRead 0; VHb 7; VApply 0 true] = true /\
  snd (vrun vinit [VRead 0; VHb 7; VApply 0 true]) = [None; None; Some (Ret 0 1 1)].
Proof. exact vol_hb_between. Qed.
Print Assumptions c13_volume_ids_hb_between.

(* ---------------- non-vacuity ---------------- *)
Example c13_memory_example :
  let ops := [MNext 3; MSetMax 10; MNext 2; MSetMax 5; MNext 1] in
  mem_fits mem_init ops = true /\
  somes (snd (mem_run mem_init ops)) = [Ret 0 1 3; Max 0 10; Ret 0 11 2; Max 0 5; Ret 0 13 1].
Proof. exact mem_example. Qed.

Example c13_etcd_example :
  etcd_err_trigger (etcd_trace 2 ex_etcd) = false /\
  etcd_setmax_trigger (etcd_trace 2 ex_etcd) = false /\
  map vis (etcd_trace 2 ex_etcd) = [Ret 1 1 3; Ret 0 501 2; Max 1 2; Ret 1 4 1; Ret 0 1501 5].
Proof. exact etcd_example. Qed.

Example c13_snowflake_example :
  let calls := [ {| sc_node := 0; sc_count := 1; sc_now := 1000; sc_spin := 1001 |};
                 {| sc_node := 1; sc_count := 1; sc_now := 1000; sc_spin := 1001 |};
                 {| sc_node := 0; sc_count := 1; sc_now := 1000; sc_spin := 1001 |};
                 {| sc_node := 0; sc_count := 0; sc_now := 1002; sc_spin := 1003 |} ] in
  sf_nodes_ok [5; 6] = true /\ sf_clock_ok [5; 6] (sf_init [5; 6]) calls = true /\
  sf_count_trigger calls = false /\
  somes (snd (sf_run [5; 6] (sf_init [5; 6]) calls)) =
    [Ret 0 4194324480 1; Ret 1 4194328576 1; Ret 0 4194324481 1; Ret 0 4202713088 0].
Proof. exact sf_example. Qed.

Example c13_volume_example :
  let sched := [VHb 3; VRead 0; VHb 2; VApply 0 true; VRead 1; VApply 1 false; VRead 1; VApply 1 true] in
  vlocked vinit sched = true /\ vfits vinit sched = true /\ rets (snd (vrun vinit sched)) = [4; 5].
Proof. exact vol_example. Qed.
