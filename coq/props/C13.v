(* C13 -- File keys and volume ids are never handed out twice.
   Only statements closed by [exact]; proofs live in proof/SeqProofs.v.

   Vocabulary (model/Seq.v): a run is a list of atomic steps by several actors;
   its trace is the list of events [Ret m s c] (master m handed out the keys
   s .. s+c-1) and [Max m k] (master m finished SetMax k) in the order in which
   the calls completed.  [ev_ok e1 e2] for e1 before e2: two Ret have no key in
   common; a Ret by the master that finished SetMax k only contains keys > k.
   [ForallOrdPairs ev_ok trace] is the property for one run; every theorem
   quantifies over ALL runs (all interleavings, counts, reported keys). *)
From Coq Require Import List NArith Bool Sorted.
From SW Require Import model.Seq model.SeqGrow proof.SeqProofs proof.SeqSnow proof.SeqGrow.
Import ListNotations.
Local Open Scope N_scope.

(* the executable oracle used by the correspondence check IS the property *)
Theorem c13_oracle_is_property : forall tr, trace_okb tr = true <-> ForallOrdPairs ev_ok tr.
Proof. exact trace_okb_spec. Qed.
Print Assumptions c13_oracle_is_property.

(* ... and so is its linear-time shortcut used on long traces *)
Theorem c13_fast_oracle_is_oracle : forall tr, trace_okb_fast tr = trace_okb tr.
Proof. exact trace_okb_fast_eq. Qed.
Print Assumptions c13_fast_oracle_is_oracle.

(* ---------------- memory sequencer: full ---------------- *)
(* every interleaving of NextFileId(count) / SetMax(k) critical sections, as
   long as the 64-bit key space is not exhausted (no addition wraps) *)
Theorem c13_memory : forall ops, mem_fits mem_init ops = true ->
  ForallOrdPairs ev_ok (somes (snd (mem_run mem_init ops))).
Proof. exact mem_ok. Qed.
Print Assumptions c13_memory.

(* ... and that hypothesis is needed: uint64 wrap-around repeats keys *)
Theorem c13_memory_needs_key_space :
  exists ops, ~ ForallOrdPairs ev_ok (somes (snd (mem_run mem_init ops))).
Proof. exact mem_nofit_refuted. Qed.
Print Assumptions c13_memory_needs_key_space.

(* leader change: a fresh sequencer (counter 1) whose first step is the
   heartbeat SetMax(k), k not below any key handed out by the old leader,
   never repeats a key of the old leader *)
Theorem c13_memory_failover : forall ops1 ops2 k,
  mem_fits mem_init ops1 = true ->
  mem_fits mem_init (MSetMax k :: ops2) = true ->
  (forall m s c x, In (Ret m s c) (somes (snd (mem_run mem_init ops1))) -> in_range x s c -> x <= k) ->
  forall e1 e2, In e1 (somes (snd (mem_run mem_init ops1))) ->
                In e2 (somes (snd (mem_run mem_init (MSetMax k :: ops2)))) -> ranges_ok e1 e2.
Proof. exact mem_failover_ok. Qed.
Print Assumptions c13_memory_failover.

(* per step, no hypothesis: the run up to the first wrapping addition satisfies
   the property (finding 3 is what happens afterwards) *)
Theorem c13_memory_prefix : forall ops,
  ForallOrdPairs ev_ok (somes (snd (mem_run mem_init (firstn (mem_fit_len mem_init ops) ops)))) /\
  snd (mem_run mem_init (firstn (mem_fit_len mem_init ops) ops)) = firstn (mem_fit_len mem_init ops) (snd (mem_run mem_init ops)) /\
  (mem_fits mem_init ops = true -> mem_fit_len mem_init ops = length ops).
Proof. exact mem_prefix_ok. Qed.
Print Assumptions c13_memory_prefix.

(* leader change, per pair (implies c13_memory_failover): a range of the old
   leader with no key above the k of the new leader's first heartbeat is never
   met again by the new leader; no hypothesis on the other ranges *)
Theorem c13_memory_failover_pair : forall ops1 ops2 k,
  mem_fits mem_init ops1 = true ->
  mem_fits mem_init (MSetMax k :: ops2) = true ->
  forall e1 e2, In e1 (somes (snd (mem_run mem_init ops1))) ->
                In e2 (somes (snd (mem_run mem_init (MSetMax k :: ops2)))) ->
                fo_unwritten k e1 = false -> ranges_ok e1 e2.
Proof. exact mem_failover_pair. Qed.
Print Assumptions c13_memory_failover_pair.

(* finding 4: the heartbeat carries the largest key WRITTEN on the volume server
   (a key that was handed out, here 2), not the largest key handed out (5):
   keys assigned by the old leader and not yet written are handed out again *)
Theorem c13_memory_failover_written_refuted :
  exists ops1 ops2 k m s c,
    mem_fits mem_init ops1 = true /\ mem_fits mem_init (MSetMax k :: ops2) = true /\
    In (Ret m s c) (somes (snd (mem_run mem_init ops1))) /\ in_range k s c /\
    exists e1 e2, In e1 (somes (snd (mem_run mem_init ops1))) /\
                  In e2 (somes (snd (mem_run mem_init (MSetMax k :: ops2)))) /\ ~ ranges_ok e1 e2.
Proof. exact mem_failover_written_refuted. Qed.
Print Assumptions c13_memory_failover_written_refuted.

(* ---------------- etcd sequencer: partial + refuted ---------------- *)
(* any number n of masters sharing the etcd counter; every KeysAPI call is a
   separate step; calls may fail or lose their answer; masters may restart.
   The Go arithmetic is uint64; [etcd_fits]: no operation of the run wraps.

   Per pair, no whole-trace hypothesis: any two events of a run that carry
   neither tag (MRetErr: NextFileId returned 0 after an etcd error; MMax .. false:
   a SetMax that did not move the sequence past k) satisfy the property. *)
Theorem c13_etcd_pairs : forall n sched, etcd_fits n sched = true ->
  ForallOrdPairs pair_ok (etcd_trace n sched).
Proof. exact etcd_pairs_ok. Qed.
Print Assumptions c13_etcd_pairs.

(* per step, no hypothesis at all: the run up to the first step at which a
   uint64 operation wraps satisfies the per-pair property, and its outputs are
   the corresponding prefix of the whole run's outputs (all of it when the run fits) *)
Theorem c13_etcd_prefix : forall n sched,
  ForallOrdPairs pair_ok (etcd_trace n (firstn (etcd_fit_len n sched) sched)) /\
  snd (erun (einit n) (firstn (etcd_fit_len n sched) sched)) = firstn (etcd_fit_len n sched) (snd (erun (einit n) sched)) /\
  (etcd_fits n sched = true -> etcd_fit_len n sched = length sched).
Proof. exact etcd_prefix_ok. Qed.
Print Assumptions c13_etcd_prefix.

(* Key ranges never overlap unless an etcd error made NextFileId return 0. *)
Theorem c13_etcd_ranges : forall n sched, etcd_fits n sched = true ->
  etcd_err_trigger (etcd_trace n sched) = false ->
  ForallOrdPairs ranges_ok (map vis (etcd_trace n sched)).
Proof. exact etcd_ranges_ok. Qed.
Print Assumptions c13_etcd_ranges.

(* the whole property, when moreover every SetMax(k) was harmless: k below
   currentSeqId, or the etcd counter was already above k *)
Theorem c13_etcd_partial : forall n sched, etcd_fits n sched = true ->
  etcd_err_trigger (etcd_trace n sched) = false ->
  etcd_setmax_trigger (etcd_trace n sched) = false ->
  ForallOrdPairs ev_ok (map vis (etcd_trace n sched)).
Proof. exact etcd_partial_ok. Qed.
Print Assumptions c13_etcd_partial.

(* finding 0: SetMax(k), k > maxSeqId, then NextFileId hands out k itself *)
Theorem c13_etcd_refuted :
  exists n sched, etcd_fits n sched = true /\ etcd_err_trigger (etcd_trace n sched) = false /\
                  ~ ForallOrdPairs ev_ok (map vis (etcd_trace n sched)).
Proof. exact etcd_setmax_refuted_fit. Qed.
Print Assumptions c13_etcd_refuted.

(* finding 0, second form: SetMax(k) with currentSeqId <= k <= maxSeqId is ignored *)
Theorem c13_etcd_ignored_refuted :
  etcd_err_trigger (etcd_trace 1 wit_setmax_ignored) = false /\
  map vis (etcd_trace 1 wit_setmax_ignored) = [Ret 0 1 1; Max 0 300; Ret 0 2 1] /\
  ~ ForallOrdPairs ev_ok (map vis (etcd_trace 1 wit_setmax_ignored)).
Proof. exact etcd_setmax_ignored_refuted. Qed.
Print Assumptions c13_etcd_ignored_refuted.

(* finding 2: an etcd error makes NextFileId return key 0, every time *)
Theorem c13_etcd_err_refuted :
  exists n sched, etcd_fits n sched = true /\ etcd_setmax_trigger (etcd_trace n sched) = false /\
                  ~ ForallOrdPairs ev_ok (map vis (etcd_trace n sched)).
Proof. exact etcd_err_refuted_fit. Qed.
Print Assumptions c13_etcd_err_refuted.

(* finding 3: [etcd_fits] is needed.  The count of an assign request is an
   unchecked uint64: NextFileId(2^64-1) wraps currentSeqId+count below maxSeqId,
   no batch is fetched, currentSeqId moves backwards, key 1 is handed out twice;
   neither of the other two triggers fires *)
Theorem c13_etcd_wrap_refuted :
  etcd_err_trigger (etcd_trace 1 wit_wrap) = false /\
  etcd_setmax_trigger (etcd_trace 1 wit_wrap) = false /\
  map vis (etcd_trace 1 wit_wrap) = [Ret 0 1 1; Ret 0 2 18446744073709551615; Ret 0 1 1] /\
  etcd_fit_len 1 wit_wrap = 7%nat /\
  ~ ForallOrdPairs ev_ok (map vis (etcd_trace 1 wit_wrap)).
Proof. exact etcd_wrap_refuted. Qed.
Print Assumptions c13_etcd_wrap_refuted.

(* finding 3, second form: count = 2^64-500 makes reqSteps 0 and NextFileId returns key 0 *)
Theorem c13_etcd_wrap_zero_steps :
  map vis (etcd_trace 1 (boot 0 ++ [(0%nat, ANext 18446744073709551116)])) = [Ret 0 0 18446744073709551116].
Proof. exact etcd_wrap_zero_steps. Qed.
Print Assumptions c13_etcd_wrap_zero_steps.

(* ---------------- snowflake sequencer: partial + refuted ---------------- *)
(* several masters with distinct 10-bit node ids, monotone clocks; holds when
   every count is <= 1 (SetMax is a no-op for this sequencer: no claim) *)
Theorem c13_snowflake_partial : forall nids calls,
  sf_nodes_ok nids = true ->
  sf_clock_ok nids (sf_init nids) calls = true ->
  sf_count_trigger calls = false ->
  ForallOrdPairs ev_ok (somes (snd (sf_run nids (sf_init nids) calls))).
Proof. exact sf_partial_ok. Qed.
Print Assumptions c13_snowflake_partial.

(* finding 1: count is ignored; two NextFileId(3) in one millisecond overlap *)
Theorem c13_snowflake_refuted :
  exists nids calls, sf_nodes_ok nids = true /\ sf_clock_ok nids (sf_init nids) calls = true /\
                     ~ ForallOrdPairs ev_ok (somes (snd (sf_run nids (sf_init nids) calls))).
Proof. exact sf_count_refuted. Qed.
Print Assumptions c13_snowflake_refuted.

(* per pair, without the hypothesis that the node ids are pairwise different:
   two ids of one node, or of two nodes with different 10-bit node ids, never
   coincide (finding 5 is exactly the pairs left out) *)
Theorem c13_snowflake_pairs : forall nids calls,
  sf_ids_ok nids = true ->
  sf_clock_ok nids (sf_init nids) calls = true ->
  sf_count_trigger calls = false ->
  ForallOrdPairs (sf_pair_ok nids) (somes (snd (sf_run nids (sf_init nids) calls))).
Proof. exact sf_pairs_ok. Qed.
Print Assumptions c13_snowflake_pairs.

(* finding 5: distinct node ids are needed; the node id is hash(address) & 0x3ff *)
Theorem c13_snowflake_needs_distinct_nodes :
  exists nids calls, forallb (fun x => x <? 1024) nids = true /\
                     sf_clock_ok nids (sf_init nids) calls = true /\ sf_count_trigger calls = false /\
                     ~ ForallOrdPairs ev_ok (somes (snd (sf_run nids (sf_init nids) calls))).
Proof. exact sf_collision_refuted. Qed.
Print Assumptions c13_snowflake_needs_distinct_nodes.

(* the 12-bit roll-over inside one millisecond takes the spin branch *)
Example c13_snowflake_rollover :
  sf_generate 5 {| sf_time := 1000; sf_step := 4095 |} 1000 1001 =
  ({| sf_time := 1001; sf_step := 0 |}, sf_id 1001 5 0).
Proof. exact sf_rollover. Qed.
Print Assumptions c13_snowflake_rollover.

(* ---------------- volume ids: full under the growth lock ---------------- *)
(* any interleaving of NextVolumeId (read max / raft apply, which may fail) and
   heartbeats registering volumes, with at most one NextVolumeId in flight
   (VolumeGrowth.accessLock) and the 32-bit id space not exhausted *)
Theorem c13_volume_ids : forall sched, vlocked vinit sched = true -> vfits vinit sched = true ->
  StronglySorted N.lt (rets (snd (vrun vinit sched))).
Proof. exact vol_sorted. Qed.
Print Assumptions c13_volume_ids.

Theorem c13_volume_ids_unique : forall sched, vlocked vinit sched = true -> vfits vinit sched = true ->
  NoDup (rets (snd (vrun vinit sched))).
Proof. exact vol_unique. Qed.
Print Assumptions c13_volume_ids_unique.

(* after ANY run, a NextVolumeId returns an id above every volume id the
   master knew (from heartbeats or from earlier grants) when it read the max *)
Theorem c13_volume_ids_fresh : forall pre a hbs,
  let s := fst (vrun vinit pre) in
  vfind (vpend s) a = None -> vmax s + 1 < two32 ->
  exists next,
    snd (vrun s (VRead a :: map VHb hbs ++ [VApply a true])) =
      None :: map (fun _ => None) hbs ++ [Some (Ret a next 1)] /\
    forall v, In v (vknown pre (snd (vrun vinit pre))) -> v < next.
Proof. exact vol_fresh. Qed.
Print Assumptions c13_volume_ids_fresh.

(* the lock is needed; and a heartbeat between read and apply is not seen *)
Theorem c13_volume_ids_needs_lock :
  exists sched, vfits vinit sched = true /\ ~ NoDup (rets (snd (vrun vinit sched))).
Proof. exact vol_unlocked_refuted. Qed.
Print Assumptions c13_volume_ids_needs_lock.

Theorem c13_volume_ids_hb_between :
  vlocked vinit [VRead 0; VHb 7; VApply 0 true] = true /\
  snd (vrun vinit [VRead 0; VHb 7; VApply 0 true]) = [None; None; Some (Ret 0 1 1)].
Proof. exact vol_hb_between. Qed.
Print Assumptions c13_volume_ids_hb_between.

(* ---------------- concurrent grow requests: the lock is part of the machine ---------------- *)
(* model/SeqGrow.v: any number of GrowByCountAndType requests (any counts, raft
   errors, AllocateVolume failures) and heartbeats, interleaved in ANY order at the
   granularity start / accessLock.Lock() / NextVolumeId's read+proposal / raft
   apply.  [gstep true] is the locking of the code (the lock is held from the start
   of GrowByCountAndType to its return; a GLock step of another request is a no-op
   meanwhile): no hypothesis about the schedule other than the 32-bit id space.
   The trace property: an id handed out is above every id handed out before and
   not below any earlier proposal; a proposal is above every id handed out or
   reported by a heartbeat before it. *)
Theorem c13_grow_oracle_is_property : forall tr, gtrace_okb tr = true <-> ForallOrdPairs gev_ok tr.
Proof. exact gtrace_okb_spec. Qed.
Print Assumptions c13_grow_oracle_is_property.

Theorem c13_grow_trace : forall nact m0 sched, gfits true (ginit nact m0) sched = true ->
  ForallOrdPairs gev_ok (somes (snd (grow_run true (ginit nact m0) sched))).
Proof. exact grow_trace_ok. Qed.
Print Assumptions c13_grow_trace.

Theorem c13_grow_ids_increasing : forall nact m0 sched, gfits true (ginit nact m0) sched = true ->
  StronglySorted N.lt (grants (snd (grow_run true (ginit nact m0) sched))).
Proof. exact grow_sorted. Qed.
Print Assumptions c13_grow_ids_increasing.

Theorem c13_grow_ids_unique : forall nact m0 sched, gfits true (ginit nact m0) sched = true ->
  NoDup (grants (snd (grow_run true (ginit nact m0) sched))).
Proof. exact grow_unique. Qed.
Print Assumptions c13_grow_ids_unique.

(* the full statement for a lock that does not cover NextVolumeId ([gstep false],
   e.g. accessLock narrowed to findEmptySlotsForOneVolume) is false: two requests
   of two volumes on a topology with volumes 1-3 hand out 4, 4, 5, 5 *)
Theorem c13_grow_needs_lock_refuted :
  exists sched, gfits false (ginit 2 3) sched = true /\
                grants (snd (grow_run false (ginit 2 3) sched)) = [4; 4; 5; 5] /\
                ~ NoDup (grants (snd (grow_run false (ginit 2 3) sched))).
Proof. exact grow_unlocked_refuted. Qed.
Print Assumptions c13_grow_needs_lock_refuted.

(* ---------------- non-vacuity ---------------- *)
(* the same steps on the locked machine (request 1 stays blocked), then request 1
   with a heartbeat between its proposal and the apply and a failing AllocateVolume *)
Example c13_grow_example :
  let sched := grow_wit ++ [GLock 1; GRead 1; GHb 9; GApply 1 GOk; GRead 1; GApply 1 GAllocErr] in
  gfits true (ginit 2 3) sched = true /\
  somes (snd (grow_run true (ginit 2 3) sched)) =
    [EProp 0 4; EGrant 0 4; EProp 0 5; EGrant 0 5; EProp 1 6; ESeen 9; EGrant 1 6; EProp 1 10; EGrant 1 10] /\
  gallocs 1 sched (snd (grow_run true (ginit 2 3) sched)) = [(0%nat, 4); (0%nat, 5); (1%nat, 6); (1%nat, 10)].
Proof. exact grow_example. Qed.
Print Assumptions c13_grow_example.

Example c13_memory_example :
  let ops := [MNext 3; MSetMax 10; MNext 2; MSetMax 5; MNext 1] in
  mem_fits mem_init ops = true /\
  somes (snd (mem_run mem_init ops)) = [Ret 0 1 3; Max 0 10; Ret 0 11 2; Max 0 5; Ret 0 13 1].
Proof. exact mem_example. Qed.
Print Assumptions c13_memory_example.

Example c13_etcd_example_fits :
  etcd_fits 1 wit_setmax = true /\ etcd_fits 1 wit_setmax_ignored = true /\ etcd_fits 1 wit_err = true /\
  etcd_fits 2 ex_etcd = true.
Proof. exact etcd_wits_fit. Qed.
Print Assumptions c13_etcd_example_fits.

Example c13_etcd_example :
  etcd_err_trigger (etcd_trace 2 ex_etcd) = false /\
  etcd_setmax_trigger (etcd_trace 2 ex_etcd) = false /\
  map vis (etcd_trace 2 ex_etcd) = [Ret 1 1 3; Ret 0 501 2; Max 1 2; Ret 1 4 1; Ret 0 1501 5].
Proof. exact etcd_example. Qed.
Print Assumptions c13_etcd_example.

Example c13_snowflake_example :
  let calls := [ {| sc_node := 0; sc_count := 1; sc_now := 1000; sc_spin := 1001 |};
                 {| sc_node := 1; sc_count := 1; sc_now := 1000; sc_spin := 1001 |};
                 {| sc_node := 0; sc_count := 1; sc_now := 1000; sc_spin := 1001 |};
                 {| sc_node := 0; sc_count := 0; sc_now := 1002; sc_spin := 1003 |} ] in
  sf_nodes_ok [5; 6] = true /\ sf_clock_ok [5; 6] (sf_init [5; 6]) calls = true /\
  sf_count_trigger calls = false /\
  somes (snd (sf_run [5; 6] (sf_init [5; 6]) calls)) =
    [Ret 0 4194324480 1; Ret 1 4194328576 1; Ret 0 4194324481 1; Ret 0 4202713088 0].
Proof. exact sf_example. Qed.
Print Assumptions c13_snowflake_example.

Example c13_volume_example :
  let sched := [VHb 3; VRead 0; VHb 2; VApply 0 true; VRead 1; VApply 1 false; VRead 1; VApply 1 true] in
  vlocked vinit sched = true /\ vfits vinit sched = true /\ rets (snd (vrun vinit sched)) = [4; 5].
Proof. exact vol_example. Qed.
Print Assumptions c13_volume_example.
