(* C29 — S3 keys never escape their bucket.
   Only statements closed by [exact]; proofs live in proof/S3PathsProofs.v.

   `calls fx q` is the faithful model of the filer-facing calls the S3 gateway makes
   for request q (every object / multipart / copy / tagging / batch-delete route)
   against a filer holding the entries fx; `effective` is the path the filer acts on
   for a call (ServeMux 301 + followed redirect, util.JoinPath cleaning, or the raw
   string); `all_contained` says that every such path, cleaned, is the bucket
   directory or lies inside it (copy-source calls: the source bucket's directory),
   including every directory the empty-folder purge of a batch delete may remove. *)
From Coq Require Import List NArith Bool String.
From SW Require Import model.S3List model.S3Paths proof.S3PathsProofs.
Import ListNotations.
Local Open Scope string_scope.

(* FULL statement (every key, upload id, copy source, batch key, every fixture):
   REFUTED by the code as it is.  GET /b/x/../../other/obj reaches /buckets/other/obj. *)
Theorem c29_contained_refuted : exists fx q,
  bad_bucket (q_bucket q) = false /\ all_contained fx q = false /\
  existsb (fun c => match effective (snd c) with
                    | Some e => clean e =? "/buckets/other/obj"
                    | None => false
                    end) (calls fx q) = true.
Proof. exact contained_refuted. Qed.
Print Assumptions c29_contained_refuted.

(* ... and so do batch delete, abort-upload (upload id "../../other"), tagging and copy. *)
Theorem c29_contained_refuted_routes :
  all_contained fx_demo esc_get = false /\ all_contained fx_demo esc_batch = false /\
  all_contained fx_demo esc_abort = false /\ all_contained fx_demo esc_tag = false /\
  all_contained fx_demo esc_copy = false.
Proof. exact contained_refuted_all. Qed.
Print Assumptions c29_contained_refuted_routes.

(* Strongest true statement: without a ".." segment in the key, the upload id, the
   copy source (after the decodings the routes apply) or a batch key, every path of
   every route stays inside the bucket directory — for every fixture. *)
Theorem c29_contained_partial : forall fx q,
  bad_bucket (q_bucket q) = false -> req_dotdot q = false -> all_contained fx q = true.
Proof. exact contained_partial. Qed.
Print Assumptions c29_contained_partial.

(* The cleaning lemma behind it: lexical cleaning of  <bucket dir>/<rest>  never climbs
   above the bucket directory when <rest> has no ".." segment. *)
Theorem c29_clean_stays_under : forall b rest,
  bad_bucket b = false -> has_dotdot rest = false -> contained b (bucket_dir b ++ "/" ++ rest) = true.
Proof. exact clean_stays_under. Qed.
Print Assumptions c29_clean_stays_under.

Theorem c29_clean_idempotent : forall p, starts_with_slash p = true -> clean (clean p) = clean p.
Proof. exact clean_idempotent. Qed.
Print Assumptions c29_clean_idempotent.

Theorem c29_clean_no_dots : forall p, starts_with_slash p = true ->
  forall s, In s (norm_segs true (split_slash p)) -> s <> "" /\ s <> "." /\ s <> "..".
Proof. exact clean_rooted_no_dots. Qed.
Print Assumptions c29_clean_no_dots.

(* The multipart area: keys inside <bucket>/.uploads ARE addressable as ordinary
   objects (GET /b/.uploads/u1/0001.part): REFUTED ... *)
Theorem c29_uploads_hidden_refuted : exists fx q,
  bad_bucket (q_bucket q) = false /\ req_dotdot q = false /\ object_route (q_route q) = true /\
  uploads_hidden fx q = false.
Proof. exact uploads_hidden_refuted. Qed.
Print Assumptions c29_uploads_hidden_refuted.

(* ... and the strongest true statement: an object route whose key, copy source and
   batch keys have neither a ".." nor a ".uploads" segment never touches the area. *)
Theorem c29_uploads_hidden_partial : forall fx q,
  bad_bucket (q_bucket q) = false -> q_bucket q <> ".uploads" ->
  req_dotdot q = false -> req_uploads_seg q = false -> uploads_hidden fx q = true.
Proof. exact uploads_hidden_partial. Qed.
Print Assumptions c29_uploads_hidden_partial.

(* non-vacuity: an ordinary request with "." and empty segments satisfies the
   hypotheses, produces a call, and is contained *)
Example c29_example :
  let q := rq RPutTag "x/./y//z" "" "" [] in
  bad_bucket (q_bucket q) = false /\ req_dotdot q = false /\ req_uploads_seg q = false /\
  map snd (calls fx_demo q) = [GLookup "/buckets/b/x/./y/" "z"] /\
  all_contained fx_demo q = true /\ uploads_hidden fx_demo q = true.
Proof. exact partial_nonvacuous. Qed.
