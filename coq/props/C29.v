(* C29 — S3 keys never escape their bucket.
   Only statements closed by [exact]; proofs live in proof/S3PathsProofs.v.

   `calls fx q` is the faithful model of the filer-facing calls the S3 gateway makes
   for request q (every object / multipart / copy / tagging / batch-delete / listing /
   bucket / POST-upload route) against a filer holding the entries fx; `candidates fx q`
   are the data dependent calls it may make besides (empty-folder purge of a batch
   delete, descent of a listing); `effective` is the path the filer acts on for a call
   (ServeMux 301 + followed redirect, util.JoinPath cleaning, or the raw string);
   `call_contained` says that this path, cleaned, is the bucket directory or lies inside
   it (copy-source calls: the source bucket's directory).

   Trigger sets (decidable, on the request alone):
     req_climbs q          one of the strings the route builds its paths from, taken
                           relative to the bucket directory, climbs above it in a lexical
                           walk ("" and "." skipped, ".." pops) — finding 0;
     req_enters_uploads q  an object route whose walk climbs or puts ".uploads" directly
                           below the bucket directory at some point — finding 1;
     odd_bucket b          the bucket name has a "%" — finding 2 (the routes that proxy to
                           the filer's HTTP side decode the bucket name once more).
   The bucket names "", "." and ".." (`router_refuses`) reach no handler since the repair of
   the router pattern: `calls` = [] for them (c29_router_refuses, c29_dot_buckets_repaired);
   bad_bucket b = router_refuses b || odd_bucket b is kept for the older statements.
   (former finding 3, the POST upload joining bucket and key without "/", is repaired.) *)
From Coq Require Import List NArith Bool String.
From SW Require Import model.S3List model.S3Paths proof.S3PathsProofs proof.S3PathsCompat.
Import ListNotations.
Local Open Scope string_scope.

(* FULL statement (every key, upload id, copy source, batch key, every fixture):
   REFUTED by the code as it is.  GET /b/x/../../other/obj reaches /buckets/other/obj. *)
Theorem c29_contained_refuted : exists fx q,
  bad_bucket (q_bucket q) = false /\ all_contained fx q = false /\
  existsb (fun c => match effective (snd c) with
                    | Some e => clean e =? "/buckets/other/obj"
                    | None => false
                    end) (calls fx q) = true.
Proof. exact contained_refuted. Qed.
Print Assumptions c29_contained_refuted.

(* ... and so do batch delete, abort-upload (upload id "../../other"), tagging, copy and
   listing (prefix "../other/"). *)
Theorem c29_contained_refuted_routes :
  all_contained fx_demo esc_get = false /\ all_contained fx_demo esc_batch = false /\
  all_contained fx_demo esc_abort = false /\ all_contained fx_demo esc_tag = false /\
  all_contained fx_demo esc_copy = false /\ all_contained fx_demo esc_list = false.
Proof. exact contained_refuted_all. Qed.
Print Assumptions c29_contained_refuted_routes.

(* Strongest true statement: unless one of the route's relative strings CLIMBS above the
   bucket directory (a ".." segment that stays inside, as in x/../y, is fine), every
   path of every route stays inside the bucket directory — for every fixture. *)
Theorem c29_contained_partial : forall fx q,
  odd_bucket (q_bucket q) = false -> req_climbs q = false ->
  forallb call_contained (calls fx q) = true.
Proof. exact calls_contained_routed. Qed.
Print Assumptions c29_contained_partial.

(* the data dependent calls: the empty-folder purge after a batch delete and the
   directories a listing descends into (the fixture's names must be ordinary names) *)
Theorem c29_candidates_contained_partial : forall fx q,
  odd_bucket (q_bucket q) = false -> req_climbs q = false ->
  (route_needs_plain_fx (q_route q) = true -> fx_plain fx = true) ->
  candidates_contained fx q = true.
Proof. exact candidates_contained_routed. Qed.
Print Assumptions c29_candidates_contained_partial.

(* calls and purge together, as in the first version of this file *)
Theorem c29_all_contained_partial : forall fx q,
  odd_bucket (q_bucket q) = false -> req_climbs q = false ->
  (forall k, In k (q_keys q) -> climbs k = false) ->
  all_contained fx q = true.
Proof. exact all_contained_routed. Qed.
Print Assumptions c29_all_contained_partial.

(* The former, purely syntactic statement (no ".." segment anywhere) is a corollary:
   on the routes it was stated for, its trigger set contains the new one. *)
Theorem c29_trigger_narrowed : forall q,
  old_route (q_route q) = true -> bad_bucket (q_bucket q) = false ->
  req_dotdot q = false -> req_climbs q = false.
Proof. exact dotdot_covers_climbs. Qed.
Print Assumptions c29_trigger_narrowed.

Theorem c29_contained_partial_dotdot : forall fx q,
  old_route (q_route q) = true ->
  bad_bucket (q_bucket q) = false -> req_dotdot q = false -> all_contained fx q = true.
Proof. exact contained_partial. Qed.
Print Assumptions c29_contained_partial_dotdot.

(* The cleaning lemma behind it: lexical cleaning of  <bucket dir>/<rest>  never climbs
   above the bucket directory when the walk of <rest> does not. *)
Theorem c29_clean_stays_under : forall b rest,
  bad_bucket b = false -> climbs rest = false -> contained b (bucket_dir b ++ "/" ++ rest) = true.
Proof. exact clean_stays_under2. Qed.
Print Assumptions c29_clean_stays_under.

Theorem c29_clean_idempotent : forall p, starts_with_slash p = true -> clean (clean p) = clean p.
Proof. exact clean_idempotent. Qed.
Print Assumptions c29_clean_idempotent.

Theorem c29_clean_no_dots : forall p, starts_with_slash p = true ->
  forall s, In s (norm_segs true (split_slash p)) -> s <> "" /\ s <> "." /\ s <> "..".
Proof. exact clean_rooted_no_dots. Qed.
Print Assumptions c29_clean_no_dots.

(* The multipart area: keys inside <bucket>/.uploads ARE addressable as ordinary
   objects (GET /b/.uploads/u1/0001.part): REFUTED ... *)
Theorem c29_uploads_hidden_refuted : exists fx q,
  bad_bucket (q_bucket q) = false /\ req_climbs q = false /\ object_route (q_route q) = true /\
  uploads_hidden fx q = false.
Proof. exact uploads_hidden_refuted. Qed.
Print Assumptions c29_uploads_hidden_refuted.

(* ... also through a key with a ".." segment that does not climb: this request is inside
   the trigger set of finding 1 and outside that of finding 0 *)
Theorem c29_uploads_hidden_refuted_dotdot :
  req_dotdot up_get2 = true /\ req_climbs up_get2 = false /\ req_enters_uploads up_get2 = true /\
  all_contained fx_demo up_get2 = true /\ uploads_hidden fx_demo up_get2 = false.
Proof. exact uploads_hidden_refuted_dotdot. Qed.
Print Assumptions c29_uploads_hidden_refuted_dotdot.

(* ... and the strongest true statement, under ONE hypothesis on the request: an object
   route whose walk neither climbs nor passes through ".uploads" never touches the area *)
Theorem c29_uploads_hidden_partial : forall fx q,
  odd_bucket (q_bucket q) = false -> q_bucket q <> ".uploads" ->
  req_enters_uploads q = false -> uploads_hidden fx q = true.
Proof. exact uploads_hidden_routed. Qed.
Print Assumptions c29_uploads_hidden_partial.

(* neither does the empty-folder purge of its batch keys *)
Theorem c29_purge_hidden : forall b keys,
  bad_bucket b = false -> (forall k, In k keys -> enters_uploads k = false) ->
  existsb (fun c => call_in_uploads (b, c)) (purge_candidates b keys) = false.
Proof. exact purge_hidden. Qed.
Print Assumptions c29_purge_hidden.

(* the former statement of this clause, as a corollary *)
Theorem c29_uploads_hidden_partial_dotdot : forall fx q,
  old_route (q_route q) = true ->
  bad_bucket (q_bucket q) = false -> q_bucket q <> ".uploads" ->
  req_dotdot q = false -> req_uploads_seg q = false -> uploads_hidden fx q = true.
Proof. exact uploads_hidden_partial. Qed.
Print Assumptions c29_uploads_hidden_partial_dotdot.

(* The bucket name itself.  The router's {bucket} pattern
   [^/.][^/]*|\.[^/.][^/]*|\.\.[^/]+  (bucket_pattern mirrors it alternative by alternative)
   refuses exactly "", "." and ".." among the names without "/" ... *)
Theorem c29_router_pattern : forall b,
  bucket_pattern b = false <-> (b = "" \/ b = "." \/ b = ".." \/ no_slash b = false).
Proof. exact pattern_refuses_exactly. Qed.
Print Assumptions c29_router_pattern.

(* ... and a refused name reaches no handler: no filer-facing call at all *)
Theorem c29_router_refuses : forall fx q, router_refuses (q_bucket q) = true ->
  calls fx q = [] /\ candidates fx q = [].
Proof. exact refused_no_calls. Qed.
Print Assumptions c29_router_refuses.

(* Former finding "bucket names '.' and '..'", REPAIRED in /repo (fix: the S3 router must not
   accept '.' or '..' as a bucket name): DELETE /. looked up and recursively deleted /buckets
   itself and GET /../etc/secret was served from /etc/secret — this is still what the
   handlers would do (handler_calls), but the router no longer reaches them: the former
   witnesses make no call.  ("...", ".b", "..b" are ordinary names and still accepted.) *)
Theorem c29_dot_buckets_repaired :
  bucket_pattern "." = false /\ bucket_pattern ".." = false /\ bucket_pattern "" = false /\
  bucket_pattern "..." = true /\ bucket_pattern ".b" = true /\ bucket_pattern "..b" = true /\
  map snd (handler_calls fx_demo bad_delete) = [GLookup "/buckets" "."; GDelete "/buckets" "." true] /\
  effective (GDelete "/buckets" "." true) = Some "/buckets" /\
  map (fun c => effective (snd c)) (handler_calls fx_demo bad_get) = [None; Some "/etc/secret"] /\
  calls fx_demo bad_delete = [] /\ candidates fx_demo bad_delete = [] /\
  calls fx_demo bad_get = [] /\ candidates fx_demo bad_get = [].
Proof. exact dot_buckets_repaired. Qed.
Print Assumptions c29_dot_buckets_repaired.

(* Finding 2: a bucket name with a "%" (accepted by the router; PUT /%2562 creates
   /buckets/%62).  The routes that proxy to the filer's HTTP side escape the key but not the
   bucket name, so the filer decodes it once more: GET / DELETE /%2562/obj act on
   /buckets/b/obj, the POST upload writes into bucket b, a name decoding to ".." leaves
   /buckets; the gRPC routes use the literal name; a bad escape sends nothing.  REFUTED for
   such names although the key does not climb; every partial theorem assumes odd_bucket = false. *)
Theorem c29_odd_bucket_refuted :
  router_refuses (q_bucket odd_get) = false /\ odd_bucket (q_bucket odd_get) = true /\
  req_climbs odd_get = false /\ req_enters_uploads odd_get = false /\
  map snd (calls fx_demo odd_get) = [Http MGet "/buckets/b/obj"] /\
  forallb call_contained (calls fx_demo odd_get) = false /\
  map snd (calls fx_demo odd_delete) = [Http MDelete "/buckets/b/obj"] /\
  forallb call_contained (calls fx_demo odd_delete) = false /\
  map snd (calls fx_demo odd_post) = [Http MPut "/buckets/b/posted"] /\
  forallb call_contained (calls fx_demo odd_post) = false /\
  map snd (calls fx_demo odd_head_bucket) = [GLookup "/buckets" "%62"] /\
  forallb call_contained (calls fx_demo odd_head_bucket) = true /\
  map (fun c => effective (snd c)) (calls fx_demo odd_get_dd) = [None; Some "/etc/secret"] /\
  calls fx_demo odd_get_badesc = [].
Proof. exact odd_bucket_refuted. Qed.
Print Assumptions c29_odd_bucket_refuted.

(* the check attributes a case to finding 2 only on the routes that put the bucket name into
   a filer URL (odd_request); on the gRPC-only routes an odd bucket is addressed by its
   literal name and stays inside /buckets/<literal name> (shown on every such route) *)
Theorem c29_odd_request_narrower : forall q, odd_request q = true -> odd_bucket (q_bucket q) = true.
Proof. exact odd_request_odd. Qed.
Print Assumptions c29_odd_request_narrower.

Example c29_example_odd_grpc :
  forallb (fun q => negb (odd_request q) && odd_bucket (q_bucket q) &&
                    negb (Nat.eqb (List.length (calls fx_odd q)) 0) &&
                    forallb call_contained (calls fx_odd q) && candidates_contained fx_odd q) odd_grpc_reqs = true /\
  map snd (calls fx_odd (mk_req RComplete "%62" "x/done" "u1" "0001.part" "" [])) =
    [GList "/buckets/%62/.uploads/u1"; GLookup "/buckets/%62/.uploads" "u1"; GCreate "/buckets/%62/x" "done" false;
     GDelete "/buckets/%62/.uploads" "u1" true].
Proof. exact odd_grpc_routes_contained. Qed.
Print Assumptions c29_example_odd_grpc.

(* Former finding 3, REPAIRED in /repo (fix: POST policy upload must keep the bucket and
   the form key apart): POST /oth with key = er/obj used to write /buckets/other/obj; the
   POST route is now covered by c29_contained_partial without any extra hypothesis, and
   the former witness stays inside its bucket. *)
Theorem c29_postpolicy_repaired :
  bad_bucket (q_bucket post_noslash) = false /\ req_climbs post_noslash = false /\
  map snd (calls fx_demo post_noslash) = [Http MPut "/buckets/oth/er/obj"] /\
  forallb call_contained (calls fx_demo post_noslash) = true.
Proof. exact postpolicy_repaired. Qed.
Print Assumptions c29_postpolicy_repaired.

(* non-vacuity: an ordinary request with "." and empty segments satisfies the
   hypotheses, produces a call, and is contained *)
Example c29_example :
  let q := rq RPutTag "x/./y//z" "" "" [] in
  bad_bucket (q_bucket q) = false /\ req_dotdot q = false /\ req_uploads_seg q = false /\
  req_climbs q = false /\ req_enters_uploads q = false /\
  map snd (calls fx_demo q) = [GLookup "/buckets/b/x/./y/" "z"] /\
  all_contained fx_demo q = true /\ uploads_hidden fx_demo q = true.
Proof. exact partial_nonvacuous. Qed.
Print Assumptions c29_example.

(* a key with ".." segments that never climbs is covered by the narrowed theorems *)
Example c29_example_narrowed :
  let q := rq RDelTag "x/../x/z/../y" "" "" [] in
  req_dotdot q = true /\ req_climbs q = false /\ req_enters_uploads q = false /\
  map (fun c => effective (snd c)) (calls fx_demo q) = [Some "/buckets/b/x/y"] /\
  all_contained fx_demo q = true.
Proof. exact narrowed_nonvacuous. Qed.
Print Assumptions c29_example_narrowed.

(* a listing with a marker chain: its heads, what it may descend into, all contained *)
Example c29_example_list :
  let q := rq (RList true "x/" "z/w" true) "" "" "" [] in
  fx_plain fx_demo = true /\ req_climbs q = false /\
  map snd (calls fx_demo q) = [GList "/buckets/b/x/z"; GList "/buckets/b/x"] /\
  candidates fx_demo q = [GLookup "/buckets" "b"; GList "/buckets/b/x/z"; GDelete "/buckets/b/x" "z" true] /\
  candidates_contained fx_demo q = true.
Proof. exact list_nonvacuous. Qed.
Print Assumptions c29_example_list.
