(* C17 — File content is the last-writer-wins overlay of its chunks.
   Only statements closed by [exact]; proofs live in proof/Chunks{Proofs,Overlay,Read,Manifest}.v.

   Vocabulary (model/Chunks.v):
     winner chunks p        the chunk with the greatest (mtime, key) among those covering p
     overlay_src chunks p   Some (file id, offset inside that chunk) of byte p, None in a hole
     overlay src chunks p   the byte itself (0 in a hole)
     src_of_visibles vs p / src_of_views ws p   the same question asked to a visible-interval / view list
   Ties: the sort in NonOverlappingVisibleIntervals is not stable, so every theorem about
   the overlay assumes pairwise distinct (mtime, key) pairs ([NoDup (map key d)]); under
   that assumption the sorted order is unique (c17_sort_irrelevant), whatever sort.Slice does. *)
From Coq Require Import List NArith ZArith Bool Permutation Sorted.
From SW Require Import model.Chunks proof.ChunksProofs proof.ChunksOverlay proof.ChunksRead proof.ChunksManifest
  proof.ChunksStream proof.ChunksCsr proof.ChunksWrap model.ChunksSeq proof.ChunksSeq.
Import ListNotations.
Local Open Scope N_scope.

(* ---- the reference is what it claims to be ---- *)
Theorem c17_winner_is_newest : forall l p,
  match winner l p with
  | Some c => In c l /\ covers c p = true /\
              forall c', In c' l -> covers c' p = true -> chunk_ltb c c' = false
  | None => forall c, In c l -> covers c p = false
  end.
Proof. exact winner_spec. Qed.
Print Assumptions c17_winner_is_newest.

Theorem c17_sort_irrelevant : forall l s, Permutation l s ->
  StronglySorted (fun a b => chunk_ltb b a = false) s -> NoDup (map key l) -> s = sort_chunks l.
Proof. exact sort_chunks_unique. Qed.
Print Assumptions c17_sort_irrelevant.

(* ---- invariant: after ANY sequence of merges of non-empty chunks the visible list is sorted
   by start, pairwise disjoint, and made of non-empty intervals ---- *)
Theorem c17_visibles_sorted_disjoint : forall cs vs0,
  StronglySorted (fun a b => v_stop a <= v_start b) vs0 /\ Forall (fun v => v_start v < v_stop v) vs0 ->
  Forall (fun c => 0 < c_size c) cs ->
  StronglySorted (fun a b => v_stop a <= v_start b) (fold_left merge_into_visibles cs vs0) /\
  Forall (fun v => v_start v < v_stop v) (fold_left merge_into_visibles cs vs0).
Proof. exact merges_keep_invariant. Qed.
Print Assumptions c17_visibles_sorted_disjoint.

(* ... in particular the result of NonOverlappingVisibleIntervals (manifests included; chunks of
   size 0 never reach the merge: the resolver drops them) *)
Theorem c17_visibles_of_chunks : forall fuel ms chunks s e d m,
  resolve fuel ms s e chunks = Some (d, m) ->
  StronglySorted (fun a b => v_stop a <= v_start b) (fst (non_overlapping_visible_intervals fuel ms chunks s e)) /\
  Forall (fun v => v_start v < v_stop v) (fst (non_overlapping_visible_intervals fuel ms chunks s e)).
Proof. exact non_overlapping_ok. Qed.
Print Assumptions c17_visibles_of_chunks.

(* ---- the central theorem: at EVERY position the visible intervals answer like the overlay of
   the (resolved) data chunks: same file id, same offset inside the chunk, holes where no chunk is ---- *)
Theorem c17_overlay : forall fuel ms chunks s e d m,
  resolve fuel ms s e chunks = Some (d, m) -> NoDup (map key d) ->
  forall p, src_of_visibles (fst (non_overlapping_visible_intervals fuel ms chunks s e)) p = overlay_src d p.
Proof. exact non_overlapping_overlay. Qed.
Print Assumptions c17_overlay.

(* for a plain data-chunk list and any window [s,e): inside the window the answer is the overlay of
   ALL the chunks *)
Theorem c17_overlay_window : forall f ms chunks s e p,
  Forall (fun c => c_manifest c = false) chunks -> NoDup (map key chunks) ->
  s <= p -> p < e ->
  src_of_visibles (fst (non_overlapping_visible_intervals (S f) ms chunks s e)) p = overlay_src chunks p.
Proof. exact non_overlapping_overlay_data. Qed.
Print Assumptions c17_overlay_window.

(* ---- views: sorted, disjoint, non-empty, and they tile exactly the covered bytes of the window
   with the right chunk-relative offsets ---- *)
Theorem c17_views : forall vs off size p,
  StronglySorted (fun a b => v_stop a <= v_start b) vs /\ Forall (fun v => v_start v < v_stop v) vs ->
  src_of_views (view_from_visibles vs off size) p =
  if (off <=? p) && (p <? off + size) then src_of_visibles vs p else None.
Proof. exact views_src. Qed.
Print Assumptions c17_views.

Theorem c17_views_sorted_disjoint : forall vs off size,
  StronglySorted (fun a b => v_stop a <= v_start b) vs /\ Forall (fun v => v_start v < v_stop v) vs ->
  StronglySorted (fun a b => cv_logic a + cv_size a <= cv_logic b) (view_from_visibles vs off size) /\
  Forall (fun w => cv_logic w < cv_logic w + cv_size w) (view_from_visibles vs off size).
Proof. exact views_ok_of. Qed.
Print Assumptions c17_views_sorted_disjoint.

(* ---- ReadAt (with the hole-zeroing repair), FULL: for every caller buffer (any prior content)
   and offset: n = min(len, fileSize - offset); the first n cells hold the overlay (zeros in
   holes); the other cells are untouched; EOF iff the window reaches the file size ---- *)
Theorem c17_read_at : forall src fuel ms chunks d m fs buf off,
  resolve fuel ms 0 max_int64 chunks = Some (d, m) -> NoDup (map key d) ->
  (forall c, In c d -> N.of_nat (length (src (c_fid c))) = c_size c) ->
  (forall c, In c d -> c_stop c <= fs) -> fs <= max_int64 ->
  let r := read_at src (view_from_chunks fuel ms chunks 0 max_int64) fs buf off in
  let len := N.of_nat (length buf) in
  rr_n r = N.min len (fs - off) /\
  length (rr_buf r) = length buf /\
  rr_eof r = (fs <=? off + len) /\
  forall i, (i < length buf)%nat ->
    nth i (rr_buf r) 0 = if N.of_nat i <? rr_n r then overlay src d (off + N.of_nat i) else nth i buf 0.
Proof. exact read_at_chunks. Qed.
Print Assumptions c17_read_at.

(* ---- ChunkReadAt is a STATE MACHINE across ReadAt calls (model/ChunksSeq.v): the one-entry last-chunk
   cache (lastChunkFileId / lastChunkData), the chunk cache (GetChunkSlice / GetChunk / SetChunk, the
   prefetch of the next view) and chunk fetches that FAIL per (call, chunk) (volume lookup error, HTTP
   error, short body).  [ra_run] runs a sequence of calls (each: optional Close(), the file ids whose
   fetch fails during the call, the caller's buffer, the offset) on ONE reader. ---- *)

(* the cache invariant: before every call of every sequence, whatever failed before, lastChunkData is
   the content of lastChunkFileId, or the reader has no last chunk and no data *)
Theorem c17_last_chunk_invariant : forall src memo slices V fs ops s,
  ra_inv src s -> Forall (ra_inv src) (ra_states src memo slices V fs ops s).
Proof. exact ra_states_inv. Qed.
Print Assumptions c17_last_chunk_invariant.

(* one call from any state that satisfies the invariant, any chunk cache mode, any fetch oracle: the
   invariant survives; without a fetch error the call IS the pure failure-free read_at (c17_read_at);
   a fetch error means that the fetch of some view's chunk was made to fail during this call *)
Theorem c17_read_call : forall src memo slices fails V fs buf off s, ra_inv src s ->
  let r := fst (read_at_s src memo slices fails V fs buf off s) in
  ra_inv src (snd (read_at_s src memo slices fails V fs buf off s)) /\
  (rs_err r = false ->
     rs_buf r = rr_buf (read_at src V fs buf off) /\ rs_n r = rr_n (read_at src V fs buf off) /\
     rs_eof r = rr_eof (read_at src V fs buf off)) /\
  (rs_err r = true -> exists w, In w V /\ fails (cv_fid w) = true).
Proof. exact read_at_s_sim. Qed.
Print Assumptions c17_read_call.

(* FULL, over all call sequences and all failure scripts: EVERY call of the sequence
   - leaves the buffer length alone, holds the overlay (zeros in holes) in its first n cells and
     touches no other cell;
   - without a fetch error: n = min(len, fileSize - offset), EOF iff the window reaches the file size
     (in particular a retry after a failed call returns the right bytes, never those of the chunk
     read before);
   - with a fetch error (n and the buffer are what doReadAt had delivered before the failing fetch):
     n <= min(len, fileSize - offset), no EOF, and the fetch of one of the file's chunks was made to
     fail during THIS call (so a call without failing fetches returns no error) *)
Theorem c17_read_seq : forall src memo slices fuel ms chunks d m fs,
  resolve fuel ms 0 max_int64 chunks = Some (d, m) -> NoDup (map key d) ->
  (forall c, In c d -> N.of_nat (length (src (c_fid c))) = c_size c) ->
  (forall c, In c d -> c_stop c <= fs) -> fs <= max_int64 ->
  forall ops s, ra_inv src s ->
  Forall2 (fun o r =>
     let buf := op_buf o in
     let off := op_off o in
     let len := N.of_nat (length buf) in
     length (rs_buf r) = length buf /\
     (forall i, (i < length buf)%nat ->
        nth i (rs_buf r) 0 = if N.of_nat i <? rs_n r then overlay src d (off + N.of_nat i) else nth i buf 0) /\
     (if rs_err r
      then rs_n r <= N.min len (fs - off) /\ rs_eof r = false /\ exists c, In c d /\ In (c_fid c) (op_failing o)
      else rs_n r = N.min len (fs - off) /\ rs_eof r = (fs <=? off + len)))
    ops (ra_run src memo slices (view_from_chunks fuel ms chunks 0 max_int64) fs ops s).
Proof. exact read_seq_chunks. Qed.
Print Assumptions c17_read_seq.

(* a fresh reader and a reader after Close() satisfy the invariant *)
Theorem c17_reader_starts_clean : forall src s, ra_inv src ra_new /\ ra_inv src (ra_close s).
Proof. exact (fun src s => conj (ra_inv_new src) (ra_inv_close src s)). Qed.
Print Assumptions c17_reader_starts_clean.

(* non-vacuity: chunk 1 = [0,2), chunk 2 = [5,7) of a 9-byte file, no chunk cache: read chunk 2; the
   fetch of chunk 1 fails (n = 0, buffer untouched); the retry returns chunk 1's bytes; a read of the
   whole file while chunk 2's fetch fails delivers 5 bytes and the error; the retry delivers all 9 *)
Example c17_read_seq_example :
  ra_run seq_example_src false false (view_from_chunks 1 [] seq_example_chunks 0 max_int64) 9 seq_example_ops ra_new =
  [ {| rs_buf := [21;22]; rs_n := 2; rs_eof := false; rs_err := false |};
    {| rs_buf := [238;238]; rs_n := 0; rs_eof := false; rs_err := true |};
    {| rs_buf := [11;12]; rs_n := 2; rs_eof := false; rs_err := false |};
    {| rs_buf := [11;12;0;0;0;238;238;238;238]; rs_n := 5; rs_eof := false; rs_err := true |};
    {| rs_buf := [11;12;0;0;0;21;22;0;0]; rs_n := 9; rs_eof := true; rs_err := false |} ].
Proof. exact seq_example. Qed.
Print Assumptions c17_read_seq_example.

(* ---- StreamContent (the filer's HTTP GET path; with the hole-padding repair), FULL: for every
   chunk list, offset and size the bytes written are exactly the overlay of the requested range
   [offset, offset+size) — zeros in holes at the start, in the middle and at the end;
   size = MaxInt64 means "up to TotalSize(chunks)" ---- *)
Theorem c17_stream_content : forall src fuel ms chunks d m off size,
  resolve fuel ms off (off + size) chunks = Some (d, m) -> NoDup (map key d) ->
  (forall c, In c d -> N.of_nat (length (src (c_fid c))) = c_size c) ->
  off + size <= max_int64 ->
  (size = max_int64 -> forall c, In c d -> c_stop c <= total_size chunks) ->
  total_size chunks <= max_int64 ->
  let stop := if size =? max_int64 then total_size chunks else off + size in
  stream_content src fuel ms chunks off size =
  map (overlay src d) (map (fun i => off + N.of_nat i) (seq 0 (N.to_nat (stop - off)))).
Proof. exact stream_content_spec. Qed.
Print Assumptions c17_stream_content.

(* the witness of the defect that was repaired: chunks [0,2) and [5,7), GET of bytes 0..6 *)
Example c17_stream_example :
  let chunks := [Chunk 1 0 2 1 false; Chunk 2 5 2 2 false] in
  let src := fun f => match f with 1 => [11;12] | 2 => [21;22] | _ => [] end in
  stream_content src 1 [] chunks 0 7 = [11;12;0;0;0;21;22] /\
  stream_content src 1 [] chunks 3 6 = [0;0;21;22;0;0] /\
  stream_content src 1 [] chunks 0 max_int64 = [11;12;0;0;0;21;22].
Proof. exact stream_example. Qed.
Print Assumptions c17_stream_example.

(* ---- the same for EVERY offset and size up to MaxInt64: Go's int64 sum offset+size wraps when it
   exceeds MaxInt64; the repaired ViewFromChunks / ViewFromVisibleIntervals / StreamContent then mean
   "to the end" (model: clamp_stop, view_from_chunks_w, stream_content_w).  No wrap hypothesis. ---- *)
Theorem c17_stream_content_w : forall src fuel ms chunks d m off size,
  off <= max_int64 -> size <= max_int64 ->
  resolve fuel ms off (clamp_stop off size) chunks = Some (d, m) -> NoDup (map key d) ->
  (forall c, In c d -> N.of_nat (length (src (c_fid c))) = c_size c) ->
  ((size =? max_int64) || (max_int64 <? off + size) = true -> forall c, In c d -> c_stop c <= total_size chunks) ->
  total_size chunks <= max_int64 ->
  let stop := if (size =? max_int64) || (max_int64 <? off + size) then total_size chunks else off + size in
  stream_content_w src fuel ms chunks off size = map (overlay src d) (nrange off stop).
Proof. exact stream_content_w_spec. Qed.
Print Assumptions c17_stream_content_w.

(* without a wrap the wrap-aware functions are the ones of the theorems above *)
Theorem c17_views_nowrap : forall fuel ms chunks off size, off + size <= max_int64 ->
  view_from_chunks_w fuel ms chunks off size = view_from_chunks fuel ms chunks off size.
Proof. exact view_from_chunks_w_nowrap. Qed.
Print Assumptions c17_views_nowrap.

(* the audit's wrap witnesses: StreamContent(3, MaxInt64) and windows ending one past MaxInt64 *)
Example c17_stream_wrap_example :
  let chunks := [Chunk 1 0 2 1 false; Chunk 2 5 2 2 false] in
  let src := fun f => match f with 1 => [11;12] | 2 => [21;22] | _ => [] end in
  stream_content_w src 1 [] chunks 3 max_int64 = [0;0;21;22] /\
  stream_content_w src 1 [] chunks 6 (max_int64 - 5) = [22] /\
  view_from_chunks_w 1 [] chunks 6 (max_int64 - 3) = [View 2 1 1 6 2].
Proof. exact stream_wrap_example. Qed.
Print Assumptions c17_stream_wrap_example.

(* ---- ReadAll (with the hole repair): the overlay of [0, E), and no chunk has a byte at or after E ---- *)
Theorem c17_read_all : forall src fuel ms chunks d m,
  resolve fuel ms 0 max_int64 chunks = Some (d, m) -> NoDup (map key d) ->
  (forall c, In c d -> N.of_nat (length (src (c_fid c))) = c_size c) ->
  exists E, read_all src fuel ms chunks = map (overlay src d) (nrange 0 E) /\
            (forall p, E <= p -> p < max_int64 -> overlay_src d p = None).
Proof. exact read_all_spec. Qed.
Print Assumptions c17_read_all.

(* ---- ChunkStreamReader (stream.go; readers of the filer's log files) was NOT repaired.
   FULL statement (every sequence of Reads on a fresh reader delivers the overlay of
   [0, TotalSize)) is FALSE — known finding 0: a hole is dropped; Seek(5) inside the file fails ---- *)
Theorem c17_stream_reader_refuted :
  exists src chunks wants,
    resolve 1 [] 0 max_int64 chunks = Some (chunks, []) /\ NoDup (map key chunks) /\
    (forall c, In c chunks -> N.of_nat (length (src (c_fid c))) = c_size c) /\
    map (overlay src chunks) (nrange 0 (total_size chunks)) = [11;12;0;0;0;21;22] /\
    csr_run src (view_from_chunks 1 [] chunks 0 max_int64) csr_new wants = Some [11;12;21;22] /\
    (exists s', csr_seek src (view_from_chunks 1 [] chunks 0 max_int64) csr_new 5 0 = (5%Z, true, s')).
Proof. exact csr_stream_refuted. Qed.
Print Assumptions c17_stream_reader_refuted.

(* PARTIAL, under the decidable hypothesis "the views are contiguous from offset 0" (no hole): EVERY
   sequence of Read calls (any buffer sizes) delivers the overlay of [0, E) in order, never panics,
   and E is the end of the content *)
Theorem c17_stream_reader_partial : forall src fuel ms chunks d m,
  resolve fuel ms 0 max_int64 chunks = Some (d, m) -> NoDup (map key d) ->
  (forall c, In c d -> N.of_nat (length (src (c_fid c))) = c_size c) ->
  let V := view_from_chunks fuel ms chunks 0 max_int64 in
  views_gapless 0 V = true ->
  exists E,
    (forall wants, csr_run src V csr_new wants =
                   Some (firstn (fold_right Nat.add 0%nat wants) (map (overlay src d) (nrange 0 E)))) /\
    (forall p, E <= p -> p < max_int64 -> overlay_src d p = None).
Proof. exact csr_stream_partial. Qed.
Print Assumptions c17_stream_reader_partial.

(* each single Read, from any reader state with a non-negative buffer position: the next bytes of what
   is left, io.EOF iff fewer than asked were left *)
Theorem c17_stream_reader_read : forall src views s want, (0 <= cs_bpos s)%Z ->
  exists s', csr_read src views s want =
      CsrOk (firstn want (csr_rest src views s)) (length (csr_rest src views s) <? want)%nat s' /\
    (0 <= cs_bpos s')%Z /\ csr_rest src views s' = skipn want (csr_rest src views s).
Proof. exact csr_read_spec. Qed.
Print Assumptions c17_stream_reader_read.

(* known finding 1: Seek to the END of a hole-free file, then Read: the first bytes of the file
   instead of io.EOF *)
Theorem c17_stream_seek_refuted :
  exists src chunks,
    resolve 1 [] 0 max_int64 chunks = Some (chunks, []) /\ NoDup (map key chunks) /\
    views_gapless 0 (view_from_chunks 1 [] chunks 0 max_int64) = true /\ total_size chunks = 4 /\
    let V := view_from_chunks 1 [] chunks 0 max_int64 in
    let '(pos, err, s') := csr_seek src V csr_new 4 0 in
    pos = 4%Z /\ err = false /\ exists s'', csr_read src V s' 2 = CsrOk [11;12] false s''.
Proof. exact csr_seek_refuted. Qed.
Print Assumptions c17_stream_seek_refuted.

(* PARTIAL: Seek(off, io.SeekStart) strictly inside a hole-free file (off < E), on a reader whose
   buffer is empty (a fresh one in particular): no error, and every following sequence of Reads
   delivers the overlay of [off, E) *)
Theorem c17_stream_seek_partial : forall src fuel ms chunks d m s off,
  resolve fuel ms 0 max_int64 chunks = Some (d, m) -> NoDup (map key d) ->
  (forall c, In c d -> N.of_nat (length (src (c_fid c))) = c_size c) ->
  let V := view_from_chunks fuel ms chunks 0 max_int64 in
  views_gapless 0 V = true -> csr_empty s = true ->
  exists E, off < E ->
    (let '(pos, err, s') := csr_seek src V s (Z.of_N off) 0 in
     pos = Z.of_N off /\ err = false /\
     forall wants, csr_run src V s' wants =
                   Some (firstn (fold_right Nat.add 0%nat wants) (map (overlay src d) (nrange off E)))) /\
    (forall p, E <= p -> p < max_int64 -> overlay_src d p = None).
Proof. exact csr_seek_partial. Qed.
Print Assumptions c17_stream_seek_partial.

(* FileSize(entry) >= TotalSize(chunks) gives the file-size hypothesis *)
Theorem c17_total_size : forall l c, In c l -> c_stop c <= total_size l.
Proof. exact total_size_ge. Qed.
Print Assumptions c17_total_size.

(* ---- compaction keeps the content and loses no chunk ---- *)
Theorem c17_compact_same : forall f ms chunks,
  Forall (fun c => c_manifest c = false) chunks ->
  Forall (fun c => c_stop c <= max_int64) chunks ->
  NoDup (map key chunks) ->
  Permutation (fst (compact_file_chunks (S f) ms chunks) ++ snd (compact_file_chunks (S f) ms chunks)) chunks /\
  forall p, overlay_src (fst (compact_file_chunks (S f) ms chunks)) p = overlay_src chunks p.
Proof. exact compact_same. Qed.
Print Assumptions c17_compact_same.

(* without the [c_manifest = false] hypothesis the statement is FALSE — known finding 2:
   CompactFileChunks on a list that still holds a manifest chunk puts the manifest (and so all the
   content it lists) into the garbage.  Trigger: existsb c_manifest chunks *)
Theorem c17_compact_manifest_refuted :
  exists ms chunks d m,
    resolve 2 ms 0 max_int64 chunks = Some (d, m) /\ NoDup (map key d) /\
    existsb c_manifest chunks = true /\
    compact_file_chunks 2 ms chunks = ([], chunks) /\
    overlay_src d 0 <> None /\
    compact_entry 2 ms chunks = (chunks, []).
Proof. exact compact_manifest_refuted. Qed.
Print Assumptions c17_compact_manifest_refuted.

(* PARTIAL / what both callers do (SeparateManifestChunks, compact the data chunks, put the manifest
   chunks back): for ANY entry, manifests included, no chunk is lost and the overlay of the top-level
   data chunks is unchanged *)
Theorem c17_compact_entry : forall f ms chunks,
  Forall (fun c => c_stop c <= max_int64) chunks ->
  NoDup (map key (filter (fun c => negb (c_manifest c)) chunks)) ->
  Permutation (fst (compact_entry (S f) ms chunks) ++ snd (compact_entry (S f) ms chunks)) chunks /\
  forall p, overlay_src (filter (fun c => negb (c_manifest c)) (fst (compact_entry (S f) ms chunks))) p =
            overlay_src (filter (fun c => negb (c_manifest c)) chunks) p.
Proof. exact compact_entry_same. Qed.
Print Assumptions c17_compact_entry.

(* ---- manifest conversion (any merge factor, any window) resolves to the same data chunks ---- *)
Theorem c17_manifest_same : forall k next mt chunks fuel ms s e d m,
  resolve fuel ms s e chunks = Some (d, m) ->
  (forall j v, ms_lookup ms j = Some v -> j < next) ->
  exists d' m',
    resolve (S fuel) (snd (maybe_manifestize k next mt chunks) ++ ms) s e
            (fst (maybe_manifestize k next mt chunks)) = Some (d', m') /\
    Permutation d d'.
Proof. exact manifestize_same. Qed.
Print Assumptions c17_manifest_same.

(* ... and the overlay only depends on the multiset of data chunks, so reads are unchanged *)
Theorem c17_overlay_perm : forall d d' p, Permutation d d' -> NoDup (map key d) ->
  overlay_src d p = overlay_src d' p.
Proof. exact overlay_perm. Qed.
Print Assumptions c17_overlay_perm.

Theorem c17_manifest_overlay : forall k next mt chunks fuel ms s e d m,
  resolve fuel ms s e chunks = Some (d, m) ->
  (forall j v, ms_lookup ms j = Some v -> j < next) ->
  NoDup (map key d) ->
  forall p,
    src_of_visibles
      (fst (non_overlapping_visible_intervals (S fuel) (snd (maybe_manifestize k next mt chunks) ++ ms)
              (fst (maybe_manifestize k next mt chunks)) s e)) p = overlay_src d p.
Proof. exact manifestize_overlay. Qed.
Print Assumptions c17_manifest_overlay.

(* ---- non-vacuity: a nested-manifest file with a hole, read into a dirty buffer ---- *)
Example c17_example :
  let b := Chunk 2 2 4 3 false in let c := Chunk 3 5 3 2 false in let d0 := Chunk 4 1 2 1 false in
  let a := Chunk 1 0 4 4 false in let z := Chunk 5 12 2 5 false in
  let inner := Chunk 60 2 6 0 true in let outer := Chunk 61 1 7 0 true in
  let ms := [(61, [inner; d0]); (60, [b; c])] in
  let chunks := [outer; a; z] in
  let src := fun f => match f with 1 => [10;11;12;13] | 2 => [20;21;22;23] | 3 => [30;31;32] | 4 => [40;41]
                                 | 5 => [50;51] | _ => [] end in
  resolve 3 ms 0 max_int64 chunks = Some ([b; c; d0; a; z], [outer; inner]) /\
  NoDup (map key [b; c; d0; a; z]) /\
  let r := read_at src (view_from_chunks 3 ms chunks 0 max_int64) 15 (repeat 238 17) 0 in
  rr_buf r = [10;11;12;13;22;23;31;32;0;0;0;0;50;51;0;238;238] /\ rr_n r = 15 /\ rr_eof r = true /\
  fst (compact_file_chunks 1 [] [b; c; d0; a; z]) = [b; c; a; z] /\
  fst (maybe_manifestize 2 100 9 chunks) = [outer; Chunk 100 0 14 9 true].
Proof. exact nested_example. Qed.
Print Assumptions c17_example.
