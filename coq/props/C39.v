(* C39 — The mount's node cache follows renames and deletes.
   Only statements closed by [exact]; proofs live in proof/FsCacheProofs.v and
   proof/FsCacheRef.v.

   Model: model/FsCache.v ([tree], [set]/[ensure]/[get]/[delete]/[move] mirror
   weed/filesys/fscache.go).  Two references, both flat (no tree):
     [rmap]    the map path -> node with subtree delete and subtree move (the
               property's "reference tree": a path exists iff something is
               bound at or below it);
     [pstate]  the same map plus the set of directories that exist, so that
               directories emptied by a delete or a move are remembered. *)
From Coq Require Import String List NArith Bool.
From SW Require Import model.FsCache proof.FsCacheProofs proof.FsCacheRef.
Import ListNotations.
Local Open Scope string_scope.
Local Open Scope list_scope.

(* FULL statement against the flat map ("after any sequence ... every path
   returns exactly the reference's node") is FALSE for the code as it is: an
   emptied directory is still a movable source, and moving it wipes the target.
   Witness (3 operations): Set /a/x; Move /a/x /b; Move /a /b; lookup /b. *)
Theorem c39_refines_reference_tree_refuted : exists root ops q,
  forallb valid_op ops = true /\
  get (run (init root) ops) q <> r_get (r_run (r_init root) ops) q.
Proof. exact refines_reference_refuted3. Qed.
Print Assumptions c39_refines_reference_tree_refuted.

(* FULL statement against the reference that remembers emptied directories: for
   EVERY valid history, every lookup of every path equals the reference's, and an
   FsNode (bound or placeholder) exists exactly at the reference's directories.
   So the ghost move is the ONLY way the cache deviates from the flat map. *)
Theorem c39_refines_placeholder_reference : forall root ops, forallb valid_op ops = true ->
  forall q, get (run (init root) ops) q = p_get (p_run (p_init root) ops) q
         /\ has (run (init root) ops) q = p_has (p_run (p_init root) ops) q.
Proof. exact refines_placeholder_reference. Qed.
Print Assumptions c39_refines_placeholder_reference.

(* ... and every value handed back to the caller (Get/Ensure node, whether Ensure
   ran its generator, whether Move returned a non-nil FsNode) equals that reference's. *)
Theorem c39_placeholder_returns_agree : forall root ops o, forallb valid_op ops = true ->
  snd (step (run (init root) ops) o) = snd (p_step (p_run (p_init root) ops) o).
Proof. exact placeholder_returns_agree. Qed.
Print Assumptions c39_placeholder_returns_agree.

(* Strongest true statement against the flat map: for every operation sequence
   that never moves an emptied directory onto a path holding nodes, every lookup
   of every path equals the flat map's.  The trigger [ptrigger] is decided on the
   two references alone (no model tree). *)
Theorem c39_refines_reference_tree_partial : forall root ops,
  forallb valid_op ops = true ->
  ptrigger root ops = false ->
  forall q, get (run (init root) ops) q = r_get (r_run (r_init root) ops) q.
Proof. exact refines_reference_partial_p. Qed.
Print Assumptions c39_refines_reference_tree_partial.

(* The same per step, from ANY point of ANY valid history (ghost moves may have
   happened before): a step that is not itself a ghost move acts on the cache
   content exactly as the flat-map operation acts on that content. *)
Theorem c39_step_refines_reference_partial : forall root ops o,
  forallb valid_op ops = true -> valid_op o = true ->
  let t := run (init root) ops in let s := p_run (p_init root) ops in
  pghost_here s o = false ->
  forall q, get (fst (step t o)) q = r_get (fst (r_step (p_vals s) o)) q.
Proof. exact step_refines_reference_partial. Qed.
Print Assumptions c39_step_refines_reference_partial.

(* The trigger is exact: the first ghost move of a history always shows in some
   lookup, and so does a ghost move at any later point (against the flat map
   restarted from the cache content). *)
Theorem c39_trigger_exact : forall root ops o,
  forallb valid_op ops = true -> valid_op o = true ->
  ptrigger root ops = false ->
  pghost_move (p_run (p_init root) ops) (r_run (r_init root) ops) o = true ->
  exists q, get (run (init root) (ops ++ [o])) q <> r_get (r_run (r_init root) (ops ++ [o])) q.
Proof. exact trigger_exact. Qed.
Print Assumptions c39_trigger_exact.

Theorem c39_ghost_step_differs : forall root ops o,
  forallb valid_op ops = true -> valid_op o = true ->
  let t := run (init root) ops in let s := p_run (p_init root) ops in
  pghost_here s o = true ->
  exists q, get (fst (step t o)) q <> r_get (fst (r_step (p_vals s) o)) q.
Proof. exact ghost_here_differs. Qed.
Print Assumptions c39_ghost_step_differs.

(* Returned values against the flat map: the node returned by Get/Ensure, whether
   Ensure ran its generator; Move's non-nil result agrees whenever the source
   directory exists exactly when the flat map has something at or below it. *)
Theorem c39_returns_agree : forall root ops o, forallb valid_op ops = true ->
  ptrigger root ops = false ->
  let t := run (init root) ops in let m := r_run (r_init root) ops in
  let s := p_run (p_init root) ops in
  match o with
  | Move old _ => p_has s old = r_has m old -> snd (step t o) = snd (r_step m o)
  | _ => snd (step t o) = snd (r_step m o)
  end.
Proof. exact returns_agree_p. Qed.
Print Assumptions c39_returns_agree.

(* Unconditional facts about single operations, for every tree and every path,
   on lookups AND on FsNode existence (placeholders):
   moved subtrees appear under the new path and nowhere else ... *)
Theorem c39_move_relocates : forall t old new q, old <> [] -> new <> [] ->
  has t old = true ->
  get (fst (move t old new)) q =
    (if is_prefix new q then get t (old ++ skipn (length new) q)
     else if is_prefix old q then None else get t q)
  /\ has (fst (move t old new)) q =
    (if is_prefix new q then has t (old ++ skipn (length new) q)
     else (if is_prefix old q then false else has t q) || is_prefix q new)
  /\ snd (move t old new) = true.
Proof. exact move_relocates_has. Qed.
Print Assumptions c39_move_relocates.

(* ... a Move with a missing source changes nothing ... *)
Theorem c39_move_missing_source : forall t old new,
  has t old = false -> move t old new = (t, false).
Proof. exact move_missing_has. Qed.
Print Assumptions c39_move_missing_source.

(* ... deleted subtrees are gone (nodes and directories) and nothing else is touched ... *)
Theorem c39_delete_removes_subtree : forall p t q,
  get (delete t p) q = if is_prefix p q then None else get t q.
Proof. exact delete_removes_subtree. Qed.
Print Assumptions c39_delete_removes_subtree.

Theorem c39_delete_removes_dirs : forall p t q, q <> [] ->
  has (delete t p) q = if is_prefix p q then false else has t q.
Proof. exact delete_removes_dirs. Qed.
Print Assumptions c39_delete_removes_dirs.

(* ... a set is seen at its path and only there, and creates the directories above it ... *)
Theorem c39_set_get : forall p t v q,
  get (set t p v) q = if path_eqb q p then Some v else get t q.
Proof. exact get_set. Qed.
Print Assumptions c39_set_get.

Theorem c39_set_creates_dirs : forall p t v q, has (set t p v) q = is_prefix q p || has t q.
Proof. exact set_creates_dirs. Qed.
Print Assumptions c39_set_creates_dirs.

(* ... and EnsureFsNode runs its generator exactly when the lookup is nil. *)
Theorem c39_ensure_generator : forall t p fresh,
  snd (ensure t p fresh) = match get t p with Some _ => false | None => true end.
Proof. exact ensure_calls_generator_iff_absent. Qed.
Print Assumptions c39_ensure_generator.

(* non-vacuity: a long valid history with moves into the own subtree, onto an
   existing directory, of a subtree, and deletes stays outside the trigger
   (lookups and placeholder existence computed); both refutation witnesses are
   inside it; after a ghost move one later step is a ghost move and another is not *)
Example c39_example :
  forallb valid_op example_ops = true /\ ptrigger (Some 0%N) example_ops = false /\
  map (get (run (init (Some 0%N)) example_ops)) [[]; ["a"]; ["a"; "x"]; ["b"]; ["b"; "y"]; ["b"; "x"]]
    = [Some 0%N; None; Some 1%N; Some 2%N; Some 3%N; None] /\
  map (has (run (init (Some 0%N)) example_ops)) [["a"]; ["a"; "x"]; ["a"; "x"; "x"]; ["c"]]
    = [true; true; false; false] /\
  ptrigger None witness3 = true /\ ptrigger None witness_ops = true /\
  (let ops := witness3 ++ [Set_ ["a"; "y"] 7%N] in
   pghost_here (p_run (p_init None) ops) (Move ["a"] ["c"]) = false /\
   pghost_here (p_run (p_init None) ops) (Move ["b"] ["a"; "y"]) = true).
Proof. exact example_history. Qed.
Print Assumptions c39_example.
