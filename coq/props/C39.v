(* C39 — The mount's node cache follows renames and deletes.
   Only statements closed by [exact]; proofs live in proof/FsCacheProofs.v.

   Model: model/FsCache.v ([tree], [set]/[ensure]/[get]/[delete]/[move] mirror
   weed/filesys/fscache.go).  Reference: the flat map path -> node ([rmap]) with
   subtree delete and subtree move. *)
From Coq Require Import String List NArith Bool.
From SW Require Import model.FsCache proof.FsCacheProofs.
Import ListNotations.
Local Open Scope string_scope.
Local Open Scope list_scope.

(* FULL statement ("after any sequence ... every path returns exactly the
   reference's node") is FALSE for the code as it is: a placeholder FsNode left
   behind by a delete is still a movable source, and moving it wipes the target. *)
Theorem c39_refines_reference_tree_refuted : exists root ops q,
  forallb valid_op ops = true /\
  get (run (init root) ops) q <> r_get (r_run (r_init root) ops) q.
Proof. exact refines_reference_refuted. Qed.
Print Assumptions c39_refines_reference_tree_refuted.

(* Strongest true statement: for every operation sequence that never moves such
   an empty placeholder onto a path holding nodes (decidable [trigger]), every
   lookup of every path equals the reference tree's. *)
Theorem c39_refines_reference_tree_partial : forall root ops,
  forallb valid_op ops = true ->
  trigger root ops = false ->
  forall q, get (run (init root) ops) q = r_get (r_run (r_init root) ops) q.
Proof. exact refines_reference_partial. Qed.
Print Assumptions c39_refines_reference_tree_partial.

(* ... and so do the values handed back to the caller: the node returned by
   Get/Ensure, whether Ensure ran its generator; Move's non-nil result agrees
   whenever the source is not a bare placeholder. *)
Theorem c39_returns_agree : forall root ops o, forallb valid_op ops = true ->
  trigger root ops = false ->
  let t := run (init root) ops in let m := r_run (r_init root) ops in
  match o with
  | Move old _ => has t old = r_has m old -> snd (step t o) = snd (r_step m o)
  | _ => snd (step t o) = snd (r_step m o)
  end.
Proof. exact returns_agree. Qed.
Print Assumptions c39_returns_agree.

(* Unconditional facts about single operations, for every tree and every path:
   moved subtrees appear under the new path and nowhere else ... *)
Theorem c39_move_relocates : forall t old new src q, old <> [] -> new <> [] ->
  node_at t old = Some src ->
  get (fst (move t old new)) q =
    if is_prefix new q then get t (old ++ skipn (length new) q)
    else if is_prefix old q then None else get t q.
Proof. exact move_relocates. Qed.
Print Assumptions c39_move_relocates.

(* ... a Move with a missing source changes nothing ... *)
Theorem c39_move_missing_source : forall t old new,
  node_at t old = None -> move t old new = (t, false).
Proof. exact move_missing. Qed.
Print Assumptions c39_move_missing_source.

(* ... deleted subtrees are gone and nothing else is touched ... *)
Theorem c39_delete_removes_subtree : forall p t q,
  get (delete t p) q = if is_prefix p q then None else get t q.
Proof. exact delete_removes_subtree. Qed.
Print Assumptions c39_delete_removes_subtree.

(* ... a set is seen at its path and only there ... *)
Theorem c39_set_get : forall p t v q,
  get (set t p v) q = if path_eqb q p then Some v else get t q.
Proof. exact get_set. Qed.
Print Assumptions c39_set_get.

(* ... and EnsureFsNode runs its generator exactly when the lookup is nil. *)
Theorem c39_ensure_generator : forall t p fresh,
  snd (ensure t p fresh) = match get t p with Some _ => false | None => true end.
Proof. exact ensure_calls_generator_iff_absent. Qed.
Print Assumptions c39_ensure_generator.

(* non-vacuity: a long valid history with moves into the own subtree, onto an
   existing directory, of a subtree, and deletes stays outside the trigger, and
   the witness of the refutation is inside it *)
Example c39_example :
  let ops := [Set_ ["a"] 1%N; Set_ ["a"; "x"] 2%N; Set_ ["a"; "x"; "y"] 3%N; Set_ ["b"; "x"] 4%N;
              Move ["a"] ["a"; "x"]; Move ["a"; "x"; "x"] ["b"]; Delete ["a"; "x"; "x"];
              Ensure ["b"; "y"] 5%N; Move ["b"] ["b"]; Move ["nope"] ["b"]] in
  forallb valid_op ops = true /\ trigger (Some 0%N) ops = false /\
  map (get (run (init (Some 0%N)) ops)) [[]; ["a"]; ["a"; "x"]; ["b"]; ["b"; "y"]; ["b"; "x"]]
    = [Some 0%N; None; Some 1%N; Some 2%N; Some 3%N; None] /\
  trigger None witness_ops = true.
Proof. vm_compute. repeat split; reflexivity. Qed.
