(* C19 — Directory listings are exact, ordered and paginate completely.
   Only statements closed by [exact]; proofs live in proof/Listing*.v.

   Model (model/Listing.v): a directory = its children (name, expired?) in byte order
   ([wf]); stores: Lvl = the leveldb/leveldb2/leveldb3 rule, Gen = a store without native
   prefix listing (FilerStoreWrapper.prefixFilterEntries); list_entries =
   Filer.ListDirectoryEntries, stream_list = Filer.StreamListDirectoryEntries,
   list_valid = Filer.doListValidEntries, paginate / paginate_stream = the two ways the
   servers follow "the last returned name".  spec_names = the matching live children in
   name order.

   The full statement ([exact_at] for every well-formed directory and request) does NOT
   hold for the code as it is: six refutations below, each reproduced on the real Filer.
   The strongest true statement is proved under decidable triggers:
     pat_trigger prefix pat     (static: pattern without wildcard / '?' before '*' / prefix AND pattern)
     run_trigger s d request    (computed by the model: leveldb start below the prefix range,
                                 generic-path re-query, refill restarted from "", no termination) *)
From Coq Require Import List NArith Bool String Ascii Arith.
From SW Require Import model.Listing proof.ListingBase proof.ListingStore proof.ListingPattern
                       proof.ListingProofs proof.ListingWitness.
Import ListNotations.
Local Open Scope string_scope.
Local Open Scope list_scope.

(* ---------- c19_exact ---------- *)
(* partial: outside the triggers a page is exactly the first [limit] matches in name order,
   hasMore tells whether more exist, and only expired children were removed from the directory *)
Theorem c19_exact_partial : forall s d start incl limit prefix pat excl,
  wf d -> pat_trigger prefix pat = false -> run_trigger s d start incl limit prefix pat excl = false ->
  exact_at s d start incl limit prefix pat excl.
Proof. exact exact_partial. Qed.
Print Assumptions c19_exact_partial.

Theorem c19_exact_partial_state : forall s d start incl limit prefix pat excl names more r,
  wf d -> pat_trigger prefix pat = false ->
  list_entries s d start incl limit prefix pat excl = Some (names, more, r) ->
  r_flag r = false -> r_restart r = false ->
  let M := spec_names d start incl prefix pat excl in
  names = firstn limit M /\ more = Nat.ltb limit (List.length M) /\
  wf (r_dir r) /\ filter elive (r_dir r) = filter elive d.
Proof. exact list_entries_exact. Qed.
Print Assumptions c19_exact_partial_state.

(* the matches are in strictly increasing name order: no duplicates *)
Theorem c19_matches_nodup : forall d start incl prefix pat excl,
  wf d -> NoDup (spec_names d start incl prefix pat excl).
Proof. exact spec_names_nodup. Qed.
Print Assumptions c19_matches_nodup.

(* every store call, seen alone: leveldb rule and generic path return the first L candidates
   and a lastFileName from which the rest follows, unless their trigger fires *)
Theorem c19_store_scan : forall s d start incl L p w,
  wf d -> wrapper_list s d start incl L p = Some w -> w_flag w = false -> scan_ok d start incl L p w.
Proof. exact wrapper_list_spec. Qed.
Print Assumptions c19_store_scan.

(* outside the static triggers the implementation's per-name test is the requested one *)
Theorem c19_pattern_split : forall prefix pat excl n,
  pat_trigger prefix pat = false ->
  String.prefix (eff_prefix prefix pat) n && negb (missed (eff_prefix prefix pat) (snd (split_pattern pat)) excl n) =
  spec_match prefix pat excl n.
Proof. exact match_agrees. Qed.
Print Assumptions c19_pattern_split.

(* refuted: the full statement fails inside each trigger set (witnesses confirmed on the real Filer) *)
Theorem c19_exact_refuted_nowild :
  let d := live_dir ["a"; "ab"; "b"] in
  wf d /\ trig_nowild "ab" = true /\ run_trigger Lvl d "" false 10 "" "ab" "" = false /\
  list_entries Lvl d "" false 10 "" "ab" "" <> None /\
  ~ exact_at Lvl d "" false 10 "" "ab" "".
Proof. exact refuted_nowild. Qed.
Print Assumptions c19_exact_refuted_nowild.

Theorem c19_exact_refuted_qprefix :
  let d := live_dir ["ab"; "abc"; "bb"] in
  wf d /\ trig_qprefix "?b*" = true /\ trig_nowild "?b*" = false /\
  run_trigger Lvl d "" false 10 "" "?b*" "" = false /\
  spec_names d "" false "" "?b*" "" = ["ab"; "abc"; "bb"] /\
  ~ exact_at Lvl d "" false 10 "" "?b*" "".
Proof. exact refuted_qprefix. Qed.
Print Assumptions c19_exact_refuted_qprefix.

Theorem c19_exact_refuted_start_below_prefix :
  let d := live_dir ["a"; "b"] in
  wf d /\ pat_trigger "b" "" = false /\ lvl_below d "a" "b" = true /\
  spec_names d "a" false "b" "" "" = ["b"] /\
  ~ exact_at Lvl d "a" false 10 "b" "" "" /\
  exact_at Gen d "a" false 10 "b" "" "".
Proof. exact refuted_start_below_prefix. Qed.
Print Assumptions c19_exact_refuted_start_below_prefix.

Theorem c19_exact_refuted_generic_hang :
  let d := live_dir ["a"; "b"; "c"; "d"] in
  wf d /\ pat_trigger "d" "" = false /\
  list_entries Gen d "" false 0 "d" "" "" = None /\
  ~ exact_at Gen d "" false 0 "d" "" "" /\
  exact_at Lvl d "" false 0 "d" "" "".
Proof. exact refuted_generic_hang. Qed.
Print Assumptions c19_exact_refuted_generic_hang.

(* that None is a divergence of prefixFilterEntries' loop for EVERY amount of fuel *)
Theorem c19_generic_hang_diverges :
  let d := live_dir ["a"; "b"; "c"; "d"] in
  forall fuel, pf_loop fuel d 1 "d" (last_name (mem_list d "" false 1)) 0 (mem_list d "" false 1) [] false = None.
Proof. exact generic_hang_diverges. Qed.
Print Assumptions c19_generic_hang_diverges.

Theorem c19_generic_requery_stuck : forall fuel d L p last count batch acc rq,
  Nat.ltb count L = true -> batch <> [] ->
  filter (fun e => String.prefix p (ename e)) batch = [] ->
  mem_list d last false L = batch ->
  pf_loop fuel d L p last count batch acc rq = None.
Proof. exact pf_loop_stuck. Qed.
Print Assumptions c19_generic_requery_stuck.

Theorem c19_exact_refuted_generic_dup :
  let d := [("a", false); ("b", true); ("b0", true); ("ba", false); ("bb", false)] in
  wf d /\ pat_trigger "b" "" = false /\
  (exists more r, list_entries Gen d "" false 3 "b" "" "" = Some (["ba"; "bb"; "bb"], more, r) /\ r_flag r = true) /\
  spec_names d "" false "b" "" "" = ["ba"; "bb"] /\
  ~ exact_at Gen d "" false 3 "b" "" "".
Proof. exact refuted_generic_dup. Qed.
Print Assumptions c19_exact_refuted_generic_dup.

Theorem c19_exact_refuted_restart :
  let d := [("a", false); ("b", false); ("c", true)] in
  wf d /\ pat_trigger "" "*a" = false /\
  (exists more r, list_entries Lvl d "" false 2 "" "*a" "" = Some (["a"; "a"], more, r) /\
                  r_flag r = false /\ r_restart r = true) /\
  spec_names d "" false "" "*a" "" = ["a"] /\
  ~ exact_at Lvl d "" false 2 "" "*a" "" /\ ~ exact_at Gen d "" false 2 "" "*a" "".
Proof. exact refuted_restart. Qed.
Print Assumptions c19_exact_refuted_restart.

Theorem c19_exact_refuted_prefix_and_pattern :
  let d := live_dir ["a"; "ab"; "b"] in
  wf d /\ trig_both "b" "a*" = true /\ trig_nowild "a*" = false /\ trig_qprefix "a*" = false /\
  run_trigger Lvl d "" false 10 "b" "a*" "" = false /\
  spec_names d "" false "b" "a*" "" = [] /\
  ~ exact_at Lvl d "" false 10 "b" "a*" "".
Proof. exact refuted_prefix_and_pattern. Qed.
Print Assumptions c19_exact_refuted_prefix_and_pattern.

(* ---------- c19_paginate ---------- *)
(* partial: following the last returned entry's name (exclusive) while hasMore enumerates the
   matches exactly once and in order, whatever the number of pages and the expired children
   deleted on the way (page size >= 1; no trigger fired in any page) *)
Theorem c19_paginate_partial : forall fuel s d start incl limit prefix pat excl pages,
  wf d -> pat_trigger prefix pat = false -> 0 < limit ->
  paginate fuel s d start incl limit prefix pat excl = Some (pages, false, false) ->
  List.concat pages = spec_names d start incl prefix pat excl.
Proof. exact paginate_exact. Qed.
Print Assumptions c19_paginate_partial.

(* the same for the gRPC server's loop, which follows StreamListDirectoryEntries' lastFileName *)
Theorem c19_paginate_stream_partial : forall fuel s d start incl limit prefix pages,
  wf d -> 0 < limit ->
  paginate_stream fuel s d start incl limit prefix = Some (pages, false, false) ->
  List.concat pages = spec_names d start incl prefix "" "".
Proof. exact paginate_stream_exact. Qed.
Print Assumptions c19_paginate_stream_partial.

Theorem c19_paginate_refuted :
  let d := [("a", false); ("b", false); ("c", true)] in
  wf d /\ pat_trigger "" "*a" = false /\
  paginate 10 Lvl d "" false 2 "" "*a" "" = Some ([["a"; "a"]], false, true) /\
  spec_names d "" false "" "*a" "" = ["a"].
Proof. exact refuted_paginate. Qed.
Print Assumptions c19_paginate_refuted.

Theorem c19_paginate_stream_refuted :
  let d := [("a", false); ("b", true)] in
  wf d /\
  paginate_stream 10 Lvl d "" false 3 "" = Some ([["a"]; ["a"]], false, true) /\
  paginate_stream 10 Gen d "" false 3 "" = Some ([["a"]; ["a"]], false, true) /\
  spec_names d "" false "" "" "" = ["a"].
Proof. exact refuted_paginate_stream. Qed.
Print Assumptions c19_paginate_stream_refuted.

(* ---------- c19_expired_refill ---------- *)
(* doListValidEntries: the page of valid entries is the first [limit] LIVE candidates, however
   many expired ones are interleaved; exactly expired children disappear from the directory *)
Theorem c19_expired_refill : forall s d start incl limit p r,
  wf d -> list_valid s d start incl limit p = Some r -> r_flag r = false ->
  r_names r = firstn limit (map ename (filter elive (cand start incl p d))) /\
  filter elive (r_dir r) = filter elive d /\
  (forall e, In e d -> In e (r_dir r) \/ eexp e = true) /\
  (forall e, In e (r_dir r) -> In e d).
Proof. exact list_valid_refill. Qed.
Print Assumptions c19_expired_refill.

(* full on the leveldb stores when listing from the beginning: no trigger can fire *)
Theorem c19_expired_refill_leveldb : forall d incl limit p r,
  wf d -> list_valid Lvl d "" incl limit p = Some r -> r_flag r = false.
Proof. exact lvl_list_valid_flag. Qed.
Print Assumptions c19_expired_refill_leveldb.

(* ---------- the executable well-formedness test used by the check implies wf ---------- *)
Theorem c19_wfb_sound : forall d, wfb d = true -> wf d.
Proof. exact wfb_wf. Qed.
Print Assumptions c19_wfb_sound.

(* ---------- non-vacuity ---------- *)
Example c19_example_exact :
  wf ex_dir /\
  pat_trigger "" "a*" = false /\ run_trigger Lvl ex_dir "a" false 1 "" "a*" "" = false /\
  (exists r, list_entries Lvl ex_dir "a" false 1 "" "a*" "" = Some (["ab"], false, r) /\
             map ename (r_dir r) = ["a"; "ab"; "b"; "b0"; "ba"; "c"]) /\
  pat_trigger "b" "" = false /\ run_trigger Lvl ex_dir "" false 2 "b" "" "" = false /\
  (exists r, list_entries Lvl ex_dir "" false 2 "b" "" "" = Some (["b"; "ba"], false, r)).
Proof. exact exact_example. Qed.

Example c19_example_paginate :
  paginate 10 Lvl ex_dir "" false 2 "" "" "a*" = Some ([["b"; "ba"]; ["c"]], false, false) /\
  paginate 10 Gen ex_dir "" false 2 "" "" "a*" = Some ([["b"; "ba"]; ["c"]], false, false) /\
  paginate_stream 10 Lvl ex_dir "" false 2 "" = Some ([["a"; "ab"]; ["b"; "ba"]; ["c"]], false, false) /\
  spec_names ex_dir "" false "" "" "a*" = ["b"; "ba"; "c"].
Proof. exact paginate_example. Qed.

Example c19_example_refill :
  exists r, list_valid Lvl ex_dir "" true 3 "a" = Some r /\ r_flag r = false /\
            r_names r = ["a"; "ab"] /\ map ename (r_dir r) = ["a"; "ab"; "b"; "b0"; "ba"; "c"].
Proof. exact refill_example. Qed.
