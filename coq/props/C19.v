(* C19 — Directory listings are exact, ordered and paginate completely.
   Only statements closed by [exact]; proofs live in proof/Listing*.v.

   Model (model/Listing.v): a directory = its children (name, expired?) in byte order
   ([wf]); stores: Lvl = the leveldb/leveldb2/leveldb3 rule, Gen = a store without native
   prefix listing (FilerStoreWrapper.prefixFilterEntries); list_entries =
   Filer.ListDirectoryEntries, stream_list = Filer.StreamListDirectoryEntries,
   list_valid = Filer.doListValidEntries, paginate / paginate_stream = the two ways the
   servers follow "the last returned name".  spec_names = the matching live children in
   name order.  The model's None = the call does not terminate; every theorem below
   includes termination.

   After the repairs (splitPattern; leveldb seek guard; prefixFilterEntries' lastFileName;
   refills keep lastFileName; a stopped callback is not called again) the full statement holds for every store, directory and
   request, except when a prefix AND a name pattern are given together (the code documents
   them as mutually exclusive) AND the pattern's literal prefix is empty or does not extend the
   requested prefix: finding 0, decidable trigger [trig_narrow] (a subset of [trig_both]).
   Callbacks that stop a listing early: c19_stop_exact, c19_grpc_limit (full; formerly finding 1). *)
From Coq Require Import List NArith Bool String Ascii Arith.
From SW Require Import model.Listing proof.ListingBase proof.ListingStore proof.ListingScan proof.ListingPattern
                       proof.ListingProofs proof.ListingWitness proof.ListingStop proof.ListingStopSpec.
Import ListNotations.
Local Open Scope string_scope.
Local Open Scope list_scope.

(* ---------- c19_exact ---------- *)
(* partial (trigger: prefix and pattern together): the call terminates, the page is exactly
   the first [limit] matches in name order, hasMore tells whether more exist, and only
   expired children were removed from the directory *)
Theorem c19_exact_partial : forall s d start incl limit prefix pat excl,
  wf d -> trig_narrow prefix pat = false ->
  exists names more r,
    list_entries s d start incl limit prefix pat excl = Some (names, more, r) /\
    names = firstn limit (spec_names d start incl prefix pat excl) /\
    more = Nat.ltb limit (List.length (spec_names d start incl prefix pat excl)) /\
    wf (r_dir r) /\ filter elive (r_dir r) = filter elive d.
Proof. exact list_entries_exact. Qed.
Print Assumptions c19_exact_partial.

(* the matches are in strictly increasing name order: no duplicates *)
Theorem c19_matches_nodup : forall d start incl prefix pat excl,
  wf d -> NoDup (spec_names d start incl prefix pat excl).
Proof. exact spec_names_nodup. Qed.
Print Assumptions c19_matches_nodup.

(* full: every store call (leveldb rule and generic path) terminates, hands the first L
   candidates to the callback and returns a lastFileName from which the rest follows *)
Theorem c19_store_scan : forall s d start incl L p, wf d ->
  exists w, wrapper_list s d start incl L p = Some w /\ scan_ok d start incl L p w.
Proof. exact wrapper_list_spec. Qed.
Print Assumptions c19_store_scan.

(* full: StreamListDirectoryEntries terminates and emits the first [limit] entries of the
   selection the implementation computes (for every prefix/pattern combination) *)
Theorem c19_stream : forall s d start incl limit prefix pat excl, wf d ->
  exists r, stream_list s d start incl limit prefix pat excl = Some r /\
    r_names r = map ename (firstn limit (impl_sel start incl prefix pat excl d)) /\
    wf (r_dir r) /\ filter elive (r_dir r) = filter elive d.
Proof. exact stream_list_spec. Qed.
Print Assumptions c19_stream.

(* full: the returned lastFileName of a prefix/pattern/exclusion listing is a correct place to
   continue from (exclusive): what follows it is the selection behind the page *)
Theorem c19_stream_last : forall s d start incl limit prefix pat excl, wf d ->
  exists r, stream_list s d start incl limit prefix pat excl = Some r /\
    (r_last r <> "" ->
     impl_sel (r_last r) false prefix pat excl (r_dir r) = skipn limit (impl_sel start incl prefix pat excl d)) /\
    (r_last r = "" -> r_names r = []).
Proof. exact stream_last_cont. Qed.
Print Assumptions c19_stream_last.

(* ... and unless prefix and pattern are given together that selection is the requested one *)
Theorem c19_pattern_split : forall prefix pat excl n,
  trig_narrow prefix pat = false ->
  String.prefix (eff_prefix prefix pat) n && negb (missed (eff_prefix prefix pat) (snd (split_pattern pat)) excl n) =
  spec_match prefix pat excl n.
Proof. exact match_agrees_narrow. Qed.
Print Assumptions c19_pattern_split.

(* refuted inside the trigger (witnesses confirmed on the real Filer, all stores) *)
Theorem c19_exact_refuted_prefix_and_pattern :
  let d := live_dir ["a"; "ab"; "b"] in
  wf d /\ trig_narrow "b" "a*" = true /\
  (exists r, list_entries Lvl d "" false 10 "b" "a*" "" = Some (["a"; "ab"], false, r)) /\
  (exists r, list_entries Gen d "" false 10 "b" "a*" "" = Some (["a"; "ab"], false, r)) /\
  spec_names d "" false "b" "a*" "" = [] /\
  ~ exact_at Lvl d "" false 10 "b" "a*" "" /\ ~ exact_at Gen d "" false 10 "b" "a*" "".
Proof. exact refuted_prefix_and_pattern. Qed.
Print Assumptions c19_exact_refuted_prefix_and_pattern.

Theorem c19_exact_refuted_prefix_and_pattern_rest :
  let d := live_dir ["a"; "ab"; "b"] in
  wf d /\ trig_narrow "a" "?b" = true /\
  (exists r, list_entries Lvl d "" false 10 "a" "?b" "" = Some ([], false, r)) /\
  spec_names d "" false "a" "?b" "" = ["ab"] /\
  ~ exact_at Lvl d "" false 10 "a" "?b" "".
Proof. exact refuted_prefix_and_pattern_rest. Qed.
Print Assumptions c19_exact_refuted_prefix_and_pattern_rest.

(* ---------- c19_paginate ---------- *)
(* following the last returned entry's name (exclusive) while hasMore terminates and
   enumerates the matches exactly once and in order, whatever the number of pages and the
   expired children deleted on the way (page size >= 1; fuel > number of matches) *)
Theorem c19_paginate : forall fuel s d start incl limit prefix pat excl,
  wf d -> trig_narrow prefix pat = false -> 0 < limit ->
  List.length (spec_names d start incl prefix pat excl) < fuel ->
  exists pages, paginate fuel s d start incl limit prefix pat excl = Some pages /\
                List.concat pages = spec_names d start incl prefix pat excl /\
                Forall (fun pg => List.length pg <= limit) pages.
Proof. exact paginate_exact. Qed.
Print Assumptions c19_paginate.

(* full: the same for the gRPC server's loop, which follows StreamListDirectoryEntries' lastFileName *)
Theorem c19_paginate_stream : forall fuel s d start incl limit prefix,
  wf d -> 0 < limit -> List.length (spec_names d start incl prefix "" "") < fuel ->
  exists pages, paginate_stream fuel s d start incl limit prefix = Some pages /\
                List.concat pages = spec_names d start incl prefix "" "" /\
                Forall (fun pg => List.length pg <= limit) pages.
Proof. exact paginate_stream_exact. Qed.
Print Assumptions c19_paginate_stream.

(* ---------- callbacks that stop the listing ---------- *)
(* (formerly finding 1, repaired by "fix: a listing callback that returned false is not called
   again by the refill loops")
   full: for EVERY callback - modelled as the list of its answers, true once exhausted - the
   stop-aware StreamListDirectoryEntries terminates and hands the callback exactly the first
   stop_want limit ans = min(limit, index of the first false + 1) entries of the selection; only
   expired children leave the directory; the returned lastFileName is a correct place to continue
   from; a callback that answered false is not called again *)
Theorem c19_stop_exact : forall s d start incl limit prefix pat excl ans,
  wf d ->
  exists rs, stream_list_s s d start incl limit prefix pat excl ans = Some rs /\
    s_names rs = map ename (firstn (stop_want limit ans) (impl_sel start incl prefix pat excl d)) /\
    wf (s_dir rs) /\ filter elive (s_dir rs) = filter elive d /\
    (s_last rs <> "" -> impl_sel (s_last rs) false prefix pat excl (s_dir rs) =
                        skipn (stop_want limit ans) (impl_sel start incl prefix pat excl d)) /\
    (s_last rs = "" -> s_names rs = []) /\
    stop_respected ans (s_names rs) = true.
Proof. exact stream_list_s_full. Qed.
Print Assumptions c19_stop_exact.

(* full: with a callback that never refuses, the stop-aware StreamListDirectoryEntries IS the
   listing of the first part (names, lastFileName, directory afterwards, termination) - not a
   finding trigger: the hypothesis is what "the same" means *)
Theorem c19_stop_same : forall s d start incl limit prefix pat excl ans,
  forallb (fun b => b) ans = true ->
  match stream_list s d start incl limit prefix pat excl with
  | Some r => exists rs, stream_list_s s d start incl limit prefix pat excl ans = Some rs /\
                         s_names rs = r_names r /\ s_last rs = r_last r /\ s_dir rs = r_dir r /\ s_miss rs = 0
  | None => stream_list_s s d start incl limit prefix pat excl ans = None
  end.
Proof. exact stream_list_s_true. Qed.
Print Assumptions c19_stop_same.

(* full: the gRPC server's loop (overall limit, page size pag >= 1) terminates and sends exactly
   the first [limit] matches of the prefix listing, never more, in pages of at most pag entries *)
Theorem c19_grpc_limit : forall fuel s d start incl limit pag prefix,
  wf d -> 0 < pag -> List.length (spec_names d start incl prefix "" "") < fuel ->
  exists pages, grpc_list fuel s d start incl limit pag prefix = Some pages /\
                List.concat pages = firstn limit (spec_names d start incl prefix "" "") /\
                Forall (fun pg => List.length pg <= pag) pages.
Proof. exact grpc_list_exact. Qed.
Print Assumptions c19_grpc_limit.

(* ---------- c19_expired_refill ---------- *)
(* full: doListValidEntries terminates; the page of valid entries is the first [limit] LIVE
   candidates, however many expired ones are interleaved; exactly expired children
   disappear from the directory *)
Theorem c19_expired_refill : forall s d start incl limit p, wf d ->
  exists r, list_valid s d start incl limit p = Some r /\
    r_names r = firstn limit (map ename (filter elive (cand start incl p d))) /\
    filter elive (r_dir r) = filter elive d /\
    (forall e, In e d -> In e (r_dir r) \/ eexp e = true) /\
    (forall e, In e (r_dir r) -> In e d).
Proof. exact list_valid_refill. Qed.
Print Assumptions c19_expired_refill.

(* ---------- the executable well-formedness test used by the check implies wf ---------- *)
Theorem c19_wfb_sound : forall d, wfb d = true -> wf d.
Proof. exact wfb_wf. Qed.
Print Assumptions c19_wfb_sound.

(* ---------- the former witnesses (repaired) and non-vacuity ---------- *)
Example c19_repaired_witnesses :
  (exists r, list_entries Lvl (live_dir ["a"; "ab"; "b"]) "" false 10 "" "ab" "" = Some (["ab"], false, r)) /\
  (exists r, list_entries Lvl (live_dir ["ab"; "abc"; "bb"]) "" false 10 "" "?b*" "" = Some (["ab"; "abc"; "bb"], false, r)) /\
  (exists r, list_entries Lvl (live_dir ["a"; "b"]) "a" false 10 "b" "" "" = Some (["b"], false, r)) /\
  (exists r, list_entries Gen (live_dir ["a"; "b"; "c"; "d"]) "" false 0 "d" "" "" = Some ([], true, r)) /\
  (exists r, list_entries Gen [("a", false); ("b", true); ("b0", true); ("ba", false); ("bb", false)] "" false 3 "b" "" ""
             = Some (["ba"; "bb"], false, r)) /\
  (exists r, list_entries Lvl [("a", false); ("b", false); ("c", true)] "" false 2 "" "*a" "" = Some (["a"], false, r)) /\
  paginate_stream 10 Lvl [("a", false); ("b", true)] "" false 3 "" = Some [["a"]].
Proof. exact repaired_witnesses. Qed.
Print Assumptions c19_repaired_witnesses.

Example c19_example_exact :
  wf ex_dir /\
  trig_narrow "" "a*" = false /\
  (exists r, list_entries Lvl ex_dir "a" false 1 "" "a*" "*c" = Some (["ab"], false, r) /\
             map ename (r_dir r) = ["a"; "ab"; "b"; "b0"; "ba"; "c"]) /\
  (exists r, list_entries Gen ex_dir "a" false 1 "" "a*" "*c" = Some (["ab"], false, r) /\
             map ename (r_dir r) = ["a"; "ab"; "b"; "b0"; "ba"; "c"]) /\
  (exists r, list_entries Lvl ex_dir "" false 2 "b" "" "" = Some (["b"; "ba"], false, r)) /\
  (exists r, list_entries Gen ex_dir "" false 1 "b" "" "" = Some (["b"], true, r)).
Proof. exact exact_example. Qed.
Print Assumptions c19_example_exact.

Example c19_example_paginate :
  paginate 10 Lvl ex_dir "" false 2 "" "" "a*" = Some [["b"; "ba"]; ["c"]] /\
  paginate 10 Gen ex_dir "" false 2 "" "" "a*" = Some [["b"; "ba"]; ["c"]] /\
  paginate_stream 10 Lvl ex_dir "" false 2 "" = Some [["a"; "ab"]; ["b"; "ba"]; ["c"]] /\
  paginate_stream 10 Gen ex_dir "" false 2 "a" = Some [["a"; "ab"]] /\
  spec_names ex_dir "" false "" "" "a*" = ["b"; "ba"; "c"].
Proof. exact paginate_example. Qed.
Print Assumptions c19_example_paginate.

Example c19_example_refill :
  exists r, list_valid Lvl ex_dir "" true 3 "a" = Some r /\
            r_names r = ["a"; "ab"] /\ map ename (r_dir r) = ["a"; "ab"; "b"; "b0"; "ba"; "c"].
Proof. exact refill_example. Qed.
Print Assumptions c19_example_refill.

Example c19_example_narrow :
  trig_both "a" "ab*" = true /\ trig_narrow "a" "ab*" = false /\
  (exists r, list_entries Lvl ex_dir "" false 5 "a" "ab*" "" = Some (["ab"], false, r)) /\
  (exists r, list_entries Gen ex_dir "" false 5 "a" "ab*" "" = Some (["ab"], false, r)) /\
  spec_names ex_dir "" false "a" "ab*" "" = ["ab"].
Proof. exact narrow_example. Qed.
Print Assumptions c19_example_narrow.

(* the former witnesses of finding 1: a callback that answered false on its first call is not
   called again by either refill loop; the gRPC loop with limit 3 and page size 2 sends 3 entries *)
Example c19_repaired_stop :
  wf stop_dir /\ wf stop_dir_live /\ wf grpc_dir /\
  s_proj (stream_list_s Lvl stop_dir "" false 3 "" "" "" [false]) = Some (["b"], "b") /\
  s_proj (stream_list_s Gen stop_dir "" false 3 "" "" "" [false]) = Some (["b"], "b") /\
  s_proj (stream_list_s Lvl stop_dir_live "" false 2 "" "" "a" [false]) = Some (["b"], "b") /\
  s_proj (stream_list_s Gen stop_dir_live "" false 2 "" "" "a" [false]) = Some (["b"], "b") /\
  stop_respected [false] ["b"] = true /\
  grpc_list 10 Lvl grpc_dir "" false 3 2 "" = Some [["a"; "b"]; ["d"]] /\
  grpc_list 10 Gen grpc_dir "" false 3 2 "" = Some [["a"; "b"]; ["d"]] /\
  firstn 3 (spec_names grpc_dir "" false "" "" "") = ["a"; "b"; "d"].
Proof. exact stop_repaired. Qed.
Print Assumptions c19_repaired_stop.

Example c19_example_stop :
  stop_want 2 [true; true] = 2 /\ stop_want 3 [true; false] = 2 /\ stop_want 4 [true; false; false] = 2 /\
  s_proj (stream_list_s Lvl stop_dir "" false 2 "" "" "" [true; true]) = Some (["b"; "c"], "c") /\
  s_proj (stream_list_s Gen stop_dir "" false 2 "" "*" "d" [true; true]) = Some (["b"; "c"], "c") /\
  s_proj (stream_list_s Lvl stop_dir_live "" false 3 "" "" "" [true; false]) = Some (["a"; "b"], "b") /\
  s_proj (stream_list_s Gen stop_dir "" false 4 "" "" "b" [true; false; false]) = Some (["c"; "d"], "d").
Proof. exact stop_example. Qed.
Print Assumptions c19_example_stop.
