(* C07 — Deleting from an EC volume marks exactly that needle.
   Only statements closed by [exact]; proofs live in proof/EcIndexProofs.v.
   [osz] is the build configuration (types.OffsetSize): 4 by default, 5 under -tags 5BytesOffset;
   every theorem is for both ([ok_osz osz]).  Files are byte lists; [encode osz es] is the
   .ecx/.sdx/.idx image of the entry list [es]. *)
From Coq Require Import List NArith ZArith Bool.
From SW Require Import model.EcIndex proof.EcIndexProofs proof.EcIndexMount.
Import ListNotations.
Local Open Scope N_scope.

(* The entry codec round-trips, and walking an encoded index returns its entries. *)
Theorem c07_codec_roundtrip : forall osz es, ok_osz osz -> Forall (wf_entry osz) es ->
  walk osz (encode osz es) = es.
Proof. exact walk_encode. Qed.
Print Assumptions c07_codec_roundtrip.

(* FindNeedleFromEcx / SortedFileNeedleMap.Get: the binary search over ANY strictly sorted
   index reads exactly the entry with that key, or reports not-found. *)
Theorem c07_search_exact : forall osz es key, ok_osz osz -> Forall (wf_entry osz) es -> sorted_keys es ->
  sres_val (search_sorted osz (encode osz es) (N.of_nat (length (encode osz es))) key) = lookup key es.
Proof. exact search_lookup. Qed.
Print Assumptions c07_search_exact.

(* DeleteNeedleFromEcx, for every sorted index, every journal content and every key (present
   or absent): no error; the new .ecx is the old one with exactly that key's size replaced by
   the tombstone (unchanged when the key is absent); the journal gets the key appended iff the
   key is present; afterwards that key reads as deleted and every other key reads as before. *)
Theorem c07_delete_exact : forall osz es ecj key,
  ok_osz osz -> Forall (wf_entry osz) es -> sorted_keys es ->
  delete_from_ecx osz (encode osz es) ecj key =
    (ENone, encode osz (set_deleted key es), if has_key key es then ecj ++ enc_key key else ecj)
  /\ (has_key key es = false -> set_deleted key es = es)
  /\ (forall k, sres_val (find_from_ecx osz (encode osz (set_deleted key es)) k) =
        if k =? key then option_map (fun v => (fst v, tombstone)) (lookup k es) else lookup k es)
  /\ (forall k, sres_val (find_from_ecx osz (encode osz es) k) = lookup k es).
Proof. exact delete_exact. Qed.
Print Assumptions c07_delete_exact.

(* RebuildEcxFile and WriteIdxFileFromEcIndex agree: for every sorted index and every journal,
   the .idx written from (.ecx, .ecj), replayed the way an index file is loaded, and the .ecx
   rebuilt from the journal have the same live set: the live entries whose key is not journalled. *)
Theorem c07_rebuild : forall osz es js,
  ok_osz osz -> Forall (wf_entry osz) es -> sorted_keys es -> Forall (fun e => e_off e <> 0) es ->
  Forall (fun k => k < two64) js ->
  let ecx := encode osz es in
  let ecj := concat (map enc_key js) in
  memdb_load osz (write_idx_from_ec osz ecx ecj) = live_spec js es /\
  exists ecx', rebuild_ecx osz ecx ecj = (ENone, ecx') /\
               ecx' = encode osz (mark_all js es) /\
               live_of_sorted osz ecx' = live_spec js es.
Proof. exact rebuild_same_live_set. Qed.
Print Assumptions c07_rebuild.

(* Any run of deletions (present and absent keys, repeated keys) on an EC volume starting
   with an empty journal: the index decoded from the resulting .ecx + .ecj has exactly the
   live set the running volume serves, namely the live entries whose key was not deleted. *)
Theorem c07_deletes_then_decode : forall osz es ks,
  ok_osz osz -> Forall (wf_entry osz) es -> sorted_keys es -> Forall (fun e => e_off e <> 0) es ->
  Forall (fun k => k < two64) ks ->
  let '(ecx', ecj') := delete_many osz (encode osz es) [] ks in
  memdb_load osz (write_idx_from_ec osz ecx' ecj') = live_of_sorted osz ecx' /\
  live_of_sorted osz ecx' = live_spec ks es.
Proof. exact deletes_then_decode. Qed.
Print Assumptions c07_deletes_then_decode.

(* Read-only volume served from a sorted index (SortedFileNeedleMap.Delete on a freshly opened
   map; NewSortedFileNeedleMap repaired: .sdx opened read-write, indexFileOffset = .idx size).
   FULL, for every sorted index, every key, every .idx content: no error; when the key is live
   the .sdx becomes the index with exactly that entry tombstoned and the .idx grows by exactly
   one tombstone record for the key; otherwise both files are unchanged. *)
Theorem c07_sorted_delete : forall osz es key idx off,
  ok_osz osz -> Forall (wf_entry osz) es -> sorted_keys es ->
  sorted_delete osz idx (file_size idx) (encode osz es) key off =
    if is_live key es
    then (ENone, idx ++ enc_entry osz {| e_key := key; e_off := off; e_size := tombstone |},
          file_size idx + entry_size osz, encode osz (set_deleted key es))
    else (ENone, idx, file_size idx, encode osz es).
Proof. exact sorted_delete_full. Qed.
Print Assumptions c07_sorted_delete.

(* ... so afterwards exactly that key reads as deleted and every other key reads as before *)
Theorem c07_sorted_delete_reads : forall osz es key idx off k,
  ok_osz osz -> Forall (wf_entry osz) es -> sorted_keys es ->
  let '(err, _, _, sdx') := sorted_delete osz idx (file_size idx) (encode osz es) key off in
  err = ENone /\
  sorted_get osz sdx' k =
    (if (k =? key) && is_live key es then option_map (fun v => (fst v, tombstone)) (lookup k es)
     else lookup k es).
Proof. exact sorted_delete_reads. Qed.
Print Assumptions c07_sorted_delete_reads.

(* the witness of the repaired defect, evaluated: no error, key 1 tombstoned in the .sdx,
   the tombstone record appended after the existing .idx record *)
Theorem c07_sorted_delete_witness :
  sorted_delete 4 (encode 4 witness_es) (file_size (encode 4 witness_es)) (encode 4 witness_es) 1 3 =
    (ENone, encode 4 witness_es ++ enc_entry 4 {| e_key := 1; e_off := 3; e_size := tombstone |}, 32,
     encode 4 [ {| e_key := 1; e_off := 2; e_size := tombstone |} ]).
Proof. exact sorted_delete_witness. Qed.
Print Assumptions c07_sorted_delete_witness.

(* ---------- the real consumer of the rebuilt index: ec.decode, then the mount (Volume.load) ----------
   [recs]: the records of the encoded .dat (start in offset units, id, Size field); FindDatFileSize,
   WriteDatFile (first datSize bytes), WriteIdxFileFromEcIndex, CheckAndFixVolumeDataIntegrity,
   doLoading, Volume.readNeedle: model/EcIndex.v dm_*. *)

(* REFUTED (finding C07 k=0, same root cause as C06 k=0 / C04 k=2): "the index rebuilt from the
   sorted index plus journal yields the same live set" fails for the volume that is mounted from
   it: Write(1,"aaa"), Write(2,"bbb"), Write(1,"cccc"); the .idx is the key-sorted .ecx, the
   integrity check takes its last entry (key 2) for the last record and cuts the .dat 128 -> 88;
   key 1 is live, was never deleted, and cannot be read. *)
Theorem c07_decode_then_load_refuted :
  exists osz es recs,
    ok_osz osz /\ Forall (wf_entry osz) es /\ sorted_keys es /\
    Forall (fun e => e_off e <> 0) es /\ Forall (fun e => e_size e <> 0%Z) es /\
    dm_cuts osz (encode osz es) [] recs = true /\
    exists m len' h k e,
      dm_decode_mount osz (encode osz es) [] recs = Some (m, len', h) /\
      rfind k es = Some e /\ live e = true /\ dm_read m len' k = DmReadErr.
Proof. exact decode_then_load_refuted. Qed.
Print Assumptions c07_decode_then_load_refuted.

(* PARTIAL, for every sorted index without Size-0 entries (those are finding C04 k=0), every
   journal, every record layout: outside the decidable trigger [dm_cuts] (the integrity check of
   the mount changes neither the .dat nor the .idx) the mounted volume's needle map is exactly
   the live entries whose key is not journalled, and every key reads accordingly: the record of
   its live, un-journalled entry, else not found. *)
Theorem c07_decode_then_load_partial : forall osz es js recs,
  ok_osz osz -> Forall (wf_entry osz) es -> sorted_keys es -> Forall (fun e => e_off e <> 0) es ->
  Forall (fun k => k < two64) js ->
  Forall (fun e => e_size e <> 0%Z) es ->
  8 <= dm_dat_size osz (encode osz es) ->
  dm_cuts osz (encode osz es) (concat (map enc_key js)) recs = false ->
  dm_decode_mount osz (encode osz es) (concat (map enc_key js)) recs =
    Some (live_spec js es, dm_dat_size osz (encode osz es), N.of_nat (length es + length js)) /\
  forall k, dm_read (live_spec js es) (dm_dat_size osz (encode osz es)) k =
    match rfind k es with
    | Some e => if live e && negb (in_keys js k) then DmData (e_off e) (e_size e) else DmNotFound
    | None => DmNotFound
    end.
Proof. exact decode_then_load_partial. Qed.
Print Assumptions c07_decode_then_load_partial.

(* ... and a decode with a NON-EMPTY journal (at least one deletion on the EC volume, present key
   or not) is never inside the trigger: the last index entry is a zero-offset tombstone, on
   which the integrity check stops.  So after any deletion the statement is FULL. *)
Theorem c07_decode_journal_no_cut : forall osz es js recs,
  ok_osz osz -> Forall (wf_entry osz) es -> Forall (fun k => k < two64) js ->
  js <> [] -> dm_cuts osz (encode osz es) (concat (map enc_key js)) recs = false.
Proof. exact decode_journal_no_cut. Qed.
Print Assumptions c07_decode_journal_no_cut.

(* non-vacuity of the partial theorem: empty journal with the largest key written last (both
   keys served), and the refutation witness after key 1 was deleted on the EC volume *)
Example c07_decode_then_load_example :
  ok_osz 5 /\ Forall (wf_entry 5) x_es /\ sorted_keys x_es /\
  Forall (fun e => e_off e <> 0) x_es /\ Forall (fun e => e_size e <> 0%Z) x_es /\
  8 <= dm_dat_size 5 (encode 5 x_es) /\
  dm_cuts 5 (encode 5 x_es) [] (firstn 2 w_recs) = false /\
  dm_decode_mount 5 (encode 5 x_es) [] (firstn 2 w_recs) = Some ([(1, (1, 8%Z)); (2, (6, 8%Z))], 88, 2) /\
  dm_cuts 4 (encode 4 (set_deleted 1 w_es)) (enc_key 1) w_recs = false /\
  dm_decode_mount 4 (encode 4 (set_deleted 1 w_es)) (enc_key 1) w_recs = Some ([(2, (6, 8%Z))], 88, 3).
Proof. exact decode_then_load_example. Qed.
Print Assumptions c07_decode_then_load_example.

(* non-vacuity: a 5-entry index under the 5-byte build (offsets above 2^32), key 3 deleted:
   the hypotheses hold, entry 3 - and only entry 3 - becomes a tombstone, the journal holds key 3
   ([c07_ex_es] is defined in proof/EcIndexMount.v) *)
Example c07_example :
  ok_osz 5 /\ Forall (wf_entry 5) c07_ex_es /\ sorted_keys c07_ex_es /\
  Forall (fun e => e_off e <> 0) c07_ex_es /\
  delete_from_ecx 5 (encode 5 c07_ex_es) [] 3 =
    (ENone, encode 5 (set_deleted 3 c07_ex_es), [0;0;0;0;0;0;0;3]) /\
  map (fun k => sres_val (find_from_ecx 5 (encode 5 (set_deleted 3 c07_ex_es)) k))
      [1; 2; 3; 4; 4294967301] =
    [Some (10, 100%Z); Some (4294967303, 0%Z); Some (1099511627775, (-1)%Z); None; Some (12, 5%Z)] /\
  is_live 7 c07_ex_es = false /\ is_live 3 c07_ex_es = true.
Proof. exact c07_example_holds. Qed.
Print Assumptions c07_example.
