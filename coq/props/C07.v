(* C07 — Deleting from an EC volume marks exactly that needle.
   Only statements closed by [exact]; proofs live in proof/EcIndexProofs.v.
   [osz] is the build configuration (types.OffsetSize): 4 by default, 5 under -tags 5BytesOffset;
   every theorem is for both ([ok_osz osz]).  Files are byte lists; [encode osz es] is the
   .ecx/.sdx/.idx image of the entry list [es]. *)
From Coq Require Import List NArith ZArith Bool.
From SW Require Import model.EcIndex proof.EcIndexProofs.
Import ListNotations.
Local Open Scope N_scope.

(* The entry codec round-trips, and walking an encoded index returns its entries. *)
Theorem c07_codec_roundtrip : forall osz es, ok_osz osz -> Forall (wf_entry osz) es ->
  walk osz (encode osz es) = es.
Proof. exact walk_encode. Qed.
Print Assumptions c07_codec_roundtrip.

(* FindNeedleFromEcx / SortedFileNeedleMap.Get: the binary search over ANY strictly sorted
   index reads exactly the entry with that key, or reports not-found. *)
Theorem c07_search_exact : forall osz es key, ok_osz osz -> Forall (wf_entry osz) es -> sorted_keys es ->
  sres_val (search_sorted osz (encode osz es) (N.of_nat (length (encode osz es))) key) = lookup key es.
Proof. exact search_lookup. Qed.
Print Assumptions c07_search_exact.

(* DeleteNeedleFromEcx, for every sorted index, every journal content and every key (present
   or absent): no error; the new .ecx is the old one with exactly that key's size replaced by
   the tombstone (unchanged when the key is absent); the journal gets the key appended iff the
   key is present; afterwards that key reads as deleted and every other key reads as before. *)
Theorem c07_delete_exact : forall osz es ecj key,
  ok_osz osz -> Forall (wf_entry osz) es -> sorted_keys es ->
  delete_from_ecx osz (encode osz es) ecj key =
    (ENone, encode osz (set_deleted key es), if has_key key es then ecj ++ enc_key key else ecj)
  /\ (has_key key es = false -> set_deleted key es = es)
  /\ (forall k, sres_val (find_from_ecx osz (encode osz (set_deleted key es)) k) =
        if k =? key then option_map (fun v => (fst v, tombstone)) (lookup k es) else lookup k es)
  /\ (forall k, sres_val (find_from_ecx osz (encode osz es) k) = lookup k es).
Proof. exact delete_exact. Qed.
Print Assumptions c07_delete_exact.

(* RebuildEcxFile and WriteIdxFileFromEcIndex agree: for every sorted index and every journal,
   the .idx written from (.ecx, .ecj), replayed the way an index file is loaded, and the .ecx
   rebuilt from the journal have the same live set: the live entries whose key is not journalled. *)
Theorem c07_rebuild : forall osz es js,
  ok_osz osz -> Forall (wf_entry osz) es -> sorted_keys es -> Forall (fun e => e_off e <> 0) es ->
  Forall (fun k => k < two64) js ->
  let ecx := encode osz es in
  let ecj := concat (map enc_key js) in
  memdb_load osz (write_idx_from_ec osz ecx ecj) = live_spec js es /\
  exists ecx', rebuild_ecx osz ecx ecj = (ENone, ecx') /\
               ecx' = encode osz (mark_all js es) /\
               live_of_sorted osz ecx' = live_spec js es.
Proof. exact rebuild_same_live_set. Qed.
Print Assumptions c07_rebuild.

(* Any run of deletions (present and absent keys, repeated keys) on an EC volume starting
   with an empty journal: the index decoded from the resulting .ecx + .ecj has exactly the
   live set the running volume serves, namely the live entries whose key was not deleted. *)
Theorem c07_deletes_then_decode : forall osz es ks,
  ok_osz osz -> Forall (wf_entry osz) es -> sorted_keys es -> Forall (fun e => e_off e <> 0) es ->
  Forall (fun k => k < two64) ks ->
  let '(ecx', ecj') := delete_many osz (encode osz es) [] ks in
  memdb_load osz (write_idx_from_ec osz ecx' ecj') = live_of_sorted osz ecx' /\
  live_of_sorted osz ecx' = live_spec ks es.
Proof. exact deletes_then_decode. Qed.
Print Assumptions c07_deletes_then_decode.

(* Read-only volume served from a sorted index (SortedFileNeedleMap.Delete on a freshly opened
   map; NewSortedFileNeedleMap repaired: .sdx opened read-write, indexFileOffset = .idx size).
   FULL, for every sorted index, every key, every .idx content: no error; when the key is live
   the .sdx becomes the index with exactly that entry tombstoned and the .idx grows by exactly
   one tombstone record for the key; otherwise both files are unchanged. *)
Theorem c07_sorted_delete : forall osz es key idx off,
  ok_osz osz -> Forall (wf_entry osz) es -> sorted_keys es ->
  sorted_delete osz idx (file_size idx) (encode osz es) key off =
    if is_live key es
    then (ENone, idx ++ enc_entry osz {| e_key := key; e_off := off; e_size := tombstone |},
          file_size idx + entry_size osz, encode osz (set_deleted key es))
    else (ENone, idx, file_size idx, encode osz es).
Proof. exact sorted_delete_full. Qed.
Print Assumptions c07_sorted_delete.

(* ... so afterwards exactly that key reads as deleted and every other key reads as before *)
Theorem c07_sorted_delete_reads : forall osz es key idx off k,
  ok_osz osz -> Forall (wf_entry osz) es -> sorted_keys es ->
  let '(err, _, _, sdx') := sorted_delete osz idx (file_size idx) (encode osz es) key off in
  err = ENone /\
  sorted_get osz sdx' k =
    (if (k =? key) && is_live key es then option_map (fun v => (fst v, tombstone)) (lookup k es)
     else lookup k es).
Proof. exact sorted_delete_reads. Qed.
Print Assumptions c07_sorted_delete_reads.

(* the witness of the repaired defect, evaluated: no error, key 1 tombstoned in the .sdx,
   the tombstone record appended after the existing .idx record *)
Theorem c07_sorted_delete_witness :
  sorted_delete 4 (encode 4 witness_es) (file_size (encode 4 witness_es)) (encode 4 witness_es) 1 3 =
    (ENone, encode 4 witness_es ++ enc_entry 4 {| e_key := 1; e_off := 3; e_size := tombstone |}, 32,
     encode 4 [ {| e_key := 1; e_off := 2; e_size := tombstone |} ]).
Proof. exact sorted_delete_witness. Qed.
Print Assumptions c07_sorted_delete_witness.

(* non-vacuity: a 5-entry index under the 5-byte build (offsets above 2^32), key 3 deleted:
   the hypotheses hold, entry 3 — and only entry 3 — becomes a tombstone, the journal holds key 3 *)
Definition c07_ex_es : list entry :=
  [ {| e_key := 1; e_off := 10; e_size := 100%Z |};
    {| e_key := 2; e_off := 4294967296 + 7; e_size := 0%Z |};
    {| e_key := 3; e_off := 1099511627775; e_size := 2147483647%Z |};
    {| e_key := 4294967301; e_off := 12; e_size := 5%Z |};
    {| e_key := 18446744073709551615; e_off := 13; e_size := 6%Z |} ].
Example c07_example :
  ok_osz 5 /\ Forall (wf_entry 5) c07_ex_es /\ sorted_keys c07_ex_es /\
  Forall (fun e => e_off e <> 0) c07_ex_es /\
  delete_from_ecx 5 (encode 5 c07_ex_es) [] 3 =
    (ENone, encode 5 (set_deleted 3 c07_ex_es), [0;0;0;0;0;0;0;3]) /\
  map (fun k => sres_val (find_from_ecx 5 (encode 5 (set_deleted 3 c07_ex_es)) k))
      [1; 2; 3; 4; 4294967301] =
    [Some (10, 100%Z); Some (4294967303, 0%Z); Some (1099511627775, (-1)%Z); None; Some (12, 5%Z)] /\
  is_live 7 c07_ex_es = false /\ is_live 3 c07_ex_es = true.
Proof.
  split; [right; reflexivity|]. split; [repeat constructor; vm_compute; congruence|].
  split; [repeat constructor|]. split; [repeat constructor; discriminate|].
  repeat split; vm_compute; reflexivity.
Qed.
