(* C36 — Replication and sync mirror exactly the watched subtree.
   Only statements closed by [exact]; proofs live in proof/ReplProofs.v.
   The model follows the tree after the component-wise prefix repair
   (pathIsUnder in weed/command/filer_sync.go, the trimmed dir in
   Replicator.Replicate). *)
From Coq Require Import List NArith ZArith Bool String.
From SW Require Import model.Repl proof.ReplProofs.
Import ListNotations.

(* An event all of whose keys lie outside the watched directory, comparing whole
   path components (so /data2/x is outside /data), reaches no sink operation:
   genProcessFunction, incremental or not ... *)
Theorem c36_outside_ignored_sync : forall c ev,
  wf_config c = true -> wf_event ev = true -> all_outside c ev = true ->
  sync_process c ev = Nothing.
Proof. exact sync_outside_ignored. Qed.
Print Assumptions c36_outside_ignored_sync.

(* ... and Replicator.Replicate, for any message. *)
Theorem c36_outside_ignored_replicate : forall c k ev,
  wf_config c = true -> forallb plain k = true -> lprefix (src_segs c) k = false ->
  replicate c (abs k) ev = Nothing.
Proof. exact replicate_outside_ignored. Qed.
Print Assumptions c36_outside_ignored_replicate.

(* FULL: a change that carries the target filer's signature is never applied by
   filer.sync; filer.replicate never applies a change that was itself written by
   replication (IsFromOtherCluster) to a filer sink. *)
Theorem c36_no_echo :
  (forall c ev, target_sig c <> 0%Z -> In (target_sig c) (ev_sigs ev) -> sync_filtered c ev = Nothing) /\
  (forall c key ev, ev_from_other ev = true -> sink_is_filer c = true -> replicate c key ev = Nothing).
Proof. exact (conj sync_no_echo replicate_no_echo). Qed.
Print Assumptions c36_no_echo.

(* the signature filter drops nothing else *)
Theorem c36_filter_transparent : forall c ev,
  ~ In (target_sig c) (ev_sigs ev) -> sync_filtered c ev = sync_process c ev.
Proof. exact sync_filter_transparent. Qed.
Print Assumptions c36_filter_transparent.

(* The full mirror statement fails for genProcessFunction (finding 0: an entry
   moved from outside into the watched subtree is dropped by the early
   resp.Directory test) ... *)
Theorem c36_mirror_refuted : ~ mirror_full_sync.
Proof. exact sync_mirror_refuted. Qed.
Print Assumptions c36_mirror_refuted.

(* ... and for Replicator.Replicate (finding 1: NewParentPath is handed to the
   sink unmapped and the event is handled by its old key only). *)
Theorem c36_mirror_replicate_refuted : ~ mirror_full_replicate.
Proof. exact replicate_mirror_refuted. Qed.
Print Assumptions c36_mirror_replicate_refuted.

(* PARTIAL: outside those triggers both event functions issue exactly the
   reference plan: create / delete / update / move at the mapped path for keys
   strictly inside, nothing for keys outside. *)
Theorem c36_mirror_partial :
  (forall c ev,
     wf_config c = true -> wf_event ev = true -> incremental c = false ->
     touches_root c ev = false -> rename_in c ev = false ->
     sync_process c ev = mirror_spec c ev) /\
  (forall c ev,
     wf_config c = true -> wf_event ev = true -> incremental c = false ->
     ev_from_other ev && sink_is_filer c = false ->
     touches_root c ev = false -> replicate_unsafe c ev = false ->
     replicate c (event_key ev) ev = mirror_spec c ev).
Proof. exact (conj sync_mirror_partial replicate_mirror_partial). Qed.
Print Assumptions c36_mirror_partial.

(* LocalSink (finding 2): UpdateEntry rewrites the old key whatever the
   destination, so a file renamed inside the watched subtree stays at its old
   path in the backup directory. *)
Theorem c36_local_rename_stays : forall t key np n dc d cr,
  is_multipart key = false -> local_exists t key = true ->
  fst (exec_plan _ local_do t (UpdateOr (Update key np n dc) d cr)) = fst (local_create t key n).
Proof. exact local_rename_stays. Qed.
Print Assumptions c36_local_rename_stays.

Theorem c36_local_mirror_refuted :
  wf_config w_lcfg = true /\ forallb wf_event [w_lcreate; w_lrename] = true /\
  files_of (fst (run_local w_lcfg [] [w_lcreate; w_lrename])) = ["/t/a"%string] /\
  spec_files w_lcfg [w_lcreate; w_lrename] = ["/t/b"%string].
Proof. exact local_mirror_refuted. Qed.
Print Assumptions c36_local_mirror_refuted.

(* non-vacuity: the hypotheses of the partial theorem hold on a rename inside
   /data/ (written with a trailing slash) and the plan is the expected move;
   the sibling /data2 is ignored *)
Local Open Scope string_scope.
Example c36_example :
  let c := {| src := "/data/"; tgt := "/backup"; incremental := false; sink_is_filer := true; target_sig := 7%Z |} in
  let e := fun n => {| e_name := n; e_isdir := false; e_date := "2021-03-04" |} in
  let mv := {| ev_dir := "/data/a"; ev_old := Some (e "x"); ev_new := Some (e "y"); ev_new_parent := "/data/b";
               ev_delete_chunks := true; ev_from_other := false; ev_sigs := [3%Z] |} in
  let sib := {| ev_dir := "/data2"; ev_old := None; ev_new := Some (e "x"); ev_new_parent := "/data2";
                ev_delete_chunks := false; ev_from_other := false; ev_sigs := [] |} in
  wf_config c = true /\ wf_event mv = true /\ touches_root c mv = false /\ rename_in c mv = false /\
  sync_process c mv = UpdateOr (Update "/backup/a/x" "/backup/b" (e "y") true)
                               (Delete "/backup/a/x" false false) (Create "/backup/b/y" (e "y")) /\
  wf_event sib = true /\ all_outside c sib = true /\ sync_process c sib = Nothing /\
  replicate c (event_key sib) sib = Nothing.
Proof. vm_compute. repeat split; reflexivity. Qed.
