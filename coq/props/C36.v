(* C36 — Replication and sync mirror exactly the watched subtree.
   Only statements closed by [exact]; proofs live in proof/ReplProofs.v.
   The model follows the tree after the repairs: component-wise prefix test
   (pathIsUnder in weed/command/filer_sync.go, the trimmed dir in
   Replicator.Replicate), the early test of genProcessFunction also looking at
   the new location, LocalSink.UpdateEntry reporting a moved entry as not found. *)
From Coq Require Import List NArith ZArith Bool String.
From SW Require Import model.Repl proof.ReplProofs proof.ReplEmit proof.ReplLocal.
Import ListNotations.

(* An event all of whose keys lie outside the watched directory, comparing whole
   path components (so /data2/x is outside /data), reaches no sink operation:
   genProcessFunction, incremental or not ... *)
Theorem c36_outside_ignored_sync : forall c ev,
  wf_config c = true -> wf_event ev = true -> all_outside c ev = true ->
  sync_process c ev = Nothing.
Proof. exact sync_outside_ignored. Qed.
Print Assumptions c36_outside_ignored_sync.

(* ... and Replicator.Replicate, for any message. *)
Theorem c36_outside_ignored_replicate : forall c k ev,
  wf_config c = true -> forallb plain k = true -> lprefix (src_segs c) k = false ->
  replicate c (abs k) ev = Nothing.
Proof. exact replicate_outside_ignored. Qed.
Print Assumptions c36_outside_ignored_replicate.

(* FULL: a change that carries the target filer's signature is never applied by
   filer.sync; filer.replicate never applies a change that was itself written by
   replication (IsFromOtherCluster) to a filer sink. *)
Theorem c36_no_echo :
  (forall c ev, target_sig c <> 0%Z -> In (target_sig c) (ev_sigs ev) -> sync_filtered c ev = Nothing) /\
  (forall c key ev, ev_from_other ev = true -> sink_is_filer c = true -> replicate c key ev = Nothing).
Proof. exact (conj sync_no_echo replicate_no_echo). Qed.
Print Assumptions c36_no_echo.

(* the signature filter drops nothing else *)
Theorem c36_filter_transparent : forall c ev,
  ~ In (target_sig c) (ev_sigs ev) -> sync_filtered c ev = sync_process c ev.
Proof. exact sync_filter_transparent. Qed.
Print Assumptions c36_filter_transparent.

(* FULL for genProcessFunction (filer.sync, filer.backup): every well-formed
   event yields exactly the reference plan — create / delete / update / move at
   the mapped path for keys strictly inside (incl. moves into and out of the
   subtree), nothing for keys outside. *)
Theorem c36_mirror_sync : forall c ev,
  wf_config c = true -> wf_event ev = true -> incremental c = false ->
  touches_root c ev = false ->
  sync_process c ev = mirror_spec c ev.
Proof. exact sync_mirror. Qed.
Print Assumptions c36_mirror_sync.

(* The same statement fails for Replicator.Replicate (finding 0: NewParentPath is
   handed to the sink unmapped and the event is handled by its old key only). *)
Theorem c36_mirror_replicate_refuted : ~ mirror_full_replicate.
Proof. exact replicate_mirror_refuted. Qed.
Print Assumptions c36_mirror_replicate_refuted.

(* PARTIAL for Replicate: outside that trigger it issues the reference plan. *)
Theorem c36_mirror_partial :
  (forall c ev,
     wf_config c = true -> wf_event ev = true -> incremental c = false ->
     touches_root c ev = false ->
     sync_process c ev = mirror_spec c ev) /\
  (forall c ev,
     wf_config c = true -> wf_event ev = true -> incremental c = false ->
     ev_from_other ev && sink_is_filer c = false ->
     touches_root c ev = false -> replicate_unsafe c ev = false ->
     replicate c (event_key ev) ev = mirror_spec c ev).
Proof. exact (conj sync_mirror replicate_mirror_partial). Qed.
Print Assumptions c36_mirror_partial.

(* LocalSink, all trees: a moved entry makes UpdateEntry answer "not found"
   without touching the tree, so the plan deletes the old key and runs the create; *)
Theorem c36_local_move : forall t key np n dc isdir cr,
  is_multipart key = false -> join [np; e_name n] <> key ->
  fst (exec_plan _ local_do t (UpdateOr (Update key np n dc) (Delete key isdir false) cr)) =
  fst (local_do (local_delete t key) cr).
Proof. exact local_move. Qed.
Print Assumptions c36_local_move.

(* hence a rename inside the watched subtree through genProcessFunction into a
   LocalSink removes the mapped old path and creates the mapped new path. *)
Theorem c36_local_sync_move : forall c ev o n t,
  wf_config c = true -> wf_event ev = true -> incremental c = false ->
  touches_root c ev = false ->
  ev_old ev = Some o -> ev_new ev = Some n ->
  let ok := segs (ev_dir ev) ++ [e_name o] in
  let nk := segs (ev_new_parent ev) ++ [e_name n] in
  inside c ok = true -> inside c nk = true -> ok <> nk ->
  is_multipart (map_path c ok) = false ->
  fst (exec_plan _ local_do t (sync_process c ev)) =
  fst (local_create (local_delete t (map_path c ok)) (map_path c nk) n).
Proof. exact local_sync_move. Qed.
Print Assumptions c36_local_sync_move.

(* an entry that stays where it is: UpdateEntry rewrites the file in place *)
Theorem c36_local_update_in_place : forall t key np e dc,
  is_multipart key = false -> join [np; e_name e] = key ->
  local_do t (Update key np e dc) =
  (fst (local_create t key e), (local_exists t key, snd (local_create t key e))).
Proof. exact local_update_in_place. Qed.
Print Assumptions c36_local_update_in_place.


(* The rename onto the watched directory itself ([root_move]) is the only event
   the mirror statement leaves out: create / delete events about the watched
   directory's own entry are ignored, as the reference says. *)
Theorem c36_mirror_sync_all : forall c ev,
  wf_config c = true -> wf_event ev = true -> incremental c = false ->
  root_move c ev = false ->
  sync_process c ev = mirror_spec c ev.
Proof. exact sync_mirror_all. Qed.
Print Assumptions c36_mirror_sync_all.

(* genProcessFunction's slice-bounds panic (NewParentPath[len(sourcePath):]) needs
   such a rename; incremental sinks included. *)
Theorem c36_sync_no_panic : forall c ev,
  wf_config c = true -> wf_event ev = true -> root_move c ev = false ->
  is_panic (sync_process c ev) = false.
Proof. exact sync_no_panic. Qed.
Print Assumptions c36_sync_no_panic.

(* Incremental sinks (filer.backup with is_incremental): the same mapping with
   the date folder inserted after the target directory; a change that leaves a
   new entry only ever creates, a pure delete deletes at that day's folder. *)
Theorem c36_mirror_incremental : forall c ev,
  wf_config c = true -> wf_event ev = true -> incremental c = true ->
  touches_root c ev = false -> plain (date_key ev) = true ->
  sync_process c ev = mirror_spec_inc c ev.
Proof. exact sync_mirror_inc. Qed.
Print Assumptions c36_mirror_incremental.

(* The trigger of finding 0 is no wider than the finding: inside it Replicate's
   plan differs from the reference. *)
Theorem c36_replicate_trigger_exact : forall c ev,
  wf_config c = true -> wf_event ev = true -> incremental c = false ->
  ev_from_other ev && sink_is_filer c = false ->
  touches_root c ev = false -> replicate_unsafe c ev = true ->
  replicate c (event_key ev) ev <> mirror_spec c ev.
Proof. exact replicate_unsafe_exact. Qed.
Print Assumptions c36_replicate_trigger_exact.

(* LocalSink, WHOLE HISTORIES.  The full statement -- after any well-formed
   history the files of the backup directory are the reference file set (every
   file event applied at the mapped path) -- fails: a file created below a file
   is ENOTDIR in the backup ... *)
Theorem c36_local_mirror_refuted : ~ local_mirror_full.
Proof. exact local_mirror_refuted. Qed.
Print Assumptions c36_local_mirror_refuted.

(* ... PARTIAL: it holds for every history in which no event meets a clash
   ([local_clash], decidable: a multipart key, an entry of the other kind at the
   mapped key, a file among the ancestors of a created file, an entry changing
   its kind) -- all trees reachable from the empty backup, any length. *)
Theorem c36_local_mirror : forall c evs,
  wf_config c = true -> forallb wf_event evs = true -> incremental c = false ->
  forallb (fun ev => negb (root_move c ev)) evs = true ->
  local_clash c [] evs = false ->
  forall p, In p (files_of (fst (run_local c [] evs))) <-> In p (spec_files c evs).
Proof. exact local_mirror. Qed.
Print Assumptions c36_local_mirror.

Example c36_local_mirror_example :
  wf_config w_clash_cfg = true /\ forallb wf_event w_hist = true /\
  forallb (fun ev => negb (root_move w_clash_cfg ev)) w_hist = true /\
  local_clash w_clash_cfg [] w_hist = false /\
  fst (run_local w_clash_cfg [] w_hist) = [("/t"%string, true); ("/t/g"%string, false)] /\
  spec_files w_clash_cfg w_hist = ["/t/g"%string].
Proof. exact local_mirror_example. Qed.
Print Assumptions c36_local_mirror_example.

(* "Never re-applies target-originated changes", the emitting side: the filter of
   c36_no_echo works on the Signatures of the event.  FULL statement: every
   event a filer emits while applying a request carries the request's signatures
   and keeps the IsFromOtherCluster flag.  It fails (finding 1): the events below
   a recursively deleted directory and the implicitly created parent directories
   are notified with signatures = nil (and sub-directories with the flag false). *)
Theorem c36_emit_refuted : ~ emit_full.
Proof. exact emit_full_refuted. Qed.
Print Assumptions c36_emit_refuted.

(* PARTIAL: outside the trigger every emitted event carries them; the trigger is
   exactly the failure on that request; the named entry's own event always does. *)
Theorem c36_emit_partial : forall op sg fl,
  emit_unsafe op = false -> In (sg, fl) (emit_labels op) -> emit_ok op sg fl = true.
Proof. exact emit_partial. Qed.
Print Assumptions c36_emit_partial.

Theorem c36_emit_trigger_exact : forall op,
  emit_unsafe op = true -> exists sg fl, In (sg, fl) (emit_labels op) /\ emit_ok op sg fl = false.
Proof. exact emit_unsafe_exact. Qed.
Print Assumptions c36_emit_trigger_exact.

Theorem c36_emit_top_ok : forall op m,
  em_kind op <> ERename -> m_key m = em_top op ->
  emit_ok op (fst (emit_label op m)) (snd (emit_label op m)) = true.
Proof. exact emit_top_ok. Qed.
Print Assumptions c36_emit_top_ok.

(* the consequence for two-way filer.sync: the child event of a recursive delete
   that came from the filer with signature 7 passes the filter towards that filer *)
Theorem c36_echo_after_recursive_delete :
  exists c ev,
    In (target_sig c) (em_sigs w_emit) /\ target_sig c <> 0%Z /\
    ev_sigs ev = fst (emit_label w_emit (nth 2 (em_evs w_emit) (nth 0 (em_evs w_emit) (Build_emitted "" false false false [] false)))) /\
    sync_filtered c ev <> Nothing.
Proof. exact echo_after_recursive_delete. Qed.
Print Assumptions c36_echo_after_recursive_delete.

(* non-vacuity: the hypotheses hold on a rename inside /data/ (written with a
   trailing slash) and the plan is the expected move; a move into the subtree
   creates the entry; the sibling /data2 is ignored; the former LocalSink witness
   history ends with the file at its new path *)
Local Open Scope string_scope.
Example c36_example :
  let c := {| src := "/data/"; tgt := "/backup"; incremental := false; sink_is_filer := true; target_sig := 7%Z |} in
  let e := fun n => {| e_name := n; e_isdir := false; e_date := "2021-03-04"; e_data := [] |} in
  let mv := {| ev_dir := "/data/a"; ev_old := Some (e "x"); ev_new := Some (e "y"); ev_new_parent := "/data/b";
               ev_delete_chunks := true; ev_from_other := false; ev_sigs := [3%Z] |} in
  let sib := {| ev_dir := "/data2"; ev_old := None; ev_new := Some (e "x"); ev_new_parent := "/data2";
                ev_delete_chunks := false; ev_from_other := false; ev_sigs := [] |} in
  wf_config c = true /\ wf_event mv = true /\ touches_root c mv = false /\
  sync_process c mv = UpdateOr (Update "/backup/a/x" "/backup/b" (e "y") true)
                               (Delete "/backup/a/x" false false) (Create "/backup/b/y" (e "y")) /\
  wf_event w_rename_in = true /\ touches_root w_cfg w_rename_in = false /\
  sync_process w_cfg w_rename_in = Do (Create "/backup/x" (w_entry "x")) /\
  wf_event sib = true /\ all_outside c sib = true /\ sync_process c sib = Nothing /\
  replicate c (event_key sib) sib = Nothing /\
  files_of (fst (run_local w_lcfg [] [w_lcreate; w_lrename])) = ["/t/b"] /\
  spec_files w_lcfg [w_lcreate; w_lrename] = ["/t/b"].
Proof. exact c36_example_holds. Qed.
Print Assumptions c36_example.
