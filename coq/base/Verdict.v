(* Shared verdict machinery for the correspondence check (DESIGN.md section 5).

   A [case] of a property carries the generated input together with the
   observables the Go implementation produced on it.  The property's check file
   (check/Cxx.v) defines, for one case:
     corr  : bool     model observables = implementation observables
     prop  : bool     the property's oracle evaluated on the IMPLEMENTATION's output
     trig  : option N the known-finding trigger the input falls under, if any
     nontr : bool     the case reached a non-trivial path
   and this file turns them into the code printed to the orchestrator.

   codes:  0      ok
           1      model and implementation differ; property holds on the impl output
           2      property fails on the impl output, model agrees, no known trigger
           3      model and implementation differ AND property fails on the impl output
           10+k   property fails on the impl output, model agrees, input is inside
                  the trigger set of known finding k (k >= 0)                      *)
From Coq Require Import List NArith Bool.
Import ListNotations.
Local Open Scope N_scope.

Record outcome := { o_corr : bool; o_prop : bool; o_trig : option N; o_nontrivial : bool }.

Definition code_of (o : outcome) : N :=
  match o_corr o, o_prop o with
  | true, true => 0
  | false, true => 1
  | false, false => 3
  | true, false => match o_trig o with Some k => 10 + k | None => 2 end
  end.

Record summary := {
  s_total : N;            (* cases evaluated *)
  s_nontrivial : N;       (* cases flagged non-trivial by the model side *)
  s_bad : list (N * N)    (* (case index, code) for every case with code <> 0 *)
}.

Fixpoint summarize_from {A : Type} (f : A -> outcome) (i : N) (l : list A) (acc : summary) : summary :=
  match l with
  | [] => {| s_total := s_total acc; s_nontrivial := s_nontrivial acc; s_bad := rev (s_bad acc) |}
  | c :: l' =>
      let o := f c in
      let k := code_of o in
      summarize_from f (i + 1) l'
        {| s_total := s_total acc + 1;
           s_nontrivial := if o_nontrivial o then s_nontrivial acc + 1 else s_nontrivial acc;
           s_bad := if k =? 0 then s_bad acc else (i, k) :: s_bad acc |}
  end.

Definition summarize {A : Type} (f : A -> outcome) (l : list A) : summary :=
  summarize_from f 0 l {| s_total := 0; s_nontrivial := 0; s_bad := [] |}.
