(* Go fixed-width integer semantics over Z, used by the generated gen/Funcs.v
   (harness/cmd/funcgen).  A value of a Go integer type of [bits] bits is a Z in the
   type's range; [wrap_s]/[wrap_u] bring the mathematical result of an operation back
   into the range exactly as two's-complement truncation does.  Go's / and % truncate
   toward zero: Z.quot / Z.rem. *)
From Coq Require Import ZArith Lia.
Local Open Scope Z_scope.

Definition wrap_u (bits x : Z) : Z := x mod 2 ^ bits.
Definition wrap_s (bits x : Z) : Z := (x + 2 ^ (bits - 1)) mod 2 ^ bits - 2 ^ (bits - 1).

(* ranges of the Go types *)
Definition in_u (bits x : Z) : Prop := 0 <= x < 2 ^ bits.
Definition in_s (bits x : Z) : Prop := - 2 ^ (bits - 1) <= x < 2 ^ (bits - 1).

Lemma pow2_split : forall bits, 0 < bits -> 2 ^ bits = 2 * 2 ^ (bits - 1).
Proof. intros. replace bits with (Z.succ (bits - 1)) at 1 by lia. rewrite Z.pow_succ_r; lia. Qed.

Lemma wrap_u_id : forall bits x, 0 <= x < 2 ^ bits -> wrap_u bits x = x.
Proof. intros. unfold wrap_u. apply Z.mod_small; assumption. Qed.

Lemma wrap_s_id : forall bits x, 0 < bits -> - 2 ^ (bits - 1) <= x < 2 ^ (bits - 1) -> wrap_s bits x = x.
Proof.
  intros bits x Hb H. unfold wrap_s. pose proof (pow2_split bits Hb) as E.
  rewrite Z.mod_small; lia.
Qed.

Lemma wrap_u_range : forall bits x, 0 <= bits -> in_u bits (wrap_u bits x).
Proof. intros. unfold in_u, wrap_u. apply Z.mod_pos_bound. apply Z.pow_pos_nonneg; lia. Qed.

Lemma wrap_s_range : forall bits x, 0 < bits -> in_s bits (wrap_s bits x).
Proof.
  intros bits x Hb. unfold in_s, wrap_s.
  assert (H : 0 <= (x + 2 ^ (bits - 1)) mod 2 ^ bits < 2 ^ bits)
    by (apply Z.mod_pos_bound; apply Z.pow_pos_nonneg; lia).
  pose proof (pow2_split bits Hb) as E. lia.
Qed.

(* the concrete widths, as closed inequalities lia can use *)
Lemma wrap_s64_id : forall x, -9223372036854775808 <= x < 9223372036854775808 -> wrap_s 64 x = x.
Proof. intros. apply wrap_s_id; [lia|]. change (2 ^ (64 - 1)) with 9223372036854775808. lia. Qed.
Lemma wrap_s32_id : forall x, -2147483648 <= x < 2147483648 -> wrap_s 32 x = x.
Proof. intros. apply wrap_s_id; [lia|]. change (2 ^ (32 - 1)) with 2147483648. lia. Qed.
Lemma wrap_s16_id : forall x, -32768 <= x < 32768 -> wrap_s 16 x = x.
Proof. intros. apply wrap_s_id; [lia|]. change (2 ^ (16 - 1)) with 32768. lia. Qed.
Lemma wrap_s8_id : forall x, -128 <= x < 128 -> wrap_s 8 x = x.
Proof. intros. apply wrap_s_id; [lia|]. change (2 ^ (8 - 1)) with 128. lia. Qed.
Lemma wrap_u64_id : forall x, 0 <= x < 18446744073709551616 -> wrap_u 64 x = x.
Proof. intros. apply wrap_u_id. change (2 ^ 64) with 18446744073709551616. lia. Qed.
Lemma wrap_u32_id : forall x, 0 <= x < 4294967296 -> wrap_u 32 x = x.
Proof. intros. apply wrap_u_id. change (2 ^ 32) with 4294967296. lia. Qed.
Lemma wrap_u16_id : forall x, 0 <= x < 65536 -> wrap_u 16 x = x.
Proof. intros. apply wrap_u_id. change (2 ^ 16) with 65536. lia. Qed.
Lemma wrap_u8_id : forall x, 0 <= x < 256 -> wrap_u 8 x = x.
Proof. intros. apply wrap_u_id. change (2 ^ 8) with 256. lia. Qed.

Lemma wrap_u8_mod : forall x, wrap_u 8 x = x mod 256.
Proof. reflexivity. Qed.
Lemma wrap_u32_mod : forall x, wrap_u 32 x = x mod 4294967296.
Proof. reflexivity. Qed.

(* reinterpreting a uint32 bit pattern as int32 (Go: int32(x) for x uint32) *)
Lemma wrap_s32_of_u32 : forall x, 0 <= x < 4294967296 ->
  wrap_s 32 x = if x <? 2147483648 then x else x - 4294967296.
Proof.
  intros x H. unfold wrap_s. change (2 ^ (32 - 1)) with 2147483648. change (2 ^ 32) with 4294967296.
  destruct (Z.ltb_spec x 2147483648).
  - rewrite Z.mod_small by lia. lia.
  - replace (x + 2147483648) with ((x - 2147483648) + 1 * 4294967296) by lia.
    rewrite Z.mod_add by lia. rewrite Z.mod_small by lia. lia.
Qed.

Global Opaque wrap_s wrap_u.
