(* C17, part 6: ChunkStreamReader (stream.go, not repaired).  On a file whose views are contiguous
   from offset 0 any sequence of Reads delivers the overlay; with a hole it does not (finding 0);
   Seek on a reader with an empty buffer positions correctly strictly inside the file, and wrongly at
   the end of it (finding 1). *)
From Coq Require Import List NArith ZArith Bool Arith Lia.
From Coq Require Import ZifyBool ZifyN ZifyNat.
From SW Require Import model.Chunks proof.ChunksProofs proof.ChunksOverlay proof.ChunksRead proof.ChunksStream.
Import ListNotations.
Local Open Scope N_scope.

(* what the reader still has to deliver: the unread part of the buffer, then the views not yet fetched *)
Definition csr_rest (src : chunk_source) (views : list chunk_view) (s : csr) : list N :=
  skipn (Z.to_nat (cs_bpos s)) (cs_buf s) ++ concat (map (fetch_view src) (skipn (cs_idx s) views)).

Lemma take_split : forall n (a b : list N),
  firstn n (a ++ b) = firstn n a ++ firstn (n - length (firstn n a)) (skipn (length (firstn n a)) a ++ b) /\
  skipn n (a ++ b) = skipn (n - length (firstn n a)) (skipn (length (firstn n a)) a ++ b) /\
  (length (a ++ b) <? n)%nat = (length (skipn (length (firstn n a)) a ++ b) <? n - length (firstn n a))%nat.
Proof.
  intros n a b. destruct (le_lt_dec n (length a)) as [H|H].
  - rewrite firstn_length_le by auto. rewrite Nat.sub_diag. simpl.
    rewrite firstn_app, skipn_app, app_length. replace (n - length a)%nat with 0%nat by lia. simpl.
    rewrite app_nil_r. repeat split; auto. apply Nat.ltb_ge. lia.
  - rewrite (firstn_all2 (n:=n) a) by lia. rewrite skipn_all. simpl.
    rewrite firstn_app, skipn_app, app_length. rewrite (firstn_all2 (n:=n) a) by lia. rewrite (skipn_all2 (n:=n) a) by lia. simpl.
    repeat split; auto. destruct (Nat.ltb_spec (length a + length b) n), (Nat.ltb_spec (length b) (n - length a)); auto; lia.
Qed.

Lemma skipn_nth_error : forall {A} (l : list A) i x, nth_error l i = Some x -> skipn i l = x :: skipn (S i) l.
Proof.
  induction l as [|y l IH]; intros [|i] x H; simpl in *; try discriminate.
  - inversion H. reflexivity.
  - apply IH. auto.
Qed.

Lemma skipn_skipn' : forall {A} x y (l : list A), skipn x (skipn y l) = skipn (y + x) l.
Proof.
  intros A x. induction y as [|y IH]; intros l; simpl; auto.
  destruct l as [|h l]; [destruct x; reflexivity|]. apply IH.
Qed.

Lemma csr_read_loop_spec : forall src views fuel s want,
  (0 <= cs_bpos s)%Z -> (want + (length views - cs_idx s) < fuel)%nat ->
  exists s', csr_read_loop fuel src views s want =
      CsrOk (firstn want (csr_rest src views s)) (length (csr_rest src views s) <? want)%nat s' /\
    (0 <= cs_bpos s')%Z /\ csr_rest src views s' = skipn want (csr_rest src views s).
Proof.
  intros src views. induction fuel as [|f IH]; intros s want Hp Hf; [lia|].
  destruct want as [|w].
  - exists s. simpl. repeat split; auto.
  - cbn [csr_read_loop]. destruct (csr_empty s) eqn:Ee.
    + unfold csr_empty in Ee.
      assert (Hb : skipn (Z.to_nat (cs_bpos s)) (cs_buf s) = []) by (apply skipn_all2; lia).
      destruct (nth_error views (cs_idx s)) as [w0|] eqn:En.
      * assert (Hi : (cs_idx s < length views)%nat) by (apply nth_error_Some; congruence).
        destruct (IH (csr_fetch src w0 (S (cs_idx s))) (S w)) as [s' [E1 [E2 E3]]]; [simpl; lia|simpl; lia|].
        assert (Hr : csr_rest src views (csr_fetch src w0 (S (cs_idx s))) = csr_rest src views s).
        { unfold csr_rest. rewrite Hb. simpl. rewrite (skipn_nth_error _ _ _ En). reflexivity. }
        rewrite Hr in *. exists s'. auto.
      * apply nth_error_None in En.
        assert (Hr : csr_rest src views s = []).
        { unfold csr_rest. rewrite Hb. rewrite skipn_all2 by lia. reflexivity. }
        rewrite Hr. exists s. simpl. rewrite Hr. repeat split; auto.
    + unfold csr_empty in Ee. destruct (cs_bpos s <? 0)%Z eqn:En; [lia|].
      set (a := skipn (Z.to_nat (cs_bpos s)) (cs_buf s)).
      set (b := concat (map (fetch_view src) (skipn (cs_idx s) views))).
      set (t := firstn (S w) a).
      assert (Hla : (1 <= length a)%nat) by (unfold a; rewrite skipn_length; lia).
      assert (Hlt : (1 <= length t)%nat).
      { unfold t. rewrite firstn_length. lia. }
      set (s2 := {| cs_idx := cs_idx s; cs_buf := cs_buf s; cs_boff := cs_boff s;
                    cs_bpos := (cs_bpos s + Z.of_nat (length t))%Z |}).
      destruct (IH s2 (S w - length t)%nat) as [s' [E1 [E2 E3]]]; [unfold s2; cbn [cs_bpos]; lia|unfold s2; cbn [cs_idx]; lia|].
      assert (Hr2 : csr_rest src views s2 = skipn (length t) a ++ b).
      { unfold csr_rest, s2, a, b. cbn [cs_bpos cs_buf cs_idx]. rewrite skipn_skipn'. f_equal. f_equal. lia. }
      rewrite E1. exists s'. rewrite Hr2 in *.
      destruct (take_split (S w) a b) as [T1 [T2 T3]]. fold t in T1, T2, T3.
      change (csr_rest src views s) with (a ++ b).
      rewrite T1, T2, T3. repeat split; auto.
Qed.

Theorem csr_read_spec : forall src views s want, (0 <= cs_bpos s)%Z ->
  exists s', csr_read src views s want =
      CsrOk (firstn want (csr_rest src views s)) (length (csr_rest src views s) <? want)%nat s' /\
    (0 <= cs_bpos s')%Z /\ csr_rest src views s' = skipn want (csr_rest src views s).
Proof. intros. unfold csr_read. apply csr_read_loop_spec; auto. lia. Qed.

(* a sequence of Read calls: the concatenation of what they return; None = a call panicked *)
Fixpoint csr_run (src : chunk_source) (views : list chunk_view) (s : csr) (wants : list nat) : option (list N) :=
  match wants with
  | [] => Some []
  | n :: r => match csr_read src views s n with
              | CsrPanic => None
              | CsrOk o _ s' => match csr_run src views s' r with Some o' => Some (o ++ o') | None => None end
              end
  end.

Lemma firstn_plus : forall {A} a b (l : list A), firstn (a + b) l = firstn a l ++ firstn b (skipn a l).
Proof.
  induction a as [|a IH]; intros b l; simpl; auto.
  destruct l as [|x l]; simpl; [rewrite firstn_nil; reflexivity|]. f_equal. apply IH.
Qed.

Theorem csr_run_spec : forall src views wants s, (0 <= cs_bpos s)%Z ->
  csr_run src views s wants = Some (firstn (fold_right Nat.add 0%nat wants) (csr_rest src views s)).
Proof.
  intros src views. induction wants as [|n r IH]; intros s Hp; simpl; auto.
  destruct (csr_read_spec src views s n Hp) as [s' [E1 [E2 E3]]]. rewrite E1.
  rewrite (IH s' E2), E3. rewrite firstn_plus. reflexivity.
Qed.

Lemma gapless_stream : forall src ws pos, views_gapless pos ws = true ->
  fst (stream_views src ws pos) = concat (map (fetch_view src) ws).
Proof.
  intros src. induction ws as [|w r IH]; intros pos H; simpl in *; auto.
  apply andb_prop in H. destruct H as [H1 H2]. specialize (IH _ H2).
  destruct (stream_views src r (cv_logic w + cv_size w)) as [out p']. simpl in *.
  replace (cv_logic w - pos) with 0 by lia. simpl. rewrite IH. reflexivity.
Qed.

Lemma gapless_end : forall src ws pos, views_gapless pos ws = true ->
  snd (stream_views src ws pos) = pos + csr_total ws.
Proof.
  intros src. induction ws as [|w r IH]; intros pos Hg; simpl in *; [lia|].
  apply andb_prop in Hg. destruct Hg as [G1 G2]. specialize (IH _ G2).
  destruct (stream_views src r (cv_logic w + cv_size w)) as [out p'] eqn:E. simpl in *. lia.
Qed.

(* the byte stream of a hole-free file is the overlay of [0, E), E = the end of the content *)
Lemma gapless_content : forall src fuel ms chunks d m,
  resolve fuel ms 0 max_int64 chunks = Some (d, m) -> NoDup (map key d) ->
  (forall c, In c d -> N.of_nat (length (src (c_fid c))) = c_size c) ->
  let V := view_from_chunks fuel ms chunks 0 max_int64 in
  views_gapless 0 V = true ->
  exists E, concat (map (fetch_view src) V) = map (overlay src d) (nrange 0 E) /\
            E = csr_total V /\
            (forall w, In w V -> N.of_nat (length (fetch_view src w)) = cv_size w) /\
            (forall p, E <= p -> p < max_int64 -> overlay_src d p = None).
Proof.
  intros src fuel ms chunks d m Hres Hn Hlen V Hg.
  destruct (window_views_facts src fuel ms chunks d m 0 max_int64 Hres Hn Hlen) as [HV [HVsrc Hw]].
  fold V in HV, HVsrc, Hw.
  destruct (stream_views_spec src V 0 HV) as [S1 [S2 [S3 S4]]].
  { intros w Hin. apply Hw. auto. }
  { intros w Hin. apply Hw. auto. }
  exists (snd (stream_views src V 0)).
  assert (HE : snd (stream_views src V 0) <= max_int64).
  { destruct S3 as [S3|[w [Hin S3]]]; [rewrite S3; unfold max_int64; lia|].
    destruct (Hw w Hin) as [_ [W2 _]]. rewrite S3. exact W2. }
  split; [|split; [|split]].
  - rewrite <- (gapless_stream src V 0 Hg). rewrite S4. apply map_ext_in. intros q Hq.
    apply in_nrange in Hq. unfold overlay. rewrite HVsrc.
    replace ((0 <=? q) && (q <? 0 + max_int64)) with true by lia. reflexivity.
  - rewrite (gapless_end src V 0 Hg). lia.
  - intros w Hin. destruct (Hw w Hin) as [_ [_ [[F1 F2] _]]]. rewrite F1.
    rewrite firstn_length, skipn_length. lia.
  - intros p Hp1 Hp2. specialize (HVsrc p).
    replace ((0 <=? p) && (p <? 0 + max_int64)) with true in HVsrc by lia. rewrite <- HVsrc.
    unfold src_of_views. rewrite views_find_none; auto. intros w Hin.
    specialize (S2 w Hin). unfold cvcovers. unfold cv_end in S2. lia.
Qed.

(* Reads: PARTIAL — on a file without holes every sequence of Read calls on a fresh reader delivers
   the overlay of [0, E) in order (never panics), and no chunk has a byte at or after E *)
Theorem csr_stream_partial : forall src fuel ms chunks d m,
  resolve fuel ms 0 max_int64 chunks = Some (d, m) -> NoDup (map key d) ->
  (forall c, In c d -> N.of_nat (length (src (c_fid c))) = c_size c) ->
  let V := view_from_chunks fuel ms chunks 0 max_int64 in
  views_gapless 0 V = true ->
  exists E,
    (forall wants, csr_run src V csr_new wants =
                   Some (firstn (fold_right Nat.add 0%nat wants) (map (overlay src d) (nrange 0 E)))) /\
    (forall p, E <= p -> p < max_int64 -> overlay_src d p = None).
Proof.
  intros src fuel ms chunks d m Hres Hn Hlen V Hg.
  destruct (gapless_content src fuel ms chunks d m Hres Hn Hlen Hg) as [E [C1 [_ [_ C4]]]]. fold V in C1.
  exists E. split; auto. intros wants. rewrite csr_run_spec by (simpl; lia).
  unfold csr_rest. simpl. rewrite C1. reflexivity.
Qed.

(* Seek(offset, io.SeekStart) on a reader whose buffer is empty (a fresh one, or one that has consumed
   exactly its buffer), strictly inside a hole-free stream: the reader is positioned at offset *)
Lemma seek_loop_empty : forall src ws i pos s off,
  csr_empty s = true -> views_gapless pos ws = true ->
  (forall w, In w ws -> N.of_nat (length (fetch_view src w)) = cv_size w) ->
  pos <= off -> off < pos + csr_total ws ->
  exists w j, csr_seek_loop src ws i (Z.of_N off) s = csr_fetch src w (S (i + j)) /\
    cv_logic w <= off /\
    skipn (N.to_nat (off - cv_logic w)) (fetch_view src w) ++ concat (map (fetch_view src) (skipn (S j) ws)) =
    skipn (N.to_nat (off - pos)) (concat (map (fetch_view src) ws)).
Proof.
  intros src. induction ws as [|w r IH]; intros i pos s off He Hg Hl H1 H2; [simpl in *; lia|].
  simpl in Hg, H2. cbn [csr_seek_loop map concat].
  apply andb_prop in Hg. destruct Hg as [G1 G2]. rewrite He. simpl.
  pose proof (Hl w (or_introl eq_refl)) as Hlw.
  destruct ((Z.of_N (cv_logic w) <=? Z.of_N off)%Z && (Z.of_N off <? Z.of_N (cv_logic w + cv_size w))%Z) eqn:Ec; simpl.
  - exists w, 0%nat. replace (i + 0)%nat with i by lia. split; auto. split; [lia|].
    rewrite skipn_app. replace (N.to_nat (off - pos) - length (fetch_view src w))%nat with 0%nat by lia.
    simpl. f_equal. f_equal. lia.
  - destruct (IH (S i) (cv_logic w + cv_size w) s off He G2 (fun w' Hw' => Hl w' (or_intror Hw'))) as [w' [j [E1 [E2 E3]]]];
      [lia|lia|].
    exists w', (S j). split; [rewrite E1; f_equal; lia|]. split; auto.
    change (skipn (S (S j)) (w :: r)) with (skipn (S j) r).
    rewrite E3. rewrite skipn_app. rewrite (skipn_all2 (fetch_view src w)) by lia. simpl. f_equal. lia.
Qed.

Theorem csr_seek_partial : forall src fuel ms chunks d m s off,
  resolve fuel ms 0 max_int64 chunks = Some (d, m) -> NoDup (map key d) ->
  (forall c, In c d -> N.of_nat (length (src (c_fid c))) = c_size c) ->
  let V := view_from_chunks fuel ms chunks 0 max_int64 in
  views_gapless 0 V = true -> csr_empty s = true ->
  exists E, off < E ->
    (let '(pos, err, s') := csr_seek src V s (Z.of_N off) 0 in
     pos = Z.of_N off /\ err = false /\
     forall wants, csr_run src V s' wants =
                   Some (firstn (fold_right Nat.add 0%nat wants) (map (overlay src d) (nrange off E)))) /\
    (forall p, E <= p -> p < max_int64 -> overlay_src d p = None).
Proof.
  intros src fuel ms chunks d m s off Hres Hn Hlen V Hg He.
  destruct (gapless_content src fuel ms chunks d m Hres Hn Hlen Hg) as [E [C1 [C2 [C3 C4]]]]. fold V in C1, C2, C3.
  exists E. intros Hoff. split; auto.
  destruct (seek_loop_empty src V 0 0 s off He Hg C3) as [w [j [E1 [E2 E3]]]]; [lia|lia|].
  unfold csr_seek. cbv zeta. rewrite E1. simpl cs_idx. simpl cs_buf. simpl cs_boff.
  split; auto. split; [lia|]. intros wants. rewrite csr_run_spec by (simpl; lia).
  unfold csr_rest. simpl cs_bpos. simpl cs_buf. simpl cs_idx.
  replace (Z.to_nat (Z.of_N off - Z.of_N (cv_logic w))) with (N.to_nat (off - cv_logic w)) by lia.
  rewrite E3. rewrite C1. f_equal. rewrite N.sub_0_r.
  (* skipn off (map f (nrange 0 E)) = map f (nrange off E) *)
  rewrite (nrange_split 0 off E) by lia. rewrite map_app, skipn_app.
  rewrite skipn_all2 by (rewrite map_length, nrange_length; lia).
  rewrite map_length, nrange_length. replace (N.to_nat off - N.to_nat (off - 0))%nat with 0%nat by lia.
  reflexivity.
Qed.

(* ---------- witnesses ---------- *)
Definition w_chunks := [Chunk 1 0 2 1 false; Chunk 2 5 2 2 false].
Definition w_src : chunk_source := fun f => match f with 1 => [11;12] | 2 => [21;22] | _ => [] end.

(* finding 0: a hole is dropped *)
Theorem csr_stream_refuted :
  exists src chunks wants,
    resolve 1 [] 0 max_int64 chunks = Some (chunks, []) /\ NoDup (map key chunks) /\
    (forall c, In c chunks -> N.of_nat (length (src (c_fid c))) = c_size c) /\
    map (overlay src chunks) (nrange 0 (total_size chunks)) = [11;12;0;0;0;21;22] /\
    csr_run src (view_from_chunks 1 [] chunks 0 max_int64) csr_new wants = Some [11;12;21;22] /\
    (exists s', csr_seek src (view_from_chunks 1 [] chunks 0 max_int64) csr_new 5 0 = (5%Z, true, s')).
Proof.
  exists w_src, w_chunks, [7%nat]. split; [vm_compute; reflexivity|]. split.
  - repeat (constructor; [simpl; intuition discriminate|]). constructor.
  - split.
    + intros c [H|[H|[]]]; subst; reflexivity.
    + split; [vm_compute; reflexivity|]. split; [vm_compute; reflexivity|]. eexists. vm_compute. reflexivity.
Qed.

(* finding 1: Seek to the end of a hole-free file, then Read: bytes of the first view instead of EOF *)
Definition w2_chunks := [Chunk 1 0 2 1 false; Chunk 2 2 2 2 false].
Theorem csr_seek_refuted :
  exists src chunks,
    resolve 1 [] 0 max_int64 chunks = Some (chunks, []) /\ NoDup (map key chunks) /\
    views_gapless 0 (view_from_chunks 1 [] chunks 0 max_int64) = true /\ total_size chunks = 4 /\
    let V := view_from_chunks 1 [] chunks 0 max_int64 in
    let '(pos, err, s') := csr_seek src V csr_new 4 0 in
    pos = 4%Z /\ err = false /\ exists s'', csr_read src V s' 2 = CsrOk [11;12] false s''.
Proof.
  exists w_src, w2_chunks. split; [vm_compute; reflexivity|]. split.
  - repeat (constructor; [simpl; intuition discriminate|]). constructor.
  - split; [vm_compute; reflexivity|]. split; [vm_compute; reflexivity|].
    vm_compute. split; auto. split; auto. eexists. reflexivity.
Qed.
