(* C04 proofs, part 2: shape of one step, monotonicity of a run, provenance of the records,
   and a read expressed through the record it parses. *)
From Coq Require Import List NArith ZArith Bool Lia.
From SW Require Import model.Volume model.Compaction proof.CompactionInv.
Import ListNotations.
Local Open Scope N_scope.

(* ---------- the two state changes ---------- *)
Definition put_state (s : cvol) (n : needle) (t : N) : cvol :=
  {| cv := with_nm (fst (fst (append (cv s) n t)))
                   (nm_set (nm (fst (fst (append (cv s) n t)))) (n_id n)
                           {| nv_off := dat_end (cv s); nv_size := Z.of_N (needle_size n) |});
     cidx := {| ie_key := n_id n; ie_off := dat_end (cv s); ie_size := Z.of_N (needle_size n) |} :: cidx s |}.

Definition del_state (s : cvol) (id c t : N) : cvol :=
  {| cv := with_nm (fst (fst (append (cv s) (tombstone id c) t)))
                   (nm_delete (nm (fst (fst (append (cv s) (tombstone id c) t)))) id);
     cidx := {| ie_key := id; ie_off := dat_end (cv s); ie_size := (-1)%Z |} :: cidx s |}.

Lemma c_write_shape : forall vt s n t, cinv s ->
  fst (c_write vt s n t) = s \/ fst (c_write vt s n t) = put_state s (adjust vt n) t.
Proof.
  intros vt s n t H. unfold c_write. destruct (is_read_only (cv s)); [left; reflexivity|].
  unfold c_do_write. set (n' := adjust vt n).
  destruct (ttl_str_empty vt && is_file_unchanged (cv s) n'); [left; reflexivity|].
  destruct (match nm_get (nm (cv s)) (n_id n') with
            | Some nv => match find_rec (recs (cv s)) (nv_off nv) with
                         | Some r => if n_cookie (r_n r) =? n_cookie n' then ENone else ECookie
                         | None => EOther end
            | None => ENone end) eqn:Ck; try (left; reflexivity).
  assert (Hnew : (match nm_get (nm (cv s)) (n_id n') with Some nv => nv_off nv <? dat_end (cv s) | None => true end) = true).
  { pose proof (ci_ent _ H (n_id n')) as He. unfold ent_ok in He.
    destruct (nm_get (nm (cv s)) (n_id n')) as [nv|]; [|reflexivity].
    destruct He as [Ho _]. apply N.ltb_lt. exact Ho. }
  change (snd (fst (append (cv s) n' t))) with (dat_end (cv s)).
  change (snd (append (cv s) n' t)) with (needle_size n').
  rewrite Hnew. right. reflexivity.
Qed.

Lemma c_delete_shape : forall s id c t,
  fst (fst (c_delete s id c t)) = s \/
  (fst (fst (c_delete s id c t)) = del_state s id c t /\
   exists nv, nm_get (nm (cv s)) id = Some nv /\ size_valid (nv_size nv) = true).
Proof.
  intros s id c t. unfold c_delete. destruct (no_write_or_delete (cv s)); [left; reflexivity|].
  destruct (nm_get (nm (cv s)) id) as [nv|] eqn:G; [|left; reflexivity].
  destruct (size_valid (nv_size nv)) eqn:V; [|left; reflexivity].
  right. split; [reflexivity|]. exists nv. auto.
Qed.

Lemma c_pad_shape : forall s off,
  c_pad s off = s \/
  (dat_end (cv s) < round8 off /\
   c_pad s off = {| cv := {| recs := recs (cv s); nm := nm (cv s); dat_end := round8 off;
                              no_write_or_delete := no_write_or_delete (cv s);
                              no_write_can_delete := no_write_can_delete (cv s) |};
                    cidx := cidx s |}).
Proof.
  intros s off. unfold c_pad. destruct (dat_end (cv s) <? round8 off) eqn:L; [|left; reflexivity].
  right. split; [apply N.ltb_lt; exact L | reflexivity].
Qed.

(* one step: what it adds *)
Definition step_adds (vt : N * N) (s s' : cvol) (ev : cevent) : Prop :=
  s' = s \/
  (exists n, snd ev = CWrite n /\ s' = put_state s (adjust vt n) (fst ev)) \/
  (exists id c, snd ev = CDelete id c /\ s' = del_state s id c (fst ev) /\
                exists nv, nm_get (nm (cv s)) id = Some nv /\ size_valid (nv_size nv) = true) \/
  (exists off, snd ev = CPad off /\ dat_end (cv s) < round8 off /\
               recs (cv s') = recs (cv s) /\ nm (cv s') = nm (cv s) /\ cidx s' = cidx s /\ dat_end (cv s') = round8 off).

Lemma c_step_adds : forall vt s ev, cinv s -> step_adds vt s (fst (c_step vt s ev)) ev.
Proof.
  intros vt s [t o] H. unfold step_adds. destruct o as [n|id c|off]; unfold c_step; cbn [fst snd].
  - destruct (c_write_shape vt s n t H) as [E|E]; rewrite E; [left; reflexivity|].
    right. left. exists n. auto.
  - destruct (c_delete_shape s id c t) as [E|[E Hx]]; rewrite E; [left; reflexivity|].
    right. right. left. exists id, c. auto.
  - destruct (c_pad_shape s off) as [E|[L E]]; rewrite E; [left; reflexivity|].
    right. right. right. exists off. simpl. auto 10.
Qed.

(* ---------- a run only appends ---------- *)
Record grows (s s' : cvol) : Prop := {
  g_recs : exists newr, recs (cv s') = newr ++ recs (cv s) /\ forall x, In x newr -> dat_end (cv s) <= r_off x;
  g_idx : exists d, cidx s' = d ++ cidx s;
  g_end : dat_end (cv s) <= dat_end (cv s')
}.

Lemma grows_refl : forall s, grows s s.
Proof. intro s. constructor; [exists []; split; [reflexivity | intros x []] | exists []; reflexivity | lia]. Qed.

Lemma grows_trans : forall a b c, grows a b -> grows b c -> grows a c.
Proof.
  intros a b c [[n1 [R1 B1]] [d1 I1] E1] [[n2 [R2 B2]] [d2 I2] E2]. constructor.
  - exists (n2 ++ n1). split; [rewrite R2, R1, app_assoc; reflexivity|].
    intros x Hx. apply in_app_or in Hx. destruct Hx as [Hx|Hx]; [specialize (B2 x Hx); lia | auto].
  - exists (d2 ++ d1). rewrite I2, I1, app_assoc. reflexivity.
  - lia.
Qed.

Lemma step_grows : forall vt s ev, cinv s -> grows s (fst (c_step vt s ev)).
Proof.
  intros vt s ev H. destruct (c_step_adds vt s ev H) as [E|[[n [_ E]]|[[id [c [_ [E _]]]]|[off [_ [L [R [M [I D]]]]]]]]].
  - rewrite E. apply grows_refl.
  - rewrite E. constructor; simpl.
    + eexists [_]. split; [reflexivity|]. intros x [<-|[]]. simpl. lia.
    + eexists [_]. reflexivity.
    + lia.
  - rewrite E. constructor; simpl.
    + eexists [_]. split; [reflexivity|]. intros x [<-|[]]. simpl. lia.
    + eexists [_]. reflexivity.
    + lia.
  - constructor.
    + exists []. split; [rewrite R; reflexivity | intros x []].
    + exists []. rewrite I. reflexivity.
    + rewrite D. lia.
Qed.

Lemma exec_grows : forall vt h s, cinv s -> grows s (c_exec vt s h).
Proof.
  induction h as [|ev h IH]; intros s H; [apply grows_refl|].
  unfold c_exec. simpl. eapply grows_trans; [apply step_grows; exact H|].
  apply IH. apply c_step_inv. exact H.
Qed.

(* lookups of old records survive a run *)
Lemma grows_find : forall s s' off r, cinv s -> grows s s' ->
  find_rec (recs (cv s)) off = Some r -> find_rec (recs (cv s')) off = Some r.
Proof.
  intros s s' off r H [[newr [R B]] _ _] Hf. rewrite R. apply find_rec_app_old; [exact Hf|].
  intros x Hx Heq. specialize (B x Hx).
  pose proof (find_rec_off _ _ _ Hf) as Ho. pose proof (find_rec_In _ _ _ Hf) as Hin.
  destruct (sorted_recs_bound _ _ _ (ci_sorted _ H) Hin) as [_ Hb].
  pose proof (actual_size_pos (r_size r)). lia.
Qed.

(* ---------- no entry of size 0 when no empty payload is written ---------- *)
Definition nozero (s : cvol) : Prop := forall k nv, nm_get (nm (cv s)) k = Some nv -> nv_size nv <> 0%Z.

Lemma needle_size_pos : forall n, blen (n_data n) =? 0 = false -> 0 < needle_size n.
Proof.
  intros n H. apply N.eqb_neq in H. unfold needle_size.
  assert (L : 0 <? blen (n_data n) = true) by (apply N.ltb_lt; lia). rewrite L. lia.
Qed.

Lemma adjust_data : forall vt n, n_data (adjust vt n) = n_data n.
Proof. intros. unfold adjust. destruct (ttl_is_empty (n_ttl n) && negb (ttl_is_empty vt)); reflexivity. Qed.
Lemma adjust_id : forall vt n, n_id (adjust vt n) = n_id n.
Proof. intros. unfold adjust. destruct (ttl_is_empty (n_ttl n) && negb (ttl_is_empty vt)); reflexivity. Qed.

Definition ev_nonempty (ev : cevent) : Prop :=
  match snd ev with CWrite n => blen (n_data n) =? 0 = false | _ => True end.

Lemma has_empty_false : forall h, has_empty h = false -> forall ev, In ev h -> ev_nonempty ev.
Proof.
  intros h H ev Hin. unfold has_empty in H.
  assert (Hx : (match ev_needle ev with Some n => blen (n_data n) =? 0 | None => false end) = false).
  { destruct (match ev_needle ev with Some n => blen (n_data n) =? 0 | None => false end) eqn:E; [|reflexivity].
    rewrite <- H. symmetry. apply existsb_exists. exists ev. auto. }
  unfold ev_nonempty, ev_needle in *. destruct (snd ev); auto.
Qed.

Lemma step_nozero : forall vt s ev, cinv s -> nozero s -> ev_nonempty ev -> nozero (fst (c_step vt s ev)).
Proof.
  intros vt s ev H Hz Hne.
  destruct (c_step_adds vt s ev H) as [E|[[n [En E]]|[[id [c [_ [E [nv [G V]]]]]]|[off [_ [L [R [M [I D]]]]]]]]].
  - rewrite E. exact Hz.
  - rewrite E. intros k v. simpl. destruct (n_id (adjust vt n) =? k).
    + intro Hv. inversion Hv; subst. simpl. unfold ev_nonempty in Hne. rewrite En in Hne.
      pose proof (needle_size_pos (adjust vt n)) as Hp. rewrite adjust_data in Hp. specialize (Hp Hne). lia.
    + apply Hz.
  - rewrite E. intros k v. simpl. unfold nm_delete. rewrite G, V. simpl. destruct (id =? k).
    + intro Hv. inversion Hv; subst. simpl. apply size_valid_pos in V. lia.
    + apply Hz.
  - intros k v. rewrite M. apply Hz.
Qed.

Lemma exec_nozero : forall vt h s, cinv s -> nozero s -> (forall ev, In ev h -> ev_nonempty ev) -> nozero (c_exec vt s h).
Proof.
  induction h as [|ev h IH]; intros s H Hz Hne; [exact Hz|].
  unfold c_exec. simpl. apply IH.
  - apply c_step_inv. exact H.
  - apply step_nozero; [exact H | exact Hz | apply Hne; left; reflexivity].
  - intros e He. apply Hne. right. exact He.
Qed.

Lemma nozero_init : nozero cinit.
Proof. intros k nv. simpl. discriminate. Qed.

(* ---------- where the records come from ---------- *)
Definition from_write (vt : N * N) (h : list cevent) (r : rec) : Prop :=
  exists n0, In (r_at r, CWrite n0) h /\ r_n r = adjust vt n0.

Lemma exec_provenance : forall vt h s r, cinv s ->
  In r (recs (cv (c_exec vt s h))) -> In r (recs (cv s)) \/ r_size r = 0 \/ from_write vt h r.
Proof.
  induction h as [|ev h IH]; intros s r H Hin; [left; exact Hin|].
  unfold c_exec in Hin. simpl in Hin. fold (c_exec vt (fst (c_step vt s ev)) h) in Hin.
  destruct (IH _ _ (c_step_inv vt s ev H) Hin) as [Hr|[Hz|[n0 [Hn Hr]]]].
  - destruct (c_step_adds vt s ev H) as [E|[[n [En E]]|[[id [c [_ [E _]]]]|[off [_ [L [R _]]]]]]].
    + rewrite E in Hr. left. exact Hr.
    + rewrite E in Hr. simpl in Hr. destruct Hr as [<-|Hr]; [|left; exact Hr].
      right. right. exists n. simpl. split; [|reflexivity]. left. destruct ev as [t o]. simpl in *. subst o. reflexivity.
    + rewrite E in Hr. simpl in Hr. destruct Hr as [<-|Hr]; [|left; exact Hr].
      right. left. reflexivity.
    + rewrite R in Hr. left. exact Hr.
  - right. left. exact Hz.
  - right. right. exists n0. split; [right; exact Hn | exact Hr].
Qed.

(* ---------- a read, through the record it parses ---------- *)
Definition live (m : nmap) (k : N) : option (N * Z) :=
  match nm_get m k with
  | Some nv => if nv_off nv =? 0 then None else if size_deleted (nv_size nv) then None else Some (nv_off nv, nv_size nv)
  | None => None
  end.

Definition payload := (N * N * needle)%type.       (* header Size, AppendAtNs, needle *)
Definition pl (r : rec) : payload := (r_size r, r_at r, r_n r).

Definition content (st : vol) (k : N) : option payload :=
  match live (nm st) k with
  | Some (off, size) => match read_data st off size with Some r => Some (pl r) | None => None end
  | None => None
  end.

Definition view_pl (p : payload) : view :=
  if 0 <? fst (fst p) then view_of (snd p) else blank_view (n_cookie (snd p)).

Definition read_pl (now : N) (p : payload) : option (Z * view) :=
  if view_expired (view_pl p) (snd (fst p)) now then None
  else Some (Z.of_N (blen (v_data (view_pl p))), view_pl p).

Lemma view_of_rec_pl : forall r, view_of_rec r = view_pl (pl r).
Proof. reflexivity. Qed.

Lemma read_char : forall st k c now,
  (forall nv, nm_get (nm st) k = Some nv -> nv_size nv <> 0%Z) ->
  readable (store_read st k c false now) =
  match content st k with Some p => read_pl now p | None => None end.
Proof.
  intros st k c now Hz. unfold store_read, content, live.
  destruct (nm_get (nm st) k) as [nv|] eqn:G; [|reflexivity].
  specialize (Hz nv eq_refl).
  destruct (nv_off nv =? 0); [reflexivity|].
  destruct (size_deleted (nv_size nv)) eqn:D; [reflexivity|].
  assert (Z0 : (nv_size nv =? 0)%Z = false) by (apply Z.eqb_neq; exact Hz). rewrite Z0.
  destruct (read_data st (nv_off nv) (nv_size nv)) as [r|]; [|reflexivity].
  unfold read_pl. rewrite view_of_rec_pl. simpl snd. simpl fst.
  destruct (view_expired (view_pl (pl r)) (r_at r) now); reflexivity.
Qed.

(* whatever the entry: a key the map does not hold alive cannot be read *)
Lemma read_dead : forall st k c now, live (nm st) k = None -> readable (store_read st k c false now) = None.
Proof.
  intros st k c now H. unfold store_read. unfold live in H.
  destruct (nm_get (nm st) k) as [nv|]; [|reflexivity].
  destruct (nv_off nv =? 0); [reflexivity|].
  destruct (size_deleted (nv_size nv)); [reflexivity | discriminate].
Qed.
