(* Proofs about the incremental-backup model (C37). *)
From Coq Require Import List NArith ZArith Bool Arith Lia Sorted.
From Coq Require Import ZifyBool ZifyN ZifyNat.
From SW Require Import model.Backup.
Import ListNotations.
Local Open Scope N_scope.
Ltac Zify.zify_post_hook ::= Z.div_mod_to_equations.

(* ---------- latest / live_lookup ---------- *)

Lemma latest_app : forall a b k,
  latest (a ++ b) k = match latest b k with Some x => Some x | None => latest a k end.
Proof.
  induction a as [|r a IH]; intros b k; cbn [app latest].
  - destruct (latest b k); reflexivity.
  - rewrite IH. destruct (latest b k); [reflexivity|]. reflexivity.
Qed.

Lemma latest_some : forall l k r, latest l k = Some r -> r_key r = k /\ In r l.
Proof.
  induction l as [|x l IH]; intros k r H; cbn [latest] in H; [discriminate|].
  destruct (latest l k) as [y|] eqn:E.
  - inversion H; subst y. destruct (IH _ _ E) as [H1 H2]. split; [exact H1 | right; exact H2].
  - destruct (r_key x =? k) eqn:Ek; [|discriminate]. inversion H; subst x.
    apply N.eqb_eq in Ek. split; [exact Ek | left; reflexivity].
Qed.

Lemma latest_none_notin : forall l k, latest l k = None -> ~ In k (map r_key l).
Proof.
  induction l as [|x l IH]; intros k H; cbn [latest] in H; [intros []|].
  destruct (latest l k) eqn:E; [discriminate|].
  destruct (r_key x =? k) eqn:Ek; [discriminate|]. apply N.eqb_neq in Ek.
  cbn [map]. intros [Hx | Hx]; [exact (Ek Hx) | exact (IH _ E Hx)].
Qed.

Lemma live_lookup_some : forall l k r, live_lookup l k = Some r -> r_key r = k /\ In r l /\ r_live r = true.
Proof.
  unfold live_lookup. intros l k r H. destruct (latest l k) as [x|] eqn:E; [|discriminate].
  destruct (r_live x) eqn:El; [|discriminate]. inversion H; subst x.
  destruct (latest_some _ _ _ E) as [H1 H2]. auto.
Qed.

Lemma live_lookup_app : forall a b k,
  live_lookup (a ++ b) k =
  match latest b k with Some r => if r_live r then Some r else None | None => live_lookup a k end.
Proof.
  intros a b k. unfold live_lookup. rewrite latest_app. destruct (latest b k); reflexivity.
Qed.

Lemma live_lookup_app_cong : forall a a' b,
  (forall k, live_lookup a k = live_lookup a' k) ->
  forall k, live_lookup (a ++ b) k = live_lookup (a' ++ b) k.
Proof. intros a a' b H k. rewrite !live_lookup_app. destruct (latest b k); [reflexivity | apply H]. Qed.

Lemma latest_skipn : forall n l k r, latest (skipn n l) k = Some r -> latest l k = Some r.
Proof.
  intros n l k r H. rewrite <- (firstn_skipn n l) at 1. rewrite latest_app, H. reflexivity.
Qed.

(* re-appending records the backup already reflects leaves every lookup unchanged *)
Lemma replay_suffix_idempotent : forall B P n,
  (forall k, live_lookup B k = live_lookup P k) ->
  forall k, live_lookup (B ++ skipn n P) k = live_lookup P k.
Proof.
  intros B P n H k. rewrite live_lookup_app.
  destruct (latest (skipn n P) k) as [r|] eqn:E.
  - unfold live_lookup. rewrite (latest_skipn _ _ _ _ E). reflexivity.
  - apply H.
Qed.

Lemma read_of_lookup : forall v w,
  (forall k, live_lookup (recs v) k = live_lookup (recs w) k) -> forall k, read v k = read w k.
Proof. intros v w H k. unfold read. rewrite H. reflexivity. Qed.

Theorem replay_idempotent_reads : forall bkv srcv n,
  (forall k, live_lookup (recs bkv) k = live_lookup (recs srcv) k) ->
  forall k, read {| recs := recs bkv ++ skipn n (recs srcv); rev := rev bkv |} k = read srcv k.
Proof.
  intros bkv srcv n H k. unfold read. cbn [recs].
  rewrite (replay_suffix_idempotent _ _ n H). reflexivity.
Qed.

(* ---------- compaction ---------- *)

Lemma latest_live_rec_other : forall l x k, x <> k -> latest (live_rec l x) k = None.
Proof.
  intros l x k Hne. unfold live_rec. destruct (live_lookup l x) as [r|] eqn:E; [|reflexivity].
  destruct (live_lookup_some _ _ _ E) as [Hk _]. cbn [latest].
  destruct (r_key r =? k) eqn:Ek; [|reflexivity]. apply N.eqb_eq in Ek. congruence.
Qed.

Lemma latest_live_rec_same : forall l k, latest (live_rec l k) k = live_lookup l k.
Proof.
  intros l k. unfold live_rec. destruct (live_lookup l k) as [r|] eqn:E; [|reflexivity].
  destruct (live_lookup_some _ _ _ E) as [Hk _]. cbn [latest]. rewrite Hk, N.eqb_refl. reflexivity.
Qed.

Lemma latest_flat_map : forall l ks k,
  latest (flat_map (live_rec l) ks) k = if existsb (N.eqb k) ks then live_lookup l k else None.
Proof.
  intros l ks k. induction ks as [|x ks IH]; [reflexivity|].
  cbn [flat_map existsb]. rewrite latest_app, IH.
  destruct (k =? x) eqn:Ekx.
  - apply N.eqb_eq in Ekx; subst x. cbn [orb].
    destruct (existsb (N.eqb k) ks).
    + destruct (live_lookup l k) eqn:E; [reflexivity|]. rewrite latest_live_rec_same. exact E.
    + apply latest_live_rec_same.
  - apply N.eqb_neq in Ekx. cbn [orb].
    destruct (existsb (N.eqb k) ks).
    + destruct (live_lookup l k); [reflexivity|]. apply latest_live_rec_other. congruence.
    + apply latest_live_rec_other. congruence.
Qed.

Lemma insert_key_in : forall k l y, In y (insert_key k l) <-> y = k \/ In y l.
Proof.
  intros k l y. induction l as [|x l IH]; cbn [insert_key].
  - cbn. intuition.
  - destruct (k <? x) eqn:E1.
    + cbn [In]. intuition.
    + destruct (k =? x) eqn:E2.
      * apply N.eqb_eq in E2; subst x. cbn [In]. intuition.
      * cbn [In]. rewrite IH. intuition.
Qed.

Lemma keys_sorted_in : forall l y, In y (keys_sorted l) <-> In y (map r_key l).
Proof.
  unfold keys_sorted. induction l as [|x l IH]; intros y; cbn [map fold_right].
  - reflexivity.
  - rewrite insert_key_in, IH. cbn [In]. intuition.
Qed.

Lemma existsb_eqb_in : forall k ks, existsb (N.eqb k) ks = true <-> In k ks.
Proof.
  intros k ks. rewrite existsb_exists. split.
  - intros [x [Hin He]]. apply N.eqb_eq in He. subst x. exact Hin.
  - intros Hin. exists k. split; [exact Hin | apply N.eqb_refl].
Qed.

(* Compact2 + CommitCompact keep exactly the live entries *)
Lemma live_lookup_compact : forall l k, live_lookup (compact l) k = live_lookup l k.
Proof.
  intros l k. unfold compact. unfold live_lookup at 1. rewrite latest_flat_map.
  destruct (existsb (N.eqb k) (keys_sorted l)) eqn:E.
  - destruct (live_lookup l k) as [r|] eqn:El; [|reflexivity].
    destruct (live_lookup_some _ _ _ El) as [_ [_ Hl]]. rewrite Hl. reflexivity.
  - assert (Hn : ~ In k (map r_key l)).
    { rewrite <- keys_sorted_in, <- existsb_eqb_in, E. discriminate. }
    unfold live_lookup. destruct (latest l k) as [r|] eqn:El; [|reflexivity].
    destruct (latest_some _ _ _ El) as [Hk Hin]. exfalso. apply Hn. rewrite <- Hk. apply in_map. exact Hin.
Qed.

Lemma compact_in : forall l r, In r (compact l) -> In r l /\ r_live r = true /\ live_lookup l (r_key r) = Some r.
Proof.
  intros l r H. unfold compact in H. apply in_flat_map in H. destruct H as [k [_ Hr]].
  unfold live_rec in Hr. destruct (live_lookup l k) as [x|] eqn:E; [|destruct Hr].
  destruct Hr as [Hr|[]]. subst x. destruct (live_lookup_some _ _ _ E) as [Hk [Hin Hl]].
  rewrite Hk. auto.
Qed.

(* the compacted index is strictly key-ordered *)
Definition key_lt (a b : rec) : Prop := r_key a < r_key b.

Lemma insert_key_sorted : forall k l, StronglySorted N.lt l -> StronglySorted N.lt (insert_key k l).
Proof.
  intros k l H. induction H as [|x l Hs IH Hf]; cbn [insert_key].
  - constructor; constructor.
  - destruct (k <? x) eqn:E1.
    + apply N.ltb_lt in E1. constructor.
      * constructor; assumption.
      * constructor; [exact E1|]. rewrite Forall_forall in *. intros y Hy. specialize (Hf y Hy). lia.
    + destruct (k =? x) eqn:E2.
      * constructor; assumption.
      * apply N.ltb_ge in E1. apply N.eqb_neq in E2. constructor; [exact IH|].
        rewrite Forall_forall in *. intros y Hy. apply insert_key_in in Hy. destruct Hy as [Hy|Hy].
        -- subst y. lia.
        -- apply Hf; exact Hy.
Qed.

Lemma keys_sorted_sorted : forall l, StronglySorted N.lt (keys_sorted l).
Proof.
  unfold keys_sorted. induction l as [|x l IH]; cbn [map fold_right]; [constructor|].
  apply insert_key_sorted. exact IH.
Qed.

Lemma flat_map_sorted : forall l ks, StronglySorted N.lt ks ->
  StronglySorted key_lt (flat_map (live_rec l) ks) /\
  (forall r, In r (flat_map (live_rec l) ks) -> In (r_key r) ks).
Proof.
  intros l ks H. induction H as [|x ks Hs IH Hf]; cbn [flat_map].
  - split; [constructor | intros r []].
  - destruct IH as [IH1 IH2]. unfold live_rec at 1 3.
    destruct (live_lookup l x) as [r0|] eqn:E; cbn [app].
    + destruct (live_lookup_some _ _ _ E) as [Hk _]. split.
      * constructor; [exact IH1|]. rewrite Forall_forall. intros y Hy. unfold key_lt. rewrite Hk.
        rewrite Forall_forall in Hf. apply Hf. apply IH2. exact Hy.
      * intros r [Hr|Hr]; [subst r0; left; symmetry; exact Hk | right; apply IH2; exact Hr].
    + split; [exact IH1 | intros r Hr; right; apply IH2; exact Hr].
Qed.

Theorem compact_sorted_live : forall l,
  StronglySorted key_lt (compact l) /\ (forall r, In r (compact l) -> r_live r = true).
Proof.
  intros l. split.
  - apply flat_map_sorted. apply keys_sorted_sorted.
  - intros r Hr. apply compact_in in Hr. tauto.
Qed.

(* ---------- the binary search ---------- *)

(* it never starts after position j when everything from j on is newer than [since] *)
Lemma bsearch_loop_not_late : forall fuel ts since l h j,
  (l <= j)%nat -> (h <= length ts)%nat ->
  (forall i, (j <= i < length ts)%nat -> since < nth i ts 0) ->
  (bsearch_loop fuel ts since l h <= j)%nat.
Proof.
  induction fuel as [|f IH]; intros ts since l h j Hl Hh Hnew; cbn [bsearch_loop]; [exact Hl|].
  destruct (l <? h)%nat eqn:Elh; [|exact Hl].
  apply Nat.ltb_lt in Elh.
  assert (Hm : (l <= (l + h) / 2 < h)%nat) by lia.
  destruct (nth ((l + h) / 2) ts 0 <=? since) eqn:Ets.
  - apply IH; [|exact Hh|exact Hnew].
    apply N.leb_le in Ets.
    destruct (Nat.lt_ge_cases ((l + h) / 2) j) as [Hlt|Hge]; [lia|].
    exfalso. specialize (Hnew ((l + h) / 2)%nat). lia.
  - apply IH; [exact Hl|lia|exact Hnew].
Qed.

(* with enough fuel the loop stops at a tested boundary *)
Lemma bsearch_loop_boundary : forall fuel ts since l h,
  (l <= h)%nat -> (h - l < fuel)%nat ->
  let r := bsearch_loop fuel ts since l h in
  (l <= r <= h)%nat /\ (r = h \/ since < nth r ts 0) /\ (r = l \/ nth (r - 1) ts 0 <= since).
Proof.
  induction fuel as [|f IH]; intros ts since l h Hlh Hf; [lia|].
  cbn [bsearch_loop]. destruct (l <? h)%nat eqn:Elh.
  - apply Nat.ltb_lt in Elh.
    assert (Hm : (l <= (l + h) / 2 < h)%nat) by lia.
    destruct (nth ((l + h) / 2) ts 0 <=? since) eqn:Ets.
    + apply N.leb_le in Ets.
      destruct (IH ts since (S ((l + h) / 2)) h ltac:(lia) ltac:(lia)) as [H1 [H2 H3]].
      cbv zeta. split; [lia|]. split; [exact H2|].
      destruct H3 as [H3|H3]; [|right; exact H3].
      right. rewrite H3. replace (S ((l + h) / 2) - 1)%nat with ((l + h) / 2)%nat by lia. exact Ets.
    + apply N.leb_gt in Ets.
      destruct (IH ts since l ((l + h) / 2)%nat ltac:(lia) ltac:(lia)) as [H1 [H2 H3]].
      cbv zeta. split; [lia|]. split; [|exact H3].
      destruct H2 as [H2|H2]; [|right; exact H2]. right. rewrite H2. exact Ets.
  - apply Nat.ltb_ge in Elh. cbv zeta. split; [lia|]. split; [left; lia | left; reflexivity].
Qed.

Lemma nth_in_skipn : forall (A : Type) (d : A) j (l : list A) i,
  (j <= i < length l)%nat -> In (nth i l d) (skipn j l).
Proof.
  intros A d. induction j as [|j IH]; intros l i H.
  - cbn [skipn]. apply nth_In. lia.
  - destruct l as [|x l]; [cbn in H; lia|]. destruct i as [|i]; [lia|].
    cbn [skipn nth]. apply IH. cbn [length] in H. lia.
Qed.

Lemma nth_map_ts : forall l i, (i < length l)%nat ->
  nth i (map r_ts l) 0 = r_ts (nth i l {| r_key := 0; r_ts := 0; r_live := false; r_val := 0; r_len := 0 |}).
Proof.
  intros l i H.
  change 0 with (r_ts {| r_key := 0; r_ts := 0; r_live := false; r_val := 0; r_len := 0 |}) at 1.
  apply map_nth.
Qed.

(* key lemma: if every record from position j on is newer than [since], the search
   never starts after j (and "nothing newer" is answered only when j is the end) *)
Theorem search_not_late : forall (l : list rec) since j,
  (j <= length l)%nat ->
  (forall r, In r (skipn j l) -> since < r_ts r) ->
  match binary_search_by_append_ns l since with
  | Some p => (p <= j)%nat /\ (p < length l)%nat
  | None => j = length l
  end.
Proof.
  intros l since j Hj Hnew. unfold binary_search_by_append_ns. rewrite map_length.
  assert (Hle : (bsearch_loop (S (length l)) (map r_ts l) since 0 (length l) <= j)%nat).
  { apply bsearch_loop_not_late; [lia | rewrite map_length; lia |].
    intros i Hi. rewrite map_length in Hi. rewrite nth_map_ts by lia.
    apply Hnew. apply nth_in_skipn. exact Hi. }
  destruct (bsearch_loop_boundary (S (length l)) (map r_ts l) since 0 (length l) ltac:(lia) ltac:(lia)) as [Hb _].
  destruct (_ =? length l)%nat eqn:E.
  - apply Nat.eqb_eq in E. lia.
  - apply Nat.eqb_neq in E. lia.
Qed.

(* on any index the search stops at a boundary: the entry it starts at is newer than
   [since] and the entry just before it is not *)
Theorem search_boundary : forall (l : list rec) since,
  let ts := map r_ts l in
  match binary_search_by_append_ns l since with
  | Some p => (p < length l)%nat /\ since < nth p ts 0 /\ (p = 0%nat \/ nth (p - 1) ts 0 <= since)
  | None => l = [] \/ nth (length l - 1) ts 0 <= since
  end.
Proof.
  intros l since ts. unfold binary_search_by_append_ns. fold ts.
  replace (length ts) with (length l) by (unfold ts; rewrite map_length; reflexivity).
  destruct (bsearch_loop_boundary (S (length l)) ts since 0 (length l) ltac:(lia) ltac:(lia)) as [Hb [H2 H3]].
  set (p := bsearch_loop (S (length l)) ts since 0 (length l)) in *.
  destruct (Nat.eqb p (length l)) eqn:E.
  - apply Nat.eqb_eq in E. rewrite E in H3. destruct H3 as [H3|H3]; [|right; exact H3].
    left. destruct l; [reflexivity | cbn in H3; lia].
  - apply Nat.eqb_neq in E. split; [lia|]. split; [destruct H2 as [H2|H2]; [lia | exact H2] | exact H3].
Qed.

(* ---------- one backup run ---------- *)

Lemma last_map_bound : forall (l : list rec) c,
  (forall r, In r l -> r_ts r <= c) -> find_last_append_ns l <= c.
Proof.
  intros l c H. unfold find_last_append_ns.
  destruct l as [|x l]; [cbn; lia|].
  assert (Hin : In (last (map r_ts (x :: l)) 0) (map r_ts (x :: l))).
  { destruct (exists_last (l := map r_ts (x :: l))) as [l' [a Ha]]; [discriminate|].
    rewrite Ha, last_last. apply in_or_app. right. left. reflexivity. }
  apply in_map_iff in Hin. destruct Hin as [r [Hr Hin]]. rewrite <- Hr. apply H. exact Hin.
Qed.

Lemma incremental_converges : forall S B P A c,
  recs S = P ++ A ->
  (forall r, In r A -> c < r_ts r) ->
  (forall r, In r (recs B) -> r_ts r <= c) ->
  (forall k, live_lookup (recs B) k = live_lookup P k) ->
  let B' := incremental_backup S B in
  (forall k, live_lookup (recs B') k = live_lookup (recs S) k) /\
  (forall r, In r (recs B') -> In r (recs B) \/ In r (recs S)).
Proof.
  intros S B P A c HS HA HB Hll. unfold incremental_backup.
  pose proof (last_map_bound _ _ HB) as Hsince.
  pose proof (search_not_late (recs S) (find_last_append_ns (recs B)) (length P)) as Hs.
  rewrite HS in Hs. rewrite app_length in Hs. specialize (Hs ltac:(lia)).
  rewrite skipn_app, skipn_all, Nat.sub_diag in Hs. cbn [skipn app] in Hs.
  specialize (Hs (fun r Hr => N.le_lt_trans _ _ _ Hsince (HA r Hr))).
  rewrite <- HS in Hs.
  destruct (binary_search_by_append_ns (recs S) (find_last_append_ns (recs B))) as [p|].
  - destruct Hs as [Hp _]. cbn [recs]. split.
    + intros k. rewrite HS, skipn_app. replace (p - length P)%nat with 0%nat by lia. cbn [skipn].
      rewrite app_assoc.
      rewrite (live_lookup_app_cong (recs B ++ skipn p P) P A (replay_suffix_idempotent _ _ p Hll)).
      reflexivity.
    + intros r Hr. apply in_app_or in Hr. destruct Hr as [Hr|Hr]; [left; exact Hr|].
      right. rewrite <- (firstn_skipn p (recs S)). apply in_or_app. right. exact Hr.
  - assert (HA0 : A = []) by (destruct A; [reflexivity | cbn [length] in Hs; lia]).
    subst A. rewrite app_nil_r in HS. split.
    + intros k. rewrite HS. apply Hll.
    + intros r Hr. left. exact Hr.
Qed.

Lemma backup_run_converges : forall S B P A c,
  recs S = P ++ A ->
  (forall r, In r (recs S) -> 0 < r_ts r) ->
  (forall r, In r A -> c < r_ts r) ->
  (forall r, In r (recs B) -> r_ts r <= c) ->
  (forall k, live_lookup (recs B) k = live_lookup P k) ->
  let B' := backup_run S B in
  (forall k, live_lookup (recs B') k = live_lookup (recs S) k) /\
  (forall r, In r (recs B') -> In r (recs B) \/ In r (recs S)).
Proof.
  intros S B P A c HS Hpos HA HB Hll. unfold backup_run.
  set (bk1 := if rev B <? rev S then {| recs := compact (recs B); rev := rev S |} else B).
  assert (H1 : (forall r, In r (recs bk1) -> In r (recs B)) /\
               (forall k, live_lookup (recs bk1) k = live_lookup (recs B) k)).
  { unfold bk1. destruct (rev B <? rev S); cbn [recs].
    - split; [intros r Hr; apply compact_in in Hr; tauto | apply live_lookup_compact].
    - split; auto. }
  destruct H1 as [H1a H1b].
  destruct (dat_size S <? dat_size bk1).
  - (* destroyed and recreated: a full copy *)
    destruct (incremental_converges S empty_vol [] (recs S) 0 eq_refl Hpos
                (fun r (Hr : In r []) => match Hr with end) (fun k => eq_refl)) as [Ha Hb].
    split; [exact Ha|]. intros r Hr. destruct (Hb r Hr) as [[]|Hr']. right. exact Hr'.
  - destruct (incremental_converges S bk1 P A c HS HA (fun r Hr => HB r (H1a r Hr))
                (fun k => eq_trans (H1b k) (Hll k))) as [Ha Hb].
    split; [exact Ha|]. intros r Hr. destruct (Hb r Hr) as [Hr'|Hr']; [left; apply H1a; exact Hr' | right; exact Hr'].
Qed.

(* ---------- histories ---------- *)

(* the source is P ++ A: P is what the backup reflects (timestamps <= c), A are the
   records appended since the last pull (timestamps > c); a compaction happens only
   when A is empty *)
Definition Inv (st : state) (dirty : bool) : Prop :=
  exists P A c,
    recs (src st) = P ++ A /\
    (forall r, In r (recs (src st)) -> 0 < r_ts r <= clock st) /\
    (forall r, In r P -> r_ts r <= c) /\
    (forall r, In r A -> c < r_ts r) /\
    c <= clock st /\
    (forall r, In r (recs (bk st)) -> r_ts r <= c) /\
    (forall k, live_lookup (recs (bk st)) k = live_lookup P k) /\
    (dirty = false -> A = []).

Lemma inv_init : Inv init false.
Proof.
  exists [], [], 0. cbn. repeat split; try (intros r []); try lia; auto.
Qed.

Lemma inv_append : forall st d r,
  Inv st d -> r_ts r = clock st + 1 ->
  Inv {| src := {| recs := recs (src st) ++ [r]; rev := rev (src st) |}; clock := clock st + 1; bk := bk st |} true.
Proof.
  intros st d r [P [A [c [HS [Hts [HP [HA [Hc [HB [Hll _]]]]]]]]]] Hr.
  exists P, (A ++ [r]), c. cbn [src recs clock bk].
  split; [rewrite HS, app_assoc; reflexivity|].
  split. { intros x Hx. apply in_app_or in Hx. destruct Hx as [Hx|[Hx|[]]]; [specialize (Hts x Hx); lia | subst x; lia]. }
  split; [exact HP|].
  split. { intros x Hx. apply in_app_or in Hx. destruct Hx as [Hx|[Hx|[]]]; [apply HA; exact Hx | subst x; lia]. }
  split; [lia|]. split; [exact HB|]. split; [exact Hll | discriminate].
Qed.

Lemma inv_weaken : forall st d, Inv st d -> Inv st true.
Proof.
  intros st d [P [A [c H]]]. exists P, A, c. intuition discriminate.
Qed.

Lemma inv_step : forall st d o,
  Inv st d ->
  match o with Compact => d = false | _ => True end ->
  Inv (step st o) (match o with Write _ _ _ | Delete _ => true | Compact => d | Backup => false end).
Proof.
  intros st d o HI Hd. destruct o as [k val len | k | | ]; cbn [step].
  - unfold src_write.
    destruct (match live_lookup (recs (src st)) k with
              | Some r => (r_val r =? val) && (r_len r =? len) | None => false end).
    + destruct st as [s0 c0 b0]; cbn [src clock bk]. exact (inv_weaken _ _ HI).
    + eapply inv_append; [exact HI | reflexivity].
  - unfold src_delete. destruct (live_lookup (recs (src st)) k).
    + eapply inv_append; [exact HI | reflexivity].
    + destruct st as [s0 c0 b0]; cbn [src clock bk]. exact (inv_weaken _ _ HI).
  - subst d. destruct HI as [P [A [c [HS [Hts [HP [HA [Hc [HB [Hll HA0]]]]]]]]]].
    specialize (HA0 eq_refl). subst A. rewrite app_nil_r in HS.
    exists (compact P), [], c. cbn [src recs clock bk compact_vol].
    split; [rewrite HS, app_nil_r; reflexivity|].
    split. { intros r Hr. apply compact_in in Hr. apply Hts. tauto. }
    split. { intros r Hr. apply compact_in in Hr. apply HP. tauto. }
    split; [intros r []|]. split; [exact Hc|]. split; [exact HB|].
    split; [|reflexivity]. intros k. rewrite live_lookup_compact. apply Hll.
  - destruct HI as [P [A [c [HS [Hts [HP [HA [Hc [HB [Hll _]]]]]]]]]].
    destruct (backup_run_converges (src st) (bk st) P A c HS (fun r Hr => proj1 (Hts r Hr)) HA HB Hll) as [Ha Hb].
    exists (recs (src st)), [], (clock st). cbn [src recs clock bk].
    split; [rewrite app_nil_r; reflexivity|].
    split; [exact Hts|].
    split; [intros r Hr; apply Hts; exact Hr|].
    split; [intros r []|]. split; [lia|].
    split. { intros r Hr. destruct (Hb r Hr) as [Hr'|Hr']; [specialize (HB r Hr'); lia | apply Hts; exact Hr']. }
    split; [exact Ha | reflexivity].
Qed.

Lemma inv_exec : forall h st d, Inv st d -> pulled_from d h = true -> exists d', Inv (exec st h) d'.
Proof.
  induction h as [|o h IH]; intros st d HI Hp; [exists d; exact HI|].
  unfold exec. cbn [fold_left]. fold (exec (step st o) h).
  destruct o as [k val len | k | | ]; cbn [pulled_from] in Hp.
  - eapply IH; [exact (inv_step st d (Write k val len) HI I) | exact Hp].
  - eapply IH; [exact (inv_step st d (Delete k) HI I) | exact Hp].
  - apply andb_true_iff in Hp. destruct Hp as [Hd Hp]. apply negb_true_iff in Hd.
    eapply IH; [exact (inv_step st d Compact HI Hd) | exact Hp].
  - eapply IH; [exact (inv_step st d Backup HI I) | exact Hp].
Qed.

Lemma exec_app : forall st h1 h2, exec st (h1 ++ h2) = exec (exec st h1) h2.
Proof. intros. unfold exec. apply fold_left_app. Qed.

(* convergence, under the hypothesis that the backup pulled before each source compaction *)
Theorem converges_if_pulled : forall h,
  pulled_before_each_compaction h = true ->
  forall k, read (bk (exec init (h ++ [Backup]))) k = read (src (exec init (h ++ [Backup]))) k.
Proof.
  intros h Hp. destruct (inv_exec h init false inv_init Hp) as [d HI].
  rewrite exec_app. set (st := exec init h) in *.
  pose proof (inv_step st d Backup HI I) as [P [A [c [HS [_ [_ [_ [_ [_ [Hll HA0]]]]]]]]]].
  specialize (HA0 eq_refl). subst A. rewrite app_nil_r in HS.
  change (exec st [Backup]) with (step st Backup).
  apply read_of_lookup. intros k. rewrite Hll, HS. reflexivity.
Qed.

(* the full statement fails: a write that reaches the source between the last pull
   and a source compaction is never copied *)
Definition witness_history : list op := [Write 3 1 8; Backup; Write 1 2 8; Compact].

Theorem converges_refuted : exists h k,
  hist_ok h = true /\
  read (bk (exec init (h ++ [Backup]))) k <> read (src (exec init (h ++ [Backup]))) k.
Proof. exists witness_history, 1. split; [reflexivity | vm_compute; discriminate]. Qed.

Lemma exec_repeat_backup_fix : forall st n,
  backup_run (src st) (bk st) = bk st -> exec st (repeat Backup n) = st.
Proof.
  intros st n H. induction n as [|n IH]; [reflexivity|].
  cbn [repeat]. unfold exec. cbn [fold_left]. fold (exec (step st Backup) (repeat Backup n)).
  assert (Hs : step st Backup = st) by (destruct st as [s0 c0 b0]; cbn [step src bk clock] in *; rewrite H; reflexivity).
  rewrite Hs. exact IH.
Qed.

(* ... and no number of further backup runs recovers it *)
Theorem never_recovers : forall n,
  read (bk (exec init (witness_history ++ Backup :: repeat Backup n))) 1 = None /\
  read (src (exec init (witness_history ++ Backup :: repeat Backup n))) 1 = Some (2, 8).
Proof.
  intros n. rewrite exec_app.
  change (Backup :: repeat Backup n) with ([Backup] ++ repeat Backup n). rewrite exec_app.
  rewrite exec_repeat_backup_fix; [split; vm_compute; reflexivity | vm_compute; reflexivity].
Qed.
