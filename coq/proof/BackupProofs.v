(* Proofs about the incremental-backup model (C37). *)
From Coq Require Import List NArith ZArith Bool Arith Lia Sorted.
From Coq Require Import ZifyBool ZifyN ZifyNat.
From SW Require Import model.Backup.
Import ListNotations.
Local Open Scope N_scope.
Ltac Zify.zify_post_hook ::= Z.div_mod_to_equations.

(* ---------- latest / live_lookup ---------- *)

Lemma latest_app : forall a b k,
  latest (a ++ b) k = match latest b k with Some x => Some x | None => latest a k end.
Proof.
  induction a as [|r a IH]; intros b k; cbn [app latest].
  - destruct (latest b k); reflexivity.
  - rewrite IH. destruct (latest b k); [reflexivity|]. reflexivity.
Qed.

Lemma latest_some : forall l k r, latest l k = Some r -> r_key r = k /\ In r l.
Proof.
  induction l as [|x l IH]; intros k r H; cbn [latest] in H; [discriminate|].
  destruct (latest l k) as [y|] eqn:E.
  - inversion H; subst y. destruct (IH _ _ E) as [H1 H2]. split; [exact H1 | right; exact H2].
  - destruct (r_key x =? k) eqn:Ek; [|discriminate]. inversion H; subst x.
    apply N.eqb_eq in Ek. split; [exact Ek | left; reflexivity].
Qed.

Lemma latest_none_notin : forall l k, latest l k = None -> ~ In k (map r_key l).
Proof.
  induction l as [|x l IH]; intros k H; cbn [latest] in H; [intros []|].
  destruct (latest l k) eqn:E; [discriminate|].
  destruct (r_key x =? k) eqn:Ek; [discriminate|]. apply N.eqb_neq in Ek.
  cbn [map]. intros [Hx | Hx]; [exact (Ek Hx) | exact (IH _ E Hx)].
Qed.

Lemma live_lookup_some : forall l k r, live_lookup l k = Some r -> r_key r = k /\ In r l /\ r_live r = true.
Proof.
  unfold live_lookup. intros l k r H. destruct (latest l k) as [x|] eqn:E; [|discriminate].
  destruct (r_live x) eqn:El; [|discriminate]. inversion H; subst x.
  destruct (latest_some _ _ _ E) as [H1 H2]. auto.
Qed.

Lemma live_lookup_app : forall a b k,
  live_lookup (a ++ b) k =
  match latest b k with Some r => if r_live r then Some r else None | None => live_lookup a k end.
Proof.
  intros a b k. unfold live_lookup. rewrite latest_app. destruct (latest b k); reflexivity.
Qed.

Lemma live_lookup_app_cong : forall a a' b,
  (forall k, live_lookup a k = live_lookup a' k) ->
  forall k, live_lookup (a ++ b) k = live_lookup (a' ++ b) k.
Proof. intros a a' b H k. rewrite !live_lookup_app. destruct (latest b k); [reflexivity | apply H]. Qed.

Lemma latest_skipn : forall n l k r, latest (skipn n l) k = Some r -> latest l k = Some r.
Proof.
  intros n l k r H. rewrite <- (firstn_skipn n l) at 1. rewrite latest_app, H. reflexivity.
Qed.

(* re-appending records the backup already reflects leaves every lookup unchanged *)
Lemma replay_suffix_idempotent : forall B P n,
  (forall k, live_lookup B k = live_lookup P k) ->
  forall k, live_lookup (B ++ skipn n P) k = live_lookup P k.
Proof.
  intros B P n H k. rewrite live_lookup_app.
  destruct (latest (skipn n P) k) as [r|] eqn:E.
  - unfold live_lookup. rewrite (latest_skipn _ _ _ _ E). reflexivity.
  - apply H.
Qed.

Lemma replay_suffix_pointwise : forall B P n k,
  live_lookup B k = live_lookup P k -> live_lookup (B ++ skipn n P) k = live_lookup P k.
Proof.
  intros B P n k H. rewrite live_lookup_app.
  destruct (latest (skipn n P) k) as [r|] eqn:E.
  - unfold live_lookup. rewrite (latest_skipn _ _ _ _ E). reflexivity.
  - exact H.
Qed.

Lemma read_of_lookup : forall v w,
  (forall k, live_lookup (recs v) k = live_lookup (recs w) k) -> forall k, read v k = read w k.
Proof. intros v w H k. unfold read. rewrite H. reflexivity. Qed.

Theorem replay_idempotent_reads : forall bkv srcv n,
  (forall k, live_lookup (recs bkv) k = live_lookup (recs srcv) k) ->
  forall k, read {| recs := recs bkv ++ skipn n (recs srcv); rev := rev bkv |} k = read srcv k.
Proof.
  intros bkv srcv n H k. unfold read. cbn [recs].
  rewrite (replay_suffix_idempotent _ _ n H). reflexivity.
Qed.

(* ---------- compaction ---------- *)

Lemma latest_live_rec_other : forall l x k, x <> k -> latest (live_rec l x) k = None.
Proof.
  intros l x k Hne. unfold live_rec. destruct (live_lookup l x) as [r|] eqn:E; [|reflexivity].
  destruct (live_lookup_some _ _ _ E) as [Hk _]. cbn [latest].
  destruct (r_key r =? k) eqn:Ek; [|reflexivity]. apply N.eqb_eq in Ek. congruence.
Qed.

Lemma latest_live_rec_same : forall l k, latest (live_rec l k) k = live_lookup l k.
Proof.
  intros l k. unfold live_rec. destruct (live_lookup l k) as [r|] eqn:E; [|reflexivity].
  destruct (live_lookup_some _ _ _ E) as [Hk _]. cbn [latest]. rewrite Hk, N.eqb_refl. reflexivity.
Qed.

Lemma latest_flat_map : forall l ks k,
  latest (flat_map (live_rec l) ks) k = if existsb (N.eqb k) ks then live_lookup l k else None.
Proof.
  intros l ks k. induction ks as [|x ks IH]; [reflexivity|].
  cbn [flat_map existsb]. rewrite latest_app, IH.
  destruct (k =? x) eqn:Ekx.
  - apply N.eqb_eq in Ekx; subst x. cbn [orb].
    destruct (existsb (N.eqb k) ks).
    + destruct (live_lookup l k) eqn:E; [reflexivity|]. rewrite latest_live_rec_same. exact E.
    + apply latest_live_rec_same.
  - apply N.eqb_neq in Ekx. cbn [orb].
    destruct (existsb (N.eqb k) ks).
    + destruct (live_lookup l k); [reflexivity|]. apply latest_live_rec_other. congruence.
    + apply latest_live_rec_other. congruence.
Qed.

Lemma insert_key_in : forall k l y, In y (insert_key k l) <-> y = k \/ In y l.
Proof.
  intros k l y. induction l as [|x l IH]; cbn [insert_key].
  - cbn. intuition.
  - destruct (k <? x) eqn:E1.
    + cbn [In]. intuition.
    + destruct (k =? x) eqn:E2.
      * apply N.eqb_eq in E2; subst x. cbn [In]. intuition.
      * cbn [In]. rewrite IH. intuition.
Qed.

Lemma keys_sorted_in : forall l y, In y (keys_sorted l) <-> In y (map r_key l).
Proof.
  unfold keys_sorted. induction l as [|x l IH]; intros y; cbn [map fold_right].
  - reflexivity.
  - rewrite insert_key_in, IH. cbn [In]. intuition.
Qed.

Lemma existsb_eqb_in : forall k ks, existsb (N.eqb k) ks = true <-> In k ks.
Proof.
  intros k ks. rewrite existsb_exists. split.
  - intros [x [Hin He]]. apply N.eqb_eq in He. subst x. exact Hin.
  - intros Hin. exists k. split; [exact Hin | apply N.eqb_refl].
Qed.

(* Compact2 + CommitCompact keep exactly the live entries *)
Lemma live_lookup_compact : forall l k, live_lookup (compact l) k = live_lookup l k.
Proof.
  intros l k. unfold compact. unfold live_lookup at 1. rewrite latest_flat_map.
  destruct (existsb (N.eqb k) (keys_sorted l)) eqn:E.
  - destruct (live_lookup l k) as [r|] eqn:El; [|reflexivity].
    destruct (live_lookup_some _ _ _ El) as [_ [_ Hl]]. rewrite Hl. reflexivity.
  - assert (Hn : ~ In k (map r_key l)).
    { rewrite <- keys_sorted_in, <- existsb_eqb_in, E. discriminate. }
    unfold live_lookup. destruct (latest l k) as [r|] eqn:El; [|reflexivity].
    destruct (latest_some _ _ _ El) as [Hk Hin]. exfalso. apply Hn. rewrite <- Hk. apply in_map. exact Hin.
Qed.

Lemma compact_in : forall l r, In r (compact l) -> In r l /\ r_live r = true /\ live_lookup l (r_key r) = Some r.
Proof.
  intros l r H. unfold compact in H. apply in_flat_map in H. destruct H as [k [_ Hr]].
  unfold live_rec in Hr. destruct (live_lookup l k) as [x|] eqn:E; [|destruct Hr].
  destruct Hr as [Hr|[]]. subst x. destruct (live_lookup_some _ _ _ E) as [Hk [Hin Hl]].
  rewrite Hk. auto.
Qed.

(* the compacted index is strictly key-ordered *)
Definition key_lt (a b : rec) : Prop := r_key a < r_key b.

Lemma insert_key_sorted : forall k l, StronglySorted N.lt l -> StronglySorted N.lt (insert_key k l).
Proof.
  intros k l H. induction H as [|x l Hs IH Hf]; cbn [insert_key].
  - constructor; constructor.
  - destruct (k <? x) eqn:E1.
    + apply N.ltb_lt in E1. constructor.
      * constructor; assumption.
      * constructor; [exact E1|]. rewrite Forall_forall in *. intros y Hy. specialize (Hf y Hy). lia.
    + destruct (k =? x) eqn:E2.
      * constructor; assumption.
      * apply N.ltb_ge in E1. apply N.eqb_neq in E2. constructor; [exact IH|].
        rewrite Forall_forall in *. intros y Hy. apply insert_key_in in Hy. destruct Hy as [Hy|Hy].
        -- subst y. lia.
        -- apply Hf; exact Hy.
Qed.

Lemma keys_sorted_sorted : forall l, StronglySorted N.lt (keys_sorted l).
Proof.
  unfold keys_sorted. induction l as [|x l IH]; cbn [map fold_right]; [constructor|].
  apply insert_key_sorted. exact IH.
Qed.

Lemma flat_map_sorted : forall l ks, StronglySorted N.lt ks ->
  StronglySorted key_lt (flat_map (live_rec l) ks) /\
  (forall r, In r (flat_map (live_rec l) ks) -> In (r_key r) ks).
Proof.
  intros l ks H. induction H as [|x ks Hs IH Hf]; cbn [flat_map].
  - split; [constructor | intros r []].
  - destruct IH as [IH1 IH2]. unfold live_rec at 1 3.
    destruct (live_lookup l x) as [r0|] eqn:E; cbn [app].
    + destruct (live_lookup_some _ _ _ E) as [Hk _]. split.
      * constructor; [exact IH1|]. rewrite Forall_forall. intros y Hy. unfold key_lt. rewrite Hk.
        rewrite Forall_forall in Hf. apply Hf. apply IH2. exact Hy.
      * intros r [Hr|Hr]; [subst r0; left; symmetry; exact Hk | right; apply IH2; exact Hr].
    + split; [exact IH1 | intros r Hr; right; apply IH2; exact Hr].
Qed.

Theorem compact_sorted_live : forall l,
  StronglySorted key_lt (compact l) /\ (forall r, In r (compact l) -> r_live r = true).
Proof.
  intros l. split.
  - apply flat_map_sorted. apply keys_sorted_sorted.
  - intros r Hr. apply compact_in in Hr. tauto.
Qed.

(* ---------- the binary search ---------- *)

(* it never starts after position j when everything from j on is newer than [since] *)
Lemma bsearch_loop_not_late : forall fuel ts since l h j,
  (l <= j)%nat -> (h <= length ts)%nat ->
  (forall i, (j <= i < length ts)%nat -> since < nth i ts 0) ->
  (bsearch_loop fuel ts since l h <= j)%nat.
Proof.
  induction fuel as [|f IH]; intros ts since l h j Hl Hh Hnew; cbn [bsearch_loop]; [exact Hl|].
  destruct (l <? h)%nat eqn:Elh; [|exact Hl].
  apply Nat.ltb_lt in Elh.
  assert (Hm : (l <= (l + h) / 2 < h)%nat) by lia.
  destruct (nth ((l + h) / 2) ts 0 <=? since) eqn:Ets.
  - apply IH; [|exact Hh|exact Hnew].
    apply N.leb_le in Ets.
    destruct (Nat.lt_ge_cases ((l + h) / 2) j) as [Hlt|Hge]; [lia|].
    exfalso. specialize (Hnew ((l + h) / 2)%nat). lia.
  - apply IH; [exact Hl|lia|exact Hnew].
Qed.

(* with enough fuel the loop stops at a tested boundary *)
Lemma bsearch_loop_boundary : forall fuel ts since l h,
  (l <= h)%nat -> (h - l < fuel)%nat ->
  let r := bsearch_loop fuel ts since l h in
  (l <= r <= h)%nat /\ (r = h \/ since < nth r ts 0) /\ (r = l \/ nth (r - 1) ts 0 <= since).
Proof.
  induction fuel as [|f IH]; intros ts since l h Hlh Hf; [lia|].
  cbn [bsearch_loop]. destruct (l <? h)%nat eqn:Elh.
  - apply Nat.ltb_lt in Elh.
    assert (Hm : (l <= (l + h) / 2 < h)%nat) by lia.
    destruct (nth ((l + h) / 2) ts 0 <=? since) eqn:Ets.
    + apply N.leb_le in Ets.
      destruct (IH ts since (S ((l + h) / 2)) h ltac:(lia) ltac:(lia)) as [H1 [H2 H3]].
      cbv zeta. split; [lia|]. split; [exact H2|].
      destruct H3 as [H3|H3]; [|right; exact H3].
      right. rewrite H3. replace (S ((l + h) / 2) - 1)%nat with ((l + h) / 2)%nat by lia. exact Ets.
    + apply N.leb_gt in Ets.
      destruct (IH ts since l ((l + h) / 2)%nat ltac:(lia) ltac:(lia)) as [H1 [H2 H3]].
      cbv zeta. split; [lia|]. split; [|exact H3].
      destruct H2 as [H2|H2]; [|right; exact H2]. right. rewrite H2. exact Ets.
  - apply Nat.ltb_ge in Elh. cbv zeta. split; [lia|]. split; [left; lia | left; reflexivity].
Qed.

Lemma nth_in_skipn : forall (A : Type) (d : A) j (l : list A) i,
  (j <= i < length l)%nat -> In (nth i l d) (skipn j l).
Proof.
  intros A d. induction j as [|j IH]; intros l i H.
  - cbn [skipn]. apply nth_In. lia.
  - destruct l as [|x l]; [cbn in H; lia|]. destruct i as [|i]; [lia|].
    cbn [skipn nth]. apply IH. cbn [length] in H. lia.
Qed.

Lemma nth_map_ts : forall l i, (i < length l)%nat ->
  nth i (map r_ts l) 0 = r_ts (nth i l {| r_key := 0; r_ts := 0; r_live := false; r_val := 0; r_len := 0; r_meta := 0 |}).
Proof.
  intros l i H.
  change 0 with (r_ts {| r_key := 0; r_ts := 0; r_live := false; r_val := 0; r_len := 0; r_meta := 0 |}) at 1.
  apply map_nth.
Qed.

(* key lemma: if every record from position j on is newer than [since], the search
   never starts after j (and "nothing newer" is answered only when j is the end) *)
Theorem search_not_late : forall (l : list rec) since j,
  (j <= length l)%nat ->
  (forall r, In r (skipn j l) -> since < r_ts r) ->
  match binary_search_by_append_ns l since with
  | Some p => (p <= j)%nat /\ (p < length l)%nat
  | None => j = length l
  end.
Proof.
  intros l since j Hj Hnew. unfold binary_search_by_append_ns. rewrite map_length.
  assert (Hle : (bsearch_loop (S (length l)) (map r_ts l) since 0 (length l) <= j)%nat).
  { apply bsearch_loop_not_late; [lia | rewrite map_length; lia |].
    intros i Hi. rewrite map_length in Hi. rewrite nth_map_ts by lia.
    apply Hnew. apply nth_in_skipn. exact Hi. }
  destruct (bsearch_loop_boundary (S (length l)) (map r_ts l) since 0 (length l) ltac:(lia) ltac:(lia)) as [Hb _].
  destruct (_ =? length l)%nat eqn:E.
  - apply Nat.eqb_eq in E. lia.
  - apply Nat.eqb_neq in E. lia.
Qed.

(* on any index the search stops at a boundary: the entry it starts at is newer than
   [since] and the entry just before it is not *)
Theorem search_boundary : forall (l : list rec) since,
  let ts := map r_ts l in
  match binary_search_by_append_ns l since with
  | Some p => (p < length l)%nat /\ since < nth p ts 0 /\ (p = 0%nat \/ nth (p - 1) ts 0 <= since)
  | None => l = [] \/ nth (length l - 1) ts 0 <= since
  end.
Proof.
  intros l since ts. unfold binary_search_by_append_ns. fold ts.
  replace (length ts) with (length l) by (unfold ts; rewrite map_length; reflexivity).
  destruct (bsearch_loop_boundary (S (length l)) ts since 0 (length l) ltac:(lia) ltac:(lia)) as [Hb [H2 H3]].
  set (p := bsearch_loop (S (length l)) ts since 0 (length l)) in *.
  destruct (Nat.eqb p (length l)) eqn:E.
  - apply Nat.eqb_eq in E. rewrite E in H3. destruct H3 as [H3|H3]; [|right; exact H3].
    left. destruct l; [reflexivity | cbn in H3; lia].
  - apply Nat.eqb_neq in E. split; [lia|]. split; [destruct H2 as [H2|H2]; [lia | exact H2] | exact H3].
Qed.

(* the loop's answer does not depend on the fuel once it exceeds h - l: the None/Some
   split of [binary_search_by_append_ns] is never an artefact of fuel exhaustion *)
Lemma bsearch_fuel_irrelevant : forall f1 f2 ts since l h,
  (h - l < f1)%nat -> (h - l < f2)%nat ->
  bsearch_loop f1 ts since l h = bsearch_loop f2 ts since l h.
Proof.
  induction f1 as [|f1 IH]; intros f2 ts since l h H1 H2; [lia|].
  destruct f2 as [|f2]; [lia|]. cbn [bsearch_loop].
  destruct (l <? h)%nat eqn:Elh; [|reflexivity]. apply Nat.ltb_lt in Elh.
  assert (Hm : (l <= (l + h) / 2 < h)%nat) by lia.
  destruct (nth ((l + h) / 2) ts 0 <=? since); apply IH; lia.
Qed.

Theorem search_fuel_irrelevant : forall (l : list rec) since extra,
  let ts := map r_ts l in
  bsearch_loop (S (length ts) + extra) ts since 0 (length ts) = bsearch_loop (S (length ts)) ts since 0 (length ts).
Proof. intros l since extra ts. apply bsearch_fuel_irrelevant; lia. Qed.

(* ---------- maxts, split_newer, reflects ---------- *)

Lemma in_maxts : forall l r, In r l -> r_ts r <= maxts l.
Proof.
  induction l as [|x l IH]; intros r H; [destruct H|]. cbn [maxts fold_right]. fold (maxts l).
  destruct H as [H|H]; [subst x; lia | specialize (IH r H); lia].
Qed.

Lemma maxts_le : forall l c, (forall r, In r l -> r_ts r <= c) -> maxts l <= c.
Proof.
  induction l as [|x l IH]; intros c H; [cbn; lia|]. cbn [maxts fold_right]. fold (maxts l).
  assert (H1 : r_ts x <= c) by (apply H; left; reflexivity).
  assert (H2 : maxts l <= c) by (apply IH; intros r Hr; apply H; right; exact Hr). lia.
Qed.

Lemma split_newer_spec : forall M l P A,
  split_newer M l = (P, A) -> l = P ++ A /\ (forall r, In r A -> M < r_ts r).
Proof.
  intros M. induction l as [|x l IH]; intros P A H; cbn [split_newer] in H.
  - inversion H; subst. split; [reflexivity | intros r []].
  - destruct (split_newer M l) as [P0 A0] eqn:E. destruct (IH P0 A0 eq_refl) as [Hl HA].
    destruct P0 as [|y P0].
    + destruct (M <? r_ts x) eqn:Ex; inversion H; subst; cbn [app] in *.
      * split; [reflexivity|]. apply N.ltb_lt in Ex. intros r [Hr|Hr]; [subst r; exact Ex | apply HA; exact Hr].
      * split; [reflexivity | exact HA].
    + inversion H; subst. split; [reflexivity | exact HA].
Qed.

Lemma rec_eqb_eq : forall a b, rec_eqb a b = true -> a = b.
Proof.
  intros [k1 t1 l1 v1 n1 m1] [k2 t2 l2 v2 n2 m2]. unfold rec_eqb. cbn [r_key r_ts r_live r_val r_len r_meta].
  intros H. repeat (apply andb_true_iff in H; destruct H as [H ?]).
  apply N.eqb_eq in H. repeat match goal with X : (_ =? _) = true |- _ => apply N.eqb_eq in X end.
  match goal with X : Bool.eqb _ _ = true |- _ => apply eqb_prop in X end. subst. reflexivity.
Qed.

Lemma orec_eqb_eq : forall a b, orec_eqb a b = true -> a = b.
Proof.
  intros [a|] [b|] H; cbn in H; try discriminate; [|reflexivity]. f_equal. apply rec_eqb_eq. exact H.
Qed.

Lemma latest_notin : forall l k, ~ In k (map r_key l) -> latest l k = None.
Proof.
  intros l k H. destruct (latest l k) as [r|] eqn:E; [|reflexivity].
  destruct (latest_some _ _ _ E) as [Hk Hin]. exfalso. apply H. rewrite <- Hk. apply in_map. exact Hin.
Qed.

Lemma live_lookup_notin : forall l k, ~ In k (map r_key l) -> live_lookup l k = None.
Proof. intros l k H. unfold live_lookup. rewrite (latest_notin _ _ H). reflexivity. Qed.

(* what [reflects st = true] means *)
Theorem reflects_sound : forall st, reflects st = true ->
  exists P A, recs (src st) = P ++ A /\
    (forall r, In r A -> maxts (recs (bk st)) < r_ts r) /\
    (forall k, latest A k = None -> live_lookup (recs (bk st)) k = live_lookup P k).
Proof.
  intros st H. unfold reflects in H.
  destruct (split_newer (maxts (recs (bk st))) (recs (src st))) as [P A] eqn:E.
  destruct (split_newer_spec _ _ _ _ E) as [Hl HA]. exists P, A. split; [exact Hl|]. split; [exact HA|].
  intros k Hk. rewrite forallb_forall in H.
  destruct (in_dec N.eq_dec k (map r_key (recs (src st)) ++ map r_key (recs (bk st)))) as [Hin|Hnin].
  - specialize (H k Hin). rewrite Hk in H. apply orec_eqb_eq. exact H.
  - rewrite !live_lookup_notin; [reflexivity | |].
    + intros Hc. apply Hnin. apply in_or_app. left. rewrite Hl, map_app. apply in_or_app. left. exact Hc.
    + intros Hc. apply Hnin. apply in_or_app. right. exact Hc.
Qed.

(* ---------- one backup run ---------- *)

Lemma last_map_bound : forall (l : list rec) c,
  (forall r, In r l -> r_ts r <= c) -> find_last_append_ns l <= c.
Proof.
  intros l c H. unfold find_last_append_ns.
  destruct l as [|x l]; [cbn; lia|].
  assert (Hin : In (last (map r_ts (x :: l)) 0) (map r_ts (x :: l))).
  { destruct (exists_last (l := map r_ts (x :: l))) as [l' [a Ha]]; [discriminate|].
    rewrite Ha, last_last. apply in_or_app. right. left. reflexivity. }
  apply in_map_iff in Hin. destruct Hin as [r [Hr Hin]]. rewrite <- Hr. apply H. exact Hin.
Qed.

(* S = P ++ A, every record of A newer than everything the backup holds, and the backup
   agrees with P on every key that A does not touch: one incremental copy converges *)
Lemma incremental_converges : forall S B P A c,
  recs S = P ++ A ->
  (forall r, In r A -> c < r_ts r) ->
  (forall r, In r (recs B) -> r_ts r <= c) ->
  (forall k, latest A k = None -> live_lookup (recs B) k = live_lookup P k) ->
  forall k, live_lookup (recs (incremental_backup S B)) k = live_lookup (recs S) k.
Proof.
  intros S B P A c HS HA HB Hll. unfold incremental_backup.
  pose proof (last_map_bound _ _ HB) as Hsince.
  pose proof (search_not_late (recs S) (find_last_append_ns (recs B)) (length P)) as Hs.
  rewrite HS in Hs. rewrite app_length in Hs. specialize (Hs ltac:(lia)).
  rewrite skipn_app, skipn_all, Nat.sub_diag in Hs. cbn [skipn app] in Hs.
  specialize (Hs (fun r Hr => N.le_lt_trans _ _ _ Hsince (HA r Hr))).
  rewrite <- HS in Hs.
  destruct (binary_search_by_append_ns (recs S) (find_last_append_ns (recs B))) as [p|].
  - destruct Hs as [Hp _]. cbn [recs].
    intros k. rewrite HS, skipn_app. replace (p - length P)%nat with 0%nat by lia. cbn [skipn].
    rewrite app_assoc, (live_lookup_app (recs B ++ skipn p P) A), (live_lookup_app P A).
    destruct (latest A k) eqn:EA; [reflexivity|].
    apply replay_suffix_pointwise. apply Hll. exact EA.
  - assert (HA0 : A = []) by (destruct A; [reflexivity | cbn [length] in Hs; lia]).
    subst A. rewrite app_nil_r in HS. intros k. rewrite HS. apply Hll. reflexivity.
Qed.

Lemma incremental_subset : forall S B r,
  In r (recs (incremental_backup S B)) -> In r (recs B) \/ In r (recs S).
Proof.
  intros S B r. unfold incremental_backup.
  destruct (binary_search_by_append_ns (recs S) (find_last_append_ns (recs B))) as [p|]; [|auto].
  cbn [recs]. intros Hr. apply in_app_or in Hr. destruct Hr as [Hr|Hr]; [left; exact Hr|].
  right. rewrite <- (firstn_skipn p (recs S)). apply in_or_app. right. exact Hr.
Qed.

(* every record of the backup after a run was in the backup before or is a source record *)
Theorem backup_run_subset : forall S B r,
  In r (recs (backup_run S B)) -> In r (recs B) \/ In r (recs S).
Proof.
  intros S B r. unfold backup_run.
  set (bk1 := if rev B <? rev S then {| recs := compact (recs B); rev := rev S |} else B).
  assert (H1 : forall x, In x (recs bk1) -> In x (recs B)).
  { unfold bk1. destruct (rev B <? rev S); cbn [recs]; [|auto]. intros x Hx. apply compact_in in Hx. tauto. }
  destruct (dat_size S <? dat_size bk1); intros Hr; apply incremental_subset in Hr.
  - destruct Hr as [[]|Hr]. right. exact Hr.
  - destruct Hr as [Hr|Hr]; [left; apply H1; exact Hr | right; exact Hr].
Qed.

Lemma backup_run_converges : forall S B P A c,
  recs S = P ++ A ->
  (forall r, In r (recs S) -> 0 < r_ts r) ->
  (forall r, In r A -> c < r_ts r) ->
  (forall r, In r (recs B) -> r_ts r <= c) ->
  (forall k, latest A k = None -> live_lookup (recs B) k = live_lookup P k) ->
  forall k, live_lookup (recs (backup_run S B)) k = live_lookup (recs S) k.
Proof.
  intros S B P A c HS Hpos HA HB Hll. unfold backup_run.
  set (bk1 := if rev B <? rev S then {| recs := compact (recs B); rev := rev S |} else B).
  assert (H1 : (forall r, In r (recs bk1) -> In r (recs B)) /\
               (forall k, live_lookup (recs bk1) k = live_lookup (recs B) k)).
  { unfold bk1. destruct (rev B <? rev S); cbn [recs].
    - split; [intros r Hr; apply compact_in in Hr; tauto | apply live_lookup_compact].
    - split; auto. }
  destruct H1 as [H1a H1b].
  destruct (dat_size S <? dat_size bk1).
  - (* destroyed and recreated: a full copy *)
    apply (incremental_converges S empty_vol [] (recs S) 0 eq_refl Hpos).
    + intros r [].
    + intros k Hk. cbn [empty_vol recs]. unfold live_lookup. cbn [latest]. reflexivity.
  - apply (incremental_converges S bk1 P A c HS HA (fun r Hr => HB r (H1a r Hr))).
    intros k Hk. rewrite H1b. apply Hll. exact Hk.
Qed.

(* ---------- histories ---------- *)

(* the source is P ++ A: every record of A is newer than everything the backup holds,
   the backup serves every key A does not touch as P does; [dirty = false]: A is empty *)
Definition Inv (st : state) (dirty : bool) : Prop :=
  exists P A,
    recs (src st) = P ++ A /\
    (forall r, In r (recs (src st)) -> 0 < r_ts r) /\
    (forall r, In r A -> maxts (recs (bk st)) < r_ts r) /\
    (forall k, latest A k = None -> live_lookup (recs (bk st)) k = live_lookup P k) /\
    (dirty = false -> A = []).

Lemma inv_init : Inv init false.
Proof.
  exists [], []. cbn. repeat split; try (intros r []); auto.
Qed.

Lemma inv_weaken : forall st d, Inv st d -> Inv st true.
Proof.
  intros st d [P [A H]]. exists P, A. intuition discriminate.
Qed.

Lemma st_eta : forall st, {| src := src st; bk := bk st |} = st.
Proof. intros [s b]. reflexivity. Qed.

Lemma inv_append : forall st d r,
  Inv st d -> maxts (recs (bk st)) < r_ts r ->
  Inv {| src := {| recs := recs (src st) ++ [r]; rev := rev (src st) |}; bk := bk st |} true.
Proof.
  intros st d r [P [A [HS [Hpos [HA [Hll _]]]]]] Hr.
  exists P, (A ++ [r]). cbn [src recs bk].
  split; [rewrite HS, app_assoc; reflexivity|].
  split. { intros x Hx. apply in_app_or in Hx. destruct Hx as [Hx|[Hx|[]]]; [apply Hpos; exact Hx | subst x; lia]. }
  split. { intros x Hx. apply in_app_or in Hx. destruct Hx as [Hx|[Hx|[]]]; [apply HA; exact Hx | subst x; exact Hr]. }
  split; [|discriminate].
  intros k Hk. apply Hll. rewrite latest_app in Hk. destruct (latest [r] k); [discriminate | exact Hk].
Qed.

Lemma inv_of_reflects : forall st,
  reflects st = true -> (forall r, In r (recs (src st)) -> 0 < r_ts r) -> Inv st true.
Proof.
  intros st H Hpos. destruct (reflects_sound st H) as [P [A [HS [HA Hll]]]].
  exists P, A. repeat split; auto. discriminate.
Qed.

Lemma inv_backup : forall st d, Inv st d -> Inv (step st Backup) false.
Proof.
  intros st d [P [A [HS [Hpos [HA [Hll _]]]]]].
  pose proof (backup_run_converges (src st) (bk st) P A (maxts (recs (bk st))) HS Hpos HA
                (fun r Hr => in_maxts _ _ Hr) Hll) as Ha.
  exists (recs (src st)), []. cbn [step src recs bk].
  split; [rewrite app_nil_r; reflexivity|]. split; [exact Hpos|].
  split; [intros r []|]. split; [intros k _; apply Ha | reflexivity].
Qed.

Lemma inv_compact_clean : forall st, Inv st false -> Inv (step st Compact) false.
Proof.
  intros st [P [A [HS [Hpos [HA [Hll HA0]]]]]].
  specialize (HA0 eq_refl). subst A. rewrite app_nil_r in HS.
  exists (compact P), []. cbn [step src recs bk compact_vol].
  split; [rewrite HS, app_nil_r; reflexivity|].
  split. { intros r Hr. apply compact_in in Hr. apply Hpos. tauto. }
  split; [intros r []|]. split; [|reflexivity].
  intros k _. rewrite live_lookup_compact. apply Hll. reflexivity.
Qed.

Lemma appended_app : forall st r,
  appended st {| src := {| recs := recs (src st) ++ [r]; rev := rev (src st) |}; bk := bk st |} = true.
Proof.
  intros st r. unfold appended. cbn [src recs]. rewrite app_length. cbn [length].
  apply negb_true_iff. apply Nat.eqb_neq. lia.
Qed.

Lemma inv_append_or : forall st r,
  Inv st true -> 0 < r_ts r ->
  let st' := {| src := {| recs := recs (src st) ++ [r]; rev := rev (src st) |}; bk := bk st |} in
  (r_ts r <=? maxts (recs (bk st))) && negb (reflects st') = false ->
  Inv st' true.
Proof.
  intros st r HI Hpos st' Hc. apply andb_false_iff in Hc. destruct Hc as [Hc|Hc].
  - apply N.leb_gt in Hc. exact (inv_append st true r HI Hc).
  - apply negb_false_iff in Hc. apply inv_of_reflects; [exact Hc|].
    destruct HI as [P [A [_ [Hp _]]]]. unfold st'. cbn [src recs].
    intros x Hx. apply in_app_or in Hx. destruct Hx as [Hx|[Hx|[]]]; [apply Hp; exact Hx | subst x; exact Hpos].
Qed.

(* a step that is not an instance of a finding keeps the invariant *)
Lemma inv_step_trigger : forall st o,
  Inv st true -> op_ts_pos o = true -> step_trigger st o = None -> Inv (step st o) true.
Proof.
  intros st o HI Hpos Ht. destruct o as [k val len meta ts | k ts | | ]; unfold step_trigger in Ht; cbn [step] in *.
  - unfold src_write in *.
    destruct (match live_lookup (recs (src st)) k with
              | Some r => (r_val r =? val) && (r_len r =? len) | None => false end).
    + rewrite st_eta. exact HI.
    + rewrite appended_app in Ht. cbn [andb] in Ht.
      apply inv_append_or; [exact HI | cbn [r_ts]; apply N.ltb_lt; exact Hpos |].
      cbn [r_ts]. destruct (_ && _); [discriminate | reflexivity].
  - unfold src_delete in *. destruct (live_lookup (recs (src st)) k).
    + rewrite appended_app in Ht. cbn [andb] in Ht.
      apply inv_append_or; [exact HI | cbn [r_ts]; apply N.ltb_lt; exact Hpos |].
      cbn [r_ts]. destruct (_ && _); [discriminate | reflexivity].
    + rewrite st_eta. exact HI.
  - destruct (reflects {| src := compact_vol (src st); bk := bk st |}) eqn:E; [|discriminate].
    apply inv_of_reflects; [exact E|]. cbn [src compact_vol recs].
    destruct HI as [P [A [_ [Hp _]]]]. intros r Hr. apply compact_in in Hr. apply Hp. tauto.
  - exact (inv_weaken _ _ (inv_backup st true HI)).
Qed.

Lemma inv_exec_trigger : forall h st,
  Inv st true -> ts_positive h = true -> trigger_from st h = None -> Inv (exec st h) true.
Proof.
  induction h as [|o h IH]; intros st HI Hp Ht; [exact HI|].
  unfold exec. cbn [fold_left]. fold (exec (step st o) h).
  cbn [ts_positive forallb] in Hp. apply andb_true_iff in Hp. destruct Hp as [Hp1 Hp2].
  cbn [trigger_from] in Ht. destruct (step_trigger st o) eqn:E; [discriminate|].
  apply IH; [exact (inv_step_trigger st o HI Hp1 E) | exact Hp2 | exact Ht].
Qed.

Lemma exec_app : forall st h1 h2, exec st (h1 ++ h2) = exec (exec st h1) h2.
Proof. intros. unfold exec. apply fold_left_app. Qed.

Lemma converges_of_inv : forall st d,
  Inv st d -> forall k, read (bk (step st Backup)) k = read (src (step st Backup)) k.
Proof.
  intros st d HI. pose proof (inv_backup st d HI) as [P [A [HS [_ [_ [Hll HA0]]]]]].
  specialize (HA0 eq_refl). subst A. rewrite app_nil_r in HS.
  apply read_of_lookup. intros k. rewrite HS. apply Hll. reflexivity.
Qed.

(* convergence for every history none of whose steps is an instance of finding 0 or 1 *)
Theorem converges_if_no_trigger : forall h,
  ts_positive h = true -> trigger h = None ->
  forall k, read (bk (exec init (h ++ [Backup]))) k = read (src (exec init (h ++ [Backup]))) k.
Proof.
  intros h Hp Ht. rewrite exec_app. change (exec (exec init h) [Backup]) with (step (exec init h) Backup).
  apply (converges_of_inv _ true). apply inv_exec_trigger; [exact (inv_weaken _ _ inv_init) | exact Hp | exact Ht].
Qed.

(* ... and at every backup run inside such a history, not only the last *)
Theorem converges_at_every_run : forall h1 h2,
  ts_positive (h1 ++ Backup :: h2) = true -> trigger (h1 ++ Backup :: h2) = None ->
  forall k, read (bk (exec init (h1 ++ [Backup]))) k = read (src (exec init (h1 ++ [Backup]))) k.
Proof.
  intros h1 h2 Hp Ht. apply converges_if_no_trigger.
  - unfold ts_positive in *. rewrite forallb_app in Hp. apply andb_true_iff in Hp. tauto.
  - clear Hp. unfold trigger in *. revert Ht. generalize init. induction h1 as [|o h1 IH]; intros st Ht; [reflexivity|].
    cbn [app trigger_from] in *. destruct (step_trigger st o); [discriminate | apply IH; exact Ht].
Qed.

(* the coarser history-level condition: strictly increasing clock readings and a
   backup run before every source compaction *)
Definition Inv2 (st : state) (d : bool) (c : N) : Prop :=
  Inv st d /\ (forall r, In r (recs (src st)) -> r_ts r <= c) /\ (forall r, In r (recs (bk st)) -> r_ts r <= c).

Lemma inv2_mono : forall st d c c', Inv2 st d c -> c <= c' -> Inv2 st true c'.
Proof.
  intros st d c c' [HI [H1 H2]] Hc. split; [exact (inv_weaken _ _ HI)|].
  split; intros r Hr; [specialize (H1 r Hr) | specialize (H2 r Hr)]; lia.
Qed.

Lemma inv2_append : forall st d c r,
  Inv2 st d c -> c < r_ts r ->
  Inv2 {| src := {| recs := recs (src st) ++ [r]; rev := rev (src st) |}; bk := bk st |} true (r_ts r).
Proof.
  intros st d c r [HI [H1 H2]] Hc. split.
  - apply (inv_append st d r HI). pose proof (maxts_le _ _ H2). lia.
  - cbn [src recs bk]. split.
    + intros x Hx. apply in_app_or in Hx. destruct Hx as [Hx|[Hx|[]]]; [specialize (H1 x Hx); lia | subst x; lia].
    + intros x Hx. specialize (H2 x Hx). lia.
Qed.

Lemma inv2_exec : forall h st d c,
  Inv2 st d c -> ts_increasing_from c h = true -> pulled_from d h = true ->
  exists d' c', Inv2 (exec st h) d' c'.
Proof.
  induction h as [|o h IH]; intros st d c HI Hts Hp; [exists d, c; exact HI|].
  unfold exec. cbn [fold_left]. fold (exec (step st o) h).
  destruct o as [k val len meta ts | k ts | | ]; cbn [pulled_from ts_increasing_from] in Hp, Hts.
  - apply andb_true_iff in Hts. destruct Hts as [Hc Hts]. apply N.ltb_lt in Hc.
    apply (IH _ true ts); [|exact Hts|exact Hp]. cbn [step]. unfold src_write.
    destruct (match live_lookup (recs (src st)) k with
              | Some r => (r_val r =? val) && (r_len r =? len) | None => false end).
    + rewrite st_eta. apply (inv2_mono st d c ts HI). lia.
    + exact (inv2_append st d c {| r_key := k; r_ts := ts; r_live := true; r_val := val; r_len := len; r_meta := meta |} HI Hc).
  - apply andb_true_iff in Hts. destruct Hts as [Hc Hts]. apply N.ltb_lt in Hc.
    apply (IH _ true ts); [|exact Hts|exact Hp]. cbn [step]. unfold src_delete.
    destruct (live_lookup (recs (src st)) k).
    + exact (inv2_append st d c {| r_key := k; r_ts := ts; r_live := false; r_val := 0; r_len := 0; r_meta := 0 |} HI Hc).
    + rewrite st_eta. apply (inv2_mono st d c ts HI). lia.
  - apply andb_true_iff in Hp. destruct Hp as [Hd Hp]. apply negb_true_iff in Hd. subst d.
    apply (IH _ false c); [|exact Hts|exact Hp]. destruct HI as [HI [H1 H2]].
    split; [exact (inv_compact_clean st HI)|]. cbn [step src bk compact_vol recs].
    split; [|exact H2]. intros r Hr. apply compact_in in Hr. apply H1. tauto.
  - apply (IH _ false c); [|exact Hts|exact Hp]. destruct HI as [HI [H1 H2]].
    split; [exact (inv_backup st d HI)|]. cbn [step src bk]. split; [exact H1|].
    intros r Hr. apply backup_run_subset in Hr. destruct Hr as [Hr|Hr]; [apply H2 | apply H1]; exact Hr.
Qed.

Theorem converges_if_pulled : forall h,
  ts_increasing h = true -> pulled_before_each_compaction h = true ->
  forall k, read (bk (exec init (h ++ [Backup]))) k = read (src (exec init (h ++ [Backup]))) k.
Proof.
  intros h Hts Hp. rewrite exec_app. change (exec (exec init h) [Backup]) with (step (exec init h) Backup).
  assert (H0 : Inv2 init false 0) by (split; [exact inv_init | split; intros r []]).
  destruct (inv2_exec h init false 0 H0 Hts Hp) as [d [c [HI _]]].
  exact (converges_of_inv _ d HI).
Qed.

(* ---------- the full statement fails ---------- *)

(* finding 0: a write that reaches the source between the last pull and a source
   compaction is moved into the key-ordered region and never copied *)
Definition witness_history : list op := [Write 3 1 8 0 10; Backup; Write 1 2 8 19 20; Compact].

Theorem converges_refuted : exists h k,
  hist_ok h = true /\ ts_increasing h = true /\ trigger h = Some 0 /\
  read (bk (exec init (h ++ [Backup]))) k <> read (src (exec init (h ++ [Backup]))) k.
Proof. exists witness_history, 1. repeat split; try reflexivity. vm_compute; discriminate. Qed.

(* finding 0, second form: an unpulled delete whose tombstone the compaction drops keeps
   being served by the backup (same .dat sizes: no destroy-and-full-copy) *)
Definition witness_delete : list op :=
  [Write 1 1 8 0 10; Write 2 1 8 0 20; Backup; Delete 1 30; Write 3 2 8 19 40; Compact].

Theorem delete_resurrected : 
  hist_ok witness_delete = true /\ ts_increasing witness_delete = true /\ trigger witness_delete = Some 0 /\
  read (bk (exec init (witness_delete ++ [Backup]))) 1 = Some (1, 8) /\
  read (src (exec init (witness_delete ++ [Backup]))) 1 = None.
Proof. repeat split; vm_compute; reflexivity. Qed.

(* finding 1: no compaction at all; the clock reads the same nanosecond twice, or steps back *)
Definition witness_equal_ts : list op := [Write 1 1 8 0 10; Backup; Write 2 2 8 19 10].
Definition witness_clock_step : list op := [Write 1 1 8 0 20; Backup; Write 2 2 8 19 15].

Theorem equal_ts_refuted :
  hist_ok witness_equal_ts = true /\ pulled_before_each_compaction witness_equal_ts = true /\
  trigger witness_equal_ts = Some 1 /\
  read (bk (exec init (witness_equal_ts ++ [Backup]))) 2 = None /\
  read (src (exec init (witness_equal_ts ++ [Backup]))) 2 = Some (2, 8).
Proof. repeat split; vm_compute; reflexivity. Qed.

Theorem clock_step_refuted :
  hist_ok witness_clock_step = true /\ pulled_before_each_compaction witness_clock_step = true /\
  trigger witness_clock_step = Some 1 /\
  read (bk (exec init (witness_clock_step ++ [Backup]))) 2 = None /\
  read (src (exec init (witness_clock_step ++ [Backup]))) 2 = Some (2, 8).
Proof. repeat split; vm_compute; reflexivity. Qed.

Lemma exec_repeat_backup_fix : forall st n,
  backup_run (src st) (bk st) = bk st -> exec st (repeat Backup n) = st.
Proof.
  intros st n H. induction n as [|n IH]; [reflexivity|].
  cbn [repeat]. unfold exec. cbn [fold_left]. fold (exec (step st Backup) (repeat Backup n)).
  assert (Hs : step st Backup = st) by (destruct st as [s0 b0]; cbn [step src bk] in *; rewrite H; reflexivity).
  rewrite Hs. exact IH.
Qed.

(* ... and no number of further backup runs recovers it *)
Theorem never_recovers : forall n,
  read (bk (exec init (witness_history ++ Backup :: repeat Backup n))) 1 = None /\
  read (src (exec init (witness_history ++ Backup :: repeat Backup n))) 1 = Some (2, 8).
Proof.
  intros n. rewrite exec_app.
  change (Backup :: repeat Backup n) with ([Backup] ++ repeat Backup n). rewrite exec_app.
  rewrite exec_repeat_backup_fix; [split; vm_compute; reflexivity | vm_compute; reflexivity].
Qed.

Theorem never_recovers_equal_ts : forall n,
  read (bk (exec init (witness_equal_ts ++ Backup :: repeat Backup n))) 2 = None /\
  read (src (exec init (witness_equal_ts ++ Backup :: repeat Backup n))) 2 = Some (2, 8).
Proof.
  intros n. rewrite exec_app.
  change (Backup :: repeat Backup n) with ([Backup] ++ repeat Backup n). rewrite exec_app.
  rewrite exec_repeat_backup_fix; [split; vm_compute; reflexivity | vm_compute; reflexivity].
Qed.

(* ---------- non-vacuity ---------- *)
Definition example_history : list op :=
  [Write 2 1 8 0 1; Write 1 1 300 0 2; Backup; Write 1 2 17 19 3; Delete 2 4; Write 3 0 3 0 5; Backup; Compact;
   Write 2 3 40 23 6; Backup; Backup; Compact; Compact; Write 1 0 1 0 7].

Lemma example_ok :
  trigger example_history = None /\ hist_ok example_history = true /\
  ts_increasing example_history = true /\ pulled_before_each_compaction example_history = true /\
  map (read (bk (exec init (example_history ++ [Backup])))) [1; 2; 3; 4] = [Some (0, 1); Some (3, 40); Some (0, 3); None] /\
  map (read (src (exec init (example_history ++ [Backup])))) [1; 2; 3; 4] = [Some (0, 1); Some (3, 40); Some (0, 3); None].
Proof. vm_compute. repeat split. Qed.

Definition example_harmless : list op :=
  [Write 5 1 8 0 15; Write 3 1 8 0 18; Write 2 1 8 0 20; Backup; Write 1 1 8 0 60; Backup;
   Write 7 1 8 0 70; Write 7 2 8 19 65; Compact].

Lemma example_harmless_ok :
  trigger example_harmless = None /\ hist_ok example_harmless = true /\
  pulled_before_each_compaction example_harmless = false /\ ts_increasing example_harmless = false /\
  (length (recs (bk (exec init (example_harmless ++ [Backup])))) > length (recs (src (exec init (example_harmless ++ [Backup])))))%nat /\
  map (read (bk (exec init (example_harmless ++ [Backup])))) [1; 2; 3; 5; 7] =
  map (read (src (exec init (example_harmless ++ [Backup])))) [1; 2; 3; 5; 7] /\
  map (read (src (exec init (example_harmless ++ [Backup])))) [1; 2; 3; 5; 7] =
  [Some (1, 8); Some (1, 8); Some (1, 8); Some (1, 8); Some (2, 8)].
Proof. vm_compute. repeat split; lia. Qed.

Definition example_destroy : list op := example_harmless ++ [Backup].

Lemma example_destroy_ok :
  trigger example_destroy = None /\ hist_ok example_destroy = true /\
  (let st := exec init example_destroy in
   rev (bk st) <? rev (src st) = false /\ dat_size (src st) <? dat_size (bk st) = true /\
   length (recs (bk st)) = 9%nat /\ length (recs (bk (step st Backup))) = 5%nat) /\
  map (read (bk (exec init (example_destroy ++ [Backup])))) [1; 2; 3; 5; 7] =
  [Some (1, 8); Some (1, 8); Some (1, 8); Some (1, 8); Some (2, 8)] /\
  map (read (src (exec init (example_destroy ++ [Backup])))) [1; 2; 3; 5; 7] =
  [Some (1, 8); Some (1, 8); Some (1, 8); Some (1, 8); Some (2, 8)].
Proof. vm_compute. repeat split. Qed.

(* ---------- the .idx observable: entry i points at record i ---------- *)

Lemma disk_size_pos : forall r, 0 < disk_size r.
Proof.
  intro r. unfold disk_size.
  set (raw := 16 + (if r_live r then r_len r + 5 + r_meta r else 0) + 4 + 8).
  assert (H : raw mod 8 < 8) by (apply N.mod_lt; discriminate). lia.
Qed.

Lemma idx_from_length : forall l b, length (idx_from b l) = length l.
Proof. induction l as [|r l IH]; intro b; cbn [idx_from length]; [reflexivity | rewrite IH; reflexivity]. Qed.

Lemma rec_at_from_ge : forall l cur off r, rec_at_from cur l off = Some r -> cur <= off.
Proof.
  induction l as [|x l IH]; intros cur off r H; cbn [rec_at_from] in H; [discriminate|].
  destruct (off =? cur) eqn:E.
  - apply N.eqb_eq in E. lia.
  - apply IH in H. pose proof (disk_size_pos x). lia.
Qed.

(* idx entry i of [idx_from b l] carries the key and Size of record i, and following its
   offset into the .dat (readAppendAtNs, ReadData) yields record i itself *)
Lemma idx_entry_points_at_record : forall l b i r,
  nth_error l i = Some r ->
  exists off, nth_error (idx_from b l) i = Some (r_key r, off, idx_size r) /\ rec_at_from b l off = Some r.
Proof.
  induction l as [|x l IH]; intros b i r H; [destruct i; discriminate|].
  destruct i as [|i]; cbn [nth_error] in H.
  - inversion H; subst x. exists b. cbn [idx_from nth_error rec_at_from]. rewrite N.eqb_refl. split; reflexivity.
  - destruct (IH (b + disk_size x) i r H) as [off [H1 H2]]. exists off.
    cbn [idx_from nth_error rec_at_from]. split; [exact H1|].
    destruct (off =? b) eqn:E; [|exact H2].
    apply N.eqb_eq in E. apply rec_at_from_ge in H2. pose proof (disk_size_pos x). lia.
Qed.

(* so the timestamp the code reads through idx entry m (readOffsetFromIndex m, then
   readAppendAtNs) is the timestamp of record m: what find_last_append_ns and
   bsearch_loop use *)
Lemma idx_entry_ts : forall v m r,
  nth_error (recs v) m = Some r ->
  exists k off sz, nth_error (idx_of v) m = Some (k, off, sz) /\
                   option_map r_ts (rec_at v off) = Some (nth m (map r_ts (recs v)) 0).
Proof.
  intros v m r H. destruct (idx_entry_points_at_record (recs v) 8 m r H) as [off [H1 H2]].
  exists (r_key r), off, (idx_size r). split; [exact H1|].
  unfold rec_at. rewrite H2. cbn [option_map]. f_equal.
  clear H1 H2. revert m H. generalize (recs v) as l.
  induction l as [|x l IH]; intros m H; destruct m; try discriminate; cbn [nth_error map nth] in *.
  - inversion H; reflexivity.
  - apply IH; exact H.
Qed.

Lemma idx_of_length : forall v, length (idx_of v) = length (recs v).
Proof. intro v. apply idx_from_length. Qed.
