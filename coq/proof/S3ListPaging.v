(* C27, pagination: a client that continues from the continuation token / NextMarker
   enumerates the reference listing exactly, page by page, in the cases where the code
   is right; concrete counterexamples elsewhere. *)
From Coq Require Import List NArith ZArith Bool String Ascii Arith Lia.
From SW Require Import model.S3List proof.S3ListProofs proof.S3ListSound proof.S3ListExact.
Import ListNotations.
Local Open Scope string_scope.
Local Open Scope list_scope.
Local Notation length := List.length.

Lemma skipn_add : forall A (l : list A) a b, skipn (a + b) l = skipn b (skipn a l).
Proof.
  intros A l a. revert l. induction a as [|a IH]; intros l b; [reflexivity|].
  destruct l as [|x l]; simpl; [destruct b; reflexivity | apply IH].
Qed.

(* ---------- pagination over an abstract page function ---------- *)

Section Generic.
  Variable page : string -> res.
  Variable Rall : list item.
  Variable M : nat.
  Hypothesis HM : 1 <= M.
  Variable valid : string -> nat -> Prop.   (* the marker stands for a position in Rall *)
  Hypothesis Hpage : forall m p, valid m p ->
    r_items (page m) = firstn M (skipn p Rall) /\
    r_trunc (page m) = Nat.ltb M (length (skipn p Rall)) /\
    (r_trunc (page m) = true -> valid (r_next (page m)) (p + M)).

  Fixpoint pag (n : nat) (m : string) : list res :=
    match n with
    | O => []
    | S n' => let r := page m in r :: (if r_trunc r then pag n' (r_next r) else [])
    end.

  Lemma pag_complete : forall n m p, valid m p -> length (skipn p Rall) < n ->
    flat_map r_items (pag n m) = skipn p Rall /\
    exists l r, pag n m = l ++ [r] /\ r_trunc r = false.
  Proof.
    induction n as [|n IH]; intros m p Hv Hn; [lia|].
    destruct (Hpage m p Hv) as [H1 [H2 H3]]. simpl pag. cbv zeta.
    destruct (r_trunc (page m)) eqn:ET.
    - symmetry in H2. apply Nat.ltb_lt in H2.
      assert (Hs : skipn (p + M) Rall = skipn M (skipn p Rall)) by apply skipn_add.
      assert (Hl : length (skipn (p + M) Rall) < n).
      { rewrite Hs, skipn_length. lia. }
      destruct (IH (r_next (page m)) (p + M) (H3 eq_refl) Hl) as [I1 [l [r [I2 I3]]]].
      split.
      + simpl. rewrite I1, H1, Hs. apply firstn_skipn.
      + exists (page m :: l), r. split; [rewrite I2; reflexivity | exact I3].
    - symmetry in H2. apply Nat.ltb_ge in H2. split.
      + simpl. rewrite app_nil_r, H1. apply firstn_all2. exact H2.
      + exists [], (page m). split; [reflexivity | exact ET].
  Qed.
End Generic.

(* ---------- sorted directories ---------- *)

Fixpoint tsorted (E : list tree) : Prop :=
  match E with
  | [] => True
  | e :: r => (forall t, In t r -> String.ltb (tname e) (tname t) = true) /\ tsorted r
  end.

Lemma tsorted_of_wf : forall K, wf K = true -> tsorted K.
Proof.
  induction K as [|e K IH]; intros H; [exact I|]. split.
  - intros t Ht. pose proof (sorted_all_gt _ _ (wf_sorted _ H)) as G.
    apply (all_gt_in _ (map tname K)); [exact G | apply in_map; exact Ht].
  - apply IH. exact (wf_tail _ _ H).
Qed.

Lemma tsorted_filter : forall f E, tsorted E -> tsorted (filter f E).
Proof.
  induction E as [|e E IH]; intros H; [exact I|]. destruct H as [H1 H2]. simpl.
  destruct (f e); [|apply IH; exact H2]. split; [|apply IH; exact H2].
  intros t Ht. apply filter_In in Ht. apply H1. exact (proj1 Ht).
Qed.

Lemma tsorted_app_r : forall A B, tsorted (A ++ B) -> tsorted B.
Proof. induction A as [|a A IH]; intros B H; [exact H|]. destruct H as [_ H]. exact (IH B H). Qed.

(* the entries behind e in a sorted directory are exactly those with a greater name *)
Lemma filter_gt_split : forall X e B, tsorted (X ++ e :: B) ->
  filter (fun t => String.ltb (tname e) (tname t)) (X ++ e :: B) = B.
Proof.
  induction X as [|x X IH]; intros e B H.
  - simpl. destruct H as [H1 H2]. rewrite ltb_irrefl. apply forallb_filter_id. apply forallb_forall. exact H1.
  - simpl. destruct H as [H1 H2].
    assert (Hx : String.ltb (tname x) (tname e) = true) by (apply H1; apply in_or_app; right; left; reflexivity).
    rewrite (ltb_asym _ _ Hx). apply IH. exact H2.
Qed.

Lemma filter_filter_and : forall A (f g : A -> bool) l, filter (fun x => f x && g x) l = filter g (filter f l).
Proof.
  induction l as [|x l IH]; simpl; [reflexivity|]. destruct (f x); simpl; [|exact IH].
  destruct (g x); [rewrite IH|]; [reflexivity | exact IH].
Qed.

Lemma no_slash_count : forall s, no_slash s = true -> count_slash s = 0.
Proof.
  induction s as [|c s IH]; simpl; intros H; [reflexivity|]. apply andb_true_iff in H. destruct H as [H1 H2].
  apply negb_true_iff in H1. rewrite H1. exact (IH H2).
Qed.

Lemma split_at : forall A (S : list A) M, 1 <= M -> M <= length S ->
  exists X e B, S = X ++ e :: B /\ length X = M - 1.
Proof.
  intros A S M H1 H2.
  destruct (skipn (M - 1) S) as [|e B] eqn:E.
  - pose proof (skipn_length (M - 1) S) as L. rewrite E in L. simpl in L. lia.
  - exists (firstn (M - 1) S), e, B. split; [rewrite <- E; symmetry; apply firstn_skipn | apply firstn_length_le; lia].
Qed.

Lemma forallb_skipn : forall A (f : A -> bool) n l, forallb f l = true -> forallb f (skipn n l) = true.
Proof.
  intros A f n l H. apply forallb_forall. intros x Hx. rewrite forallb_forall in H. apply H.
  rewrite <- (firstn_skipn n l). apply in_or_app. right. exact Hx.
Qed.

Lemma skipn_map : forall A B (g : A -> B) n l, skipn n (map g l) = map g (skipn n l).
Proof. intros A B g n. induction n as [|n IH]; intros l; [reflexivity|]. destruct l; simpl; [reflexivity | apply IH]. Qed.

Lemma firstn_map : forall A B (g : A -> B) n l, firstn n (map g l) = map g (firstn n l).
Proof. intros A B g n. induction n as [|n IH]; intros l; [reflexivity|]. destruct l; simpl; [reflexivity | rewrite IH; reflexivity]. Qed.

Lemma gtb_ltb_nat : forall (l : nat) (M : Z), (1 <= M)%Z -> (Z.of_nat l >? M)%Z = Nat.ltb (Z.to_nat M) l.
Proof.
  intros l M H. destruct (Nat.ltb (Z.to_nat M) l) eqn:E.
  - apply Nat.ltb_lt in E. apply Z.gtb_lt. lia.
  - apply Nat.ltb_ge in E. rewrite Z.gtb_ltb. apply Z.ltb_ge. lia.
Qed.

(* ---------- (i) listings with delimiter "/" ---------- *)

Section Delim.
  Variable ae : bool.
  Variable rootk : list tree.
  Hypothesis Hwf : wf rootk = true.
  Variable prefix : string.
  Hypothesis Hbp : bad_prefix prefix = false.
  Variable K : list tree.
  Hypothesis HW : walk rootk (req_dir prefix) = Some K.
  Variable M : Z.
  Hypothesis HM : (1 <= M)%Z.

  Let D := req_dir prefix.
  Let pfx := snd (split_prefix prefix).
  Let E0 := filter (fun t => String.prefix pfx (tname t)) K.

  Hypothesis Hpfx : (pfx =? "/") = false.
  (* every entry that carries the name prefix yields an item: no ".uploads" directory,
     no all-empty folder (unless -allowEmptyFolder) *)
  Hypothesis Hprod : forallb (productive ae true) E0 = true.

  Let HP : plain D := plain_of_bad_prefix prefix Hbp.
  Let HK : wf K = true := walk_wf D rootk K Hwf HW.

  Definition item_of (t : tree) : item :=
    match t with File n => IKey (D ++ [n]) | Dir n _ => ICP (D ++ [n]) end.

  Lemma R_single : forall E, forallb (productive ae true) E = true -> R ae true D E = map item_of E.
  Proof.
    induction E as [|e E IH]; intros H; [reflexivity|]. simpl in H. apply andb_true_iff in H. destruct H as [H1 H2].
    unfold R, ref_forest in *. simpl flat_map. rewrite (IH H2). destruct e as [n|n k]; [reflexivity|].
    simpl in H1. apply andb_true_iff in H1. destruct H1 as [HU HY]. apply negb_true_iff in HU.
    simpl. rewrite HU, HY. reflexivity.
  Qed.

  Lemma rel_marker_item_of : forall e, rel_marker D (item_of e) = tname e.
  Proof. intros e. destruct e as [n|n k]; apply (rel_marker_leaf D n); reflexivity. Qed.

  Definition Rall : list item := ref_list ae rootk prefix true.

  Lemma Rall_eq : Rall = map item_of E0.
  Proof. unfold Rall, ref_list. fold D. fold pfx. rewrite (resolve_plain rootk D K HP HW). fold E0. exact (R_single E0 Hprod). Qed.

  Definition page_d (m : string) : res := list_items ae rootk prefix M m true.

  Definition valid_d (m : string) (p : nat) : Prop :=
    count_slash m = 0 /\ filter (fun t => String.ltb m (tname t)) E0 = skipn p E0.

  Lemma E0_sorted : tsorted E0.
  Proof. apply tsorted_filter. apply tsorted_of_wf. exact HK. Qed.

  Lemma Hpage_d : forall m p, valid_d m p ->
    r_items (page_d m) = firstn (Z.to_nat M) (skipn p Rall) /\
    r_trunc (page_d m) = Nat.ltb (Z.to_nat M) (length (skipn p Rall)) /\
    (r_trunc (page_d m) = true -> valid_d (r_next (page_d m)) (p + Z.to_nat M)).
  Proof.
    intros m p [Hm Hf]. unfold page_d, list_items, list_fuel. rewrite Hm. rewrite Nat.add_0_r.
    fold D. fold pfx.
    assert (EE : filter (fun t => String.prefix pfx (tname t) && String.ltb m (tname t)) K = skipn p E0).
    { rewrite filter_filter_and. exact Hf. }
    assert (HPr : forallb (productive ae true) (filter (fun t => String.prefix pfx (tname t) && String.ltb m (tname t)) K) = true).
    { rewrite EE. apply forallb_skipn. exact Hprod. }
    pose proof (walk_height D rootk K HW) as HH.
    destruct (page_exact ae rootk true (S (forest_height rootk)) D K pfx M m HP HW HK HPr ltac:(lia) HM Hm
                ltac:(rewrite Hpfx; reflexivity)) as [G1 [G2 [G3 G4]]].
    rewrite EE in G1, G3.
    rewrite (R_single (skipn p E0) (forallb_skipn _ _ p _ Hprod)) in G1, G3.
    rewrite Rall_eq. rewrite skipn_map.
    split; [exact G1|]. split; [rewrite G3; apply gtb_ltb_nat; exact HM|].
    intros HT. rewrite G3 in HT. rewrite (gtb_ltb_nat _ M HM) in HT. apply Nat.ltb_lt in HT. rewrite map_length in HT.
    destruct (split_at _ (skipn p E0) (Z.to_nat M) ltac:(lia) ltac:(lia)) as [X [e [B [ES EL]]]].
    assert (Hnext : r_next (do_list ae rootk true (S (S (forest_height rootk))) D pfx M m) = tname e).
    { rewrite G4, G1. rewrite firstn_map. rewrite ES.
      assert (EF : firstn (Z.to_nat M) (X ++ e :: B) = X ++ [e]).
      { rewrite firstn_app. rewrite firstn_all2 by lia. replace (Z.to_nat M - length X) with 1 by lia. reflexivity. }
      rewrite EF. rewrite map_app. rewrite last_marker_app. simpl. unfold last_marker. simpl. apply rel_marker_item_of. }
    rewrite Hnext.
    assert (HeK : In e K).
    { assert (In e E0).
      { rewrite <- (firstn_skipn p E0). apply in_or_app. right. rewrite ES. apply in_or_app. right. left. reflexivity. }
      unfold E0 in H. apply filter_In in H. exact (proj1 H). }
    split.
    - apply no_slash_count. pose proof (wf_good_names K e HK HeK) as GN. unfold good_name in GN.
      apply andb_true_iff in GN. exact (proj2 GN).
    - assert (EQ : E0 = (firstn p E0 ++ X) ++ e :: B) by (rewrite <- app_assoc, <- ES; symmetry; apply firstn_skipn).
      pose proof E0_sorted as TS. rewrite EQ in TS.
      rewrite EQ at 1. rewrite (filter_gt_split _ e B TS).
      rewrite skipn_add. rewrite ES.
      replace (Z.to_nat M) with (length (X ++ [e])) by (rewrite app_length; simpl; lia).
      change (X ++ e :: B) with (X ++ [e] ++ B). rewrite app_assoc. rewrite skipn_app_exact. reflexivity.
  Qed.

  Lemma valid_d_start : valid_d "" 0.
  Proof.
    split; [reflexivity|]. simpl skipn. apply forallb_filter_id. apply forallb_forall. intros t Ht.
    unfold E0 in Ht. apply filter_In in Ht. destruct Ht as [Ht _].
    rewrite ltb_empty. apply negb_true_iff. apply String.eqb_neq. apply good_name_nonempty. exact (wf_good_names K t HK Ht).
  Qed.

  Theorem pages_complete_delim : forall n, length Rall < n ->
    flat_map r_items (pag page_d n "") = Rall /\
    exists l r, pag page_d n "" = l ++ [r] /\ r_trunc r = false.
  Proof.
    intros n Hn.
    exact (pag_complete page_d Rall (Z.to_nat M) ltac:(lia) valid_d Hpage_d n "" 0 valid_d_start Hn).
  Qed.
End Delim.

(* ---------- rendering: the model's pages are the rendered results ---------- *)

Definition render (r : res) : page :=
  mk_page (flat_map key_of (r_items r)) (flat_map cp_of (r_items r)) (r_trunc r)
          (if r_trunc r then r_next r else "").

Lemma paginate_token : forall ae rootk prefix M delim st, (st = V2Token \/ st = V1NextMarker) ->
  forall n m, paginate n ae rootk prefix M delim st m =
              map render (pag (fun m => list_items ae rootk prefix M m delim) n m).
Proof.
  intros ae rootk prefix M delim st Hst. induction n as [|n IH]; intros m; [reflexivity|].
  simpl paginate. simpl pag. cbv zeta.
  change (list_objects ae rootk prefix M m delim) with (render (list_items ae rootk prefix M m delim)).
  simpl map. f_equal. simpl pg_trunc.
  destruct (r_trunc (list_items ae rootk prefix M m delim)) eqn:ET; [|reflexivity].
  assert (EN : next_marker st (render (list_items ae rootk prefix M m delim)) = Some (r_next (list_items ae rootk prefix M m delim))).
  { destruct Hst; subst st; simpl; rewrite ET; reflexivity. }
  rewrite EN. apply IH.
Qed.

Lemma flat_map_render_keys : forall rs, flat_map pg_keys (map render rs) = flat_map key_of (flat_map r_items rs).
Proof. induction rs as [|r rs IH]; [reflexivity|]. simpl. rewrite IH, flat_map_app. reflexivity. Qed.

Lemma flat_map_render_cps : forall rs, flat_map pg_cps (map render rs) = flat_map cp_of (flat_map r_items rs).
Proof. induction rs as [|r rs IH]; [reflexivity|]. simpl. rewrite IH, flat_map_app. reflexivity. Qed.

(* FINAL (i): with delimiter "/" a client following the continuation token / NextMarker
   gets every key and every common prefix of the reference listing exactly in order,
   and the last page says "not truncated" *)
Theorem paginate_complete_delim : forall ae rootk prefix K M n st,
  wf rootk = true -> bad_prefix prefix = false -> walk rootk (req_dir prefix) = Some K -> (1 <= M)%Z ->
  (snd (split_prefix prefix) =? "/") = false ->
  forallb (productive ae true) (filter (fun t => String.prefix (snd (split_prefix prefix)) (tname t)) K) = true ->
  (st = V2Token \/ st = V1NextMarker) ->
  length (ref_list ae rootk prefix true) < n ->
  let pages := paginate n ae rootk prefix M true st "" in
  flat_map pg_keys pages = flat_map key_of (ref_list ae rootk prefix true) /\
  flat_map pg_cps pages = flat_map cp_of (ref_list ae rootk prefix true) /\
  exists l p, pages = l ++ [p] /\ pg_trunc p = false.
Proof.
  intros ae rootk prefix K M n st Hwf Hbp HW HM Hpfx Hprod Hst Hn pages. unfold pages.
  rewrite (paginate_token ae rootk prefix M true st Hst).
  destruct (pages_complete_delim ae rootk Hwf prefix Hbp K HW M HM Hpfx Hprod n Hn) as [H1 [l [r [H2 H3]]]].
  unfold page_d in *. rewrite flat_map_render_keys, flat_map_render_cps, H1. unfold Rall. split; [reflexivity|]. split; [reflexivity|].
  exists (map render l), (render r). split; [rewrite H2, map_app; reflexivity | exact H3].
Qed.
