(* Proofs about model/EntryCodec.v (C24). *)
From Coq Require Import List Arith NArith ZArith Bool String Ascii Lia Decimal DecimalN DecimalPos.
From SW Require Import model.UploadCodec model.EntryCodec proof.UploadCodecProofs.
Import ListNotations.
Local Open Scope N_scope.

(* ========================================================================= *)
(* 1. attributes and the protobuf message: every field is carried both ways   *)
(* ... except the sub-second part of the two times (the wire format has int64 seconds) *)
Lemma attr_pb_roundtrip : forall a, pb_to_attr (Some (attr_to_pb a)) = wire_attr a.
Proof. intros []; reflexivity. Qed.

Lemma wire_attr_id_iff : forall a, wire_attr a = a <-> (a_mtime_ns a = 0 /\ a_crtime_ns a = 0).
Proof.
  intros []; unfold wire_attr; simpl. split.
  - intros H. inversion H. split; congruence.
  - intros [-> ->]. reflexivity.
Qed.

Lemma pb_attr_roundtrip : forall p, attr_to_pb (pb_to_attr (Some p)) = p.
Proof. intros []; reflexivity. Qed.

Lemma from_to_pb : forall e, from_pb (to_pb e) = wire e.
Proof. intros [[] x c h n ct r]. reflexivity. Qed.

Lemma trigger_subsec_false : forall e, trigger_subsec e = false <->
  (a_mtime_ns (e_attr e) = 0 /\ a_crtime_ns (e_attr e) = 0).
Proof.
  intros e. unfold trigger_subsec. rewrite orb_false_iff, !negb_false_iff, !N.eqb_eq. tauto.
Qed.

(* the wire form of an entry is the entry itself exactly when both times are whole seconds *)
Lemma wire_id_iff : forall e, wire e = e <-> trigger_subsec e = false.
Proof.
  intros e. rewrite trigger_subsec_false, <- wire_attr_id_iff.
  destruct e as [a x c h n ct r]. unfold wire, set_attr_chunks. simpl. split.
  - intros H. inversion H as [H1]. rewrite H1. exact H1.
  - intros ->. reflexivity.
Qed.

Lemma wire_idempotent : forall e, wire (wire e) = wire e.
Proof. intros [[] x c h n ct r]. reflexivity. Qed.

Lemma finish_wire : forall e, finish (wire e) = wire (finish e).
Proof. intros [[] x c h n ct r]. reflexivity. Qed.

Lemma view_wire : forall e, view (wire e) = wire (view e).
Proof. intros [[] x c h n ct r]. reflexivity. Qed.

(* ========================================================================= *)
(* 2. file id strings                                                         *)
Lemma bytes_eqb_eq : forall a b, bytes_eqb a b = true <-> a = b.
Proof.
  induction a as [|x a IH]; destruct b as [|y b]; simpl; split; intros H; try discriminate; auto.
  - apply andb_true_iff in H. destruct H as [H1 H2]. apply N.eqb_eq in H1. apply IH in H2. congruence.
  - inversion H; subst. rewrite N.eqb_refl. apply IH. reflexivity.
Qed.

Lemma bytes_eqb_refl : forall a, bytes_eqb a a = true.
Proof. intros. apply bytes_eqb_eq. reflexivity. Qed.

(* ---- decimal ---- *)
Lemma digits_uint_uint_digits : forall d, digits_uint (uint_digits d) = Some d.
Proof. induction d; simpl; try rewrite IHd; reflexivity. Qed.

Lemma uint_digits_no_comma : forall d, Forall (fun c => c <> 44) (uint_digits d).
Proof. induction d; simpl; constructor; auto; discriminate. Qed.

Lemma to_uint_nonnil : forall n, N.to_uint n <> Nil.
Proof. intros [|p]; simpl; [discriminate | apply Unsigned.to_uint_nonnil]. Qed.

Lemma uint_digits_nonempty : forall d, d <> Nil -> uint_digits d <> [].
Proof. intros [] H; simpl; try discriminate. congruence. Qed.

Lemma parse_dec_of_N : forall n, parse_dec (dec_of_N n) = Some n.
Proof.
  intros n. unfold parse_dec, dec_of_N.
  pose proof (uint_digits_nonempty _ (to_uint_nonnil n)) as Hne.
  destruct (uint_digits (N.to_uint n)) eqn:E; [congruence|].
  rewrite <- E, digits_uint_uint_digits, DecimalN.Unsigned.of_to. reflexivity.
Qed.

Lemma split_comma_app : forall a b, Forall (fun c => c <> 44) a -> split_comma (a ++ 44 :: b) = Some (a, b).
Proof.
  induction a as [|x a IH]; intros b H; simpl.
  - reflexivity.
  - inversion H as [|? ? Hx Ha]; subst.
    destruct (x =? 44) eqn:E; [apply N.eqb_eq in E; congruence|].
    rewrite IH by assumption. reflexivity.
Qed.

(* ---- hexadecimal ---- *)
Lemma hex_val_digit : forall v, v < 16 -> hex_val (hex_digit v) = Some v.
Proof.
  intros v H.
  assert (E : v = 0 \/ v = 1 \/ v = 2 \/ v = 3 \/ v = 4 \/ v = 5 \/ v = 6 \/ v = 7 \/ v = 8 \/ v = 9 \/
              v = 10 \/ v = 11 \/ v = 12 \/ v = 13 \/ v = 14 \/ v = 15) by lia.
  repeat (destruct E as [E|E]; [subst; reflexivity|]). subst; reflexivity.
Qed.

Lemma hex_val_lt : forall c v, hex_val c = Some v -> v < 16.
Proof.
  intros c v. unfold hex_val.
  destruct ((48 <=? c) && (c <=? 57)) eqn:E1.
  - apply andb_true_iff in E1. destruct E1 as [A B]. apply N.leb_le in A, B. intros H; inversion H. lia.
  - destruct ((97 <=? c) && (c <=? 102)) eqn:E2.
    + apply andb_true_iff in E2. destruct E2 as [A B]. apply N.leb_le in A, B. intros H; inversion H. lia.
    + destruct ((65 <=? c) && (c <=? 70)) eqn:E3; [|discriminate].
      apply andb_true_iff in E3. destruct E3 as [A B]. apply N.leb_le in A, B. intros H; inversion H. lia.
Qed.

Definition bval (acc : N) (bs : list N) : N := fold_left (fun a b => a * 256 + b) bs acc.

Lemma parse_hex_acc_byte : forall b acc rest, b < 256 ->
  parse_hex_acc acc (hex_byte b ++ rest) = parse_hex_acc (acc * 256 + b) rest.
Proof.
  intros b acc rest Hb. unfold hex_byte. simpl.
  assert (H1 : b / 16 < 16) by (apply N.div_lt_upper_bound; lia).
  assert (H2 : b mod 16 < 16) by (apply N.mod_lt; lia).
  rewrite (hex_val_digit _ H1), (hex_val_digit _ H2).
  f_equal. pose proof (N.div_mod b 16). lia.
Qed.

Lemma parse_hex_acc_bytes : forall bs acc rest, Forall (fun b => b < 256) bs ->
  parse_hex_acc acc (flat_map hex_byte bs ++ rest) = parse_hex_acc (bval acc bs) rest.
Proof.
  induction bs as [|b bs IH]; intros acc rest H.
  - reflexivity.
  - change (flat_map hex_byte (b :: bs)) with (hex_byte b ++ flat_map hex_byte bs).
    inversion H; subst. rewrite <- app_assoc, parse_hex_acc_byte by assumption. apply IH. assumption.
Qed.

Definition p256 (k : nat) : N := 256 ^ N.of_nat k.

Lemma p256_S : forall k, p256 (S k) = 256 * p256 k.
Proof. intros. unfold p256. rewrite Nat2N.inj_succ, N.pow_succ_r'. reflexivity. Qed.

Lemma p256_pos : forall k, p256 k <> 0.
Proof. intros. unfold p256. apply N.pow_nonzero. discriminate. Qed.

Lemma be_bytes_lt : forall k n, Forall (fun b => b < 256) (be_bytes k n).
Proof.
  induction k; intros n; simpl; [constructor|].
  apply Forall_app. split; [apply IHk|]. constructor; [apply N.mod_lt; discriminate | constructor].
Qed.

Lemma be_bytes_length : forall k n, List.length (be_bytes k n) = k.
Proof. induction k; intros n; simpl; [reflexivity|]. rewrite app_length, IHk. simpl. lia. Qed.

Lemma bval_app : forall a b acc, bval acc (a ++ b) = bval (bval acc a) b.
Proof. intros. unfold bval. apply fold_left_app. Qed.

Lemma be_bytes_value : forall k n acc, bval acc (be_bytes k n) = acc * p256 k + n mod p256 k.
Proof.
  induction k; intros n acc.
  - simpl. unfold p256. simpl. rewrite N.mod_1_r. lia.
  - simpl be_bytes. rewrite bval_app, IHk. simpl. rewrite p256_S.
    rewrite (N.mod_mul_r n 256 (p256 k)) by (try discriminate; apply p256_pos). lia.
Qed.

Lemma strip_zero_value : forall fuel l, bval 0 (strip_zero_bytes fuel l) = bval 0 l.
Proof.
  induction fuel; intros l; simpl; [reflexivity|].
  destruct l as [|[|p] l]; try reflexivity. simpl. apply IHfuel.
Qed.

Lemma strip_zero_app : forall n a b, (n <= List.length a)%nat -> strip_zero_bytes n (a ++ b) = strip_zero_bytes n a ++ b.
Proof.
  induction n; intros a b H.
  - simpl. destruct (a ++ b); destruct a; reflexivity.
  - destruct a as [|x a]; [simpl in H; lia|]. simpl in H.
    destruct x as [|p]; simpl; [apply IHn; lia | reflexivity].
Qed.

(* at most [fuel] bytes are dropped *)
Lemma strip_zero_length_ge : forall fuel l, (List.length l <= List.length (strip_zero_bytes fuel l) + fuel)%nat.
Proof.
  induction fuel; intros l; simpl; [destruct l; simpl; lia|].
  destruct l as [|[|p] l]; simpl; try lia. specialize (IHfuel l). lia.
Qed.

Lemma strip_zero_length : forall fuel l, (List.length (strip_zero_bytes fuel l) <= List.length l)%nat.
Proof.
  induction fuel; intros l; simpl; [lia|].
  destruct l as [|[|p] l]; simpl; try lia. specialize (IHfuel l). lia.
Qed.

Lemma strip_zero_Forall : forall P fuel l, Forall P l -> Forall P (strip_zero_bytes fuel l).
Proof.
  intros P. induction fuel; intros l H; simpl; [assumption|].
  destruct l as [|[|p] l]; try assumption. inversion H; subst. apply IHfuel. assumption.
Qed.

Lemma flat_hex_length : forall l, List.length (flat_map hex_byte l) = (2 * List.length l)%nat.
Proof. induction l; simpl; [reflexivity|]. rewrite IHl. lia. Qed.

Lemma parse_hex_bytes : forall bs, bs <> [] -> Forall (fun b => b < 256) bs ->
  parse_hex (flat_map hex_byte bs) = Some (bval 0 bs).
Proof.
  intros bs Hne H. unfold parse_hex.
  destruct bs as [|b bs]; [congruence|].
  destruct (flat_map hex_byte (b :: bs)) eqn:E; [simpl in E; discriminate|].
  rewrite <- E. rewrite <- (app_nil_r (flat_map hex_byte (b :: bs))).
  rewrite parse_hex_acc_bytes by assumption. reflexivity.
Qed.

Definition key_bytes (key : N) : list N := strip_zero_bytes 7 (be_bytes 8 key).

Lemma format_key_cookie_split : forall key cookie,
  format_key_cookie key cookie = flat_map hex_byte (key_bytes key) ++ flat_map hex_byte (be_bytes 4 cookie).
Proof.
  intros. unfold format_key_cookie, key_bytes.
  rewrite strip_zero_app by (rewrite be_bytes_length; lia). apply flat_map_app.
Qed.

Lemma key_bytes_value : forall key, key < 18446744073709551616 -> bval 0 (key_bytes key) = key.
Proof.
  intros key H. unfold key_bytes. rewrite strip_zero_value, be_bytes_value.
  change (p256 8) with 18446744073709551616. rewrite N.mod_small by assumption. lia.
Qed.

(* repaired formatNeedleIdCookie: key 0 keeps one (zero) byte *)
Lemma key_bytes_zero : key_bytes 0 = [0].
Proof. reflexivity. Qed.

Lemma key_bytes_nonempty : forall key, key_bytes key <> [].
Proof.
  intros key E. pose proof (strip_zero_length_ge 7 (be_bytes 8 key)) as H.
  fold (key_bytes key) in H. rewrite E, be_bytes_length in H. simpl in H. lia.
Qed.

Lemma key_bytes_length : forall key, (List.length (key_bytes key) <= 8)%nat.
Proof. intros. unfold key_bytes. pose proof (strip_zero_length 7 (be_bytes 8 key)). rewrite be_bytes_length in H. assumption. Qed.

Lemma cookie_value : forall c, c < 4294967296 -> bval 0 (be_bytes 4 c) = c.
Proof.
  intros c H. rewrite be_bytes_value. change (p256 4) with 4294967296. rewrite N.mod_small by assumption. lia.
Qed.

Lemma parse_key_cookie_format : forall key cookie,
  key < 18446744073709551616 -> cookie < 4294967296 ->
  parse_key_cookie (format_key_cookie key cookie) = Some (key, cookie).
Proof.
  intros key cookie Hk Hc. rewrite format_key_cookie_split. unfold parse_key_cookie.
  set (kh := flat_map hex_byte (key_bytes key)). set (ch := flat_map hex_byte (be_bytes 4 cookie)).
  assert (Lch : List.length ch = 8%nat) by (unfold ch; rewrite flat_hex_length, be_bytes_length; reflexivity).
  assert (Lkh : List.length kh = (2 * List.length (key_bytes key))%nat) by (unfold kh; apply flat_hex_length).
  rewrite app_length, Lch.
  - pose proof (key_bytes_nonempty key) as Hne. pose proof (key_bytes_length key) as Hle.
    assert (Hpos : (0 < List.length (key_bytes key))%nat) by (destruct (key_bytes key); [congruence | simpl; lia]).
    replace (Nat.leb (List.length kh + 8) 8) with false by (symmetry; apply Nat.leb_gt; lia).
    replace (Nat.ltb 24 (List.length kh + 8)) with false by (symmetry; apply Nat.ltb_ge; lia).
    replace (List.length kh + 8 - 8)%nat with (List.length kh) by lia.
    rewrite (firstn_app_exact kh ch _ eq_refl), (skipn_app_exact kh ch _ eq_refl).
    unfold kh, ch.
    rewrite parse_hex_bytes by (auto; unfold key_bytes; apply strip_zero_Forall, be_bytes_lt).
    rewrite parse_hex_bytes by (try apply be_bytes_lt; intro E; apply (f_equal (@List.length N)) in E; rewrite be_bytes_length in E; discriminate).
    rewrite key_bytes_value, cookie_value by assumption. reflexivity.
Qed.

Lemma fid_wf_spec : forall f, fid_wf f = true <->
  f_vid f < 4294967296 /\ f_key f < 18446744073709551616 /\ f_cookie f < 4294967296.
Proof.
  intros f. unfold fid_wf. rewrite !andb_true_iff, !N.ltb_lt. tauto.
Qed.

(* parse . format: the canonical string of a file id parses back to the same id,
   needle key 0 included (formatNeedleIdCookie as repaired keeps one key byte) *)
Theorem parse_format_fid : forall f, fid_wf f = true ->
  parse_fid (format_fid f) = Some f.
Proof.
  intros [v k c] H. apply fid_wf_spec in H. simpl in H. destruct H as [Hv [Hk Hc]].
  unfold parse_fid, format_fid. simpl f_vid. simpl f_key. simpl f_cookie.
  rewrite split_comma_app by apply uint_digits_no_comma.
  pose proof (uint_digits_nonempty _ (to_uint_nonnil v)) as Hne. fold (dec_of_N v) in Hne.
  destruct (dec_of_N v) eqn:E; [congruence|]. rewrite <- E, parse_dec_of_N.
  replace (v <? 4294967296) with true by (symmetry; apply N.ltb_lt; assumption).
  rewrite parse_key_cookie_format by assumption. reflexivity.
Qed.

(* parse only produces ids that fit the Go types *)
Lemma parse_hex_acc_bound : forall l acc v, parse_hex_acc acc l = Some v -> v < (acc + 1) * 16 ^ N.of_nat (List.length l).
Proof.
  induction l as [|c l IH]; intros acc v H; simpl in H.
  - inversion H. simpl. lia.
  - destruct (hex_val c) as [d|] eqn:Ed; [|discriminate].
    apply hex_val_lt in Ed. apply IH in H.
    simpl List.length. rewrite Nat2N.inj_succ, N.pow_succ_r'. nia.
Qed.

Lemma parse_hex_bound : forall l v n, parse_hex l = Some v -> (List.length l <= n)%nat -> v < 16 ^ N.of_nat n.
Proof.
  intros l v n H Hl. unfold parse_hex in H. destruct l; [discriminate|].
  apply parse_hex_acc_bound in H. rewrite N.add_0_l, N.mul_1_l in H.
  eapply N.lt_le_trans; [exact H|]. apply N.pow_le_mono_r; [discriminate | lia].
Qed.

Lemma parse_fid_wf : forall s f, parse_fid s = Some f -> fid_wf f = true.
Proof.
  intros s f H. unfold parse_fid in H.
  destruct (split_comma s) as [[v kc]|]; [|discriminate].
  destruct v as [|v0 v]; [discriminate|].
  destruct (parse_dec (v0 :: v)) as [vid|]; [|discriminate].
  destruct (vid <? 4294967296) eqn:Ev; [|discriminate].
  destruct (parse_key_cookie kc) as [[k c]|] eqn:Ekc; [|discriminate].
  inversion H; subst f. apply fid_wf_spec. simpl. apply N.ltb_lt in Ev.
  unfold parse_key_cookie in Ekc.
  destruct (Nat.leb (List.length kc) 8) eqn:E1; [discriminate|].
  destruct (Nat.ltb 24 (List.length kc)) eqn:E2; [discriminate|].
  apply Nat.leb_gt in E1. apply Nat.ltb_ge in E2.
  destruct (parse_hex (firstn (List.length kc - 8) kc)) as [k'|] eqn:Ek; [|discriminate].
  destruct (parse_hex (skipn (List.length kc - 8) kc)) as [c'|] eqn:Ec; [|discriminate].
  inversion Ekc; subst k' c'.
  apply (parse_hex_bound _ _ 16) in Ek; [|rewrite firstn_length; lia].
  apply (parse_hex_bound _ _ 8) in Ec; [|rewrite skipn_length; lia].
  repeat split; try assumption.
Qed.

(* canonicalisation of a string *)
Lemma canon_str_unparsable : forall s, parse_fid s = None -> canon_str s = s.
Proof. intros s H. unfold canon_str. rewrite H. reflexivity. Qed.

Theorem canon_str_idempotent : forall s, canon_str (canon_str s) = canon_str s.
Proof.
  intros s. unfold canon_str at 2 3. destruct (parse_fid s) as [f|] eqn:E.
  - unfold canon_str. rewrite (parse_format_fid f (parse_fid_wf s f E)). reflexivity.
  - unfold canon_str. rewrite E. reflexivity.
Qed.

Lemma canon_str_canonical : forall s, fidstr_canonical (canon_str s) = true.
Proof. intros. unfold fidstr_canonical. rewrite canon_str_idempotent. apply bytes_eqb_refl. Qed.

(* the id a string denotes survives canonicalisation (needle key 0 included) *)
Theorem canon_str_preserves_id : forall s f, parse_fid s = Some f -> parse_fid (canon_str s) = Some f.
Proof.
  intros s f H. unfold canon_str. rewrite H. apply (parse_format_fid f (parse_fid_wf s f H)).
Qed.

(* the former witness of finding 1 *)
Lemma canon_str_key_zero_example :
  canon_str (s2b "3,00637037d6") = s2b "3,00637037d6" /\
  canon_str (s2b "3,0000000000000000637037D6") = s2b "3,00637037d6" /\
  parse_fid (s2b "3,00637037d6") = Some {| f_vid := 3; f_key := 0; f_cookie := 1668298710 |} /\
  parse_fid (s2b "3,637037d6") = None.
Proof. vm_compute. repeat split; reflexivity. Qed.

(* ========================================================================= *)
(* 3. one chunk / one entry through prepare and finish                        *)
Lemma id_string_after_before : forall s f,
  fidstr_canonical s = true ->
  id_string (after_id (fst (before_id s f)) (snd (before_id s f))) (snd (before_id s f)) = id_string s f.
Proof.
  intros s f Hc. unfold before_id.
  destruct s as [|x s]; simpl nonempty; cbv iota.
  - destruct f as [y|]; [|reflexivity].
    unfold id_string, after_id. simpl. destruct (format_fid y); reflexivity.
  - unfold fidstr_canonical, canon_str in Hc.
    destruct (parse_fid (x :: s)) as [y|] eqn:E.
    + apply bytes_eqb_eq in Hc. unfold id_string, after_id. simpl. rewrite Hc. reflexivity.
    + unfold id_string, after_id. simpl. destruct f; reflexivity.
Qed.

Lemma view_after_before : forall c, chunk_canonical c = true ->
  view_chunk (after_chunk (before_chunk c)) = view_chunk c.
Proof.
  intros c H. unfold chunk_canonical in H. apply andb_true_iff in H. destruct H as [H1 H2].
  unfold view_chunk, after_chunk, before_chunk. simpl.
  rewrite (id_string_after_before _ (c_fid c) H1), (id_string_after_before _ (c_source_fid c) H2).
  reflexivity.
Qed.

Theorem view_canon : forall e,
  trigger_octet e = false -> forallb chunk_canonical (e_chunks e) = true -> view (canon e) = view e.
Proof.
  intros e Ho Hc. unfold view, canon, finish, prepare, set_attr_chunks. simpl.
  unfold trigger_octet in Ho. rewrite Ho. f_equal.
  rewrite !map_map. apply map_ext_in. intros c Hin.
  apply view_after_before. rewrite forallb_forall in Hc. apply Hc. assumption.
Qed.

(* AfterEntryDeserialization does not change what a reader sees *)
Lemma view_after_chunk : forall c, view_chunk (after_chunk c) = view_chunk c.
Proof.
  intros c. unfold view_chunk, after_chunk. simpl.
  assert (H : forall s f, id_string (after_id s f) f = id_string s f).
  { intros s f. unfold id_string, after_id. destruct f as [x|]; [|reflexivity].
    destruct s; simpl; [destruct (format_fid x); reflexivity | reflexivity]. }
  rewrite !H. reflexivity.
Qed.

Lemma view_finish : forall e, view (finish e) = view e.
Proof.
  intros e. unfold view, finish, set_attr_chunks. simpl. f_equal.
  rewrite map_map. apply map_ext. apply view_after_chunk.
Qed.

(* what comes back by lookup / wrapper listing, and by the stores' own prefixed listing *)
Theorem view_read_back : forall e,
  trigger_octet e = false -> trigger_subsec e = false ->
  forallb chunk_canonical (e_chunks e) = true ->
  view (read_back e) = view e /\ view (wire (prepare e)) = view e.
Proof.
  intros e Ho Hs Hc. apply wire_id_iff in Hs.
  assert (Hw : wire (view e) = view e) by (rewrite <- view_wire, Hs; reflexivity).
  split.
  - unfold read_back. rewrite view_wire, view_canon by assumption. exact Hw.
  - rewrite view_wire, <- (view_finish (prepare e)). fold (canon e). rewrite view_canon by assumption. exact Hw.
Qed.

(* independent of the triggers: the two read paths agree in the reader's view *)
Lemma view_paths_agree : forall e, view (wire (prepare e)) = view (read_back e).
Proof. intros e. unfold read_back, canon. rewrite !view_wire, view_finish. reflexivity. Qed.

(* every file id a reader sees in a read-back entry is canonical *)
Lemma id_string_canonical : forall s f,
  (forall y, f = Some y -> fid_wf y = true) ->
  fidstr_canonical (id_string (after_id (fst (before_id s f)) (snd (before_id s f))) (snd (before_id s f))) = true.
Proof.
  intros s f Hwf. unfold before_id.
  assert (Hfmt : forall y, fid_wf y = true -> fidstr_canonical (format_fid y) = true).
  { intros y Hy. unfold fidstr_canonical, canon_str. rewrite (parse_format_fid y Hy).
    apply bytes_eqb_refl. }
  destruct s as [|x s]; simpl nonempty; cbv iota.
  - destruct f as [y|]; [|reflexivity].
    unfold id_string, after_id. simpl.
    destruct (format_fid y) eqn:E; [reflexivity|]. simpl. rewrite <- E. apply Hfmt, Hwf. reflexivity.
  - destruct (parse_fid (x :: s)) as [y|] eqn:E.
    + unfold id_string, after_id. simpl.
      destruct (format_fid y) eqn:E2; [reflexivity|]. simpl. rewrite <- E2. apply Hfmt. eapply parse_fid_wf; eassumption.
    + assert (Hs : fidstr_canonical (x :: s) = true).
      { unfold fidstr_canonical. rewrite canon_str_unparsable by assumption. apply bytes_eqb_refl. }
      unfold id_string, after_id. simpl. destruct f; simpl; assumption.
Qed.

Definition wire_witness : entry :=
  {| e_attr := {| a_mtime := 43200%Z; a_mtime_ns := 500000000; a_crtime := 43200%Z; a_crtime_ns := 0; a_mode := 420;
                  a_uid := 0; a_gid := 0; a_mime := ""; a_replication := ""; a_collection := ""; a_ttl_sec := 0%Z;
                  a_disk_type := ""; a_user_name := ""; a_group_names := []; a_symlink_target := ""; a_md5 := [];
                  a_file_size := 0 |};
     e_extended := []; e_chunks := []; e_hard_link_id := []; e_hard_link_counter := 0%Z; e_content := [];
     e_remote := None |}.

Definition chunk_fids_wf (c : chunk) : Prop :=
  (forall y, c_fid c = Some y -> fid_wf y = true) /\ (forall y, c_source_fid c = Some y -> fid_wf y = true).

Theorem canon_ids_canonical : forall e,
  (forall c, In c (e_chunks e) -> chunk_fids_wf c) ->
  forall c, In c (e_chunks (view (read_back e))) -> chunk_canonical c = true.
Proof.
  intros e Hwf c Hin. unfold read_back, wire, view, canon, finish, prepare, set_attr_chunks in Hin. simpl in Hin.
  rewrite !map_map in Hin. apply in_map_iff in Hin. destruct Hin as [c0 [Hc Hin0]]. subst c.
  destruct (Hwf c0 Hin0) as [W1 W2].
  unfold chunk_canonical, view_chunk, after_chunk, before_chunk. simpl.
  rewrite (id_string_canonical _ _ W1), (id_string_canonical _ _ W2). reflexivity.
Qed.

Theorem canon_identity_refuted : exists e,
  forallb chunk_canonical (e_chunks e) = true /\ trigger_subsec e = false /\ view (read_back e) <> view e.
Proof.
  exists {| e_attr := set_mime zero_attr octet_stream; e_extended := []; e_chunks := [];
            e_hard_link_id := []; e_hard_link_counter := 0%Z; e_content := []; e_remote := None |}.
  split; [reflexivity | split; [reflexivity | vm_compute; discriminate]].
Qed.

(* finding 2: 12:00:00.5 comes back as 12:00:00 *)
Theorem subsec_refuted : exists e,
  forallb chunk_canonical (e_chunks e) = true /\ trigger_octet e = false /\ view (read_back e) <> view e.
Proof.
  exists (wire_witness).
  split; [reflexivity | split; [reflexivity | vm_compute; discriminate]].
Qed.

(* exactly the times are affected: read_back differs from canon iff a time has a sub-second part *)
Theorem read_back_canon_iff : forall e, read_back e = canon e <-> trigger_subsec e = false.
Proof.
  intros e. unfold read_back. rewrite wire_id_iff. unfold trigger_subsec, canon, finish, prepare, set_attr_chunks. simpl.
  destruct (String.eqb (a_mime (e_attr e)) octet_stream); reflexivity.
Qed.

(* ========================================================================= *)
(* 4. the store                                                               *)
Section StoreProofs.
Context {blob : Type}.
Variable C : codec blob.

Record codec_laws : Prop := {
  cl_decode_encode : forall m, cd_decode C (cd_encode C m) = Some m;
  cl_gunzip_gzip : forall x, gz_gunzip (cd_gz C) (gz_gzip (cd_gz C) x) = GzOk x;
  cl_gzip_magic : forall x, is_gzipped_content (cd_gz C) (gz_gzip (cd_gz C) x) = true;
  (* the first byte of a marshalled Entry is the tag of its first populated field *)
  cl_first_byte : forall m a b, gz_head2 (cd_gz C) (cd_encode C m) = Some (a, b) -> pb_first_byte m = Some a }.

(* needs only the first-byte hypothesis *)
Theorem no_false_gzip :
  (forall m a b, gz_head2 (cd_gz C) (cd_encode C m) = Some (a, b) -> pb_first_byte m = Some a) ->
  forall m, is_gzipped_content (cd_gz C) (cd_encode C m) = false.
Proof.
  intros Hfb m. unfold is_gzipped_content.
  destruct (gz_head2 (cd_gz C) (cd_encode C m)) as [[a b]|] eqn:E; [|reflexivity].
  apply Hfb in E. unfold pb_first_byte in E.
  destruct (m_is_directory m); [inversion E; reflexivity|].
  destruct (nonempty (m_chunks m)); [inversion E; reflexivity|].
  destruct (m_attributes m); [inversion E; reflexivity|].
  destruct (nonempty (m_extended m)); [inversion E; reflexivity|].
  destruct (nonempty (m_hard_link_id m)); [inversion E; reflexivity|].
  destruct (negb (m_hard_link_counter m =? 0)%Z); [inversion E; reflexivity|].
  destruct (nonempty (m_content m)); [inversion E; reflexivity|].
  destruct (m_remote m); [inversion E; reflexivity | discriminate].
Qed.

Hypothesis LW : codec_laws.

Lemma decode_encode_entry : forall e, decode_entry C (encode_entry C e) = Some (wire e).
Proof. intros e. unfold decode_entry, encode_entry. rewrite (cl_decode_encode LW), from_to_pb. reflexivity. Qed.

Lemma decode_stored_value : forall e, decode_entry C (maybe_decompress C (stored_value C e)) = Some (wire e).
Proof.
  intros e. unfold stored_value, maybe_decompress.
  pose proof (no_false_gzip (cl_first_byte LW) (to_pb e)) as Hng. fold (encode_entry C e) in Hng.
  destruct (50 <? len (e_chunks e)).
  - rewrite (maybe_decompress_maybe_gzip (cd_gz C) (cl_gunzip_gzip LW) (cl_gzip_magic LW) true _ Hng).
    apply decode_encode_entry.
  - rewrite (maybe_decompress_not_gz (cd_gz C) true _ Hng). apply decode_encode_entry.
Qed.

(* association lists *)
Lemma path_eqb_eq : forall a b, path_eqb a b = true <-> a = b.
Proof.
  intros [a1 a2] [b1 b2]. unfold path_eqb. simpl. rewrite andb_true_iff, !String.eqb_eq.
  split; [intros [-> ->]; reflexivity | intros H; inversion H; auto].
Qed.

Section Assoc.
Context {K V : Type}.
Variable eqb : K -> K -> bool.
Hypothesis eqb_eq : forall a b, eqb a b = true <-> a = b.

Lemma eqb_refl' : forall a, eqb a a = true.
Proof. intros. apply eqb_eq. reflexivity. Qed.

Lemma aget_aput_same : forall k (v : V) l, aget eqb k (aput eqb k v l) = Some v.
Proof. intros. unfold aput. simpl. rewrite eqb_refl'. reflexivity. Qed.

Lemma aget_adel_other : forall k k' (l : list (K * V)), k <> k' -> aget eqb k (adel eqb k' l) = aget eqb k l.
Proof.
  intros k k' l Hne. unfold adel. induction l as [|[k0 v0] l IH]; simpl; [reflexivity|].
  destruct (eqb k' k0) eqn:E1; simpl.
  - apply eqb_eq in E1. subst k0.
    destruct (eqb k k') eqn:E2; [apply eqb_eq in E2; congruence | apply IH].
  - destruct (eqb k k0); [reflexivity | apply IH].
Qed.

Lemma aget_aput_other : forall k k' (v : V) l, k <> k' -> aget eqb k (aput eqb k' v l) = aget eqb k l.
Proof.
  intros k k' v l Hne. unfold aput. simpl.
  destruct (eqb k k') eqn:E; [apply eqb_eq in E; congruence|].
  apply aget_adel_other. assumption.
Qed.
End Assoc.

Lemma delete_hard_link_keeps : forall st id st' k,
  delete_hard_link C st id = Some st' -> k <> id -> kv_get k st' = kv_get k st.
Proof.
  intros st id st' k H Hne. unfold delete_hard_link in H.
  destruct (kv_get id st) as [v|]; [|inversion H; reflexivity].
  destruct (decode_entry C v) as [e|]; [|discriminate].
  destruct ((e_hard_link_counter e - 1 <=? 0)%Z); inversion H; unfold kv_get, kv_del, kv_put; simpl.
  - apply (aget_adel_other bytes_eqb bytes_eqb_eq). assumption.
  - apply (aget_aput_other bytes_eqb bytes_eqb_eq). assumption.
Qed.

Lemma delete_hard_link_entries : forall st id st',
  delete_hard_link C st id = Some st' -> st_entries st' = st_entries st.
Proof.
  intros st id st' H. unfold delete_hard_link in H.
  destruct (kv_get id st) as [v|]; [|inversion H; reflexivity].
  destruct (decode_entry C v) as [e|]; [|discriminate].
  destruct ((e_hard_link_counter e - 1 <=? 0)%Z); inversion H; reflexivity.
Qed.

Lemma handle_hard_links_kv : forall st p e st1,
  handle_hard_links C st p e = Some st1 -> nonempty (e_hard_link_id e) = true ->
  kv_get (e_hard_link_id e) st1 = Some (encode_entry C e).
Proof.
  intros st p e st1 H Hid. unfold handle_hard_links in H. rewrite Hid in H.
  set (st0 := kv_put (e_hard_link_id e) (encode_entry C e) st) in *.
  assert (H0 : kv_get (e_hard_link_id e) st0 = Some (encode_entry C e)).
  { unfold st0, kv_get, kv_put. simpl. apply (aget_aput_same bytes_eqb bytes_eqb_eq). }
  destruct (store_find C st0 p) as [ex| |]; try (inversion H; subst; assumption).
  destruct (nonempty (e_hard_link_id ex) && negb (bytes_eqb (e_hard_link_id ex) (e_hard_link_id e))) eqn:Ec.
  - apply andb_true_iff in Ec. destruct Ec as [_ Ec]. apply negb_true_iff in Ec.
    rewrite (delete_hard_link_keeps _ _ _ (e_hard_link_id e) H); [assumption|].
    intro Heq. rewrite <- Heq, bytes_eqb_refl in Ec. discriminate.
  - inversion H; subst. assumption.
Qed.

(* ---- names and their order ---- *)
Lemma insert_name_In : forall n l x, In x (insert_name n l) <-> x = n \/ In x l.
Proof.
  intros n l x. induction l as [|m l IH]; simpl.
  - split; intros [H|H]; auto; contradiction.
  - destruct (String.eqb n m) eqn:E.
    + apply String.eqb_eq in E. subst m. simpl. split; [auto | intros [H|H]; [left; auto | assumption]].
    + destruct (str_leb n m); simpl; [split; intros [H|H]; auto|].
      rewrite IH. split; [intros [H|[H|H]]; auto | intros [H|[H|H]]; auto].
Qed.

Lemma sort_names_In : forall l x, In x (sort_names l) <-> In x l.
Proof.
  induction l as [|n l IH]; intros x; simpl; [tauto|].
  unfold sort_names in *. simpl. rewrite insert_name_In, IH. split; intros [H|H]; auto.
Qed.

Lemma names_in_In : forall (st : state blob) dir n,
  In n (names_in st dir) <-> exists b, In ((dir, n), b) (st_entries st).
Proof.
  intros st dir n. unfold names_in. rewrite in_flat_map. split.
  - intros [[[d m] b] [Hin H]]. simpl in H. destruct (String.eqb d dir) eqn:E; [|contradiction].
    apply String.eqb_eq in E. destruct H as [H|[]]. subst. exists b. assumption.
  - intros [b Hin]. exists ((dir, n), b). split; [assumption|]. simpl. rewrite String.eqb_refl. left. reflexivity.
Qed.

Lemma aget_In : forall (l : list (path * blob)) k v, In (k, v) l -> exists v', aget path_eqb k l = Some v'.
Proof.
  induction l as [|[k0 v0] l IH]; intros k v H; [contradiction|]. simpl.
  destruct (path_eqb k k0) eqn:E; [eexists; reflexivity|].
  destruct H as [H|H]; [|eapply IH; eassumption].
  inversion H; subst. rewrite (proj2 (path_eqb_eq k k) eq_refl) in E. discriminate.
Qed.

Lemma aget_Some_In : forall (l : list (path * blob)) k v, aget path_eqb k l = Some v -> In (k, v) l.
Proof.
  induction l as [|[k0 v0] l IH]; intros k v H; [discriminate|]. simpl in H.
  destruct (path_eqb k k0) eqn:E.
  - apply path_eqb_eq in E. inversion H; subst. left. reflexivity.
  - right. apply IH. assumption.
Qed.

(* the listing of the stores: exactly the names stored under the directory that pass
   the prefix / start / inclusive filter, each with the decoding of its own value *)
Theorem store_list_spec : forall st dir start incl pfx n oe,
  In (n, oe) (store_list_all C st dir start incl pfx) <->
  (list_filter start incl pfx n = true /\
   exists b, aget path_eqb (dir, n) (st_entries st) = Some b /\
             oe = decode_entry C (maybe_decompress C b)).
Proof.
  intros st dir start incl pfx n oe. unfold store_list_all. rewrite in_map_iff. split.
  - intros [m [Hm Hin]]. inversion Hm; subst m. clear Hm.
    apply filter_In in Hin. destruct Hin as [Hin Hf]. split; [assumption|].
    apply sort_names_In, names_in_In in Hin. destruct Hin as [b Hin].
    destruct (aget_In _ _ _ Hin) as [b' Hb']. exists b'. rewrite Hb'. split; reflexivity.
  - intros [Hf [b [Hb Hoe]]]. exists n. rewrite Hb. split; [subst oe; reflexivity|].
    apply filter_In. split; [|assumption].
    apply sort_names_In, names_in_In. exists b. apply aget_Some_In. assumption.
Qed.

(* a page is a prefix of the whole listing *)
Lemma store_list_page : forall st dir start incl limit pfx,
  store_list C st dir start incl limit pfx = firstn limit (store_list_all C st dir start incl pfx).
Proof. reflexivity. Qed.

Lemma page_In : forall A (l : list A) n x, In x (firstn n l) -> In x l.
Proof. intros A l n x H. rewrite <- (firstn_skipn n l). apply in_or_app. left. assumption. Qed.

(* the read-back of what was just written: by lookup, by the wrapper's listing and by the
   stores' own prefixed listing (whatever prefix, start name and inclusive flag let the name pass) *)
Theorem insert_then_find : forall st p e st',
  wrapper_insert C st p e = Some st' ->
  wrapper_find C st' p = SOk (read_back e) /\
  (forall start incl, list_filter start incl "" (snd p) = true ->
     In (snd p, Some (read_back e)) (wrapper_list_all C st' (fst p) start incl)) /\
  (forall start incl pfx, list_filter start incl pfx (snd p) = true ->
     In (snd p, Some (wire (prepare e))) (store_list_all C st' (fst p) start incl pfx)).
Proof.
  intros st p e st' H. unfold wrapper_insert in H.
  destruct (handle_hard_links C st p (prepare e)) as [st1|] eqn:Hh; [|discriminate].
  inversion H; subst st'. clear H.
  assert (Hrd : maybe_read_hard_link C (store_insert C st1 p (prepare e)) (wire (prepare e)) = wire (prepare e)).
  { unfold maybe_read_hard_link.
    change (e_hard_link_id (wire (prepare e))) with (e_hard_link_id (prepare e)).
    destruct (nonempty (e_hard_link_id (prepare e))) eqn:Hid; [|reflexivity].
    replace (kv_get (e_hard_link_id (prepare e)) (store_insert C st1 p (prepare e)))
      with (kv_get (e_hard_link_id (prepare e)) st1) by reflexivity.
    rewrite (handle_hard_links_kv _ _ _ _ Hh Hid), decode_encode_entry. reflexivity. }
  assert (Hget : aget path_eqb p (st_entries (store_insert C st1 p (prepare e))) = Some (stored_value C (prepare e))).
  { unfold store_insert. simpl st_entries. apply (aget_aput_same path_eqb path_eqb_eq). }
  assert (Hlist : forall start incl pfx, list_filter start incl pfx (snd p) = true ->
     In (snd p, Some (wire (prepare e))) (store_list_all C (store_insert C st1 p (prepare e)) (fst p) start incl pfx)).
  { intros start incl pfx Hf. apply store_list_spec. split; [assumption|].
    exists (stored_value C (prepare e)). rewrite <- surjective_pairing. split; [assumption|].
    rewrite decode_stored_value. reflexivity. }
  split; [|split].
  - unfold wrapper_find, store_find. rewrite Hget, decode_stored_value, Hrd, finish_wire. reflexivity.
  - intros start incl Hf. unfold wrapper_list_all.
    pose proof (in_map (decorate C (store_insert C st1 p (prepare e))) _ _ (Hlist start incl ""%string Hf)) as Hm.
    unfold decorate in Hm. cbn [fst snd] in Hm.
    rewrite Hrd, finish_wire in Hm. exact Hm.
  - exact Hlist.
Qed.

(* conversely, whatever a listing returns under a name is the decoding of the value
   stored at exactly that path: a listing never invents or mixes entries *)
Theorem listing_returns_stored : forall st dir start incl limit pfx n oe,
  In (n, oe) (wrapper_list_prefixed C st dir start incl limit pfx) ->
  list_filter start incl pfx n = true /\
  match store_find C st (dir, n) with
  | SOk e => oe = Some e
  | SErr => oe = None
  | SNotFound => False
  end.
Proof.
  intros st dir start incl limit pfx n oe H. unfold wrapper_list_prefixed, store_list in H.
  apply page_In, store_list_spec in H. destruct H as [Hf [b [Hb Hoe]]]. split; [assumption|].
  unfold store_find. rewrite Hb. subst oe. destruct (decode_entry C (maybe_decompress C b)); reflexivity.
Qed.

(* an insert into the empty store cannot fail *)
Lemma insert_empty_ok : forall p e, wrapper_insert C empty_state p e <> None.
Proof.
  intros p e. unfold wrapper_insert, handle_hard_links.
  destruct (nonempty (e_hard_link_id (prepare e))); [|discriminate].
  unfold store_find. simpl. discriminate.
Qed.

(* the stored value of an entry with at most 50 chunks never carries the gzip
   magic; with more chunks it either is the marshalled entry or its gzip *)
Lemma stored_value_cases : forall e,
  stored_value C e = encode_entry C e \/
  (50 < len (e_chunks e) /\ stored_value C e = gz_gzip (cd_gz C) (encode_entry C e)).
Proof.
  intros e. unfold stored_value, maybe_gzip_data.
  pose proof (no_false_gzip (cl_first_byte LW) (to_pb e)) as Hng. fold (encode_entry C e) in Hng.
  destruct (N.ltb_spec 50 (len (e_chunks e))) as [Hlt|Hge]; [|left; reflexivity].
  rewrite Hng.
  match goal with |- context [if ?c then _ else _] => destruct c end;
    [left; reflexivity | right; split; [assumption | reflexivity]].
Qed.
End StoreProofs.

(* ---------- a concrete codec that satisfies the laws (non-vacuity) ---------- *)
Lemma sym_codec_laws : forall blen glen, codec_laws (sym_codec blen glen).
Proof.
  intros. constructor; simpl; intros; try reflexivity.
  destruct (pb_first_byte m); inversion H; reflexivity.
Qed.

Definition c24_example_stmt : Prop :=
  let mk := fun (id src : string) =>
       {| c_file_id := s2b id; c_offset := 0%Z; c_size := 5; c_mtime := 7%Z; c_etag := "e"%string;
          c_source_file_id := s2b src; c_fid := None; c_source_fid := None; c_cipher_key := [1; 2];
          c_is_compressed := true; c_is_manifest := false |} in
  let e := {| e_attr := set_mime zero_attr "text/plain"%string; e_extended := [("k"%string, [1])];
              e_chunks := [mk "3,1637037D6"%string "4,02aabbccdd"%string; mk "abc"%string ""%string];
              e_hard_link_id := [9; 9; 1]; e_hard_link_counter := 2%Z; e_content := [31; 139; 0];
              e_remote := Some {| rm_last_modified_at := 1%Z; rm_size := 2%Z; rm_etag := "r"%string |} |} in
  let small := {| e_attr := zero_attr; e_extended := []; e_chunks := []; e_hard_link_id := [];
                  e_hard_link_counter := 0%Z; e_content := [7]; e_remote := None |} in
  let C := sym_codec 100 50 in
  match wrapper_insert C empty_state ("/d"%string, "f"%string) e with
  | Some st1 =>
    match wrapper_insert C st1 ("/d"%string, "fa"%string) small with
    | Some st2 =>
      match wrapper_insert C st2 ("/d"%string, "a b"%string) small with
      | Some st3 =>
        match wrapper_insert C st3 ("/d"%string, "f"%string) e with
        | Some st4 =>
            wrapper_find C st4 ("/d"%string, "f"%string) = SOk (read_back e) /\
            map (fun c => c_file_id c) (e_chunks (read_back e)) = [s2b "3,01637037d6"; s2b "abc"] /\
            view (read_back e) <> view e /\
            map fst (wrapper_list C st4 "/d"%string ""%string true 10) = ["a b"; "f"; "fa"]%string /\
            wrapper_list_prefixed C st4 "/d"%string "f"%string false 1 "f"%string = [("fa"%string, Some (wire (prepare small)))] /\
            wrapper_list_prefixed C st4 "/d"%string ""%string true 1 "f"%string = [("f"%string, Some (wire (prepare e)))] /\
            map (fun c => c_file_id c) (e_chunks (wire (prepare e))) = [[]; s2b "abc"]
        | None => False
        end
      | None => False
      end
    | None => False
    end
  | None => False
  end.

Lemma c24_example_ok : c24_example_stmt.
Proof. vm_compute. repeat split; try reflexivity; discriminate. Qed.
