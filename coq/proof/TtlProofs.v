(* Proofs about model/Ttl.v (C09). *)
From Coq Require Import List NArith ZArith Bool String Ascii Lia DecimalString DecimalPos DecimalN.
From Coq Require Import ZifyBool ZifyN.
From SW Require Import model.Ttl.
Import ListNotations.
Local Open Scope N_scope.

Ltac Zify.zify_post_hook ::= Z.to_euclidean_division_equations.

Arguments N.mul : simpl never.
Arguments N.add : simpl never.
Arguments N.pow : simpl never.
Arguments N.modulo : simpl never.
Arguments N.div : simpl never.
Arguments Z.mul : simpl never.
Arguments Z.quot : simpl never.
Arguments Z.rem : simpl never.

(* ====================== the read-side window ====================== *)

Lemma read_window : forall now n, expiring n = true ->
  (read_visible now n = true <-> now < read_deadline n).
Proof.
  intros now n He. unfold expiring in He. unfold read_visible.
  destruct (has_ttl n); simpl in *; [|discriminate].
  destruct (minutes (n_ttl n) =? 0); simpl in *; [discriminate|].
  destruct (has_lm n); simpl in *; [|discriminate].
  apply N.ltb_lt.
Qed.

Lemma read_never_expires : forall now n, expiring n = false -> read_visible now n = true.
Proof.
  intros now n He. unfold expiring in He. unfold read_visible.
  destruct (has_ttl n); simpl in *; auto.
  destruct (minutes (n_ttl n) =? 0); simpl in *; auto.
  destruct (has_lm n); simpl in *; auto; discriminate.
Qed.

Lemma read_visible_spec : forall now n,
  read_visible now n = negb (expiring n) || (now <? read_deadline n).
Proof.
  intros now n. unfold expiring, read_visible.
  destruct (has_ttl n); simpl; auto.
  destruct (minutes (n_ttl n) =? 0); simpl; auto.
Qed.

(* once unreadable, never readable again *)
Lemma read_expiry_monotone : forall now now' n, now <= now' ->
  read_visible now n = false -> read_visible now' n = false.
Proof.
  intros now now' n Hle. rewrite !read_visible_spec.
  destruct (expiring n); simpl; auto. lia.
Qed.

(* ====================== compaction ====================== *)

Lemma NS_pos : 0 < NS. Proof. reflexivity. Qed.

Lemma div_NS_ge : forall now c, c <= now / NS <-> c * NS <= now.
Proof.
  intros now c. unfold NS. split; intro H.
  - pose proof (N.mul_div_le now 1000000000). lia.
  - apply N.div_le_lower_bound; lia.
Qed.

Lemma compaction_keeps_spec : forall now_s vttl n,
  compaction_keeps now_s vttl n = negb (has_ttl n) || (now_s <? compact_deadline_s vttl n).
Proof.
  intros. unfold compaction_keeps. destruct (has_ttl n); simpl; auto.
  destruct (N.leb_spec (compact_deadline_s vttl n) now_s), (N.ltb_spec now_s (compact_deadline_s vttl n)); auto; lia.
Qed.

(* exact characterisation: some instant at which a read still returns the blob and a
   compaction run drops it exists iff [compaction_early] *)
Lemma compaction_early_iff : forall vttl n,
  (exists now, read_visible now n = true /\ compaction_keeps (now / NS) vttl n = false)
  <-> compaction_early vttl n = true.
Proof.
  intros vttl n. unfold compaction_early. split.
  - intros [now [Hr Hc]]. rewrite compaction_keeps_spec in Hc. rewrite read_visible_spec in Hr.
    destruct (has_ttl n); simpl in *; [|discriminate].
    destruct (expiring n); simpl in *; auto.
    apply N.ltb_ge in Hc. apply div_NS_ge in Hc. apply N.ltb_lt in Hr. apply N.ltb_lt. lia.
  - intro H. exists (compact_deadline_s vttl n * NS).
    rewrite compaction_keeps_spec, read_visible_spec.
    destruct (has_ttl n); simpl in *; [|discriminate].
    split.
    + destruct (expiring n); simpl in *; auto.
    + apply N.ltb_ge. apply div_NS_ge. lia.
Qed.

Lemma compaction_not_early : forall vttl n, compaction_early vttl n = false ->
  forall now, read_visible now n = true -> compaction_keeps (now / NS) vttl n = true.
Proof.
  intros vttl n H now Hr.
  destruct (compaction_keeps (now / NS) vttl n) eqn:E; auto.
  assert (compaction_early vttl n = true) by (apply compaction_early_iff; eauto). congruence.
Qed.

(* the two ways to be early: the volume's span is shorter than the needle's (or the
   needle never expires on read), or LastModified lies before AppendAtNs *)
Definition early_by_ttl (vttl : ttl) (n : needle) : bool :=
  has_ttl n && (negb (expiring n) || (volume_span_s vttl <? minutes (n_ttl n) * 60)).
Definition early_by_stamp (n : needle) : bool :=
  has_ttl n && (last_modified n * NS <? append_at_ns n).

Lemma compaction_early_causes : forall vttl n,
  compaction_early vttl n = true -> early_by_ttl vttl n = true \/ early_by_stamp n = true.
Proof.
  intros vttl n. unfold compaction_early, early_by_ttl, early_by_stamp.
  destruct (has_ttl n); simpl; [|discriminate].
  destruct (expiring n); simpl; auto.
  unfold compact_deadline_s, read_deadline, MIN_NS, NS. intro H.
  destruct (N.ltb_spec (volume_span_s vttl) (minutes (n_ttl n) * 60)); auto.
  right. lia.
Qed.

Lemma compaction_safe_sufficient : forall vttl n,
  early_by_ttl vttl n = false -> early_by_stamp n = false -> compaction_early vttl n = false.
Proof.
  intros vttl n H1 H2. destruct (compaction_early vttl n) eqn:E; auto.
  destruct (compaction_early_causes _ _ E); congruence.
Qed.

(* with a TTL at least as long on the volume side, compaction is early by at most the
   distance between LastModified and AppendAtNs: a blob dropped at second [now_s]
   is unreadable from second [now_s + k] on, when AppendAtNs <= (LastModified + k) s *)
Lemma compaction_early_bound : forall vttl n k now_s now,
  expiring n = true ->
  minutes (n_ttl n) * 60 <= volume_span_s vttl ->
  append_at_ns n <= (last_modified n + k) * NS ->
  compaction_keeps now_s vttl n = false ->
  (now_s + k) * NS <= now ->
  read_visible now n = false.
Proof.
  intros vttl n k now_s now He Hs Ha Hc Hn.
  rewrite compaction_keeps_spec in Hc. rewrite read_visible_spec. rewrite He. simpl.
  destruct (has_ttl n); simpl in *; [|discriminate].
  unfold compact_deadline_s, read_deadline, MIN_NS, NS in *. lia.
Qed.

(* ====================== volume expiry ====================== *)

Lemma volume_expired_spec : forall now_s v,
  volume_expired now_s v = volume_can_expire v && (v_last_mod v + (minutes (v_ttl v) + 1) * 60 <=? now_s).
Proof.
  intros now_s v. unfold volume_expired, volume_can_expire.
  destruct (v_limit v =? 0); simpl; auto.
  destruct (v_size v <=? SUPER_BLOCK_SIZE); simpl; auto.
  destruct (minutes (v_ttl v) =? 0); simpl; auto.
  lia.
Qed.

Lemma volume_deleted_spec : forall now_s v,
  volume_deleted now_s v = volume_can_expire v && (delete_from_s v <=? now_s).
Proof.
  intros now_s v. unfold volume_deleted. rewrite volume_expired_spec.
  destruct (volume_can_expire v) eqn:Hc; simpl; auto.
  unfold expired_long_enough, delete_from_s.
  unfold volume_can_expire in Hc.
  destruct (minutes (v_ttl v) =? 0) eqn:Hm; [rewrite !andb_false_r in Hc; discriminate|].
  destruct (v_io_error v); simpl.
  - rewrite orb_true_r, andb_true_r. reflexivity.
  - rewrite orb_false_r. lia.
Qed.

Lemma expiry_early_iff : forall v n,
  (exists now, read_visible now n = true /\ volume_deleted (now / NS) v = true)
  <-> expiry_early v n = true.
Proof.
  intros v n. unfold expiry_early. split.
  - intros [now [Hr Hd]]. rewrite volume_deleted_spec in Hd. rewrite read_visible_spec in Hr.
    destruct (volume_can_expire v); simpl in *; [|discriminate].
    destruct (expiring n); simpl in *; auto.
    apply N.leb_le in Hd. apply div_NS_ge in Hd. apply N.ltb_lt in Hr. apply N.ltb_lt. lia.
  - intro H. exists (delete_from_s v * NS).
    rewrite volume_deleted_spec, read_visible_spec.
    destruct (volume_can_expire v); simpl in *; [|discriminate].
    split.
    + destruct (expiring n); simpl in *; auto.
    + apply N.leb_le. apply div_NS_ge. lia.
Qed.

Lemma expiry_not_early : forall v n, expiry_early v n = false ->
  forall now, read_visible now n = true -> volume_deleted (now / NS) v = false.
Proof.
  intros v n H now Hr.
  destruct (volume_deleted (now / NS) v) eqn:E; auto.
  assert (expiry_early v n = true) by (apply expiry_early_iff; eauto). congruence.
Qed.

(* under the same hypothesis the volume is not even dropped from the heartbeat when it
   has no IO error ... and in general it is not deleted *)
Lemma delete_from_ge : forall v, v_last_mod v + (minutes (v_ttl v) + 1) * 60 <= delete_from_s v.
Proof. intro v. unfold delete_from_s. destruct (v_io_error v); lia. Qed.

Lemma expiry_safe_sufficient : forall v n,
  expiring n = true ->
  minutes (n_ttl n) <= minutes (v_ttl v) ->
  append_at_ns n <= (v_last_mod v + 60) * NS ->
  expiry_early v n = false.
Proof.
  intros v n He Hm Ha. unfold expiry_early. rewrite He. simpl.
  destruct (volume_can_expire v); simpl; auto.
  pose proof (delete_from_ge v). unfold read_deadline, MIN_NS, NS in *. lia.
Qed.

(* ====================== uploads (histories) ====================== *)

Definition upload_trigger (u : upload) : bool :=
  compaction_early (read_ttl (u_vttl u)) (stored_of u) || expiry_early (volume_of u) (stored_of u).

Definition not_removed_early_at (u : upload) (now : N) : Prop :=
  read_visible now (stored_of u) = true ->
  compaction_keeps (now / NS) (read_ttl (u_vttl u)) (stored_of u) = true /\
  volume_deleted (now / NS) (volume_of u) = false.

Lemma not_removed_early_partial : forall u, upload_trigger u = false ->
  forall now, not_removed_early_at u now.
Proof.
  intros u H now Hr. unfold upload_trigger in H. apply orb_false_iff in H. destruct H as [H1 H2].
  split; [eapply compaction_not_early | eapply expiry_not_early]; eauto.
Qed.

Lemma not_removed_early_exact : forall u,
  (forall now, not_removed_early_at u now) <-> upload_trigger u = false.
Proof.
  intro u. split; [|apply not_removed_early_partial].
  intro H. unfold upload_trigger. apply orb_false_iff. split.
  - destruct (compaction_early _ _) eqn:E; auto.
    apply compaction_early_iff in E. destruct E as [now [Hr Hc]].
    destruct (H now Hr) as [Hk _]. congruence.
  - destruct (expiry_early _ _) eqn:E; auto.
    apply expiry_early_iff in E. destruct E as [now [Hr Hd]].
    destruct (H now Hr) as [_ Hk]. congruence.
Qed.

(* concrete uploads for which the full statement fails; times are 2026-ish *)
Definition T0 : N := 1790000000.

(* a 1d blob in a 1h volume *)
Definition w_longer_ttl : upload :=
  {| u_vttl := "1h"; u_req_ttl := "1d"; u_ts := 0; u_t0_s := T0; u_parse_s := T0; u_append_ns := T0 * NS;
     u_size := 88; u_limit := 2^30; u_io_error := false |}.
(* a 1d blob in a volume without TTL *)
Definition w_no_volume_ttl : upload :=
  {| u_vttl := ""; u_req_ttl := "1d"; u_ts := 0; u_t0_s := T0; u_parse_s := T0; u_append_ns := T0 * NS;
     u_size := 88; u_limit := 2^30; u_io_error := false |}.
(* a blob inheriting 137y: uint32(minutes*60) wraps to 294 days *)
Definition w_span_wrap : upload :=
  {| u_vttl := "137y"; u_req_ttl := ""; u_ts := 0; u_t0_s := T0; u_parse_s := T0; u_append_ns := T0 * NS;
     u_size := 88; u_limit := 2^30; u_io_error := false |}.
(* same TTL, ts= one day before the upload *)
Definition w_old_ts : upload :=
  {| u_vttl := "1h"; u_req_ttl := ""; u_ts := T0 - 86400; u_t0_s := T0; u_parse_s := T0; u_append_ns := T0 * NS;
     u_size := 88; u_limit := 2^30; u_io_error := false |}.
(* same TTL, no ts=, the upload took 10 s between parsing and appending *)
Definition w_slow_upload : upload :=
  {| u_vttl := "1h"; u_req_ttl := ""; u_ts := 0; u_t0_s := T0; u_parse_s := T0; u_append_ns := (T0 + 10) * NS;
     u_size := 88; u_limit := 2^30; u_io_error := false |}.
(* same TTL, old ts=, into a volume loaded 67 minutes earlier: the heartbeat deletes the volume *)
Definition w_stale_stamp : upload :=
  {| u_vttl := "1h"; u_req_ttl := ""; u_ts := T0 - 86400; u_t0_s := T0; u_parse_s := T0 + 4000; u_append_ns := (T0 + 4000) * NS;
     u_size := 88; u_limit := 2^30; u_io_error := false |}.

Lemma not_removed_early_refuted :
  (exists now, upload_ordered w_longer_ttl = true /\ read_visible now (stored_of w_longer_ttl) = true /\
     compaction_keeps (now / NS) (read_ttl (u_vttl w_longer_ttl)) (stored_of w_longer_ttl) = false /\
     volume_deleted (now / NS) (volume_of w_longer_ttl) = true) /\
  (exists now, upload_ordered w_no_volume_ttl = true /\ read_visible now (stored_of w_no_volume_ttl) = true /\
     compaction_keeps (now / NS) (read_ttl (u_vttl w_no_volume_ttl)) (stored_of w_no_volume_ttl) = false) /\
  (exists now, upload_ordered w_span_wrap = true /\ read_visible now (stored_of w_span_wrap) = true /\
     compaction_keeps (now / NS) (read_ttl (u_vttl w_span_wrap)) (stored_of w_span_wrap) = false) /\
  (exists now, upload_ordered w_old_ts = true /\ read_visible now (stored_of w_old_ts) = true /\
     compaction_keeps (now / NS) (read_ttl (u_vttl w_old_ts)) (stored_of w_old_ts) = false) /\
  (exists now, upload_ordered w_slow_upload = true /\ read_visible now (stored_of w_slow_upload) = true /\
     compaction_keeps (now / NS) (read_ttl (u_vttl w_slow_upload)) (stored_of w_slow_upload) = false) /\
  (exists now, upload_ordered w_stale_stamp = true /\ read_visible now (stored_of w_stale_stamp) = true /\
     volume_deleted (now / NS) (volume_of w_stale_stamp) = true).
Proof.
  repeat split.
  - exists ((T0 + 2 * 3600) * NS). vm_compute. repeat split.
  - exists ((T0 + 1) * NS). vm_compute. repeat split.
  - exists ((T0 + 300 * 86400) * NS). vm_compute. repeat split.
  - exists ((T0 + 60) * NS). vm_compute. repeat split.
  - exists ((T0 + 3605) * NS). vm_compute. repeat split.
  - exists ((T0 + 4300) * NS). vm_compute. repeat split.
Qed.

(* a readable sufficient condition for the partial statement: no ts=, the upload
   carries no TTL or the volume's own, the volume's span does not wrap, and the
   request is appended within the second it was parsed at the second boundary *)
Lemma minutes_empty : minutes EMPTY_TTL = 0. Proof. reflexivity. Qed.

Lemma upload_safe_sufficient : forall u,
  u_ts u = 0 ->
  (u_req_ttl u = EmptyString \/ u_req_ttl u = u_vttl u) ->
  (u_vttl u = EmptyString \/ 0 < minutes (read_ttl (u_vttl u))) ->
  minutes (read_ttl (u_vttl u)) * 60 < 2^32 ->
  u_parse_s u < 2^40 ->
  u_append_ns u = u_parse_s u * NS ->
  upload_trigger u = false.
Proof.
  intros u Hts Hreq Hpos Hwrap Hp Ha. unfold upload_trigger.
  set (vt := read_ttl (u_vttl u)) in *.
  assert (Hst : stored_of u =
     {| has_ttl := negb (String.eqb (u_vttl u) EmptyString); has_lm := true; n_ttl := vt;
        last_modified := u_parse_s u; append_at_ns := u_parse_s u * NS |}).
  { unfold stored_of, write_needle, create_needle. simpl. rewrite Hts, Ha. simpl.
    rewrite (N.mod_small (u_parse_s u)) by assumption.
    destruct Hreq as [Hr|Hr]; rewrite Hr; simpl.
    - destruct (String.eqb (u_vttl u) EmptyString) eqn:E; simpl; auto.
      apply String.eqb_eq in E. subst vt. rewrite E. reflexivity.
    - destruct (String.eqb (u_vttl u) EmptyString) eqn:E; simpl; auto.
      apply String.eqb_eq in E. subst vt. rewrite E. reflexivity. }
  assert (Hvol : v_last_mod (volume_of u) = N.max (u_t0_s u) (u_parse_s u) /\ v_ttl (volume_of u) = vt).
  { unfold volume_of, vol_stamp_after_write, create_needle. simpl. rewrite Hts. simpl. split; auto.
    destruct (N.ltb_spec (u_t0_s u) (u_parse_s u)); lia. }
  destruct Hvol as [Hlm Hvt].
  rewrite Hst. apply orb_false_iff. split.
  - apply compaction_safe_sufficient.
    + unfold early_by_ttl, expiring. simpl.
      destruct (negb (String.eqb (u_vttl u) EmptyString)) eqn:E; simpl; auto.
      destruct (minutes vt =? 0) eqn:Em; simpl.
      * (* a volume TTL of zero minutes is excluded by the hypothesis *)
        apply negb_true_iff in E. apply N.eqb_eq in Em.
        destruct Hpos as [Hv|Hv]; [rewrite Hv in E; discriminate | fold vt in Hv; lia].
      * unfold volume_span_s. rewrite N.mod_small by assumption. apply N.ltb_irrefl.
    + unfold early_by_stamp. simpl. rewrite N.ltb_irrefl. apply andb_false_r.
  - destruct (expiring {| has_ttl := negb (String.eqb (u_vttl u) EmptyString); has_lm := true; n_ttl := vt;
        last_modified := u_parse_s u; append_at_ns := u_parse_s u * NS |}) eqn:He.
    + apply expiry_safe_sufficient; auto.
      * rewrite Hvt. simpl. lia.
      * rewrite Hlm. simpl. unfold NS. lia.
    + (* the blob never expires on read: then the volume TTL is zero minutes and the volume cannot expire *)
      unfold expiry_early. unfold volume_can_expire. rewrite Hvt.
      unfold expiring in He. simpl in He.
      destruct (minutes vt =? 0) eqn:Em; simpl.
      * rewrite !andb_false_r. reflexivity.
      * simpl in He. rewrite !andb_true_r in He. apply negb_false_iff in He. apply String.eqb_eq in He.
        subst vt. rewrite He in Em. discriminate.
Qed.

(* ====================== SecondsToTTL / ReadTTL ====================== *)

Local Open Scope string_scope.

Lemma split_last_app : forall d c, split_last (d ++ String c EmptyString) = (d, c).
Proof.
  induction d as [|x d IH]; intro c; simpl; auto.
  rewrite IH. destruct (d ++ String c EmptyString) eqn:E; auto.
  destruct d; discriminate.
Qed.

Lemma dec_head : forall n, exists ch r, dec n = String ch r /\ is_digit ch = true /\
  Ascii.eqb ch "-" = false /\ Ascii.eqb ch "+" = false.
Proof.
  intro n. unfold dec.
  assert (Hnn : N.to_uint n <> Decimal.Nil).
  { destruct n; simpl; [discriminate|apply DecimalPos.Unsigned.to_uint_nonnil]. }
  destruct (N.to_uint n); try congruence; simpl; eexists; eexists; repeat split.
Qed.

Lemma digits_value_dec : forall n, digits_value (dec n) = Some n.
Proof.
  intro n. destruct (dec_head n) as [ch [r [E _]]].
  unfold digits_value. rewrite E. rewrite <- E. unfold dec.
  rewrite NilEmpty.usu. rewrite DecimalN.Unsigned.of_to. reflexivity.
Qed.

Lemma atoi_dec : forall n, atoi (dec n) = Z.of_N n.
Proof.
  intro n. pose proof (digits_value_dec n) as Hd.
  destruct (dec_head n) as [ch [r [E [_ [Hm Hp]]]]].
  unfold atoi. rewrite E in *. rewrite Hm, Hp, Hd. reflexivity.
Qed.

(* ReadTTL of what SecondsToTTL prints, for a non-negative count *)
Lemma read_fmt : forall q c, (0 <= q)%Z -> is_digit c = false ->
  read_ttl (fmt_ttl q c) = {| t_count := byte_of_z q; t_unit := to_stored_byte c |}.
Proof.
  intros q c Hq Hc. unfold fmt_ttl, dec_z.
  destruct (Z.ltb_spec q 0); [lia|].
  unfold read_ttl.
  destruct (dec_head (Z.to_N q)) as [ch [r [E _]]].
  rewrite split_last_app. rewrite E at 1. simpl. rewrite Hc.
  rewrite atoi_dec. rewrite Z2N.id by assumption. reflexivity.
Qed.

Local Close Scope string_scope.

Definition unit_minutes (u : N) : N :=
  match u with 1 => 1 | 2 => 60 | 3 => 1440 | 4 => 10080 | 5 => 43200 | 6 => 525600 | _ => 0 end.

Lemma minutes_unit : forall c u, minutes {| t_count := c; t_unit := u |} = c * unit_minutes u.
Proof.
  intros c u. unfold minutes, unit_minutes. simpl.
  destruct u as [|p]; [lia|].
  destruct p as [[p|p|]|[p|p|]|]; try lia; destruct p; lia.
Qed.

Lemma byte_of_z_small : forall q, (0 <= q < 256)%Z -> byte_of_z q = Z.to_N q.
Proof. intros q H. unfold byte_of_z. rewrite Z.mod_small by assumption. reflexivity. Qed.

Definition char_minutes (c : ascii) : Z := Z.of_N (unit_minutes (to_stored_byte c)).

Lemma covers_leaf : forall s q c, (0 <= q < 256)%Z -> is_digit c = false ->
  ttl_covers (read_ttl (fmt_ttl q c)) s =
  ((q * char_minutes c =? 0) || (s <=? 60 * (q * char_minutes c)))%Z.
Proof.
  intros s q c Hq Hc. rewrite read_fmt by (auto; lia). rewrite byte_of_z_small by assumption.
  unfold ttl_covers. rewrite minutes_unit. unfold char_minutes.
  set (m := unit_minutes (to_stored_byte c)). lia.
Qed.

Lemma cm_y : char_minutes "y" = 525600%Z. Proof. reflexivity. Qed.
Lemma cm_M : char_minutes "M" = 43200%Z. Proof. reflexivity. Qed.
Lemma cm_w : char_minutes "w" = 10080%Z. Proof. reflexivity. Qed.
Lemma cm_d : char_minutes "d" = 1440%Z. Proof. reflexivity. Qed.
Lemma cm_h : char_minutes "h" = 60%Z. Proof. reflexivity. Qed.
Lemma cm_m : char_minutes "m" = 1%Z. Proof. reflexivity. Qed.

Lemma covers_empty : forall s, ttl_covers (read_ttl EmptyString) s = true.
Proof. reflexivity. Qed.

Ltac split_if :=
  match goal with |- context [if ?b then _ else _] => destruct b eqn:? end.

(* for which positive TtlSec the chosen volume TTL covers the entry's lifetime *)
Lemma filer_covers_iff : forall s, (0 < s < 2^31)%Z ->
  ttl_covers (filer_volume_ttl s) s = (s <? 60)%Z || representable s.
Proof.
  intros s Hs. unfold filer_volume_ttl, seconds_to_ttl, representable.
  cbn [existsb]. cbv zeta.
  unfold SEC_YEAR, SEC_MONTH, SEC_WEEK, SEC_DAY, SEC_HOUR, SEC_MINUTE.
  rewrite !Z.quot_div_nonneg, !Z.rem_mod_nonneg by lia.
  repeat split_if;
    try rewrite covers_empty;
    try (rewrite covers_leaf by (try reflexivity; lia));
    rewrite ?cm_y, ?cm_M, ?cm_w, ?cm_d, ?cm_h, ?cm_m; lia.
Qed.

Lemma filer_covers_refuted :
  exists s, (0 < s < 2^31)%Z /\ ttl_covers (filer_volume_ttl s) s = false /\
            (60 * Z.of_N (minutes (filer_volume_ttl s)) < s)%Z.
Proof. exists 90%Z. vm_compute. repeat split; discriminate. Qed.

Lemma filer_covers_refuted_hours :
  filer_volume_ttl 15360 = {| t_count := 4; t_unit := 2 |} /\ ttl_covers (filer_volume_ttl 15360) 15360 = false.
Proof. vm_compute. split; reflexivity. Qed.

Lemma filer_covers_partial : forall s, (0 < s < 2^31)%Z ->
  (s <? 60)%Z || representable s = true -> ttl_covers (filer_volume_ttl s) s = true.
Proof. intros s Hs H. rewrite filer_covers_iff by assumption. exact H. Qed.

Lemma minutes_leaf : forall q c, (0 <= q < 256)%Z -> is_digit c = false ->
  Z.of_N (minutes (read_ttl (fmt_ttl q c))) = (q * char_minutes c)%Z.
Proof.
  intros q c Hq Hc. rewrite read_fmt by (auto; lia). rewrite byte_of_z_small by assumption.
  rewrite minutes_unit. unfold char_minutes. lia.
Qed.

(* SecondsToTTL never rounds up, and is exact precisely on the representable values *)
Lemma filer_ttl_rounds_down : forall s, (0 < s < 2^31)%Z ->
  (60 * Z.of_N (minutes (filer_volume_ttl s)) <= s)%Z /\
  (60 * Z.of_N (minutes (filer_volume_ttl s)) = s <-> representable s = true)%Z.
Proof.
  intros s Hs. unfold filer_volume_ttl, seconds_to_ttl, representable.
  cbn [existsb]. cbv zeta.
  unfold SEC_YEAR, SEC_MONTH, SEC_WEEK, SEC_DAY, SEC_HOUR, SEC_MINUTE.
  rewrite !Z.quot_div_nonneg, !Z.rem_mod_nonneg by lia.
  repeat split_if;
    try (change (minutes (read_ttl EmptyString)) with 0);
    try (rewrite minutes_leaf by (try reflexivity; lia));
    rewrite ?cm_y, ?cm_M, ?cm_w, ?cm_d, ?cm_h, ?cm_m; lia.
Qed.

(* every byte count of every unit is representable *)
Lemma representable_multiple : forall U c,
  In U [SEC_YEAR; SEC_MONTH; SEC_WEEK; SEC_DAY; SEC_HOUR; SEC_MINUTE] ->
  (1 <= c <= 255)%Z -> representable (c * U) = true.
Proof.
  intros U c HU Hc. unfold representable. apply existsb_exists. exists U. split; auto.
  assert (0 < U)%Z by (simpl in HU; unfold SEC_YEAR, SEC_MONTH, SEC_WEEK, SEC_DAY, SEC_HOUR, SEC_MINUTE in HU; lia).
  rewrite Z.quot_div_nonneg, Z.rem_mod_nonneg by nia.
  rewrite Z.mod_mul, Z.div_mul by lia. lia.
Qed.

Lemma filer_ttl_exact_on_multiples : forall U c,
  In U [SEC_YEAR; SEC_MONTH; SEC_WEEK; SEC_DAY; SEC_HOUR; SEC_MINUTE] ->
  (1 <= c <= 255)%Z -> (c * U < 2^31)%Z ->
  (60 * Z.of_N (minutes (filer_volume_ttl (c * U))) = c * U)%Z /\
  ttl_covers (filer_volume_ttl (c * U)) (c * U) = true.
Proof.
  intros U c HU Hc Hlt.
  assert (0 < U)%Z by (simpl in HU; unfold SEC_YEAR, SEC_MONTH, SEC_WEEK, SEC_DAY, SEC_HOUR, SEC_MINUTE in HU; lia).
  assert (Hs : (0 < c * U < 2^31)%Z) by nia.
  pose proof (representable_multiple U c HU Hc) as Hr.
  split.
  - apply (filer_ttl_rounds_down _ Hs). exact Hr.
  - apply filer_covers_partial; auto. rewrite Hr. apply orb_true_r.
Qed.

(* ====================== filer entry vs. its chunks ====================== *)

(* a chunk of an entry with TtlSec = s: uploaded without ttl= into a volume created
   with SecondsToTTL(s); it inherits that TTL *)
Definition chunk_of (s : Z) (parse_s append_ns : N) : needle :=
  write_needle (seconds_to_ttl s) (create_needle EmptyString 0 parse_s) append_ns.

Lemma chunk_of_ttl : forall s p a,
  n_ttl (chunk_of s p a) = filer_volume_ttl s /\ has_lm (chunk_of s p a) = true /\
  append_at_ns (chunk_of s p a) = a.
Proof.
  intros s p a. unfold chunk_of, write_needle, create_needle, filer_volume_ttl. simpl.
  destruct (String.eqb (seconds_to_ttl s) EmptyString) eqn:E; simpl; auto.
  apply String.eqb_eq in E. rewrite E. auto.
Qed.

(* while the entry is visible its chunk is readable, when the TTL covers and the chunk
   was appended after the second the entry's Crtime was truncated to *)
Lemma visible_entry_chunk_readable : forall s crtime p a now,
  (0 < s < 2^31)%Z ->
  ttl_covers (filer_volume_ttl s) s = true ->
  crtime * NS < a ->
  entry_visible now crtime s = true ->
  read_visible now (chunk_of s p a) = true.
Proof.
  intros s crtime p a now Hs Hc Ha Hv.
  rewrite read_visible_spec.
  destruct (expiring (chunk_of s p a)) eqn:He; simpl; auto.
  destruct (chunk_of_ttl s p a) as [Ht [_ Hap]].
  unfold read_deadline. rewrite Ht, Hap.
  unfold expiring in He. rewrite Ht in He.
  unfold ttl_covers in Hc. unfold entry_visible in Hv. unfold MIN_NS, NS in *.
  destruct (minutes (filer_volume_ttl s) =? 0) eqn:Em.
  - rewrite andb_false_r in He. discriminate.
  - lia.
Qed.

(* every record written through the HTTP upload path carries the last-modified flag
   and its real append time: a blob uploaded with (or inheriting) a TTL of m > 0
   minutes is readable exactly during the m minutes after it was appended *)
Lemma read_window_upload : forall u now,
  has_ttl (stored_of u) = true -> 0 < minutes (n_ttl (stored_of u)) ->
  (read_visible now (stored_of u) = true <->
   now < u_append_ns u + minutes (n_ttl (stored_of u)) * 60000000000).
Proof.
  intros u now Ht Hm.
  assert (He : expiring (stored_of u) = true).
  { assert (Hlm : has_lm (stored_of u) = true) by reflexivity.
    unfold expiring. rewrite Ht, Hlm.
    destruct (N.eqb_spec (minutes (n_ttl (stored_of u))) 0) as [E|E]; [lia|]. reflexivity. }
  apply (read_window now _ He).
Qed.

(* ... and when the TTL does not cover (finding 0) the entry outlives its data *)
Lemma visible_entry_chunk_expired :
  exists s crtime p a now, (0 < s < 2^31)%Z /\ crtime * NS < a /\ crtime <= p /\ p * NS <= a /\
    entry_visible now crtime s = true /\ read_visible now (chunk_of s p a) = false.
Proof.
  exists 90%Z, T0, T0, (T0 * NS + 1), ((T0 + 75) * NS). vm_compute. repeat split; discriminate.
Qed.
