(* C01, second round: refinement PER KEY for all entry points of model/Volume.v
   (storage API, HTTP handlers incl. HEAD / no Accept-Encoding / file name in the URL, gRPC
   BatchDelete).  A key that no finding has touched answers exactly as the specification says, in
   EVERY history, whatever happened to the other keys. *)
From Coq Require Import List NArith ZArith Bool Lia.
From SW Require Import model.Volume proof.VolumeProofs.
Import ListNotations.
Local Open Scope N_scope.

(* ---------- small facts ---------- *)
Lemma memN_true : forall k l, memN k l = true <-> In k l.
Proof.
  induction l as [|x l IH]; simpl; [split; [discriminate | tauto]|].
  rewrite orb_true_iff, N.eqb_eq, IH. tauto.
Qed.

Lemma memN_single : forall k id, memN k [id] = false <-> id <> k.
Proof. intros. simpl. rewrite orb_false_r. apply N.eqb_neq. Qed.

Lemma pairs_eqb_refl : forall l, pairs_eqb l l = true.
Proof.
  induction l as [|[a b] l IH]; [reflexivity|]. simpl. unfold pair_eqb. simpl.
  rewrite !N.eqb_refl. exact IH.
Qed.

Lemma err_eqb_refl : forall e, err_eqb e e = true.
Proof. destruct e; reflexivity. Qed.

Lemma dirt_get_app_map : forall f ks D id,
  dirt_get (map (fun k => (k, f)) ks ++ D) id = if memN id ks then Some f else dirt_get D id.
Proof.
  induction ks as [|k ks IH]; intros D id; [reflexivity|].
  simpl. destruct (k =? id); [reflexivity | apply IH].
Qed.

Lemma dirt_of_keys_none : forall D ks,
  dirt_of_keys D ks = None <-> (forall id, memN id ks = true -> dirt_get D id = None).
Proof.
  induction ks as [|k ks IH]; simpl.
  - split; [intros _ id H; discriminate | reflexivity].
  - destruct (dirt_get D k) as [f|] eqn:E.
    + split; [discriminate|]. intro H. specialize (H k). rewrite N.eqb_refl in H. rewrite E in H.
      apply H. reflexivity.
    + rewrite IH. split.
      * intros H id Hm. apply orb_true_iff in Hm. destruct Hm as [Hm|Hm]; [apply N.eqb_eq in Hm; subst; exact E | auto].
      * intros H id Hm. apply H. rewrite Hm. apply orb_true_r.
Qed.

(* ---------- invariants ---------- *)
(* the record list: offsets below the end of the file, Size header as computed from the needle *)
Definition bounded (st : vol) : Prop :=
  0 < dat_end st /\
  forall off r, find_rec (recs st) off = Some r -> off < dat_end st /\ r_size r = needle_size (r_n r).

Definition flags_eq (st : vol) (sp : spec) : Prop :=
  no_write_or_delete st = s_nwod sp /\ no_write_can_delete st = s_nwcd sp.

(* one key of the volume against its specification entry *)
Definition K (st : vol) (sp : spec) (seen : list needle) (id : N) : Prop :=
  R_entry st seen id (s_get (s_map sp) id).

(* every key no finding has touched *)
Definition RD (D : dirt) (st : vol) (sp : spec) (seen : list needle) : Prop :=
  flags_eq st sp /\ bounded st /\ forall id, dirt_get D id = None -> K st sp seen id.

Lemma RD_init : RD [] init spec_init [].
Proof.
  split; [split; reflexivity|]. split.
  - split; [reflexivity|]. intros off r H. discriminate.
  - intros id _. reflexivity.
Qed.

(* what an operation on the keys [ks] leaves alone *)
Definition vframe (ks : list N) (st st' : vol) : Prop :=
  no_write_or_delete st' = no_write_or_delete st /\ no_write_can_delete st' = no_write_can_delete st /\
  (forall off r, find_rec (recs st) off = Some r -> find_rec (recs st') off = Some r) /\
  (forall id, memN id ks = false -> nm_get (nm st') id = nm_get (nm st) id).

Definition sframe (ks : list N) (sp sp' : spec) : Prop :=
  s_nwod sp' = s_nwod sp /\ s_nwcd sp' = s_nwcd sp /\
  forall id, memN id ks = false -> s_get (s_map sp') id = s_get (s_map sp) id.

Lemma vframe_refl : forall ks st, vframe ks st st.
Proof. intros. repeat split; auto. Qed.

Lemma sframe_refl : forall ks sp, sframe ks sp sp.
Proof. intros. repeat split; auto. Qed.

Lemma vframe_trans : forall ks a b c, vframe ks a b -> vframe ks b c -> vframe ks a c.
Proof.
  intros ks a b c (A1 & A2 & A3 & A4) (B1 & B2 & B3 & B4). repeat split; try congruence; auto.
  intros id H. rewrite B4, A4; auto.
Qed.

Lemma sframe_trans : forall ks a b c, sframe ks a b -> sframe ks b c -> sframe ks a c.
Proof.
  intros ks a b c (A1 & A2 & A3) (B1 & B2 & B3). repeat split; try congruence.
  intros id H. rewrite B3, A3; auto.
Qed.

Lemma vframe_weaken : forall ks ks' a b,
  (forall id, memN id ks' = false -> memN id ks = false) -> vframe ks a b -> vframe ks' a b.
Proof. intros ks ks' a b H (A1 & A2 & A3 & A4). repeat split; auto. Qed.

Lemma sframe_weaken : forall ks ks' a b,
  (forall id, memN id ks' = false -> memN id ks = false) -> sframe ks a b -> sframe ks' a b.
Proof. intros ks ks' a b H (A1 & A2 & A3). repeat split; auto. Qed.

Lemma K_frame : forall ks st st' sp sp' seen seen' id,
  K st sp seen id -> vframe ks st st' -> sframe ks sp sp' -> memN id ks = false -> incl seen seen' ->
  K st' sp' seen' id.
Proof.
  intros ks st st' sp sp' seen seen' id HK (_ & _ & V3 & V4) (_ & _ & S3) Hm Hi.
  unfold K in *. rewrite (S3 id Hm). eapply R_entry_frame; eauto.
Qed.

(* ---------- appending ---------- *)
Lemma append_shape : forall st n t,
  fst (fst (append st n t)) =
  {| recs := {| r_off := dat_end st; r_size := needle_size n; r_at := t; r_n := n |} :: recs st;
     nm := nm st; dat_end := dat_end st + actual_size (needle_size n);
     no_write_or_delete := no_write_or_delete st; no_write_can_delete := no_write_can_delete st |}.
Proof. reflexivity. Qed.

Lemma append_bounded : forall st n t, bounded st -> bounded (fst (fst (append st n t))).
Proof.
  intros st n t [B1 B2]. rewrite append_shape. pose proof (actual_size_pos (needle_size n)) as Hp.
  split; cbn [dat_end recs]; [lia|].
  intros off r H. cbn [find_rec r_off] in H. destruct (dat_end st =? off) eqn:E.
  - apply N.eqb_eq in E. inversion H; subst. cbn [r_size r_n]. split; [lia | reflexivity].
  - destruct (B2 _ _ H) as [Hb Hs]. split; [lia | exact Hs].
Qed.

Lemma append_vframe : forall ks st n t, bounded st -> vframe ks st (fst (fst (append st n t))).
Proof.
  intros ks st n t [B1 B2]. rewrite append_shape. repeat split; auto.
  intros off r H. cbn [recs find_rec r_off]. destruct (B2 _ _ H) as [Hb _].
  destruct (dat_end st =? off) eqn:E; [apply N.eqb_eq in E; lia | exact H].
Qed.

Lemma with_nm_bounded : forall st m, bounded st -> bounded (with_nm st m).
Proof. intros st m H. exact H. Qed.

Lemma with_nm_set_vframe : forall st k v, vframe [k] st (with_nm st (nm_set (nm st) k v)).
Proof.
  intros st k v. repeat split; auto. intros id H. apply memN_single in H.
  cbn [with_nm nm]. unfold nm_set. apply nm_get_other. exact H.
Qed.

Lemma with_nm_delete_vframe : forall st k, vframe [k] st (with_nm st (nm_delete (nm st) k)).
Proof.
  intros st k. repeat split; auto. intros id H. apply memN_single in H.
  cbn [with_nm nm]. unfold nm_delete. destruct (nm_get (nm st) k) as [v|]; [|reflexivity].
  destruct (size_valid (nv_size v)); [apply nm_get_other; exact H | reflexivity].
Qed.

(* ---------- what a write / delete can do to the volume, whatever the key has been through ---------- *)
Lemma do_write_cases : forall st n t,
  let st1 := fst (fst (append st n t)) in
  fst (do_write st n t) = st \/ fst (do_write st n t) = st1 \/
  fst (do_write st n t) = with_nm st1 (nm_set (nm st1) (n_id n) {| nv_off := dat_end st; nv_size := Z.of_N (needle_size n) |}).
Proof.
  intros st n t st1. unfold do_write. destruct (is_file_unchanged st n); [left; reflexivity|].
  destruct (nm_get (nm st) (n_id n)) as [nv|].
  - destruct (find_rec (recs st) (nv_off nv)) as [r|]; [|left; reflexivity].
    destruct (n_cookie (r_n r) =? n_cookie n); [|left; reflexivity].
    unfold append. cbn [fst snd]. destruct (nv_off nv <? dat_end st); right; [right|left]; reflexivity.
  - unfold append. cbn [fst snd]. right. right. reflexivity.
Qed.

Lemma store_write_frame : forall st n t,
  bounded st ->
  bounded (fst (store_write st n t)) /\ vframe [n_id n] st (fst (store_write st n t)).
Proof.
  intros st n t HB. unfold store_write. destruct (is_read_only st); [split; [exact HB | apply vframe_refl]|].
  destruct (do_write_cases st n t) as [E|[E|E]]; rewrite E.
  - split; [exact HB | apply vframe_refl].
  - split; [apply append_bounded; exact HB | apply append_vframe; exact HB].
  - split; [apply with_nm_bounded, append_bounded; exact HB|].
    eapply vframe_trans; [apply append_vframe; exact HB | apply with_nm_set_vframe].
Qed.

Lemma store_delete_cases : forall st id c t,
  let st1 := fst (fst (append st (tombstone id c) t)) in
  fst (fst (store_delete st id c t)) = st \/
  fst (fst (store_delete st id c t)) = with_nm st1 (nm_delete (nm st1) id).
Proof.
  intros st id c t st1. unfold store_delete. destruct (no_write_or_delete st); [left; reflexivity|].
  destruct (nm_get (nm st) id) as [nv|]; [|left; reflexivity].
  destruct (size_valid (nv_size nv)); [|left; reflexivity].
  unfold append. cbn [fst snd]. right. reflexivity.
Qed.

Lemma store_delete_frame : forall st id c t,
  bounded st ->
  bounded (fst (fst (store_delete st id c t))) /\ vframe [id] st (fst (fst (store_delete st id c t))).
Proof.
  intros st id c t HB. destruct (store_delete_cases st id c t) as [E|E]; rewrite E.
  - split; [exact HB | apply vframe_refl].
  - split; [apply with_nm_bounded, append_bounded; exact HB|].
    eapply vframe_trans; [apply append_vframe; exact HB | apply with_nm_delete_vframe].
Qed.

Lemma http_delete_cases : forall st id c t,
  fst (fst (http_delete st id c t)) = st \/
  exists c', fst (fst (http_delete st id c t)) = fst (fst (store_delete st id c' t)).
Proof.
  intros st id c t. unfold http_delete. destruct (store_read st id c false t) as [[e cnt] v].
  destruct (negb (err_eqb e ENone)); [left; reflexivity|].
  destruct (negb (v_cookie v =? c)); [left; reflexivity|].
  right. exists (v_cookie v). destruct (store_delete st id (v_cookie v) t) as [[st' e'] z].
  destruct e'; reflexivity.
Qed.

Lemma http_delete_frame : forall st id c t,
  bounded st ->
  bounded (fst (fst (http_delete st id c t))) /\ vframe [id] st (fst (fst (http_delete st id c t))).
Proof.
  intros st id c t HB. destruct (http_delete_cases st id c t) as [E|[c' E]]; rewrite E.
  - split; [exact HB | apply vframe_refl].
  - apply store_delete_frame. exact HB.
Qed.

(* ... and to the specification *)
Lemma spec_write_frame : forall sp n t, sframe [n_id n] sp (fst (spec_write sp n t)).
Proof.
  intros sp n t. unfold spec_write. destruct (negb (s_nwod sp || s_nwcd sp) && _); [|apply sframe_refl].
  repeat split. intros id H. apply memN_single in H. cbn [fst with_map s_map]. apply s_get_other. exact H.
Qed.

Lemma spec_kill_frame : forall sp id, sframe [id] sp (spec_kill sp id).
Proof.
  intros sp id. unfold spec_kill. destruct (s_get (s_map sp) id) as [e|]; [|apply sframe_refl].
  repeat split. intros id' H. apply memN_single in H. cbn [with_map s_map]. apply s_get_other. exact H.
Qed.
