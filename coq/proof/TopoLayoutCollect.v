(* C11: what a collector sweep (CollectDeadNodeAndFullVolumes feeding
   SetVolumeCapacityFull) enforces about the sizes the servers last REPORTED
   (model/TopoMulti.v: srstep / rsize), single-layout model.
     collect_enforces_reported_refuted    the full statement fails (finding 3: a short
                                          "new" message resets the registered size)
     collect_enforces_reported_partial    it holds for every vid outside the per-(node,vid)
                                          trigger trigger_clobber_size_v
     collect_boundary                     sizes limit-1 / limit / limit+1 in the model *)
From Coq Require Import List NArith Bool Lia.
From SW Require Import model.TopoLayout model.TopoMulti proof.TopoLayoutProofs.
Import ListNotations.
Local Open Scope N_scope.

(* ---------- the reported map after one message ---------- *)
Lemma rep_full_notin : forall (vs : list vinfo) (m : list (N * N)) v, ~ In v (map vi_id vs) ->
  aget v (fold_left (fun m a => aset (vi_id a) (vi_size a) m) vs m) = aget v m.
Proof.
  induction vs as [|x vs IH]; intros m v Hv; simpl in *; [reflexivity|].
  rewrite IH by tauto. apply aget_aset_neq. tauto.
Qed.

Lemma rep_full_in : forall (vs : list vinfo) (m : list (N * N)) a, NoDup (map vi_id vs) -> In a vs ->
  aget (vi_id a) (fold_left (fun m a => aset (vi_id a) (vi_size a) m) vs m) = Some (vi_size a).
Proof.
  induction vs as [|x vs IH]; intros m a Hnd Ha; simpl in *; [contradiction|].
  inversion Hnd as [|? ? Hx Hrest]; subst. destruct Ha as [->|Ha]; [|now apply IH].
  rewrite rep_full_notin by assumption. apply aget_aset_eq.
Qed.

Lemma rep_dels : forall (ds : list N) (m : list (N * N)) v,
  aget v (fold_left (fun m d => adel d m) ds m) = if mem v ds then None else aget v m.
Proof.
  induction ds as [|d ds IH]; intros m v; simpl; [reflexivity|].
  rewrite IH. unfold mem; simpl. fold (mem v ds). destruct (v =? d) eqn:E; simpl.
  - apply N.eqb_eq in E; subst. destruct (mem d ds); [reflexivity|apply aget_adel_eq].
  - destruct (mem v ds); [reflexivity|]. apply aget_adel_neq. intros H; subst. now rewrite N.eqb_refl in E.
Qed.

Definition rep_new (m : list (N * N)) (a : N) : list (N * N) :=
  match aget a m with Some _ => m | None => aset a 0 m end.

Lemma rep_new_other : forall m a v, a <> v -> aget v (rep_new m a) = aget v m.
Proof. intros m a v H; unfold rep_new. destruct (aget a m); [reflexivity|now apply aget_aset_neq]. Qed.

Lemma rep_new_same : forall m a, aget a (rep_new m a) = match aget a m with Some x => Some x | None => Some 0 end.
Proof. intros m a; unfold rep_new. destruct (aget a m) eqn:E; [exact E|apply aget_aset_eq]. Qed.

Lemma rep_news : forall (ns : list N) (m : list (N * N)) v,
  aget v (fold_left rep_new ns m) =
  if mem v ns then match aget v m with Some x => Some x | None => Some 0 end else aget v m.
Proof.
  induction ns as [|a ns IH]; intros m v; simpl; [reflexivity|].
  rewrite IH. unfold mem; simpl. fold (mem v ns). destruct (v =? a) eqn:E; simpl.
  - apply N.eqb_eq in E; subst. rewrite rep_new_same.
    destruct (mem a ns); destruct (aget a m); reflexivity.
  - assert (a <> v) by (intros H; subst; now rewrite N.eqb_refl in E).
    now rewrite rep_new_other.
Qed.

Lemma rsize_aset_eq : forall r n m v, rsize (aset n m r) n v = aget v m.
Proof. intros; unfold rsize, srep_of. now rewrite aget_aset_eq. Qed.
Lemma rsize_aset_neq : forall r n n' m v, n <> n' -> rsize (aset n m r) n' v = rsize r n' v.
Proof. intros; unfold rsize, srep_of. now rewrite aget_aset_neq. Qed.
Lemma rsize_adel_eq : forall r n v, rsize (adel n r) n v = None.
Proof. intros; unfold rsize, srep_of. now rewrite aget_adel_eq. Qed.
Lemma rsize_adel_neq : forall r n n' v, n <> n' -> rsize (adel n r) n' v = rsize r n' v.
Proof. intros; unfold rsize, srep_of. now rewrite aget_adel_neq. Qed.

Lemma In_filter_neq : forall (cl : list N) n m, In m (filter (fun x => negb (x =? n)) cl) <-> In m cl /\ m <> n.
Proof.
  intros; rewrite filter_In. split; intros [A B]; split; auto.
  - intros ->. now rewrite N.eqb_refl in B.
  - apply negb_true_iff, N.eqb_neq. exact B.
Qed.

(* ---------- registered state vs reported state, for one vid ---------- *)
Definition RelV (c : cfg) (v : N) (s : state) (r : srep) (cl : list N) : Prop :=
  forall n,
    (ginfo (s_nodes s) n v = None <-> rsize r n v = None) /\
    (~ In n cl -> forall i sz, ginfo (s_nodes s) n v = Some i -> rsize r n v = Some sz ->
                  c_limit c <= sz -> vi_size i = sz).

Section Collect.
  Variable c : cfg.
  Hypothesis Hc : 1 <= c_copy c.

  Lemma rel_step : forall s r cl e v, Inv c s -> wf_event e = true ->
    RelV c v s r cl -> RelV c v (step c s e) (srstep r e) (cl_step c v r cl e).
  Proof.
    intros s r cl e v HI Hwf HR. destruct HI as [_ Hns _ _]. unfold RelV in *.
    destruct e as [n actual|n news dels| |n]; simpl in *.
    - (* full heartbeat *)
      unfold sync_full, update_volumes.
      set (vs0 := node_vols (s_nodes s) n). set (dels := deleted_of vs0 actual).
      pose proof (node_vols_ok _ n Hns) as Hvs0. fold vs0 in Hvs0.
      apply nodupb_spec in Hwf.
      destruct (deleted_of_spec vs0 actual Hvs0) as [_ Dspec]. fold dels in Dspec.
      assert (Hdisj : forall a, In a actual -> ~ In (vi_id a) (map vi_id dels)).
      { intros a Ha H. apply Dspec in H. destruct H as [_ H]. apply H. now apply in_map. }
      destruct (after_update vs0 dels actual Hvs0 Hwf Hdisj) as (_ & V1 & V2 & _ & _).
      set (u := fold_left add_or_update actual _) in *. simpl.
      intros m. destruct (N.eq_dec n m) as [<-|Hne].
      + rewrite ginfo_aset_eq, rsize_aset_eq.
        destruct (in_dec N.eq_dec v (map vi_id actual)) as [Hin|Hni].
        * apply in_map_iff in Hin. destruct Hin as (a & E & Ha).
          rewrite <- E, (V1 a Ha), (rep_full_in actual [] a Hwf Ha).
          split; [split; discriminate|]. intros _ i sz Hi Hsz _. inversion Hi; inversion Hsz; subst; reflexivity.
        * rewrite (V2 v Hni), (rep_full_notin actual [] v Hni). simpl.
          assert (Hd : existsb (fun d => vi_id d =? v) dels = true \/ aget v vs0 = None).
          { destruct (aget v vs0) eqn:E; [left|now right]. apply existsb_id_spec. apply Dspec. split; [congruence|assumption]. }
          destruct Hd as [Hd|Hd]; [rewrite Hd|rewrite Hd; destruct (existsb _ dels)];
            (split; [split; reflexivity|intros _ i sz Hi; discriminate]).
      + rewrite ginfo_aset_neq, rsize_aset_neq by assumption.
        destruct (HR m) as [A B]. split; [exact A|]. intros Hcl. apply B. intros H; apply Hcl.
        apply In_filter_neq; split; [assumption|congruence].
    - (* incremental heartbeat *)
      unfold sync_incr, delta_update_volumes.
      set (vs0 := node_vols (s_nodes s) n).
      set (nv := map short_info news). set (dv := map short_info dels).
      pose proof (node_vols_ok _ n Hns) as Hvs0. fold vs0 in Hvs0.
      apply andb_true_iff in Hwf. destruct Hwf as [Hwf H3]. apply andb_true_iff in Hwf. destruct Hwf as [H1 H2].
      apply nodupb_spec in H1. apply nodupb_spec in H2.
      assert (Hnn' : NoDup (map vi_id nv)) by (fold (ids nv); subst nv; now rewrite ids_short).
      assert (Hdisj : forall a, In a nv -> ~ In (vi_id a) (map vi_id dv)).
      { intros a Ha. fold (ids dv). subst dv. rewrite ids_short.
        subst nv. apply in_map_iff in Ha. destruct Ha as (x & <- & Hx). simpl.
        rewrite forallb_forall in H3. specialize (H3 x Hx). apply negb_true_iff in H3. now apply mem_false. }
      destruct (after_update vs0 dv nv Hvs0 Hnn' Hdisj) as (_ & V1 & V2 & _ & _).
      set (u := fold_left add_or_update nv _) in *. simpl.
      assert (Hidsnv : map vi_id nv = news) by (fold (ids nv); subst nv; apply ids_short).
      assert (Hidsdv : map vi_id dv = dels) by (fold (ids dv); subst dv; apply ids_short).
      intros m. destruct (N.eq_dec n m) as [<-|Hne].
      + rewrite ginfo_aset_eq, rsize_aset_eq.
        change (fold_left (fun m a => match aget a m with Some _ => m | None => aset a 0 m end) news)
          with (fold_left rep_new news).
        rewrite rep_news, rep_dels.
        destruct (HR n) as [A B]. rewrite ginfo_node_vols in A, B. fold vs0 in A, B. fold (rsize r n v).
        destruct (mem v news) eqn:Emn.
        * (* v is named as new: registered with size 0 *)
          assert (Hin : In (short_info v) nv) by (subst nv; apply in_map; now apply mem_In).
          pose proof (V1 _ Hin) as Hreg. simpl in Hreg. rewrite Hreg.
          assert (Hnd : mem v dels = false).
          { rewrite forallb_forall in H3. apply mem_In in Emn. specialize (H3 v Emn). now apply negb_true_iff in H3. }
          rewrite Hnd. simpl.
          split; [split; [discriminate|destruct (rsize r n v); discriminate]|].
          intros Hcl i sz Hi Hsz Hlim. inversion Hi; subst i; simpl.
          destruct (rsize r n v) as [sz0|] eqn:Er; [|now inversion Hsz].
          inversion Hsz; subst sz0. exfalso. apply Hcl.
          assert (El : (c_limit c <=? sz) = true) by now apply N.leb_le.
          rewrite El. simpl. now left.
        * simpl. assert (Hni : ~ In v (map vi_id nv)) by (rewrite Hidsnv; now apply mem_false).
          rewrite (V2 v Hni).
          assert (Hex : existsb (fun d => vi_id d =? v) dv = mem v dels).
          { destruct (mem v dels) eqn:Ed.
            - apply existsb_id_spec. rewrite Hidsdv. now apply mem_In.
            - destruct (existsb _ dv) eqn:Ex; [|reflexivity]. apply existsb_id_spec in Ex. rewrite Hidsdv in Ex.
              apply mem_In in Ex. congruence. }
          rewrite Hex. destruct (mem v dels).
          -- split; [split; reflexivity|intros _ i sz Hi; discriminate].
          -- split; [exact A|]. intros Hcl. apply B. exact Hcl.
      + rewrite ginfo_aset_neq, rsize_aset_neq by assumption.
        destruct (HR m) as [A B]. split; [exact A|]. intros Hcl. apply B. intros H; apply Hcl.
        destruct (mem v news && _); [now right|assumption].
    - (* sweep: neither the nodes nor the reports change *)
      exact HR.
    - (* disconnect *)
      intros m. destruct (N.eq_dec n m) as [<-|Hne].
      + rewrite ginfo_adel_eq, rsize_adel_eq. split; [split; reflexivity|intros _ i sz Hi; discriminate].
      + rewrite ginfo_adel_neq, rsize_adel_neq by assumption.
        destruct (HR m) as [A B]. split; [exact A|]. intros Hcl. apply B. intros H; apply Hcl.
        apply In_filter_neq; split; [assumption|congruence].
  Qed.

  Lemma rel_run : forall es s r cl v, Inv c s -> forallb wf_event es = true ->
    RelV c v s r cl -> RelV c v (run c s es) (fold_left srstep es r) (clobbered_size c v r cl es).
  Proof.
    induction es as [|e es IH]; intros s r cl v HI Hwf HR; simpl in *; [assumption|].
    apply andb_true_iff in Hwf. destruct Hwf as [W1 W2].
    apply IH; auto; [now apply step_inv|now apply rel_step].
  Qed.

  Lemma rel_init : forall v, RelV c v init [] [].
  Proof. intros v n; split; [split; reflexivity|intros _ i sz H; discriminate]. Qed.

  (* right after a sweep every REGISTERED replica of a writable vid is below the limit *)
  Lemma after_collect_registered_small : forall es, wf_history es -> forall v,
    writable (run c init (es ++ [ECollect])) v = true ->
    forall n i, ginfo (s_nodes (run c init es)) n v = Some i -> vi_size i < c_limit c.
  Proof.
    intros es Hwf v Hw n i Hi.
    assert (Hs : run c init (es ++ [ECollect]) = collect_full c (run c init es)).
    { unfold run. rewrite fold_left_app. reflexivity. }
    pose proof (reach_inv c Hc es Hwf) as HI0.
    destruct (collect_spec (full_vids c (s_nodes (run c init es))) (s_lay (run c init es)) (inv_LJ _ _ HI0)) as (_ & _ & C).
    rewrite Hs in Hw. unfold writable, collect_full in Hw. simpl in Hw.
    destruct (C v Hw) as [_ Hni].
    destruct (N.lt_ge_cases (vi_size i) (c_limit c)) as [Hlt|Hge]; [exact Hlt|].
    exfalso; apply Hni. eapply full_vids_spec; eauto. apply HI0.
  Qed.

  (* ... and so is every size last REPORTED for it, outside the per-(node, vid) trigger *)
  Lemma collect_enforces_reported_partial : forall es, wf_history es -> forall v,
    trigger_clobber_size_v c es v = false ->
    writable (run c init (es ++ [ECollect])) v = true ->
    forall n sz, rsize (sreported es) n v = Some sz -> sz < c_limit c.
  Proof.
    intros es Hwf v Ht Hw n sz Hsz.
    pose proof (rel_run es init [] [] v (init_inv c) Hwf (rel_init v)) as HR.
    unfold trigger_clobber_size_v in Ht. destruct (clobbered_size c v [] [] es) eqn:Ecl; [|discriminate].
    destruct (HR n) as [A B]. fold (sreported es) in A, B.
    destruct (ginfo (s_nodes (run c init es)) n v) as [i|] eqn:Ei.
    - pose proof (after_collect_registered_small es Hwf v Hw n i Ei) as Hsmall.
      destruct (N.lt_ge_cases sz (c_limit c)) as [Hlt|Hge]; [exact Hlt|].
      rewrite <- (B (fun H => H) i sz eq_refl Hsz Hge). exact Hsmall.
    - destruct A as [A _]. rewrite (A eq_refl) in Hsz. discriminate.
  Qed.
End Collect.

(* the statement at full strength: after a sweep no vid whose last reported size
   (on any server) is at or over the limit is writable *)
Definition collect_enforces_reported (c : cfg) : Prop :=
  forall es, wf_history es -> forall v,
    writable (run c init (es ++ [ECollect])) v = true ->
    forall n sz, rsize (sreported es) n v = Some sz -> sz < c_limit c.

(* it fails: the short "new" message makes the master forget the reported size *)
Definition clobber_size_history : list event :=
  [EFull 1 [vi 1 10 false]; EFull 1 [vi 1 100 false]; EIncr 1 [1] []].

Lemma collect_enforces_reported_refuted : ~ collect_enforces_reported cfg000.
Proof.
  intros H. specialize (H clobber_size_history eq_refl 1). vm_compute in H.
  specialize (H eq_refl 1 100 eq_refl). discriminate.
Qed.

Lemma clobber_size_witness :
  writable (run cfg000 init (clobber_size_history ++ [ECollect])) 1 = true /\
  rsize (sreported clobber_size_history) 1 1 = Some 100 /\
  trigger_clobber_size_v cfg000 clobber_size_history 1 = true /\
  (* the trigger ends with the server's next full heartbeat *)
  trigger_clobber_size_v cfg000 (clobber_size_history ++ [EFull 1 [vi 1 100 false]]) 1 = false.
Proof. vm_compute; repeat split; reflexivity. Qed.

(* the edge of the sweep's test in the model: limit-1 stays, limit and limit+1 go
   (v.Size >= volumeSizeLimit); non-vacuity of the partial theorem's hypotheses *)
Definition boundary_history : list event :=
  [EFull 1 [vi 1 10 false; vi 2 10 false; vi 3 10 false]; EFull 1 [vi 1 99 false; vi 2 100 false; vi 3 101 false]].

Lemma collect_boundary :
  wf_history boundary_history /\
  forallb (fun v => negb (trigger_clobber_size_v cfg000 boundary_history v)) [1; 2; 3] = true /\
  (let s := run cfg000 init boundary_history in
   writable s 1 = true /\ writable s 2 = true /\ writable s 3 = true) /\
  (let s := run cfg000 init (boundary_history ++ [ECollect]) in
   writable s 1 = true /\ writable s 2 = false /\ writable s 3 = false) /\
  map (rsize (sreported boundary_history) 1) [1; 2; 3] = [Some 99; Some 100; Some 101].
Proof. vm_compute; repeat split; reflexivity. Qed.
