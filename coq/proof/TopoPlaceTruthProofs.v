(* Proofs about the ground truth of property C10 (model/TopoPlaceTruth.v): when the counters
   equal the truth, everything the placement rule reads is the same on both. *)
From Coq Require Import String List ZArith NArith Bool Arith Lia.
From SW Require Import model.TopoPlace model.TopoCount model.TopoPlaceTruth proof.TopoPlaceProofs proof.TopoPlaceGrow.
Import ListNotations.
Local Open Scope Z_scope.

Lemma uget_notin : forall u k, ~ In k (map fst u) -> uget u k = zero_counts.
Proof.
  induction u as [|[k' c] u IH]; intros k Hn; cbn [uget]; [reflexivity|].
  destruct (String.eqb k' k) eqn:E.
  - apply String.eqb_eq in E. exfalso. apply Hn. left. exact E.
  - apply IH. intro Hin. apply Hn. right. exact Hin.
Qed.

Lemma counts_eqb4_refl : forall c, counts_eqb4 c c = true.
Proof. intro c. unfold counts_eqb4. rewrite !Z.eqb_refl. reflexivity. Qed.

Lemma usages_eqb4_all : forall a b, usages_eqb4 a b = true ->
  forall k, counts_eqb4 (TopoPlace.uget a k) (TopoPlace.uget b k) = true.
Proof.
  intros a b H k. unfold usages_eqb4 in H. rewrite forallb_forall in H.
  destruct (in_dec string_dec k (map fst a ++ map fst b)) as [Hin|Hn].
  - apply H. exact Hin.
  - rewrite (uget_notin a k), (uget_notin b k).
    + apply counts_eqb4_refl.
    + intro Hb. apply Hn. apply in_or_app. right. exact Hb.
    + intro Ha. apply Hn. apply in_or_app. left. exact Ha.
Qed.

(* AvailableSpaceFor reads exactly the four counters compared by counts_eqb4 *)
Lemma counts_eqb4_free : forall a b, counts_eqb4 a b = true -> free_space a = free_space b.
Proof.
  intros a b H. unfold counts_eqb4 in H.
  apply andb_prop in H. destruct H as [H Hm]. apply andb_prop in H. destruct H as [H He].
  apply andb_prop in H. destruct H as [Hv Hr].
  apply Z.eqb_eq in Hv, Hr, He, Hm. unfold free_space. rewrite Hv, Hr, He, Hm. reflexivity.
Qed.

Lemma usages_eqb4_free : forall a b k, usages_eqb4 a b = true ->
  free_space (TopoPlace.uget a k) = free_space (TopoPlace.uget b k).
Proof. intros a b k H. apply counts_eqb4_free. apply usages_eqb4_all. exact H. Qed.

(* ---- the free-slot test of the placement rule, level by level ---- *)
Lemma nodes_free_same : forall o s ns ns', list_eqb node_eqb4 ns ns' = true ->
  existsb (fun n => String.eqb (n_id n) (s_node s) && (1 <=? avail_node o n)) ns =
  existsb (fun n => String.eqb (n_id n) (s_node s) && (1 <=? avail_node o n)) ns'.
Proof.
  intros o s. induction ns as [|n ns IH]; intros [|n' ns'] H; cbn [list_eqb] in H; try discriminate; [reflexivity|].
  apply andb_prop in H. destruct H as [Hn Hl]. unfold node_eqb4 in Hn.
  apply andb_prop in Hn. destruct Hn as [Hid Hu]. apply String.eqb_eq in Hid.
  cbn [existsb]. rewrite (IH ns' Hl). unfold avail_node. rewrite Hid, (usages_eqb4_free _ _ (go_disk o) Hu).
  reflexivity.
Qed.

Lemma racks_free_same : forall o s rs rs', list_eqb rack_eqb4 rs rs' = true ->
  existsb (fun rk => String.eqb (r_id rk) (s_rack s) &&
     existsb (fun n => String.eqb (n_id n) (s_node s) && (1 <=? avail_node o n)) (r_nodes rk)) rs =
  existsb (fun rk => String.eqb (r_id rk) (s_rack s) &&
     existsb (fun n => String.eqb (n_id n) (s_node s) && (1 <=? avail_node o n)) (r_nodes rk)) rs'.
Proof.
  intros o s. induction rs as [|r rs IH]; intros [|r' rs'] H; cbn [list_eqb] in H; try discriminate; [reflexivity|].
  apply andb_prop in H. destruct H as [Hr Hl]. unfold rack_eqb4 in Hr.
  apply andb_prop in Hr. destruct Hr as [Hr Hns]. apply andb_prop in Hr. destruct Hr as [Hid _].
  apply String.eqb_eq in Hid. cbn [existsb]. rewrite (IH rs' Hl), Hid, (nodes_free_same o s _ _ Hns). reflexivity.
Qed.

Lemma dcs_free_same : forall o s ds ds', list_eqb dc_eqb4 ds ds' = true ->
  existsb (fun dc => String.eqb (d_id dc) (s_dc s) &&
    existsb (fun rk => String.eqb (r_id rk) (s_rack s) &&
      existsb (fun n => String.eqb (n_id n) (s_node s) && (1 <=? avail_node o n)) (r_nodes rk))
      (d_racks dc)) ds =
  existsb (fun dc => String.eqb (d_id dc) (s_dc s) &&
    existsb (fun rk => String.eqb (r_id rk) (s_rack s) &&
      existsb (fun n => String.eqb (n_id n) (s_node s) && (1 <=? avail_node o n)) (r_nodes rk))
      (d_racks dc)) ds'.
Proof.
  intros o s. induction ds as [|d ds IH]; intros [|d' ds'] H; cbn [list_eqb] in H; try discriminate; [reflexivity|].
  apply andb_prop in H. destruct H as [Hd Hl]. unfold dc_eqb4 in Hd.
  apply andb_prop in Hd. destruct Hd as [Hd Hrs]. apply andb_prop in Hd. destruct Hd as [Hid _].
  apply String.eqb_eq in Hid. cbn [existsb]. rewrite (IH ds' Hl), Hid, (racks_free_same o s _ _ Hrs). reflexivity.
Qed.

Lemma has_free_slot_true_thm : forall t T o s, counters_true t T = true ->
  has_free_slot t o s = has_free_slot T o s.
Proof.
  intros t T o s H. unfold counters_true in H. apply andb_prop in H. destruct H as [_ H].
  unfold has_free_slot. apply dcs_free_same. exact H.
Qed.

Lemma forallb_ext_local : forall {A} (f g : A -> bool) l, (forall x, f x = g x) -> forallb f l = forallb g l.
Proof. intros A f g l H. induction l as [|x l IH]; cbn [forallb]; [reflexivity|]. rewrite H, IH. reflexivity. Qed.

(* Main statement: if the counters equal the truth (property C12's invariant), the placement rule
   gives the same verdict on the counters and on the truth -- for every topology pair, option
   and server list. *)
Theorem placement_ok_true_iff_thm : forall t T o ss, counters_true t T = true ->
  placement_ok t o ss = placement_ok T o ss.
Proof.
  intros t T o ss H. unfold placement_ok. f_equal. f_equal.
  apply forallb_ext_local. intro s. apply has_free_slot_true_thm. exact H.
Qed.

Theorem placement_ok_true_thm : forall t T o ss, counters_true t T = true ->
  placement_ok t o ss = true -> placement_ok T o ss = true.
Proof. intros t T o ss H Hp. rewrite <- (placement_ok_true_iff_thm t T o ss H). exact Hp. Qed.

(* end to end: the search on the counters, judged against the truth of the heartbeat history *)
Theorem placement_on_truth_thm : forall ops orc t o ss,
  wf_topology t = true ->
  counters_true t (truth_topology t (truth_of ops)) = true ->
  find_empty_slots orc t o = (ss, false) ->
  placement_ok (truth_topology t (truth_of ops)) o ss = true.
Proof.
  intros ops orc t o ss Hwf Hc Hf.
  apply (placement_ok_true_thm t _ o ss Hc).
  exact (proj1 (c10_placement_thm orc t o ss Hwf Hf)).
Qed.

(* a server the truth says is full is never chosen *)
Theorem no_full_server_chosen_thm : forall ops orc t o ss s,
  wf_topology t = true ->
  counters_true t (truth_topology t (truth_of ops)) = true ->
  find_empty_slots orc t o = (ss, false) -> In s ss ->
  has_free_slot (truth_topology t (truth_of ops)) o s = true.
Proof.
  intros ops orc t o ss s Hwf Hc Hf Hin.
  pose proof (placement_on_truth_thm ops orc t o ss Hwf Hc Hf) as Hp.
  unfold placement_ok in Hp. apply andb_prop in Hp. destruct Hp as [Hp _].
  apply andb_prop in Hp. destruct Hp as [_ Hfree]. rewrite forallb_forall in Hfree. apply Hfree. exact Hin.
Qed.

(* ---- the hypothesis cannot be dropped: a drifted EC shard counter puts a volume on a full server ----
   History: n1 and n2 join rack dc1/r1 with room for 2 volumes each; n2 reports volume 1 and
   shards {0,1,2} of EC volume 10 (really free: 2 - 1 - 3/10 - 1 = 0); then an incremental EC
   heartbeat says shards {3,4,5,6} of volume 10 are gone -- n2 never held them, the truth does
   not move.  A master whose ecShardCount for n2 dropped by the four NAMED shards (to -1) sees
   one free slot on n2 and places replication 001 on n1 and n2. *)
Definition w_hist : list op :=
  [ Join "dc1" "r1" "n1" [(""%string, 2)]; Join "dc1" "r1" "n2" [(""%string, 2)];
    FullVol ["dc1"; "r1"; "n2"]%string [mkV 1 "" false false];
    FullEc ["dc1"; "r1"; "n2"]%string [mkE 10 "" 7];
    IncEc ["dc1"; "r1"; "n2"]%string [] [mkE 10 "" 120] ].
Definition w_drifted : topology :=
  {| t_usage := [(""%string, mkCounts 1 0 1 (-1) 4)];
     t_dcs := [ {| d_id := "dc1"; d_usage := [(""%string, mkCounts 1 0 1 (-1) 4)];
                   d_racks := [ {| r_id := "r1"; r_usage := [(""%string, mkCounts 1 0 1 (-1) 4)];
                                   r_nodes := [ {| n_id := "n1"; n_usage := [(""%string, mkCounts 0 0 0 0 2)] |};
                                                {| n_id := "n2"; n_usage := [(""%string, mkCounts 1 0 1 (-1) 2)] |} ] |} ] |} ] |}.
Definition w_opt : grow_option :=
  {| go_disk := ""; go_dc := ""; go_rack := ""; go_node := ""; rp_dc := 0; rp_rack := 0; rp_same := 1 |}.
Definition w_oracle : oracle :=
  {| o_dc_order := []; o_dc_rs := []; o_rack_order := []; o_rack_rs := []; o_node_order := []; o_node_rs := [];
     o_other_racks := []; o_other_dcs := [] |}.

Theorem placement_needs_true_counters_thm :
  wf_topology w_drifted = true /\
  true_free (truth_of w_hist) ["dc1"; "r1"; "n2"]%string "" = 0 /\
  counters_true w_drifted (truth_topology w_drifted (truth_of w_hist)) = false /\
  exists ss, find_empty_slots w_oracle w_drifted w_opt = (ss, false) /\
             placement_ok w_drifted w_opt ss = true /\
             placement_ok (truth_topology w_drifted (truth_of w_hist)) w_opt ss = false.
Proof.
  split; [vm_compute; reflexivity|]. split; [vm_compute; reflexivity|]. split; [vm_compute; reflexivity|].
  eexists. split; [vm_compute; reflexivity|]. split; vm_compute; reflexivity.
Qed.

(* non-vacuity: with the counters the unchanged code keeps for the same history (ecShardCount 3
   on n2) the hypothesis holds and the search reports an error *)
Definition w_exact : topology :=
  {| t_usage := [(""%string, mkCounts 1 0 1 3 4)];
     t_dcs := [ {| d_id := "dc1"; d_usage := [(""%string, mkCounts 1 0 1 3 4)];
                   d_racks := [ {| r_id := "r1"; r_usage := [(""%string, mkCounts 1 0 1 3 4)];
                                   r_nodes := [ {| n_id := "n1"; n_usage := [(""%string, mkCounts 0 0 0 0 2)] |};
                                                {| n_id := "n2"; n_usage := [(""%string, mkCounts 1 0 1 3 2)] |} ] |} ] |} ] |}.
Lemma placement_on_truth_example :
  wf_topology w_exact = true /\ hist_wf w_hist = true /\ same_nodes w_exact (truth_of w_hist) = true /\
  counters_true w_exact (truth_topology w_exact (truth_of w_hist)) = true /\
  snd (find_empty_slots w_oracle w_exact w_opt) = true /\
  (let o0 := {| go_disk := ""; go_dc := ""; go_rack := ""; go_node := ""; rp_dc := 0; rp_rack := 0; rp_same := 0 |} in
   find_empty_slots w_oracle w_exact o0 = ([("dc1", "r1", "n1")%string], false)).
Proof. repeat split; vm_compute; reflexivity. Qed.

(* ====================================================================================
   The success condition (all_paths_ok, completeness) also reads nothing but ids and
   AvailableSpaceFor: it has the same value on the counters and on the truth.
   ==================================================================================== *)
Section ListEqb.
  Context {A : Type} (eqb : A -> A -> bool).

  Lemma leqb_length : forall l l', list_eqb eqb l l' = true -> length l = length l'.
  Proof.
    induction l as [|a l IH]; intros [|b l'] H; cbn [list_eqb] in H; try discriminate; [reflexivity|].
    apply andb_prop in H. destruct H as [_ H]. cbn [length]. rewrite (IH l' H). reflexivity.
  Qed.

  Lemma leqb_filter_len : forall (p p' : A -> bool), (forall a b, eqb a b = true -> p a = p' b) ->
    forall l l', list_eqb eqb l l' = true -> length (filter p l) = length (filter p' l').
  Proof.
    intros p p' Hp. induction l as [|a l IH]; intros [|b l'] H; cbn [list_eqb] in H; try discriminate; [reflexivity|].
    apply andb_prop in H. destruct H as [Hab H]. cbn [filter]. rewrite (Hp a b Hab).
    destruct (p' b); cbn [length]; rewrite (IH l' H); reflexivity.
  Qed.

  Lemma leqb_existsb_filter : forall (p p' q q' : A -> bool),
    (forall a b, eqb a b = true -> p a = p' b) -> (forall a b, eqb a b = true -> q a = q' b) ->
    forall l l', list_eqb eqb l l' = true -> existsb q (filter p l) = existsb q' (filter p' l').
  Proof.
    intros p p' q q' Hp Hq. induction l as [|a l IH]; intros [|b l'] H; cbn [list_eqb] in H; try discriminate; [reflexivity|].
    apply andb_prop in H. destruct H as [Hab H]. cbn [filter]. rewrite (Hp a b Hab).
    destruct (p' b); cbn [existsb]; rewrite (IH l' H); [rewrite (Hq a b Hab)|]; reflexivity.
  Qed.

  Lemma leqb_forallb : forall (f g : A -> bool), (forall a b, eqb a b = true -> f a = g b) ->
    forall l l', list_eqb eqb l l' = true -> forallb f l = forallb g l'.
  Proof.
    intros f g Hf. induction l as [|a l IH]; intros [|b l'] H; cbn [list_eqb] in H; try discriminate; [reflexivity|].
    apply andb_prop in H. destruct H as [Hab H]. cbn [forallb]. rewrite (Hf a b Hab), (IH l' H). reflexivity.
  Qed.

  Lemma leqb_sum_pos : forall (av av' : A -> Z), (forall a b, eqb a b = true -> av a = av' b) ->
    forall l l', list_eqb eqb l l' = true -> sum_pos av l = sum_pos av' l'.
  Proof.
    intros av av' Hav. induction l as [|a l IH]; intros [|b l'] H; cbn [list_eqb] in H; try discriminate; [reflexivity|].
    apply andb_prop in H. destruct H as [Hab H]. unfold sum_pos in *. cbn [fold_right].
    rewrite (Hav a b Hab), (IH l' H). reflexivity.
  Qed.

  Lemma leqb_pick_fails : forall (av av' : A -> Z) (q q' : A -> bool) number,
    (forall a b, eqb a b = true -> av a = av' b) -> (forall a b, eqb a b = true -> q a = q' b) ->
    forall l l', list_eqb eqb l l' = true -> pick_fails av number q l = pick_fails av' number q' l'.
  Proof.
    intros av av' q q' number Hav Hq l l' H. unfold pick_fails.
    assert (Hp : forall a b, eqb a b = true -> (0 <? av a) = (0 <? av' b)).
    { intros a b Hab. rewrite (Hav a b Hab). reflexivity. }
    rewrite (leqb_filter_len _ _ Hp l l' H), (leqb_existsb_filter _ _ q q' Hp Hq l l' H). reflexivity.
  Qed.
End ListEqb.

Lemma node_eqb4_inv : forall o a b, node_eqb4 a b = true -> n_id a = n_id b /\ avail_node o a = avail_node o b.
Proof.
  intros o a b H. unfold node_eqb4 in H. apply andb_prop in H. destruct H as [Hid Hu].
  apply String.eqb_eq in Hid. split; [exact Hid|]. unfold avail_node. apply usages_eqb4_free. exact Hu.
Qed.

Lemma rack_eqb4_inv : forall o a b, rack_eqb4 a b = true ->
  r_id a = r_id b /\ avail_rack o a = avail_rack o b /\ list_eqb node_eqb4 (r_nodes a) (r_nodes b) = true.
Proof.
  intros o a b H. unfold rack_eqb4 in H. apply andb_prop in H. destruct H as [H Hn].
  apply andb_prop in H. destruct H as [Hid Hu]. apply String.eqb_eq in Hid.
  split; [exact Hid|]. split; [|exact Hn]. unfold avail_rack. apply usages_eqb4_free. exact Hu.
Qed.

Lemma dc_eqb4_inv : forall o a b, dc_eqb4 a b = true ->
  d_id a = d_id b /\ avail_dc o a = avail_dc o b /\ list_eqb rack_eqb4 (d_racks a) (d_racks b) = true.
Proof.
  intros o a b H. unfold dc_eqb4 in H. apply andb_prop in H. destruct H as [H Hn].
  apply andb_prop in H. destruct H as [Hid Hu]. apply String.eqb_eq in Hid.
  split; [exact Hid|]. split; [|exact Hn]. unfold avail_dc. apply usages_eqb4_free. exact Hu.
Qed.

Lemma node_filter_same : forall o a b, node_eqb4 a b = true -> node_filter o a = node_filter o b.
Proof. intros o a b H. destruct (node_eqb4_inv o a b H) as [Hid Hav]. unfold node_filter. rewrite Hid, Hav. reflexivity. Qed.

Lemma possible_nodes_same : forall o a b, rack_eqb4 a b = true -> possible_nodes o a = possible_nodes o b.
Proof.
  intros o a b H. destruct (rack_eqb4_inv o a b H) as (_ & _ & Hn). unfold possible_nodes.
  apply (leqb_filter_len node_eqb4); [|exact Hn].
  intros x y Hxy. rewrite (proj2 (node_eqb4_inv o x y Hxy)). reflexivity.
Qed.

Lemma rack_filter_same : forall o a b, rack_eqb4 a b = true -> rack_filter o a = rack_filter o b.
Proof.
  intros o a b H. destruct (rack_eqb4_inv o a b H) as (Hid & Hav & Hn). unfold rack_filter.
  rewrite Hid, Hav, (leqb_length node_eqb4 _ _ Hn), (possible_nodes_same o a b H). reflexivity.
Qed.

Lemma dc_filter_same : forall o a b, dc_eqb4 a b = true -> dc_filter o a = dc_filter o b.
Proof.
  intros o a b H. destruct (dc_eqb4_inv o a b H) as (Hid & Hav & Hr). unfold dc_filter.
  rewrite Hid, Hav, (leqb_length rack_eqb4 _ _ Hr).
  rewrite (leqb_filter_len rack_eqb4 (fun rk => Nat.leb (rp_same o + 1) (possible_nodes o rk))
             (fun rk => Nat.leb (rp_same o + 1) (possible_nodes o rk))
             (fun x y Hxy => f_equal (Nat.leb (rp_same o + 1)) (possible_nodes_same o x y Hxy)) _ _ Hr).
  reflexivity.
Qed.

Lemma rack_paths_same : forall o a b, rack_eqb4 a b = true ->
  (if (0 <? avail_rack o a) && rack_filter o a
   then negb (pick_fails (avail_node o) (rp_same o + 1) (node_filter o) (r_nodes a)) else true) =
  (if (0 <? avail_rack o b) && rack_filter o b
   then negb (pick_fails (avail_node o) (rp_same o + 1) (node_filter o) (r_nodes b)) else true).
Proof.
  intros o a b H. destruct (rack_eqb4_inv o a b H) as (_ & Hav & Hn).
  rewrite Hav, (rack_filter_same o a b H).
  rewrite (leqb_pick_fails node_eqb4 (avail_node o) (avail_node o) (node_filter o) (node_filter o) (rp_same o + 1)
             (fun x y Hxy => proj2 (node_eqb4_inv o x y Hxy)) (node_filter_same o) _ _ Hn).
  reflexivity.
Qed.

Lemma dc_paths_same : forall o a b, dc_eqb4 a b = true ->
  (if (0 <? avail_dc o a) && dc_filter o a then
     negb (pick_fails (avail_rack o) (rp_rack o + 1) (rack_filter o) (d_racks a)) &&
     forallb (fun rk => if (0 <? avail_rack o rk) && rack_filter o rk
                        then negb (pick_fails (avail_node o) (rp_same o + 1) (node_filter o) (r_nodes rk))
                        else true) (d_racks a)
   else true) =
  (if (0 <? avail_dc o b) && dc_filter o b then
     negb (pick_fails (avail_rack o) (rp_rack o + 1) (rack_filter o) (d_racks b)) &&
     forallb (fun rk => if (0 <? avail_rack o rk) && rack_filter o rk
                        then negb (pick_fails (avail_node o) (rp_same o + 1) (node_filter o) (r_nodes rk))
                        else true) (d_racks b)
   else true).
Proof.
  intros o a b H. destruct (dc_eqb4_inv o a b H) as (_ & Hav & Hr).
  rewrite Hav, (dc_filter_same o a b H).
  rewrite (leqb_pick_fails rack_eqb4 (avail_rack o) (avail_rack o) (rack_filter o) (rack_filter o) (rp_rack o + 1)
             (fun x y Hxy => proj1 (proj2 (rack_eqb4_inv o x y Hxy))) (rack_filter_same o) _ _ Hr).
  rewrite (leqb_forallb rack_eqb4 _ _ (rack_paths_same o) _ _ Hr).
  reflexivity.
Qed.

Lemma dc_sound_same : forall o a b, dc_eqb4 a b = true ->
  ((avail_dc o a <=? sum_pos (avail_rack o) (d_racks a)) &&
   forallb (fun rk => avail_rack o rk <=? sum_pos (avail_node o) (r_nodes rk)) (d_racks a)) =
  ((avail_dc o b <=? sum_pos (avail_rack o) (d_racks b)) &&
   forallb (fun rk => avail_rack o rk <=? sum_pos (avail_node o) (r_nodes rk)) (d_racks b)).
Proof.
  intros o a b H. destruct (dc_eqb4_inv o a b H) as (_ & Hav & Hr).
  rewrite Hav.
  rewrite (leqb_sum_pos rack_eqb4 (avail_rack o) (avail_rack o)
             (fun x y Hxy => proj1 (proj2 (rack_eqb4_inv o x y Hxy))) _ _ Hr).
  f_equal. apply (leqb_forallb rack_eqb4); [|exact Hr].
  intros x y Hxy. destruct (rack_eqb4_inv o x y Hxy) as (_ & Hax & Hn).
  rewrite Hax, (leqb_sum_pos node_eqb4 (avail_node o) (avail_node o)
                  (fun u v Huv => proj2 (node_eqb4_inv o u v Huv)) _ _ Hn).
  reflexivity.
Qed.

Theorem all_paths_ok_true_iff_thm : forall t T o, counters_true t T = true ->
  all_paths_ok t o = all_paths_ok T o.
Proof.
  intros t T o H. unfold counters_true in H. apply andb_prop in H. destruct H as [_ H].
  unfold all_paths_ok, counters_sound.
  rewrite (leqb_forallb dc_eqb4 _ _ (dc_sound_same o) _ _ H).
  rewrite (leqb_pick_fails dc_eqb4 (avail_dc o) (avail_dc o) (dc_filter o) (dc_filter o) (rp_dc o + 1)
             (fun x y Hxy => proj1 (proj2 (dc_eqb4_inv o x y Hxy))) (dc_filter_same o) _ _ H).
  rewrite (leqb_forallb dc_eqb4 _ _ (dc_paths_same o) _ _ H).
  reflexivity.
Qed.

(* completeness against the truth: when the truth satisfies the success condition and the
   counters equal the truth, the search succeeds for every oracle *)
Theorem success_on_truth_thm : forall ops orc t o,
  wf_topology t = true ->
  counters_true t (truth_topology t (truth_of ops)) = true ->
  all_paths_ok (truth_topology t (truth_of ops)) o = true ->
  snd (find_empty_slots orc t o) = false.
Proof.
  intros ops orc t o Hwf Hc Hp. apply all_paths_ok_success_thm; [exact Hwf|].
  rewrite (all_paths_ok_true_iff_thm t _ o Hc). exact Hp.
Qed.
