(* C20, groundwork: membership/disjointness reflection, chunk lists without manifests,
   CompactFileChunks as a partition by file id, the referenced set of a state whose
   names carry no link id. *)
From Coq Require Import List NArith ZArith Bool String Arith Lia Permutation.
From SW Require Import model.FilerNS proof.FilerNSBase model.Chunks model.HardLink model.FilerGC
  proof.HardLinkBase proof.HardLinkInv proof.HardLinkOps.
Import ListNotations.
Local Open Scope list_scope.

(* ================= mem / disjoint / forallb ================= *)
Lemma mem_In : forall x l, mem x l = true <-> In x l.
Proof.
  intros x l. unfold mem. rewrite existsb_exists. split.
  - intros [y [Hin E]]. apply N.eqb_eq in E. now subst.
  - intro H. exists x. split; [assumption|apply N.eqb_refl].
Qed.

Lemma mem_false : forall x l, mem x l = false <-> ~ In x l.
Proof. intros. rewrite <- mem_In. destruct (mem x l); split; congruence. Qed.

Lemma disjoint_intro : forall a b, (forall x, In x a -> ~ In x b) -> disjoint a b = true.
Proof.
  intros a b H. unfold disjoint. apply forallb_forall. intros x Hx.
  apply negb_true_iff, mem_false. auto.
Qed.

Lemma all_garbage_intro : forall rb ra sched,
  (forall c, In c rb -> In c ra \/ In c sched) -> all_garbage_b rb ra sched = true.
Proof.
  intros rb ra sched H. unfold all_garbage_b. apply forallb_forall. intros c Hc.
  apply orb_true_iff. destruct (H c Hc); [left|right]; now apply mem_In.
Qed.

Lemma has_fid_In : forall cs f, has_fid cs f = true <-> In f (fids cs).
Proof.
  intros cs f. unfold has_fid, fids. rewrite existsb_exists, in_map_iff. split.
  - intros [c [Hin E]]. apply N.eqb_eq in E. eauto.
  - intros [c [E Hin]]. exists c. split; [assumption|]. subst. apply N.eqb_refl.
Qed.

Lemma has_fid_false : forall cs f, has_fid cs f = false <-> ~ In f (fids cs).
Proof. intros. rewrite <- has_fid_In. destruct (has_fid cs f); split; congruence. Qed.

(* ================= chunk lists without manifests ================= *)
Definition good_chunk (c : chunk) : Prop := c_manifest c = false /\ chunk_ok c = true.
Definition good_list (cs : list chunk) : Prop := Forall good_chunk cs.

Lemma good_not_outside : forall c, good_chunk c -> outside_window 0 max_int64 c = false.
Proof.
  intros c [_ H]. unfold chunk_ok in H. apply andb_true_iff in H. destruct H as [H1 H2].
  apply N.ltb_lt in H1. apply N.ltb_lt in H2.
  unfold outside_window, c_stop. apply N.leb_gt. lia.
Qed.

Lemma resolve_good : forall f ms cs, good_list cs -> resolve (S f) ms 0 max_int64 cs = Some (cs, []).
Proof.
  intros f ms cs H. simpl. induction H as [|c cs Hc Hcs IH]; [reflexivity|].
  simpl. rewrite IH. rewrite (good_not_outside c Hc). destruct Hc as [Hm _]. rewrite Hm. reflexivity.
Qed.

Lemma reach_good : forall ev cs, good_list cs -> reach ev cs = fids cs.
Proof.
  intros. unfold reach, resolve_fuel. rewrite resolve_good by assumption. simpl. apply app_nil_r.
Qed.

Lemma expand_good : forall ev cs, good_list cs -> expand_delete ev cs = fids cs.
Proof.
  intros ev cs H. unfold expand_delete. induction H as [|c cs [Hm _] Hcs IH]; [reflexivity|].
  simpl. rewrite Hm. simpl. now rewrite IH.
Qed.

Lemma good_filter : forall (f : chunk -> bool) cs, good_list cs -> good_list (filter f cs).
Proof.
  intros f cs H. induction H; simpl; [constructor|]. destruct (f x); [constructor|]; assumption.
Qed.

Lemma good_app : forall a b, good_list a -> good_list b -> good_list (a ++ b).
Proof. intros. apply Forall_app. split; assumption. Qed.

Lemma filter_manifest_good : forall cs, good_list cs ->
  filter c_manifest cs = [] /\ filter (fun c => negb (c_manifest c)) cs = cs.
Proof.
  intros cs H. induction H as [|c cs [Hm _] Hcs [IH1 IH2]]; [split; reflexivity|].
  simpl. rewrite Hm. simpl. rewrite IH1, IH2. split; reflexivity.
Qed.

Lemma minus_good : forall ev a b, good_list a -> good_list b ->
  minus_chunks ev a b = Some (do_minus a b ++ []).
Proof.
  intros. unfold minus_chunks, resolve_fuel. now rewrite !resolve_good by assumption.
Qed.

(* ================= CompactFileChunks: a partition by file id ================= *)
Lemma partition_filter : forall {A} (f : A -> bool) l,
  partition f l = (filter f l, filter (fun x => negb (f x)) l).
Proof.
  induction l as [|x l IH]; simpl; [reflexivity|]. rewrite IH. destruct (f x); reflexivity.
Qed.

Lemma compact_spec : forall fuel ms cs, exists g : N -> bool,
  compact_file_chunks fuel ms cs =
    (filter (fun c => g (c_fid c)) cs, filter (fun c => negb (g (c_fid c))) cs).
Proof.
  intros. unfold compact_file_chunks.
  exists (fun f => existsb (fun v => N.eqb (v_fid v) f)
                     (fst (non_overlapping_visible_intervals fuel ms cs 0 max_int64))).
  apply partition_filter.
Qed.

Lemma In_fids_filter : forall (g : N -> bool) cs f,
  In f (fids (filter (fun c => g (c_fid c)) cs)) <-> In f (fids cs) /\ g f = true.
Proof.
  intros g cs f. unfold fids. rewrite !in_map_iff. split.
  - intros [c [E Hin]]. apply filter_In in Hin. destruct Hin as [Hin Hg]. subst. split; eauto.
  - intros [[c [E Hin]] Hg]. exists c. split; [assumption|]. apply filter_In. subst. auto.
Qed.

(* cleanupChunks for a manifest-free list: (kept, garbage) with kept/covered a partition of the
   list by file id *)
Lemma cleanup_good : forall ev old cs, good_list cs ->
  (forall o, old = Some o -> good_list (h_chunks o)) ->
  exists g : N -> bool,
    cleanup_chunks ev old cs =
      Some (filter (fun c => g (c_fid c)) cs ++ [],
            match old with Some o => do_minus (h_chunks o) cs ++ [] | None => [] end ++
            filter (fun c => negb (g (c_fid c))) cs).
Proof.
  intros ev old cs Hg Hold. unfold cleanup_chunks.
  destruct (filter_manifest_good cs Hg) as [F1 F2]. rewrite F1, F2.
  destruct (compact_spec resolve_fuel (ms ev) cs) as [g Hc]. exists g. rewrite Hc.
  destruct old as [o|]; [|reflexivity].
  rewrite (minus_good ev (h_chunks o) cs (Hold o eq_refl) Hg). reflexivity.
Qed.

Lemma In_do_minus : forall a b f, In f (fids (do_minus a b)) <-> In f (fids a) /\ ~ In f (fids b).
Proof.
  intros a b f. unfold do_minus. split.
  - intro H. apply in_map_iff in H. destruct H as [c [E Hin]].
    apply filter_In in Hin. destruct Hin as [Hin Hn].
    apply negb_true_iff, has_fid_false in Hn. subst. split; [now apply in_map|assumption].
  - intros [H Hn]. apply in_map_iff in H. destruct H as [c [E Hin]].
    apply in_map_iff. exists c. split; [assumption|]. apply filter_In. split; [assumption|].
    apply negb_true_iff, has_fid_false. now subst.
Qed.

(* ================= states whose names carry no link id ================= *)
Record PS (s : st) : Prop := {
  ps_nd : NoDup (map fst (names s));
  ps_plain : forall q e, nfind s q = Some e -> h_hl e = 0%N;
  ps_good : forall q e, nfind s q = Some e -> good_list (h_chunks e);
  ps_dir : forall q e, nfind s q = Some e -> h_dir e = true -> h_chunks e = []
}.

Definition ids (e : hentry) : list N := fids (h_chunks e).
Definition ids_at (s : st) (p : path) : list N := match nfind s p with Some e => ids e | None => [] end.

(* two different names share no chunk id *)
Definition Excl (s : st) : Prop :=
  forall q1 e1 q2 e2, nfind s q1 = Some e1 -> nfind s q2 = Some e2 -> q1 <> q2 ->
    forall c, In c (ids e1) -> ~ In c (ids e2).

Lemma PS_empty : PS empty_st.
Proof. constructor; simpl; try constructor; intros; discriminate. Qed.

Lemma Excl_empty : Excl empty_st.
Proof. intros q1 e1 q2 e2 H. discriminate. Qed.

Lemma refs_spec : forall ev s, PS s ->
  forall c, In c (refs ev s) <-> exists q e, nfind s q = Some e /\ In c (ids e).
Proof.
  intros ev s P c. unfold refs. rewrite in_flat_map. split.
  - intros [[q e] [Hin Hc]]. simpl in Hc.
    pose proof (In_nfind s q e (ps_nd _ P) Hin) as Hf.
    rewrite (view_plain s e (ps_plain _ P q e Hf)) in Hc.
    rewrite (reach_good ev _ (ps_good _ P q e Hf)) in Hc. eauto.
  - intros [q [e [Hf Hc]]]. exists (q, e). split; [now apply nfind_In|]. simpl.
    rewrite (view_plain s e (ps_plain _ P q e Hf)).
    now rewrite (reach_good ev _ (ps_good _ P q e Hf)).
Qed.

Lemma reach_at_ps : forall ev s p, PS s -> reach_at ev s p = ids_at s p.
Proof.
  intros ev s p P. unfold reach_at, ids_at, w_find. destruct (nfind s p) as [e|] eqn:E; [|reflexivity].
  rewrite (view_plain s e (ps_plain _ P p e E)). apply reach_good. apply (ps_good _ P p e E).
Qed.

Lemma find_entry_ps : forall ev s p, PS s -> p <> [] -> find_entry ev s p = nfind s p.
Proof.
  intros ev s p P Hp. rewrite find_entry_nonroot by assumption. unfold w_find.
  destruct (nfind s p) as [e|] eqn:E; [|reflexivity]. now rewrite (view_plain s e (ps_plain _ P p e E)).
Qed.

Lemma parent_neq : forall p : path, p <> [] -> HardLink.parent p <> p.
Proof.
  intros p Hp E. destruct (path_cases p) as [|[d [n Hd]]]; [contradiction|]. subst p.
  unfold HardLink.parent in E. rewrite parent_child in E.
  apply (f_equal (@List.length _)) in E. rewrite app_length in E. simpl in E. lia.
Qed.
