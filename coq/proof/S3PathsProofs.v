(* Proofs for C29 (model/S3Paths.v): lexical cleaning never climbs above a prefix when
   no ".." segment follows it; every path the gateway produces for a request without
   ".." segments stays inside the bucket directory; concrete escaping requests. *)
From Coq Require Import List NArith Bool String Ascii Arith Lia.
From SW Require Import model.S3List model.S3Paths.
Import ListNotations.
Local Open Scope list_scope.
Local Open Scope string_scope.

(* ---------- strings ---------- *)

Lemma ascii_eqb_true : forall a b, Ascii.eqb a b = true -> a = b.
Proof. intros a b H. apply Ascii.eqb_eq. exact H. Qed.

Lemma str_eqb_true : forall a b : string, (a =? b) = true -> a = b.
Proof. intros a b H. apply String.eqb_eq. exact H. Qed.

Lemma str_eqb_false : forall a b : string, (a =? b) = false -> a <> b.
Proof. intros a b H. apply String.eqb_neq. exact H. Qed.

Lemma append_assoc : forall a b c : string, (a ++ b) ++ c = a ++ (b ++ c).
Proof. induction a as [|x a IH]; intros b c; simpl; [reflexivity | rewrite IH; reflexivity]. Qed.

Lemma append_nil_r : forall a : string, a ++ "" = a.
Proof. induction a as [|x a IH]; simpl; [reflexivity | rewrite IH; reflexivity]. Qed.

Lemma split_nonempty : forall s, split_slash s <> [].
Proof.
  induction s as [|c s IH]; simpl; [discriminate|].
  destruct (Ascii.eqb c slash); [discriminate|].
  destruct (split_slash s); discriminate.
Qed.

Lemma split_app_slash : forall x y, split_slash (x ++ String slash y) = (split_slash x ++ split_slash y)%list.
Proof.
  induction x as [|c x IH]; intros y.
  - simpl. reflexivity.
  - simpl. destruct (Ascii.eqb c slash) eqn:E.
    + rewrite IH. reflexivity.
    + rewrite IH. destruct (split_slash x) as [|h t] eqn:Ex.
      * exfalso. exact (split_nonempty x Ex).
      * reflexivity.
Qed.

Lemma no_slash_split : forall s, no_slash s = true -> split_slash s = [s].
Proof.
  induction s as [|c s IH]; simpl; intros H; [reflexivity|].
  apply andb_true_iff in H. destruct H as [Hc Hs].
  destruct (Ascii.eqb c slash); [discriminate|].
  rewrite (IH Hs). reflexivity.
Qed.

Lemma split_segs_no_slash : forall s x, In x (split_slash s) -> no_slash x = true.
Proof.
  induction s as [|c s IH]; simpl; intros x H.
  - destruct H as [H|[]]. subst x. reflexivity.
  - destruct (Ascii.eqb c slash) eqn:E.
    + destruct H as [H|H]; [subst x; reflexivity | exact (IH x H)].
    + destruct (split_slash s) as [|h t] eqn:Es.
      * destruct H as [H|[]]. subst x. simpl. rewrite E. reflexivity.
      * destruct H as [H|H].
        -- subst x. simpl. rewrite E. simpl. apply IH. left. reflexivity.
        -- apply IH. right. exact H.
Qed.

Lemma rcut_slash_spec : forall s d n, rcut_slash s = Some (d, n) -> s = d ++ String slash n /\ no_slash n = true.
Proof.
  induction s as [|c s IH]; simpl; intros d n H; [discriminate|].
  destruct (rcut_slash s) as [[a b]|] eqn:E.
  - inversion H; subst. destruct (IH a n eq_refl) as [H1 H2]. split; [simpl; rewrite <- H1; reflexivity | exact H2].
  - destruct (Ascii.eqb c slash) eqn:Ec; [|discriminate].
    inversion H; subst. apply ascii_eqb_true in Ec. subst c. split; [reflexivity|].
    clear IH H. revert E. induction n as [|x n IHn]; simpl; intros E; [reflexivity|].
    destruct (rcut_slash n) as [[a b]|]; [discriminate|].
    destruct (Ascii.eqb x slash); [discriminate|]. simpl. apply IHn. reflexivity.
Qed.

Lemma rcut_slash_none : forall s, rcut_slash s = None -> no_slash s = true.
Proof.
  induction s as [|c s IH]; simpl; intros H; [reflexivity|].
  destruct (rcut_slash s) as [[a b]|]; [discriminate|].
  destruct (Ascii.eqb c slash); [discriminate|]. simpl. apply IH. reflexivity.
Qed.

Lemma cut_slash_spec : forall s a b, cut_slash s = Some (a, b) -> s = a ++ String slash b /\ no_slash a = true.
Proof.
  induction s as [|c s IH]; simpl; intros a b H; [discriminate|].
  destruct (Ascii.eqb c slash) eqn:Ec.
  - inversion H; subst. apply ascii_eqb_true in Ec. subst c. split; reflexivity.
  - destruct (cut_slash s) as [[x y]|]; [|discriminate]. inversion H; subst.
    destruct (IH x b eq_refl) as [H1 H2]. split; [simpl; rewrite <- H1; reflexivity | simpl; rewrite Ec; exact H2].
Qed.

Lemma starts_with_slash_spec : forall s, starts_with_slash s = true -> exists r, s = String slash r.
Proof.
  destruct s as [|c r]; simpl; intros H; [discriminate|].
  apply ascii_eqb_true in H. subst c. exists r. reflexivity.
Qed.

(* ---------- normalisation ---------- *)

Definition keep (s : string) : bool := negb ((s =? "") || (s =? ".")).
Definition nodd (l : list string) : Prop := forall s, In s l -> s <> "..".

Lemma fold_nodd : forall r B acc, nodd B ->
  fold_left (norm_step r) B acc = (rev (filter keep B) ++ acc)%list.
Proof.
  induction B as [|s B IH]; intros acc H; simpl; [reflexivity|].
  assert (Hs : s <> "..") by (apply H; left; reflexivity).
  assert (HB : nodd B) by (intros x Hx; apply H; right; exact Hx).
  unfold norm_step at 2. unfold keep at 1.
  destruct ((s =? "") || (s =? ".")) eqn:E; simpl.
  - apply IH. exact HB.
  - destruct (s =? "..") eqn:E2; [apply str_eqb_true in E2; contradiction|].
    rewrite IH by exact HB. rewrite <- app_assoc. reflexivity.
Qed.

Lemma norm_app_nodd : forall r A B, nodd B ->
  norm_segs r (A ++ B) = (norm_segs r A ++ filter keep B)%list.
Proof.
  intros r A B H. unfold norm_segs. rewrite fold_left_app. rewrite fold_nodd by exact H.
  rewrite rev_app_distr. rewrite rev_involutive. reflexivity.
Qed.

Lemma norm_nodd : forall r B, nodd B -> norm_segs r B = filter keep B.
Proof. intros r B H. apply (norm_app_nodd r [] B H). Qed.

(* what a normalised ROOTED segment list looks like *)
Definition clean_seg (s : string) : Prop := s <> "" /\ s <> "." /\ s <> "..".

Lemma norm_step_clean : forall acc s, Forall clean_seg acc -> Forall clean_seg (norm_step true acc s).
Proof.
  intros acc s H. unfold norm_step.
  destruct ((s =? "") || (s =? ".")) eqn:E; [exact H|].
  apply orb_false_iff in E. destruct E as [E1 E2]. apply str_eqb_false in E1. apply str_eqb_false in E2.
  destruct (s =? "..") eqn:E3.
  - destruct acc as [|t acc']; [constructor|].
    inversion H; subst. destruct (t =? "..") eqn:E4.
    + apply str_eqb_true in E4. destruct H2 as [_ [_ H2]]. contradiction.
    + exact H3.
  - apply str_eqb_false in E3. constructor; [repeat split; assumption | exact H].
Qed.

Lemma norm_rooted_clean : forall segs, Forall clean_seg (norm_segs true segs).
Proof.
  intros segs. unfold norm_segs. apply Forall_rev.
  assert (G : forall l acc, Forall clean_seg acc -> Forall clean_seg (fold_left (norm_step true) l acc)).
  { induction l as [|s l IH]; intros acc H; simpl; [exact H|]. apply IH. apply norm_step_clean. exact H. }
  apply G. constructor.
Qed.

Lemma norm_step_sub : forall r acc s x, In x (norm_step r acc s) -> In x acc \/ x = s \/ x = "..".
Proof.
  intros r acc s x H. unfold norm_step in H.
  destruct ((s =? "") || (s =? ".")); [left; exact H|].
  destruct (s =? "..").
  - destruct acc as [|t acc'].
    + destruct r; [destruct H | destruct H as [H|[]]; right; right; symmetry; exact H].
    + destruct (t =? "..").
      * destruct H as [H|H]; [right; right; symmetry; exact H | left; exact H].
      * left. right. exact H.
  - destruct H as [H|H]; [right; left; symmetry; exact H | left; exact H].
Qed.

Lemma norm_segs_sub : forall r segs x, In x (norm_segs r segs) -> In x segs \/ x = "..".
Proof.
  intros r segs x H. unfold norm_segs in H. apply in_rev in H.
  assert (G : forall l acc, In x (fold_left (norm_step r) l acc) -> In x acc \/ In x l \/ x = "..").
  { induction l as [|s l IH]; intros acc Hx; simpl in Hx; [left; exact Hx|].
    destruct (IH _ Hx) as [Hx'|[Hx'|Hx']].
    - destruct (norm_step_sub _ _ _ _ Hx') as [K|[K|K]]; [left; exact K | right; left; left; symmetry; exact K | right; right; exact K].
    - right. left. right. exact Hx'.
    - right. right. exact Hx'. }
  destruct (G _ _ H) as [K|[K|K]]; [destruct K | left; exact K | right; exact K].
Qed.

(* join / split round trip on slash-free segments *)
Lemma split_join : forall l, l <> [] -> Forall (fun s => no_slash s = true) l ->
  split_slash (join_slash l) = l.
Proof.
  induction l as [|a l IH]; intros Hne H; [contradiction|].
  inversion H; subst. destruct l as [|b l'].
  - simpl. apply no_slash_split. exact H2.
  - change (join_slash (a :: b :: l')) with (a ++ String slash (join_slash (b :: l'))).
    rewrite split_app_slash. rewrite (no_slash_split a H2). rewrite IH; [reflexivity | discriminate | exact H3].
Qed.

Lemma clean_seg_keep : forall l, Forall clean_seg l -> filter keep l = l /\ nodd l.
Proof.
  induction l as [|s l IH]; intros H; [split; [reflexivity | intros x []]|].
  inversion H; subst. destruct (IH H3) as [I1 I2]. destruct H2 as [A [B C]].
  split.
  - simpl. unfold keep at 1.
    destruct (s =? "") eqn:E1; [apply str_eqb_true in E1; contradiction|].
    destruct (s =? ".") eqn:E2; [apply str_eqb_true in E2; contradiction|].
    simpl. rewrite I1. reflexivity.
  - intros x [Hx|Hx]; [subst x; exact C | exact (I2 x Hx)].
Qed.

Lemma norm_fix : forall r l, Forall clean_seg l -> norm_segs r l = l.
Proof. intros r l H. destruct (clean_seg_keep l H) as [A B]. rewrite norm_nodd by exact B. exact A. Qed.

(* ---------- clean on rooted paths ---------- *)

Definition rsegs (p : string) : list string := norm_segs true (split_slash p).

Lemma clean_rooted : forall p, starts_with_slash p = true -> clean p = "/" ++ join_slash (rsegs p).
Proof. intros p H. unfold clean. rewrite H. reflexivity. Qed.

Lemma rsegs_no_slash : forall p, Forall (fun s => no_slash s = true) (rsegs p).
Proof.
  intros p. apply Forall_forall. intros x Hx. unfold rsegs in Hx.
  destruct (norm_segs_sub _ _ _ Hx) as [K|K]; [exact (split_segs_no_slash _ _ K) | subst x; reflexivity].
Qed.

Lemma rsegs_of_rooted_join : forall l, Forall clean_seg l -> Forall (fun s => no_slash s = true) l ->
  rsegs ("/" ++ join_slash l) = l.
Proof.
  intros l Hc Hn. unfold rsegs. destruct l as [|a l'].
  - reflexivity.
  - change ("/" ++ join_slash (a :: l')) with ("" ++ String slash (join_slash (a :: l'))).
    rewrite split_app_slash. rewrite split_join; [|discriminate|exact Hn].
    simpl split_slash. change ([""] ++ a :: l')%list with ([""] ++ (a :: l'))%list.
    rewrite norm_app_nodd; [|exact (proj2 (clean_seg_keep _ Hc))].
    rewrite (proj1 (clean_seg_keep _ Hc)). reflexivity.
Qed.

Lemma rsegs_clean : forall p, starts_with_slash p = true -> rsegs (clean p) = rsegs p.
Proof.
  intros p H. rewrite clean_rooted by exact H.
  apply rsegs_of_rooted_join; [apply norm_rooted_clean | apply rsegs_no_slash].
Qed.

Lemma clean_starts : forall p, starts_with_slash p = true -> starts_with_slash (clean p) = true.
Proof. intros p H. rewrite clean_rooted by exact H. reflexivity. Qed.

Lemma clean_idem : forall p, starts_with_slash p = true -> clean (clean p) = clean p.
Proof.
  intros p H. rewrite (clean_rooted (clean p)) by (apply clean_starts; exact H).
  rewrite rsegs_clean by exact H. symmetry. apply clean_rooted. exact H.
Qed.

Lemma rsegs_trailing_slash : forall p, rsegs (p ++ "/") = rsegs p.
Proof.
  intros p. unfold rsegs. change (p ++ "/") with (p ++ String slash "").
  rewrite split_app_slash. simpl split_slash.
  unfold norm_segs. rewrite fold_left_app. simpl. reflexivity.
Qed.

Lemma starts_app : forall p q, starts_with_slash p = true -> starts_with_slash (p ++ q) = true.
Proof. intros p q H. destruct (starts_with_slash_spec _ H) as [r E]. subst p. reflexivity. Qed.

Lemma clean_trailing_slash : forall p, starts_with_slash p = true -> clean (p ++ "/") = clean p.
Proof.
  intros p H. rewrite (clean_rooted (p ++ "/")) by (apply starts_app; exact H).
  rewrite rsegs_trailing_slash. symmetry. apply clean_rooted. exact H.
Qed.

Lemma clean_mux_clean : forall p, starts_with_slash p = true -> clean (mux_clean p) = clean p.
Proof.
  intros p H. unfold mux_clean.
  destruct (starts_with_slash_spec _ H) as [r E]. subst p.
  change (String slash r =? "") with false. cbv iota. rewrite H.
  destruct (ends_with_slash (String slash r) && negb (clean (String slash r) =? "/")).
  - rewrite clean_trailing_slash by (apply clean_starts; exact H). apply clean_idem. exact H.
  - apply clean_idem. exact H.
Qed.

Lemma join_split : forall s, join_slash (split_slash s) = s.
Proof.
  induction s as [|c s IH]; [reflexivity|].
  simpl split_slash. destruct (Ascii.eqb c slash) eqn:E.
  - apply ascii_eqb_true in E. subst c.
    destruct (split_slash s) as [|h t] eqn:Es; [exfalso; exact (split_nonempty s Es)|].
    change (join_slash ("" :: h :: t)) with ("" ++ String slash (join_slash (h :: t))).
    rewrite IH. reflexivity.
  - destruct (split_slash s) as [|h t] eqn:Es; [exfalso; exact (split_nonempty s Es)|].
    destruct t as [|h2 t2].
    + unfold join_slash in *. simpl in *. rewrite IH. reflexivity.
    + change (join_slash (String c h :: h2 :: t2)) with (String c (h ++ String slash (join_slash (h2 :: t2)))).
      change (join_slash (h :: h2 :: t2)) with (h ++ String slash (join_slash (h2 :: t2))) in IH.
      rewrite IH. reflexivity.
Qed.

Lemma split_inj : forall a b, split_slash a = split_slash b -> a = b.
Proof. intros a b H. rewrite <- (join_split a), <- (join_split b), H. reflexivity. Qed.

Lemma prefix_app : forall a b, String.prefix a (a ++ b) = true.
Proof.
  induction a as [|c a IH]; intros b; simpl; [destruct b; reflexivity|].
  destruct (ascii_dec c c) as [_|N]; [apply IH | contradiction].
Qed.

Lemma prefix_exists : forall a s, String.prefix a s = true -> exists z, s = a ++ z.
Proof.
  induction a as [|c a IH]; intros s H; [exists s; reflexivity|].
  destruct s as [|d s]; simpl in H; [discriminate|].
  destruct (ascii_dec c d) as [E|N]; [|discriminate]. subst d.
  destruct (IH s H) as [z Hz]. exists z. simpl. rewrite Hz. reflexivity.
Qed.

Lemma split_head_rooted : forall p x r, split_slash p = "" :: x :: r -> starts_with_slash p = true.
Proof.
  destruct p as [|c p]; simpl; intros x r H; [discriminate|].
  destruct (Ascii.eqb c slash) eqn:E; [reflexivity|].
  destruct (split_slash p); discriminate.
Qed.

Lemma rcut_split : forall s d n, rcut_slash s = Some (d, n) -> split_slash s = (split_slash d ++ [n])%list.
Proof.
  intros s d n H. destruct (rcut_slash_spec _ _ _ H) as [E N]. subst s.
  rewrite split_app_slash. rewrite (no_slash_split n N). reflexivity.
Qed.

Lemma rcut_rooted : forall r, exists d n, rcut_slash (String slash r) = Some (d, n).
Proof.
  intros r. simpl. destruct (rcut_slash r) as [[a b]|]; [exists (String slash a), b; reflexivity|].
  exists "", r. reflexivity.
Qed.

(* ---------- containment, parametrised by a set of forbidden segment names ---------- *)

Section Under.
  Variable bad : string -> bool.
  Hypothesis bad_dotdot : bad ".." = true.

  Definition okl (l : list string) : Prop := forall s, In s l -> bad s = false.

  Lemma okl_nodd : forall l, okl l -> nodd l.
  Proof. intros l H s Hs E. subst s. rewrite (H _ Hs) in bad_dotdot. discriminate. Qed.

  Lemma okl_app : forall a b, okl a -> okl b -> okl (a ++ b).
  Proof. intros a b Ha Hb s Hs. apply in_app_or in Hs. destruct Hs; [apply Ha | apply Hb]; assumption. Qed.

  Lemma okl_app_l : forall a b, okl (a ++ b) -> okl a.
  Proof. intros a b H s Hs. apply H. apply in_or_app. left. exact Hs. Qed.

  Lemma okl_app_r : forall a b, okl (a ++ b) -> okl b.
  Proof. intros a b H s Hs. apply H. apply in_or_app. right. exact Hs. Qed.

  Lemma okl_removelast : forall l, okl l -> okl (removelast l).
  Proof.
    intros l H s Hs. apply H. clear H. induction l as [|a l IH]; [destruct Hs|].
    simpl in Hs. destruct l as [|b l']; [destruct Hs|]. destruct Hs as [Hs|Hs]; [left; exact Hs | right; apply IH; exact Hs].
  Qed.

  (* the raw segments of P are  "", "buckets", b  followed by allowed segments *)
  Definition under (b P : string) : Prop :=
    exists C, split_slash P = ("" :: "buckets" :: b :: C)%list /\ okl C.

  Definition good (b : string) : Prop := bad_bucket b = false.

  Lemma good_spec : forall b, good b ->
    b <> "" /\ b <> "." /\ b <> ".." /\ no_slash b = true /\ no_pct b = true.
  Proof.
    intros b H. unfold good, bad_bucket in H.
    apply orb_false_iff in H. destruct H as [H H5].
    apply orb_false_iff in H. destruct H as [H H4].
    apply orb_false_iff in H. destruct H as [H H3].
    apply orb_false_iff in H. destruct H as [H1 H2].
    repeat split; try (apply str_eqb_false; assumption).
    - apply negb_false_iff. exact H4.
    - apply negb_false_iff. exact H5.
  Qed.

  Lemma split_bucket_dir : forall b, no_slash b = true -> split_slash (bucket_dir b) = ["" ; "buckets"; b].
  Proof.
    intros b H. unfold bucket_dir, buckets_path.
    change ("/buckets" ++ "/" ++ b) with ("/buckets" ++ String slash b).
    rewrite split_app_slash. rewrite (no_slash_split b H). reflexivity.
  Qed.

  Lemma under_bucket_dir : forall b, good b -> under b (bucket_dir b).
  Proof.
    intros b H. destruct (good_spec b H) as [_ [_ [_ [N _]]]].
    exists []. split; [apply split_bucket_dir; exact N | intros s []].
  Qed.

  Lemma under_app : forall b P r, under b P -> okl (split_slash r) -> under b (P ++ String slash r).
  Proof.
    intros b P r [C [E O]] Hr. exists (C ++ split_slash r)%list. split.
    - rewrite split_app_slash, E. reflexivity.
    - apply okl_app; assumption.
  Qed.

  Lemma under_rooted : forall b P, under b P -> starts_with_slash P = true.
  Proof. intros b P [C [E _]]. exact (split_head_rooted _ _ _ E). Qed.

  Lemma rsegs_under : forall b P, good b -> under b P ->
    exists C', rsegs P = ("buckets" :: b :: C')%list /\ okl C' /\ Forall clean_seg C'.
  Proof.
    intros b P G [C [E O]]. destruct (good_spec b G) as [B1 [B2 [B3 _]]].
    exists (filter keep C). unfold rsegs. rewrite E.
    change ("" :: "buckets" :: b :: C)%list with (["" ; "buckets"; b] ++ C)%list.
    rewrite norm_app_nodd by (apply okl_nodd; exact O).
    assert (Hb : norm_segs true ["" ; "buckets"; b] = ["buckets"; b]).
    { rewrite norm_nodd.
      - simpl. unfold keep at 1. simpl.
        unfold keep. destruct (b =? "") eqn:E1; [apply str_eqb_true in E1; contradiction|].
        destruct (b =? ".") eqn:E2; [apply str_eqb_true in E2; contradiction|]. reflexivity.
      - intros s [Hs|[Hs|[Hs|[]]]]; subst s; try discriminate. exact B3. }
    rewrite Hb. split; [reflexivity|]. split.
    - intros s Hs. apply filter_In in Hs. apply O. exact (proj1 Hs).
    - apply Forall_forall. intros s Hs. apply filter_In in Hs. destruct Hs as [Hs Hk].
      unfold keep in Hk. apply negb_true_iff in Hk. apply orb_false_iff in Hk. destruct Hk as [K1 K2].
      repeat split; try (apply str_eqb_false; assumption).
      apply (okl_nodd C O). exact Hs.
  Qed.

  Lemma clean_bucket_dir : forall b, good b -> clean (bucket_dir b) = bucket_dir b.
  Proof.
    intros b G. destruct (rsegs_under b (bucket_dir b) G (under_bucket_dir b G)) as [C' [E _]].
    assert (E2 : rsegs (bucket_dir b) = ["buckets"; b]).
    { destruct (good_spec b G) as [B1 [B2 [B3 [N _]]]].
      unfold rsegs. rewrite (split_bucket_dir b N). rewrite norm_nodd.
      - simpl. unfold keep. simpl.
        destruct (b =? "") eqn:E1; [apply str_eqb_true in E1; contradiction|].
        destruct (b =? ".") eqn:E3; [apply str_eqb_true in E3; contradiction|]. reflexivity.
      - intros s [Hs|[Hs|[Hs|[]]]]; subst s; try discriminate. exact B3. }
    rewrite clean_rooted by reflexivity. rewrite E2. reflexivity.
  Qed.

  Lemma under_contained : forall b P, good b -> under b P -> contained b P = true.
  Proof.
    intros b P G U. unfold contained. rewrite (clean_bucket_dir b G).
    rewrite (clean_rooted P (under_rooted b P U)).
    destruct (rsegs_under b P G U) as [C' [E _]]. rewrite E. unfold inside.
    destruct C' as [|c C''].
    - change ("/" ++ join_slash ["buckets"; b]) with (bucket_dir b). rewrite String.eqb_refl. reflexivity.
    - apply orb_true_iff. right.
      change ("/" ++ join_slash ("buckets" :: b :: c :: C''))
        with ("/buckets/" ++ (b ++ String slash (join_slash (c :: C'')))).
      unfold bucket_dir, buckets_path.
      change (("/buckets" ++ "/" ++ b) ++ "/") with ("/buckets/" ++ (b ++ "/")).
      change ("/buckets/" ++ (b ++ String slash (join_slash (c :: C''))))
        with ("/buckets/" ++ (b ++ ("/" ++ join_slash (c :: C'')))).
      rewrite <- (append_assoc b "/" (join_slash (c :: C''))).
      rewrite <- (append_assoc "/buckets/" (b ++ "/") (join_slash (c :: C''))).
      apply prefix_app.
  Qed.

  Lemma contained_clean : forall b X, starts_with_slash X = true -> contained b (clean X) = contained b X.
  Proof. intros b X H. unfold contained. rewrite clean_idem by exact H. reflexivity. Qed.

  Lemma contained_mux_clean : forall b X, starts_with_slash X = true -> contained b (mux_clean X) = contained b X.
  Proof. intros b X H. unfold contained. rewrite clean_mux_clean by exact H. reflexivity. Qed.

  Hypothesis bad_empty : bad "" = false.
  Hypothesis bad_buckets : bad "buckets" = false.
  Hypothesis bad_dot : bad "." = false.

  Definition cok (b : string) (c : fcall) : Prop :=
    match effective c with Some e => under b e \/ (exists X, under b X /\ (e = clean X \/ e = mux_clean X)) | None => True end.

  Lemma okl_one : forall s, bad s = false -> okl [s].
  Proof. intros s H x [E|[]]. subst x. exact H. Qed.

  Lemma okl_split_one : forall s, no_slash s = true -> bad s = false -> okl (split_slash s).
  Proof. intros s N H. rewrite (no_slash_split s N). apply okl_one. exact H. Qed.

  (* ----- HTTP ----- *)
  Lemma http_calls_cok : forall b m p, under b p -> Forall (cok b) (http_calls m p).
  Proof.
    intros b m p U. unfold http_calls. destruct (canonical p) eqn:E.
    - constructor; [|constructor]. unfold cok. simpl. rewrite E. left. exact U.
    - constructor; [unfold cok; simpl; rewrite E; exact I|].
      constructor; [|constructor]. unfold cok. simpl.
      destruct (canonical (mux_clean p)); [|exact I].
      right. exists p. split; [exact U | right; reflexivity].
  Qed.

  (* ----- gRPC lookups / deletes: util.JoinPath ----- *)
  Lemma norm_cons_empty : forall r X, norm_segs r ("" :: X) = norm_segs r X.
  Proof. intros r X. unfold norm_segs. simpl. reflexivity. Qed.

  Lemma join_dn_clean : forall P, starts_with_slash P = true ->
    join_path (fst (dir_and_name P)) (snd (dir_and_name P)) = clean P.
  Proof.
    intros P H. destruct (starts_with_slash_spec _ H) as [r E]. subst P.
    destruct (rcut_rooted r) as [d0 [n R]]. unfold dir_and_name. rewrite R.
    destruct (rcut_slash_spec _ _ _ R) as [E N].
    destruct (d0 =? "") eqn:Ed.
    - apply str_eqb_true in Ed. subst d0. simpl in E. inversion E; subst r. simpl fst. simpl snd.
      unfold join_path. destruct (n =? "") eqn:En.
      + apply str_eqb_true in En. subst n. reflexivity.
      + change ("/" =? "") with false. cbv iota.
        rewrite (clean_rooted ("/" ++ "/" ++ n)) by reflexivity.
        rewrite (clean_rooted (String slash n)) by reflexivity.
        assert (R2 : rsegs ("/" ++ "/" ++ n) = rsegs (String slash n)); [|rewrite R2; reflexivity].
        unfold rsegs.
        change ("/" ++ "/" ++ n) with ("" ++ String slash (String slash n)).
        rewrite split_app_slash.
        change (split_slash "" ++ split_slash (String slash n))%list with ("" :: split_slash (String slash n)).
        apply norm_cons_empty.
    - simpl fst. simpl snd. unfold join_path. rewrite Ed.
      assert (Hd : starts_with_slash d0 = true).
      { destruct d0 as [|c d0']; [discriminate|]. simpl in E. inversion E. reflexivity. }
      destruct (n =? "") eqn:En.
      + apply str_eqb_true in En. subst n. rewrite E.
        change (d0 ++ String slash "") with (d0 ++ "/"). symmetry. apply clean_trailing_slash. exact Hd.
      + rewrite E. reflexivity.
  Qed.

  Lemma join_path_cok_form : forall b D n, under b D -> okl (split_slash n) ->
    exists X, under b X /\ join_path D n = clean X.
  Proof.
    intros b D n U O. unfold join_path. destruct (n =? "") eqn:En.
    - exists D. split; [exact U | reflexivity].
    - destruct (D =? "") eqn:Ed.
      + apply str_eqb_true in Ed. subst D. destruct U as [C [E _]]. discriminate.
      + exists (D ++ String slash n). split; [apply under_app; assumption | reflexivity].
  Qed.

  Lemma lookup_cok : forall b D n, under b D -> okl (split_slash n) -> cok b (GLookup D n).
  Proof.
    intros b D n U O. unfold cok. simpl. right.
    destruct (join_path_cok_form b D n U O) as [X [UX E]]. exists X. split; [exact UX | left; exact E].
  Qed.

  Lemma delete_cok : forall b D n r, under b D -> okl (split_slash n) -> cok b (GDelete D n r).
  Proof.
    intros b D n r U O. unfold cok. simpl. right.
    destruct (join_path_cok_form b D n U O) as [X [UX E]]. exists X. split; [exact UX | left; exact E].
  Qed.

  (* DirAndName of a path with at least one segment behind the bucket *)
  Lemma dn_under : forall b P C, split_slash P = ("" :: "buckets" :: b :: C)%list -> C <> [] -> okl C ->
    under b (fst (dir_and_name P)) /\ okl [snd (dir_and_name P)] /\
    P = fst (dir_and_name P) ++ String slash (snd (dir_and_name P)).
  Proof.
    intros b P C E NE O.
    assert (HP : starts_with_slash P = true) by exact (split_head_rooted _ _ _ E).
    destruct (starts_with_slash_spec _ HP) as [r Er]. subst P.
    destruct (rcut_rooted r) as [d0 [n R]]. unfold dir_and_name. rewrite R.
    pose proof (rcut_split _ _ _ R) as S. rewrite E in S.
    destruct (rcut_slash_spec _ _ _ R) as [E2 N].
    assert (Hd : split_slash d0 = ("" :: "buckets" :: b :: removelast C)%list /\ n = last C "").
    { change ("" :: "buckets" :: b :: C)%list with (["" ; "buckets"; b] ++ C)%list in S.
      rewrite (app_removelast_last "" NE) in S. rewrite app_assoc in S.
      apply app_inj_tail in S. destruct S as [S1 S2]. split; [symmetry; exact S1 | symmetry; exact S2]. }
    destruct Hd as [Hd Hn].
    destruct (d0 =? "") eqn:Ed.
    - apply str_eqb_true in Ed. subst d0. discriminate.
    - simpl fst. simpl snd. split; [|split].
      + exists (removelast C). split; [exact Hd | apply okl_removelast; exact O].
      + apply okl_one. apply O. rewrite Hn. clear - NE. induction C as [|a C IH]; [contradiction|].
        destruct C as [|a2 C']; [left; reflexivity | right; apply IH; discriminate].
      + exact E2.
  Qed.

  Lemma opath_split : forall b k, good b ->
    split_slash (bucket_dir b ++ String slash k) = ("" :: "buckets" :: b :: split_slash k)%list.
  Proof.
    intros b k G. destruct (good_spec b G) as [_ [_ [_ [N _]]]].
    rewrite split_app_slash. rewrite (split_bucket_dir b N). reflexivity.
  Qed.

  (* the Name of the entry found at a cleaned path *)
  Lemma entry_name_ok : forall b X, good b -> bad b = false -> under b X ->
    okl (split_slash (entry_name (clean X))) .
  Proof.
    intros b X G Bb U.
    destruct (rsegs_under b X G U) as [C' [E [O F]]].
    rewrite (clean_rooted X (under_rooted b X U)). rewrite E.
    assert (S : split_slash ("/" ++ join_slash ("buckets" :: b :: C')) = ("" :: "buckets" :: b :: C')%list).
    { change ("/" ++ join_slash ("buckets" :: b :: C')) with ("" ++ String slash (join_slash ("buckets" :: b :: C'))).
      rewrite split_app_slash. rewrite split_join; [reflexivity | discriminate |].
      pose proof (rsegs_no_slash X) as NS. rewrite E in NS. exact NS. }
    unfold entry_name.
    destruct (rcut_rooted (join_slash ("buckets" :: b :: C'))) as [d0 [n R]].
    change ("/" ++ join_slash ("buckets" :: b :: C')) with (String slash (join_slash ("buckets" :: b :: C'))).
    rewrite R. destruct (rcut_slash_spec _ _ _ R) as [_ N].
    pose proof (rcut_split _ _ _ R) as S2.
    change (String slash (join_slash ("buckets" :: b :: C'))) with ("/" ++ join_slash ("buckets" :: b :: C')) in S2.
    rewrite S in S2.
    apply okl_split_one; [exact N|].
    assert (In n ("" :: "buckets" :: b :: C')%list) by (rewrite S2; apply in_or_app; right; left; reflexivity).
    destruct H as [H|[H|[H|H]]]; try (subst n; assumption). apply O. exact H.
  Qed.

  (* ----- percent decoding ----- *)
  Lemma pct_decode_nopct : forall a s, no_pct a = true ->
    pct_decode (a ++ s) = match pct_decode s with Some t => Some (a ++ t) | None => None end.
  Proof.
    induction a as [|c a IH]; intros s H; simpl.
    - destruct (pct_decode s); reflexivity.
    - simpl in H. apply andb_true_iff in H. destruct H as [Hc Ha]. apply negb_true_iff in Hc.
      rewrite Hc. rewrite (IH s Ha). destruct (pct_decode s); reflexivity.
  Qed.

  Lemma pct_decode_slash : forall s,
    pct_decode (String slash s) = match pct_decode s with Some t => Some (String slash t) | None => None end.
  Proof. intros s. reflexivity. Qed.

  Lemma no_pct_app : forall a b, no_pct a = true -> no_pct b = true -> no_pct (a ++ b) = true.
  Proof. induction a as [|c a IH]; intros b Ha Hb; simpl; [exact Hb|]. simpl in Ha. apply andb_true_iff in Ha. destruct Ha as [H1 H2]. rewrite H1. simpl. apply IH; assumption. Qed.

  Lemma no_pct_bucket_dir : forall b, no_pct b = true -> no_pct (bucket_dir b) = true.
  Proof. intros b H. unfold bucket_dir, buckets_path. apply no_pct_app; [reflexivity|]. apply no_pct_app; [reflexivity | exact H]. Qed.

  (* decoding a path  <bucket dir><tail starting with "/">  keeps the bucket directory *)
  Lemma decode_under : forall b pre tail r, good b -> under b pre -> no_pct pre = true ->
    pct_decode (pre ++ String slash tail) = Some r -> okl (split_slash r) -> under b r.
  Proof.
    intros b pre tail r G U NP D O.
    rewrite (pct_decode_nopct pre _ NP) in D. rewrite pct_decode_slash in D.
    destruct (pct_decode tail) as [t|]; [|discriminate]. inversion D; subst r.
    apply under_app; [exact U|]. rewrite split_app_slash in O. exact (okl_app_r _ _ O).
  Qed.

  (* ----- object routes ----- *)
  Lemma norm_object_form : forall o, okl (split_slash o) ->
    exists k, norm_object o = String slash k /\ okl (split_slash k).
  Proof.
    intros o O. unfold norm_object. destruct (starts_with_slash o) eqn:E.
    - destruct (starts_with_slash_spec _ E) as [r Er]. subst o. exists r. split; [reflexivity|].
      change (String slash r) with ("" ++ String slash r) in O. rewrite split_app_slash in O. exact (okl_app_r _ _ O).
    - exists o. split; [reflexivity | exact O].
  Qed.

  Lemma under_opath : forall b k, good b -> okl (split_slash k) -> under b (bucket_dir b ++ String slash k).
  Proof. intros b k G O. apply under_app; [apply under_bucket_dir; exact G | exact O]. Qed.

  (* GLookup + the UpdateEntry that follows it, for the DirAndName of an object path *)
  Lemma dn_lookup_update_cok : forall fx b k, good b -> bad b = false -> okl (split_slash k) ->
    let P := bucket_dir b ++ String slash k in
    Forall (cok b) (GLookup (fst (dir_and_name P)) (snd (dir_and_name P)) ::
                    update_after_lookup fx (fst (dir_and_name P)) (snd (dir_and_name P))).
  Proof.
    intros fx b k G Bb O P.
    pose proof (opath_split b k G) as S.
    destruct (dn_under b P (split_slash k) S (split_nonempty k) O) as [Ud [On EP]].
    assert (Hn : okl (split_slash (snd (dir_and_name P)))).
    { assert (N : no_slash (snd (dir_and_name P)) = true).
      { unfold dir_and_name. destruct (rcut_slash P) as [[d0 n]|] eqn:R; [|reflexivity].
        destruct (rcut_slash_spec _ _ _ R) as [_ N]. destruct (d0 =? ""); exact N. }
      rewrite (no_slash_split _ N). exact On. }
    constructor; [apply lookup_cok; assumption|].
    unfold update_after_lookup. destruct (exists_at fx _); [|constructor].
    constructor; [|constructor]. unfold cok. simpl. left.
    apply under_app; [exact Ud|].
    rewrite (join_dn_clean P (under_rooted b P (under_opath b k G O))).
    apply (entry_name_ok b); [exact G | exact Bb | apply under_opath; assumption].
  Qed.

  Lemma batch_cok : forall b key, good b -> okl (split_slash key) ->
    cok b (let '(d, n) := batch_dir_name b key in GDelete d n false).
  Proof.
    intros b key G O. unfold batch_dir_name.
    destruct (rcut_slash key) as [[d n]|] eqn:R.
    - destruct (negb (d =? "") && negb (n =? "")).
      + pose proof (rcut_split _ _ _ R) as S. rewrite S in O.
        apply delete_cok.
        * apply under_opath; [exact G | exact (okl_app_l _ _ O)].
        * destruct (rcut_slash_spec _ _ _ R) as [_ N]. rewrite (no_slash_split n N). exact (okl_app_r _ _ O).
      + apply delete_cok; [apply under_bucket_dir; exact G | exact O].
    - apply delete_cok; [apply under_bucket_dir; exact G | exact O].
  Qed.

  Lemma batch_dir_under : forall b key, good b -> okl (split_slash key) -> under b (fst (batch_dir_name b key)).
  Proof.
    intros b key G O. unfold batch_dir_name.
    destruct (rcut_slash key) as [[d n]|] eqn:R; [|apply under_bucket_dir; exact G].
    destruct (negb (d =? "") && negb (n =? "")); [|apply under_bucket_dir; exact G].
    pose proof (rcut_split _ _ _ R) as S. rewrite S in O. simpl fst.
    apply under_opath; [exact G | exact (okl_app_l _ _ O)].
  Qed.

  (* doDeleteEmptyDirectories never leaves the bucket directory *)
  Lemma purge_chain_cok : forall b fuel dir, good b -> under b dir -> Forall (cok b) (purge_chain fuel dir).
  Proof.
    intros b fuel. induction fuel as [|f IH]; intros dir G U; simpl; [constructor|].
    destruct U as [C [E O]].
    destruct (dir_and_name dir) as [parent name] eqn:DN.
    destruct (parent =? buckets_path) eqn:EP; [constructor|].
    assert (NE : C <> []).
    { intros HC. subst C. apply str_eqb_false in EP. apply EP.
      assert (HP : starts_with_slash dir = true) by exact (split_head_rooted _ _ _ E).
      destruct (starts_with_slash_spec _ HP) as [r Er]. subst dir.
      destruct (rcut_rooted r) as [d0 [n R]]. unfold dir_and_name in DN. rewrite R in DN.
      pose proof (rcut_split _ _ _ R) as S. rewrite E in S.
      change ["" ; "buckets"; b] with (["" ; "buckets"] ++ [b])%list in S. apply app_inj_tail in S. destruct S as [S1 S2].
      assert (d0 = "/buckets") by (apply split_inj; rewrite <- S1; reflexivity). subst d0.
      simpl in DN. inversion DN. reflexivity. }
    destruct (dn_under b dir C E NE O) as [Ud [On EP2]]. rewrite DN in Ud, On, EP2. simpl in Ud, On, EP2.
    constructor.
    - apply delete_cok; [exact Ud|].
      assert (N : no_slash name = true).
      { unfold dir_and_name in DN. destruct (rcut_slash dir) as [[d0 n]|] eqn:R.
        - destruct (rcut_slash_spec _ _ _ R) as [_ N]. destruct (d0 =? ""); inversion DN; subst; exact N.
        - inversion DN. reflexivity. }
      rewrite (no_slash_split _ N). exact On.
    - apply IH; assumption.
  Qed.

  Lemma purge_candidates_cok : forall b keys, good b -> (forall k, In k keys -> okl (split_slash k)) ->
    Forall (cok b) (purge_candidates b keys).
  Proof.
    intros b keys G H. unfold purge_candidates. apply Forall_forall. intros c Hc.
    apply in_flat_map in Hc. destruct Hc as [k [Hk Hc]].
    pose proof (purge_chain_cok b (S (List.length (split_slash (fst (batch_dir_name b k))))) (fst (batch_dir_name b k)) G
                 (batch_dir_under b k G (H k Hk))) as F.
    rewrite Forall_forall in F. apply F. exact Hc.
  Qed.

  Lemma within_forall : forall b l, Forall (cok b) l -> Forall (fun cc => cok (fst cc) (snd cc)) (within b l).
  Proof. intros b l H. unfold within. apply Forall_forall. intros cc Hc. apply in_map_iff in Hc. destruct Hc as [c [E Hc]]. subst cc. simpl. rewrite Forall_forall in H. apply H. exact Hc. Qed.

  Definition cokc (cc : ccall) : Prop := cok (fst cc) (snd cc).

  Lemma src_object_form : forall s, exists o, snd (src_bucket_object s) = String slash o.
  Proof.
    intros s. unfold src_bucket_object. destruct (cut_slash (trim_leading_slash s)) as [[b0 o]|].
    - exists o. reflexivity.
    - exists "". reflexivity.
  Qed.

  Definition obj_hyp (q : req) : Prop :=
    okl (split_slash (q_object q)) /\
    okl (split_slash (dec1 (bucket_dir (q_bucket q) ++ norm_object (q_object q)))) /\
    (q_src q <> "" -> good (src_bucket q) /\ okl (split_slash (dec1 (src_path q)))) /\
    (forall k, In k (q_keys q) -> okl (split_slash k)).

  (* the source side of the copy handlers *)
  Lemma copy_src_cok : forall q sp,
    (q_src q <> "" -> good (src_bucket q) /\ okl (split_slash (dec1 (src_path q)))) ->
    (src_bucket q =? "") = false ->
    pct_decode (src_path q) = Some sp ->
    Forall cokc (within (src_bucket q) (http_calls MGet sp)).
  Proof.
    intros q sp HS NB D.
    assert (NS : q_src q <> "").
    { intros E. unfold src_bucket in NB. rewrite E in NB. discriminate. }
    destruct (HS NS) as [G O].
    apply within_forall. apply http_calls_cok.
    unfold dec1 in O. rewrite D in O.
    unfold src_path in D. unfold src_bucket in G.
    destruct (src_object_form (dec1 (q_src q))) as [o Eo].
    destruct (src_bucket_object (dec1 (q_src q))) as [sb so] eqn:ES. simpl in Eo, G. subst so.
    unfold src_bucket. rewrite ES. simpl fst.
    destruct (good_spec sb G) as [_ [_ [_ [_ NP]]]].
    exact (decode_under sb (bucket_dir sb) o sp G (under_bucket_dir sb G) (no_pct_bucket_dir sb NP) D O).
  Qed.

  Lemma dst_decode_cok : forall b k dp, good b ->
    okl (split_slash (dec1 (bucket_dir b ++ String slash k))) ->
    pct_decode (bucket_dir b ++ String slash k) = Some dp ->
    Forall cokc (within b (http_calls MPut dp)).
  Proof.
    intros b k dp G O D. apply within_forall. apply http_calls_cok.
    unfold dec1 in O. rewrite D in O.
    destruct (good_spec b G) as [_ [_ [_ [_ NP]]]].
    exact (decode_under b (bucket_dir b) k dp G (under_bucket_dir b G) (no_pct_bucket_dir b NP) D O).
  Qed.

  Lemma gcreate_mkdir_eq : forall b k, buckets_path ++ "/" ++ (b ++ String slash k) = bucket_dir b ++ String slash k.
  Proof.
    intros b k. unfold bucket_dir, buckets_path.
    rewrite (append_assoc "/buckets" ("/" ++ b) (String slash k)). reflexivity.
  Qed.

  Lemma calls_object_cok : forall fx q, good (q_bucket q) -> bad (q_bucket q) = false ->
    object_route (q_route q) = true -> obj_hyp q -> Forall cokc (calls fx q).
  Proof.
    intros fx q G Bb OR [HO [HOD [HS HK]]].
    destruct (norm_object_form (q_object q) HO) as [k [Ek Ok]].
    pose proof (under_opath (q_bucket q) k G Ok) as UO.
    pose proof (dn_lookup_update_cok fx (q_bucket q) k G Bb Ok) as DLU. cbv zeta in DLU.
    unfold calls. rewrite Ek in *.
    destruct (q_route q) eqn:ER; try discriminate OR.
    - (* RPut *)
      destruct (ends_with_slash (String slash k)).
      + apply within_forall. constructor; [|constructor]. unfold cok, effective. left.
        rewrite gcreate_mkdir_eq. exact UO.
      + apply within_forall. apply http_calls_cok. exact UO.
    - (* RGet *)
      destruct (ends_with_slash (String slash k)); [constructor|].
      apply within_forall. apply http_calls_cok. exact UO.
    - apply within_forall. apply http_calls_cok. exact UO.
    - apply within_forall. apply http_calls_cok. exact UO.
    - (* RBatchDelete *)
      apply within_forall. apply Forall_forall. intros c Hc. apply in_map_iff in Hc.
      destruct Hc as [key [E Hk]]. subst c. apply batch_cok; [exact G | apply HK; exact Hk].
    - (* RCopy *)
      fold (src_bucket q).
      destruct (src_bucket_object (match pct_decode (q_src q) with Some s => s | None => q_src q end)) as [sb so] eqn:ES.
      assert (Esb : src_bucket q = sb) by (unfold src_bucket, dec1; rewrite ES; reflexivity).
      assert (Esp : src_path q = bucket_dir sb ++ so) by (unfold src_path, dec1; rewrite ES; reflexivity).
      match goal with |- Forall cokc (if ?c then _ else _) => destruct c end.
      + destruct (dir_and_name (bucket_dir (q_bucket q) ++ String slash k)) as [d n] eqn:DN.
        apply within_forall. simpl in DLU. exact DLU.
      + destruct (sb =? "") eqn:E1; [constructor|].
        match goal with |- Forall cokc (if ?c then _ else _) => destruct c end; [constructor|].
        destruct (pct_decode (bucket_dir sb ++ so)) as [sp|] eqn:D1; [|constructor].
        apply Forall_app. split.
        * rewrite <- Esb. apply (copy_src_cok q sp HS); [rewrite Esb; exact E1 | rewrite Esp; exact D1].
        * destruct (pct_decode (bucket_dir (q_bucket q) ++ String slash k)) as [dp|] eqn:D2; [|constructor].
          exact (dst_decode_cok (q_bucket q) k dp G HOD D2).
    - (* RGetTag *)
      destruct (dir_and_name (bucket_dir (q_bucket q) ++ String slash k)) as [d n] eqn:DN.
      apply within_forall. simpl in DLU. inversion DLU; subst. constructor; [assumption | constructor].
    - (* RPutTag *)
      destruct (dir_and_name (bucket_dir (q_bucket q) ++ String slash k)) as [d n] eqn:DN.
      apply within_forall. simpl in DLU. exact DLU.
    - (* RDelTag *)
      destruct (dir_and_name (bucket_dir (q_bucket q) ++ String slash k)) as [d n] eqn:DN.
      apply within_forall. simpl in DLU. inversion DLU; subst. constructor; [assumption | constructor].
  Qed.

  (* ----- multipart routes ----- *)
  Lemma strip_one_spec : forall s, ends_with_slash s = true -> s = strip_one_trailing_slash s ++ "/".
  Proof.
    induction s as [|c r IH]; intros H; [discriminate|].
    destruct r as [|c2 r2].
    - simpl in H. apply ascii_eqb_true in H. subst c. reflexivity.
    - change (ends_with_slash (String c (String c2 r2))) with (ends_with_slash (String c2 r2)) in H.
      change (String c (String c2 r2) = String c (strip_one_trailing_slash (String c2 r2) ++ "/")).
      rewrite <- (IH H). reflexivity.
  Qed.

  Lemma last_nonempty_in : forall l s, last_nonempty l = Some s -> In s l.
  Proof.
    intros l s H. unfold last_nonempty in H.
    assert (K : forall l acc, fold_left (fun acc s => if s =? "" then acc else Some s) l acc = Some s -> In s l \/ acc = Some s).
    { induction l0 as [|x l0 IH]; intros acc Hf; simpl in Hf; [right; exact Hf|].
      destruct (IH _ Hf) as [K|K]; [left; right; exact K|].
      destruct (x =? ""); [right; exact K | inversion K; left; left; reflexivity]. }
    destruct (K l None H) as [K1|K1]; [exact K1 | discriminate].
  Qed.

  Lemma okl_trim : forall s, okl (split_slash s) -> okl (split_slash (trim_leading_slash s)).
  Proof.
    intros s O. destruct s as [|c r]; [exact O|]. simpl. destruct (Ascii.eqb c slash) eqn:E; [|exact O].
    apply ascii_eqb_true in E. subst c.
    change (String slash r) with ("" ++ String slash r) in O. rewrite split_app_slash in O. exact (okl_app_r _ _ O).
  Qed.

  Lemma okl_split_join : forall L, okl L -> Forall (fun s => no_slash s = true) L -> okl (split_slash (join_slash L)).
  Proof.
    intros L O N. destruct L as [|a L'].
    - simpl. apply okl_one. exact bad_empty.
    - rewrite split_join; [exact O | discriminate | exact N].
  Qed.

  Lemma filter_keep_props : forall S, okl S -> Forall (fun s => no_slash s = true) S ->
    okl (filter keep S) /\ Forall (fun s => no_slash s = true) (filter keep S).
  Proof.
    intros S O N. split.
    - intros s Hs. apply filter_In in Hs. apply O. exact (proj1 Hs).
    - apply Forall_forall. intros s Hs. apply filter_In in Hs. rewrite Forall_forall in N. apply N. exact (proj1 Hs).
  Qed.

  Lemma okl_clean_any : forall x, okl (split_slash x) -> okl (split_slash (clean x)).
  Proof.
    intros x O.
    assert (N : Forall (fun s => no_slash s = true) (split_slash x)) by (apply Forall_forall; intros s Hs; exact (split_segs_no_slash _ _ Hs)).
    destruct (filter_keep_props _ O N) as [OL NL].
    unfold clean. destruct (starts_with_slash x).
    - rewrite norm_nodd by (apply okl_nodd; exact O).
      change ("/" ++ join_slash (filter keep (split_slash x))) with ("" ++ String slash (join_slash (filter keep (split_slash x)))).
      rewrite split_app_slash. apply okl_app; [apply okl_one; exact bad_empty | apply okl_split_join; assumption].
    - rewrite norm_nodd by (apply okl_nodd; exact O).
      destruct (filter keep (split_slash x)) as [|a L'] eqn:EL.
      + apply okl_one. exact bad_dot.
      + rewrite <- EL. apply okl_split_join; rewrite EL; assumption.
  Qed.

  Lemma complete_under : forall b key, good b -> okl (split_slash key) ->
    under b (fst (complete_dir_name b key) ++ String slash (snd (complete_dir_name b key))).
  Proof.
    intros b key G O. unfold complete_dir_name. cbv zeta. cbn [fst snd].
    (* the entry name *)
    assert (OE : okl (split_slash (path_base key))).
    { unfold path_base. destruct (key =? ""); [apply okl_one; exact bad_dot|].
      destruct (last_nonempty (split_slash key)) as [s|] eqn:EL.
      - pose proof (last_nonempty_in _ _ EL) as Hin.
        rewrite (no_slash_split s (split_segs_no_slash _ _ Hin)). apply okl_one. apply O. exact Hin.
      - simpl. intros s [E|[E|[]]]; subst s; exact bad_empty. }
    (* the directory part *)
    assert (OD : okl (split_slash (path_dir key))).
    { unfold path_dir. destruct (rcut_slash key) as [[d0 n]|] eqn:R; [|apply okl_one; exact bad_dot].
      apply okl_clean_any. change (d0 ++ "/") with (d0 ++ String slash "").
      rewrite split_app_slash. pose proof (rcut_split _ _ _ R) as S. rewrite S in O.
      apply okl_app; [exact (okl_app_l _ _ O) | apply okl_one; exact bad_empty]. }
    set (dd := trim_leading_slash (if path_dir key =? "." then "" else path_dir key)).
    assert (ODD : okl (split_slash dd)).
    { unfold dd. apply okl_trim. destruct (path_dir key =? "."); [apply okl_one; exact bad_empty | exact OD]. }
    assert (UX : under b (bucket_dir b ++ "/" ++ dd)) by (apply under_opath; assumption).
    apply under_app; [|exact OE].
    destruct (ends_with_slash (bucket_dir b ++ "/" ++ dd)) eqn:EE; [|exact UX].
    pose proof (strip_one_spec _ EE) as SS.
    destruct UX as [C [E OC]].
    assert (E' := E). change (bucket_dir b ++ "/" ++ dd) with (bucket_dir b ++ String slash dd) in E'.
    rewrite (opath_split b dd G) in E'. inversion E'; subst C.
    rewrite SS in E. change (strip_one_trailing_slash (bucket_dir b ++ "/" ++ dd) ++ "/")
      with (strip_one_trailing_slash (bucket_dir b ++ "/" ++ dd) ++ String slash "") in E.
    rewrite split_app_slash in E. simpl (split_slash "") in E.
    change ("" :: "buckets" :: b :: split_slash dd)%list with (["" ; "buckets"; b] ++ split_slash dd)%list in E.
    rewrite (app_removelast_last "" (split_nonempty dd)) in E. rewrite app_assoc in E.
    apply app_inj_tail in E. destruct E as [E1 _].
    exists (removelast (split_slash dd)). split; [exact E1 | apply okl_removelast; exact ODD].
  Qed.

  Definition mp_hyp (q : req) : Prop :=
    okl (split_slash (q_upload q)) /\
    okl (split_slash (dec1 (uploads_dir (q_bucket q) ++ "/" ++ q_upload q ++ "/" ++ q_part q))).

  Hypothesis bad_dotuploads : bad ".uploads" = false.
  Hypothesis bad_uuid : bad "UUID" = false.

  Lemma under_uploads : forall b, good b -> under b (uploads_dir b).
  Proof.
    intros b G. unfold uploads_dir. change (bucket_dir b ++ "/.uploads") with (bucket_dir b ++ String slash ".uploads").
    apply under_opath; [exact G | apply okl_one; exact bad_dotuploads].
  Qed.

  Lemma no_pct_uploads : forall b, no_pct b = true -> no_pct (uploads_dir b) = true.
  Proof. intros b H. unfold uploads_dir. apply no_pct_app; [apply no_pct_bucket_dir; exact H | reflexivity]. Qed.

  Lemma part_path_cok : forall b u p dp, good b ->
    okl (split_slash (dec1 (uploads_dir b ++ "/" ++ u ++ "/" ++ p))) ->
    pct_decode (uploads_dir b ++ "/" ++ u ++ "/" ++ p) = Some dp ->
    Forall (cok b) (http_calls MPut dp).
  Proof.
    intros b u p dp G O D. apply http_calls_cok.
    unfold dec1 in O. rewrite D in O.
    destruct (good_spec b G) as [_ [_ [_ [_ NP]]]].
    exact (decode_under b (uploads_dir b) (u ++ "/" ++ p) dp G (under_uploads b G) (no_pct_uploads b NP) D O).
  Qed.

  Lemma calls_multipart_cok : forall fx q, good (q_bucket q) -> bad (q_bucket q) = false ->
    object_route (q_route q) = false -> obj_hyp q -> mp_hyp q -> Forall cokc (calls fx q).
  Proof.
    intros fx q G Bb OR [HO [HOD [HS HK]]] [HU HUD].
    destruct (norm_object_form (q_object q) HO) as [k [Ek Ok]].
    pose proof (under_uploads (q_bucket q) G) as UU.
    unfold calls. rewrite Ek in *.
    destruct (q_route q) eqn:ER; try discriminate OR.
    - (* RCopyPart *)
      fold (src_bucket q).
      destruct (src_bucket_object (match pct_decode (q_src q) with Some s => s | None => q_src q end)) as [sb so] eqn:ES.
      assert (Esb : src_bucket q = sb) by (unfold src_bucket, dec1; rewrite ES; reflexivity).
      assert (Esp : src_path q = bucket_dir sb ++ so) by (unfold src_path, dec1; rewrite ES; reflexivity).
      destruct (sb =? "") eqn:E1; [constructor|].
      destruct (pct_decode (bucket_dir sb ++ so)) as [sp|] eqn:D1; [|constructor].
      apply Forall_app. split.
      + rewrite <- Esb. apply (copy_src_cok q sp HS); [rewrite Esb; exact E1 | rewrite Esp; exact D1].
      + destruct (http_get_ok fx sp); [|constructor].
        destruct (pct_decode (uploads_dir (q_bucket q) ++ "/" ++ q_upload q ++ "/" ++ q_part q)) as [dp|] eqn:D2; [|constructor].
        apply within_forall. exact (part_path_cok _ _ _ dp G HUD D2).
    - (* RNewUpload *)
      apply within_forall. constructor; [|constructor]. unfold cok, effective. left.
      apply under_app; [exact UU | apply okl_one; exact bad_uuid].
    - (* RPutPart *)
      apply within_forall. constructor; [apply lookup_cok; assumption|].
      destruct (is_dir_at fx _); [|constructor].
      destruct (pct_decode (uploads_dir (q_bucket q) ++ "/" ++ q_upload q ++ "/" ++ q_part q)) as [dp|] eqn:D2; [|constructor].
      exact (part_path_cok _ _ _ dp G HUD D2).
    - (* RComplete *)
      apply within_forall.
      assert (UD : under (q_bucket q) (uploads_dir (q_bucket q) ++ "/" ++ q_upload q)) by (apply under_app; assumption).
      constructor; [unfold cok, effective; left; exact UD|].
      destruct (fx_has_children fx _); [|constructor].
      destruct (dir_and_name (uploads_dir (q_bucket q) ++ "/" ++ q_upload q)) as [ld ln] eqn:DN.
      assert (SU : split_slash (uploads_dir (q_bucket q) ++ "/" ++ q_upload q) =
                   ("" :: "buckets" :: q_bucket q :: (".uploads" :: split_slash (q_upload q)))%list).
      { change (uploads_dir (q_bucket q) ++ "/" ++ q_upload q) with (uploads_dir (q_bucket q) ++ String slash (q_upload q)).
        rewrite split_app_slash. unfold uploads_dir.
        change (bucket_dir (q_bucket q) ++ "/.uploads") with (bucket_dir (q_bucket q) ++ String slash ".uploads").
        rewrite (opath_split (q_bucket q) ".uploads" G). reflexivity. }
      assert (OC : okl (".uploads" :: split_slash (q_upload q))).
      { intros s [E|Hs]; [subst s; exact bad_dotuploads | apply HU; exact Hs]. }
      destruct (dn_under (q_bucket q) _ _ SU ltac:(discriminate) OC) as [Ud [On _]].
      rewrite DN in Ud, On. simpl in Ud, On.
      assert (Nn : no_slash ln = true).
      { unfold dir_and_name in DN. destruct (rcut_slash (uploads_dir (q_bucket q) ++ "/" ++ q_upload q)) as [[d0 n]|] eqn:R.
        - destruct (rcut_slash_spec _ _ _ R) as [_ N]. destruct (d0 =? ""); inversion DN; subst; exact N.
        - inversion DN. reflexivity. }
      constructor; [apply lookup_cok; [exact Ud | rewrite (no_slash_split _ Nn); exact On]|].
      destruct (exists_at fx _); [|constructor].
      destruct (complete_dir_name (q_bucket q) (trim_leading_slash (String slash k))) as [d n] eqn:CD.
      pose proof (complete_under (q_bucket q) (trim_leading_slash (String slash k)) G) as CU.
      rewrite CD in CU. simpl in CU.
      constructor; [unfold cok, effective; left; apply CU; change (trim_leading_slash (String slash k)) with k; exact Ok|].
      destruct (create_file_ok fx d n); [|constructor].
      constructor; [apply delete_cok; assumption | constructor].
    - (* RAbort *)
      apply within_forall. constructor; [apply lookup_cok; assumption|].
      destruct (is_dir_at fx _); [|constructor].
      constructor; [apply delete_cok; assumption | constructor].
    - (* RListParts *)
      apply within_forall. constructor; [|constructor]. unfold cok, effective. left.
      apply under_app; assumption.
  Qed.
End Under.

(* ---------- instance 1: ".." is the only forbidden segment: containment ---------- *)

Definition bad_dd (s : string) : bool := s =? "..".

Lemma has_seg_okl : forall x s, has_seg x s = false -> forall y, In y (split_slash s) -> (y =? x) = false.
Proof.
  intros x s H y Hy. unfold has_seg in H.
  destruct (y =? x) eqn:E; [|reflexivity]. apply str_eqb_true in E. subst y.
  assert (existsb (String.eqb x) (split_slash s) = true).
  { apply existsb_exists. exists x. split; [exact Hy | apply String.eqb_refl]. }
  rewrite H in H0. discriminate.
Qed.

Lemma okl_dd_of : forall s, has_dotdot s = false -> okl bad_dd (split_slash s).
Proof. intros s H y Hy. unfold bad_dd. exact (has_seg_okl ".." s H y Hy). Qed.

Lemma existsb_app_false : forall A (f : A -> bool) l1 l2, existsb f (l1 ++ l2) = false -> existsb f l1 = false /\ existsb f l2 = false.
Proof. intros A f l1 l2 H. rewrite existsb_app in H. apply orb_false_iff in H. exact H. Qed.

Lemma existsb_false_in : forall A (f : A -> bool) l x, existsb f l = false -> In x l -> f x = false.
Proof.
  intros A f l x H Hx. destruct (f x) eqn:E; [|reflexivity].
  assert (existsb f l = true) by (apply existsb_exists; exists x; split; assumption). rewrite H in H0. discriminate.
Qed.

Lemma good_of_bad_bucket : forall b, bad_bucket b = false -> good b.
Proof. intros b H. exact H. Qed.

Lemma hyps_of_trigger : forall (bad : string -> bool) q,
  (forall s, In s (obj_paths q) -> okl bad (split_slash s)) ->
  ((q_src q =? "") = false -> bad_bucket (src_bucket q) = false) ->
  obj_hyp bad q.
Proof.
  intros bad q H HB. unfold obj_paths in H. repeat split.
  - apply H. left. reflexivity.
  - apply H. right. left. reflexivity.
  - apply HB. apply String.eqb_neq. exact H0.
  - apply H. right. right. apply in_or_app. left.
    destruct (q_src q =? "") eqn:E; [apply str_eqb_true in E; contradiction | left; reflexivity].
  - intros k Hk. apply H. right. right. apply in_or_app. right. exact Hk.
Qed.

Lemma cok_contained : forall b c, good b -> cok bad_dd b c -> call_contained (b, c) = true.
Proof.
  intros b c G H. unfold call_contained. simpl. unfold cok in H.
  destruct (effective c) as [e|]; [|reflexivity].
  destruct H as [U|[X [U [E|E]]]].
  - exact (under_contained bad_dd eq_refl b e G U).
  - subst e. rewrite (contained_clean b X (under_rooted bad_dd b X U)). exact (under_contained bad_dd eq_refl b X G U).
  - subst e. rewrite (contained_mux_clean b X (under_rooted bad_dd b X U)). exact (under_contained bad_dd eq_refl b X G U).
Qed.

Lemma src_good : forall q, req_dotdot q = false -> (q_src q =? "") = false -> bad_bucket (src_bucket q) = false.
Proof.
  intros q H E. unfold req_dotdot in H. apply orb_false_iff in H. destruct H as [_ H].
  rewrite E in H. simpl in H. exact H.
Qed.

Lemma within_ctx : forall b c b0 l, In (b, c) (within b0 l) -> b = b0.
Proof. intros b c b0 l H. unfold within in H. apply in_map_iff in H. destruct H as [x [E _]]. inversion E. reflexivity. Qed.

(* the bucket a call is attributed to: the request's bucket, or the (non-empty) copy source bucket *)
Lemma calls_ctx : forall fx q b c, In (b, c) (calls fx q) ->
  b = q_bucket q \/ (b = src_bucket q /\ (src_bucket q =? "") = false).
Proof.
  intros fx q b c H. unfold calls in H.
  destruct (q_route q).
  - destruct (ends_with_slash _); left; exact (within_ctx _ _ _ _ H).
  - destruct (ends_with_slash _); [destruct H | left; exact (within_ctx _ _ _ _ H)].
  - left; exact (within_ctx _ _ _ _ H).
  - left; exact (within_ctx _ _ _ _ H).
  - left; exact (within_ctx _ _ _ _ H).
  - destruct (src_bucket_object _) as [sb so] eqn:ES.
    assert (Esb : src_bucket q = sb) by (unfold src_bucket, dec1; rewrite ES; reflexivity).
    match type of H with In _ (if ?c then _ else _) => destruct c end.
    + destruct (dir_and_name _) as [d n]. left; exact (within_ctx _ _ _ _ H).
    + destruct (sb =? "") eqn:E1; [destruct H|].
      match type of H with In _ (if ?c then _ else _) => destruct c end; [destruct H|].
      destruct (pct_decode (bucket_dir sb ++ so)); [|destruct H].
      apply in_app_or in H. destruct H as [H|H].
      * right. rewrite Esb. split; [exact (within_ctx _ _ _ _ H) | exact E1].
      * destruct (pct_decode (bucket_dir (q_bucket q) ++ norm_object (q_object q))); [left; exact (within_ctx _ _ _ _ H) | destruct H].
  - destruct (src_bucket_object _) as [sb so] eqn:ES.
    assert (Esb : src_bucket q = sb) by (unfold src_bucket, dec1; rewrite ES; reflexivity).
    destruct (sb =? "") eqn:E1; [destruct H|].
    destruct (pct_decode (bucket_dir sb ++ so)); [|destruct H].
    apply in_app_or in H. destruct H as [H|H].
    + right. rewrite Esb. split; [exact (within_ctx _ _ _ _ H) | exact E1].
    + destruct (http_get_ok _ _); [|destruct H]. destruct (pct_decode (uploads_dir _ ++ _)); [left; exact (within_ctx _ _ _ _ H) | destruct H].
  - left; exact (within_ctx _ _ _ _ H).
  - left; exact (within_ctx _ _ _ _ H).
  - left; exact (within_ctx _ _ _ _ H).
  - left; exact (within_ctx _ _ _ _ H).
  - left; exact (within_ctx _ _ _ _ H).
  - destruct (dir_and_name _) as [d n]. left; exact (within_ctx _ _ _ _ H).
  - destruct (dir_and_name _) as [d n]. left; exact (within_ctx _ _ _ _ H).
  - destruct (dir_and_name _) as [d n]. left; exact (within_ctx _ _ _ _ H).
Qed.

Lemma ctx_good : forall fx q b c, bad_bucket (q_bucket q) = false -> req_dotdot q = false ->
  In (b, c) (calls fx q) -> good b.
Proof.
  intros fx q b c GB T H. destruct (calls_ctx fx q b c H) as [E|[E NE]]; subst b; [exact GB|].
  apply (src_good q T). destruct (q_src q =? "") eqn:EQ; [|reflexivity].
  apply str_eqb_true in EQ. unfold src_bucket, dec1 in NE. rewrite EQ in NE. discriminate.
Qed.

Theorem contained_partial : forall fx q,
  bad_bucket (q_bucket q) = false -> req_dotdot q = false -> all_contained fx q = true.
Proof.
  intros fx q GB T.
  assert (G : good (q_bucket q)) by exact GB.
  assert (Bb : bad_dd (q_bucket q) = false).
  { destruct (good_spec (q_bucket q) G) as [_ [_ [N _]]]. unfold bad_dd. apply String.eqb_neq. exact N. }
  pose proof T as T0. unfold req_dotdot in T. apply orb_false_iff in T. destruct T as [T1 T2].
  apply existsb_app_false in T1. destruct T1 as [TO TM].
  assert (HO : obj_hyp bad_dd q).
  { apply hyps_of_trigger.
    - intros s Hs. apply okl_dd_of. exact (existsb_false_in _ _ _ s TO Hs).
    - intros E. exact (src_good q T0 E). }
  assert (HM : mp_hyp bad_dd q).
  { unfold mp_paths in TM. split.
    - apply okl_dd_of. apply (existsb_false_in _ _ _ _ TM). left. reflexivity.
    - apply okl_dd_of. apply (existsb_false_in _ _ _ _ TM). right. left. reflexivity. }
  assert (F : Forall (cokc bad_dd) (calls fx q)).
  { destruct (object_route (q_route q)) eqn:OR.
    - exact (calls_object_cok bad_dd eq_refl eq_refl eq_refl fx q G Bb OR HO).
    - exact (calls_multipart_cok bad_dd eq_refl eq_refl eq_refl eq_refl eq_refl fx q G Bb OR HO HM). }
  unfold all_contained. apply andb_true_iff. split.
  - apply forallb_forall. intros [b c] Hc. rewrite Forall_forall in F. pose proof (F _ Hc) as K. unfold cokc in K. simpl in K.
    exact (cok_contained b c (ctx_good fx q b c GB T0 Hc) K).
  - apply forallb_forall. intros c Hc.
    assert (HK : forall k, In k (q_keys q) -> okl bad_dd (split_slash k)) by (destruct HO as [_ [_ [_ HK]]]; exact HK).
    pose proof (purge_candidates_cok bad_dd (q_bucket q) (q_keys q) G HK) as P.
    rewrite Forall_forall in P. exact (cok_contained _ c G (P c Hc)).
Qed.

(* ---------- instance 2: ".." and ".uploads" forbidden: the multipart area ---------- *)

Definition bad_up (s : string) : bool := (s =? "..") || (s =? ".uploads").

Lemma okl_up_of : forall s, has_dotdot s = false -> has_seg ".uploads" s = false -> okl bad_up (split_slash s).
Proof.
  intros s H1 H2 y Hy. unfold bad_up.
  rewrite (has_seg_okl ".." s H1 y Hy). rewrite (has_seg_okl ".uploads" s H2 y Hy). reflexivity.
Qed.

Lemma split_clean_under : forall bad b X, bad ".." = true -> good b -> under bad b X ->
  exists C', split_slash (clean X) = ("" :: "buckets" :: b :: C')%list /\ okl bad C'.
Proof.
  intros bad b X BD G U.
  destruct (rsegs_under bad BD b X G U) as [C' [E [O F]]]. exists C'. split; [|exact O].
  rewrite (clean_rooted X (under_rooted bad b X U)). rewrite E.
  change ("/" ++ join_slash ("buckets" :: b :: C')) with ("" ++ String slash (join_slash ("buckets" :: b :: C'))).
  rewrite split_app_slash. rewrite split_join; [reflexivity | discriminate |].
  pose proof (rsegs_no_slash X) as NS. rewrite E in NS. exact NS.
Qed.

Lemma split_uploads_dir : forall b, good b -> split_slash (clean (uploads_dir b)) = ["" ; "buckets"; b; ".uploads"].
Proof.
  intros b G.
  assert (U : under bad_dd b (uploads_dir b)) by (apply (under_uploads bad_dd eq_refl); exact G).
  destruct (good_spec b G) as [B1 [B2 [B3 [N _]]]].
  rewrite (clean_rooted _ (under_rooted bad_dd b _ U)).
  assert (R : rsegs (uploads_dir b) = ["buckets"; b; ".uploads"]).
  { unfold rsegs, uploads_dir. change (bucket_dir b ++ "/.uploads") with (bucket_dir b ++ String slash ".uploads").
    rewrite split_app_slash. rewrite (split_bucket_dir b N). rewrite norm_nodd.
    - simpl. unfold keep. simpl.
      destruct (b =? "") eqn:E1; [apply str_eqb_true in E1; contradiction|].
      destruct (b =? ".") eqn:E2; [apply str_eqb_true in E2; contradiction|]. reflexivity.
    - intros s [Hs|[Hs|[Hs|[Hs|[]]]]]; subst s; try discriminate. exact B3. }
  rewrite R.
  change ("/" ++ join_slash ["buckets"; b; ".uploads"]) with ("" ++ String slash (join_slash ["buckets"; b; ".uploads"])).
  rewrite split_app_slash. rewrite split_join; [reflexivity | discriminate |].
  repeat constructor. exact N.
Qed.

Lemma under_not_uploads : forall b X, good b -> under bad_up b X ->
  inside (clean (uploads_dir b)) (clean X) = false.
Proof.
  intros b X G U. destruct (split_clean_under bad_up b X eq_refl G U) as [C' [E O]].
  pose proof (split_uploads_dir b G) as SU.
  unfold inside. apply orb_false_iff. split.
  - destruct (clean X =? clean (uploads_dir b)) eqn:EQ; [|reflexivity].
    apply str_eqb_true in EQ. rewrite EQ, SU in E. inversion E; subst C'.
    assert (bad_up ".uploads" = false) by (apply O; left; reflexivity). discriminate.
  - destruct (String.prefix (clean (uploads_dir b) ++ "/") (clean X)) eqn:EP; [|reflexivity].
    destruct (prefix_exists _ _ EP) as [z Ez].
    rewrite Ez in E. rewrite append_assoc in E. change ("/" ++ z) with (String slash z) in E.
    rewrite split_app_slash, SU in E. inversion E; subst C'.
    assert (bad_up ".uploads" = false) by (apply O; left; reflexivity). discriminate.
Qed.

Lemma cok_not_uploads : forall b c, good b -> cok bad_up b c -> call_in_uploads (b, c) = false.
Proof.
  intros b c G H. unfold call_in_uploads. simpl. unfold cok in H.
  destruct (effective c) as [e|]; [|reflexivity].
  destruct H as [U|[X [U [E|E]]]].
  - exact (under_not_uploads b e G U).
  - subst e. rewrite (clean_idem X (under_rooted bad_up b X U)). exact (under_not_uploads b X G U).
  - subst e. rewrite (clean_mux_clean X (under_rooted bad_up b X U)). exact (under_not_uploads b X G U).
Qed.

Theorem uploads_hidden_partial : forall fx q,
  bad_bucket (q_bucket q) = false -> q_bucket q <> ".uploads" ->
  req_dotdot q = false -> req_uploads_seg q = false -> uploads_hidden fx q = true.
Proof.
  intros fx q GB NU T TU. unfold uploads_hidden.
  destruct (object_route (q_route q)) eqn:OR; [|reflexivity]. simpl.
  apply negb_true_iff.
  assert (G : good (q_bucket q)) by exact GB.
  assert (Bb : bad_up (q_bucket q) = false).
  { destruct (good_spec (q_bucket q) G) as [_ [_ [N _]]]. unfold bad_up.
    apply orb_false_iff. split; apply String.eqb_neq; assumption. }
  pose proof T as T0. unfold req_dotdot in T. apply orb_false_iff in T. destruct T as [T1 T2].
  apply existsb_app_false in T1. destruct T1 as [TO TM].
  unfold req_uploads_seg in TU. rewrite OR in TU. rewrite andb_true_l in TU.
  assert (HO : obj_hyp bad_up q).
  { apply hyps_of_trigger.
    - intros s Hs. apply okl_up_of; [exact (existsb_false_in _ _ _ s TO Hs) | exact (existsb_false_in _ _ _ s TU Hs)].
    - intros E. exact (src_good q T0 E). }
  pose proof (calls_object_cok bad_up eq_refl eq_refl eq_refl fx q G Bb OR HO) as F.
  destruct (existsb call_in_uploads (calls fx q)) eqn:EX; [|reflexivity].
  apply existsb_exists in EX. destruct EX as [[b c] [Hc Hu]].
  rewrite Forall_forall in F. pose proof (F _ Hc) as K. unfold cokc in K. simpl in K.
  rewrite (cok_not_uploads b c (ctx_good fx q b c GB T0 Hc) K) in Hu. discriminate.
Qed.

(* ---------- the cleaning lemma in its plain form ---------- *)

Theorem clean_stays_under : forall b rest,
  bad_bucket b = false -> has_dotdot rest = false -> contained b (bucket_dir b ++ "/" ++ rest) = true.
Proof.
  intros b rest G H. apply (under_contained bad_dd eq_refl b _ G).
  apply (under_opath bad_dd); [exact G | apply okl_dd_of; exact H].
Qed.

Theorem clean_idempotent : forall p, starts_with_slash p = true -> clean (clean p) = clean p.
Proof. exact clean_idem. Qed.

Theorem clean_rooted_no_dots : forall p, starts_with_slash p = true ->
  forall s, In s (norm_segs true (split_slash p)) -> s <> "" /\ s <> "." /\ s <> "..".
Proof.
  intros p _ s Hs. pose proof (norm_rooted_clean (split_slash p)) as F. rewrite Forall_forall in F. exact (F s Hs).
Qed.

(* ---------- refutations: concrete escaping requests ---------- *)

Definition fx_demo : fixture :=
  [ ("/", true); ("/buckets", true); ("/buckets/b", true); ("/buckets/b/obj", false);
    ("/buckets/b/.uploads", true); ("/buckets/b/.uploads/u1", true); ("/buckets/b/.uploads/u1/0001.part", false);
    ("/buckets/other", true); ("/buckets/other/obj", false) ].

Definition rq (r : route) (object upload src : string) (keys : list string) : req :=
  mk_req r "b" object upload "0001.part" src keys.

(* GET /b/x/../../other/obj is served from /buckets/other/obj *)
Definition esc_get : req := rq RGet "x/../../other/obj" "" "" [].
(* POST /b?delete with <Key>x/../../other/obj</Key> deletes /buckets/other/obj *)
Definition esc_batch : req := rq RBatchDelete "k" "" "" ["x/../../other/obj"].
(* DELETE /b/k?uploadId=../../other removes the whole bucket "other" *)
Definition esc_abort : req := rq RAbort "k" "../../other" "" [].
(* GET /b/x/../../other/obj?tagging reads the other bucket's tags *)
Definition esc_tag : req := rq RGetTag "x/../../other/obj" "" "" [].
(* PUT /b/new with X-Amz-Copy-Source: b/../other/obj copies from the other bucket *)
Definition esc_copy : req := rq (RCopy false) "new" "" "b/../other/obj" [].
(* GET /b/.uploads/u1/0001.part addresses a part of an upload in progress *)
Definition up_get : req := rq RGet ".uploads/u1/0001.part" "" "" [].

Theorem contained_refuted : exists fx q,
  bad_bucket (q_bucket q) = false /\ all_contained fx q = false /\
  existsb (fun c => match effective (snd c) with Some e => clean e =? "/buckets/other/obj" | None => false end) (calls fx q) = true.
Proof. exists fx_demo, esc_get. vm_compute. repeat split; reflexivity. Qed.

Theorem contained_refuted_all :
  all_contained fx_demo esc_get = false /\ all_contained fx_demo esc_batch = false /\
  all_contained fx_demo esc_abort = false /\ all_contained fx_demo esc_tag = false /\
  all_contained fx_demo esc_copy = false.
Proof. vm_compute. repeat split; reflexivity. Qed.

Theorem uploads_hidden_refuted : exists fx q,
  bad_bucket (q_bucket q) = false /\ req_dotdot q = false /\ object_route (q_route q) = true /\
  uploads_hidden fx q = false.
Proof. exists fx_demo, up_get. vm_compute. repeat split; reflexivity. Qed.

(* non-vacuity: an ordinary request satisfies the hypotheses and produces calls *)
Example partial_nonvacuous :
  let q := rq RPutTag "x/./y//z" "" "" [] in
  bad_bucket (q_bucket q) = false /\ req_dotdot q = false /\ req_uploads_seg q = false /\
  map snd (calls fx_demo q) = [GLookup "/buckets/b/x/./y/" "z"] /\
  all_contained fx_demo q = true /\ uploads_hidden fx_demo q = true.
Proof. vm_compute. repeat split; reflexivity. Qed.
