(* Proofs for C29 (model/S3Paths.v): lexical cleaning never climbs above a prefix when
   no ".." segment follows it; every path the gateway produces for a request without
   ".." segments stays inside the bucket directory; concrete escaping requests. *)
From Coq Require Import List NArith Bool String Ascii Arith Lia.
From SW Require Import model.S3List model.S3Paths.
Import ListNotations.
Local Open Scope list_scope.
Local Open Scope string_scope.

(* ---------- strings ---------- *)

Lemma ascii_eqb_true : forall a b, Ascii.eqb a b = true -> a = b.
Proof. intros a b H. apply Ascii.eqb_eq. exact H. Qed.

Lemma str_eqb_true : forall a b : string, (a =? b) = true -> a = b.
Proof. intros a b H. apply String.eqb_eq. exact H. Qed.

Lemma str_eqb_false : forall a b : string, (a =? b) = false -> a <> b.
Proof. intros a b H. apply String.eqb_neq. exact H. Qed.

Lemma append_assoc : forall a b c : string, (a ++ b) ++ c = a ++ (b ++ c).
Proof. induction a as [|x a IH]; intros b c; simpl; [reflexivity | rewrite IH; reflexivity]. Qed.

Lemma append_nil_r : forall a : string, a ++ "" = a.
Proof. induction a as [|x a IH]; simpl; [reflexivity | rewrite IH; reflexivity]. Qed.

Lemma split_nonempty : forall s, split_slash s <> [].
Proof.
  induction s as [|c s IH]; simpl; [discriminate|].
  destruct (Ascii.eqb c slash); [discriminate|].
  destruct (split_slash s); discriminate.
Qed.

Lemma split_app_slash : forall x y, split_slash (x ++ String slash y) = (split_slash x ++ split_slash y)%list.
Proof.
  induction x as [|c x IH]; intros y.
  - simpl. reflexivity.
  - simpl. destruct (Ascii.eqb c slash) eqn:E.
    + rewrite IH. reflexivity.
    + rewrite IH. destruct (split_slash x) as [|h t] eqn:Ex.
      * exfalso. exact (split_nonempty x Ex).
      * reflexivity.
Qed.

Lemma no_slash_split : forall s, no_slash s = true -> split_slash s = [s].
Proof.
  induction s as [|c s IH]; simpl; intros H; [reflexivity|].
  apply andb_true_iff in H. destruct H as [Hc Hs].
  destruct (Ascii.eqb c slash); [discriminate|].
  rewrite (IH Hs). reflexivity.
Qed.

Lemma split_segs_no_slash : forall s x, In x (split_slash s) -> no_slash x = true.
Proof.
  induction s as [|c s IH]; simpl; intros x H.
  - destruct H as [H|[]]. subst x. reflexivity.
  - destruct (Ascii.eqb c slash) eqn:E.
    + destruct H as [H|H]; [subst x; reflexivity | exact (IH x H)].
    + destruct (split_slash s) as [|h t] eqn:Es.
      * destruct H as [H|[]]. subst x. simpl. rewrite E. reflexivity.
      * destruct H as [H|H].
        -- subst x. simpl. rewrite E. simpl. apply IH. left. reflexivity.
        -- apply IH. right. exact H.
Qed.

Lemma rcut_slash_spec : forall s d n, rcut_slash s = Some (d, n) -> s = d ++ String slash n /\ no_slash n = true.
Proof.
  induction s as [|c s IH]; simpl; intros d n H; [discriminate|].
  destruct (rcut_slash s) as [[a b]|] eqn:E.
  - inversion H; subst. destruct (IH a n eq_refl) as [H1 H2]. split; [simpl; rewrite <- H1; reflexivity | exact H2].
  - destruct (Ascii.eqb c slash) eqn:Ec; [|discriminate].
    inversion H; subst. apply ascii_eqb_true in Ec. subst c. split; [reflexivity|].
    clear IH H. revert E. induction n as [|x n IHn]; simpl; intros E; [reflexivity|].
    destruct (rcut_slash n) as [[a b]|]; [discriminate|].
    destruct (Ascii.eqb x slash); [discriminate|]. simpl. apply IHn. reflexivity.
Qed.

Lemma rcut_slash_none : forall s, rcut_slash s = None -> no_slash s = true.
Proof.
  induction s as [|c s IH]; simpl; intros H; [reflexivity|].
  destruct (rcut_slash s) as [[a b]|]; [discriminate|].
  destruct (Ascii.eqb c slash); [discriminate|]. simpl. apply IH. reflexivity.
Qed.

Lemma cut_slash_spec : forall s a b, cut_slash s = Some (a, b) -> s = a ++ String slash b /\ no_slash a = true.
Proof.
  induction s as [|c s IH]; simpl; intros a b H; [discriminate|].
  destruct (Ascii.eqb c slash) eqn:Ec.
  - inversion H; subst. apply ascii_eqb_true in Ec. subst c. split; reflexivity.
  - destruct (cut_slash s) as [[x y]|]; [|discriminate]. inversion H; subst.
    destruct (IH x b eq_refl) as [H1 H2]. split; [simpl; rewrite <- H1; reflexivity | simpl; rewrite Ec; exact H2].
Qed.

Lemma starts_with_slash_spec : forall s, starts_with_slash s = true -> exists r, s = String slash r.
Proof.
  destruct s as [|c r]; simpl; intros H; [discriminate|].
  apply ascii_eqb_true in H. subst c. exists r. reflexivity.
Qed.

(* ---------- normalisation ---------- *)

Definition keep (s : string) : bool := negb ((s =? "") || (s =? ".")).
Definition nodd (l : list string) : Prop := forall s, In s l -> s <> "..".

Lemma fold_nodd : forall r B acc, nodd B ->
  fold_left (norm_step r) B acc = (rev (filter keep B) ++ acc)%list.
Proof.
  induction B as [|s B IH]; intros acc H; simpl; [reflexivity|].
  assert (Hs : s <> "..") by (apply H; left; reflexivity).
  assert (HB : nodd B) by (intros x Hx; apply H; right; exact Hx).
  unfold norm_step at 2. unfold keep at 1.
  destruct ((s =? "") || (s =? ".")) eqn:E; simpl.
  - apply IH. exact HB.
  - destruct (s =? "..") eqn:E2; [apply str_eqb_true in E2; contradiction|].
    rewrite IH by exact HB. rewrite <- app_assoc. reflexivity.
Qed.

Lemma norm_app_nodd : forall r A B, nodd B ->
  norm_segs r (A ++ B) = (norm_segs r A ++ filter keep B)%list.
Proof.
  intros r A B H. unfold norm_segs. rewrite fold_left_app. rewrite fold_nodd by exact H.
  rewrite rev_app_distr. rewrite rev_involutive. reflexivity.
Qed.

Lemma norm_nodd : forall r B, nodd B -> norm_segs r B = filter keep B.
Proof. intros r B H. apply (norm_app_nodd r [] B H). Qed.

(* what a normalised ROOTED segment list looks like *)
Definition clean_seg (s : string) : Prop := s <> "" /\ s <> "." /\ s <> "..".

Lemma norm_step_clean : forall acc s, Forall clean_seg acc -> Forall clean_seg (norm_step true acc s).
Proof.
  intros acc s H. unfold norm_step.
  destruct ((s =? "") || (s =? ".")) eqn:E; [exact H|].
  apply orb_false_iff in E. destruct E as [E1 E2]. apply str_eqb_false in E1. apply str_eqb_false in E2.
  destruct (s =? "..") eqn:E3.
  - destruct acc as [|t acc']; [constructor|].
    inversion H; subst. destruct (t =? "..") eqn:E4.
    + apply str_eqb_true in E4. destruct H2 as [_ [_ H2]]. contradiction.
    + exact H3.
  - apply str_eqb_false in E3. constructor; [repeat split; assumption | exact H].
Qed.

Lemma norm_rooted_clean : forall segs, Forall clean_seg (norm_segs true segs).
Proof.
  intros segs. unfold norm_segs. apply Forall_rev.
  assert (G : forall l acc, Forall clean_seg acc -> Forall clean_seg (fold_left (norm_step true) l acc)).
  { induction l as [|s l IH]; intros acc H; simpl; [exact H|]. apply IH. apply norm_step_clean. exact H. }
  apply G. constructor.
Qed.

Lemma norm_step_sub : forall r acc s x, In x (norm_step r acc s) -> In x acc \/ x = s \/ x = "..".
Proof.
  intros r acc s x H. unfold norm_step in H.
  destruct ((s =? "") || (s =? ".")); [left; exact H|].
  destruct (s =? "..").
  - destruct acc as [|t acc'].
    + destruct r; [destruct H | destruct H as [H|[]]; right; right; symmetry; exact H].
    + destruct (t =? "..").
      * destruct H as [H|H]; [right; right; symmetry; exact H | left; exact H].
      * left. right. exact H.
  - destruct H as [H|H]; [right; left; symmetry; exact H | left; exact H].
Qed.

Lemma norm_segs_sub : forall r segs x, In x (norm_segs r segs) -> In x segs \/ x = "..".
Proof.
  intros r segs x H. unfold norm_segs in H. apply in_rev in H.
  assert (G : forall l acc, In x (fold_left (norm_step r) l acc) -> In x acc \/ In x l \/ x = "..").
  { induction l as [|s l IH]; intros acc Hx; simpl in Hx; [left; exact Hx|].
    destruct (IH _ Hx) as [Hx'|[Hx'|Hx']].
    - destruct (norm_step_sub _ _ _ _ Hx') as [K|[K|K]]; [left; exact K | right; left; left; symmetry; exact K | right; right; exact K].
    - right. left. right. exact Hx'.
    - right. right. exact Hx'. }
  destruct (G _ _ H) as [K|[K|K]]; [destruct K | left; exact K | right; exact K].
Qed.

(* join / split round trip on slash-free segments *)
Lemma split_join : forall l, l <> [] -> Forall (fun s => no_slash s = true) l ->
  split_slash (join_slash l) = l.
Proof.
  induction l as [|a l IH]; intros Hne H; [contradiction|].
  inversion H; subst. destruct l as [|b l'].
  - simpl. apply no_slash_split. exact H2.
  - change (join_slash (a :: b :: l')) with (a ++ String slash (join_slash (b :: l'))).
    rewrite split_app_slash. rewrite (no_slash_split a H2). rewrite IH; [reflexivity | discriminate | exact H3].
Qed.

Lemma clean_seg_keep : forall l, Forall clean_seg l -> filter keep l = l /\ nodd l.
Proof.
  induction l as [|s l IH]; intros H; [split; [reflexivity | intros x []]|].
  inversion H; subst. destruct (IH H3) as [I1 I2]. destruct H2 as [A [B C]].
  split.
  - simpl. unfold keep at 1.
    destruct (s =? "") eqn:E1; [apply str_eqb_true in E1; contradiction|].
    destruct (s =? ".") eqn:E2; [apply str_eqb_true in E2; contradiction|].
    simpl. rewrite I1. reflexivity.
  - intros x [Hx|Hx]; [subst x; exact C | exact (I2 x Hx)].
Qed.

Lemma norm_fix : forall r l, Forall clean_seg l -> norm_segs r l = l.
Proof. intros r l H. destruct (clean_seg_keep l H) as [A B]. rewrite norm_nodd by exact B. exact A. Qed.

(* ---------- clean on rooted paths ---------- *)

Definition rsegs (p : string) : list string := norm_segs true (split_slash p).

Lemma clean_rooted : forall p, starts_with_slash p = true -> clean p = "/" ++ join_slash (rsegs p).
Proof. intros p H. unfold clean. rewrite H. reflexivity. Qed.

Lemma rsegs_no_slash : forall p, Forall (fun s => no_slash s = true) (rsegs p).
Proof.
  intros p. apply Forall_forall. intros x Hx. unfold rsegs in Hx.
  destruct (norm_segs_sub _ _ _ Hx) as [K|K]; [exact (split_segs_no_slash _ _ K) | subst x; reflexivity].
Qed.

Lemma rsegs_of_rooted_join : forall l, Forall clean_seg l -> Forall (fun s => no_slash s = true) l ->
  rsegs ("/" ++ join_slash l) = l.
Proof.
  intros l Hc Hn. unfold rsegs. destruct l as [|a l'].
  - reflexivity.
  - change ("/" ++ join_slash (a :: l')) with ("" ++ String slash (join_slash (a :: l'))).
    rewrite split_app_slash. rewrite split_join; [|discriminate|exact Hn].
    simpl split_slash. change ([""] ++ a :: l')%list with ([""] ++ (a :: l'))%list.
    rewrite norm_app_nodd; [|exact (proj2 (clean_seg_keep _ Hc))].
    rewrite (proj1 (clean_seg_keep _ Hc)). reflexivity.
Qed.

Lemma rsegs_clean : forall p, starts_with_slash p = true -> rsegs (clean p) = rsegs p.
Proof.
  intros p H. rewrite clean_rooted by exact H.
  apply rsegs_of_rooted_join; [apply norm_rooted_clean | apply rsegs_no_slash].
Qed.

Lemma clean_starts : forall p, starts_with_slash p = true -> starts_with_slash (clean p) = true.
Proof. intros p H. rewrite clean_rooted by exact H. reflexivity. Qed.

Lemma clean_idem : forall p, starts_with_slash p = true -> clean (clean p) = clean p.
Proof.
  intros p H. rewrite (clean_rooted (clean p)) by (apply clean_starts; exact H).
  rewrite rsegs_clean by exact H. symmetry. apply clean_rooted. exact H.
Qed.

Lemma rsegs_trailing_slash : forall p, rsegs (p ++ "/") = rsegs p.
Proof.
  intros p. unfold rsegs. change (p ++ "/") with (p ++ String slash "").
  rewrite split_app_slash. simpl split_slash.
  unfold norm_segs. rewrite fold_left_app. simpl. reflexivity.
Qed.

Lemma starts_app : forall p q, starts_with_slash p = true -> starts_with_slash (p ++ q) = true.
Proof. intros p q H. destruct (starts_with_slash_spec _ H) as [r E]. subst p. reflexivity. Qed.

Lemma clean_trailing_slash : forall p, starts_with_slash p = true -> clean (p ++ "/") = clean p.
Proof.
  intros p H. rewrite (clean_rooted (p ++ "/")) by (apply starts_app; exact H).
  rewrite rsegs_trailing_slash. symmetry. apply clean_rooted. exact H.
Qed.

Lemma clean_mux_clean : forall p, starts_with_slash p = true -> clean (mux_clean p) = clean p.
Proof.
  intros p H. unfold mux_clean.
  destruct (starts_with_slash_spec _ H) as [r E]. subst p.
  change (String slash r =? "") with false. cbv iota. rewrite H.
  destruct (ends_with_slash (String slash r) && negb (clean (String slash r) =? "/")).
  - rewrite clean_trailing_slash by (apply clean_starts; exact H). apply clean_idem. exact H.
  - apply clean_idem. exact H.
Qed.

Lemma join_split : forall s, join_slash (split_slash s) = s.
Proof.
  induction s as [|c s IH]; [reflexivity|].
  simpl split_slash. destruct (Ascii.eqb c slash) eqn:E.
  - apply ascii_eqb_true in E. subst c.
    destruct (split_slash s) as [|h t] eqn:Es; [exfalso; exact (split_nonempty s Es)|].
    change (join_slash ("" :: h :: t)) with ("" ++ String slash (join_slash (h :: t))).
    rewrite IH. reflexivity.
  - destruct (split_slash s) as [|h t] eqn:Es; [exfalso; exact (split_nonempty s Es)|].
    destruct t as [|h2 t2].
    + unfold join_slash in *. simpl in *. rewrite IH. reflexivity.
    + change (join_slash (String c h :: h2 :: t2)) with (String c (h ++ String slash (join_slash (h2 :: t2)))).
      change (join_slash (h :: h2 :: t2)) with (h ++ String slash (join_slash (h2 :: t2))) in IH.
      rewrite IH. reflexivity.
Qed.

Lemma split_inj : forall a b, split_slash a = split_slash b -> a = b.
Proof. intros a b H. rewrite <- (join_split a), <- (join_split b), H. reflexivity. Qed.

Lemma prefix_app : forall a b, String.prefix a (a ++ b) = true.
Proof.
  induction a as [|c a IH]; intros b; simpl; [destruct b; reflexivity|].
  destruct (ascii_dec c c) as [_|N]; [apply IH | contradiction].
Qed.

Lemma prefix_exists : forall a s, String.prefix a s = true -> exists z, s = a ++ z.
Proof.
  induction a as [|c a IH]; intros s H; [exists s; reflexivity|].
  destruct s as [|d s]; simpl in H; [discriminate|].
  destruct (ascii_dec c d) as [E|N]; [|discriminate]. subst d.
  destruct (IH s H) as [z Hz]. exists z. simpl. rewrite Hz. reflexivity.
Qed.

Lemma split_head_rooted : forall p x r, split_slash p = "" :: x :: r -> starts_with_slash p = true.
Proof.
  destruct p as [|c p]; simpl; intros x r H; [discriminate|].
  destruct (Ascii.eqb c slash) eqn:E; [reflexivity|].
  destruct (split_slash p); discriminate.
Qed.

Lemma rcut_split : forall s d n, rcut_slash s = Some (d, n) -> split_slash s = (split_slash d ++ [n])%list.
Proof.
  intros s d n H. destruct (rcut_slash_spec _ _ _ H) as [E N]. subst s.
  rewrite split_app_slash. rewrite (no_slash_split n N). reflexivity.
Qed.

Lemma rcut_rooted : forall r, exists d n, rcut_slash (String slash r) = Some (d, n).
Proof.
  intros r. simpl. destruct (rcut_slash r) as [[a b]|]; [exists (String slash a), b; reflexivity|].
  exists "", r. reflexivity.
Qed.

(* ---------- containment, parametrised by a set of forbidden segment names ---------- *)

Section Under.
  Variable bad : string -> bool.
  Hypothesis bad_dotdot : bad ".." = true.

  Definition okl (l : list string) : Prop := forall s, In s l -> bad s = false.

  Lemma okl_nodd : forall l, okl l -> nodd l.
  Proof. intros l H s Hs E. subst s. rewrite (H _ Hs) in bad_dotdot. discriminate. Qed.

  Lemma okl_app : forall a b, okl a -> okl b -> okl (a ++ b).
  Proof. intros a b Ha Hb s Hs. apply in_app_or in Hs. destruct Hs; [apply Ha | apply Hb]; assumption. Qed.

  Lemma okl_app_l : forall a b, okl (a ++ b) -> okl a.
  Proof. intros a b H s Hs. apply H. apply in_or_app. left. exact Hs. Qed.

  Lemma okl_app_r : forall a b, okl (a ++ b) -> okl b.
  Proof. intros a b H s Hs. apply H. apply in_or_app. right. exact Hs. Qed.

  Lemma okl_removelast : forall l, okl l -> okl (removelast l).
  Proof.
    intros l H s Hs. apply H. clear H. induction l as [|a l IH]; [destruct Hs|].
    simpl in Hs. destruct l as [|b l']; [destruct Hs|]. destruct Hs as [Hs|Hs]; [left; exact Hs | right; apply IH; exact Hs].
  Qed.

  (* the raw segments of P are  "", "buckets", b  followed by allowed segments *)
  Definition under (b P : string) : Prop :=
    exists C, split_slash P = ("" :: "buckets" :: b :: C)%list /\ okl C.

  Definition good (b : string) : Prop := bad_bucket b = false.

  Lemma good_spec : forall b, good b ->
    b <> "" /\ b <> "." /\ b <> ".." /\ no_slash b = true /\ no_pct b = true.
  Proof.
    intros b H. unfold good, bad_bucket in H.
    apply orb_false_iff in H. destruct H as [H H5].
    apply orb_false_iff in H. destruct H as [H H4].
    apply orb_false_iff in H. destruct H as [H H3].
    apply orb_false_iff in H. destruct H as [H1 H2].
    repeat split; try (apply str_eqb_false; assumption).
    - apply negb_false_iff. exact H4.
    - apply negb_false_iff. exact H5.
  Qed.

  Lemma split_bucket_dir : forall b, no_slash b = true -> split_slash (bucket_dir b) = ["" ; "buckets"; b].
  Proof.
    intros b H. unfold bucket_dir, buckets_path.
    change ("/buckets" ++ "/" ++ b) with ("/buckets" ++ String slash b).
    rewrite split_app_slash. rewrite (no_slash_split b H). reflexivity.
  Qed.

  Lemma under_bucket_dir : forall b, good b -> under b (bucket_dir b).
  Proof.
    intros b H. destruct (good_spec b H) as [_ [_ [_ [N _]]]].
    exists []. split; [apply split_bucket_dir; exact N | intros s []].
  Qed.

  Lemma under_app : forall b P r, under b P -> okl (split_slash r) -> under b (P ++ String slash r).
  Proof.
    intros b P r [C [E O]] Hr. exists (C ++ split_slash r)%list. split.
    - rewrite split_app_slash, E. reflexivity.
    - apply okl_app; assumption.
  Qed.

  Lemma under_rooted : forall b P, under b P -> starts_with_slash P = true.
  Proof. intros b P [C [E _]]. exact (split_head_rooted _ _ _ E). Qed.

  Lemma rsegs_under : forall b P, good b -> under b P ->
    exists C', rsegs P = ("buckets" :: b :: C')%list /\ okl C' /\ Forall clean_seg C'.
  Proof.
    intros b P G [C [E O]]. destruct (good_spec b G) as [B1 [B2 [B3 _]]].
    exists (filter keep C). unfold rsegs. rewrite E.
    change ("" :: "buckets" :: b :: C)%list with (["" ; "buckets"; b] ++ C)%list.
    rewrite norm_app_nodd by (apply okl_nodd; exact O).
    assert (Hb : norm_segs true ["" ; "buckets"; b] = ["buckets"; b]).
    { rewrite norm_nodd.
      - simpl. unfold keep at 1. simpl.
        unfold keep. destruct (b =? "") eqn:E1; [apply str_eqb_true in E1; contradiction|].
        destruct (b =? ".") eqn:E2; [apply str_eqb_true in E2; contradiction|]. reflexivity.
      - intros s [Hs|[Hs|[Hs|[]]]]; subst s; try discriminate. exact B3. }
    rewrite Hb. split; [reflexivity|]. split.
    - intros s Hs. apply filter_In in Hs. apply O. exact (proj1 Hs).
    - apply Forall_forall. intros s Hs. apply filter_In in Hs. destruct Hs as [Hs Hk].
      unfold keep in Hk. apply negb_true_iff in Hk. apply orb_false_iff in Hk. destruct Hk as [K1 K2].
      repeat split; try (apply str_eqb_false; assumption).
      apply (okl_nodd C O). exact Hs.
  Qed.

  Lemma clean_bucket_dir : forall b, good b -> clean (bucket_dir b) = bucket_dir b.
  Proof.
    intros b G. destruct (rsegs_under b (bucket_dir b) G (under_bucket_dir b G)) as [C' [E _]].
    assert (E2 : rsegs (bucket_dir b) = ["buckets"; b]).
    { destruct (good_spec b G) as [B1 [B2 [B3 [N _]]]].
      unfold rsegs. rewrite (split_bucket_dir b N). rewrite norm_nodd.
      - simpl. unfold keep. simpl.
        destruct (b =? "") eqn:E1; [apply str_eqb_true in E1; contradiction|].
        destruct (b =? ".") eqn:E3; [apply str_eqb_true in E3; contradiction|]. reflexivity.
      - intros s [Hs|[Hs|[Hs|[]]]]; subst s; try discriminate. exact B3. }
    rewrite clean_rooted by reflexivity. rewrite E2. reflexivity.
  Qed.

  Lemma under_contained : forall b P, good b -> under b P -> contained b P = true.
  Proof.
    intros b P G U. unfold contained. rewrite (clean_bucket_dir b G).
    rewrite (clean_rooted P (under_rooted b P U)).
    destruct (rsegs_under b P G U) as [C' [E _]]. rewrite E. unfold inside.
    destruct C' as [|c C''].
    - change ("/" ++ join_slash ["buckets"; b]) with (bucket_dir b). rewrite String.eqb_refl. reflexivity.
    - apply orb_true_iff. right.
      change ("/" ++ join_slash ("buckets" :: b :: c :: C''))
        with ("/buckets/" ++ (b ++ String slash (join_slash (c :: C'')))).
      unfold bucket_dir, buckets_path.
      change (("/buckets" ++ "/" ++ b) ++ "/") with ("/buckets/" ++ (b ++ "/")).
      change ("/buckets/" ++ (b ++ String slash (join_slash (c :: C''))))
        with ("/buckets/" ++ (b ++ ("/" ++ join_slash (c :: C'')))).
      rewrite <- (append_assoc b "/" (join_slash (c :: C''))).
      rewrite <- (append_assoc "/buckets/" (b ++ "/") (join_slash (c :: C''))).
      apply prefix_app.
  Qed.

  Lemma contained_clean : forall b X, starts_with_slash X = true -> contained b (clean X) = contained b X.
  Proof. intros b X H. unfold contained. rewrite clean_idem by exact H. reflexivity. Qed.

  Lemma contained_mux_clean : forall b X, starts_with_slash X = true -> contained b (mux_clean X) = contained b X.
  Proof. intros b X H. unfold contained. rewrite clean_mux_clean by exact H. reflexivity. Qed.

  Hypothesis bad_empty : bad "" = false.
  Hypothesis bad_buckets : bad "buckets" = false.
  Hypothesis bad_dot : bad "." = false.

  Definition cok (b : string) (c : fcall) : Prop :=
    match effective c with Some e => under b e \/ (exists X, under b X /\ (e = clean X \/ e = mux_clean X)) | None => True end.

  Lemma okl_one : forall s, bad s = false -> okl [s].
  Proof. intros s H x [E|[]]. subst x. exact H. Qed.

  Lemma okl_split_one : forall s, no_slash s = true -> bad s = false -> okl (split_slash s).
  Proof. intros s N H. rewrite (no_slash_split s N). apply okl_one. exact H. Qed.

  (* ----- HTTP ----- *)
  Lemma http_calls_cok : forall b m p, under b p -> Forall (cok b) (http_calls m p).
  Proof.
    intros b m p U. unfold http_calls. destruct (canonical p) eqn:E.
    - constructor; [|constructor]. unfold cok. simpl. rewrite E. left. exact U.
    - constructor; [unfold cok; simpl; rewrite E; exact I|].
      constructor; [|constructor]. unfold cok. simpl.
      destruct (canonical (mux_clean p)); [|exact I].
      right. exists p. split; [exact U | right; reflexivity].
  Qed.

  (* ----- gRPC lookups / deletes: util.JoinPath ----- *)
  Lemma norm_cons_empty : forall r X, norm_segs r ("" :: X) = norm_segs r X.
  Proof. intros r X. unfold norm_segs. simpl. reflexivity. Qed.

  Lemma join_dn_clean : forall P, starts_with_slash P = true ->
    join_path (fst (dir_and_name P)) (snd (dir_and_name P)) = clean P.
  Proof.
    intros P H. destruct (starts_with_slash_spec _ H) as [r E]. subst P.
    destruct (rcut_rooted r) as [d0 [n R]]. unfold dir_and_name. rewrite R.
    destruct (rcut_slash_spec _ _ _ R) as [E N].
    destruct (d0 =? "") eqn:Ed.
    - apply str_eqb_true in Ed. subst d0. simpl in E. inversion E; subst r. simpl fst. simpl snd.
      unfold join_path. destruct (n =? "") eqn:En.
      + apply str_eqb_true in En. subst n. reflexivity.
      + change ("/" =? "") with false. cbv iota.
        rewrite (clean_rooted ("/" ++ "/" ++ n)) by reflexivity.
        rewrite (clean_rooted (String slash n)) by reflexivity.
        assert (R2 : rsegs ("/" ++ "/" ++ n) = rsegs (String slash n)); [|rewrite R2; reflexivity].
        unfold rsegs.
        change ("/" ++ "/" ++ n) with ("" ++ String slash (String slash n)).
        rewrite split_app_slash.
        change (split_slash "" ++ split_slash (String slash n))%list with ("" :: split_slash (String slash n)).
        apply norm_cons_empty.
    - simpl fst. simpl snd. unfold join_path. rewrite Ed.
      assert (Hd : starts_with_slash d0 = true).
      { destruct d0 as [|c d0']; [discriminate|]. simpl in E. inversion E. reflexivity. }
      destruct (n =? "") eqn:En.
      + apply str_eqb_true in En. subst n. rewrite E.
        change (d0 ++ String slash "") with (d0 ++ "/"). symmetry. apply clean_trailing_slash. exact Hd.
      + rewrite E. reflexivity.
  Qed.

  Lemma join_path_cok_form : forall b D n, under b D -> okl (split_slash n) ->
    exists X, under b X /\ join_path D n = clean X.
  Proof.
    intros b D n U O. unfold join_path. destruct (n =? "") eqn:En.
    - exists D. split; [exact U | reflexivity].
    - destruct (D =? "") eqn:Ed.
      + apply str_eqb_true in Ed. subst D. destruct U as [C [E _]]. discriminate.
      + exists (D ++ String slash n). split; [apply under_app; assumption | reflexivity].
  Qed.

  Lemma lookup_cok : forall b D n, under b D -> okl (split_slash n) -> cok b (GLookup D n).
  Proof.
    intros b D n U O. unfold cok. simpl. right.
    destruct (join_path_cok_form b D n U O) as [X [UX E]]. exists X. split; [exact UX | left; exact E].
  Qed.

  Lemma delete_cok : forall b D n r, under b D -> okl (split_slash n) -> cok b (GDelete D n r).
  Proof.
    intros b D n r U O. unfold cok. simpl. right.
    destruct (join_path_cok_form b D n U O) as [X [UX E]]. exists X. split; [exact UX | left; exact E].
  Qed.

  (* DirAndName of a path with at least one segment behind the bucket *)
  Lemma dn_under : forall b P C, split_slash P = ("" :: "buckets" :: b :: C)%list -> C <> [] -> okl C ->
    under b (fst (dir_and_name P)) /\ okl [snd (dir_and_name P)] /\
    P = fst (dir_and_name P) ++ String slash (snd (dir_and_name P)).
  Proof.
    intros b P C E NE O.
    assert (HP : starts_with_slash P = true) by exact (split_head_rooted _ _ _ E).
    destruct (starts_with_slash_spec _ HP) as [r Er]. subst P.
    destruct (rcut_rooted r) as [d0 [n R]]. unfold dir_and_name. rewrite R.
    pose proof (rcut_split _ _ _ R) as S. rewrite E in S.
    destruct (rcut_slash_spec _ _ _ R) as [E2 N].
    assert (Hd : split_slash d0 = ("" :: "buckets" :: b :: removelast C)%list /\ n = last C "").
    { change ("" :: "buckets" :: b :: C)%list with (["" ; "buckets"; b] ++ C)%list in S.
      rewrite (app_removelast_last "" NE) in S. rewrite app_assoc in S.
      apply app_inj_tail in S. destruct S as [S1 S2]. split; [symmetry; exact S1 | symmetry; exact S2]. }
    destruct Hd as [Hd Hn].
    destruct (d0 =? "") eqn:Ed.
    - apply str_eqb_true in Ed. subst d0. discriminate.
    - simpl fst. simpl snd. split; [|split].
      + exists (removelast C). split; [exact Hd | apply okl_removelast; exact O].
      + apply okl_one. apply O. rewrite Hn. clear - NE. induction C as [|a C IH]; [contradiction|].
        destruct C as [|a2 C']; [left; reflexivity | right; apply IH; discriminate].
      + exact E2.
  Qed.

  Lemma opath_split : forall b k, good b ->
    split_slash (bucket_dir b ++ String slash k) = ("" :: "buckets" :: b :: split_slash k)%list.
  Proof.
    intros b k G. destruct (good_spec b G) as [_ [_ [_ [N _]]]].
    rewrite split_app_slash. rewrite (split_bucket_dir b N). reflexivity.
  Qed.

  (* the Name of the entry found at a cleaned path *)
  Lemma entry_name_ok : forall b X, good b -> bad b = false -> under b X ->
    okl (split_slash (entry_name (clean X))) .
  Proof.
    intros b X G Bb U.
    destruct (rsegs_under b X G U) as [C' [E [O F]]].
    rewrite (clean_rooted X (under_rooted b X U)). rewrite E.
    assert (S : split_slash ("/" ++ join_slash ("buckets" :: b :: C')) = ("" :: "buckets" :: b :: C')%list).
    { change ("/" ++ join_slash ("buckets" :: b :: C')) with ("" ++ String slash (join_slash ("buckets" :: b :: C'))).
      rewrite split_app_slash. rewrite split_join; [reflexivity | discriminate |].
      pose proof (rsegs_no_slash X) as NS. rewrite E in NS. exact NS. }
    unfold entry_name.
    destruct (rcut_rooted (join_slash ("buckets" :: b :: C'))) as [d0 [n R]].
    change ("/" ++ join_slash ("buckets" :: b :: C')) with (String slash (join_slash ("buckets" :: b :: C'))).
    rewrite R. destruct (rcut_slash_spec _ _ _ R) as [_ N].
    pose proof (rcut_split _ _ _ R) as S2.
    change (String slash (join_slash ("buckets" :: b :: C'))) with ("/" ++ join_slash ("buckets" :: b :: C')) in S2.
    rewrite S in S2.
    apply okl_split_one; [exact N|].
    assert (In n ("" :: "buckets" :: b :: C')%list) by (rewrite S2; apply in_or_app; right; left; reflexivity).
    destruct H as [H|[H|[H|H]]]; try (subst n; assumption). apply O. exact H.
  Qed.
End Under.
