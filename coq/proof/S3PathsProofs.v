(* Proofs for C29 (model/S3Paths.v): a lexical walk that never pops the empty stack
   (`escapes`) keeps the cleaned path under its prefix; every path the gateway produces
   for a request none of whose strings climbs stays inside the bucket directory (all
   routes, all fixtures; also the data dependent purge / listing descent); the same walk
   with ".uploads" forbidden directly below the bucket keeps object routes out of the
   multipart area; concrete escaping requests. *)
From Coq Require Import List NArith Bool String Ascii Arith Lia.
From SW Require Import model.S3List model.S3Paths.
Import ListNotations.
Local Open Scope list_scope.
Local Open Scope string_scope.

(* ---------- strings ---------- *)

Lemma ascii_eqb_true : forall a b, Ascii.eqb a b = true -> a = b.
Proof. intros a b H. apply Ascii.eqb_eq. exact H. Qed.

Lemma str_eqb_true : forall a b : string, (a =? b) = true -> a = b.
Proof. intros a b H. apply String.eqb_eq. exact H. Qed.

Lemma str_eqb_false : forall a b : string, (a =? b) = false -> a <> b.
Proof. intros a b H. apply String.eqb_neq. exact H. Qed.

Lemma append_assoc : forall a b c : string, (a ++ b) ++ c = a ++ (b ++ c).
Proof. induction a as [|x a IH]; intros b c; simpl; [reflexivity | rewrite IH; reflexivity]. Qed.

Lemma append_nil_r : forall a : string, a ++ "" = a.
Proof. induction a as [|x a IH]; simpl; [reflexivity | rewrite IH; reflexivity]. Qed.

Lemma split_nonempty : forall s, split_slash s <> [].
Proof.
  induction s as [|c s IH]; simpl; [discriminate|].
  destruct (Ascii.eqb c slash); [discriminate|].
  destruct (split_slash s); discriminate.
Qed.

Lemma split_app_slash : forall x y, split_slash (x ++ String slash y) = (split_slash x ++ split_slash y)%list.
Proof.
  induction x as [|c x IH]; intros y.
  - simpl. reflexivity.
  - simpl. destruct (Ascii.eqb c slash) eqn:E.
    + rewrite IH. reflexivity.
    + rewrite IH. destruct (split_slash x) as [|h t] eqn:Ex.
      * exfalso. exact (split_nonempty x Ex).
      * reflexivity.
Qed.

Lemma no_slash_split : forall s, no_slash s = true -> split_slash s = [s].
Proof.
  induction s as [|c s IH]; simpl; intros H; [reflexivity|].
  apply andb_true_iff in H. destruct H as [Hc Hs].
  destruct (Ascii.eqb c slash); [discriminate|].
  rewrite (IH Hs). reflexivity.
Qed.

Lemma split_segs_no_slash : forall s x, In x (split_slash s) -> no_slash x = true.
Proof.
  induction s as [|c s IH]; simpl; intros x H.
  - destruct H as [H|[]]. subst x. reflexivity.
  - destruct (Ascii.eqb c slash) eqn:E.
    + destruct H as [H|H]; [subst x; reflexivity | exact (IH x H)].
    + destruct (split_slash s) as [|h t] eqn:Es.
      * destruct H as [H|[]]. subst x. simpl. rewrite E. reflexivity.
      * destruct H as [H|H].
        -- subst x. simpl. rewrite E. simpl. apply IH. left. reflexivity.
        -- apply IH. right. exact H.
Qed.

Lemma rcut_slash_spec : forall s d n, rcut_slash s = Some (d, n) -> s = d ++ String slash n /\ no_slash n = true.
Proof.
  induction s as [|c s IH]; simpl; intros d n H; [discriminate|].
  destruct (rcut_slash s) as [[a b]|] eqn:E.
  - inversion H; subst. destruct (IH a n eq_refl) as [H1 H2]. split; [simpl; rewrite <- H1; reflexivity | exact H2].
  - destruct (Ascii.eqb c slash) eqn:Ec; [|discriminate].
    inversion H; subst. apply ascii_eqb_true in Ec. subst c. split; [reflexivity|].
    clear IH H. revert E. induction n as [|x n IHn]; simpl; intros E; [reflexivity|].
    destruct (rcut_slash n) as [[a b]|]; [discriminate|].
    destruct (Ascii.eqb x slash); [discriminate|]. simpl. apply IHn. reflexivity.
Qed.

Lemma rcut_slash_none : forall s, rcut_slash s = None -> no_slash s = true.
Proof.
  induction s as [|c s IH]; simpl; intros H; [reflexivity|].
  destruct (rcut_slash s) as [[a b]|]; [discriminate|].
  destruct (Ascii.eqb c slash); [discriminate|]. simpl. apply IH. reflexivity.
Qed.

Lemma cut_slash_spec : forall s a b, cut_slash s = Some (a, b) -> s = a ++ String slash b /\ no_slash a = true.
Proof.
  induction s as [|c s IH]; simpl; intros a b H; [discriminate|].
  destruct (Ascii.eqb c slash) eqn:Ec.
  - inversion H; subst. apply ascii_eqb_true in Ec. subst c. split; reflexivity.
  - destruct (cut_slash s) as [[x y]|]; [|discriminate]. inversion H; subst.
    destruct (IH x b eq_refl) as [H1 H2]. split; [simpl; rewrite <- H1; reflexivity | simpl; rewrite Ec; exact H2].
Qed.

Lemma starts_with_slash_spec : forall s, starts_with_slash s = true -> exists r, s = String slash r.
Proof.
  destruct s as [|c r]; simpl; intros H; [discriminate|].
  apply ascii_eqb_true in H. subst c. exists r. reflexivity.
Qed.

(* ---------- normalisation ---------- *)

Definition keep (s : string) : bool := negb ((s =? "") || (s =? ".")).
Definition nodd (l : list string) : Prop := forall s, In s l -> s <> "..".

Lemma fold_nodd : forall r B acc, nodd B ->
  fold_left (norm_step r) B acc = (rev (filter keep B) ++ acc)%list.
Proof.
  induction B as [|s B IH]; intros acc H; simpl; [reflexivity|].
  assert (Hs : s <> "..") by (apply H; left; reflexivity).
  assert (HB : nodd B) by (intros x Hx; apply H; right; exact Hx).
  unfold norm_step at 2. unfold keep at 1.
  destruct ((s =? "") || (s =? ".")) eqn:E; simpl.
  - apply IH. exact HB.
  - destruct (s =? "..") eqn:E2; [apply str_eqb_true in E2; contradiction|].
    rewrite IH by exact HB. rewrite <- app_assoc. reflexivity.
Qed.

Lemma norm_app_nodd : forall r A B, nodd B ->
  norm_segs r (A ++ B) = (norm_segs r A ++ filter keep B)%list.
Proof.
  intros r A B H. unfold norm_segs. rewrite fold_left_app. rewrite fold_nodd by exact H.
  rewrite rev_app_distr. rewrite rev_involutive. reflexivity.
Qed.

Lemma norm_nodd : forall r B, nodd B -> norm_segs r B = filter keep B.
Proof. intros r B H. apply (norm_app_nodd r [] B H). Qed.

(* what a normalised ROOTED segment list looks like *)
Definition clean_seg (s : string) : Prop := s <> "" /\ s <> "." /\ s <> "..".

Lemma norm_step_clean : forall acc s, Forall clean_seg acc -> Forall clean_seg (norm_step true acc s).
Proof.
  intros acc s H. unfold norm_step.
  destruct ((s =? "") || (s =? ".")) eqn:E; [exact H|].
  apply orb_false_iff in E. destruct E as [E1 E2]. apply str_eqb_false in E1. apply str_eqb_false in E2.
  destruct (s =? "..") eqn:E3.
  - destruct acc as [|t acc']; [constructor|].
    inversion H; subst. destruct (t =? "..") eqn:E4.
    + apply str_eqb_true in E4. destruct H2 as [_ [_ H2]]. contradiction.
    + exact H3.
  - apply str_eqb_false in E3. constructor; [repeat split; assumption | exact H].
Qed.

Lemma norm_rooted_clean : forall segs, Forall clean_seg (norm_segs true segs).
Proof.
  intros segs. unfold norm_segs. apply Forall_rev.
  assert (G : forall l acc, Forall clean_seg acc -> Forall clean_seg (fold_left (norm_step true) l acc)).
  { induction l as [|s l IH]; intros acc H; simpl; [exact H|]. apply IH. apply norm_step_clean. exact H. }
  apply G. constructor.
Qed.

Lemma norm_step_sub : forall r acc s x, In x (norm_step r acc s) -> In x acc \/ x = s \/ x = "..".
Proof.
  intros r acc s x H. unfold norm_step in H.
  destruct ((s =? "") || (s =? ".")); [left; exact H|].
  destruct (s =? "..").
  - destruct acc as [|t acc'].
    + destruct r; [destruct H | destruct H as [H|[]]; right; right; symmetry; exact H].
    + destruct (t =? "..").
      * destruct H as [H|H]; [right; right; symmetry; exact H | left; exact H].
      * left. right. exact H.
  - destruct H as [H|H]; [right; left; symmetry; exact H | left; exact H].
Qed.

Lemma norm_segs_sub : forall r segs x, In x (norm_segs r segs) -> In x segs \/ x = "..".
Proof.
  intros r segs x H. unfold norm_segs in H. apply in_rev in H.
  assert (G : forall l acc, In x (fold_left (norm_step r) l acc) -> In x acc \/ In x l \/ x = "..").
  { induction l as [|s l IH]; intros acc Hx; simpl in Hx; [left; exact Hx|].
    destruct (IH _ Hx) as [Hx'|[Hx'|Hx']].
    - destruct (norm_step_sub _ _ _ _ Hx') as [K|[K|K]]; [left; exact K | right; left; left; symmetry; exact K | right; right; exact K].
    - right. left. right. exact Hx'.
    - right. right. exact Hx'. }
  destruct (G _ _ H) as [K|[K|K]]; [destruct K | left; exact K | right; exact K].
Qed.

(* join / split round trip on slash-free segments *)
Lemma split_join : forall l, l <> [] -> Forall (fun s => no_slash s = true) l ->
  split_slash (join_slash l) = l.
Proof.
  induction l as [|a l IH]; intros Hne H; [contradiction|].
  inversion H; subst. destruct l as [|b l'].
  - simpl. apply no_slash_split. exact H2.
  - change (join_slash (a :: b :: l')) with (a ++ String slash (join_slash (b :: l'))).
    rewrite split_app_slash. rewrite (no_slash_split a H2). rewrite IH; [reflexivity | discriminate | exact H3].
Qed.

Lemma clean_seg_keep : forall l, Forall clean_seg l -> filter keep l = l /\ nodd l.
Proof.
  induction l as [|s l IH]; intros H; [split; [reflexivity | intros x []]|].
  inversion H; subst. destruct (IH H3) as [I1 I2]. destruct H2 as [A [B C]].
  split.
  - simpl. unfold keep at 1.
    destruct (s =? "") eqn:E1; [apply str_eqb_true in E1; contradiction|].
    destruct (s =? ".") eqn:E2; [apply str_eqb_true in E2; contradiction|].
    simpl. rewrite I1. reflexivity.
  - intros x [Hx|Hx]; [subst x; exact C | exact (I2 x Hx)].
Qed.

Lemma norm_fix : forall r l, Forall clean_seg l -> norm_segs r l = l.
Proof. intros r l H. destruct (clean_seg_keep l H) as [A B]. rewrite norm_nodd by exact B. exact A. Qed.

(* ---------- clean on rooted paths ---------- *)

Definition rsegs (p : string) : list string := norm_segs true (split_slash p).

Lemma clean_rooted : forall p, starts_with_slash p = true -> clean p = "/" ++ join_slash (rsegs p).
Proof. intros p H. unfold clean. rewrite H. reflexivity. Qed.

Lemma rsegs_no_slash : forall p, Forall (fun s => no_slash s = true) (rsegs p).
Proof.
  intros p. apply Forall_forall. intros x Hx. unfold rsegs in Hx.
  destruct (norm_segs_sub _ _ _ Hx) as [K|K]; [exact (split_segs_no_slash _ _ K) | subst x; reflexivity].
Qed.

Lemma rsegs_of_rooted_join : forall l, Forall clean_seg l -> Forall (fun s => no_slash s = true) l ->
  rsegs ("/" ++ join_slash l) = l.
Proof.
  intros l Hc Hn. unfold rsegs. destruct l as [|a l'].
  - reflexivity.
  - change ("/" ++ join_slash (a :: l')) with ("" ++ String slash (join_slash (a :: l'))).
    rewrite split_app_slash. rewrite split_join; [|discriminate|exact Hn].
    simpl split_slash. change ([""] ++ a :: l')%list with ([""] ++ (a :: l'))%list.
    rewrite norm_app_nodd; [|exact (proj2 (clean_seg_keep _ Hc))].
    rewrite (proj1 (clean_seg_keep _ Hc)). reflexivity.
Qed.

Lemma rsegs_clean : forall p, starts_with_slash p = true -> rsegs (clean p) = rsegs p.
Proof.
  intros p H. rewrite clean_rooted by exact H.
  apply rsegs_of_rooted_join; [apply norm_rooted_clean | apply rsegs_no_slash].
Qed.

Lemma clean_starts : forall p, starts_with_slash p = true -> starts_with_slash (clean p) = true.
Proof. intros p H. rewrite clean_rooted by exact H. reflexivity. Qed.

Lemma clean_idem : forall p, starts_with_slash p = true -> clean (clean p) = clean p.
Proof.
  intros p H. rewrite (clean_rooted (clean p)) by (apply clean_starts; exact H).
  rewrite rsegs_clean by exact H. symmetry. apply clean_rooted. exact H.
Qed.

Lemma rsegs_trailing_slash : forall p, rsegs (p ++ "/") = rsegs p.
Proof.
  intros p. unfold rsegs. change (p ++ "/") with (p ++ String slash "").
  rewrite split_app_slash. simpl split_slash.
  unfold norm_segs. rewrite fold_left_app. simpl. reflexivity.
Qed.

Lemma starts_app : forall p q, starts_with_slash p = true -> starts_with_slash (p ++ q) = true.
Proof. intros p q H. destruct (starts_with_slash_spec _ H) as [r E]. subst p. reflexivity. Qed.

Lemma clean_trailing_slash : forall p, starts_with_slash p = true -> clean (p ++ "/") = clean p.
Proof.
  intros p H. rewrite (clean_rooted (p ++ "/")) by (apply starts_app; exact H).
  rewrite rsegs_trailing_slash. symmetry. apply clean_rooted. exact H.
Qed.

Lemma clean_mux_clean : forall p, starts_with_slash p = true -> clean (mux_clean p) = clean p.
Proof.
  intros p H. unfold mux_clean.
  destruct (starts_with_slash_spec _ H) as [r E]. subst p.
  change (String slash r =? "") with false. cbv iota. rewrite H.
  destruct (ends_with_slash (String slash r) && negb (clean (String slash r) =? "/")).
  - rewrite clean_trailing_slash by (apply clean_starts; exact H). apply clean_idem. exact H.
  - apply clean_idem. exact H.
Qed.

Lemma join_split : forall s, join_slash (split_slash s) = s.
Proof.
  induction s as [|c s IH]; [reflexivity|].
  simpl split_slash. destruct (Ascii.eqb c slash) eqn:E.
  - apply ascii_eqb_true in E. subst c.
    destruct (split_slash s) as [|h t] eqn:Es; [exfalso; exact (split_nonempty s Es)|].
    change (join_slash ("" :: h :: t)) with ("" ++ String slash (join_slash (h :: t))).
    rewrite IH. reflexivity.
  - destruct (split_slash s) as [|h t] eqn:Es; [exfalso; exact (split_nonempty s Es)|].
    destruct t as [|h2 t2].
    + unfold join_slash in *. simpl in *. rewrite IH. reflexivity.
    + change (join_slash (String c h :: h2 :: t2)) with (String c (h ++ String slash (join_slash (h2 :: t2)))).
      change (join_slash (h :: h2 :: t2)) with (h ++ String slash (join_slash (h2 :: t2))) in IH.
      rewrite IH. reflexivity.
Qed.

Lemma split_inj : forall a b, split_slash a = split_slash b -> a = b.
Proof. intros a b H. rewrite <- (join_split a), <- (join_split b), H. reflexivity. Qed.

Lemma prefix_app : forall a b, String.prefix a (a ++ b) = true.
Proof.
  induction a as [|c a IH]; intros b; simpl; [destruct b; reflexivity|].
  destruct (ascii_dec c c) as [_|N]; [apply IH | contradiction].
Qed.

Lemma prefix_exists : forall a s, String.prefix a s = true -> exists z, s = a ++ z.
Proof.
  induction a as [|c a IH]; intros s H; [exists s; reflexivity|].
  destruct s as [|d s]; simpl in H; [discriminate|].
  destruct (ascii_dec c d) as [E|N]; [|discriminate]. subst d.
  destruct (IH s H) as [z Hz]. exists z. simpl. rewrite Hz. reflexivity.
Qed.

Lemma split_head_rooted : forall p x r, split_slash p = "" :: x :: r -> starts_with_slash p = true.
Proof.
  destruct p as [|c p]; simpl; intros x r H; [discriminate|].
  destruct (Ascii.eqb c slash) eqn:E; [reflexivity|].
  destruct (split_slash p); discriminate.
Qed.

Lemma rcut_split : forall s d n, rcut_slash s = Some (d, n) -> split_slash s = (split_slash d ++ [n])%list.
Proof.
  intros s d n H. destruct (rcut_slash_spec _ _ _ H) as [E N]. subst s.
  rewrite split_app_slash. rewrite (no_slash_split n N). reflexivity.
Qed.

Lemma rcut_rooted : forall r, exists d n, rcut_slash (String slash r) = Some (d, n).
Proof.
  intros r. simpl. destruct (rcut_slash r) as [[a b]|]; [exists (String slash a), b; reflexivity|].
  exists "", r. reflexivity.
Qed.


(* ---------- more string lemmas ---------- *)

Lemma ends_app_slash : forall x, ends_with_slash (x ++ "/") = true.
Proof.
  induction x as [|c x IH]; [reflexivity|].
  change (String c x ++ "/") with (String c (x ++ "/")).
  destruct x as [|c2 x2]; [reflexivity|].
  change (String c2 x2 ++ "/") with (String c2 (x2 ++ "/")) in *.
  exact IH.
Qed.

Lemma strip_app_slash : forall x, strip_one_trailing_slash (x ++ "/") = x.
Proof.
  induction x as [|c x IH]; [reflexivity|].
  change (String c x ++ "/") with (String c (x ++ "/")).
  destruct x as [|c2 x2]; [reflexivity|].
  change (String c2 x2 ++ "/") with (String c2 (x2 ++ "/")) in *.
  change (strip_one_trailing_slash (String c (String c2 (x2 ++ "/"))))
    with (String c (strip_one_trailing_slash (String c2 (x2 ++ "/")))).
  rewrite IH. reflexivity.
Qed.

Lemma strip_one_spec : forall s, ends_with_slash s = true -> s = strip_one_trailing_slash s ++ "/".
Proof.
  induction s as [|c r IH]; intros H; [discriminate|].
  destruct r as [|c2 r2].
  - simpl in H. apply ascii_eqb_true in H. subst c. reflexivity.
  - change (ends_with_slash (String c (String c2 r2))) with (ends_with_slash (String c2 r2)) in H.
    change (String c (String c2 r2) = String c (strip_one_trailing_slash (String c2 r2) ++ "/")).
    rewrite <- (IH H). reflexivity.
Qed.

(* ---------- the lexical walk ---------- *)

Definition run (st segs : list string) : list string := fold_left (norm_step true) segs st.

Lemma run_app : forall A B st, run st (A ++ B) = run (run st A) B.
Proof. intros A B st. unfold run. apply fold_left_app. Qed.

Lemma skip_seg_step : forall s st, skip_seg s = true -> norm_step true st s = st.
Proof. intros s st H. unfold norm_step. unfold skip_seg in H. rewrite H. reflexivity. Qed.

Section Walk.
  Variable forbid : string -> bool.

  Lemma esc_skip : forall s st r, skip_seg s = true -> escapes forbid st (s :: r) = escapes forbid st r.
  Proof. intros s st r H. simpl. rewrite H. reflexivity. Qed.

  (* a prefix of a walk that does not escape does not escape *)
  Lemma esc_prefix : forall A B st, escapes forbid st (A ++ B) = false -> escapes forbid st A = false.
  Proof.
    induction A as [|s A IH]; intros B st H; [reflexivity|].
    simpl in H. simpl. destruct (skip_seg s); [exact (IH B st H)|].
    destruct (s =? "..").
    - destruct st as [|t st']; [discriminate | exact (IH B st' H)].
    - destruct (match st with [] => forbid s | _ :: _ => false end); [discriminate | exact (IH B _ H)].
  Qed.

  (* a deeper stack only helps *)
  Lemma esc_weaken : forall B st st2, escapes forbid st B = false -> escapes forbid (st ++ st2) B = false.
  Proof.
    induction B as [|s B IH]; intros st st2 H; [reflexivity|].
    simpl in H. simpl. destruct (skip_seg s); [exact (IH st st2 H)|].
    destruct (s =? "..").
    - destruct st as [|t st']; [discriminate|]. simpl. exact (IH st' st2 H).
    - destruct st as [|t st'].
      + destruct (forbid s) eqn:EF; [discriminate|]. simpl app.
        destruct st2 as [|u st2'].
        * exact H.
        * exact (IH [s] (u :: st2') H).
      + simpl. exact (IH (s :: t :: st') st2 H).
  Qed.

  (* while the walk does not escape, its stack is the normalisation stack of clean *)
  Lemma esc_app : forall A B st, nodd st -> escapes forbid st A = false ->
    escapes forbid st (A ++ B) = escapes forbid (run st A) B /\ nodd (run st A).
  Proof.
    induction A as [|s A IH]; intros B st N H; [split; [reflexivity | exact N]|].
    simpl in H. change ((s :: A) ++ B)%list with (s :: (A ++ B))%list.
    change (run st (s :: A)) with (run (norm_step true st s) A).
    simpl escapes. destruct (skip_seg s) eqn:ES.
    - rewrite (skip_seg_step s st ES). exact (IH B st N H).
    - assert (ES' : ((s =? "") || (s =? ".")) = false) by exact ES.
      unfold norm_step. rewrite ES'. destruct (s =? "..") eqn:ED.
      + destruct st as [|t st']; [discriminate|].
        assert (Ht : (t =? "..") = false) by (apply String.eqb_neq; apply N; left; reflexivity).
        rewrite Ht. apply IH; [|exact H]. intros x Hx. apply N. right. exact Hx.
      + assert (N' : nodd (s :: st)).
        { intros x [Hx|Hx]; [subst x; apply String.eqb_neq; exact ED | apply N; exact Hx]. }
        destruct (match st with [] => forbid s | _ :: _ => false end); [discriminate|].
        exact (IH B (s :: st) N' H).
  Qed.

  Lemma nodd_nil : nodd [].
  Proof. intros s []. Qed.

  Definition okw (l : list string) : Prop := escapes forbid [] l = false.
  Notation ok := okw.

  Lemma ok_nil : ok [].
  Proof. reflexivity. Qed.

  Lemma ok_prefix : forall A B, ok (A ++ B) -> ok A.
  Proof. intros A B H. exact (esc_prefix A B [] H). Qed.

  Lemma ok_app : forall A B, ok A -> ok B -> ok (A ++ B).
  Proof.
    intros A B HA HB. unfold okw. destruct (esc_app A B [] nodd_nil HA) as [E _]. rewrite E.
    exact (esc_weaken B [] (run [] A) HB).
  Qed.

  Lemma ok_cons_skip : forall s l, skip_seg s = true -> ok (s :: l) <-> ok l.
  Proof. intros s l H. unfold okw. rewrite (esc_skip s [] l H). tauto. Qed.

  (* a skipped segment in the middle does not matter *)
  Lemma esc_mid_skip : forall A s B st, skip_seg s = true ->
    escapes forbid st (A ++ s :: B) = escapes forbid st (A ++ B).
  Proof.
    induction A as [|a A IH]; intros s B st H.
    - simpl. rewrite H. reflexivity.
    - change ((a :: A) ++ s :: B)%list with (a :: (A ++ s :: B))%list.
      change ((a :: A) ++ B)%list with (a :: (A ++ B))%list.
      simpl. destruct (skip_seg a); [apply IH; exact H|].
      destruct (a =? "..").
      + destruct st as [|t st']; [reflexivity | apply IH; exact H].
      + destruct (match st with [] => forbid a | _ :: _ => false end); [reflexivity | apply IH; exact H].
  Qed.

  Lemma ok_snoc_skip : forall A s, skip_seg s = true -> ok A -> ok (A ++ [s]).
  Proof. intros A s H HA. unfold okw. rewrite (esc_mid_skip A s [] [] H). rewrite app_nil_r. exact HA. Qed.

  Lemma plain_seg_spec : forall s, plain_seg s = true -> s <> "" /\ s <> "." /\ s <> "..".
  Proof.
    intros s H. unfold plain_seg in H. apply negb_true_iff in H.
    apply orb_false_iff in H. destruct H as [H H3]. apply orb_false_iff in H. destruct H as [H1 H2].
    repeat split; apply String.eqb_neq; assumption.
  Qed.

  Lemma plain_not_skip : forall s, plain_seg s = true -> skip_seg s = false /\ (s =? "..") = false.
  Proof.
    intros s H. destruct (plain_seg_spec s H) as [A [B C]]. unfold skip_seg. split.
    - apply orb_false_iff. split; apply String.eqb_neq; assumption.
    - apply String.eqb_neq. exact C.
  Qed.

  (* appending an ordinary name *)
  Lemma ok_snoc_plain : forall A s, ok A -> plain_seg s = true -> (run [] A = [] -> forbid s = false) ->
    ok (A ++ [s]).
  Proof.
    intros A s HA P F. unfold okw. destruct (esc_app A [s] [] nodd_nil HA) as [E _]. rewrite E.
    destruct (plain_not_skip s P) as [S D]. simpl. rewrite S, D.
    destruct (run [] A) as [|t st]; [rewrite (F eq_refl); reflexivity | reflexivity].
  Qed.

  (* the stack never reaches below what it started on *)
  Lemma run_base : forall C st base, nodd st -> escapes forbid st C = false ->
    run (st ++ base) C = (run st C ++ base)%list.
  Proof.
    induction C as [|s C IH]; intros st base N H; [reflexivity|].
    simpl in H. change (run (st ++ base) (s :: C)) with (run (norm_step true (st ++ base) s) C).
    change (run st (s :: C)) with (run (norm_step true st s) C).
    destruct (skip_seg s) eqn:ES.
    - rewrite !(skip_seg_step s _ ES). exact (IH st base N H).
    - assert (ES' : ((s =? "") || (s =? ".")) = false) by exact ES.
      unfold norm_step. rewrite ES'. destruct (s =? "..") eqn:ED.
      + destruct st as [|t st']; [discriminate|].
        assert (Ht : (t =? "..") = false) by (apply String.eqb_neq; apply N; left; reflexivity).
        simpl. rewrite Ht. apply IH; [|exact H]. intros x Hx. apply N. right. exact Hx.
      + assert (N' : nodd (s :: st)).
        { intros x [Hx|Hx]; [subst x; apply String.eqb_neq; exact ED | apply N; exact Hx]. }
        destruct (match st with [] => forbid s | _ :: _ => false end); [discriminate|].
        exact (IH (s :: st) base N' H).
  Qed.

  (* the bottom of the stack is never a forbidden name *)
  Definition botok (st : list string) : Prop := st = [] \/ forbid (last st "") = false.

  Lemma last_cons2 : forall (a b : string) l d, last (a :: b :: l) d = last (b :: l) d.
  Proof. reflexivity. Qed.

  Lemma run_botok : forall C st, nodd st -> escapes forbid st C = false -> botok st -> botok (run st C).
  Proof.
    induction C as [|s C IH]; intros st N H B; [exact B|].
    simpl in H. change (run st (s :: C)) with (run (norm_step true st s) C).
    destruct (skip_seg s) eqn:ES.
    - rewrite (skip_seg_step s st ES). exact (IH st N H B).
    - assert (ES' : ((s =? "") || (s =? ".")) = false) by exact ES.
      unfold norm_step. rewrite ES'. destruct (s =? "..") eqn:ED.
      + destruct st as [|t st']; [discriminate|].
        assert (Ht : (t =? "..") = false) by (apply String.eqb_neq; apply N; left; reflexivity).
        rewrite Ht.
        assert (B' : botok st').
        { destruct st' as [|u st'']; [left; reflexivity|]. right.
          destruct B as [B|B]; [discriminate|]. rewrite last_cons2 in B. exact B. }
        apply IH; [intros x Hx; apply N; right; exact Hx | exact H | exact B'].
      + assert (N' : nodd (s :: st)).
        { intros x [Hx|Hx]; [subst x; apply String.eqb_neq; exact ED | apply N; exact Hx]. }
        destruct st as [|t st'].
        * destruct (forbid s) eqn:EF; [discriminate|]. apply IH; [exact N' | exact H|]. right. exact EF.
        * apply IH; [exact N' | exact H|]. right. destruct B as [B|B]; [discriminate|]. rewrite last_cons2. exact B.
  Qed.
End Walk.

(* ---------- containment, parametrised by the names forbidden directly below the bucket ---------- *)

Section Under.
  Variable forbid : string -> bool.

  Notation ok := (okw forbid).

  (* the raw segments of P are  "", "buckets", b  followed by a walk that does not escape *)
  Definition under_ext (b P : string) (R : list string) : Prop :=
    exists C, split_slash P = ("" :: "buckets" :: b :: C)%list /\ ok (C ++ R).
  Definition under (b P : string) : Prop := under_ext b P [].

  Lemma under_spec : forall b P, under b P <-> exists C, split_slash P = ("" :: "buckets" :: b :: C)%list /\ ok C.
  Proof.
    intros b P. unfold under, under_ext. split; intros [C [E O]]; exists C; split; try exact E.
    - rewrite app_nil_r in O. exact O.
    - rewrite app_nil_r. exact O.
  Qed.

  Lemma under_ext_under : forall b P R, under_ext b P R -> under b P.
  Proof. intros b P R [C [E O]]. apply under_spec. exists C. split; [exact E | exact (ok_prefix forbid C R O)]. Qed.

  Lemma under_ext_app : forall b P r R, under_ext b P (split_slash r ++ R) -> under_ext b (P ++ String slash r) R.
  Proof.
    intros b P r R [C [E O]]. exists (C ++ split_slash r)%list. split.
    - rewrite split_app_slash, E. reflexivity.
    - rewrite <- app_assoc. exact O.
  Qed.

  Lemma under_app : forall b P r, under_ext b P (split_slash r) -> under b (P ++ String slash r).
  Proof. intros b P r H. apply under_ext_app. rewrite app_nil_r. exact H. Qed.

  Lemma under_ext_ok : forall b P R, under b P -> ok R -> under_ext b P R.
  Proof.
    intros b P R U O. apply under_spec in U. destruct U as [C [E OC]]. exists C. split; [exact E|].
    apply ok_app; assumption.
  Qed.

  Definition good (b : string) : Prop := bad_bucket b = false.

  Lemma good_spec : forall b, good b ->
    b <> "" /\ b <> "." /\ b <> ".." /\ no_slash b = true /\ no_pct b = true.
  Proof.
    intros b H. unfold good, bad_bucket, router_refuses, odd_bucket in H.
    apply orb_false_iff in H. destruct H as [H H5].
    apply orb_false_iff in H. destruct H as [H H4].
    apply orb_false_iff in H. destruct H as [H H3].
    apply orb_false_iff in H. destruct H as [H1 H2].
    repeat split; try (apply str_eqb_false; assumption).
    - apply negb_false_iff. exact H4.
    - apply negb_false_iff. exact H5.
  Qed.

  Lemma good_routed : forall b, good b -> router_refuses b = false.
  Proof. intros b H. unfold good, bad_bucket in H. apply orb_false_iff in H. exact (proj1 H). Qed.

  Lemma split_bucket_dir : forall b, no_slash b = true -> split_slash (bucket_dir b) = ["" ; "buckets"; b].
  Proof.
    intros b H. unfold bucket_dir, buckets_path.
    change ("/buckets" ++ "/" ++ b) with ("/buckets" ++ String slash b).
    rewrite split_app_slash. rewrite (no_slash_split b H). reflexivity.
  Qed.

  Lemma under_ext_bucket_dir : forall b R, good b -> ok R -> under_ext b (bucket_dir b) R.
  Proof.
    intros b R H O. destruct (good_spec b H) as [_ [_ [_ [N _]]]].
    exists []. split; [apply split_bucket_dir; exact N | exact O].
  Qed.

  Lemma under_bucket_dir : forall b, good b -> under b (bucket_dir b).
  Proof. intros b H. apply under_ext_bucket_dir; [exact H | apply ok_nil]. Qed.

  Lemma under_rooted : forall b P, under b P -> starts_with_slash P = true.
  Proof. intros b P [C [E _]]. exact (split_head_rooted _ _ _ E). Qed.

  Lemma plain_bucket : forall b, good b -> plain_seg b = true.
  Proof.
    intros b G. destruct (good_spec b G) as [B1 [B2 [B3 _]]]. unfold plain_seg.
    apply negb_true_iff. apply orb_false_iff. split; [apply orb_false_iff; split|]; apply String.eqb_neq; assumption.
  Qed.

  (* the cleaned segments of a path under the bucket directory *)
  Lemma rsegs_under : forall b P, good b -> under b P ->
    exists C C', split_slash P = ("" :: "buckets" :: b :: C)%list /\ ok C /\
                 C' = norm_segs true C /\
                 rsegs P = ("buckets" :: b :: C')%list /\ Forall clean_seg C' /\
                 (forall x r, C' = (x :: r)%list -> forbid x = false).
  Proof.
    intros b P G U. apply under_spec in U. destruct U as [C [E O]].
    exists C, (norm_segs true C). split; [exact E|]. split; [exact O|]. split; [reflexivity|].
    destruct (plain_not_skip b (plain_bucket b G)) as [Sb Db].
    assert (Sb' : ((b =? "") || (b =? ".")) = false) by exact Sb.
    split; [|split].
    - unfold rsegs. rewrite E. unfold norm_segs.
      change (fold_left (norm_step true) ("" :: "buckets" :: b :: C) [])
        with (run (norm_step true (norm_step true (norm_step true [] "") "buckets") b) C).
      assert (E3 : norm_step true (norm_step true (norm_step true [] "") "buckets") b = [b; "buckets"]).
      { unfold norm_step at 2 3. simpl. unfold norm_step. rewrite Sb', Db. reflexivity. }
      rewrite E3.
      change [b; "buckets"] with ([] ++ [b; "buckets"])%list.
      rewrite (run_base forbid C [] [b; "buckets"] (nodd_nil) O).
      rewrite rev_app_distr. reflexivity.
    - apply norm_rooted_clean.
    - intros x r Ex.
      pose proof (run_botok forbid C [] nodd_nil O (or_introl eq_refl)) as B.
      unfold norm_segs in Ex. fold (run [] C) in Ex.
      assert (EL : run [] C = (rev r ++ [x])%list).
      { rewrite <- (rev_involutive (run [] C)). rewrite Ex. reflexivity. }
      destruct B as [B|B].
      + rewrite B in EL. destruct (rev r); discriminate.
      + rewrite EL in B. rewrite last_last in B. exact B.
  Qed.

  Lemma clean_bucket_dir : forall b, good b -> clean (bucket_dir b) = bucket_dir b.
  Proof.
    intros b G. destruct (rsegs_under b (bucket_dir b) G (under_bucket_dir b G)) as [C [C' [E [_ [EC [R _]]]]]].
    destruct (good_spec b G) as [_ [_ [_ [N _]]]]. rewrite (split_bucket_dir b N) in E.
    inversion E; subst C. subst C'. rewrite clean_rooted by reflexivity. rewrite R. reflexivity.
  Qed.

  Lemma under_contained : forall b P, good b -> under b P -> contained b P = true.
  Proof.
    intros b P G U. unfold contained. rewrite (clean_bucket_dir b G).
    rewrite (clean_rooted P (under_rooted b P U)).
    destruct (rsegs_under b P G U) as [C [C' [_ [_ [_ [E _]]]]]]. rewrite E. unfold inside.
    destruct C' as [|c C''].
    - change ("/" ++ join_slash ["buckets"; b]) with (bucket_dir b). rewrite String.eqb_refl. reflexivity.
    - apply orb_true_iff. right.
      change ("/" ++ join_slash ("buckets" :: b :: c :: C''))
        with ("/buckets/" ++ (b ++ String slash (join_slash (c :: C'')))).
      unfold bucket_dir, buckets_path.
      change (("/buckets" ++ "/" ++ b) ++ "/") with ("/buckets/" ++ (b ++ "/")).
      change ("/buckets/" ++ (b ++ String slash (join_slash (c :: C''))))
        with ("/buckets/" ++ (b ++ ("/" ++ join_slash (c :: C'')))).
      rewrite <- (append_assoc b "/" (join_slash (c :: C''))).
      rewrite <- (append_assoc "/buckets/" (b ++ "/") (join_slash (c :: C''))).
      apply prefix_app.
  Qed.

  Lemma contained_clean : forall b X, starts_with_slash X = true -> contained b (clean X) = contained b X.
  Proof. intros b X H. unfold contained. rewrite clean_idem by exact H. reflexivity. Qed.

  Lemma contained_mux_clean : forall b X, starts_with_slash X = true -> contained b (mux_clean X) = contained b X.
  Proof. intros b X H. unfold contained. rewrite clean_mux_clean by exact H. reflexivity. Qed.

  Definition cok (b : string) (c : fcall) : Prop :=
    match effective c with Some e => under b e \/ (exists X, under b X /\ (e = clean X \/ e = mux_clean X)) | None => True end.

  (* ----- HTTP ----- *)
  Lemma http_calls_cok : forall b m p, under b p -> Forall (cok b) (http_calls m p).
  Proof.
    intros b m p U. unfold http_calls. destruct (canonical p) eqn:E.
    - constructor; [|constructor]. unfold cok. simpl. rewrite E. left. exact U.
    - constructor; [unfold cok; simpl; rewrite E; exact I|].
      constructor; [|constructor]. unfold cok. simpl.
      destruct (canonical (mux_clean p)); [|exact I].
      right. exists p. split; [exact U | right; reflexivity].
  Qed.

  (* ----- gRPC lookups / deletes: util.JoinPath ----- *)
  Lemma norm_cons_empty : forall r X, norm_segs r ("" :: X) = norm_segs r X.
  Proof. intros r X. unfold norm_segs. simpl. reflexivity. Qed.

  Lemma join_dn_clean : forall P, starts_with_slash P = true ->
    join_path (fst (dir_and_name P)) (snd (dir_and_name P)) = clean P.
  Proof.
    intros P H. destruct (starts_with_slash_spec _ H) as [r E]. subst P.
    destruct (rcut_rooted r) as [d0 [n R]]. unfold dir_and_name. rewrite R.
    destruct (rcut_slash_spec _ _ _ R) as [E N].
    destruct (d0 =? "") eqn:Ed.
    - apply str_eqb_true in Ed. subst d0. simpl in E. inversion E; subst r. simpl fst. simpl snd.
      unfold join_path. destruct (n =? "") eqn:En.
      + apply str_eqb_true in En. subst n. reflexivity.
      + change ("/" =? "") with false. cbv iota.
        rewrite (clean_rooted ("/" ++ "/" ++ n)) by reflexivity.
        rewrite (clean_rooted (String slash n)) by reflexivity.
        assert (R2 : rsegs ("/" ++ "/" ++ n) = rsegs (String slash n)); [|rewrite R2; reflexivity].
        unfold rsegs.
        change ("/" ++ "/" ++ n) with ("" ++ String slash (String slash n)).
        rewrite split_app_slash.
        change (split_slash "" ++ split_slash (String slash n))%list with ("" :: split_slash (String slash n)).
        apply norm_cons_empty.
    - simpl fst. simpl snd. unfold join_path. rewrite Ed.
      assert (Hd : starts_with_slash d0 = true).
      { destruct d0 as [|c d0']; [discriminate|]. simpl in E. inversion E. reflexivity. }
      destruct (n =? "") eqn:En.
      + apply str_eqb_true in En. subst n. rewrite E.
        change (d0 ++ String slash "") with (d0 ++ "/"). symmetry. apply clean_trailing_slash. exact Hd.
      + rewrite E. reflexivity.
  Qed.

  Lemma join_path_cok_form : forall b D n, under_ext b D (split_slash n) ->
    exists X, under b X /\ join_path D n = clean X.
  Proof.
    intros b D n U. unfold join_path. destruct (n =? "") eqn:En.
    - exists D. split; [exact (under_ext_under b D _ U) | reflexivity].
    - destruct (D =? "") eqn:Ed.
      + apply str_eqb_true in Ed. subst D. destruct U as [C [E _]]. discriminate.
      + exists (D ++ String slash n). split; [apply under_app; exact U | reflexivity].
  Qed.

  Lemma lookup_cok : forall b D n, under_ext b D (split_slash n) -> cok b (GLookup D n).
  Proof.
    intros b D n U. unfold cok. simpl. right.
    destruct (join_path_cok_form b D n U) as [X [UX E]]. exists X. split; [exact UX | left; exact E].
  Qed.

  Lemma delete_cok : forall b D n r, under_ext b D (split_slash n) -> cok b (GDelete D n r).
  Proof.
    intros b D n r U. unfold cok. simpl. right.
    destruct (join_path_cok_form b D n U) as [X [UX E]]. exists X. split; [exact UX | left; exact E].
  Qed.

  Lemma dn_no_slash : forall P, no_slash (snd (dir_and_name P)) = true.
  Proof.
    intros P. unfold dir_and_name. destruct (rcut_slash P) as [[d0 n]|] eqn:R; [|reflexivity].
    destruct (rcut_slash_spec _ _ _ R) as [_ N]. destruct (d0 =? ""); exact N.
  Qed.

  (* DirAndName of a path with at least one segment behind the bucket *)
  Lemma dn_under : forall b P C, split_slash P = ("" :: "buckets" :: b :: C)%list -> C <> [] -> ok C ->
    split_slash (fst (dir_and_name P)) = ("" :: "buckets" :: b :: removelast C)%list /\
    snd (dir_and_name P) = last C "" /\
    under_ext b (fst (dir_and_name P)) (split_slash (snd (dir_and_name P))) /\
    P = fst (dir_and_name P) ++ String slash (snd (dir_and_name P)).
  Proof.
    intros b P C E NE O.
    assert (HP : starts_with_slash P = true) by exact (split_head_rooted _ _ _ E).
    destruct (starts_with_slash_spec _ HP) as [r Er]. subst P.
    pose proof (dn_no_slash (String slash r)) as NS.
    destruct (rcut_rooted r) as [d0 [n R]]. unfold dir_and_name in *. rewrite R in *.
    pose proof (rcut_split _ _ _ R) as S. rewrite E in S.
    destruct (rcut_slash_spec _ _ _ R) as [E2 N].
    assert (Hd : split_slash d0 = ("" :: "buckets" :: b :: removelast C)%list /\ n = last C "").
    { change ("" :: "buckets" :: b :: C)%list with (["" ; "buckets"; b] ++ C)%list in S.
      rewrite (app_removelast_last "" NE) in S. rewrite app_assoc in S.
      apply app_inj_tail in S. destruct S as [S1 S2]. split; [symmetry; exact S1 | symmetry; exact S2]. }
    destruct Hd as [Hd Hn].
    destruct (d0 =? "") eqn:Ed.
    - apply str_eqb_true in Ed. subst d0. discriminate.
    - simpl fst in *. simpl snd in *. split; [exact Hd|]. split; [exact Hn|]. split; [|exact E2].
      exists (removelast C). split; [exact Hd|].
      rewrite (no_slash_split n N). rewrite Hn. rewrite <- (app_removelast_last "" NE). exact O.
  Qed.

  Lemma opath_split : forall b k, good b ->
    split_slash (bucket_dir b ++ String slash k) = ("" :: "buckets" :: b :: split_slash k)%list.
  Proof.
    intros b k G. destruct (good_spec b G) as [_ [_ [_ [N _]]]].
    rewrite split_app_slash. rewrite (split_bucket_dir b N). reflexivity.
  Qed.

  Lemma under_opath : forall b k, good b -> ok (split_slash k) -> under b (bucket_dir b ++ String slash k).
  Proof. intros b k G O. apply under_app. apply under_ext_bucket_dir; assumption. Qed.

  Lemma last_in : forall (l : list string) d, l <> [] -> In (last l d) l.
  Proof.
    induction l as [|a l IH]; intros d NE; [contradiction|].
    destruct l as [|a2 l']; [left; reflexivity | right; apply IH; discriminate].
  Qed.

  (* GLookup + the UpdateEntry that follows it, for the DirAndName of an object path *)
  Lemma dn_lookup_update_cok : forall fx b k, good b -> forbid b = false -> ok (split_slash k) ->
    let P := bucket_dir b ++ String slash k in
    Forall (cok b) (GLookup (fst (dir_and_name P)) (snd (dir_and_name P)) ::
                    update_after_lookup fx (fst (dir_and_name P)) (snd (dir_and_name P))).
  Proof.
    intros fx b k G Bb O P.
    pose proof (opath_split b k G) as S. fold P in S.
    destruct (dn_under b P (split_slash k) S (split_nonempty k) O) as [Sd [Sn [Ud EP]]].
    constructor; [apply lookup_cok; exact Ud|].
    unfold update_after_lookup. destruct (exists_at fx _); [|constructor].
    constructor; [|constructor]. unfold cok. simpl. left.
    assert (UP : under b P) by (apply under_opath; assumption).
    rewrite (join_dn_clean P (under_rooted b P UP)).
    destruct (rsegs_under b P G UP) as [C [C' [E [OC [EC [R [F BT]]]]]]].
    rewrite S in E. inversion E; subst C. clear E.
    (* the entry name: the last segment of the cleaned path *)
    set (name := entry_name (clean P)).
    assert (SC : split_slash (clean P) = ("" :: "buckets" :: b :: C')%list).
    { rewrite (clean_rooted P (under_rooted b P UP)). rewrite R.
      change ("/" ++ join_slash ("buckets" :: b :: C')) with ("" ++ String slash (join_slash ("buckets" :: b :: C'))).
      rewrite split_app_slash. rewrite split_join; [reflexivity | discriminate |].
      pose proof (rsegs_no_slash P) as NS. rewrite R in NS. exact NS. }
    assert (HN : name = last (b :: C') "" /\ no_slash name = true).
    { unfold name, entry_name.
      assert (HR : starts_with_slash (clean P) = true) by (apply clean_starts; exact (under_rooted b P UP)).
      destruct (starts_with_slash_spec _ HR) as [r0 Er0]. rewrite Er0 in *.
      destruct (rcut_rooted r0) as [d0 [n0 R0]]. rewrite R0.
      destruct (rcut_slash_spec _ _ _ R0) as [_ N0].
      pose proof (rcut_split _ _ _ R0) as S2. rewrite SC in S2.
      split; [|exact N0].
      change ("" :: "buckets" :: b :: C')%list with (["" ; "buckets"] ++ (b :: C'))%list in S2.
      assert (NE : (b :: C')%list <> []) by discriminate.
      rewrite (app_removelast_last "" NE) in S2. rewrite app_assoc in S2.
      apply app_inj_tail in S2. symmetry. exact (proj2 S2). }
    destruct HN as [HN NN].
    apply under_app. exists (removelast (split_slash k)). split; [exact Sd|].
    rewrite (no_slash_split name NN).
    assert (OD : ok (removelast (split_slash k))).
    { apply (ok_prefix forbid _ [last (split_slash k) ""]).
      rewrite <- (app_removelast_last "" (split_nonempty k)). exact O. }
    destruct C' as [|c0 C''].
    - (* the path cleans to the bucket directory: the entry is the bucket *)
      simpl in HN. rewrite HN. apply ok_snoc_plain; [exact OD | exact (plain_bucket b G) | intros _; exact Bb].
    - assert (NEc : (c0 :: C'')%list <> []) by discriminate.
      assert (HL : name = last (c0 :: C'') "").
      { rewrite HN. reflexivity. }
      assert (PN : plain_seg name = true).
      { rewrite Forall_forall in F. destruct (F name) as [A [B C]].
        - rewrite HL. apply last_in. exact NEc.
        - unfold plain_seg. apply negb_true_iff. apply orb_false_iff.
          split; [apply orb_false_iff; split|]; apply String.eqb_neq; assumption. }
      apply ok_snoc_plain; [exact OD | exact PN|].
      intros ER.
      (* the directory part walks back to the bucket directory: the cleaned path has one segment *)
      assert (EK : split_slash k = (removelast (split_slash k) ++ [last (split_slash k) ""])%list)
        by (apply app_removelast_last; apply split_nonempty).
      assert (RC : run [] (split_slash k) = norm_step true [] (last (split_slash k) "")).
      { rewrite EK at 1. rewrite run_app. rewrite ER. reflexivity. }
      assert (EC2 : (c0 :: C'')%list = rev (run [] (split_slash k))) by exact EC.
      rewrite RC in EC2.
      unfold norm_step in EC2.
      destruct ((last (split_slash k) "" =? "") || (last (split_slash k) "" =? ".")); [discriminate|].
      destruct (last (split_slash k) "" =? ".."); [discriminate|].
      simpl in EC2. inversion EC2; subst c0 C''.
      rewrite HL. simpl. exact (BT _ _ eq_refl).
  Qed.

  Lemma batch_cok : forall b key, good b -> ok (split_slash key) ->
    cok b (let '(d, n) := batch_dir_name b key in GDelete d n false).
  Proof.
    intros b key G O. unfold batch_dir_name.
    destruct (rcut_slash key) as [[d n]|] eqn:R.
    - destruct (negb (d =? "") && negb (n =? "")).
      + pose proof (rcut_split _ _ _ R) as S. rewrite S in O.
        apply delete_cok.
        destruct (rcut_slash_spec _ _ _ R) as [_ N]. rewrite (no_slash_split n N).
        exists (split_slash d). split; [apply opath_split; exact G | exact O].
      + apply delete_cok. apply under_ext_bucket_dir; assumption.
    - apply delete_cok. apply under_ext_bucket_dir; assumption.
  Qed.

  Lemma batch_dir_under : forall b key, good b -> ok (split_slash key) -> under b (fst (batch_dir_name b key)).
  Proof.
    intros b key G O. unfold batch_dir_name.
    destruct (rcut_slash key) as [[d n]|] eqn:R; [|apply under_bucket_dir; exact G].
    destruct (negb (d =? "") && negb (n =? "")); [|apply under_bucket_dir; exact G].
    pose proof (rcut_split _ _ _ R) as S. rewrite S in O. simpl fst.
    apply under_opath; [exact G | exact (ok_prefix forbid _ _ O)].
  Qed.

  (* doDeleteEmptyDirectories never leaves the bucket directory *)
  Lemma purge_chain_cok : forall b fuel dir, good b -> under b dir -> Forall (cok b) (purge_chain fuel dir).
  Proof.
    intros b fuel. induction fuel as [|f IH]; intros dir G U; simpl; [constructor|].
    pose proof U as U0. apply under_spec in U. destruct U as [C [E O]].
    destruct (dir_and_name dir) as [parent name] eqn:DN.
    destruct (parent =? buckets_path) eqn:EP; [constructor|].
    assert (NE : C <> []).
    { intros HC. subst C. apply str_eqb_false in EP. apply EP.
      assert (HP : starts_with_slash dir = true) by exact (split_head_rooted _ _ _ E).
      destruct (starts_with_slash_spec _ HP) as [r Er]. subst dir.
      destruct (rcut_rooted r) as [d0 [n R]]. unfold dir_and_name in DN. rewrite R in DN.
      pose proof (rcut_split _ _ _ R) as S. rewrite E in S.
      change ["" ; "buckets"; b] with (["" ; "buckets"] ++ [b])%list in S. apply app_inj_tail in S. destruct S as [S1 S2].
      assert (d0 = "/buckets") by (apply split_inj; rewrite <- S1; reflexivity). subst d0.
      simpl in DN. inversion DN. reflexivity. }
    destruct (dn_under b dir C E NE O) as [_ [_ [Ud _]]]. rewrite DN in Ud. simpl in Ud.
    constructor; [|constructor].
    - apply lookup_cok; exact Ud.
    - apply delete_cok; exact Ud.
    - apply IH; [exact G | exact (under_ext_under b parent _ Ud)].
  Qed.

  Lemma purge_candidates_cok : forall b keys, good b -> (forall k, In k keys -> ok (split_slash k)) ->
    Forall (cok b) (purge_candidates b keys).
  Proof.
    intros b keys G H. unfold purge_candidates. apply Forall_forall. intros c Hc.
    apply in_flat_map in Hc. destruct Hc as [k [Hk Hc]].
    pose proof (purge_chain_cok b (S (List.length (split_slash (fst (batch_dir_name b k))))) (fst (batch_dir_name b k)) G
                 (batch_dir_under b k G (H k Hk))) as F.
    rewrite Forall_forall in F. apply F. exact Hc.
  Qed.

  Lemma within_forall : forall b l, Forall (cok b) l -> Forall (fun cc => cok (fst cc) (snd cc)) (within b l).
  Proof. intros b l H. unfold within. apply Forall_forall. intros cc Hc. apply in_map_iff in Hc. destruct Hc as [c [E Hc]]. subst cc. simpl. rewrite Forall_forall in H. apply H. exact Hc. Qed.

  Definition cokc (cc : ccall) : Prop := cok (fst cc) (snd cc).

  (* ----- percent decoding ----- *)
  Lemma pct_decode_nopct : forall a s, no_pct a = true ->
    pct_decode (a ++ s) = match pct_decode s with Some t => Some (a ++ t) | None => None end.
  Proof.
    induction a as [|c a IH]; intros s H; simpl.
    - destruct (pct_decode s); reflexivity.
    - simpl in H. apply andb_true_iff in H. destruct H as [Hc Ha]. apply negb_true_iff in Hc.
      rewrite Hc. rewrite (IH s Ha). destruct (pct_decode s); reflexivity.
  Qed.

  Lemma pct_decode_slash : forall s,
    pct_decode (String slash s) = match pct_decode s with Some t => Some (String slash t) | None => None end.
  Proof. intros s. reflexivity. Qed.

  Lemma no_pct_app : forall a b, no_pct a = true -> no_pct b = true -> no_pct (a ++ b) = true.
  Proof. induction a as [|c a IH]; intros b Ha Hb; simpl; [exact Hb|]. simpl in Ha. apply andb_true_iff in Ha. destruct Ha as [H1 H2]. rewrite H1. simpl. apply IH; assumption. Qed.

  Lemma no_pct_bucket_dir : forall b, no_pct b = true -> no_pct (bucket_dir b) = true.
  Proof. intros b H. unfold bucket_dir, buckets_path. apply no_pct_app; [reflexivity|]. apply no_pct_app; [reflexivity | exact H]. Qed.

  (* an ordinary bucket name is not changed by the extra decoding of the proxied URL *)
  Lemma obj_http_good : forall m b o, no_pct b = true -> obj_http m b o = http_calls m (bucket_dir b ++ o).
  Proof.
    intros m b o H. unfold obj_http, obj_url_path.
    rewrite <- (append_nil_r (bucket_dir b)) at 1.
    rewrite (pct_decode_nopct (bucket_dir b) "" (no_pct_bucket_dir b H)). simpl.
    rewrite append_nil_r. reflexivity.
  Qed.

  (* decoding  <a directory under the bucket>/<tail>  keeps the directory *)
  Lemma decode_under : forall b pre tail r, good b -> no_pct pre = true ->
    pct_decode (pre ++ String slash tail) = Some r ->
    under_ext b pre (split_slash (dec1 tail)) -> under b r.
  Proof.
    intros b pre tail r G NP D U.
    rewrite (pct_decode_nopct pre _ NP) in D. rewrite pct_decode_slash in D.
    unfold dec1 in U.
    destruct (pct_decode tail) as [t|]; [|discriminate]. inversion D; subst r.
    apply under_app. exact U.
  Qed.

  Lemma dec1_slash : forall k, dec1 (String slash k) = String slash (dec1 k).
  Proof. intros k. unfold dec1. rewrite pct_decode_slash. destruct (pct_decode k); reflexivity. Qed.

  (* ----- object routes ----- *)
  Lemma norm_object_form : forall o, exists k, norm_object o = String slash k.
  Proof.
    intros o. unfold norm_object. destruct (starts_with_slash o) eqn:E.
    - destruct (starts_with_slash_spec _ E) as [r Er]. subst o. exists r. reflexivity.
    - exists o. reflexivity.
  Qed.

  Lemma ok_slash : forall k, ok (split_slash (String slash k)) -> ok (split_slash k).
  Proof.
    intros k H. change (String slash k) with ("" ++ String slash k) in H. rewrite split_app_slash in H.
    simpl in H. exact (proj1 (ok_cons_skip forbid "" _ eq_refl) H).
  Qed.

  Lemma src_object_form : forall s, exists o, snd (src_bucket_object s) = String slash o.
  Proof.
    intros s. unfold src_bucket_object. destruct (cut_slash (trim_leading_slash s)) as [[b0 o]|].
    - exists o. reflexivity.
    - exists "". reflexivity.
  Qed.

  (* PUT / GET of  <bucket dir>/<k decoded once more>  (the copy handlers) *)
  Lemma decoded_http_cok : forall b m k dp, good b ->
    ok (split_slash (dec1 (String slash k))) ->
    pct_decode (bucket_dir b ++ String slash k) = Some dp ->
    Forall cokc (within b (http_calls m dp)).
  Proof.
    intros b m k dp G O D. apply within_forall. apply http_calls_cok.
    destruct (good_spec b G) as [_ [_ [_ [_ NP]]]].
    apply (decode_under b (bucket_dir b) k dp G (no_pct_bucket_dir b NP) D).
    rewrite dec1_slash in O. apply ok_slash in O.
    apply under_ext_bucket_dir; assumption.
  Qed.

  Lemma gcreate_mkdir_eq : forall b k, buckets_path ++ "/" ++ (b ++ String slash k) = bucket_dir b ++ String slash k.
  Proof.
    intros b k. unfold bucket_dir, buckets_path.
    rewrite (append_assoc "/buckets" ("/" ++ b) (String slash k)). reflexivity.
  Qed.

  Definition rels_ok (q : req) : Prop := forall s, In s (rels q) -> ok (split_slash s).

  Lemma calls_object_cok : forall fx q, good (q_bucket q) -> forbid (q_bucket q) = false ->
    object_route (q_route q) = true -> rels_ok q -> src_bad q = false ->
    Forall cokc (calls fx q).
  Proof.
    intros fx q G Bb OR HR HS.
    destruct (norm_object_form (q_object q)) as [k Ek].
    unfold rels_ok, rels, rel_object in HR. unfold src_bad in HS.
    destruct (good_spec _ G) as [_ [_ [_ [_ NPb]]]].
    unfold calls. rewrite (good_routed _ G). unfold handler_calls. rewrite Ek in *.
    rewrite ?(obj_http_good _ _ _ NPb).
    destruct (q_route q) eqn:ER; try discriminate OR.
    - (* RPut *)
      assert (Ok : ok (split_slash k)) by (apply ok_slash; apply HR; left; reflexivity).
      pose proof (under_opath (q_bucket q) k G Ok) as UO.
      destruct (ends_with_slash (String slash k)).
      + apply within_forall. constructor; [|constructor]. unfold cok, effective. left.
        rewrite gcreate_mkdir_eq. exact UO.
      + apply within_forall. apply http_calls_cok. exact UO.
    - (* RGet *)
      assert (Ok : ok (split_slash k)) by (apply ok_slash; apply HR; left; reflexivity).
      pose proof (under_opath (q_bucket q) k G Ok) as UO.
      destruct (ends_with_slash (String slash k)); [constructor|].
      apply within_forall. apply http_calls_cok. exact UO.
    - assert (Ok : ok (split_slash k)) by (apply ok_slash; apply HR; left; reflexivity).
      apply within_forall. apply http_calls_cok. exact (under_opath (q_bucket q) k G Ok).
    - assert (Ok : ok (split_slash k)) by (apply ok_slash; apply HR; left; reflexivity).
      apply within_forall. apply http_calls_cok. exact (under_opath (q_bucket q) k G Ok).
    - (* RBatchDelete *)
      apply within_forall. apply Forall_forall. intros c Hc. apply in_map_iff in Hc.
      destruct Hc as [key [E Hk]]. subst c. apply batch_cok; [exact G | apply HR; exact Hk].
    - (* RCopy *)
      assert (Ok : ok (split_slash k)) by (apply ok_slash; apply HR; left; reflexivity).
      assert (Od : ok (split_slash (dec1 (String slash k)))) by (apply HR; right; left; reflexivity).
      assert (Os : ok (split_slash (dec1 (src_rel q)))) by (apply HR; right; right; left; reflexivity).
      pose proof (dn_lookup_update_cok fx (q_bucket q) k G Bb Ok) as DLU. cbv zeta in DLU.
      fold (src_bucket q) in *.
      change (match pct_decode (q_src q) with Some s => s | None => q_src q end) with (dec1 (q_src q)).
      unfold src_rel in Os. unfold src_bucket in HS.
      destruct (src_object_form (dec1 (q_src q))) as [o Eo].
      destruct (src_bucket_object (dec1 (q_src q))) as [sb so] eqn:ES. simpl in Eo, HS, Os. subst so.
      match goal with |- Forall cokc (if ?c then _ else _) => destruct c end.
      + destruct (dir_and_name (bucket_dir (q_bucket q) ++ String slash k)) as [d n] eqn:DN.
        apply within_forall. simpl in DLU. exact DLU.
      + destruct (sb =? "") eqn:E1; [constructor|]. simpl in HS.
        match goal with |- Forall cokc (if ?c then _ else _) => destruct c end; [constructor|].
        destruct (pct_decode (bucket_dir sb ++ String slash o)) as [sp|] eqn:D1; [|constructor].
        apply Forall_app. split.
        * exact (decoded_http_cok sb MGet o sp HS Os D1).
        * destruct (http_get_ok fx sp); [|constructor].
          destruct (pct_decode (bucket_dir (q_bucket q) ++ String slash k)) as [dp|] eqn:D2; [|constructor].
          exact (decoded_http_cok (q_bucket q) MPut k dp G Od D2).
    - (* RGetTag *)
      assert (Ok : ok (split_slash k)) by (apply ok_slash; apply HR; left; reflexivity).
      pose proof (dn_lookup_update_cok fx (q_bucket q) k G Bb Ok) as DLU. cbv zeta in DLU.
      destruct (dir_and_name (bucket_dir (q_bucket q) ++ String slash k)) as [d n] eqn:DN.
      apply within_forall. simpl in DLU. inversion DLU; subst. constructor; [assumption | constructor].
    - (* RPutTag *)
      assert (Ok : ok (split_slash k)) by (apply ok_slash; apply HR; left; reflexivity).
      pose proof (dn_lookup_update_cok fx (q_bucket q) k G Bb Ok) as DLU. cbv zeta in DLU.
      destruct (dir_and_name (bucket_dir (q_bucket q) ++ String slash k)) as [d n] eqn:DN.
      apply within_forall. simpl in DLU. exact DLU.
    - (* RDelTag *)
      assert (Ok : ok (split_slash k)) by (apply ok_slash; apply HR; left; reflexivity).
      pose proof (dn_lookup_update_cok fx (q_bucket q) k G Bb Ok) as DLU. cbv zeta in DLU.
      destruct (dir_and_name (bucket_dir (q_bucket q) ++ String slash k)) as [d n] eqn:DN.
      apply within_forall. simpl in DLU. inversion DLU; subst. constructor; [assumption | constructor].
    - (* RPostPolicy *)
      assert (Ok : ok (split_slash k)) by (apply ok_slash; apply HR; left; reflexivity).
      apply within_forall. apply http_calls_cok. exact (under_opath (q_bucket q) k G Ok).
  Qed.

  (* ----- a directory string with one trailing "/" removed ----- *)
  Lemma strip_under_ext : forall b t R, good b -> ok (split_slash t ++ R) ->
    under_ext b (let d := bucket_dir b ++ "/" ++ t in
                 if ends_with_slash d then strip_one_trailing_slash d else d) R.
  Proof.
    intros b t R G O. cbv zeta.
    change (bucket_dir b ++ "/" ++ t) with (bucket_dir b ++ String slash t).
    destruct (ends_with_slash (bucket_dir b ++ String slash t)) eqn:EE.
    - pose proof (strip_one_spec _ EE) as SS.
      pose proof (opath_split b t G) as E.
      rewrite SS in E.
      change (strip_one_trailing_slash (bucket_dir b ++ String slash t) ++ "/")
        with (strip_one_trailing_slash (bucket_dir b ++ String slash t) ++ String slash "") in E.
      rewrite split_app_slash in E. simpl (split_slash "") in E.
      change ("" :: "buckets" :: b :: split_slash t)%list with (["" ; "buckets"; b] ++ split_slash t)%list in E.
      rewrite (app_removelast_last "" (split_nonempty t)) in E. rewrite app_assoc in E.
      apply app_inj_tail in E. destruct E as [E1 E2].
      exists (removelast (split_slash t)). split; [exact E1|].
      rewrite (app_removelast_last "" (split_nonempty t)) in O. rewrite <- E2 in O.
      rewrite <- app_assoc in O. simpl in O.
      unfold okw. unfold okw in O.
      rewrite (esc_mid_skip forbid (removelast (split_slash t)) "" R [] eq_refl) in O. exact O.
    - exists (split_slash t). split; [apply opath_split; exact G | exact O].
  Qed.

  (* ----- listing: the marker chain ----- *)
  Lemma marker_heads_cok : forall b fuel dir marker, under_ext b dir (split_slash marker) ->
    Forall (cok b) (map GList (marker_heads fuel dir marker)).
  Proof.
    intros b fuel. induction fuel as [|f IH]; intros dir marker U.
    - simpl. constructor; [|constructor]. unfold cok, effective. left. exact (under_ext_under b dir _ U).
    - simpl. destruct (cut_slash marker) as [[sub rest]|] eqn:EC.
      + rewrite map_app. apply Forall_app. split.
        * apply IH. destruct (cut_slash_spec _ _ _ EC) as [EM NS]. rewrite EM in U.
          rewrite split_app_slash in U. rewrite (no_slash_split sub NS) in U.
          change (dir ++ "/" ++ sub) with (dir ++ String slash sub).
          apply under_ext_app. rewrite (no_slash_split sub NS). exact U.
        * simpl. constructor; [|constructor]. unfold cok, effective. left. exact (under_ext_under b dir _ U).
      + simpl. constructor; [|constructor]. unfold cok, effective. left. exact (under_ext_under b dir _ U).
  Qed.

  Lemma bucket_entry_lookup_cok : forall b, good b -> cok b (GLookup buckets_path b).
  Proof.
    intros b G. unfold cok. simpl. right. exists (bucket_dir b). split; [apply under_bucket_dir; exact G|]. left.
    destruct (good_spec b G) as [B1 _]. unfold join_path.
    destruct (b =? "") eqn:E; [apply str_eqb_true in E; contradiction|]. reflexivity.
  Qed.

  Lemma bucket_entry_delete_cok : forall b r, good b -> cok b (GDelete buckets_path b r).
  Proof.
    intros b r G. unfold cok. simpl. right. exists (bucket_dir b). split; [apply under_bucket_dir; exact G|]. left.
    destruct (good_spec b G) as [B1 _]. unfold join_path.
    destruct (b =? "") eqn:E; [apply str_eqb_true in E; contradiction|]. reflexivity.
  Qed.

  Lemma bucket_dn_lookup_cok : forall b, good b ->
    cok b (GLookup (fst (dir_and_name (buckets_path ++ "/" ++ b))) (snd (dir_and_name (buckets_path ++ "/" ++ b)))).
  Proof.
    intros b G. unfold cok. simpl effective. right. exists (bucket_dir b). split; [apply under_bucket_dir; exact G|]. left.
    apply (join_dn_clean (bucket_dir b)). reflexivity.
  Qed.

  (* ----- multipart, listing and bucket routes ----- *)
  Lemma last_nonempty_in : forall l s, last_nonempty l = Some s -> In s l.
  Proof.
    intros l s H. unfold last_nonempty in H.
    assert (K : forall l acc, fold_left (fun acc s => if s =? "" then acc else Some s) l acc = Some s -> In s l \/ acc = Some s).
    { induction l0 as [|x l0 IH]; intros acc Hf; simpl in Hf; [right; exact Hf|].
      destruct (IH _ Hf) as [K|K]; [left; right; exact K|].
      destruct (x =? ""); [right; exact K | inversion K; left; left; reflexivity]. }
    destruct (K l None H) as [K1|K1]; [exact K1 | discriminate].
  Qed.

  Hypothesis forbid_dotuploads : forbid ".uploads" = false.

  Lemma ok_uploads_cons : forall R, ok (".uploads" :: R) -> True.
  Proof. trivial. Qed.

  Lemma split_uploads_rel : forall x, split_slash (".uploads/" ++ x) = (".uploads" :: split_slash x)%list.
  Proof. intros x. change (".uploads/" ++ x) with (".uploads" ++ String slash x). rewrite split_app_slash. reflexivity. Qed.

  Lemma uploads_dir_split : forall b, good b -> split_slash (uploads_dir b) = ["" ; "buckets"; b; ".uploads"].
  Proof.
    intros b G. unfold uploads_dir. change (bucket_dir b ++ "/.uploads") with (bucket_dir b ++ String slash ".uploads").
    rewrite (opath_split b ".uploads" G). reflexivity.
  Qed.

  Lemma under_ext_uploads : forall b R, good b -> ok (".uploads" :: R) -> under_ext b (uploads_dir b) R.
  Proof. intros b R G O. exists [".uploads"]. split; [apply uploads_dir_split; exact G | exact O]. Qed.

  Lemma no_pct_uploads : forall b, no_pct b = true -> no_pct (uploads_dir b) = true.
  Proof. intros b H. unfold uploads_dir. apply no_pct_app; [apply no_pct_bucket_dir; exact H | reflexivity]. Qed.

  Lemma dec1_uploads_rel : forall x, dec1 (".uploads/" ++ x) = ".uploads/" ++ dec1 x.
  Proof.
    intros x. unfold dec1. rewrite (pct_decode_nopct ".uploads/" x eq_refl). destruct (pct_decode x); reflexivity.
  Qed.

  Lemma part_path_cok : forall b u p dp, good b ->
    ok (split_slash (dec1 (".uploads/" ++ u ++ "/" ++ p))) ->
    pct_decode (uploads_dir b ++ "/" ++ u ++ "/" ++ p) = Some dp ->
    Forall (cok b) (http_calls MPut dp).
  Proof.
    intros b u p dp G O D. apply http_calls_cok.
    destruct (good_spec b G) as [_ [_ [_ [_ NP]]]].
    apply (decode_under b (uploads_dir b) (u ++ "/" ++ p) dp G (no_pct_uploads b NP) D).
    rewrite dec1_uploads_rel in O. rewrite split_uploads_rel in O.
    apply under_ext_uploads; assumption.
  Qed.

  Definition route_needs_plain_fx (r : route) : bool := match r with RList _ _ _ _ => true | _ => false end.

  Lemma calls_other_cok : forall fx q, good (q_bucket q) ->
    object_route (q_route q) = false -> rels_ok q -> src_bad q = false -> Forall cokc (calls fx q).
  Proof.
    intros fx q G OR HR HS.
    destruct (norm_object_form (q_object q)) as [k Ek].
    unfold rels_ok, rels, up_rel, part_rel in HR. unfold src_bad in HS.
    unfold calls. rewrite (good_routed _ G). unfold handler_calls. rewrite Ek in *.
    destruct (q_route q) eqn:ER; try discriminate OR.
    - (* RCopyPart *)
      assert (Ou : ok (".uploads" :: split_slash (q_upload q))) by (rewrite <- split_uploads_rel; apply HR; left; reflexivity).
      assert (Op : ok (split_slash (dec1 (".uploads/" ++ q_upload q ++ "/" ++ q_part q)))) by (apply HR; right; left; reflexivity).
      assert (Os : ok (split_slash (dec1 (src_rel q)))) by (apply HR; right; right; left; reflexivity).
      fold (src_bucket q) in *.
      change (match pct_decode (q_src q) with Some s => s | None => q_src q end) with (dec1 (q_src q)).
      unfold src_rel in Os. unfold src_bucket in HS.
      destruct (src_object_form (dec1 (q_src q))) as [o Eo].
      destruct (src_bucket_object (dec1 (q_src q))) as [sb so] eqn:ES. simpl in Eo, HS, Os. subst so.
      destruct (sb =? "") eqn:E1; [constructor|]. simpl in HS.
      apply Forall_app. split.
      { apply within_forall. constructor; [|constructor]. apply lookup_cok. apply under_ext_uploads; assumption. }
      destruct (is_dir_at fx _); [|constructor].
      destruct (pct_decode (bucket_dir sb ++ String slash o)) as [sp|] eqn:D1; [|constructor].
      apply Forall_app. split.
      + exact (decoded_http_cok sb MGet o sp HS Os D1).
      + destruct (http_get_ok fx sp); [|constructor].
        destruct (pct_decode (uploads_dir (q_bucket q) ++ "/" ++ q_upload q ++ "/" ++ q_part q)) as [dp|] eqn:D2; [|constructor].
        apply within_forall. exact (part_path_cok _ _ _ dp G Op D2).
    - (* RNewUpload *)
      apply within_forall. constructor; [|constructor]. unfold cok, effective. left.
      change (uploads_dir (q_bucket q) ++ "/" ++ "UUID") with (uploads_dir (q_bucket q) ++ String slash "UUID").
      apply under_app. apply under_ext_uploads; [exact G|].
      unfold okw. simpl. rewrite forbid_dotuploads. reflexivity.
    - (* RPutPart *)
      assert (Ou : ok (".uploads" :: split_slash (q_upload q))) by (rewrite <- split_uploads_rel; apply HR; left; reflexivity).
      assert (Op : ok (split_slash (dec1 (".uploads/" ++ q_upload q ++ "/" ++ q_part q)))) by (apply HR; right; left; reflexivity).
      apply within_forall. constructor; [apply lookup_cok; apply under_ext_uploads; assumption|].
      destruct (is_dir_at fx _); [|constructor].
      destruct (pct_decode (uploads_dir (q_bucket q) ++ "/" ++ q_upload q ++ "/" ++ q_part q)) as [dp|] eqn:D2; [|constructor].
      exact (part_path_cok _ _ _ dp G Op D2).
    - (* RComplete *)
      assert (Ou : ok (".uploads" :: split_slash (q_upload q))) by (rewrite <- split_uploads_rel; apply HR; left; reflexivity).
      assert (Oc : ok (split_slash (complete_rel q))) by (apply HR; right; left; reflexivity).
      apply within_forall.
      assert (UE : under_ext (q_bucket q) (uploads_dir (q_bucket q)) (split_slash (q_upload q))) by (apply under_ext_uploads; assumption).
      assert (UD : under (q_bucket q) (uploads_dir (q_bucket q) ++ "/" ++ q_upload q)) by (apply under_app; exact UE).
      constructor; [unfold cok, effective; left; exact UD|].
      destruct (fx_has_children fx _); [|constructor].
      destruct (dir_and_name (uploads_dir (q_bucket q) ++ "/" ++ q_upload q)) as [ld ln] eqn:DN.
      assert (SU : split_slash (uploads_dir (q_bucket q) ++ "/" ++ q_upload q) =
                   ("" :: "buckets" :: q_bucket q :: (".uploads" :: split_slash (q_upload q)))%list).
      { change (uploads_dir (q_bucket q) ++ "/" ++ q_upload q) with (uploads_dir (q_bucket q) ++ String slash (q_upload q)).
        rewrite split_app_slash. rewrite (uploads_dir_split _ G). reflexivity. }
      destruct (dn_under (q_bucket q) _ _ SU ltac:(discriminate) Ou) as [_ [_ [Ud _]]].
      rewrite DN in Ud. simpl in Ud.
      constructor; [apply lookup_cok; exact Ud|].
      destruct (exists_at fx _); [|constructor].
      destruct (complete_dir_name (q_bucket q) (trim_leading_slash (String slash k))) as [d n] eqn:CD.
      assert (CU : under (q_bucket q) (d ++ String slash n)).
      { unfold complete_dir_name in CD. inversion CD; subst d n. apply under_app.
        apply (strip_under_ext (q_bucket q) (complete_rel_dir (trim_leading_slash (String slash k))) _ G).
        unfold complete_rel, rel_object in Oc. rewrite Ek in Oc.
        change (complete_rel_dir (trim_leading_slash (String slash k)) ++ "/" ++ path_base (trim_leading_slash (String slash k)))
          with (complete_rel_dir (trim_leading_slash (String slash k)) ++ String slash (path_base (trim_leading_slash (String slash k)))) in Oc.
        rewrite split_app_slash in Oc. exact Oc. }
      constructor; [unfold cok, effective; left; exact CU|].
      destruct (create_file_ok fx d n); [|constructor].
      constructor; [apply delete_cok; exact UE | constructor].
    - (* RAbort *)
      assert (Ou : ok (".uploads" :: split_slash (q_upload q))) by (rewrite <- split_uploads_rel; apply HR; left; reflexivity).
      assert (UE : under_ext (q_bucket q) (uploads_dir (q_bucket q)) (split_slash (q_upload q))) by (apply under_ext_uploads; assumption).
      apply within_forall. constructor; [apply lookup_cok; exact UE|].
      destruct (is_dir_at fx _); [|constructor].
      constructor; [apply delete_cok; exact UE | constructor].
    - (* RListParts *)
      assert (Ou : ok (".uploads" :: split_slash (q_upload q))) by (rewrite <- split_uploads_rel; apply HR; left; reflexivity).
      apply within_forall. constructor; [|constructor]. unfold cok, effective. left.
      apply under_app. apply under_ext_uploads; assumption.
    - (* RList *)
      assert (Ol : ok (split_slash (list_rel prefix marker))) by (apply HR; left; reflexivity).
      apply within_forall. apply marker_heads_cok.
      apply (strip_under_ext (q_bucket q) (list_rel_dir prefix) _ G).
      unfold list_rel in Ol.
      change (list_rel_dir prefix ++ "/" ++ marker) with (list_rel_dir prefix ++ String slash marker) in Ol.
      rewrite split_app_slash in Ol. exact Ol.
    - (* RListUploads *)
      apply within_forall. constructor; [|constructor]. unfold cok, effective. left.
      apply (under_ext_uploads (q_bucket q) [] G).
      unfold okw. simpl. rewrite forbid_dotuploads. reflexivity.
    - (* RPutBucket *)
      apply within_forall. constructor; [apply bucket_entry_lookup_cok; exact G|].
      destruct (is_dir_at fx _); [constructor|].
      constructor; [|constructor]. unfold cok, effective. left. apply under_bucket_dir. exact G.
    - (* RDeleteBucket *)
      pose proof (bucket_dn_lookup_cok (q_bucket q) G) as BL.
      destruct (dir_and_name (buckets_path ++ "/" ++ q_bucket q)) as [d n] eqn:DN. simpl in BL.
      apply within_forall. constructor; [exact BL|].
      destruct (exists_at fx _); [|constructor].
      constructor; [apply bucket_entry_delete_cok; exact G | constructor].
    - (* RHeadBucket *)
      pose proof (bucket_dn_lookup_cok (q_bucket q) G) as BL.
      destruct (dir_and_name (buckets_path ++ "/" ++ q_bucket q)) as [d n] eqn:DN. simpl in BL.
      apply within_forall. constructor; [exact BL | constructor].
  Qed.

  (* ----- listing: what lies below a head ----- *)
  Hypothesis forbid_plain : forall s, plain_seg s = true -> forbid s = false.

  Lemma child_dirs_plain : forall fx d n, fx_plain fx = true -> In n (child_dirs fx d) ->
    plain_seg n = true /\ no_slash n = true.
  Proof.
    intros fx d n P H. unfold child_dirs in H. apply in_flat_map in H. destruct H as [e [He Hn]].
    unfold fx_plain in P. rewrite forallb_forall in P. pose proof (P e He) as Pe.
    destruct (rcut_slash (fst e)) as [[p0 n0]|] eqn:R; [|destruct Hn].
    destruct (rcut_slash_spec _ _ _ R) as [_ N].
    destruct ((p0 =? _) && snd e); [|destruct Hn]. simpl in Hn.
    destruct (n0 =? "") eqn:E0; [destruct Hn|]. simpl in Pe.
    destruct Hn as [Hn|[]]. subst n0. split; [exact Pe | exact N].
  Qed.

  Lemma list_desc_under : forall b fuel fx d p n, fx_plain fx = true -> under b d ->
    In (p, n) (list_desc fuel fx d) -> under_ext b p [n] /\ no_slash n = true.
  Proof.
    intros b fuel. induction fuel as [|f IH]; intros fx d p n P U H; [destruct H|].
    simpl in H. apply in_flat_map in H. destruct H as [n0 [Hn0 H]].
    destruct (child_dirs_plain fx d n0 P Hn0) as [PL NS].
    assert (UE : under_ext b d [n0]).
    { apply under_spec in U. destruct U as [C [E O]]. exists C. split; [exact E|].
      apply ok_snoc_plain; [exact O | exact PL | intros _; apply forbid_plain; exact PL]. }
    destruct H as [H|H].
    - inversion H; subst p n. split; [exact UE | exact NS].
    - apply (IH fx (d ++ "/" ++ n0) p n P); [|exact H].
      change (d ++ "/" ++ n0) with (d ++ String slash n0). apply under_app.
      rewrite (no_slash_split n0 NS). exact UE.
  Qed.

  Lemma list_candidates_cok : forall b fx heads, good b -> fx_plain fx = true ->
    (forall h, In h heads -> under b h) -> Forall (cok b) (list_candidates fx b heads).
  Proof.
    intros b fx heads G P H. unfold list_candidates. constructor; [apply bucket_entry_lookup_cok; exact G|].
    apply Forall_forall. intros c Hc.
    apply in_flat_map in Hc. destruct Hc as [h [Hh Hc]].
    apply in_flat_map in Hc. destruct Hc as [[p n] [Hpn Hc]].
    destruct (list_desc_under b _ fx h p n P (H h Hh) Hpn) as [UE NS].
    simpl in Hc. destruct Hc as [Hc|[Hc|[]]]; subst c.
    - unfold cok, effective. left. change (p ++ "/" ++ n) with (p ++ String slash n). apply under_app.
      rewrite (no_slash_split n NS). exact UE.
    - apply delete_cok. rewrite (no_slash_split n NS). exact UE.
  Qed.

  Lemma marker_heads_under : forall b fuel dir marker h, under_ext b dir (split_slash marker) ->
    In h (marker_heads fuel dir marker) -> under b h.
  Proof.
    intros b fuel. induction fuel as [|f IH]; intros dir marker h U H.
    - simpl in H. destruct H as [H|[]]. subst h. exact (under_ext_under b dir _ U).
    - simpl in H. destruct (cut_slash marker) as [[sub rest]|] eqn:EC.
      + apply in_app_or in H. destruct H as [H|[H|[]]].
        * apply (IH (dir ++ "/" ++ sub) rest); [|exact H].
          destruct (cut_slash_spec _ _ _ EC) as [EM NS]. rewrite EM in U.
          rewrite split_app_slash in U. rewrite (no_slash_split sub NS) in U.
          change (dir ++ "/" ++ sub) with (dir ++ String slash sub).
          apply under_ext_app. rewrite (no_slash_split sub NS). exact U.
        * subst h. exact (under_ext_under b dir _ U).
      + destruct H as [H|[]]. subst h. exact (under_ext_under b dir _ U).
  Qed.

  Lemma candidates_cok : forall fx q, good (q_bucket q) -> rels_ok q ->
    (route_needs_plain_fx (q_route q) = true -> fx_plain fx = true) ->
    Forall (cok (q_bucket q)) (candidates fx q).
  Proof.
    intros fx q G HR HP. unfold candidates. rewrite (good_routed _ G). unfold handler_candidates. unfold rels_ok, rels in HR.
    destruct (q_route q) eqn:ER; try solve [constructor].
    - apply purge_candidates_cok; [exact G | exact HR].
    - apply list_candidates_cok; [exact G | apply HP; reflexivity|].
      intros h Hh. apply (marker_heads_under (q_bucket q) _ _ _ h) in Hh; [exact Hh|].
      assert (Ol : ok (split_slash (list_rel prefix marker))) by (apply HR; left; reflexivity).
      apply (strip_under_ext (q_bucket q) (list_rel_dir prefix) _ G).
      unfold list_rel in Ol.
      change (list_rel_dir prefix ++ "/" ++ marker) with (list_rel_dir prefix ++ String slash marker) in Ol.
      rewrite split_app_slash in Ol. exact Ol.
  Qed.
End Under.

(* ---------- instance 1: nothing forbidden below the bucket: containment ---------- *)

Lemma existsb_false_in : forall A (f : A -> bool) l x, existsb f l = false -> In x l -> f x = false.
Proof.
  intros A f l x H Hx. destruct (f x) eqn:E; [|reflexivity].
  assert (existsb f l = true) by (apply existsb_exists; exists x; split; assumption). rewrite H in H0. discriminate.
Qed.

Lemma cok_contained : forall b c, good b -> cok forbid_none b c -> call_contained (b, c) = true.
Proof.
  intros b c G H. unfold call_contained. simpl. unfold cok in H.
  destruct (effective c) as [e|]; [|reflexivity].
  destruct H as [U|[X [U [E|E]]]].
  - exact (under_contained forbid_none b e G U).
  - subst e. rewrite (contained_clean b X (under_rooted forbid_none b X U)). exact (under_contained forbid_none b X G U).
  - subst e. rewrite (contained_mux_clean b X (under_rooted forbid_none b X U)). exact (under_contained forbid_none b X G U).
Qed.

Lemma within_ctx : forall b c b0 l, In (b, c) (within b0 l) -> b = b0.
Proof. intros b c b0 l H. unfold within in H. apply in_map_iff in H. destruct H as [x [E _]]. inversion E. reflexivity. Qed.

Definition copy_route (r : route) : bool := match r with RCopy _ | RCopyPart => true | _ => false end.

(* the bucket a call is attributed to: the request's bucket, or the (non-empty) copy source bucket *)
Lemma calls_ctx : forall fx q b c, In (b, c) (calls fx q) ->
  b = q_bucket q \/ (b = src_bucket q /\ (src_bucket q =? "") = false /\ copy_route (q_route q) = true).
Proof.
  intros fx q b c H. unfold calls in H.
  destruct (router_refuses (q_bucket q)); [destruct H|]. unfold handler_calls in H.
  destruct (q_route q).
  - destruct (ends_with_slash _); left; exact (within_ctx _ _ _ _ H).
  - destruct (ends_with_slash _); [destruct H | left; exact (within_ctx _ _ _ _ H)].
  - left; exact (within_ctx _ _ _ _ H).
  - left; exact (within_ctx _ _ _ _ H).
  - left; exact (within_ctx _ _ _ _ H).
  - destruct (src_bucket_object _) as [sb so] eqn:ES.
    assert (Esb : src_bucket q = sb) by (unfold src_bucket, dec1; rewrite ES; reflexivity).
    match type of H with In _ (if ?c then _ else _) => destruct c end.
    + destruct (dir_and_name _) as [d n]. left; exact (within_ctx _ _ _ _ H).
    + destruct (sb =? "") eqn:E1; [destruct H|].
      match type of H with In _ (if ?c then _ else _) => destruct c end; [destruct H|].
      destruct (pct_decode (bucket_dir sb ++ so)); [|destruct H].
      apply in_app_or in H. destruct H as [H|H].
      * right. rewrite Esb. split; [exact (within_ctx _ _ _ _ H) | split; [exact E1 | reflexivity]].
      * destruct (http_get_ok _ _); [|destruct H].
        destruct (pct_decode (bucket_dir (q_bucket q) ++ norm_object (q_object q))); [left; exact (within_ctx _ _ _ _ H) | destruct H].
  - destruct (src_bucket_object _) as [sb so] eqn:ES.
    assert (Esb : src_bucket q = sb) by (unfold src_bucket, dec1; rewrite ES; reflexivity).
    destruct (sb =? "") eqn:E1; [destruct H|].
    apply in_app_or in H. destruct H as [H|H]; [left; exact (within_ctx _ _ _ _ H)|].
    destruct (is_dir_at _ _); [|destruct H].
    destruct (pct_decode (bucket_dir sb ++ so)); [|destruct H].
    apply in_app_or in H. destruct H as [H|H].
    + right. rewrite Esb. split; [exact (within_ctx _ _ _ _ H) | split; [exact E1 | reflexivity]].
    + destruct (http_get_ok _ _); [|destruct H]. destruct (pct_decode (uploads_dir _ ++ _)); [left; exact (within_ctx _ _ _ _ H) | destruct H].
  - left; exact (within_ctx _ _ _ _ H).
  - left; exact (within_ctx _ _ _ _ H).
  - left; exact (within_ctx _ _ _ _ H).
  - left; exact (within_ctx _ _ _ _ H).
  - left; exact (within_ctx _ _ _ _ H).
  - destruct (dir_and_name _) as [d n]. left; exact (within_ctx _ _ _ _ H).
  - destruct (dir_and_name _) as [d n]. left; exact (within_ctx _ _ _ _ H).
  - destruct (dir_and_name _) as [d n]. left; exact (within_ctx _ _ _ _ H).
  - left; exact (within_ctx _ _ _ _ H).
  - left; exact (within_ctx _ _ _ _ H).
  - left; exact (within_ctx _ _ _ _ H).
  - destruct (dir_and_name _) as [d n]. left; exact (within_ctx _ _ _ _ H).
  - destruct (dir_and_name _) as [d n]. left; exact (within_ctx _ _ _ _ H).
  - left; exact (within_ctx _ _ _ _ H).
Qed.

Lemma ctx_good : forall fx q b c, bad_bucket (q_bucket q) = false -> src_bad q = false ->
  In (b, c) (calls fx q) -> good b.
Proof.
  intros fx q b c GB T H. destruct (calls_ctx fx q b c H) as [E|[E [NE CR]]]; subst b; [exact GB|].
  unfold src_bad in T. unfold good.
  destruct (q_route q); try discriminate CR; rewrite NE in T; simpl in T; exact T.
Qed.

Lemma rels_ok_of : forall forbid q, existsb (fun s => escapes forbid [] (split_slash s)) (rels q) = false ->
  rels_ok forbid q.
Proof. intros forbid q H s Hs. exact (existsb_false_in _ _ _ s H Hs). Qed.

Theorem calls_contained_partial : forall fx q,
  bad_bucket (q_bucket q) = false -> req_climbs q = false ->
  forallb call_contained (calls fx q) = true.
Proof.
  intros fx q GB T.
  assert (G : good (q_bucket q)) by exact GB.
  unfold req_climbs in T. apply orb_false_iff in T. destruct T as [TR TS].
  pose proof (rels_ok_of forbid_none q TR) as HR.
  assert (F : Forall (cokc forbid_none) (calls fx q)).
  { destruct (object_route (q_route q)) eqn:OR.
    - exact (calls_object_cok forbid_none fx q G eq_refl OR HR TS).
    - exact (calls_other_cok forbid_none eq_refl fx q G OR HR TS). }
  apply forallb_forall. intros [b c] Hc. rewrite Forall_forall in F. pose proof (F _ Hc) as K. unfold cokc in K. simpl in K.
  exact (cok_contained b c (ctx_good fx q b c GB TS Hc) K).
Qed.

Theorem candidates_contained_partial : forall fx q,
  bad_bucket (q_bucket q) = false -> req_climbs q = false ->
  (route_needs_plain_fx (q_route q) = true -> fx_plain fx = true) ->
  candidates_contained fx q = true.
Proof.
  intros fx q GB T HP.
  assert (G : good (q_bucket q)) by exact GB.
  unfold req_climbs in T. apply orb_false_iff in T. destruct T as [TR TS].
  pose proof (rels_ok_of forbid_none q TR) as HR.
  pose proof (candidates_cok forbid_none (fun s _ => eq_refl) fx q G HR HP) as F.
  unfold candidates_contained. apply forallb_forall. intros c Hc. rewrite Forall_forall in F.
  exact (cok_contained _ c G (F c Hc)).
Qed.

Theorem contained_partial2 : forall fx q,
  bad_bucket (q_bucket q) = false -> req_climbs q = false ->
  (forall k, In k (q_keys q) -> climbs k = false) ->
  all_contained fx q = true.
Proof.
  intros fx q GB T HK. unfold all_contained. apply andb_true_iff. split.
  - exact (calls_contained_partial fx q GB T).
  - apply orb_true_iff. right. pose proof (purge_candidates_cok forbid_none (q_bucket q) (q_keys q) GB HK) as P.
    apply forallb_forall. intros c Hc. rewrite Forall_forall in P. exact (cok_contained _ c GB (P c Hc)).
Qed.

(* ---------- instance 2: ".uploads" forbidden below the bucket: the multipart area ---------- *)

Lemma split_clean_under : forall forbid b X, good b -> under forbid b X ->
  exists C', split_slash (clean X) = ("" :: "buckets" :: b :: C')%list /\
             (forall x r, C' = (x :: r)%list -> forbid x = false).
Proof.
  intros forbid b X G U.
  destruct (rsegs_under forbid b X G U) as [C [C' [_ [_ [_ [E [_ BT]]]]]]]. exists C'. split; [|exact BT].
  rewrite (clean_rooted X (under_rooted forbid b X U)). rewrite E.
  change ("/" ++ join_slash ("buckets" :: b :: C')) with ("" ++ String slash (join_slash ("buckets" :: b :: C'))).
  rewrite split_app_slash. rewrite split_join; [reflexivity | discriminate |].
  pose proof (rsegs_no_slash X) as NS. rewrite E in NS. exact NS.
Qed.

Lemma split_uploads_dir : forall b, good b -> split_slash (clean (uploads_dir b)) = ["" ; "buckets"; b; ".uploads"].
Proof.
  intros b G.
  assert (U : under forbid_none b (uploads_dir b)) by (apply (under_ext_uploads forbid_none b [] G); reflexivity).
  destruct (rsegs_under forbid_none b _ G U) as [C [C' [E [_ [EC [R _]]]]]].
  rewrite (uploads_dir_split b G) in E. inversion E; subst C.
  assert (EC' : C' = [".uploads"]) by (rewrite EC; reflexivity).
  rewrite (clean_rooted _ (under_rooted forbid_none b _ U)). rewrite R, EC'.
  destruct (good_spec b G) as [_ [_ [_ [N _]]]].
  change ("/" ++ join_slash ["buckets"; b; ".uploads"]) with ("" ++ String slash (join_slash ["buckets"; b; ".uploads"])).
  rewrite split_app_slash. rewrite split_join; [reflexivity | discriminate |].
  repeat constructor. exact N.
Qed.

Lemma under_not_uploads : forall b X, good b -> under forbid_uploads b X ->
  inside (clean (uploads_dir b)) (clean X) = false.
Proof.
  intros b X G U. destruct (split_clean_under forbid_uploads b X G U) as [C' [E BT]].
  pose proof (split_uploads_dir b G) as SU.
  unfold inside. apply orb_false_iff. split.
  - destruct (clean X =? clean (uploads_dir b)) eqn:EQ; [|reflexivity].
    apply str_eqb_true in EQ. rewrite EQ, SU in E. inversion E; subst C'.
    pose proof (BT _ _ eq_refl) as K. discriminate.
  - destruct (String.prefix (clean (uploads_dir b) ++ "/") (clean X)) eqn:EP; [|reflexivity].
    destruct (prefix_exists _ _ EP) as [z Ez].
    rewrite Ez in E. rewrite append_assoc in E. change ("/" ++ z) with (String slash z) in E.
    rewrite split_app_slash, SU in E. inversion E; subst C'.
    pose proof (BT _ _ eq_refl) as K. discriminate.
Qed.

Lemma cok_not_uploads : forall b c, good b -> cok forbid_uploads b c -> call_in_uploads (b, c) = false.
Proof.
  intros b c G H. unfold call_in_uploads. simpl. unfold cok in H.
  destruct (effective c) as [e|]; [|reflexivity].
  destruct H as [U|[X [U [E|E]]]].
  - exact (under_not_uploads b e G U).
  - subst e. rewrite (clean_idem X (under_rooted forbid_uploads b X U)). exact (under_not_uploads b X G U).
  - subst e. rewrite (clean_mux_clean X (under_rooted forbid_uploads b X U)). exact (under_not_uploads b X G U).
Qed.

Theorem uploads_hidden_partial2 : forall fx q,
  bad_bucket (q_bucket q) = false -> q_bucket q <> ".uploads" ->
  req_enters_uploads q = false -> uploads_hidden fx q = true.
Proof.
  intros fx q GB NU T. unfold uploads_hidden.
  destruct (object_route (q_route q)) eqn:OR; [|reflexivity]. simpl.
  apply negb_true_iff.
  assert (G : good (q_bucket q)) by exact GB.
  assert (Bb : forbid_uploads (q_bucket q) = false) by (apply String.eqb_neq; exact NU).
  unfold req_enters_uploads in T. rewrite OR in T. simpl in T.
  apply orb_false_iff in T. destruct T as [TR TS].
  pose proof (rels_ok_of forbid_uploads q TR) as HR.
  pose proof (calls_object_cok forbid_uploads fx q G Bb OR HR TS) as F.
  destruct (existsb call_in_uploads (calls fx q)) eqn:EX; [|reflexivity].
  apply existsb_exists in EX. destruct EX as [[b c] [Hc Hu]].
  rewrite Forall_forall in F. pose proof (F _ Hc) as K. unfold cokc in K. simpl in K.
  rewrite (cok_not_uploads b c (ctx_good fx q b c GB TS Hc) K) in Hu. discriminate.
Qed.

(* the empty-folder purge of a batch delete does not reach the multipart area either *)
Theorem purge_hidden : forall b keys,
  bad_bucket b = false -> (forall k, In k keys -> enters_uploads k = false) ->
  existsb (fun c => call_in_uploads (b, c)) (purge_candidates b keys) = false.
Proof.
  intros b keys GB HK.
  pose proof (purge_candidates_cok forbid_uploads b keys GB HK) as P.
  destruct (existsb (fun c => call_in_uploads (b, c)) (purge_candidates b keys)) eqn:EX; [|reflexivity].
  apply existsb_exists in EX. destruct EX as [c [Hc Hu]].
  rewrite Forall_forall in P. rewrite (cok_not_uploads b c GB (P c Hc)) in Hu. discriminate.
Qed.

(* ---------- the cleaning lemma in its plain form ---------- *)

Theorem clean_stays_under2 : forall b rest,
  bad_bucket b = false -> climbs rest = false -> contained b (bucket_dir b ++ "/" ++ rest) = true.
Proof.
  intros b rest G H. apply (under_contained forbid_none b _ G).
  apply (under_opath forbid_none); [exact G | exact H].
Qed.

Theorem clean_idempotent : forall p, starts_with_slash p = true -> clean (clean p) = clean p.
Proof. exact clean_idem. Qed.

Theorem clean_rooted_no_dots : forall p, starts_with_slash p = true ->
  forall s, In s (norm_segs true (split_slash p)) -> s <> "" /\ s <> "." /\ s <> "..".
Proof.
  intros p _ s Hs. pose proof (norm_rooted_clean (split_slash p)) as F. rewrite Forall_forall in F. exact (F s Hs).
Qed.

(* ---------- refutations: concrete escaping requests ---------- *)

Definition fx_demo : fixture :=
  [ ("/", true); ("/buckets", true); ("/buckets/b", true); ("/buckets/b/obj", false);
    ("/buckets/b/x", true); ("/buckets/b/x/y", false); ("/buckets/b/x/z", true); ("/buckets/b/x/z/w", false);
    ("/buckets/b/.uploads", true); ("/buckets/b/.uploads/u1", true); ("/buckets/b/.uploads/u1/0001.part", false);
    ("/buckets/other", true); ("/buckets/other/obj", false);
    ("/etc", true); ("/etc/secret", false) ].

Definition rq (r : route) (object upload src : string) (keys : list string) : req :=
  mk_req r "b" object upload "0001.part" src keys.
Definition rqb (r : route) (bucket object : string) : req :=
  mk_req r bucket object "" "0001.part" "" [].

(* GET /b/x/../../other/obj is served from /buckets/other/obj *)
Definition esc_get : req := rq RGet "x/../../other/obj" "" "" [].
(* POST /b?delete with <Key>x/../../other/obj</Key> deletes /buckets/other/obj *)
Definition esc_batch : req := rq RBatchDelete "k" "" "" ["x/../../other/obj"].
(* DELETE /b/k?uploadId=../../other removes the whole bucket "other" *)
Definition esc_abort : req := rq RAbort "k" "../../other" "" [].
(* GET /b/x/../../other/obj?tagging reads the other bucket's tags *)
Definition esc_tag : req := rq RGetTag "x/../../other/obj" "" "" [].
(* PUT /b/new with X-Amz-Copy-Source: b/../other/obj copies from the other bucket *)
Definition esc_copy : req := rq (RCopy false) "new" "" "b/../other/obj" [].
(* GET /b?prefix=../other/ lists the directory string /buckets/b/../other *)
Definition esc_list : req := rq (RList false "../other/" "" false) "" "" "" [].
(* GET /b/.uploads/u1/0001.part addresses a part of an upload in progress *)
Definition up_get : req := rq RGet ".uploads/u1/0001.part" "" "" [].
(* GET /b/x/../.uploads/u1/0001.part: no climbing, but the same part *)
Definition up_get2 : req := rq RGet "x/../.uploads/u1/0001.part" "" "" [].

Theorem contained_refuted : exists fx q,
  bad_bucket (q_bucket q) = false /\ all_contained fx q = false /\
  existsb (fun c => match effective (snd c) with Some e => clean e =? "/buckets/other/obj" | None => false end) (calls fx q) = true.
Proof. exists fx_demo, esc_get. vm_compute. repeat split; reflexivity. Qed.

Theorem contained_refuted_all :
  all_contained fx_demo esc_get = false /\ all_contained fx_demo esc_batch = false /\
  all_contained fx_demo esc_abort = false /\ all_contained fx_demo esc_tag = false /\
  all_contained fx_demo esc_copy = false /\ all_contained fx_demo esc_list = false.
Proof. vm_compute. repeat split; reflexivity. Qed.

Theorem uploads_hidden_refuted : exists fx q,
  bad_bucket (q_bucket q) = false /\ req_climbs q = false /\ object_route (q_route q) = true /\
  uploads_hidden fx q = false.
Proof. exists fx_demo, up_get. vm_compute. repeat split; reflexivity. Qed.

(* the two findings are told apart: up_get2 has a ".." segment but does not climb; it is
   inside the trigger set of finding 1 only *)
Theorem uploads_hidden_refuted_dotdot :
  req_dotdot up_get2 = true /\ req_climbs up_get2 = false /\ req_enters_uploads up_get2 = true /\
  all_contained fx_demo up_get2 = true /\ uploads_hidden fx_demo up_get2 = false.
Proof. vm_compute. repeat split; reflexivity. Qed.

(* ---------- the router's {bucket} pattern ---------- *)

(* the pattern, alternative by alternative, accepts exactly the names router_refuses does not *)
Lemma bucket_pattern_spec : forall b, bucket_pattern b = negb (router_refuses b).
Proof.
  assert (X : forall c, Ascii.eqb c slash = true -> Ascii.eqb c "." = true -> False).
  { intros c H1 H2. apply ascii_eqb_true in H1. apply ascii_eqb_true in H2. subst c. discriminate H2. }
  intros [|c r]; [reflexivity|].
  unfold bucket_pattern, router_refuses, dot. cbn [String.eqb no_slash].
  destruct (Ascii.eqb c slash) eqn:Cs; destruct (Ascii.eqb c ".") eqn:Cd;
    try (exfalso; exact (X c Cs Cd)); cbn [negb andb orb].
  - reflexivity.
  - destruct r as [|d r']; [reflexivity|]. cbn [String.eqb no_slash].
    destruct (Ascii.eqb d slash) eqn:Ds; destruct (Ascii.eqb d ".") eqn:Dd;
      try (exfalso; exact (X d Ds Dd)); cbn [negb andb orb].
    + reflexivity.
    + destruct r' as [|e r'']; [reflexivity|]. cbn [String.eqb no_slash negb andb orb].
      destruct (negb (Ascii.eqb e slash) && no_slash r''); reflexivity.
    + destruct (no_slash r'); reflexivity.
  - destruct (no_slash r); reflexivity.
Qed.

Theorem pattern_refuses_exactly : forall b,
  bucket_pattern b = false <-> (b = "" \/ b = "." \/ b = ".." \/ no_slash b = false).
Proof.
  intros b. rewrite bucket_pattern_spec. unfold router_refuses. rewrite negb_false_iff.
  rewrite !orb_true_iff, !String.eqb_eq, negb_true_iff. tauto.
Qed.

(* a refused bucket name reaches no handler *)
Theorem refused_no_calls : forall fx q, router_refuses (q_bucket q) = true ->
  calls fx q = [] /\ candidates fx q = [].
Proof. intros fx q H. unfold calls, candidates. rewrite H. split; reflexivity. Qed.

Lemma routed_calls : forall fx q, router_refuses (q_bucket q) = false -> calls fx q = handler_calls fx q.
Proof. intros fx q H. unfold calls. rewrite H. reflexivity. Qed.

Lemma bad_of_parts : forall b, router_refuses b = false -> odd_bucket b = false -> bad_bucket b = false.
Proof. intros b H1 H2. unfold bad_bucket. rewrite H1, H2. reflexivity. Qed.

(* ---------- the partial theorems with the router in front: the only hypothesis on the
   bucket name is that it has no "%" ---------- *)

Theorem calls_contained_routed : forall fx q,
  odd_bucket (q_bucket q) = false -> req_climbs q = false ->
  forallb call_contained (calls fx q) = true.
Proof.
  intros fx q O T. destruct (router_refuses (q_bucket q)) eqn:R.
  - rewrite (proj1 (refused_no_calls fx q R)). reflexivity.
  - exact (calls_contained_partial fx q (bad_of_parts _ R O) T).
Qed.

Theorem candidates_contained_routed : forall fx q,
  odd_bucket (q_bucket q) = false -> req_climbs q = false ->
  (route_needs_plain_fx (q_route q) = true -> fx_plain fx = true) ->
  candidates_contained fx q = true.
Proof.
  intros fx q O T HP. destruct (router_refuses (q_bucket q)) eqn:R.
  - unfold candidates_contained. rewrite (proj2 (refused_no_calls fx q R)). reflexivity.
  - exact (candidates_contained_partial fx q (bad_of_parts _ R O) T HP).
Qed.

Theorem all_contained_routed : forall fx q,
  odd_bucket (q_bucket q) = false -> req_climbs q = false ->
  (forall k, In k (q_keys q) -> climbs k = false) ->
  all_contained fx q = true.
Proof.
  intros fx q O T HK. destruct (router_refuses (q_bucket q)) eqn:R.
  - unfold all_contained. rewrite (proj1 (refused_no_calls fx q R)), R. reflexivity.
  - exact (contained_partial2 fx q (bad_of_parts _ R O) T HK).
Qed.

Theorem uploads_hidden_routed : forall fx q,
  odd_bucket (q_bucket q) = false -> q_bucket q <> ".uploads" ->
  req_enters_uploads q = false -> uploads_hidden fx q = true.
Proof.
  intros fx q O NU T. destruct (router_refuses (q_bucket q)) eqn:R.
  - unfold uploads_hidden. rewrite (proj1 (refused_no_calls fx q R)). apply orb_true_r.
  - exact (uploads_hidden_partial2 fx q (bad_of_parts _ R O) NU T).
Qed.

(* former part of finding 2, REPAIRED in /repo (fix: the S3 router must not accept '.' or
   '..' as a bucket name).  DELETE /. looked up and recursively deleted /buckets itself, GET
   /../etc/secret was served from /etc/secret: that is still what the HANDLERS do with
   these names, but the router no longer hands them over *)
Definition bad_delete : req := rqb RDeleteBucket "." "".
Definition bad_get : req := rqb RGet ".." "etc/secret".

Theorem dot_buckets_repaired :
  bucket_pattern "." = false /\ bucket_pattern ".." = false /\ bucket_pattern "" = false /\
  bucket_pattern "..." = true /\ bucket_pattern ".b" = true /\ bucket_pattern "..b" = true /\
  map snd (handler_calls fx_demo bad_delete) = [GLookup "/buckets" "."; GDelete "/buckets" "." true] /\
  effective (GDelete "/buckets" "." true) = Some "/buckets" /\
  map (fun c => effective (snd c)) (handler_calls fx_demo bad_get) = [None; Some "/etc/secret"] /\
  calls fx_demo bad_delete = [] /\ candidates fx_demo bad_delete = [] /\
  calls fx_demo bad_get = [] /\ candidates fx_demo bad_get = [].
Proof. vm_compute. repeat split; reflexivity. Qed.

(* finding 2: a bucket name with a "%", which the router accepts.  GET /%2562/obj (bucket
   name "%62") is served from /buckets/b/obj, DELETE deletes it, the POST upload writes
   into bucket b; the gRPC routes of the same bucket use the literal name /buckets/%62.
   A name that decodes to ".." leaves /buckets altogether; a bad escape sends nothing. *)
Definition odd_get : req := rqb RGet "%62" "obj".
Definition odd_delete : req := rqb RDelete "%62" "obj".
Definition odd_post : req := rqb RPostPolicy "%62" "posted".
Definition odd_head_bucket : req := rqb RHeadBucket "%62" "".
Definition odd_get_dd : req := rqb RGet "%2e%2e" "etc/secret".
Definition odd_get_badesc : req := rqb RGet "%zz" "obj".

Theorem odd_bucket_refuted :
  router_refuses (q_bucket odd_get) = false /\ odd_bucket (q_bucket odd_get) = true /\
  req_climbs odd_get = false /\ req_enters_uploads odd_get = false /\
  map snd (calls fx_demo odd_get) = [Http MGet "/buckets/b/obj"] /\
  forallb call_contained (calls fx_demo odd_get) = false /\
  map snd (calls fx_demo odd_delete) = [Http MDelete "/buckets/b/obj"] /\
  forallb call_contained (calls fx_demo odd_delete) = false /\
  map snd (calls fx_demo odd_post) = [Http MPut "/buckets/b/posted"] /\
  forallb call_contained (calls fx_demo odd_post) = false /\
  map snd (calls fx_demo odd_head_bucket) = [GLookup "/buckets" "%62"] /\
  forallb call_contained (calls fx_demo odd_head_bucket) = true /\
  map (fun c => effective (snd c)) (calls fx_demo odd_get_dd) = [None; Some "/etc/secret"] /\
  calls fx_demo odd_get_badesc = [].
Proof. vm_compute. repeat split; reflexivity. Qed.

(* the trigger of finding 2 per request: odd_request implies odd_bucket, and on the routes
   outside it an odd bucket is addressed by its literal name: every gRPC-only route of bucket
   "%62" (with an upload u1 in it) stays inside /buckets/%62 *)
Lemma odd_request_odd : forall q, odd_request q = true -> odd_bucket (q_bucket q) = true.
Proof. intros q H. unfold odd_request in H. apply andb_true_iff in H. exact (proj1 H). Qed.

Definition fx_odd : fixture :=
  [ ("/", true); ("/buckets", true); ("/buckets/%62", true); ("/buckets/%62/.uploads", true);
    ("/buckets/%62/.uploads/u1", true); ("/buckets/%62/.uploads/u1/0001.part", false);
    ("/buckets/%62/x", true); ("/buckets/%62/x/y", false); ("/buckets/b", true); ("/buckets/b/obj", false) ].
Definition odd_grpc_reqs : list req :=
  map (fun r => mk_req r "%62" "x/y" "u1" "0001.part" "" ["x/y"])
      [RBatchDelete; RNewUpload; RComplete; RAbort; RListParts; RGetTag; RPutTag; RDelTag;
       RList false "x/" "" true; RList true "" "x/y" false; RListUploads; RPutBucket; RDeleteBucket; RHeadBucket].

Example odd_grpc_routes_contained :
  forallb (fun q => negb (odd_request q) && odd_bucket (q_bucket q) &&
                    negb (Nat.eqb (List.length (calls fx_odd q)) 0) &&
                    forallb call_contained (calls fx_odd q) && candidates_contained fx_odd q) odd_grpc_reqs = true /\
  map snd (calls fx_odd (mk_req RComplete "%62" "x/done" "u1" "0001.part" "" [])) =
    [GList "/buckets/%62/.uploads/u1"; GLookup "/buckets/%62/.uploads" "u1"; GCreate "/buckets/%62/x" "done" false;
     GDelete "/buckets/%62/.uploads" "u1" true].
Proof. vm_compute. split; reflexivity. Qed.

(* former finding 3 (repaired in /repo): POST /oth with the form field key = "er/obj" wrote
   /buckets/other/obj; it now writes /buckets/oth/er/obj, inside the bucket *)
Definition post_noslash : req := rqb RPostPolicy "oth" "er/obj".

Theorem postpolicy_repaired :
  bad_bucket (q_bucket post_noslash) = false /\ req_climbs post_noslash = false /\
  map snd (calls fx_demo post_noslash) = [Http MPut "/buckets/oth/er/obj"] /\
  forallb call_contained (calls fx_demo post_noslash) = true.
Proof. vm_compute. repeat split; reflexivity. Qed.

(* non-vacuity: an ordinary request satisfies the hypotheses and produces calls *)
Example partial_nonvacuous :
  let q := rq RPutTag "x/./y//z" "" "" [] in
  bad_bucket (q_bucket q) = false /\ req_dotdot q = false /\ req_uploads_seg q = false /\
  req_climbs q = false /\ req_enters_uploads q = false /\
  map snd (calls fx_demo q) = [GLookup "/buckets/b/x/./y/" "z"] /\
  all_contained fx_demo q = true /\ uploads_hidden fx_demo q = true.
Proof. vm_compute. repeat split; reflexivity. Qed.

(* non-vacuity of the narrowing: a key with ".." segments that never climbs is covered by
   the partial theorems (it was excluded by the old trigger) *)
Example narrowed_nonvacuous :
  let q := rq RDelTag "x/../x/z/../y" "" "" [] in
  req_dotdot q = true /\ req_climbs q = false /\ req_enters_uploads q = false /\
  map (fun c => effective (snd c)) (calls fx_demo q) = [Some "/buckets/b/x/y"] /\
  all_contained fx_demo q = true.
Proof. vm_compute. repeat split; reflexivity. Qed.

(* non-vacuity for listings: the marker chain and the directories below it *)
Example list_nonvacuous :
  let q := rq (RList true "x/" "z/w" true) "" "" "" [] in
  fx_plain fx_demo = true /\ req_climbs q = false /\
  map snd (calls fx_demo q) = [GList "/buckets/b/x/z"; GList "/buckets/b/x"] /\
  candidates fx_demo q = [GLookup "/buckets" "b"; GList "/buckets/b/x/z"; GDelete "/buckets/b/x" "z" true] /\
  candidates_contained fx_demo q = true.
Proof. vm_compute. repeat split; reflexivity. Qed.
