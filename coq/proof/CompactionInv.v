(* C04 proofs, part 1: lists / maps, the structural invariant of a running volume with
   its .idx log, and the characterisation of a read by the record it parses. *)
From Coq Require Import List NArith ZArith Bool Lia Permutation.
From SW Require Import model.Volume model.Compaction.
Import ListNotations.
Local Open Scope N_scope.

(* ---------- small facts ---------- *)
Lemma actual_size_pos : forall s, 0 < actual_size s.
Proof. intro s. unfold actual_size. lia. Qed.

Lemma actual_size_mod8 : forall s, actual_size s mod 8 = 0.
Proof.
  intro s. unfold actual_size.
  set (raw := 16 + s + 4 + 8).
  assert (Hm : raw mod 8 < 8) by (apply N.mod_lt; lia).
  pose proof (N.div_mod raw 8 ltac:(lia)) as Hd.
  replace (raw + (8 - raw mod 8)) with ((raw / 8 + 1) * 8) by lia.
  apply N.mod_mul. lia.
Qed.

Lemma actual_size_0 : actual_size 0 = 32.
Proof. reflexivity. Qed.

Lemma size_valid_pos : forall z, size_valid z = true <-> (0 < z)%Z.
Proof. intro z. unfold size_valid. split; intro H; [apply andb_prop in H; lia | apply andb_true_intro; lia]. Qed.

Lemma size_deleted_neg : forall z, size_deleted z = true <-> (z < 0)%Z.
Proof. intro z. unfold size_deleted. split; intro H; [apply orb_prop in H; lia | apply orb_true_iff; lia]. Qed.

(* ---------- idx_get ---------- *)
Lemma idx_get_key : forall l k e, idx_get l k = Some e -> ie_key e = k.
Proof.
  induction l as [|x l IH]; simpl; intros k e H; [discriminate|].
  destruct (ie_key x =? k) eqn:E; [inversion H; subst; apply N.eqb_eq; exact E | eauto].
Qed.

Lemma idx_get_In : forall l k e, idx_get l k = Some e -> In e l.
Proof.
  induction l as [|x l IH]; simpl; intros k e H; [discriminate|].
  destruct (ie_key x =? k); [inversion H; auto | right; eauto].
Qed.

Lemma idx_get_app : forall l1 l2 k,
  idx_get (l1 ++ l2) k = match idx_get l1 k with Some e => Some e | None => idx_get l2 k end.
Proof.
  induction l1 as [|x l1 IH]; simpl; intros l2 k; [reflexivity|].
  destruct (ie_key x =? k); [reflexivity | apply IH].
Qed.

Lemma idx_get_none_iff : forall l k, idx_get l k = None <-> ~ In k (map ie_key l).
Proof.
  induction l as [|x l IH]; simpl; intro k; [tauto|].
  destruct (ie_key x =? k) eqn:E.
  - apply N.eqb_eq in E. split; [discriminate | intro H; exfalso; apply H; auto].
  - apply N.eqb_neq in E. rewrite IH. tauto.
Qed.

Lemma idx_get_nodup : forall l e, NoDup (map ie_key l) -> In e l -> idx_get l (ie_key e) = Some e.
Proof.
  induction l as [|x l IH]; simpl; intros e Hnd Hin; [contradiction|].
  inversion Hnd as [|? ? Hx Hnd']; subst.
  destruct Hin as [->|Hin]; [rewrite N.eqb_refl; reflexivity|].
  destruct (ie_key x =? ie_key e) eqn:E.
  - apply N.eqb_eq in E. exfalso. apply Hx. rewrite E. apply in_map. exact Hin.
  - apply IH; assumption.
Qed.

Lemma idx_get_rev : forall l k, NoDup (map ie_key l) -> idx_get (rev l) k = idx_get l k.
Proof.
  intros l k Hnd.
  assert (Hnd' : NoDup (map ie_key (rev l))) by (rewrite map_rev; apply NoDup_rev; exact Hnd).
  destruct (idx_get l k) as [e|] eqn:E.
  - pose proof (idx_get_key _ _ _ E) as Hk. pose proof (idx_get_In _ _ _ E) as Hin.
    rewrite <- Hk. apply idx_get_nodup; [exact Hnd' | apply in_rev; rewrite rev_involutive; exact Hin].
  - apply idx_get_none_iff. apply idx_get_none_iff in E. rewrite map_rev. intro H. apply E. apply in_rev. exact H.
Qed.

Lemma idx_get_filter : forall f l k, NoDup (map ie_key l) ->
  idx_get (filter f l) k = match idx_get l k with Some e => if f e then Some e else None | None => None end.
Proof.
  induction l as [|x l IH]; simpl; intros k Hnd; [reflexivity|].
  inversion Hnd as [|? ? Hx Hnd']; subst.
  destruct (ie_key x =? k) eqn:E.
  - apply N.eqb_eq in E. destruct (f x) eqn:Fx; simpl; [rewrite (proj2 (N.eqb_eq _ _) E); reflexivity|].
    rewrite IH by exact Hnd'.
    assert (Hn : idx_get l k = None) by (apply idx_get_none_iff; rewrite <- E; exact Hx).
    rewrite Hn. reflexivity.
  - destruct (f x); simpl; [rewrite E|]; apply IH; exact Hnd'.
Qed.

(* ---------- MemDb ---------- *)
Lemma db_get_set : forall db e k, idx_get (db_set db e) k = if ie_key e =? k then Some e else idx_get db k.
Proof.
  induction db as [|x db IH]; simpl; intros e k; [reflexivity|].
  destruct (ie_key e <? ie_key x) eqn:L; simpl; [reflexivity|].
  destruct (ie_key e =? ie_key x) eqn:E; simpl.
  - apply N.eqb_eq in E. destruct (ie_key e =? k) eqn:Ek; [reflexivity|].
    rewrite <- E, Ek. reflexivity.
  - rewrite IH. destruct (ie_key x =? k) eqn:Xk; [|reflexivity].
    apply N.eqb_eq in Xk. apply N.eqb_neq in E.
    destruct (ie_key e =? k) eqn:Ek; [apply N.eqb_eq in Ek; congruence | reflexivity].
Qed.

Lemma db_get_del : forall db k k', idx_get (db_del db k) k' = if k =? k' then None else idx_get db k'.
Proof.
  induction db as [|x db IH]; simpl; intros k k'; [destruct (k =? k'); reflexivity|].
  destruct (ie_key x =? k) eqn:E; simpl.
  - rewrite IH. apply N.eqb_eq in E. subst k. destruct (ie_key x =? k'); reflexivity.
  - rewrite IH. destruct (ie_key x =? k') eqn:Xk; [|reflexivity].
    apply N.eqb_eq in Xk. apply N.eqb_neq in E.
    destruct (k =? k') eqn:Kk; [apply N.eqb_eq in Kk; congruence | reflexivity].
Qed.

Lemma db_load_get : forall idx k,
  idx_get (db_load idx) k = match idx_get idx k with
                            | Some e => if entry_dead e then None else Some e
                            | None => None
                            end.
Proof.
  induction idx as [|x idx IH]; simpl; intro k; [reflexivity|].
  destruct (entry_dead x) eqn:Dx.
  - rewrite db_get_del. destruct (ie_key x =? k); [rewrite Dx; reflexivity | apply IH].
  - rewrite db_get_set. destruct (ie_key x =? k); [rewrite Dx; reflexivity | apply IH].
Qed.

(* strictly ascending keys *)
Inductive asc : memdb -> Prop :=
| asc_nil : asc []
| asc_one x : asc [x]
| asc_cons x y l : ie_key x < ie_key y -> asc (y :: l) -> asc (x :: y :: l).

Lemma asc_tail : forall x l, asc (x :: l) -> asc l.
Proof. intros x l H. inversion H; subst; [constructor | assumption]. Qed.

Lemma asc_head_lt : forall l x y, asc (x :: l) -> In y l -> ie_key x < ie_key y.
Proof.
  induction l as [|z l IH]; intros x y H Hin; [contradiction|].
  inversion H; subst. destruct Hin as [->|Hin]; [assumption|].
  assert (ie_key z < ie_key y) by (apply IH; assumption). lia.
Qed.

Lemma asc_nodup : forall l, asc l -> NoDup (map ie_key l).
Proof.
  induction l as [|x l IH]; intro H; simpl; [constructor|].
  constructor; [| apply IH; eapply asc_tail; eauto].
  intro Hin. apply in_map_iff in Hin. destruct Hin as [y [Hk Hy]].
  pose proof (asc_head_lt _ _ _ H Hy). lia.
Qed.

Lemma db_set_head : forall db e, exists y l, db_set db e = y :: l /\ (ie_key y = ie_key e \/ (exists x db', db = x :: db' /\ y = x /\ ie_key x < ie_key e)).
Proof.
  intros [|x db] e; simpl; [eauto|].
  destruct (ie_key e <? ie_key x) eqn:L; [eauto|].
  destruct (ie_key e =? ie_key x) eqn:E; [eauto|].
  apply N.ltb_ge in L. apply N.eqb_neq in E.
  exists x, (db_set db e). split; [reflexivity|]. right. exists x, db. repeat split; lia.
Qed.

Lemma db_set_asc : forall db e, asc db -> asc (db_set db e).
Proof.
  induction db as [|x db IH]; simpl; intros e H; [constructor|].
  destruct (ie_key e <? ie_key x) eqn:L.
  - apply N.ltb_lt in L. constructor; assumption.
  - apply N.ltb_ge in L. destruct (ie_key e =? ie_key x) eqn:E.
    + apply N.eqb_eq in E. destruct db as [|y db]; [constructor|].
      inversion H; subst. constructor; [lia | assumption].
    + apply N.eqb_neq in E.
      assert (Ht : asc (db_set db e)) by (apply IH; eapply asc_tail; eauto).
      destruct (db_set_head db e) as [y [l [Eq Hy]]]. rewrite Eq in *.
      constructor; [|exact Ht].
      destruct Hy as [Hy | [x' [db' [-> [-> Hlt]]]]]; [lia|].
      inversion H; subst. assumption.
Qed.

Lemma db_del_asc : forall db k, asc db -> asc (db_del db k).
Proof.
  induction db as [|x db IH]; simpl; intros k H; [constructor|].
  assert (Ht : asc (db_del db k)) by (apply IH; eapply asc_tail; eauto).
  destruct (negb (ie_key x =? k)); [|exact Ht].
  destruct (db_del db k) as [|y l] eqn:E; [constructor|].
  constructor; [|exact Ht].
  apply (asc_head_lt db x y H).
  assert (Hin : In y (db_del db k)) by (rewrite E; left; reflexivity).
  unfold db_del in Hin. apply filter_In in Hin. tauto.
Qed.

Lemma db_load_asc : forall idx, asc (db_load idx).
Proof.
  induction idx as [|x idx IH]; simpl; [constructor|].
  destruct (entry_dead x); [apply db_del_asc | apply db_set_asc]; exact IH.
Qed.

Lemma asc_filter : forall f l, asc l -> asc (filter f l).
Proof.
  induction l as [|x l IH]; simpl; intro H; [constructor|].
  assert (Ht : asc (filter f l)) by (apply IH; eapply asc_tail; eauto).
  destruct (f x); [|exact Ht].
  destruct (filter f l) as [|y l'] eqn:E; [constructor|].
  constructor; [|exact Ht].
  apply (asc_head_lt l x y H).
  assert (Hin : In y (filter f l)) by (rewrite E; left; reflexivity).
  apply filter_In in Hin. tauto.
Qed.

(* appending a key larger than all present ones *)
Lemma db_set_append : forall db e, (forall x, In x db -> ie_key x < ie_key e) -> db_set db e = db ++ [e].
Proof.
  induction db as [|x db IH]; simpl; intros e H; [reflexivity|].
  assert (Hx : ie_key x < ie_key e) by (apply H; auto).
  destruct (ie_key e <? ie_key x) eqn:L; [apply N.ltb_lt in L; lia|].
  destruct (ie_key e =? ie_key x) eqn:E; [apply N.eqb_eq in E; lia|].
  f_equal. apply IH. intros y Hy. apply H. auto.
Qed.

(* ---------- records ---------- *)
Inductive sorted_recs : list rec -> N -> Prop :=
| sr_nil e : 8 <= e -> sorted_recs [] e
| sr_cons r l e : r_off r + actual_size (r_size r) <= e -> sorted_recs l (r_off r) -> sorted_recs (r :: l) e.

Lemma sorted_recs_weaken : forall l e e', sorted_recs l e -> e <= e' -> sorted_recs l e'.
Proof. intros l e e' H Hle. inversion H; subst; constructor; try assumption; lia. Qed.

Lemma sorted_recs_end : forall l e, sorted_recs l e -> 8 <= e.
Proof.
  induction l as [|r l IH]; intros e H; inversion H; subst; [assumption|].
  apply IH in H4. pose proof (actual_size_pos (r_size r)). lia.
Qed.

Lemma sorted_recs_bound : forall l e r, sorted_recs l e -> In r l ->
  8 <= r_off r /\ r_off r + actual_size (r_size r) <= e.
Proof.
  induction l as [|x l IH]; intros e r H Hin; [contradiction|].
  inversion H; subst. destruct Hin as [->|Hin].
  - split; [eapply sorted_recs_end; eauto | assumption].
  - destruct (IH _ _ H4 Hin) as [A B]. split; [exact A|].
    pose proof (actual_size_pos (r_size x)). lia.
Qed.

Lemma find_rec_off : forall l off r, find_rec l off = Some r -> r_off r = off.
Proof.
  induction l as [|x l IH]; simpl; intros off r H; [discriminate|].
  destruct (r_off x =? off) eqn:E; [inversion H; subst; apply N.eqb_eq; exact E | eauto].
Qed.

Lemma find_rec_In : forall l off r, find_rec l off = Some r -> In r l.
Proof.
  induction l as [|x l IH]; simpl; intros off r H; [discriminate|].
  destruct (r_off x =? off); [inversion H; auto | right; eauto].
Qed.

Lemma find_rec_sorted : forall l e r, sorted_recs l e -> In r l -> find_rec l (r_off r) = Some r.
Proof.
  induction l as [|x l IH]; intros e r H Hin; [contradiction|].
  inversion H; subst. simpl. destruct Hin as [->|Hin]; [rewrite N.eqb_refl; reflexivity|].
  destruct (r_off x =? r_off r) eqn:E.
  - apply N.eqb_eq in E. destruct (sorted_recs_bound _ _ _ H4 Hin) as [_ B].
    pose proof (actual_size_pos (r_size r)). lia.
  - eapply IH; eauto.
Qed.

Lemma find_rec_none_ge : forall l e off, sorted_recs l e -> e <= off -> find_rec l off = None.
Proof.
  intros l e off H Hle. destruct (find_rec l off) as [r|] eqn:E; [|reflexivity].
  pose proof (find_rec_off _ _ _ E). pose proof (find_rec_In _ _ _ E) as Hin.
  destruct (sorted_recs_bound _ _ _ H Hin) as [_ B]. pose proof (actual_size_pos (r_size r)). lia.
Qed.

(* records added in front (at higher offsets) do not disturb older lookups *)
Lemma find_rec_app_old : forall new old off r,
  find_rec old off = Some r -> (forall x, In x new -> r_off x <> off) -> find_rec (new ++ old) off = Some r.
Proof.
  induction new as [|x new IH]; simpl; intros old off r H Hn; [exact H|].
  destruct (r_off x =? off) eqn:E; [apply N.eqb_eq in E; exfalso; apply (Hn x); auto|].
  apply IH; [exact H | intros y Hy; apply Hn; auto].
Qed.

(* ---------- the invariant of a running volume with its .idx ---------- *)
Definition ent_ok (s : cvol) (k : N) : Prop :=
  match nm_get (nm (cv s)) k with
  | None => idx_get (cidx s) k = None
  | Some nv =>
      nv_off nv < dat_end (cv s) /\
      if (0 <=? nv_size nv)%Z then
        idx_get (cidx s) k = Some {| ie_key := k; ie_off := nv_off nv; ie_size := nv_size nv |}
        /\ exists r, find_rec (recs (cv s)) (nv_off nv) = Some r /\ Z.of_N (r_size r) = nv_size nv /\ n_id (r_n r) = k
      else exists o, idx_get (cidx s) k = Some {| ie_key := k; ie_off := o; ie_size := (-1)%Z |}
  end.

Record cinv (s : cvol) : Prop := {
  ci_sorted : sorted_recs (recs (cv s)) (dat_end (cv s));
  ci_ent : forall k, ent_ok s k;
  ci_idx_off : forall e, In e (cidx s) -> ie_off e < dat_end (cv s)
}.

Lemma cinv_init : cinv cinit.
Proof.
  constructor; simpl.
  - constructor. lia.
  - intro k. unfold ent_ok. simpl. reflexivity.
  - intros e [].
Qed.

Lemma nm_get_set_eq : forall m k v, nm_get (nm_set m k v) k = Some v.
Proof. intros. unfold nm_set. simpl. rewrite N.eqb_refl. reflexivity. Qed.
Lemma nm_get_set_neq : forall m k k' v, k <> k' -> nm_get (nm_set m k v) k' = nm_get m k'.
Proof. intros m k k' v H. unfold nm_set. simpl. apply N.eqb_neq in H. rewrite H. reflexivity. Qed.
Lemma nm_get_delete_neq : forall m k k', k <> k' -> nm_get (nm_delete m k) k' = nm_get m k'.
Proof.
  intros m k k' H. unfold nm_delete. destruct (nm_get m k) as [v|]; [|reflexivity].
  destruct (size_valid (nv_size v)); [|reflexivity]. simpl. apply N.eqb_neq in H. rewrite H. reflexivity.
Qed.

(* a record appended at the end of the file leaves the entries of other keys alone *)
Lemma ent_ok_frame : forall s s' k,
  nm_get (nm (cv s')) k = nm_get (nm (cv s)) k ->
  idx_get (cidx s') k = idx_get (cidx s) k ->
  dat_end (cv s) <= dat_end (cv s') ->
  (forall off r, off < dat_end (cv s) -> find_rec (recs (cv s)) off = Some r -> find_rec (recs (cv s')) off = Some r) ->
  ent_ok s k -> ent_ok s' k.
Proof.
  intros s s' k Hnm Hidx Hend Hrec H. unfold ent_ok in *. rewrite Hnm, Hidx.
  destruct (nm_get (nm (cv s)) k) as [nv|]; [|exact H].
  destruct H as [Hoff H]. split; [lia|].
  destruct (0 <=? nv_size nv)%Z; [|exact H].
  destruct H as [Hi [r [Hf [Hs Hid]]]]. split; [exact Hi|]. exists r. repeat split; auto.
Qed.

Lemma cinv_append_set : forall s n t,
  cinv s ->
  (match nm_get (nm (cv s)) (n_id n) with Some nv => nv_off nv <? dat_end (cv s) | None => true end) = true ->
  cinv {| cv := with_nm (fst (fst (append (cv s) n t)))
                        (nm_set (nm (fst (fst (append (cv s) n t)))) (n_id n)
                                {| nv_off := dat_end (cv s); nv_size := Z.of_N (needle_size n) |});
          cidx := {| ie_key := n_id n; ie_off := dat_end (cv s); ie_size := Z.of_N (needle_size n) |} :: cidx s |}.
Proof.
  intros s n t [Hs He Hi] _. pose proof (actual_size_pos (needle_size n)) as Hp.
  constructor; simpl.
  - constructor; simpl; [lia | exact Hs].
  - intro k. destruct (N.eq_dec (n_id n) k) as [<-|Hk].
    + unfold ent_ok. simpl. rewrite !N.eqb_refl. simpl. split; [lia|].
      assert (Hz : (0 <=? Z.of_N (needle_size n))%Z = true) by (apply Z.leb_le; lia). rewrite Hz.
      split; [reflexivity|]. eexists. split; [reflexivity|]. simpl. auto.
    + eapply ent_ok_frame; [| | | | apply (He k)]; simpl.
      * apply N.eqb_neq in Hk. rewrite Hk. reflexivity.
      * apply N.eqb_neq in Hk. rewrite Hk. reflexivity.
      * lia.
      * intros off r Hoff Hf. destruct (dat_end (cv s) =? off) eqn:E; [apply N.eqb_eq in E; lia | exact Hf].
  - intros e [<-|Hin]; simpl; [lia|]. specialize (Hi e Hin). lia.
Qed.

Lemma c_write_inv : forall vt s n t, cinv s -> cinv (fst (c_write vt s n t)).
Proof.
  intros vt s n t H. unfold c_write. destruct (is_read_only (cv s)); [exact H|].
  unfold c_do_write. set (n' := adjust vt n).
  destruct (ttl_str_empty vt && is_file_unchanged (cv s) n'); [exact H|].
  destruct (match nm_get (nm (cv s)) (n_id n') with
            | Some nv => match find_rec (recs (cv s)) (nv_off nv) with
                         | Some r => if n_cookie (r_n r) =? n_cookie n' then ENone else ECookie
                         | None => EOther end
            | None => ENone end) eqn:Ck; try exact H.
  assert (Hnew : (match nm_get (nm (cv s)) (n_id n') with Some nv => nv_off nv <? dat_end (cv s) | None => true end) = true).
  { pose proof (ci_ent _ H (n_id n')) as He. unfold ent_ok in He.
    destruct (nm_get (nm (cv s)) (n_id n')) as [nv|]; [|reflexivity].
    destruct He as [Ho _]. apply N.ltb_lt. exact Ho. }
  unfold append at 2 3. simpl snd. simpl fst at 3.
  change (snd (fst (append (cv s) n' t))) with (dat_end (cv s)).
  change (snd (append (cv s) n' t)) with (needle_size n').
  rewrite Hnew. simpl fst. apply cinv_append_set; assumption.
Qed.

Lemma c_delete_inv : forall s id c t, cinv s -> cinv (fst (fst (c_delete s id c t))).
Proof.
  intros s id c t H. unfold c_delete. destruct (no_write_or_delete (cv s)); [exact H|].
  destruct (nm_get (nm (cv s)) id) as [nv|] eqn:G; [|exact H].
  destruct (size_valid (nv_size nv)) eqn:V; [|exact H]. simpl fst.
  destruct H as [Hs He Hi]. pose proof (He id) as Hid. unfold ent_ok in Hid. rewrite G in Hid.
  destruct Hid as [Hoff _]. apply size_valid_pos in V.
  constructor; simpl.
  - constructor; simpl; [lia | exact Hs].
  - intro k. destruct (N.eq_dec id k) as [<-|Hk].
    + unfold ent_ok. simpl. unfold nm_delete. rewrite G.
      assert (V' : size_valid (nv_size nv) = true) by (apply size_valid_pos; exact V). rewrite V'.
      simpl. rewrite !N.eqb_refl. simpl. split; [lia|].
      assert (Hz : (0 <=? - nv_size nv)%Z = false) by (apply Z.leb_gt; lia). rewrite Hz.
      eexists. reflexivity.
    + eapply ent_ok_frame; [| | | | apply (He k)]; simpl.
      * apply nm_get_delete_neq. exact Hk.
      * apply N.eqb_neq in Hk. rewrite Hk. reflexivity.
      * lia.
      * intros off r Ho Hf. destruct (dat_end (cv s) =? off) eqn:E; [apply N.eqb_eq in E; lia | exact Hf].
  - pose proof (actual_size_pos (needle_size (tombstone id c))) as Hp.
    intros e [<-|Hin]; simpl; [lia|]. specialize (Hi e Hin). lia.
Qed.

Lemma round8_ge : forall x, x <= round8 x.
Proof. intro x. unfold round8. apply N.le_add_r. Qed.

Lemma c_pad_inv : forall s off, cinv s -> cinv (c_pad s off).
Proof.
  intros s off H. unfold c_pad. destruct (dat_end (cv s) <? round8 off) eqn:L; [|exact H].
  apply N.ltb_lt in L. destruct H as [Hs He Hi]. constructor; simpl.
  - eapply sorted_recs_weaken; [exact Hs | lia].
  - intro k. eapply ent_ok_frame; [| | | | apply (He k)]; simpl; auto; lia.
  - intros e Hin. specialize (Hi e Hin). lia.
Qed.

Lemma c_step_inv : forall vt s ev, cinv s -> cinv (fst (c_step vt s ev)).
Proof.
  intros vt s [t o] H. destruct o; unfold c_step; cbn [fst snd];
    [apply c_write_inv | apply c_delete_inv | apply c_pad_inv]; exact H.
Qed.

Lemma c_exec_inv : forall vt h s, cinv s -> cinv (c_exec vt s h).
Proof.
  induction h as [|ev h IH]; intros s H; [exact H|].
  unfold c_exec. simpl. apply IH. apply c_step_inv. exact H.
Qed.

Lemma c_exec_app : forall vt h1 h2 s, c_exec vt s (h1 ++ h2) = c_exec vt (c_exec vt s h1) h2.
Proof. intros. unfold c_exec. apply fold_left_app. Qed.
