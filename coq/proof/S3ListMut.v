(* C27: the tree-threading model (model/S3ListMut.v) against the immutable one
   (model/S3List.v), and the witnesses of findings 6 and 7. *)
From Coq Require Import List NArith ZArith Bool String Ascii Arith Lia.
From SW Require Import model.S3List model.S3ListMut proof.S3ListRefute.
Import ListNotations.
Local Open Scope string_scope.
Local Open Scope list_scope.

(* ---------- no emptiness test can run => same answers, tree untouched ---------- *)

Section NoTest.
  Variable ae delim : bool.
  Variable efuel : nat.
  Hypothesis Hno : ae = true \/ delim = false.

  Lemma loop_m_eq : forall (recm : list tree -> list string -> Z -> res * list tree)
                           (rec : list string -> Z -> res) rootk,
    (forall D' m', recm rootk D' m' = (rec D' m', rootk)) ->
    forall es D maxKeys1 items counter trunc next,
      loop_m ae delim efuel recm rootk D maxKeys1 es items counter trunc next =
      (loop ae rootk delim rec D maxKeys1 es items counter trunc next, rootk).
  Proof.
    intros recm rec rootk Hrec es.
    induction es as [|e es IH]; intros D maxKeys1 items counter trunc next; cbn [loop_m loop].
    - reflexivity.
    - destruct (counter >=? maxKeys1)%Z; [reflexivity|].
      destruct e as [n|n k].
      + apply IH.
      + destruct (n =? uploads); [apply IH|].
        destruct delim eqn:Hd; cbn [negb].
        * destruct Hno as [Hae|Hf]; [|discriminate Hf].
          replace (negb ae) with false by (rewrite Hae; reflexivity). cbn [andb]. apply IH.
        * rewrite Hrec.
          destruct (r_trunc (rec (D ++ [n]) (maxKeys1 - counter)%Z)); [reflexivity|apply IH].
  Qed.

  Lemma do_list_m_eq : forall fuel rootk D prefix maxKeys marker,
    do_list_m ae delim efuel fuel rootk D prefix maxKeys marker =
    (do_list ae rootk delim fuel D prefix maxKeys marker, rootk).
  Proof.
    induction fuel as [|f IH]; intros rootk D prefix maxKeys marker; cbn [do_list_m do_list].
    - reflexivity.
    - destruct ((prefix =? "/") && delim); [reflexivity|].
      destruct (maxKeys <=? 0)%Z; [reflexivity|].
      destruct (cut_slash marker) as [[subDir subMarker]|].
      + rewrite IH. apply loop_m_eq. intros D' m'. apply IH.
      + apply loop_m_eq. intros D' m'. apply IH.
  Qed.

End NoTest.

Section NoTest2.
  Variable ae delim : bool.
  Hypothesis Hno : ae = true \/ delim = false.

  Lemma list_objects_m_eq : forall rootk prefix maxKeys marker,
    list_objects_m ae rootk prefix maxKeys marker delim =
    (list_objects ae rootk prefix maxKeys marker delim, rootk).
  Proof.
    intros. unfold list_objects_m, list_objects, list_items. rewrite (do_list_m_eq ae delim _ Hno). reflexivity.
  Qed.

  (* the whole pagination loop: the pages and markers of S3List.paginate / markers, and
     the bucket is exactly what it was *)
  Theorem run_m_eq : forall n rootk prefix maxKeys st marker,
    map snd (fst (run_m n ae rootk prefix maxKeys delim st marker)) =
      paginate n ae rootk prefix maxKeys delim st marker /\
    map fst (fst (run_m n ae rootk prefix maxKeys delim st marker)) =
      markers n ae rootk prefix maxKeys delim st marker /\
    snd (run_m n ae rootk prefix maxKeys delim st marker) = rootk.
  Proof.
    induction n as [|n IH]; intros rootk prefix maxKeys st marker; cbn [run_m paginate markers].
    - repeat split; reflexivity.
    - rewrite list_objects_m_eq.
      destruct (pg_trunc (list_objects ae rootk prefix maxKeys marker delim)).
      + destruct (next_marker st (list_objects ae rootk prefix maxKeys marker delim)) as [m|].
        * specialize (IH rootk prefix maxKeys st m).
          destruct (run_m n ae rootk prefix maxKeys delim st m) as [l rk'].
          cbn [fst snd map] in *. destruct IH as [I1 [I2 I3]].
          rewrite I1, I2, I3. repeat split; reflexivity.
        * repeat split; reflexivity.
      + repeat split; reflexivity.
  Qed.
End NoTest2.

(* ---------- finding 6: filer order is not key order ---------- *)

Definition t_k6 : list tree := [Dr "d" [F "a"]; F "d.x"].
Definition t_k6b : list tree := [Dr "d" [F "a"; F "b"]; F "d.x"].

(* start-after d.x: d/a sorts behind it but is never listed *)
Theorem paginate_incomplete_order_clash :
  let pages := paginate 14 false t_k6 "" 1000 false V2StartAfter "d.x" in
  wf t_k6 = true /\ ended pages = true /\ all_keys pages = [] /\
  spec_keys t_k6 "" false "d.x" = ["d/a"] /\
  enumerates_b false t_k6 "" false "d.x" pages = false /\
  trigger_of false t_k6 "" false V2StartAfter "d.x" ["d.x"] t_k6 = Some 6%N.
Proof. vm_compute. repeat split; reflexivity. Qed.

(* marker d/a: d.x sorts before it but is listed *)
Theorem page_unsound_order_clash :
  wf t_k6b = true /\
  pg_keys (list_objects false t_k6b "" 1000 "d/a" false) = ["d/b"; "d.x"] /\
  String.ltb "d.x" "d/a" = true /\
  page_sound_b false t_k6b "" 1000 false "d/a" (list_objects false t_k6b "" 1000 "d/a" false) = false /\
  trigger_of false t_k6b "" false V1NextMarker "d/a" ["d/a"] t_k6b = Some 6%N.
Proof. vm_compute. repeat split; reflexivity. Qed.

(* the unpaginated listing is not in key order *)
Theorem listing_not_in_key_order :
  pg_keys (list_objects false t_k6 "" 1000 "" false) = ["d/a"; "d.x"] /\ String.ltb "d.x" "d/a" = true.
Proof. vm_compute. split; reflexivity. Qed.

(* ---------- finding 7: a LIST request deletes objects ---------- *)

Definition t_k7 : list tree := [F "a"; Dr "d" [F "a"; Dr "e" [F "a"]]; F "da"].

(* GET /b?delimiter=/&marker=/ : every folder of the bucket is deleted with its objects *)
Theorem list_deletes_objects_marker :
  let r := run_m 14 false t_k7 "" 1000 true V1NextMarker "/" in
  wf t_k7 = true /\
  bucket_keys t_k7 = ["a"; "d/a"; "d/e/a"; "da"] /\
  map (fun mp => pg_keys (snd mp)) (fst r) = [["/a"; "/da"; "a"; "da"]] /\
  snd r = [F "a"; F "da"] /\
  bucket_keys (snd r) = ["a"; "da"] /\
  trigger_of false t_k7 "" true V1NextMarker "/" (map fst (fst r)) (snd r) = Some 7%N.
Proof. vm_compute. repeat split; reflexivity. Qed.

(* GET /b?delimiter=/&prefix=d// : the folder d/e is deleted with its object *)
Theorem list_deletes_objects_prefix :
  let r := run_m 14 false t_k7 "d//" 1000 true V2Token "" in
  snd r = [F "a"; Dr "d" [F "a"]; F "da"] /\
  bucket_keys (snd r) = ["a"; "d/a"; "da"] /\
  trigger_of false t_k7 "d//" true V2Token "" (map fst (fst r)) (snd r) = Some 7%N.
Proof. vm_compute. repeat split; reflexivity. Qed.

(* by design (no -allowEmptyFolder): a delimiter listing removes the folders without any
   file (also an empty folder d/g inside a folder that has no file of its own); no object is lost, and the second listing no longer loses its look-ahead *)
Example list_deletes_empty_folders :
  let t := [F "a"; Dr "d" [Dr "g" []; Dr "k" [F "a"]]; Dr "e" [Dr "h" []]; F "f"] in
  let r := run_m 14 false t "" 1 true V2Token "" in
  wf t = true /\
  snd r = [F "a"; Dr "d" [Dr "k" [F "a"]]; F "f"] /\
  lists_equal_keys t (snd r) = true.
Proof. vm_compute. repeat split; reflexivity. Qed.
