(* Proofs about the interval lists of model/DirtyPages.v (C30), generic in the node payload. *)
From Coq Require Import List ZArith NArith Bool Lia.
From SW Require Import model.DirtyPages proof.DirtyPagesBase.
Import ListNotations.
Local Open Scope Z_scope.

(* ---------- pairwise relations on lists ---------- *)
Fixpoint pairwise {A} (R : A -> A -> Prop) (l : list A) : Prop :=
  match l with
  | [] => True
  | x :: l' => Forall (R x) l' /\ pairwise R l'
  end.

Lemma pairwise_app : forall {A} (R : A -> A -> Prop) a b,
  pairwise R (a ++ b) <-> pairwise R a /\ pairwise R b /\ (forall x y, In x a -> In y b -> R x y).
Proof.
  intros A R a b. induction a as [|x a IH]; simpl.
  - split; [intros H; repeat split; auto; intros ? ? []|tauto].
  - rewrite Forall_app, IH. split.
    + intros [[H1 H2] [H3 [H4 H5]]]. repeat split; auto.
      intros u v [Hu|Hu] Hv; [subst; rewrite Forall_forall in H2; auto|auto].
    + intros [[H1 H2] [H3 H4]]. repeat split; auto.
      apply Forall_forall. intros v Hv. apply H4; auto.
Qed.

Lemma pairwise_In : forall {A} (R : A -> A -> Prop) l x y,
  (forall u v, R u v -> R v u) -> pairwise R l -> In x l -> In y l -> x = y \/ R x y.
Proof.
  intros A R l x y Hsym. induction l as [|z l IH]; simpl; [tauto|].
  intros [H1 H2] [Hx|Hx] [Hy|Hy]; subst; auto.
  - right. rewrite Forall_forall in H1. auto.
  - right. rewrite Forall_forall in H1. apply Hsym. auto.
Qed.

Lemma pairwise_flat_map : forall {A B} (R : A -> A -> Prop) (S : B -> B -> Prop) (g : A -> list B) c,
  pairwise R c ->
  (forall l, In l c -> pairwise S (g l)) ->
  (forall l m z w, In l c -> In m c -> R l m -> In z (g l) -> In w (g m) -> S z w) ->
  pairwise S (flat_map g c).
Proof.
  intros A B R S g c. induction c as [|l c IH]; simpl; auto.
  intros [H1 H2] Hg Hx. apply pairwise_app. split; [apply Hg; auto|]. split.
  - apply IH; auto.
    intros l0 m z w Hl0 Hm. apply Hx; right; auto.
  - intros z w Hz Hw. apply in_flat_map in Hw. destruct Hw as [m [Hm Hw]].
    rewrite Forall_forall in H1. apply (Hx l m); auto.
Qed.

Lemma option_ext : forall {A} (x y : option A), (forall b, x = Some b <-> y = Some b) -> x = y.
Proof.
  intros A x y H. destruct x as [a|].
  - symmetry. apply H. reflexivity.
  - destruct y as [b|]; auto. apply H. reflexivity.
Qed.

Section Generic.
  Variable P : Type.
  Variable psub : P -> Z -> Z -> P.
  Variable merge_tail : node P -> node P -> option (node P).
  Variable fetch : P -> Z -> Z -> list N.

  Notation node := (node P).
  Notation ilist := (ilist P).
  Notation hd := (head_off P).
  Notation te := (tail_end P).
  Notation att := (add_to_tail P merge_tail).
  Notation sub_list := (sub_list P psub).
  Notation clip := (clip P psub).

  Definition nbytes (t : node) : list N := fetch (n_pay t) 0 (n_size t).

  Variable valid : node -> Prop.
  Hypothesis H_len : forall t, valid t -> 0 < n_size t /\ zlen (nbytes t) = n_size t.
  Hypothesis H_fetch : forall t a b, valid t -> 0 <= a -> a <= b -> b <= n_size t ->
    fetch (n_pay t) a b = slice (nbytes t) a b.
  Hypothesis H_sub : forall t a b, valid t -> 0 <= a -> a < b -> b <= n_size t ->
    valid {| n_off := n_off t + a; n_size := b - a; n_pay := psub (n_pay t) a b |} /\
    nbytes {| n_off := n_off t + a; n_size := b - a; n_pay := psub (n_pay t) a b |} = slice (nbytes t) a b.
  Hypothesis H_merge : forall t u w, valid t -> valid u -> n_off u = n_off t + n_size t ->
    merge_tail t u = Some w ->
    valid w /\ n_off w = n_off t /\ n_size w = n_size t + n_size u /\ nbytes w = nbytes t ++ nbytes u.

  (* ---------- content of a node / list / collection ---------- *)
  Definition nat_ (t : node) (p : Z) : option N :=
    if (n_off t <=? p) && (p <? n_off t + n_size t) then zget (nbytes t) (p - n_off t) else None.
  Fixpoint lat (l : ilist) (p : Z) : option N :=
    match l with
    | [] => None
    | t :: l' => match nat_ t p with Some b => Some b | None => lat l' p end
    end.
  Fixpoint cat (c : list ilist) (p : Z) : option N :=
    match c with
    | [] => None
    | l :: c' => match lat l p with Some b => Some b | None => cat c' p end
    end.

  (* ---------- well-formedness ---------- *)
  Fixpoint chain (l : ilist) : Prop :=
    match l with
    | [] => True
    | t :: l' => valid t /\ match l' with [] => True | u :: _ => n_off u = n_off t + n_size t end /\ chain l'
    end.
  Definition wfl (l : ilist) : Prop := l <> [] /\ chain l.                 (* a contiguous, non-empty list *)
  Definition sepd (l m : ilist) : Prop := te l < hd m \/ te m < hd l.      (* disjoint and not adjacent *)
  Definition wf (c : list ilist) : Prop := Forall wfl c /\ pairwise sepd c.

  Lemma sepd_sym : forall l m, sepd l m -> sepd m l.
  Proof. unfold sepd. tauto. Qed.

  (* ---------- nodes ---------- *)
  Lemma nat_some_range : forall t p b, nat_ t p = Some b -> n_off t <= p < n_off t + n_size t.
  Proof.
    unfold nat_. intros t p b. destruct (n_off t <=? p) eqn:E1; destruct (p <? n_off t + n_size t) eqn:E2; simpl; try discriminate.
    apply Z.leb_le in E1. apply Z.ltb_lt in E2. lia.
  Qed.

  Lemma nat_in_range : forall t p, valid t -> n_off t <= p < n_off t + n_size t -> exists b, nat_ t p = Some b.
  Proof.
    intros t p Hv Hp. unfold nat_.
    destruct (n_off t <=? p) eqn:E1; [|apply Z.leb_gt in E1; lia].
    destruct (p <? n_off t + n_size t) eqn:E2; [|apply Z.ltb_ge in E2; lia]. simpl.
    apply zget_in_range. destruct (H_len t Hv) as [_ Hl]. lia.
  Qed.

  Lemma nat_none_outside : forall t p, ~ (n_off t <= p < n_off t + n_size t) -> nat_ t p = None.
  Proof.
    intros t p H. destruct (nat_ t p) eqn:E; auto. apply nat_some_range in E. tauto.
  Qed.

  (* ---------- lists: ranges ---------- *)
  Lemma lat_app : forall l1 l2 p, lat (l1 ++ l2) p = match lat l1 p with Some b => Some b | None => lat l2 p end.
  Proof.
    induction l1 as [|t l1 IH]; intros l2 p; simpl; auto.
    destruct (nat_ t p); auto.
  Qed.

  Lemma te_cons : forall t u l, te (t :: u :: l) = te (u :: l).
  Proof. reflexivity. Qed.

  Lemma chain_hd_lt_te : forall l, l <> [] -> chain l -> hd l < te l.
  Proof.
    induction l as [|t l IH]; intros Hne Hc; [congruence|].
    destruct l as [|u l].
    - simpl in *. destruct Hc as [Hv _]. destruct (H_len t Hv). lia.
    - rewrite te_cons. destruct Hc as [Hv [Hu Hc]].
      assert (hd (u :: l) < te (u :: l)) by (apply IH; [discriminate|auto]).
      simpl hd in *. destruct (H_len t Hv). lia.
  Qed.

  Lemma wfl_hd_lt_te : forall l, wfl l -> hd l < te l.
  Proof. intros l [H1 H2]. apply chain_hd_lt_te; auto. Qed.

  Lemma lat_some_range : forall l p b, l <> [] -> chain l -> lat l p = Some b -> hd l <= p < te l.
  Proof.
    induction l as [|t l IH]; intros p b Hne Hc H; [congruence|].
    destruct l as [|u l].
    - simpl in *. destruct (nat_ t p) eqn:E; [|discriminate]. apply nat_some_range in E. lia.
    - rewrite te_cons. destruct Hc as [Hv [Hu Hc]]. simpl lat in H. simpl hd.
      assert (Hlt : hd (u :: l) < te (u :: l)) by (apply chain_hd_lt_te; [discriminate|auto]).
      simpl hd in Hlt. destruct (H_len t Hv).
      destruct (nat_ t p) eqn:E.
      + apply nat_some_range in E. lia.
      + assert (hd (u :: l) <= p < te (u :: l)) by (eapply IH; eauto; discriminate).
        simpl hd in *. lia.
  Qed.

  Lemma lat_in_range : forall l p, l <> [] -> chain l -> hd l <= p < te l -> exists b, lat l p = Some b.
  Proof.
    induction l as [|t l IH]; intros p Hne Hc Hp; [congruence|].
    destruct l as [|u l].
    - simpl in *. destruct Hc as [Hv _]. destruct (nat_in_range t p Hv) as [b Hb]; [lia|]. rewrite Hb. eauto.
    - rewrite te_cons in Hp. destruct Hc as [Hv [Hu Hc]]. simpl hd in Hp.
      cbn [lat]. destruct (nat_ t p) eqn:E; eauto.
      apply IH; [discriminate|auto|]. simpl hd.
      destruct (Z_lt_dec p (n_off t + n_size t)).
      + destruct (nat_in_range t p Hv) as [b Hb]; [lia|]. congruence.
      + lia.
  Qed.

  Lemma lat_none_outside : forall l p, wfl l -> ~ (hd l <= p < te l) -> lat l p = None.
  Proof.
    intros l p [H1 H2] H. destruct (lat l p) eqn:E; auto. apply lat_some_range in E; auto. tauto.
  Qed.

  Lemma sepd_disjoint : forall l m p b1 b2, wfl l -> wfl m -> sepd l m -> lat l p = Some b1 -> lat m p = Some b2 -> False.
  Proof.
    intros l m p b1 b2 [Hl1 Hl2] [Hm1 Hm2] Hs H1 H2.
    apply lat_some_range in H1; auto. apply lat_some_range in H2; auto. unfold sepd in Hs. lia.
  Qed.

  (* ---------- addNodeToTail ---------- *)
  Lemma att_spec : forall l u, wfl l -> valid u -> n_off u = te l ->
    wfl (att l u) /\ hd (att l u) = hd l /\ te (att l u) = te l + n_size u /\
    forall p, lat (att l u) p = match lat l p with Some b => Some b | None => nat_ u p end.
  Proof.
    induction l as [|t l IH]; intros u [Hne Hc] Hu Hoff; [congruence|].
    destruct l as [|v l].
    - simpl in Hc. destruct Hc as [Hv _]. simpl in Hoff. cbn [add_to_tail].
      destruct (merge_tail t u) as [w|] eqn:Em.
      + destruct (H_merge t u w Hv Hu Hoff Em) as [Hw [Ho [Hs Hb]]].
        split; [split; [discriminate|simpl; auto]|]. split; [simpl; auto|]. split; [simpl; lia|].
        intros p. simpl. unfold nat_. rewrite Ho, Hs, Hb.
        destruct (H_len t Hv) as [Hs1 Hl1]. destruct (H_len u Hu) as [Hs2 Hl2].
        destruct (Z_le_dec (n_off t) p).
        * rewrite zget_app by lia. rewrite Hl1, Hoff.
          replace (p - (n_off t + n_size t)) with (p - n_off t - n_size t) by lia.
          brefl; try reflexivity;
            repeat match goal with |- context [match ?x with Some _ => _ | None => _ end] => destruct x end; reflexivity.
        * brefl; reflexivity.
      + split; [split; [discriminate|simpl; auto]|]. split; [simpl; auto|]. split; [simpl; lia|].
        intros p. simpl. destruct (nat_ t p); auto. destruct (nat_ u p); auto.
    - destruct Hc as [Hv [Hvo Hc]].
      assert (Hw : wfl (v :: l)) by (split; [discriminate|auto]).
      rewrite te_cons in Hoff.
      destruct (IH u Hw Hu Hoff) as [[Hne' Hc'] [Hh [Ht Hl]]].
      assert (Heq : att (t :: v :: l) u = t :: att (v :: l) u) by reflexivity.
      rewrite Heq. clear Heq.
      destruct (att (v :: l) u) as [|v' l'] eqn:Ea; [congruence|].
      split; [split; [discriminate|]|].
      + simpl. split; auto. split; auto. simpl in Hh. lia.
      + split; [reflexivity|]. split; [rewrite !te_cons; auto|].
        intros p. cbn [lat]. destruct (nat_ t p); auto. apply Hl.
  Qed.

  (* ---------- addNodeToHead, linking two lists ---------- *)
  Lemma cons_spec : forall iv l, valid iv -> wfl l -> n_off iv + n_size iv = hd l ->
    wfl (iv :: l) /\ hd (iv :: l) = n_off iv /\ te (iv :: l) = te l.
  Proof.
    intros iv l Hv [Hne Hc] Hoff. destruct l as [|u l]; [congruence|].
    split; [split; [discriminate|]|split; reflexivity].
    simpl in Hoff. split; [exact Hv|]. split; [lia|exact Hc].
  Qed.

  Lemma app_spec : forall l1 l2, wfl l1 -> wfl l2 -> te l1 = hd l2 ->
    wfl (l1 ++ l2) /\ hd (l1 ++ l2) = hd l1 /\ te (l1 ++ l2) = te l2.
  Proof.
    induction l1 as [|t l1 IH]; intros l2 [Hne Hc] Hw2 Ht; [congruence|].
    destruct l1 as [|v l1].
    - simpl in Ht. simpl in Hc. destruct Hc as [Hv _].
      destruct (cons_spec t l2 Hv Hw2 Ht) as [H1 [H2 H3]]. simpl app. auto.
    - destruct Hc as [Hv [Hvo Hc]]. rewrite te_cons in Ht.
      destruct (IH l2 (conj (fun H => nil_cons (eq_sym H)) Hc) Hw2 Ht) as [[Hne' Hc'] [Hh Hte]].
      change ((t :: v :: l1) ++ l2) with (t :: ((v :: l1) ++ l2)).
      destruct ((v :: l1) ++ l2) as [|x r] eqn:Ea; [congruence|].
      split; [split; [discriminate|]|split; [reflexivity|rewrite te_cons; auto]].
      simpl. split; auto. split; auto. simpl in Hh. lia.
  Qed.

  (* ---------- subList ---------- *)
  Lemma lat_clip : forall a b t p, valid t ->
    lat (clip a b t) p = if (a <=? p) && (p <? b) then nat_ t p else None.
  Proof.
    intros a b t p Hv. unfold DirtyPages.clip.
    destruct (H_len t Hv) as [Hs Hl].
    destruct (Z.max a (n_off t) <? Z.min b (n_off t + n_size t)) eqn:E.
    - apply Z.ltb_lt in E.
      set (ns := Z.max a (n_off t)) in *. set (ne := Z.min b (n_off t + n_size t)) in *.
      destruct (H_sub t (ns - n_off t) (ne - n_off t) Hv) as [Hv' Hb']; try lia.
      replace (n_off t + (ns - n_off t)) with ns in * by lia.
      replace (ne - n_off t - (ns - n_off t)) with (ne - ns) in * by lia.
      cbn [lat]. unfold nat_ at 1. cbn [n_off n_size]. rewrite Hb'.
      rewrite zget_slice by lia. unfold nat_.
      replace (ns - n_off t + (p - ns)) with (p - n_off t) by lia.
      subst ns ne. brefl; try reflexivity.
      all: destruct (zget (nbytes t) (p - n_off t)); reflexivity.
    - apply Z.ltb_ge in E. simpl. unfold nat_. brefl; reflexivity.
  Qed.

  Lemma lat_sub_list : forall l a b p, Forall valid l ->
    lat (sub_list l a b) p = if (a <=? p) && (p <? b) then lat l p else None.
  Proof.
    induction l as [|t l IH]; intros a b p Hv.
    - simpl. destruct ((a <=? p) && (p <? b)); auto.
    - inversion Hv as [|? ? Hv1 Hv2]; subst.
      change (sub_list (t :: l) a b) with (clip a b t ++ sub_list l a b).
      rewrite lat_app, lat_clip, IH by auto. cbn [lat].
      destruct ((a <=? p) && (p <? b)); auto.
  Qed.

  Lemma chain_valid : forall l, chain l -> Forall valid l.
  Proof.
    induction l as [|t l IH]; intros H; constructor; simpl in H; tauto.
  Qed.

  Lemma sub_list_beyond : forall l a b, chain l -> l <> [] -> b <= hd l -> sub_list l a b = [].
  Proof.
    induction l as [|t l IH]; intros a b Hc Hne Hb; [congruence|].
    change (sub_list (t :: l) a b) with (clip a b t ++ sub_list l a b).
    destruct Hc as [Hv [Hu Hc]]. destruct (H_len t Hv) as [Hs _]. simpl in Hb.
    assert (Hcl : clip a b t = []).
    { unfold DirtyPages.clip. destruct (Z.max a (n_off t) <? Z.min b (n_off t + n_size t)) eqn:E; auto.
      apply Z.ltb_lt in E. lia. }
    rewrite Hcl. simpl. destruct l as [|u l]; auto.
    apply IH; auto; [discriminate|]. simpl. lia.
  Qed.

  Lemma clip_single : forall a b t, valid t ->
    Z.max a (n_off t) < Z.min b (n_off t + n_size t) ->
    exists t', clip a b t = [t'] /\ valid t' /\ n_off t' = Z.max a (n_off t) /\
               n_off t' + n_size t' = Z.min b (n_off t + n_size t).
  Proof.
    intros a b t Hv Hlt. unfold DirtyPages.clip.
    destruct (Z.max a (n_off t) <? Z.min b (n_off t + n_size t)) eqn:E; [|apply Z.ltb_ge in E; lia].
    set (ns := Z.max a (n_off t)) in *. set (ne := Z.min b (n_off t + n_size t)) in *.
    destruct (H_len t Hv) as [Hs _].
    destruct (H_sub t (ns - n_off t) (ne - n_off t) Hv) as [Hv' _]; try lia.
    replace (n_off t + (ns - n_off t)) with ns in * by lia.
    replace (ne - n_off t - (ns - n_off t)) with (ne - ns) in * by lia.
    eexists. split; [reflexivity|]. split; [exact Hv'|]. cbn [n_off n_size]. lia.
  Qed.

  Lemma sub_list_spec : forall l a b, wfl l -> a < b -> a < te l -> hd l < b ->
    wfl (sub_list l a b) /\ hd (sub_list l a b) = Z.max a (hd l) /\ te (sub_list l a b) = Z.min b (te l).
  Proof.
    induction l as [|t l IH]; intros a b [Hne Hc] Hab Ha Hb; [congruence|].
    change (sub_list (t :: l) a b) with (clip a b t ++ sub_list l a b).
    destruct l as [|u l].
    - simpl in Hc. destruct Hc as [Hv _]. destruct (H_len t Hv) as [Hs _]. simpl in Ha, Hb.
      destruct (clip_single a b t Hv) as [t' [Hc' [Hv' [Ho He]]]]; [lia|].
      rewrite Hc'. simpl. split; [split; [discriminate|simpl; auto]|]. split; lia.
    - destruct Hc as [Hv [Hu Hc]]. destruct (H_len t Hv) as [Hs _].
      rewrite te_cons in *. cbn [head_off] in Ha, Hb |- *.
      assert (Hw : wfl (u :: l)) by (split; [discriminate|auto]).
      assert (Hlt : hd (u :: l) < te (u :: l)) by (apply wfl_hd_lt_te; auto). cbn [head_off] in Hlt.
      destruct (Z_le_dec b (n_off t + n_size t)) as [Hb1|Hb1].
      + (* the window ends inside the first node *)
        rewrite (sub_list_beyond (u :: l) a b Hc) by (try discriminate; simpl; lia).
        rewrite app_nil_r.
        destruct (clip_single a b t Hv) as [t' [Hc' [Hv' [Ho He]]]]; [lia|].
        rewrite Hc'. split; [split; [discriminate|simpl; auto]|].
        set (T := te (u :: l)) in *. simpl. split; lia.
      + destruct (Z_le_dec (n_off t + n_size t) a) as [Ha1|Ha1].
        * (* the window starts after the first node *)
          assert (Hcl : clip a b t = []).
          { unfold DirtyPages.clip. destruct (Z.max a (n_off t) <? Z.min b (n_off t + n_size t)) eqn:E; auto.
            apply Z.ltb_lt in E. lia. }
          rewrite Hcl. rewrite app_nil_l.
          destruct (IH a b Hw Hab Ha) as [H1 [H2 H3]]; [cbn [head_off]; lia|].
          split; auto. rewrite H2, H3. cbn [head_off]. split; lia.
        * (* the window covers the boundary *)
          destruct (clip_single a b t Hv) as [t' [Hc' [Hv' [Ho He]]]]; [lia|].
          destruct (IH a b Hw Hab Ha) as [[H1 H1'] [H2 H3]]; [simpl; lia|].
          rewrite Hc'. change ([t'] ++ sub_list (u :: l) a b) with (t' :: sub_list (u :: l) a b).
          cbn [head_off] in H2.
          destruct (sub_list (u :: l) a b) as [|x r] eqn:Es; [congruence|].
          cbn [head_off] in H2.
          split; [split; [discriminate|]|].
          { split; [exact Hv'|]. split; [lia|exact H1']. }
          { split; [cbn [head_off]; lia|]. rewrite te_cons. lia. }
  Qed.
  (* ================= collections of lists ================= *)
  Definition holds (c : list ilist) (p : Z) (b : N) : Prop := exists l, In l c /\ lat l p = Some b.

  Lemma cat_holds : forall c p b, wf c -> (cat c p = Some b <-> holds c p b).
  Proof.
    induction c as [|l c IH]; intros p b [Hw Hp].
    - simpl. split; [discriminate|intros [l [[] _]]].
    - inversion Hw as [|? ? Hwl Hwc]; subst. destruct Hp as [Hs Hp].
      simpl cat. destruct (lat l p) as [b1|] eqn:E.
      + split.
        * intros H. inversion H; subst. exists l. split; [left; auto|auto].
        * intros [m [[Hm|Hm] Hb]]; [subst; congruence|].
          exfalso. rewrite Forall_forall in Hs, Hwc. eapply (sepd_disjoint l m); eauto.
      + rewrite IH by (split; auto). split.
        * intros [m [Hm Hb]]. exists m. split; [right; auto|auto].
        * intros [m [[Hm|Hm] Hb]]; [subst; congruence|]. exists m. auto.
  Qed.

  Lemma holds_app : forall a b p x, holds (a ++ b) p x <-> holds a p x \/ holds b p x.
  Proof.
    intros a b p x. unfold holds. split.
    - intros [l [Hl H]]. apply in_app_or in Hl. destruct Hl; [left|right]; eauto.
    - intros [[l [Hl H]]|[l [Hl H]]]; exists l; split; auto; apply in_or_app; auto.
  Qed.

  Lemma wf_sub : forall c c', wf c -> (forall x, In x c' -> In x c) -> pairwise sepd c' -> wf c'.
  Proof.
    intros c c' [Hw _] Hin Hp. split; auto. apply Forall_forall. intros x Hx.
    rewrite Forall_forall in Hw. auto.
  Qed.

  (* ---------- the per-list tests of AddInterval ---------- *)
  Definition outside (off e : Z) (l : ilist) : Prop := te l <= off \/ e <= hd l.
  Definition within (z l : ilist) : Prop := hd l <= hd z /\ te z <= te l.

  Lemma split_by_cases : forall off e l, wfl l -> off < e ->
    (te l <= off /\ split_by P psub off e l = [l]) \/
    (e <= hd l /\ split_by P psub off e l = [l]) \/
    (off < te l /\ hd l < e /\
     split_by P psub off e l =
       (if hd l <? off then [sub_list l (hd l) off] else []) ++
       (if e <? te l then [sub_list l e (te l)] else [])).
  Proof.
    intros off e l Hw Hoe. pose proof (wfl_hd_lt_te l Hw) as Hlt.
    unfold DirtyPages.split_by.
    destruct (Z_le_dec (te l) off) as [C1|C1]; [left|right; destruct (Z_le_dec e (hd l)) as [C2|C2]; [left|right]].
    - split; auto. brefl; reflexivity.
    - split; auto. brefl; reflexivity.
    - split; [lia|]. split; [lia|]. brefl; reflexivity.
  Qed.

  Lemma split_by_spec : forall off e l, wfl l -> off < e ->
    (forall z, In z (split_by P psub off e l) -> wfl z /\ within z l /\ outside off e z) /\
    pairwise sepd (split_by P psub off e l) /\
    (forall p b, (exists z, In z (split_by P psub off e l) /\ lat z p = Some b) <->
                 (lat l p = Some b /\ ~ (off <= p < e))).
  Proof.
    intros off e l Hw Hoe. pose proof (wfl_hd_lt_te l Hw) as Hlt.
    destruct Hw as [Hne Hc]. assert (Hw : wfl l) by (split; auto).
    destruct (split_by_cases off e l Hw Hoe) as [[C E]|[[C E]|[C1 [C2 E]]]]; rewrite E; clear E.
    - split; [|split].
      + intros z [Hz|[]]; subst. unfold within, outside. split; auto. split; lia.
      + simpl. auto.
      + intros p b. split.
        * intros [z [[Hz|[]] H]]; subst. split; auto.
          apply lat_some_range in H; auto. lia.
        * intros [H _]. exists l. split; [left; auto|auto].
    - split; [|split].
      + intros z [Hz|[]]; subst. unfold within, outside. split; auto. split; lia.
      + simpl. auto.
      + intros p b. split.
        * intros [z [[Hz|[]] H]]; subst. split; auto.
          apply lat_some_range in H; auto. lia.
        * intros [H _]. exists l. split; [left; auto|auto].
    - (* the new interval overlaps the list: left and right remainders *)
      assert (HL : hd l < off -> wfl (sub_list l (hd l) off) /\ hd (sub_list l (hd l) off) = hd l /\
                                 te (sub_list l (hd l) off) = off).
      { intros H. destruct (sub_list_spec l (hd l) off Hw) as [H1 [H2 H3]]; try lia. split; auto. split; lia. }
      assert (HR : e < te l -> wfl (sub_list l e (te l)) /\ hd (sub_list l e (te l)) = e /\
                                te (sub_list l e (te l)) = te l).
      { intros H. destruct (sub_list_spec l e (te l) Hw) as [H1 [H2 H3]]; try lia. split; auto. split; lia. }
      pose proof (chain_valid l Hc) as Hval.
      split; [|split].
      + intros z Hz. apply in_app_or in Hz. destruct Hz as [Hz|Hz].
        * destruct (hd l <? off) eqn:E1; [|destruct Hz]. apply Z.ltb_lt in E1.
          destruct Hz as [Hz|[]]. subst z. destruct (HL E1) as [H1 [H2 H3]].
          unfold within, outside. split; auto. split; lia.
        * destruct (e <? te l) eqn:E1; [|destruct Hz]. apply Z.ltb_lt in E1.
          destruct Hz as [Hz|[]]. subst z. destruct (HR E1) as [H1 [H2 H3]].
          unfold within, outside. split; auto. split; lia.
      + destruct (hd l <? off) eqn:E1; destruct (e <? te l) eqn:E2; simpl; auto.
        apply Z.ltb_lt in E1. apply Z.ltb_lt in E2.
        destruct (HL E1) as [_ [_ H3]]. destruct (HR E2) as [_ [H2 _]].
        split; auto. constructor; auto. unfold sepd. lia.
      + intros p b. split.
        * intros [z [Hz H]]. apply in_app_or in Hz. destruct Hz as [Hz|Hz].
          { destruct (hd l <? off) eqn:E1; [|destruct Hz]. destruct Hz as [Hz|[]]. subst z.
            rewrite lat_sub_list in H by auto.
            destruct (hd l <=? p) eqn:E3; destruct (p <? off) eqn:E4; simpl in H; try discriminate.
            apply Z.ltb_lt in E4. split; auto. lia. }
          { destruct (e <? te l) eqn:E1; [|destruct Hz]. destruct Hz as [Hz|[]]. subst z.
            rewrite lat_sub_list in H by auto.
            destruct (e <=? p) eqn:E3; destruct (p <? te l) eqn:E4; simpl in H; try discriminate.
            apply Z.leb_le in E3. split; auto. lia. }
        * intros [H Hout]. pose proof (lat_some_range l p b Hne Hc H) as Hr.
          destruct (Z_lt_dec p off) as [Hp|Hp].
          { exists (sub_list l (hd l) off). split.
            - apply in_or_app. left. destruct (hd l <? off) eqn:E1; [left; auto|apply Z.ltb_ge in E1; lia].
            - rewrite lat_sub_list by auto.
              destruct (hd l <=? p) eqn:E3; [|apply Z.leb_gt in E3; lia].
              destruct (p <? off) eqn:E4; [|apply Z.ltb_ge in E4; lia]. simpl. auto. }
          { exists (sub_list l e (te l)). split.
            - apply in_or_app. right. destruct (e <? te l) eqn:E1; [left; auto|apply Z.ltb_ge in E1; lia].
            - rewrite lat_sub_list by auto.
              destruct (e <=? p) eqn:E3; [|apply Z.leb_gt in E3; lia].
              destruct (p <? te l) eqn:E4; [|apply Z.ltb_ge in E4; lia]. simpl. auto. }
  Qed.

  Lemma split_all_spec : forall off e c, wf c -> off < e ->
    wf (flat_map (split_by P psub off e) c) /\
    Forall (outside off e) (flat_map (split_by P psub off e) c) /\
    (forall p b, holds (flat_map (split_by P psub off e) c) p b <-> (holds c p b /\ ~ (off <= p < e))).
  Proof.
    intros off e c [Hw Hp] Hoe. rewrite Forall_forall in Hw.
    split; [split|split].
    - apply Forall_forall. intros z Hz. apply in_flat_map in Hz. destruct Hz as [l [Hl Hz]].
      destruct (split_by_spec off e l (Hw l Hl) Hoe) as [H1 _]. apply H1; auto.
    - eapply pairwise_flat_map with (R := sepd); eauto.
      + intros l Hl. destruct (split_by_spec off e l (Hw l Hl) Hoe) as [_ [H2 _]]. auto.
      + intros l m z w Hl Hm Hs Hz Hw'.
        destruct (split_by_spec off e l (Hw l Hl) Hoe) as [H1 _].
        destruct (split_by_spec off e m (Hw m Hm) Hoe) as [H2 _].
        destruct (H1 z Hz) as [_ [[A1 A2] _]]. destruct (H2 w Hw') as [_ [[B1 B2] _]].
        unfold sepd in *. lia.
    - apply Forall_forall. intros z Hz. apply in_flat_map in Hz. destruct Hz as [l [Hl Hz]].
      destruct (split_by_spec off e l (Hw l Hl) Hoe) as [H1 _]. apply H1; auto.
    - intros p b. unfold holds. split.
      + intros [z [Hz H]]. apply in_flat_map in Hz. destruct Hz as [l [Hl Hz]].
        destruct (split_by_spec off e l (Hw l Hl) Hoe) as [_ [_ H3]].
        destruct (proj1 (H3 p b)) as [A B]; [eauto|]. split; eauto.
      + intros [[l [Hl H]] Hout].
        destruct (split_by_spec off e l (Hw l Hl) Hoe) as [_ [_ H3]].
        destruct (proj2 (H3 p b)) as [z [Hz A]]; [auto|]. exists z. split; auto.
        apply in_flat_map. eauto.
  Qed.

  (* ---------- updating the first / removing the last matching list ---------- *)
  Notation upd_first := (upd_first P).
  Notation remove_last := (remove_last P).

  Lemma upd_first_in : forall test f c z, In z (upd_first test f c) ->
    In z c \/ exists x, In x c /\ test x = true /\ z = f x.
  Proof.
    induction c as [|l c IH]; simpl; intros z H; [tauto|].
    destruct (test l) eqn:E.
    - destruct H as [H|H]; [right; exists l; auto|auto].
    - destruct H as [H|H]; [auto|]. destruct (IH z H) as [A|[x [A [B C]]]]; [auto|].
      right. exists x. auto.
  Qed.

  Lemma upd_first_hit : forall test f c x, In x c -> test x = true ->
    exists y, In y c /\ test y = true /\ In (f y) (upd_first test f c).
  Proof.
    induction c as [|l c IH]; simpl; intros x H Hx; [tauto|].
    destruct (test l) eqn:E.
    - exists l. simpl. auto.
    - destruct H as [H|H]; [subst; congruence|].
      destruct (IH x H Hx) as [y [A [B C]]]. exists y. simpl. auto.
  Qed.

  Lemma upd_first_keep : forall test f c z, In z c ->
    In z (upd_first test f c) \/ (test z = true /\ In (f z) (upd_first test f c)).
  Proof.
    induction c as [|l c IH]; simpl; intros z H; [tauto|].
    destruct (test l) eqn:E.
    - destruct H as [H|H]; [subst; right; simpl; auto|left; simpl; auto].
    - destruct H as [H|H]; [subst; left; simpl; auto|].
      destruct (IH z H) as [A|[A B]]; [left|right]; simpl; auto.
  Qed.

  Lemma upd_first_wf : forall test f c, wf c ->
    (forall x, In x c -> test x = true -> wfl (f x)) ->
    (forall x m, In x c -> In m c -> test x = true -> sepd x m -> sepd (f x) m) ->
    wf (upd_first test f c).
  Proof.
    intros test f c. induction c as [|l c IH]; intros [Hw Hp] Hf Hs; [split; simpl; auto|].
    inversion Hw as [|? ? Hwl Hwc]; subst. destruct Hp as [Hsl Hp]. simpl.
    destruct (test l) eqn:E.
    - split.
      + constructor; auto. apply Hf; simpl; auto.
      + split; auto. apply Forall_forall. intros m Hm. rewrite Forall_forall in Hsl.
        apply Hs; simpl; auto.
    - destruct IH as [IH1 IH2]; [split; auto| | |].
      + intros x Hx. apply Hf. simpl; auto.
      + intros x m Hx Hm. apply Hs; simpl; auto.
      + split; [constructor; auto|]. split; auto.
        apply Forall_forall. intros z Hz. rewrite Forall_forall in Hsl.
        destruct (upd_first_in test f c z Hz) as [A|[x [A [B C]]]]; [auto|].
        subst z. apply sepd_sym. apply Hs; simpl; auto. apply sepd_sym. auto.
  Qed.

  Lemma remove_last_in : forall T c z, In z (remove_last T c) -> In z c.
  Proof.
    induction c as [|l c IH]; simpl; intros z H; [tauto|].
    destruct (T l && negb (existsb T c)); [auto|]. destruct H; auto.
  Qed.

  Lemma remove_last_keep : forall T c z, In z c -> T z = false -> In z (remove_last T c).
  Proof.
    induction c as [|l c IH]; simpl; intros z H Hz; [tauto|].
    destruct (T l && negb (existsb T c)) eqn:E.
    - destruct H as [H|H]; [subst|auto]. rewrite Hz in E. discriminate.
    - destruct H as [H|H]; [left; auto|right; auto].
  Qed.

  Lemma remove_last_pairwise : forall T c, pairwise sepd c -> pairwise sepd (remove_last T c).
  Proof.
    induction c as [|l c IH]; simpl; intros H; auto. destruct H as [H1 H2].
    destruct (T l && negb (existsb T c)); auto. simpl. split; auto.
    apply Forall_forall. intros z Hz. rewrite Forall_forall in H1. apply H1.
    eapply remove_last_in; eauto.
  Qed.

  (* under wf at most one list starts at a given offset, so none is left *)
  Lemma remove_last_none : forall e c, wf c ->
    forall z, In z (remove_last (fun l => hd l =? e) c) -> hd z <> e.
  Proof.
    intros e. induction c as [|l c IH]; intros [Hw Hp] z Hz; [destruct Hz|].
    inversion Hw as [|? ? Hwl Hwc]; subst. destruct Hp as [Hsl Hp]. simpl in Hz.
    destruct (hd l =? e) eqn:E1; simpl in Hz.
    - destruct (existsb (fun l0 => hd l0 =? e) c) eqn:E2; simpl in Hz.
      + exfalso. apply existsb_exists in E2. destruct E2 as [m [Hm E2]].
        apply Z.eqb_eq in E1. apply Z.eqb_eq in E2.
        rewrite Forall_forall in Hsl, Hwc. specialize (Hsl m Hm).
        pose proof (wfl_hd_lt_te l Hwl). pose proof (wfl_hd_lt_te m (Hwc m Hm)).
        unfold sepd in Hsl. lia.
      + intros Hc. assert (existsb (fun l0 => hd l0 =? e) c = true).
        { apply existsb_exists. exists z. split; auto. apply Z.eqb_eq. auto. }
        congruence.
    - destruct Hz as [Hz|Hz]; [subst; apply Z.eqb_neq; auto|]. apply IH; auto. split; auto.
  Qed.

  Lemma existsb_upd_first : forall T test f c,
    (forall x, In x c -> test x = true -> T (f x) = T x) ->
    existsb T (upd_first test f c) = existsb T c.
  Proof.
    induction c as [|l c IH]; simpl; intros H; auto.
    destruct (test l) eqn:E; simpl.
    - rewrite H; auto.
    - rewrite IH; auto.
  Qed.

  Lemma remove_last_upd_first : forall T test f c,
    (forall x, In x c -> test x = true -> T (f x) = false /\ T x = false) ->
    remove_last T (upd_first test f c) = upd_first test f (remove_last T c).
  Proof.
    induction c as [|l c IH]; simpl; intros H; auto.
    destruct (test l) eqn:E.
    - destruct (H l (or_introl eq_refl) E) as [H1 H2]. simpl. rewrite H1, H2. simpl. rewrite E. auto.
    - simpl. rewrite existsb_upd_first.
      + destruct (T l && negb (existsb T c)); auto. simpl. rewrite E. rewrite IH; auto.
      + intros x Hx Ht. destruct (H x (or_intror Hx) Ht). congruence.
  Qed.

  (* ================= AddInterval ================= *)
  Definition add_post (c r : list ilist) (iv : node) : Prop :=
    wf r /\ forall p b, holds r p b <-> (nat_ iv p = Some b \/ (nat_ iv p = None /\ holds c p b)).

  Lemma nat_none_iff : forall iv p, valid iv -> (nat_ iv p = None <-> ~ (n_off iv <= p < n_off iv + n_size iv)).
  Proof.
    intros iv p Hv. split.
    - intros H Hr. destruct (nat_in_range iv p Hv Hr) as [b Hb]. congruence.
    - apply nat_none_outside.
  Qed.

  Lemma lat_single : forall iv p, lat [iv] p = nat_ iv p.
  Proof. intros. simpl. destruct (nat_ iv p); auto. Qed.

  Lemma add_general_spec : forall c iv, wf c -> valid iv ->
    add_post c (add_general P psub merge_tail c iv) iv.
  Proof.
    intros c iv Hwf Hv. destruct (H_len iv Hv) as [Hsz _].
    unfold add_general. cbv zeta.
    set (e := n_off iv + n_size iv). set (off := n_off iv).
    assert (Hoe : off < e) by (unfold off, e; lia).
    destruct (split_all_spec off e c Hwf Hoe) as [Hnl [Hout Hh]].
    set (nl := flat_map (split_by P psub off e) c) in *.
    set (is_prev := fun l : ilist => hd l + l_size P l =? off).
    set (is_next := fun l : ilist => hd l =? e).
    assert (Hprev : forall l, is_prev l = true <-> te l = off).
    { intros l. unfold is_prev, l_size. rewrite Z.eqb_eq. lia. }
    assert (Hnext : forall l, is_next l = true <-> hd l = e).
    { intros l. unfold is_next. rewrite Z.eqb_eq. tauto. }
    destruct Hnl as [Hwl Hpw]. assert (Hnl : wf nl) by (split; auto).
    rewrite Forall_forall in Hwl, Hout.
    assert (Hnone : forall p, ~ (off <= p < e) -> nat_ iv p = None).
    { intros p Hp. apply nat_none_outside. auto. }
    assert (Hin : forall p b, nat_ iv p = Some b -> off <= p < e).
    { intros p b Hp. apply nat_some_range in Hp. auto. }
    assert (Hnl_out : forall p b, holds nl p b -> nat_ iv p = None).
    { intros p b Hp. apply Hh in Hp. apply Hnone. tauto. }
    assert (Hback : forall p b, nat_ iv p = None -> holds c p b -> holds nl p b).
    { intros p b Hp Hc. apply Hh. split; auto. apply (nat_none_iff iv p Hv). auto. }
    destruct (find is_prev nl) as [pv|] eqn:Fp; destruct (find is_next nl) as [nx|] eqn:Fn.
    - (* both neighbours: prev ++ [iv] ++ next *)
      apply find_some in Fp. destruct Fp as [Hpv Tpv]. apply Hprev in Tpv.
      apply find_some in Fn. destruct Fn as [Hnx Tnx]. apply Hnext in Tnx.
      set (f := fun l : ilist => att l iv ++ nx).
      set (T := fun l : ilist => hd l =? hd nx).
      assert (Hf : forall x, In x nl -> is_prev x = true ->
                wfl (f x) /\ hd (f x) = hd x /\ te (f x) = te nx /\
                forall p, lat (f x) p = match lat x p with Some b => Some b | None =>
                                          match nat_ iv p with Some b => Some b | None => lat nx p end end).
      { intros x Hx Tx. apply Hprev in Tx.
        destruct (att_spec x iv (Hwl x Hx) Hv) as [A1 [A2 [A3 A4]]]; [unfold off in Tx; lia|].
        destruct (app_spec (att x iv) nx A1 (Hwl nx Hnx)) as [B1 [B2 B3]]; [unfold e in Tnx; lia|].
        unfold f. split; auto. split; [lia|]. split; auto.
        intros p. rewrite lat_app, A4. destruct (lat x p); auto. }
      assert (HT : forall x, In x nl -> is_prev x = true -> T (f x) = false /\ T x = false).
      { intros x Hx Tx. destruct (Hf x Hx Tx) as [_ [A2 _]]. apply Hprev in Tx.
        pose proof (wfl_hd_lt_te x (Hwl x Hx)). unfold T. rewrite A2.
        split; apply Z.eqb_neq; lia. }
      rewrite (remove_last_upd_first T is_prev f nl HT).
      set (nl' := remove_last T nl).
      assert (Hsub : forall z, In z nl' -> In z nl) by (intros z; apply remove_last_in).
      assert (Hnl' : wf nl').
      { apply (wf_sub nl); auto. apply remove_last_pairwise; auto. }
      assert (HnoT : forall z, In z nl' -> hd z <> e).
      { intros z Hz. rewrite <- Tnx. apply (remove_last_none (hd nx) nl Hnl z Hz). }
      assert (Hsep_nx : forall m, In m nl' -> sepd m nx).
      { intros m Hm. destruct (pairwise_In sepd nl m nx sepd_sym Hpw (Hsub m Hm) Hnx) as [A|A]; auto.
        subst m. exfalso. apply (HnoT nx Hm). auto. }
      assert (Hpv' : In pv nl').
      { apply remove_last_keep; auto. unfold T. apply Z.eqb_neq.
        pose proof (wfl_hd_lt_te pv (Hwl pv Hpv)). lia. }
      split.
      + apply upd_first_wf; auto.
        * intros x Hx Tx. apply (Hf x (Hsub x Hx) Tx).
        * intros x m Hx Hm Tx Hs. destruct (Hf x (Hsub x Hx) Tx) as [_ [A2 [A3 _]]].
          apply Hprev in Tx. pose proof (Hout m (Hsub m Hm)) as Om. pose proof (HnoT m Hm) as Nm.
          pose proof (Hsep_nx m Hm) as Sm. pose proof (wfl_hd_lt_te m (Hwl m (Hsub m Hm))).
          unfold sepd, outside in *. rewrite A2, A3. lia.
      + intros p b. split.
        * intros [z [Hz Hb]]. destruct (upd_first_in is_prev f nl' z Hz) as [A|[x [A [B C]]]].
          { right. assert (holds nl p b) by (exists z; split; auto). split; [eauto|]. apply Hh; auto. }
          { subst z. destruct (Hf x (Hsub x A) B) as [_ [_ [_ A4]]]. rewrite A4 in Hb.
            destruct (lat x p) eqn:E1.
            - inversion Hb; subst. right. assert (holds nl p b) by (exists x; split; auto).
              split; [eauto|]. apply Hh; auto.
            - destruct (nat_ iv p) eqn:E2; [left; auto|].
              right. split; auto. assert (holds nl p b) by (exists nx; split; auto). apply Hh; auto. }
        * intros [Hp|[Hp Hc]].
          { destruct (upd_first_hit is_prev f nl' pv Hpv') as [y [A [B C]]]; [apply Hprev; auto|].
            exists (f y). split; auto. destruct (Hf y (Hsub y A) B) as [_ [_ [_ A4]]]. rewrite A4.
            apply Hprev in B. pose proof (Hin p b Hp).
            rewrite (lat_none_outside y p (Hwl y (Hsub y A))) by lia. rewrite Hp. auto. }
          { destruct (Hback p b Hp Hc) as [z [Hz Hb]].
            destruct (Z.eq_dec (hd z) e) as [Ez|Ez].
            - (* z is the next list *)
              assert (z = nx).
              { destruct (pairwise_In sepd nl z nx sepd_sym Hpw Hz Hnx) as [A|A]; auto.
                pose proof (wfl_hd_lt_te z (Hwl z Hz)). pose proof (wfl_hd_lt_te nx (Hwl nx Hnx)).
                unfold sepd in A. lia. }
              subst z.
              destruct (upd_first_hit is_prev f nl' pv Hpv') as [y [A [B C]]]; [apply Hprev; auto|].
              exists (f y). split; auto. destruct (Hf y (Hsub y A) B) as [_ [_ [_ A4]]]. rewrite A4.
              apply Hprev in B. destruct (Hwl nx Hnx) as [N1 N2].
              pose proof (lat_some_range nx p b N1 N2 Hb).
              rewrite (lat_none_outside y p (Hwl y (Hsub y A))) by lia. rewrite Hp. auto.
            - assert (Hz' : In z nl').
              { apply remove_last_keep; auto. unfold T. apply Z.eqb_neq. lia. }
              destruct (upd_first_keep is_prev f nl' z Hz') as [A|[A B]].
              + exists z. auto.
              + exists (f z). split; auto. destruct (Hf z Hz A) as [_ [_ [_ A4]]]. rewrite A4, Hb. auto. }
    - (* only the previous list *)
      apply find_some in Fp. destruct Fp as [Hpv Tpv].
      pose proof (find_none _ _ Fn) as Nn.
      assert (Hnn : forall m, In m nl -> hd m <> e).
      { intros m Hm A. apply Hnext in A. rewrite (Nn m Hm) in A. discriminate. }
      set (f := fun l : ilist => att l iv).
      assert (Hf : forall x, In x nl -> is_prev x = true ->
                wfl (f x) /\ hd (f x) = hd x /\ te (f x) = e /\
                forall p, lat (f x) p = match lat x p with Some b => Some b | None => nat_ iv p end).
      { intros x Hx Tx. apply Hprev in Tx.
        destruct (att_spec x iv (Hwl x Hx) Hv) as [A1 [A2 [A3 A4]]]; [unfold off in Tx; lia|].
        unfold f. split; auto. split; auto. split; auto. unfold e. unfold off in Tx. lia. }
      split.
      + apply upd_first_wf; auto.
        * intros x Hx Tx. apply (Hf x Hx Tx).
        * intros x m Hx Hm Tx Hs. destruct (Hf x Hx Tx) as [_ [A2 [A3 _]]].
          apply Hprev in Tx. pose proof (Hout m Hm) as Om. pose proof (Hnn m Hm).
          pose proof (wfl_hd_lt_te m (Hwl m Hm)).
          unfold sepd, outside in *. rewrite A2, A3. lia.
      + intros p b. split.
        * intros [z [Hz Hb]]. destruct (upd_first_in is_prev f nl z Hz) as [A|[x [A [B C]]]].
          { right. assert (holds nl p b) by (exists z; split; auto). split; [eauto|]. apply Hh; auto. }
          { subst z. destruct (Hf x A B) as [_ [_ [_ A4]]]. rewrite A4 in Hb.
            destruct (lat x p) eqn:E1.
            - inversion Hb; subst. right. assert (holds nl p b) by (exists x; split; auto).
              split; [eauto|]. apply Hh; auto.
            - left. auto. }
        * intros [Hp|[Hp Hc]].
          { destruct (upd_first_hit is_prev f nl pv Hpv Tpv) as [y [A [B C]]].
            exists (f y). split; auto. destruct (Hf y A B) as [_ [_ [_ A4]]]. rewrite A4.
            apply Hprev in B. pose proof (Hin p b Hp).
            rewrite (lat_none_outside y p (Hwl y A)) by lia. auto. }
          { destruct (Hback p b Hp Hc) as [z [Hz Hb]].
            destruct (upd_first_keep is_prev f nl z Hz) as [A|[A B]].
            + exists z. auto.
            + exists (f z). split; auto. destruct (Hf z Hz A) as [_ [_ [_ A4]]]. rewrite A4, Hb. auto. }
    - (* only the next list: addNodeToHead *)
      apply find_some in Fn. destruct Fn as [Hnx Tnx].
      pose proof (find_none _ _ Fp) as Np.
      assert (Hnp : forall m, In m nl -> te m <> off).
      { intros m Hm A. apply Hprev in A. rewrite (Np m Hm) in A. discriminate. }
      set (f := fun l : ilist => iv :: l).
      assert (Hf : forall x, In x nl -> is_next x = true ->
                wfl (f x) /\ hd (f x) = off /\ te (f x) = te x).
      { intros x Hx Tx. apply Hnext in Tx.
        destruct (cons_spec iv x Hv (Hwl x Hx)) as [A1 [A2 A3]]; [unfold e in Tx; lia|].
        unfold f. auto. }
      split.
      + apply upd_first_wf; auto.
        * intros x Hx Tx. apply (Hf x Hx Tx).
        * intros x m Hx Hm Tx Hs. destruct (Hf x Hx Tx) as [_ [A2 A3]].
          apply Hnext in Tx. pose proof (Hout m Hm) as Om. pose proof (Hnp m Hm).
          pose proof (wfl_hd_lt_te m (Hwl m Hm)).
          unfold sepd, outside in *. rewrite A2, A3. lia.
      + intros p b. split.
        * intros [z [Hz Hb]]. destruct (upd_first_in is_next f nl z Hz) as [A|[x [A [B C]]]].
          { right. assert (holds nl p b) by (exists z; split; auto). split; [eauto|]. apply Hh; auto. }
          { subst z. unfold f in Hb. cbn [lat] in Hb.
            destruct (nat_ iv p) eqn:E1; [left; auto|].
            right. split; auto. assert (holds nl p b) by (exists x; split; auto). apply Hh; auto. }
        * intros [Hp|[Hp Hc]].
          { destruct (upd_first_hit is_next f nl nx Hnx Tnx) as [y [A [B C]]].
            exists (f y). split; auto. unfold f. cbn [lat]. rewrite Hp. auto. }
          { destruct (Hback p b Hp Hc) as [z [Hz Hb]].
            destruct (upd_first_keep is_next f nl z Hz) as [A|[A B]].
            + exists z. auto.
            + exists (f z). split; auto. unfold f. cbn [lat]. rewrite Hp. auto. }
    - (* no neighbour: a new list *)
      pose proof (find_none _ _ Fp) as Np. pose proof (find_none _ _ Fn) as Nn.
      assert (Hnp : forall m, In m nl -> te m <> off).
      { intros m Hm A. apply Hprev in A. rewrite (Np m Hm) in A. discriminate. }
      assert (Hnn : forall m, In m nl -> hd m <> e).
      { intros m Hm A. apply Hnext in A. rewrite (Nn m Hm) in A. discriminate. }
      split.
      + split.
        * apply Forall_app. split; [apply Forall_forall; auto|].
          constructor; auto. split; [discriminate|simpl; auto].
        * apply pairwise_app. split; auto. split; [simpl; auto|].
          intros x y Hx [Hy|[]]. subst y.
          pose proof (Hout x Hx) as Ox. pose proof (Hnp x Hx). pose proof (Hnn x Hx).
          unfold sepd, outside in *. simpl. fold off. fold e. lia.
      + intros p b. rewrite holds_app. split.
        * intros [A|[z [[Hz|[]] Hb]]].
          { right. split; [eauto|]. apply Hh; auto. }
          { subst z. rewrite lat_single in Hb. auto. }
        * intros [Hp|[Hp Hc]].
          { right. exists [iv]. split; [left; auto|]. rewrite lat_single. auto. }
          { left. auto. }
  Qed.

  Theorem add_interval_post : forall c iv, wf c -> valid iv ->
    add_post c (add_interval P psub merge_tail c iv) iv.
  Proof.
    intros c iv Hwf Hv.
    assert (G : add_post c (add_general P psub merge_tail c iv) iv) by (apply add_general_spec; auto).
    unfold add_interval. destruct c as [|l c]; auto. destruct c as [|m c]; auto.
    destruct (te l =? n_off iv) eqn:E; auto. apply Z.eqb_eq in E.
    (* fast path: append to the only list *)
    destruct Hwf as [Hw _]. inversion Hw as [|? ? Hwl _]; subst.
    destruct (att_spec l iv Hwl Hv) as [A1 [A2 [A3 A4]]]; [lia|].
    split.
    - split; [constructor; auto|simpl; auto].
    - intros p b. split.
      + intros [z [[Hz|[]] Hb]]. subst z. rewrite A4 in Hb.
        destruct (lat l p) eqn:E1.
        * inversion Hb; subst. right. split; [|exists l; split; [left; auto|auto]].
          apply nat_none_outside. destruct Hwl as [N1 N2]. apply lat_some_range in E1; auto. lia.
        * left. auto.
      + intros [Hp|[Hp [z [[Hz|[]] Hb]]]].
        * exists (att l iv). split; [left; auto|]. rewrite A4.
          rewrite (lat_none_outside l p Hwl); auto. apply nat_some_range in Hp. lia.
        * subst z. exists (att l iv). split; [left; auto|]. rewrite A4, Hb. auto.
  Qed.

  Theorem add_interval_spec : forall c iv, wf c -> valid iv ->
    wf (add_interval P psub merge_tail c iv) /\
    forall p, cat (add_interval P psub merge_tail c iv) p =
              match nat_ iv p with Some b => Some b | None => cat c p end.
  Proof.
    intros c iv Hwf Hv. destruct (add_interval_post c iv Hwf Hv) as [Hw Hh]. split; auto.
    intros p. apply option_ext. intros b. rewrite (cat_holds _ p b Hw), Hh.
    destruct (nat_ iv p) eqn:E.
    - split; [intros [A|[A _]]; congruence|intros A; left; auto].
    - rewrite (cat_holds c p b Hwf). split; [intros [A|[_ A]]; [discriminate|auto]|intros A; right; auto].
  Qed.

  (* ================= RemoveLargestIntervalLinkedList ================= *)
  Notation remove_nth := (remove_nth P).
  Notation l_size := (l_size P).

  Lemma remove_nth_in : forall k c z, In z (remove_nth k c) -> In z c.
  Proof.
    induction k as [|k IH]; intros c z H; destruct c as [|x c]; simpl in *; auto.
    destruct H as [H|H]; auto.
  Qed.

  Lemma remove_nth_split : forall k c l z, nth_error c k = Some l -> In z c -> z = l \/ In z (remove_nth k c).
  Proof.
    induction k as [|k IH]; intros c l z Hn Hz; destruct c as [|x c]; simpl in *; try discriminate.
    - inversion Hn; subst. destruct Hz; auto.
    - destruct Hz as [Hz|Hz]; [right; left; auto|]. destruct (IH c l z Hn Hz); auto.
  Qed.

  Lemma remove_nth_wf : forall k c l, wf c -> nth_error c k = Some l ->
    wf (remove_nth k c) /\ wfl l /\ In l c /\ forall m, In m (remove_nth k c) -> sepd l m.
  Proof.
    induction k as [|k IH]; intros c l [Hw Hp] Hn; destruct c as [|x c]; simpl in *; try discriminate.
    - inversion Hn; subst. inversion Hw; subst. destruct Hp as [Hs Hp].
      split; [split; auto|]. split; auto. split; auto. rewrite Forall_forall in Hs. auto.
    - inversion Hw as [|? ? Hwx Hwc]; subst. destruct Hp as [Hs Hp].
      destruct (IH c l (conj Hwc Hp) Hn) as [[A1 A2] [B [C D]]].
      rewrite Forall_forall in Hs.
      split; [split|].
      + constructor; auto.
      + simpl. split; auto. apply Forall_forall. intros m Hm. apply Hs. eapply remove_nth_in; eauto.
      + split; auto. split; auto. intros m [Hm|Hm]; [subst; apply sepd_sym; auto|auto].
  Qed.

  Lemma cat_remove_nth : forall k c l p, wf c -> nth_error c k = Some l ->
    cat c p = match lat l p with Some b => Some b | None => cat (remove_nth k c) p end.
  Proof.
    intros k c l p Hwf Hn. destruct (remove_nth_wf k c l Hwf Hn) as [Hw' [Hl [Hin Hsep]]].
    apply option_ext. intros b. rewrite (cat_holds c p b Hwf). split.
    - intros [z [Hz Hb]]. destruct (remove_nth_split k c l z Hn Hz) as [A|A].
      + subst z. rewrite Hb. auto.
      + destruct (lat l p) eqn:E.
        * exfalso. destruct Hw' as [W1 W2]. rewrite Forall_forall in W1.
          eapply (sepd_disjoint l z); eauto.
        * apply (cat_holds _ p b Hw'). exists z. auto.
    - destruct (lat l p) eqn:E.
      + intros A. inversion A; subst. exists l. auto.
      + intros A. apply (cat_holds _ p b Hw') in A. destruct A as [z [Hz Hb]].
        exists z. split; auto. eapply remove_nth_in; eauto.
  Qed.

  Lemma largest_from_index : forall c k ms mi rms rmi, largest_from P c k ms mi = (rms, rmi) ->
    (rmi = mi /\ rms = ms) \/ (exists j l, rmi = Some (k + j)%nat /\ nth_error c j = Some l /\ rms = l_size l).
  Proof.
    induction c as [|x c IH]; intros k ms mi rms rmi H; simpl in H.
    - inversion H; subst. left. auto.
    - destruct (ms <=? l_size x).
      + destruct (IH _ _ _ _ _ H) as [[A B]|[j [l [A [B C]]]]].
        * right. exists 0%nat, x. subst. rewrite Nat.add_0_r. auto.
        * right. exists (S j), l. subst. split; [f_equal; lia|]. auto.
      + destruct (IH _ _ _ _ _ H) as [[A B]|[j [l [A [B C]]]]].
        * left. auto.
        * right. exists (S j), l. subst. split; [f_equal; lia|]. auto.
  Qed.

  Lemma largest_from_ge : forall c k ms mi rms rmi, largest_from P c k ms mi = (rms, rmi) ->
    ms <= rms /\ forall l, In l c -> l_size l <= rms.
  Proof.
    induction c as [|x c IH]; intros k ms mi rms rmi H; simpl in H.
    - inversion H; subst. split; [lia|intros l []].
    - destruct (ms <=? l_size x) eqn:E.
      + apply Z.leb_le in E. destruct (IH _ _ _ _ _ H) as [A B]. split; [lia|].
        intros l [Hl|Hl]; [subst; lia|auto].
      + apply Z.leb_gt in E. destruct (IH _ _ _ _ _ H) as [A B]. split; [lia|].
        intros l [Hl|Hl]; [subst; lia|auto].
  Qed.

  Lemma remove_largest_spec : forall c, wf c ->
    match remove_largest P c with
    | None => c = []
    | Some (l, rest) => exists k, nth_error c k = Some l /\ rest = remove_nth k c
    end.
  Proof.
    intros c Hwf. unfold remove_largest.
    destruct (largest_from P c 0 0 None) as [rms rmi] eqn:E.
    destruct (largest_from_ge _ _ _ _ _ _ E) as [G1 G2].
    destruct (largest_from_index _ _ _ _ _ _ E) as [[A B]|[j [l [A [B C]]]]].
    - subst. destruct c as [|x c]; auto. exfalso.
      destruct Hwf as [Hw _]. inversion Hw as [|? ? Hx _]; subst.
      pose proof (wfl_hd_lt_te x Hx). specialize (G2 x (or_introl eq_refl)). unfold DirtyPages.l_size in G2. lia.
    - subst. simpl.
      assert (Hl : In l c) by (eapply nth_error_In; eauto).
      destruct Hwf as [Hw Hp]. rewrite Forall_forall in Hw.
      pose proof (wfl_hd_lt_te l (Hw l Hl)).
      destruct (l_size l <=? 0) eqn:E1; [apply Z.leb_le in E1; unfold DirtyPages.l_size in E1; lia|].
      rewrite B. exists j. auto.
  Qed.

  (* ================= ReadDataAt ================= *)
  Notation list_read := (list_read P fetch).

  Lemma node_read : forall t buf so start stop i, valid t -> so <= start -> stop <= so + zlen buf ->
    let ns := Z.max start (n_off t) in
    let ne := Z.min stop (n_off t + n_size t) in
    let buf' := if ns <? ne then blit buf (Z.to_nat (ns - so)) (fetch (n_pay t) (ns - n_off t) (ne - n_off t)) else buf in
    zlen buf' = zlen buf /\
    zget buf' i = match (if (start <=? so + i) && (so + i <? stop) then nat_ t (so + i) else None) with
                  | Some b => Some b | None => zget buf i end.
  Proof.
    intros t buf so start stop i Hv Hso Hstop ns ne buf'.
    destruct (H_len t Hv) as [Hsz Hlen].
    subst buf'. destruct (ns <? ne) eqn:E.
    - apply Z.ltb_lt in E. split; [apply zlen_blit|].
      rewrite H_fetch by (auto; lia).
      rewrite zget_blit by lia. rewrite zlen_slice by lia.
      rewrite zget_slice by lia. unfold nat_.
      replace (ns - n_off t + (i - (ns - so))) with (so + i - n_off t) by lia.
      subst ns ne. brefl; try reflexivity.
      all: try (destruct (zget (nbytes t) (so + i - n_off t)) eqn:Ez; [reflexivity|]; apply zget_none in Ez; lia).
    - apply Z.ltb_ge in E. split; auto. unfold nat_. subst ns ne. brefl; reflexivity.
  Qed.

  Lemma list_read_spec : forall l buf so start stop, chain l -> so <= start -> stop <= so + zlen buf ->
    zlen (list_read l buf so start stop) = zlen buf /\
    forall i, zget (list_read l buf so start stop) i =
              match (if (start <=? so + i) && (so + i <? stop) then lat l (so + i) else None) with
              | Some b => Some b | None => zget buf i end.
  Proof.
    induction l as [|t l IH]; intros buf so start stop Hc Hso Hstop.
    - simpl. split; auto. intros i. destruct ((start <=? so + i) && (so + i <? stop)); auto.
    - destruct Hc as [Hv [Hu Hc]].
      unfold DirtyPages.list_read. cbn [fold_left].
      set (buf' := if Z.max start (n_off t) <? Z.min stop (n_off t + n_size t)
                   then blit buf (Z.to_nat (Z.max start (n_off t) - so))
                          (fetch (n_pay t) (Z.max start (n_off t) - n_off t) (Z.min stop (n_off t + n_size t) - n_off t))
                   else buf).
      assert (Hn : forall i, zlen buf' = zlen buf /\
                 zget buf' i = match (if (start <=? so + i) && (so + i <? stop) then nat_ t (so + i) else None) with
                               | Some b => Some b | None => zget buf i end).
      { intros i. apply (node_read t buf so start stop i Hv Hso Hstop). }
      destruct (Hn 0) as [Hlen _].
      destruct (IH buf' so start stop Hc Hso) as [IH1 IH2]; [lia|].
      fold (list_read l buf' so start stop).
      split; [lia|]. intros i. rewrite IH2. destruct (Hn i) as [_ Hi]. rewrite Hi. cbn [lat].
      destruct ((start <=? so + i) && (so + i <? stop)); auto.
      destruct (nat_ t (so + i)) eqn:E1; destruct (lat l (so + i)) eqn:E2; auto.
      (* both cannot hold: the rest of the chain starts where t ends *)
      exfalso. apply nat_some_range in E1. destruct l as [|u l]; [discriminate|].
      apply lat_some_range in E2; [|discriminate|auto]. simpl in E2. lia.
  Qed.

  Notation read_data_at := (read_data_at P fetch).

  Definition read_step (buf : list N) (so : Z) (acc : list N * Z) (l : ilist) : list N * Z :=
    let start := Z.max so (hd l) in
    let stop := Z.min (so + zlen buf) (hd l + l_size l) in
    if start <? stop then (list_read l (fst acc) so start stop, Z.max (snd acc) stop) else acc.

  Lemma read_fold_spec : forall c buf so acc, wf c -> zlen (fst acc) = zlen buf ->
    let r := fold_left (read_step buf so) c acc in
    zlen (fst r) = zlen buf /\
    (forall i, zget (fst r) i =
               match (if (0 <=? i) && (i <? zlen buf) then cat c (so + i) else None) with
               | Some b => Some b | None => zget (fst acc) i end) /\
    snd acc <= snd r /\
    (forall l, In l c -> Z.max so (hd l) < Z.min (so + zlen buf) (te l) -> Z.min (so + zlen buf) (te l) <= snd r) /\
    (snd r = snd acc \/ exists l, In l c /\ Z.max so (hd l) < Z.min (so + zlen buf) (te l) /\
                                   snd r = Z.min (so + zlen buf) (te l)).
  Proof.
    induction c as [|l c IH]; intros buf so acc Hwf Hlen.
    - simpl. split; auto. split.
      + intros i. destruct ((0 <=? i) && (i <? zlen buf)); auto.
      + split; [lia|]. split; [intros l []|auto].
    - destruct Hwf as [Hw Hp]. inversion Hw as [|? ? Hwl Hwc]; subst. destruct Hp as [Hs Hp].
      assert (Hwf' : wf c) by (split; auto).
      cbn [fold_left].
      assert (Hte : hd l + l_size l = te l) by (unfold DirtyPages.l_size; lia).
      set (acc' := read_step buf so acc l).
      assert (Hacc' : zlen (fst acc') = zlen buf /\
                (forall i, zget (fst acc') i =
                   match (if (0 <=? i) && (i <? zlen buf) then lat l (so + i) else None) with
                   | Some b => Some b | None => zget (fst acc) i end) /\
                snd acc <= snd acc' /\
                (Z.max so (hd l) < Z.min (so + zlen buf) (te l) -> snd acc' = Z.max (snd acc) (Z.min (so + zlen buf) (te l))) /\
                (~ Z.max so (hd l) < Z.min (so + zlen buf) (te l) -> snd acc' = snd acc)).
      { unfold acc', read_step. rewrite Hte.
        destruct (Z.max so (hd l) <? Z.min (so + zlen buf) (te l)) eqn:E.
        - apply Z.ltb_lt in E. destruct Hwl as [N1 N2].
          destruct (list_read_spec l (fst acc) so (Z.max so (hd l)) (Z.min (so + zlen buf) (te l)) N2) as [L1 L2]; try lia.
          cbn [fst snd]. split; [lia|]. split; [|split; [lia|split; [auto|intros; lia]]].
          intros i. rewrite L2.
          destruct (lat l (so + i)) eqn:E1.
          + apply lat_some_range in E1; auto. brefl; reflexivity.
          + brefl; reflexivity.
        - apply Z.ltb_ge in E. split; auto. split; [|split; [lia|split; [intros; lia|auto]]].
          intros i. destruct (lat l (so + i)) eqn:E1.
          + destruct Hwl as [N1 N2]. apply lat_some_range in E1; auto.
            brefl; try reflexivity.
          + brefl; reflexivity. }
      destruct Hacc' as [A1 [A2 [A3 [A4 A5]]]].
      destruct (IH buf so acc' Hwf' A1) as [B1 [B2 [B3 [B4 B5]]]].
      split; auto. split; [|split; [lia|split]].
      + intros i. rewrite B2, A2. cbn [cat].
        destruct ((0 <=? i) && (i <? zlen buf)); auto.
        destruct (lat l (so + i)) eqn:E1; destruct (cat c (so + i)) eqn:E2; auto.
        exfalso. apply (cat_holds c _ _ Hwf') in E2. destruct E2 as [m [Hm E2]].
        rewrite Forall_forall in Hs, Hwc. eapply (sepd_disjoint l m); eauto.
      + intros m [Hm|Hm] Hi; [subst m; rewrite A4 in B3 by auto; lia|auto].
      + destruct B5 as [B5|[m [M1 [M2 M3]]]].
        * destruct (Z_lt_dec (Z.max so (hd l)) (Z.min (so + zlen buf) (te l))) as [D|D].
          { rewrite A4 in B5 by auto.
            destruct (Z_le_dec (Z.min (so + zlen buf) (te l)) (snd acc)).
            - left. lia.
            - right. exists l. split; [left; auto|]. split; auto. lia. }
          { left. rewrite A5 in B5; auto. }
        * right. exists m. split; [right; auto|auto].
  Qed.

  Theorem read_data_at_spec : forall c buf so, wf c ->
    let r := read_data_at c buf so in
    zlen (fst r) = zlen buf /\
    (forall i, zget (fst r) i =
               match (if (0 <=? i) && (i <? zlen buf) then cat c (so + i) else None) with
               | Some b => Some b | None => zget buf i end) /\
    0 <= snd r /\
    (forall l, In l c -> Z.max so (hd l) < Z.min (so + zlen buf) (te l) -> Z.min (so + zlen buf) (te l) <= snd r) /\
    (snd r = 0 \/ exists l, In l c /\ Z.max so (hd l) < Z.min (so + zlen buf) (te l) /\
                             snd r = Z.min (so + zlen buf) (te l)).
  Proof.
    intros c buf so Hwf. apply (read_fold_spec c buf so (buf, 0) Hwf). reflexivity.
  Qed.

  (* ================= the bytes of a list (ToReader) ================= *)
  Definition lbytes (l : ilist) : list N := flat_map nbytes l.

  Lemma lbytes_spec : forall l, wfl l ->
    zlen (lbytes l) = te l - hd l /\
    forall p, lat l p = if (hd l <=? p) && (p <? te l) then zget (lbytes l) (p - hd l) else None.
  Proof.
    induction l as [|t l IH]; intros [Hne Hc]; [congruence|].
    destruct l as [|u l].
    - simpl in Hc. destruct Hc as [Hv _]. destruct (H_len t Hv) as [V1 V2].
      unfold lbytes. cbn [flat_map head_off tail_end]. rewrite app_nil_r. split; [lia|].
      intros p. cbn [lat]. unfold nat_.
      destruct ((n_off t <=? p) && (p <? n_off t + n_size t)); auto. destruct (zget (nbytes t) (p - n_off t)); auto.
    - destruct Hc as [Hv [Hu Hc]]. destruct (H_len t Hv) as [V1 V2].
      destruct IH as [IH1 IH2]; [split; [discriminate|auto]|].
      change (lbytes (t :: u :: l)) with (nbytes t ++ lbytes (u :: l)).
      rewrite te_cons. cbn [head_off] in *. rewrite zlen_app. split; [lia|].
      intros p.
      change (lat (t :: u :: l) p) with (match nat_ t p with Some b => Some b | None => lat (u :: l) p end).
      rewrite IH2. unfold nat_.
      assert (Hlt : n_off u < te (u :: l)).
      { apply (wfl_hd_lt_te (u :: l)). split; [discriminate|auto]. }
      destruct (Z_le_dec (n_off t) p).
      + rewrite zget_app by lia. rewrite V2. rewrite Hu.
        replace (p - (n_off t + n_size t)) with (p - n_off t - n_size t) by lia.
        brefl; try reflexivity.
        destruct (zget (nbytes t) (p - n_off t)) eqn:Ez; [reflexivity|]. apply zget_none in Ez. lia.
      + brefl; reflexivity.
  Qed.

  Notation list_bytes := (list_bytes P fetch).

  Lemma list_bytes_eq : forall l a b, Forall valid l -> list_bytes l a b = lbytes (sub_list l a b).
  Proof.
    induction l as [|t l IH]; intros a b Hv; auto.
    inversion Hv as [|? ? Hv1 Hv2]; subst.
    change (list_bytes (t :: l) a b) with
      ((if Z.max a (n_off t) <? Z.min b (n_off t + n_size t)
        then fetch (n_pay t) (Z.max a (n_off t) - n_off t) (Z.min b (n_off t + n_size t) - n_off t) else [])
       ++ list_bytes l a b).
    change (sub_list (t :: l) a b) with (clip a b t ++ sub_list l a b).
    unfold lbytes. rewrite flat_map_app. fold (lbytes (sub_list l a b)). rewrite <- IH by auto. f_equal.
    unfold DirtyPages.clip. destruct (H_len t Hv1) as [Hs _].
    destruct (Z.max a (n_off t) <? Z.min b (n_off t + n_size t)) eqn:E; auto.
    apply Z.ltb_lt in E. cbn [flat_map]. rewrite app_nil_r.
    set (ns := Z.max a (n_off t)) in *. set (ne := Z.min b (n_off t + n_size t)) in *.
    destruct (H_sub t (ns - n_off t) (ne - n_off t) Hv1) as [_ Hb']; try lia.
    replace (n_off t + (ns - n_off t)) with ns in Hb' by lia.
    replace (ne - n_off t - (ns - n_off t)) with (ne - ns) in Hb' by lia.
    rewrite Hb'. apply H_fetch; auto; lia.
  Qed.

  Lemma list_bytes_spec : forall l a b, wfl l -> hd l <= a -> a < b -> b <= te l ->
    zlen (list_bytes l a b) = b - a /\
    forall i, 0 <= i < b - a -> zget (list_bytes l a b) i = lat l (a + i).
  Proof.
    intros l a b Hw Ha Hab Hb. pose proof Hw as [Hne Hc].
    rewrite list_bytes_eq by (apply chain_valid; auto).
    destruct (sub_list_spec l a b Hw Hab) as [S1 [S2 S3]]; try lia.
    destruct (lbytes_spec (sub_list l a b) S1) as [L1 L2].
    rewrite S2, S3 in *. replace (Z.max a (hd l)) with a in * by lia. replace (Z.min b (te l)) with b in * by lia.
    split; auto. intros i Hi.
    specialize (L2 (a + i)). rewrite lat_sub_list in L2 by (apply chain_valid; auto).
    replace (a + i - a) with i in L2 by lia.
    destruct (a <=? a + i) eqn:E1; [|apply Z.leb_gt in E1; lia].
    destruct (a + i <? b) eqn:E2; [|apply Z.ltb_ge in E2; lia]. simpl in L2. auto.
  Qed.
End Generic.
