(* C05 proofs, part 11: the counters newNeedleMapMetricFromIndexFile recomputes, exactly.
   - [index_metric_exact]: for EVERY index file (exact set of seen keys): FileCounter = number
     of distinct keys, DeletionCounter = entries - distinct keys, FileByteCounter = the valid
     sizes of all entries, DeletionByteCounter = the valid sizes of all entries that are not
     the last one of their key, MaximumFileKey = the largest key;
   - [reload_counters_exact]: for every disciplined history without an empty Put (keys may be
     written any number of times) that is [reload_metric] of the running counters: byte totals
     and maximum key are the running ones, FileCounter = keys ever put, DeletionCounter =
     puts + deletes - keys ever put;
   - hence the reloaded counters equal the running ones IF AND ONLY IF no key was put twice
     ([reload_counters_iff]): the trigger of known finding 1 is exact. *)
From Coq Require Import List NArith ZArith Bool Lia Sorted Arith.
From Coq Require Import ZifyBool ZifyN ZifyNat.
From SW Require Import model.NeedleMap proof.EcIndexProofs proof.NeedleMapSearch proof.NeedleMapSec
  proof.NeedleMapCm proof.NeedleMapRefine proof.NeedleMapProofs proof.NeedleMapKinds
  proof.NeedleMapCounters proof.NeedleMapCountersMain proof.NeedleMapRunning.
Import ListNotations.
Local Open Scope N_scope.
Ltac Zify.zify_post_hook ::= Z.div_mod_to_equations.

(* ---------- the closed form on an entry list ---------- *)
Fixpoint n_last (E : list entry) : N :=        (* entries that are the last one of their key = distinct keys *)
  match E with [] => 0 | e :: E1 => b2n (negb (hask (e_key e) E1)) + n_last E1 end.
Fixpoint n_dup (E : list entry) : N :=         (* entries followed by a later entry of the same key *)
  match E with [] => 0 | e :: E1 => b2n (hask (e_key e) E1) + n_dup E1 end.
Fixpoint delb_sum (E : list entry) : N :=
  match E with [] => 0 | e :: E1 => (if hask (e_key e) E1 then vsize e else 0) + delb_sum E1 end.
Fixpoint fileb_sum (E : list entry) : N :=
  match E with [] => 0 | e :: E1 => vsize e + fileb_sum E1 end.
Fixpoint max_key (E : list entry) : N :=
  match E with [] => 0 | e :: E1 => N.max (e_key e) (max_key E1) end.

Definition exact_metric (E : list entry) : metric :=
  {| m_del := n_dup E mod two32; m_file := n_last E mod two32; m_delb := delb_sum E mod two64;
     m_fileb := fileb_sum E mod two64; m_max := max_key E |}.

Lemma n_dup_last : forall E, n_dup E + n_last E = N.of_nat (length E).
Proof.
  induction E as [|e E IH]; [reflexivity|]. cbn [n_dup n_last length].
  destruct (hask (e_key e) E); cbn [negb b2n]; lia.
Qed.

Ltac mstep_arith :=
  repeat match goal with |- context [hask ?k ?E] => destruct (hask k E) end;
  repeat match goal with |- context [size_is_valid ?s] => destruct (size_is_valid s) end;
  unfold mstep, add_delb, incr_del, incr_file, add_fileb, maybe_max, add64, b2n, vsize;
  cbn [negb]; cbv beta iota;
  repeat match goal with
  | |- context [if (?a <? ?b) then _ else _] => destruct (N.ltb_spec a b); cbv beta iota
  | |- context [if ?c then _ else _] =>
      lazymatch c with true => fail | false => fail | _ => destruct c end; cbv beta iota
  end;
  cbn [m_file m_del m_delb m_fileb m_max negb] in *; cbv beta iota;
  repeat match goal with |- context [u64_of_size ?s] => generalize (u64_of_size s); intro end;
  unfold two32, two64 in *; lia.

Lemma Rg_exact : forall E, fst (Rg (metric0, []) E) = exact_metric E.
Proof.
  induction E as [|e E IH]; [reflexivity|].
  rewrite Rg_fst_cons. cbn [snd]. unfold mem. cbn [existsb]. rewrite orb_false_r. rewrite IH.
  unfold exact_metric. cbn [n_dup n_last delb_sum fileb_sum max_key].
  generalize (n_dup E) (n_last E) (delb_sum E) (fileb_sum E) (max_key E). intros a b c d mx.
  apply metric_ext; cbn [m_file m_del m_delb m_fileb m_max].
  - mstep_arith.
  - mstep_arith.
  - mstep_arith.
  - mstep_arith.
  - mstep_arith.
Qed.

(* every index file (a whole number of well-formed entries) *)
Theorem index_metric_exact : forall osz es, ok_osz osz -> Forall (wf_entry osz) es ->
  metric_from_index osz (encode osz es) = exact_metric es.
Proof.
  intros osz es Ho Hw. unfold metric_from_index. rewrite walk_encode by assumption.
  rewrite mfi_rev. apply Rg_exact.
Qed.

(* ---------- appending one entry ---------- *)
Lemma n_last_snoc : forall E e, n_last (E ++ [e]) = n_last E + b2n (negb (hask (e_key e) E)).
Proof.
  intros E e. induction E as [|a E IH].
  - cbn. lia.
  - cbn [app n_last]. rewrite IH, hask_app, hask_cons.
    destruct (N.eqb_spec (e_key e) (e_key a)) as [Hk|Hk].
    + rewrite Hk, N.eqb_refl, orb_true_r. cbn [orb negb b2n]. destruct (hask (e_key a) E); cbn [negb b2n]; lia.
    + destruct (N.eqb_spec (e_key a) (e_key e)); [congruence|]. rewrite orb_false_r. cbn [orb]. lia.
Qed.

Lemma delb_sum_snoc : forall E e, delb_sum (E ++ [e]) = delb_sum E + last_valid (e_key e) E.
Proof.
  intros E e. induction E as [|a E IH].
  - cbn. lia.
  - cbn [app delb_sum last_valid]. rewrite IH, hask_app.
    destruct (N.eqb_spec (e_key e) (e_key a)) as [Hk|Hk].
    + rewrite Hk, N.eqb_refl, orb_true_r. cbn [andb].
      destruct (hask (e_key a) E) eqn:Hh; cbn [negb]; [lia|].
      rewrite (last_valid_absent _ _ Hh). lia.
    + destruct (N.eqb_spec (e_key a) (e_key e)); [congruence|]. rewrite orb_false_r. cbn [andb]. lia.
Qed.

Lemma fileb_sum_snoc : forall E e, fileb_sum (E ++ [e]) = fileb_sum E + vsize e.
Proof. intros E e. induction E as [|a E IH]; cbn [app fileb_sum]; [lia|]. rewrite IH. lia. Qed.

Lemma max_key_snoc : forall E e, max_key (E ++ [e]) = N.max (max_key E) (e_key e).
Proof. intros E e. induction E as [|a E IH]; cbn [app max_key]; [lia|]. rewrite IH. lia. Qed.

Lemma hask_le_max : forall E k, hask k E = true -> k <= max_key E.
Proof.
  induction E as [|a E IH]; intros k H; [discriminate|]. rewrite hask_cons in H. cbn [max_key].
  apply orb_true_iff in H. destruct H as [H|H]; [apply N.eqb_eq in H; lia|]. apply IH in H. lia.
Qed.

(* ---------- the counts of a history ---------- *)
Lemma n_first_puts_from_app : forall ops seen o,
  n_first_puts_from seen (ops ++ [o]) =
  n_first_puts_from seen ops +
  match o with Put k _ _ => b2n (negb (mem k seen || ever_put k ops)) | _ => 0 end.
Proof.
  induction ops as [|a ops IH]; intros seen o.
  - cbn [app n_first_puts_from ever_put existsb]. destruct o as [k off sz|k off|k]; try reflexivity.
    rewrite orb_false_r. unfold mem. destruct (existsb (N.eqb k) seen); cbn [negb b2n]; lia.
  - cbn [app]. destruct a as [k' off' sz'|k' off'|k']; cbn [n_first_puts_from]; rewrite IH.
    + destruct o as [k off sz|k off|k]; try lia.
      cbn [ever_put existsb]. fold (ever_put k ops). rewrite mem_cons. rewrite (N.eqb_sym k k').
      destruct (k' =? k); destruct (mem k seen); destruct (ever_put k ops); cbn [orb negb b2n]; lia.
    + destruct o; reflexivity.
    + destruct o; reflexivity.
Qed.

Lemma n_puts_app : forall ops o,
  n_puts (ops ++ [o]) = n_puts ops + match o with Put _ _ _ => 1 | _ => 0 end.
Proof.
  intros. unfold n_puts. rewrite filter_app, app_length. destruct o; cbn [filter length]; lia.
Qed.
Lemma n_dels_app : forall ops o,
  n_dels (ops ++ [o]) = n_dels ops + match o with Del _ _ => 1 | _ => 0 end.
Proof.
  intros. unfold n_dels. rewrite filter_app, app_length. destruct o; cbn [filter length]; lia.
Qed.

Lemma n_first_le_puts : forall ops seen, n_first_puts_from seen ops <= n_puts ops.
Proof.
  induction ops as [|o ops IH]; intros seen; [cbn; lia|].
  destruct o as [k off sz|k off|k]; cbn [n_first_puts_from].
  - specialize (IH (k :: seen)). unfold n_puts in *. cbn [filter length].
    destruct (existsb (N.eqb k) seen); lia.
  - specialize (IH seen). unfold n_puts in *. cbn [filter]. assumption.
  - specialize (IH seen). unfold n_puts in *. cbn [filter]. assumption.
Qed.

(* no key put twice <-> every Put is a first Put *)
Lemma rewrite_iff_first : forall ops seen,
  trig_rewrite_from seen ops = false <-> n_first_puts_from seen ops = n_puts ops.
Proof.
  induction ops as [|o ops IH]; intros seen; [cbn; tauto|].
  destruct o as [k off sz|k off|k]; cbn [trig_rewrite_from n_first_puts_from].
  - pose proof (n_first_le_puts ops (k :: seen)) as Hle. specialize (IH (k :: seen)).
    unfold n_puts in *. cbn [filter length].
    destruct (existsb (N.eqb k) seen); cbn [orb].
    + split; [discriminate|lia].
    + rewrite IH. lia.
  - specialize (IH seen). unfold n_puts in *. cbn [filter]. assumption.
  - specialize (IH seen). unfold n_puts in *. cbn [filter]. assumption.
Qed.

Lemma entries_of_length : forall ops, N.of_nat (length (entries_of ops)) = n_puts ops + n_dels ops.
Proof.
  induction ops as [|o ops IH] using rev_ind; [reflexivity|].
  rewrite entries_of_app, app_length, n_puts_app, n_dels_app. destruct o; cbn [entry_of_op length]; lia.
Qed.

(* ---------- the invariant along a disciplined history (keys may be rewritten) ---------- *)
Definition lv_of (v : option (N * Z)) : N :=
  match v with Some (_, s) => if (0 <? s)%Z then u64_of_size s else 0 | None => 0 end.

Record xinv (ops : list op) : Prop := {
  xj_fileb : m_fileb (ref_metric ops) = fileb_sum (entries_of ops) mod two64;
  xj_delb : m_delb (ref_metric ops) = delb_sum (entries_of ops) mod two64;
  xj_max : m_max (ref_metric ops) = max_key (entries_of ops);
  xj_nlast : n_last (entries_of ops) = n_first_puts ops;
  xj_lv : forall k, last_valid k (entries_of ops) = lv_of (ref_get (snd (ref_run [] ops)) k);
  xj_has : forall k, hask k (entries_of ops) = ever_put k ops;
  xj_ref : forall k, ever_put k ops = false -> ref_get (snd (ref_run [] ops)) k = None }.

Lemma xinv_nil : xinv [].
Proof. constructor; try reflexivity; intros; reflexivity. Qed.

Lemma vsize_put : forall k off sz, (0 < sz)%Z -> vsize (mk_entry k off sz) = u64_of_size sz.
Proof.
  intros. unfold vsize, size_is_valid, tombstone. cbn [mk_entry e_size].
  destruct (Z.ltb_spec 0 sz); [|lia]. destruct (Z.eqb_spec sz (-1)); [lia|]. reflexivity.
Qed.
Lemma vsize_tomb : forall k off, vsize (mk_entry k off tombstone) = 0.
Proof. reflexivity. Qed.

Lemma xinv_step : forall ops o, xinv ops ->
  disc_cond (snd (ref_run [] ops)) o = true ->
  match o with Put _ _ sz => (sz =? 0)%Z = false | _ => True end ->
  xinv (ops ++ [o]).
Proof.
  intros ops o [Jfb Jdb Jmx Jnl Jlv Jhas Jref] Hdc Hne.
  set (E := entries_of ops) in *. set (r := snd (ref_run [] ops)) in *. set (M := ref_metric ops) in *.
  destruct (normed_ref_metric ops) as [_ [_ [NC ND]]]. fold M in NC, ND.
  destruct o as [k off sz|k off|k].
  - (* Put *)
    cbn [disc_cond] in Hdc. apply andb_true_iff in Hdc. destruct Hdc as [Hoff Hsz].
    assert (Hpos : (0 < sz)%Z) by lia.
    assert (HE : entries_of (ops ++ [Put k off sz]) = E ++ [mk_entry k off sz]) by apply entries_of_app.
    assert (Hr : snd (ref_run [] (ops ++ [Put k off sz])) = ref_put r k (off, sz)).
    { rewrite ref_run_app. apply ref_step_put_fst. }
    assert (HM : ref_metric (ops ++ [Put k off sz]) =
                 match ref_get r k with
                 | Some (_, os) => if (0 <? os)%Z then add_del (add_file (maybe_max M k) sz) os else add_file (maybe_max M k) sz
                 | None => add_file (maybe_max M k) sz
                 end).
    { rewrite ref_metric_app. unfold ref_metric_step. cbn [snd]. fold r. fold M. reflexivity. }
    pose proof (Jlv k) as Hlvk. fold r in Hlvk. unfold lv_of in Hlvk.
    destruct (add_file_comp M k sz) as [Q1 [Q2 [Q3 [Q4 Q5]]]].
    constructor; rewrite ?HE, ?Hr.
    + rewrite fileb_sum_snoc, (vsize_put k off sz Hpos), HM.
      assert (Hx : m_fileb (match ref_get r k with
                 | Some (_, os) => if (0 <? os)%Z then add_del (add_file (maybe_max M k) sz) os else add_file (maybe_max M k) sz
                 | None => add_file (maybe_max M k) sz end) = m_fileb (add_file (maybe_max M k) sz)).
      { destruct (ref_get r k) as [[ro os]|]; [destruct (0 <? os)%Z|]; reflexivity. }
      rewrite Hx, Q4, Jfb. generalize (u64_of_size sz). intro u. clear - ND. unfold two64 in *. lia.
    + rewrite delb_sum_snoc. cbn [mk_entry e_key]. rewrite Hlvk, HM.
      destruct (ref_get r k) as [[ro os]|]; [destruct (0 <? os)%Z|].
      * destruct (add_del_comp (add_file (maybe_max M k) sz) os) as [_ [_ [R3 _]]].
        rewrite R3, Q3, Jdb. generalize (u64_of_size os). intro u. clear. unfold two64. lia.
      * rewrite Q3, Jdb. f_equal. lia.
      * rewrite Q3, Jdb. f_equal. lia.
    + rewrite max_key_snoc. cbn [mk_entry e_key]. rewrite HM.
      assert (Hx : m_max (match ref_get r k with
                 | Some (_, os) => if (0 <? os)%Z then add_del (add_file (maybe_max M k) sz) os else add_file (maybe_max M k) sz
                 | None => add_file (maybe_max M k) sz end) = m_max (add_file (maybe_max M k) sz)).
      { destruct (ref_get r k) as [[ro os]|]; [destruct (0 <? os)%Z|]; reflexivity. }
      rewrite Hx, Q5, Jmx. reflexivity.
    + rewrite n_last_snoc. cbn [mk_entry e_key]. unfold n_first_puts. rewrite n_first_puts_from_app.
      fold (n_first_puts ops). rewrite Jnl, Jhas. unfold mem. cbn [existsb orb]. reflexivity.
    + intros k'. rewrite last_valid_snoc. cbn [mk_entry e_key]. rewrite ref_get_put, (N.eqb_sym k' k).
      destruct (N.eqb_spec k k') as [->|Hk].
      * rewrite (vsize_put k' off sz Hpos). unfold lv_of. destruct (Z.ltb_spec 0 sz); [reflexivity|lia].
      * apply Jlv.
    + intros k'. rewrite hask_app, ever_put_app. cbn [mk_entry e_key]. rewrite Jhas. reflexivity.
    + intros k' H. rewrite ever_put_app in H. apply orb_false_iff in H. destruct H as [H1 H2].
      rewrite ref_get_put. rewrite (N.eqb_sym k' k), H2. apply Jref. assumption.
  - (* Delete of a live key *)
    cbn [disc_cond] in Hdc. fold r in Hdc.
    destruct (ref_get r k) as [[ro rs]|] eqn:G; [|discriminate].
    assert (Hlive : (0 < rs)%Z) by lia.
    assert (Hep : ever_put k ops = true).
    { destruct (ever_put k ops) eqn:Hx; [reflexivity|]. rewrite (Jref k Hx) in G. discriminate. }
    assert (HE : entries_of (ops ++ [Del k off]) = E ++ [mk_entry k off tombstone]) by apply entries_of_app.
    assert (Hr : snd (ref_run [] (ops ++ [Del k off])) = ref_put r k (ro, (- rs)%Z)).
    { rewrite ref_run_app. fold r. rewrite (ref_step_del_live r k off ro rs G Hlive). reflexivity. }
    assert (HM : ref_metric (ops ++ [Del k off]) = add_del M rs).
    { rewrite ref_metric_app. unfold ref_metric_step. cbn [snd]. fold r. rewrite G.
      destruct (Z.ltb_spec 0 rs); [reflexivity|lia]. }
    pose proof (Jlv k) as Hlvk. fold r in Hlvk. rewrite G in Hlvk. unfold lv_of in Hlvk.
    destruct (Z.ltb_spec 0 rs) as [_|]; [|lia].
    destruct (add_del_comp M rs) as [Q1 [Q2 [Q3 [Q4 Q5]]]].
    constructor; rewrite ?HE, ?Hr, ?HM.
    + rewrite fileb_sum_snoc, vsize_tomb, Q4, Jfb. f_equal. lia.
    + rewrite delb_sum_snoc. cbn [mk_entry e_key]. rewrite Hlvk, Q3, Jdb.
      generalize (u64_of_size rs). intro u. clear. unfold two64. lia.
    + rewrite max_key_snoc. cbn [mk_entry e_key]. rewrite Q5, Jmx.
      pose proof (hask_le_max E k) as Hle. rewrite Jhas, Hep in Hle. specialize (Hle eq_refl). lia.
    + rewrite n_last_snoc. cbn [mk_entry e_key]. rewrite Jhas, Hep. cbn [negb b2n].
      unfold n_first_puts. rewrite n_first_puts_from_app. fold (n_first_puts ops). lia.
    + intros k'. rewrite last_valid_snoc. cbn [mk_entry e_key]. rewrite ref_get_put, (N.eqb_sym k' k).
      destruct (N.eqb_spec k k') as [->|Hk].
      * rewrite vsize_tomb. unfold lv_of. destruct (Z.ltb_spec 0 (- rs)); [lia|reflexivity].
      * apply Jlv.
    + intros k'. rewrite hask_app, ever_put_app, orb_false_r. cbn [mk_entry e_key]. rewrite Jhas.
      destruct (N.eqb_spec k k') as [<-|]; [rewrite Hep; reflexivity|apply orb_false_r].
    + intros k' H. rewrite ever_put_app, orb_false_r in H. rewrite ref_get_put.
      destruct (N.eqb_spec k' k) as [->|]; [congruence|]. apply Jref. assumption.
  - (* Get *)
    assert (HM : ref_metric (ops ++ [Get k]) = M) by (rewrite ref_metric_app; reflexivity).
    assert (HE : entries_of (ops ++ [Get k]) = E) by (rewrite entries_of_app; apply app_nil_r).
    assert (Hr : snd (ref_run [] (ops ++ [Get k])) = r) by (rewrite ref_run_app; reflexivity).
    constructor; rewrite ?HM, ?HE, ?Hr; auto.
    + unfold n_first_puts. rewrite n_first_puts_from_app. fold (n_first_puts ops). lia.
    + intros k'. rewrite ever_put_app, orb_false_r. apply Jhas.
    + intros k' H. rewrite ever_put_app, orb_false_r in H. apply Jref. assumption.
Qed.

Lemma xinv_all : forall ops, disciplined ops = true -> trig_empty_put ops = false -> xinv ops.
Proof.
  induction ops as [|o ops IH] using rev_ind; intros Hd He; [apply xinv_nil|].
  unfold disciplined in Hd. rewrite disciplined_from_app in Hd. apply andb_true_iff in Hd. destruct Hd as [Hd1 Hd2].
  unfold trig_empty_put in He. rewrite existsb_app in He. apply orb_false_iff in He. destruct He as [He1 He2].
  apply xinv_step; auto.
  destruct o; auto; simpl in He2; rewrite orb_false_r in He2; assumption.
Qed.

(* ---------- the reloaded counters of a history, exactly ---------- *)
Theorem history_index_counters : forall osz ops, ok_osz osz ->
  forallb (op_in_range osz) ops = true -> disciplined ops = true -> trig_empty_put ops = false ->
  metric_from_index osz (encode osz (entries_of ops)) = reload_metric ops (ref_metric ops).
Proof.
  intros osz ops Hosz Hr Hd He.
  rewrite index_metric_exact by (try assumption; apply entries_wf; assumption).
  destruct (xinv_all ops Hd He) as [Jfb Jdb Jmx Jnl _ _ _].
  unfold exact_metric, reload_metric. apply metric_ext; cbn [m_file m_del m_delb m_fileb m_max].
  - pose proof (n_dup_last (entries_of ops)) as H. rewrite entries_of_length, Jnl in H.
    f_equal. lia.
  - rewrite Jnl. reflexivity.
  - symmetry. assumption.
  - symmetry. assumption.
  - symmetry. assumption.
Qed.

Theorem reload_counters_exact : forall osz ops, ok_osz osz ->
  forallb (op_in_range osz) ops = true -> disciplined ops = true -> trig_empty_put ops = false ->
  let s := snd (ldb_run osz ldb0 ops) in
  l_met (ldb_load osz (l_idx s)) = reload_metric ops (l_met s) /\
  l_met (ldb_reopen_fresh osz s) = reload_metric ops (l_met s).
Proof.
  intros osz ops Hosz Hr Hd He s. unfold s. rewrite ldb_counters_running.
  pose proof (ldb_run_idx osz ops ldb0 [] ldb_rel0 Hd) as Hidx. cbn [ldb0 l_idx app] in Hidx. fold ldb0 in Hidx.
  unfold ldb_load, ldb_reopen_fresh. cbn [l_met]. rewrite Hidx.
  split; apply history_index_counters; assumption.
Qed.

Theorem sorted_file_counters_exact : forall osz batch ops, ok_osz osz ->
  forallb (op_in_range osz) ops = true -> disciplined ops = true -> trig_empty_put ops = false ->
  let s := snd (nm_run osz batch nm0 ops) in
  metric_from_index osz (nm_idx s) = reload_metric ops (nm_met s).
Proof.
  intros osz batch ops Hosz Hr Hd He s. unfold s.
  rewrite nm_counters_running by (apply (keys_ok_of_range osz); assumption).
  pose proof (nm_run_idx osz batch ops nm0) as Hidx. cbn [nm0 nm_idx app] in Hidx. fold nm0 in Hidx.
  rewrite Hidx. apply history_index_counters; assumption.
Qed.

(* ---------- the running counters count every Put ---------- *)
Lemma ref_metric_file : forall ops, m_file (ref_metric ops) = n_puts ops mod two32.
Proof.
  induction ops as [|o ops IH] using rev_ind; [reflexivity|].
  rewrite ref_metric_app, n_puts_app. unfold ref_metric_step. cbn [snd].
  set (r := snd (ref_run [] ops)). set (M := ref_metric ops) in *.
  destruct o as [k off sz|k off|k].
  - destruct (add_file_comp M k sz) as [Q1 _].
    assert (Hx : m_file (match ref_get r k with
               | Some (_, os) => if (0 <? os)%Z then add_del (add_file (maybe_max M k) sz) os else add_file (maybe_max M k) sz
               | None => add_file (maybe_max M k) sz end) = m_file (add_file (maybe_max M k) sz)).
    { destruct (ref_get r k) as [[ro os]|]; [destruct (0 <? os)%Z|]; reflexivity. }
    rewrite Hx, Q1, IH. generalize (n_puts ops). intro n. unfold two32. lia.
  - assert (Hx : m_file (match ref_get r k with
               | Some (_, os) => if (0 <? os)%Z then add_del M os else M | None => M end) = m_file M).
    { destruct (ref_get r k) as [[ro os]|]; [destruct (0 <? os)%Z|]; reflexivity. }
    rewrite Hx, IH. f_equal. lia.
  - rewrite IH. f_equal. lia.
Qed.

(* the trigger of known finding 1 is exact: for histories shorter than 2^32 operations the
   reloaded counters equal the running ones iff no key was put twice *)
Theorem reload_counters_iff : forall osz ops, ok_osz osz ->
  forallb (op_in_range osz) ops = true -> disciplined ops = true -> trig_empty_put ops = false ->
  N.of_nat (length ops) < two32 ->
  let s := snd (ldb_run osz ldb0 ops) in
  (l_met (ldb_load osz (l_idx s)) = l_met s <-> trig_rewrite ops = false).
Proof.
  intros osz ops Hosz Hr Hd He Hlen s.
  split.
  - intros Heq. destruct (reload_counters_exact osz ops Hosz Hr Hd He) as [Hx _]. fold s in Hx.
    rewrite Hx in Heq. unfold s in Heq. rewrite ldb_counters_running in Heq.
    apply (f_equal m_file) in Heq. unfold reload_metric in Heq. cbn [m_file] in Heq.
    rewrite ref_metric_file in Heq.
    assert (Hp : n_puts ops <= N.of_nat (length ops)).
    { unfold n_puts. pose proof (filter_length_le (fun o => match o with Put _ _ _ => true | _ => false end) ops). lia. }
    pose proof (n_first_le_puts ops []) as Hle. fold (n_first_puts ops) in Hle.
    rewrite !N.mod_small in Heq by lia.
    unfold trig_rewrite. apply rewrite_iff_first. assumption.
  - intros Hw. apply ldb_reload_counters_partial; assumption.
Qed.
