(* C04 proofs, part 4: doLoading, the integrity check of the reload, makeupDiff. *)
From Coq Require Import List NArith ZArith Bool Lia Permutation.
From SW Require Import model.Volume model.Compaction proof.CompactionInv proof.CompactionRead proof.CompactionCopy.
Import ListNotations.
Local Open Scope N_scope.

(* ---------- doLoading ---------- *)
Definition entry_valid (e : ientry) : bool := negb (ie_off e =? 0) && size_valid (ie_size e).

Definition nz (m : nmap) : Prop := forall k v, nm_get m k = Some v -> nv_size v <> 0%Z.

Lemma load_nz : forall idx, nz (load_idx idx).
Proof.
  induction idx as [|x idx IH]; simpl; [intros k v H; discriminate|].
  fold (entry_valid x). destruct (entry_valid x) eqn:V.
  - intros k v. unfold nm_set. simpl. destruct (ie_key x =? k).
    + intro H. inversion H; subst. simpl. unfold entry_valid in V. apply andb_prop in V. destruct V as [_ V].
      apply size_valid_pos in V. lia.
    + apply IH.
  - intros k v. unfold nm_delete. destruct (nm_get (load_idx idx) (ie_key x)) as [w|] eqn:G; [|apply IH].
    destruct (size_valid (nv_size w)) eqn:W; [|apply IH]. simpl. destruct (ie_key x =? k).
    + intro H. inversion H; subst. simpl. apply size_valid_pos in W. lia.
    + apply IH.
Qed.

Lemma live_delete_same : forall m k, nz m -> live (nm_delete m k) k = None.
Proof.
  intros m k Hz. unfold nm_delete. destruct (nm_get m k) as [w|] eqn:G.
  - destruct (size_valid (nv_size w)) eqn:W.
    + unfold live. simpl. rewrite N.eqb_refl. simpl. destruct (nv_off w =? 0); [reflexivity|].
      apply size_valid_pos in W. assert (D : size_deleted (- nv_size w) = true) by (apply size_deleted_neg; lia).
      rewrite D. reflexivity.
    + unfold live. rewrite G. destruct (nv_off w =? 0); [reflexivity|].
      assert (D : size_deleted (nv_size w) = true).
      { apply size_deleted_neg. specialize (Hz k w G).
        destruct (Z_lt_le_dec (nv_size w) 0) as [Hn|Hn]; [exact Hn|].
        assert ((0 < nv_size w)%Z) by lia. apply size_valid_pos in H. congruence. }
      rewrite D. reflexivity.
  - unfold live. rewrite G. reflexivity.
Qed.

Lemma live_delete_other : forall m k k', k <> k' -> live (nm_delete m k) k' = live m k'.
Proof. intros m k k' H. unfold live. rewrite nm_get_delete_neq by exact H. reflexivity. Qed.

Lemma load_live : forall idx k,
  live (load_idx idx) k =
  match idx_get idx k with
  | Some e => if entry_valid e then Some (ie_off e, ie_size e) else None
  | None => None
  end.
Proof.
  induction idx as [|x idx IH]; simpl; intro k; [reflexivity|].
  fold (entry_valid x). destruct (ie_key x =? k) eqn:E.
  - apply N.eqb_eq in E. subst k. destruct (entry_valid x) eqn:V.
    + unfold live. rewrite nm_get_set_eq. simpl. unfold entry_valid in V. apply andb_prop in V. destruct V as [V1 V2].
      apply negb_true_iff in V1. rewrite V1.
      assert (D : size_deleted (ie_size x) = false).
      { destruct (size_deleted (ie_size x)) eqn:D; [|reflexivity]. apply size_deleted_neg in D. apply size_valid_pos in V2. lia. }
      rewrite D. reflexivity.
    + apply live_delete_same. apply load_nz.
  - apply N.eqb_neq in E. destruct (entry_valid x).
    + unfold live. rewrite nm_get_set_neq by exact E. apply IH.
    + rewrite live_delete_other by exact E. apply IH.
Qed.

(* ---------- the integrity check ---------- *)
Lemma commit_noop : forall F, check_noop (check_files F) = true ->
  commit F = {| recs := f_recs F; nm := load_idx (f_idx F); dat_end := f_end F;
                no_write_or_delete := false; no_write_can_delete := false |}.
Proof.
  intros F H. unfold commit, check_noop in *. destruct (check_files F) as [[d t] e]. simpl in *.
  apply andb_prop in H. destruct H as [H He]. apply andb_prop in H. destruct H as [Hd Ht].
  apply Nat.eqb_eq in Hd. subst d. destruct t; [discriminate|]. apply negb_true_iff in He. subst e. reflexivity.
Qed.

Definition soft (v : vres) : Prop := v = VEof \/ v = VMismatch.

Lemma check_loop_prefix : forall rs fend l i drop lm d t e,
  check_loop rs fend l i drop lm = (d, t, e) ->
  d = drop \/ ((i <= d)%nat /\ (d < i + length l)%nat /\
               forall x, In x (firstn (S (d - i)) l) -> soft (verify_entry rs fend x)).
Proof.
  induction l as [|x l IH]; intros i drop lm d t e H; simpl in H; [inversion H; auto|].
  destruct (verify_entry rs fend x) eqn:V; try (inversion H; auto; fail).
  - destruct (IH _ _ _ _ _ _ H) as [->|[A [B C]]].
    + right. split; [lia|]. split; [simpl; lia|]. replace (i - i)%nat with 0%nat by lia.
      intros y [<-|[]]. left. exact V.
    + right. split; [lia|]. split; [simpl; lia|]. replace (S (d - i)) with (S (S (d - S i))) by lia.
      intros y [<-|Hy]; [left; exact V | apply C; exact Hy].
  - destruct (IH _ _ _ _ _ _ H) as [->|[A [B C]]]; [left; reflexivity|].
    right. split; [lia|]. split; [simpl; lia|]. replace (S (d - i)) with (S (S (d - S i))) by lia.
    intros y [<-|Hy]; [right; exact V | apply C; exact Hy].
Qed.

(* the entries the check cuts off all looked like "beyond the end of the .dat" or "size mismatch" *)
Lemma check_files_dropped : forall F x, In x (firstn (fst (fst (check_files F))) (f_idx F)) ->
  soft (verify_entry (f_recs F) (f_end F) x).
Proof.
  intros F x Hin. unfold check_files in *.
  destruct (check_loop (f_recs F) (f_end F) (firstn 10 (f_idx F)) 1 0 false) as [[d t] e] eqn:C. simpl in Hin.
  destruct (check_loop_prefix _ _ _ _ _ _ _ _ _ C) as [->|[A [B Hall]]]; [simpl in Hin; contradiction|].
  apply Hall. replace (S (d - 1)) with d by lia.
  assert (Hl : (length (firstn 10 (f_idx F)) <= 10)%nat) by apply firstn_le_length.
  rewrite firstn_firstn. replace (Nat.min d 10) with d by lia. exact Hin.
Qed.

Lemma verify_negative : forall rs fend e, (ie_size e < 0)%Z -> ~ soft (verify_entry rs fend e).
Proof.
  intros rs fend e H [S|S]; unfold verify_entry in S; destruct (ie_off e =? 0); try discriminate;
    (assert (L : (ie_size e <? 0)%Z = true) by (apply Z.ltb_lt; exact H)); rewrite L in S;
    destruct rs as [|r rs]; try discriminate;
    destruct ((r_off r + 32 =? fend) && (r_size r =? 0) && (n_id (r_n r) =? ie_key e)); discriminate.
Qed.

(* a key whose newest .idx entry is a deletion (or that has no entry) is not alive after the reload,
   whatever the integrity check does *)
Lemma commit_dead : forall F k,
  (idx_get (f_idx F) k = None \/ exists e, idx_get (f_idx F) k = Some e /\ (ie_size e < 0)%Z) ->
  live (nm (commit F)) k = None.
Proof.
  intros F k H. unfold commit. simpl nm. set (d := fst (fst (check_files F))).
  rewrite load_live.
  assert (Hsplit : f_idx F = firstn d (f_idx F) ++ skipn d (f_idx F)) by (symmetry; apply firstn_skipn).
  destruct H as [Hn|[e [He Hneg]]].
  - rewrite Hsplit, idx_get_app in Hn. destruct (idx_get (firstn d (f_idx F)) k); [discriminate|]. rewrite Hn. reflexivity.
  - assert (Hfirst : idx_get (firstn d (f_idx F)) k = None).
    { destruct (idx_get (firstn d (f_idx F)) k) as [x|] eqn:G; [|reflexivity]. exfalso.
      assert (Hx : idx_get (f_idx F) k = Some x) by (rewrite Hsplit, idx_get_app, G; reflexivity).
      rewrite He in Hx. inversion Hx; subst x.
      apply (verify_negative (f_recs F) (f_end F) e Hneg). apply check_files_dropped. eapply idx_get_In. exact G. }
    rewrite Hsplit, idx_get_app, Hfirst in He. rewrite He.
    unfold entry_valid. assert (V : size_valid (ie_size e) = false).
    { destruct (size_valid (ie_size e)) eqn:V; [|reflexivity]. apply size_valid_pos in V. lia. }
    rewrite V, andb_false_r. reflexivity.
Qed.

(* ---------- the diff ---------- *)
Lemma diff_entries_app : forall (d i1 : idxlog), diff_entries (length i1) (d ++ i1) = d.
Proof.
  intros d i1. unfold diff_entries. rewrite app_length.
  replace (length d + length i1 - length i1)%nat with (length d) by lia.
  rewrite firstn_app, Nat.sub_diag, firstn_all. simpl. apply app_nil_r.
Qed.

Lemma dedup_spec : forall l seen,
  NoDup (dedup seen l) /\ forall k, In k (dedup seen l) <-> (In k l /\ ~ In k seen).
Proof.
  induction l as [|x l IH]; intro seen; simpl.
  - split; [constructor | intro k; tauto].
  - destruct (existsb (N.eqb x) seen) eqn:E.
    + destruct (IH seen) as [A B]. split; [exact A|]. intro k. rewrite B.
      apply existsb_exists in E. destruct E as [y [Hy Hxy]]. apply N.eqb_eq in Hxy. subst y.
      split; [tauto|]. intros [[->|Hk] Hs]; [contradiction | auto].
    + destruct (IH (x :: seen)) as [A B]. split.
      * constructor; [|exact A]. rewrite B. simpl. tauto.
      * intro k. simpl. rewrite B. simpl.
        assert (Hx : ~ In x seen).
        { intro Hin. assert (existsb (N.eqb x) seen = true) by (apply existsb_exists; exists x; split; [exact Hin | apply N.eqb_refl]). congruence. }
        split.
        -- intros [->|[Hk Hs]]; [auto | tauto].
        -- intros [[->|Hk] Hs]; [auto|]. destruct (N.eq_dec x k) as [->|Hne]; [auto | right; tauto].
Qed.

(* what "any iteration order of the Go map" gives us *)
Lemma ord_facts : forall ord d, Permutation ord (dedup [] (map ie_key d)) ->
  NoDup ord /\ forall k, In k ord <-> idx_get d k <> None.
Proof.
  intros ord d P. destruct (dedup_spec (map ie_key d) []) as [A B]. split.
  - eapply Permutation_NoDup; [apply Permutation_sym; exact P | exact A].
  - intro k. split.
    + intro Hin. apply (Permutation_in _ P) in Hin. apply B in Hin. destruct Hin as [Hin _].
      intro Hn. apply idx_get_none_iff in Hn. contradiction.
    + intro Hn. apply (Permutation_in _ (Permutation_sym P)). apply B. split; [|intros []].
      destruct (in_dec N.eq_dec k (map ie_key d)) as [Hin|Hnin]; [exact Hin|].
      exfalso. apply Hn. apply idx_get_none_iff. exact Hnin.
Qed.

(* ---------- makeupDiff ---------- *)
Definition mstep (old : vol) (d : idxlog) (F : files) (k : N) : files :=
  match idx_get d k with Some e => makeup_one old F e | None => F end.

Lemma makeup_unfold : forall ord F n1 s2,
  makeup ord F n1 s2 = fold_left (mstep (cv s2) (diff_entries n1 (cidx s2))) ord F.
Proof. reflexivity. Qed.

Definition is_upd (e : ientry) : bool := negb (ie_off e =? 0) && negb (ie_size e =? 0)%Z && size_valid (ie_size e).

Lemma makeup_one_idx : forall old F e, exists o,
  f_idx (makeup_one old F e) = {| ie_key := ie_key e; ie_off := o; ie_size := ie_size e |} :: f_idx F.
Proof.
  intros. unfold makeup_one. destruct (negb (ie_off e =? 0) && negb (ie_size e =? 0)%Z && size_valid (ie_size e)); eexists; reflexivity.
Qed.

(* the index part alone: no assumption on sizes or offsets *)
Lemma makeup_idx : forall old d ord F k, NoDup ord ->
  let F' := fold_left (mstep old d) ord F in
  match idx_get d k with
  | Some e => if in_dec N.eq_dec k ord
              then exists o, idx_get (f_idx F') k = Some {| ie_key := k; ie_off := o; ie_size := ie_size e |}
              else idx_get (f_idx F') k = idx_get (f_idx F) k
  | None => idx_get (f_idx F') k = idx_get (f_idx F) k
  end.
Proof.
  intros old d ord. induction ord as [|k0 ord IH]; intros F k Hnd; simpl.
  - destruct (idx_get d k); reflexivity.
  - inversion Hnd as [|? ? Hk0 Hnd']; subst. specialize (IH (mstep old d F k0) k Hnd'). simpl in IH.
    (* what the first step does to key k *)
    assert (Hstep : match idx_get d k with
                    | Some e => if N.eq_dec k0 k
                                then exists o, idx_get (f_idx (mstep old d F k0)) k = Some {| ie_key := k; ie_off := o; ie_size := ie_size e |}
                                else idx_get (f_idx (mstep old d F k0)) k = idx_get (f_idx F) k
                    | None => idx_get (f_idx (mstep old d F k0)) k = idx_get (f_idx F) k
                    end).
    { unfold mstep. destruct (idx_get d k) as [e|] eqn:G.
      - destruct (N.eq_dec k0 k) as [->|Hne].
        + rewrite G. destruct (makeup_one_idx old F e) as [o Ho]. exists o. rewrite Ho. simpl.
          rewrite (idx_get_key _ _ _ G), N.eqb_refl. reflexivity.
        + destruct (idx_get d k0) as [e0|] eqn:G0; [|reflexivity].
          destruct (makeup_one_idx old F e0) as [o Ho]. rewrite Ho. simpl.
          rewrite (idx_get_key _ _ _ G0). apply N.eqb_neq in Hne. rewrite Hne. reflexivity.
      - destruct (idx_get d k0) as [e0|] eqn:G0; [|reflexivity].
        destruct (makeup_one_idx old F e0) as [o Ho]. rewrite Ho. simpl.
        rewrite (idx_get_key _ _ _ G0).
        destruct (k0 =? k) eqn:E; [apply N.eqb_eq in E; subst; congruence | reflexivity]. }
    destruct (idx_get d k) as [e|] eqn:G; [|rewrite IH; exact Hstep].
    destruct (N.eq_dec k0 k) as [->|Hne].
    + destruct (in_dec N.eq_dec k ord) as [Hin|_]; [contradiction|]. rewrite IH. exact Hstep.
    + destruct (in_dec N.eq_dec k ord) as [Hin|Hnin]; [exact IH | rewrite IH; exact Hstep].
Qed.

(* --- with the records --- *)
Record finv (F0 F : files) : Prop := {
  fi_sorted : sorted_recs (f_recs F) (f_end F);
  fi_mod8 : f_end F mod 8 = 0;
  fi_ge : f_end F0 <= f_end F;
  fi_old : forall off r, find_rec (f_recs F0) off = Some r -> find_rec (f_recs F) off = Some r
}.

Lemma finv_refl : forall F, sorted_recs (f_recs F) (f_end F) -> f_end F mod 8 = 0 -> finv F F.
Proof. intros F A B. constructor; auto. lia. Qed.

Lemma finv_trans : forall A B C, finv A B -> finv B C -> finv A C.
Proof. intros A B C [a1 a2 a3 a4] [b1 b2 b3 b4]. constructor; auto. lia. Qed.

(* an entry that can be made up: when it is an update, the old .dat has the record *)
Definition ent_src (old : vol) (e : ientry) : Prop :=
  is_upd e = true -> exists r, find_rec (recs old) (ie_off e) = Some r /\ Z.of_N (r_size r) = ie_size e.

Lemma find_rec_keep : forall rs e new off r, sorted_recs rs e -> r_off new = e ->
  find_rec rs off = Some r -> find_rec (new :: rs) off = Some r.
Proof.
  intros rs e new off r Hs Hn Hf. simpl. destruct (r_off new =? off) eqn:E; [|exact Hf].
  apply N.eqb_eq in E. pose proof (find_rec_off _ _ _ Hf). pose proof (find_rec_In _ _ _ Hf) as Hin.
  destruct (sorted_recs_bound _ _ _ Hs Hin) as [_ Hb]. pose proof (actual_size_pos (r_size r)). lia.
Qed.

Lemma makeup_one_finv : forall old F e, sorted_recs (f_recs F) (f_end F) -> f_end F mod 8 = 0 ->
  ent_src old e -> finv F (makeup_one old F e) /\ f_end F < f_end (makeup_one old F e).
Proof.
  intros old F e Hs Hm Hsrc. unfold makeup_one. fold (is_upd e). destruct (is_upd e) eqn:U.
  - destruct (Hsrc U) as [r [Hf Hsz]]. rewrite Hf.
    assert (Hzn : Z.to_N (ie_size e) = r_size r) by (rewrite <- Hsz; apply N2Z.id).
    rewrite Hzn. pose proof (actual_size_pos (r_size r)). split; [|simpl; lia].
    constructor; cbn [f_recs f_end].
    + constructor; simpl; [lia | exact Hs].
    + apply mod8_add; [exact Hm | apply actual_size_mod8].
    + lia.
    + intros off r0 H0. eapply find_rec_keep; eauto.
  - pose proof (actual_size_pos 0). split; [|simpl; lia]. constructor; cbn [f_recs f_end].
    + constructor; simpl; [lia | exact Hs].
    + apply mod8_add; [exact Hm | apply actual_size_mod8].
    + lia.
    + intros off r0 H0. eapply find_rec_keep; eauto.
Qed.

Lemma mstep_finv : forall old d F k, sorted_recs (f_recs F) (f_end F) -> f_end F mod 8 = 0 ->
  (forall k e, idx_get d k = Some e -> ent_src old e) -> finv F (mstep old d F k).
Proof.
  intros old d F k Hs Hm Hsrc. unfold mstep. destruct (idx_get d k) as [e|] eqn:G.
  - apply makeup_one_finv; eauto.
  - apply finv_refl; assumption.
Qed.

Lemma fold_finv : forall old d ord F, sorted_recs (f_recs F) (f_end F) -> f_end F mod 8 = 0 ->
  (forall k e, idx_get d k = Some e -> ent_src old e) -> finv F (fold_left (mstep old d) ord F).
Proof.
  intros old d. induction ord as [|k ord IH]; intros F Hs Hm Hsrc; simpl.
  - apply finv_refl; assumption.
  - pose proof (mstep_finv old d F k Hs Hm Hsrc) as H1.
    eapply finv_trans; [exact H1|]. apply IH; [apply (fi_sorted _ _ H1) | apply (fi_mod8 _ _ H1) | exact Hsrc].
Qed.

(* an updated key: its new entry points at a copy of the record the old entry pointed at *)
Lemma makeup_upd : forall old d ord F k e r, NoDup ord ->
  sorted_recs (f_recs F) (f_end F) -> f_end F mod 8 = 0 ->
  (forall k e, idx_get d k = Some e -> ent_src old e) ->
  In k ord -> idx_get d k = Some e -> is_upd e = true ->
  find_rec (recs old) (ie_off e) = Some r -> Z.of_N (r_size r) = ie_size e ->
  exists noff r', idx_get (f_idx (fold_left (mstep old d) ord F)) k =
                    Some {| ie_key := k; ie_off := noff; ie_size := ie_size e |} /\
                  8 <= noff /\ find_rec (f_recs (fold_left (mstep old d) ord F)) noff = Some r' /\ pl r' = pl r.
Proof.
  intros old d. induction ord as [|k0 ord IH]; intros F k e r Hnd Hs Hm Hsrc Hin G U Hf Hsz; [contradiction|].
  simpl in *. inversion Hnd as [|? ? Hk0 Hnd']; subst.
  pose proof (mstep_finv old d F k0 Hs Hm Hsrc) as H1.
  pose proof (fold_finv old d ord _ (fi_sorted _ _ H1) (fi_mod8 _ _ H1) Hsrc) as H2.
  destruct Hin as [->|Hin].
  - (* this step makes up k *)
    clear IH. set (F1 := mstep old d F k) in *.
    set (nr := {| r_off := f_end F; r_size := r_size r; r_at := r_at r; r_n := r_n r |}).
    assert (E1 : F1 = {| f_recs := nr :: f_recs F;
                         f_end := f_end F + actual_size (r_size r);
                         f_idx := {| ie_key := k; ie_off := f_end F; ie_size := ie_size e |} :: f_idx F |}).
    { unfold F1, mstep. rewrite G. unfold makeup_one. fold (is_upd e). rewrite U, Hf.
      rewrite (idx_get_key _ _ _ G).
      replace (Z.to_N (ie_size e)) with (r_size r) by (rewrite <- Hsz; symmetry; apply N2Z.id). reflexivity. }
    assert (Hidx : idx_get (f_idx F1) k = Some {| ie_key := k; ie_off := f_end F; ie_size := ie_size e |}).
    { rewrite E1. simpl. rewrite N.eqb_refl. reflexivity. }
    assert (Hrec : find_rec (f_recs F1) (f_end F) = Some nr).
    { rewrite E1. simpl. rewrite N.eqb_refl. reflexivity. }
    pose proof (makeup_idx old d ord F1 k Hnd') as Hi. simpl in Hi. rewrite G in Hi.
    destruct (in_dec N.eq_dec k ord) as [Hx|_]; [contradiction|]. rewrite Hi.
    exists (f_end F), nr. split; [exact Hidx|].
    split; [eapply sorted_recs_end; eauto|]. split; [|reflexivity].
    apply (fi_old _ _ H2). exact Hrec.
  - apply IH; auto; [apply (fi_sorted _ _ H1) | apply (fi_mod8 _ _ H1)].
Qed.
