(* Proofs about model/VolumeCrash.v (C03), part 3: the crash-safety statement, its proof at
   every crash point that write order allows, and concrete crash points (among them those of
   the two repaired findings). *)
From Coq Require Import List NArith ZArith Bool Lia ZifyBool ZifyN ZifyNat.
From SW Require Import model.Needle proof.NeedleProofs model.VolumeCrash proof.VolumeCrashProofs
  proof.VolumeCrashLoad proof.VolumeCrashSpec proof.VolumeCrashSim.
Import ListNotations.
Local Open Scope N_scope.
Ltac Zify.zify_post_hook ::= Z.div_mod_to_equations.

Arguments N.add : simpl never.
Arguments N.mul : simpl never.
Arguments N.div : simpl never.
Arguments N.modulo : simpl never.
Arguments N.sub : simpl never.
Arguments N.pow : simpl never.
Arguments N.ltb : simpl never.
Arguments N.leb : simpl never.
Arguments N.eqb : simpl never.
Arguments Z.of_N : simpl never.
Arguments Z.to_N : simpl never.
Arguments Z.ltb : simpl never.
Arguments Z.eqb : simpl never.

(* The property at one crash point of history [h]: the volume comes up, writable; every key
   reads exactly as it did in the running volume right after [h1], the operations whose index
   entries survived (so blobs that reached both files come back with their content and deleted
   ones stay deleted); and a fresh blob can be written and read back. *)
Definition crash_safe_at (crc : list N -> N) (h : list op) (dcut icut : N) : Prop :=
  exists h1 h2 L,
    h = h1 ++ h2 /\ len (p_idx (p_run h1)) = icut / NeedleMapEntrySize /\
    load crc (crash (p_run h) dcut icut) = Loaded L /\ l_nwod L = false /\
    (forall k, l_read crc L k = p_read (p_run h1) k) /\
    (forall n, rec_ok n -> data n <> [] -> checksum n = crc (data n) ->
       (forall o, In o h -> op_key o <> id n) ->
       exists L2, l_write crc L n = (L2, WOk) /\ l_read crc L2 (id n) = ROk (dview Ver n)).

Lemma p_run_app : forall h1 h2, p_run (h1 ++ h2) = fold_left p_step h2 (p_run h1).
Proof. intros. unfold p_run. apply fold_left_app. Qed.

Lemma len_idx_of : forall l, len (idx_of l) = len l.
Proof. intros. unfold idx_of, len. rewrite map_length. reflexivity. Qed.

Section WithCrc.
  Variable crc : list N -> N.

  (* every record carries the key of one of the operations *)
  Definition from_ops (h : list op) (l : list (N * arec)) : Prop :=
    forall o r, In (o, r) l -> exists x, In x h /\ op_key x = id (a_n r).

  Lemma recs_from_ops_fold : forall h2 h1 st, from_ops h1 (p_recs st) ->
    from_ops (h1 ++ h2) (p_recs (fold_left p_step h2 st)).
  Proof.
    induction h2 as [|o h2 IH]; intros h1 st H.
    - rewrite app_nil_r. assumption.
    - cbn [fold_left]. replace (h1 ++ o :: h2) with ((h1 ++ [o]) ++ h2) by (rewrite <- app_assoc; reflexivity).
      apply IH. intros o0 r Hin.
      assert (Hold : In (o0, r) (p_recs st) -> exists x, In x (h1 ++ [o]) /\ op_key x = id (a_n r)).
      { intros Hi. destruct (H _ _ Hi) as [x [Hx Hk]]. exists x. split; [apply in_or_app; left; assumption|assumption]. }
      assert (Hnew : forall r', op_key o = id (a_n r') -> exists x, In x (h1 ++ [o]) /\ op_key x = id (a_n r')).
      { intros r' Hk. exists o. split; [apply in_or_app; right; left; reflexivity|assumption]. }
      destruct o as [n|k c ts]; cbn [p_step] in Hin.
      + unfold p_write in Hin. destruct (p_unchanged st n); [auto|].
        destruct (negb (p_cookie_ok st n)); [auto|].
        destruct (match nm_get (p_map st) (id n) with Some nv => nv_off nv * 8 <? len (p_dat st) | None => true end);
          unfold p_append in Hin; cbn [p_recs] in Hin; apply in_app_or in Hin;
          (destruct Hin as [Hi|[Hi|[]]]; [auto|]); inversion Hi; subst; apply Hnew; reflexivity.
      + unfold p_delete in Hin. destruct (nm_get (p_map st) k) as [nv|]; [|auto].
        destruct (size_valid (nv_size nv)); [|auto].
        unfold p_append in Hin; cbn [p_recs] in Hin; apply in_app_or in Hin.
        destruct Hin as [Hi|[Hi|[]]]; [auto|]. inversion Hi; subst. apply Hnew. reflexivity.
  Qed.

  Lemma recs_from_ops : forall h, from_ops h (p_recs (p_run h)).
  Proof. intros h. apply (recs_from_ops_fold h [] p_init). intros o r []. Qed.

  (* a key no operation mentions is not in the needle map *)
  Lemma fresh_key_unbound : forall h k, Forall (wf_op crc) h -> (forall o, In o h -> op_key o <> k) ->
    nm_get (p_map (p_run h)) k = None.
  Proof.
    intros h k Hwf Hfresh. pose proof (inv_run crc h Hwf) as HI.
    destruct (nm_get (p_map (p_run h)) k) as [nv|] eqn:Eg; [|reflexivity]. exfalso.
    destruct (map_from_idx crc _ HI k nv Eg) as [e [Hin [Hk _]]].
    destruct (entry_in_idx crc _ e HI Hin) as [o [r [Hr He]]].
    destruct (recs_from_ops h o r Hr) as [x [Hx Hkx]].
    apply (Hfresh x Hx). rewrite Hkx, <- Hk, He. reflexivity.
  Qed.

  (* every number of index entries is the index length of some prefix of the history *)
  Lemma split_at_index : forall h ie, Forall (wf_op crc) h -> ie <= len (p_idx (p_run h)) ->
    exists h1 h2, h = h1 ++ h2 /\ len (p_idx (p_run h1)) = ie.
  Proof.
    induction h as [|o h IH] using rev_ind; intros ie Hwf Hle.
    - exists [], []. split; [reflexivity|]. cbn in *. lia.
    - apply Forall_app in Hwf. destruct Hwf as [Hwf Ho]. inversion Ho as [|? ? Hwo _]; subst.
      pose proof (inv_run crc h Hwf) as HI.
      rewrite p_run_app in Hle. cbn [fold_left] in Hle.
      destruct (step_extends crc (p_run h) o HI) as [X [Y [Z [_ [EY [_ [HY _]]]]]]].
      destruct (N.le_gt_cases ie (len (p_idx (p_run h)))) as [Hsmall|Hbig].
      + destruct (IH ie Hwf Hsmall) as [h1 [h2 [E1 E2]]].
        exists h1, (h2 ++ [o]). split; [rewrite E1, app_assoc; reflexivity|assumption].
      + exists (h ++ [o]), []. split; [rewrite app_nil_r; reflexivity|].
        rewrite p_run_app. cbn [fold_left]. rewrite EY in *. rewrite len_app in *. unfold len in *. lia.
  Qed.

  Lemma rec_end_pos : forall st i, i <> 0 ->
    rec_end st i = match nth_error (p_recs st) (N.to_nat (N.pred i)) with
                   | Some (off, r) => off + len (encode Ver (a_n r))
                   | None => len (p_dat st)
                   end.
  Proof. intros st i H. destruct i; [congruence|reflexivity]. Qed.

  (* the end of the last record that the prefix [st1] knows about *)
  Lemma rec_end_prefix : forall st1 st Z, Inv crc st1 -> p_recs st = p_recs st1 ++ Z ->
    rec_end st (len (p_recs st1)) = len (p_dat st1).
  Proof.
    intros st1 st Z HI HZ.
    destruct (snoc_case _ (p_recs st1)) as [Hnil|[l' [[o r] Hs]]].
    - rewrite Hnil. cbn [len length N.of_nat rec_end]. rewrite (inv_dat crc st1 HI), Hnil. reflexivity.
    - rewrite Hs. unfold len at 1. rewrite app_length. cbn [length].
      replace (N.of_nat (length l' + 1)) with (N.succ (N.of_nat (length l'))) by lia.
      rewrite rec_end_pos by lia.
      replace (N.to_nat (N.pred (N.succ (N.of_nat (length l'))))) with (length l') by lia.
      rewrite HZ, Hs, <- app_assoc, nth_error_app2 by lia. rewrite Nat.sub_diag. cbn [app nth_error].
      pose proof (inv_lay crc st1 HI) as Hl. rewrite Hs in Hl. apply lay_app in Hl. destruct Hl as [_ [Ho _]].
      rewrite (inv_dat crc st1 HI), Hs, len_dat_of, cat_app, len_app. cbn [cat map concat snd]. rewrite app_nil_r. lia.
  Qed.

  (* ---------- the property at every admissible crash point ---------- *)
  Theorem crash_safe : forall h dcut icut, Forall (wf_op crc) h ->
    admissible (p_run h) dcut icut = true ->
    crash_safe_at crc h dcut icut.
  Proof.
    intros h dcut icut Hwf Hadm.
    unfold admissible in Hadm.
    remember (icut / NeedleMapEntrySize) as ie eqn:Eie.
    apply andb_true_iff in Hadm. destruct Hadm as [Hadm Hend]. apply andb_true_iff in Hadm. destruct Hadm as [Hicut Hdcut].
    assert (Hie : ie <= len (p_idx (p_run h))) by (unfold NeedleMapEntrySize in *; lia).
    destruct (split_at_index h ie Hwf Hie) as [h1 [h2 [Hh Hlen]]].
    pose proof Hwf as Hwf'. rewrite Hh in Hwf'. apply Forall_app in Hwf'. destruct Hwf' as [Hwf1 Hwf2].
    pose proof (inv_run crc h1 Hwf1) as HI1.
    set (st1 := p_run h1) in *. set (st := p_run h) in *.
    assert (Hst : st = fold_left p_step h2 st1) by (unfold st, st1; rewrite Hh; apply p_run_app).
    destruct (fold_extends crc h2 st1 HI1 Hwf2) as [X [Y [Z [EX [EY EZ]]]]]. rewrite <- Hst in EX, EY, EZ.
    assert (Hrl : len (p_recs st1) = ie) by (rewrite <- Hlen, (inv_idx crc st1 HI1), len_idx_of; reflexivity).
    pose proof (rec_end_prefix st1 st Z HI1 EZ) as Hre. rewrite Hrl in Hre.
    assert (Hge : len (p_dat st1) <= dcut) by lia.
    set (T := takeN (dcut - len (p_dat st1)) X).
    set (torn := if ie <? len (p_idx st) then icut mod NeedleMapEntrySize else 0).
    assert (Hcrash : crash st dcut icut = {| f_dat := p_dat st1 ++ T; f_idx := p_idx st1; f_torn := torn |}).
    { unfold crash. rewrite <- Eie. f_equal.
      - rewrite EX. apply takeN_app_ge. assumption.
      - rewrite EY. apply takeN_app. assumption. }
    destruct (load_core crc st1 T torn HI1) as [D [Hload HD]].
    exists h1, h2, {| l_dat := D; l_idx := p_idx st1; l_map := p_map st1; l_nwod := false |}.
    split; [assumption|]. split; [rewrite <- Eie; exact Hlen|]. split; [change (p_run h) with st; rewrite Hcrash; assumption|]. split; [reflexivity|]. split.
    - intros k. apply read_core; assumption.
    - intros n Hok Hne Hck Hfresh. apply write_core; try assumption.
      apply fresh_key_unbound; [assumption|]. intros o Ho. apply Hfresh. rewrite Hh. apply in_or_app. left. assumption.
  Qed.

  (* ... in terms of the operations: the reopened volume reads as the specification says after
     the operations h1 whose records are the [icut / 16] surviving index entries *)
  Theorem crash_safe_per_spec : forall h dcut icut, Forall (wf_op crc) h ->
    admissible (p_run h) dcut icut = true ->
    exists h1 h2 L, h = h1 ++ h2 /\ snd (s_run h1) = icut / NeedleMapEntrySize /\
      load crc (crash (p_run h) dcut icut) = Loaded L /\ l_nwod L = false /\
      forall k, l_read crc L k = s_read (fst (s_run h1)) k.
  Proof.
    intros h dcut icut Hwf Ha.
    destruct (crash_safe h dcut icut Hwf Ha) as [h1 [h2 [L [Hh [Hlen [Hl [Hn [Hr _]]]]]]]].
    assert (Hwf1 : Forall (wf_op crc) h1) by (rewrite Hh in Hwf; apply Forall_app in Hwf; tauto).
    destruct (running_reads_spec crc h1 Hwf1) as [Hs1 Hs2].
    exists h1, h2, L. split; [assumption|]. split; [rewrite Hs1; assumption|]. split; [assumption|].
    split; [assumption|]. intros k. rewrite Hr. apply Hs2.
  Qed.

  (* ---------- ... and from then on ---------- *)
  (* what comes up at a crash point that write order allows *)
  Lemma reopen_core : forall h dcut icut, Forall (wf_op crc) h ->
    admissible (p_run h) dcut icut = true ->
    exists h1 h2 D,
      h = h1 ++ h2 /\ len (p_idx (p_run h1)) = icut / NeedleMapEntrySize /\
      load crc (crash (p_run h) dcut icut)
        = Loaded {| l_dat := D; l_idx := p_idx (p_run h1); l_map := p_map (p_run h1); l_nwod := false |} /\
      good_dat (p_run h1) D.
  Proof.
    intros h dcut icut Hwf Hadm.
    unfold admissible in Hadm.
    remember (icut / NeedleMapEntrySize) as ie eqn:Eie.
    apply andb_true_iff in Hadm. destruct Hadm as [Hadm Hend]. apply andb_true_iff in Hadm. destruct Hadm as [Hicut Hdcut].
    assert (Hie : ie <= len (p_idx (p_run h))) by (unfold NeedleMapEntrySize in *; lia).
    destruct (split_at_index h ie Hwf Hie) as [h1 [h2 [Hh Hlen]]].
    pose proof Hwf as Hwf'. rewrite Hh in Hwf'. apply Forall_app in Hwf'. destruct Hwf' as [Hwf1 Hwf2].
    pose proof (inv_run crc h1 Hwf1) as HI1.
    set (st1 := p_run h1) in *. set (st := p_run h) in *.
    assert (Hst : st = fold_left p_step h2 st1) by (unfold st, st1; rewrite Hh; apply p_run_app).
    destruct (fold_extends crc h2 st1 HI1 Hwf2) as [X [Y [Z [EX [EY EZ]]]]]. rewrite <- Hst in EX, EY, EZ.
    assert (Hrl : len (p_recs st1) = ie) by (rewrite <- Hlen, (inv_idx crc st1 HI1), len_idx_of; reflexivity).
    pose proof (rec_end_prefix st1 st Z HI1 EZ) as Hre. rewrite Hrl in Hre.
    assert (Hge : len (p_dat st1) <= dcut) by lia.
    set (T := takeN (dcut - len (p_dat st1)) X).
    set (torn := if ie <? len (p_idx st) then icut mod NeedleMapEntrySize else 0).
    assert (Hcrash : crash st dcut icut = {| f_dat := p_dat st1 ++ T; f_idx := p_idx st1; f_torn := torn |}).
    { unfold crash. rewrite <- Eie. f_equal.
      - rewrite EX. apply takeN_app_ge. assumption.
      - rewrite EY. apply takeN_app. assumption. }
    destruct (load_core crc st1 T torn HI1) as [D [Hload HD]].
    exists h1, h2, D.
    split; [assumption|]. split; [exact Hlen|]. split; [rewrite Hcrash; assumption|assumption].
  Qed.

  (* The reopened volume is from then on indistinguishable from the volume that ran [h1] -- the
     operations whose index entries survived -- and never stopped: after ANY further operations
     [h'] (fresh keys, overwrites, rewrites of deleted keys, deletes, refused and repeated writes)
     every key reads exactly as in the running volume after [h1 ++ h'], and every further
     operation is answered as the running volume answers it. *)
  Definition crash_safe_forever_at (h : list op) (dcut icut : N) : Prop :=
    exists h1 h2 L,
      h = h1 ++ h2 /\ len (p_idx (p_run h1)) = icut / NeedleMapEntrySize /\
      load crc (crash (p_run h) dcut icut) = Loaded L /\ l_nwod L = false /\
      forall h', Forall (wf_op crc) h' ->
        (forall k, l_read crc (l_after crc L h') k = p_read (p_run (h1 ++ h')) k) /\
        (forall o, wf_op crc o -> snd (l_step crc (l_after crc L h') o) = p_res (p_run (h1 ++ h')) o).

  Theorem crash_safe_forever : forall h dcut icut, Forall (wf_op crc) h ->
    admissible (p_run h) dcut icut = true -> crash_safe_forever_at h dcut icut.
  Proof.
    intros h dcut icut Hwf Hadm.
    destruct (reopen_core h dcut icut Hwf Hadm) as [h1 [h2 [D [Hh [Hlen [Hload HD]]]]]].
    assert (Hwf1 : Forall (wf_op crc) h1) by (rewrite Hh in Hwf; apply Forall_app in Hwf; tauto).
    pose proof (inv_run crc h1 Hwf1) as HI1.
    eexists h1, h2, _. split; [assumption|]. split; [assumption|]. split; [exact Hload|]. split; [reflexivity|].
    intros h' Hwf'. rewrite p_run_app.
    pose proof (sim_reopen crc (p_run h1) D (p_idx (p_run h1)) HI1 HD) as HS0.
    pose proof (sim_after crc _ h' _ _ HS0 Hwf') as HS.
    split.
    - intros k. apply (sim_read crc _ _ _ k HS eq_refl).
    - intros o Ho. apply (sim_step crc _ _ _ o HS Ho). reflexivity.
  Qed.

  (* ... in terms of the operations: the specification after h1 ++ h' *)
  Theorem crash_safe_forever_per_spec : forall h dcut icut, Forall (wf_op crc) h ->
    admissible (p_run h) dcut icut = true ->
    exists h1 h2 L, h = h1 ++ h2 /\ snd (s_run h1) = icut / NeedleMapEntrySize /\
      load crc (crash (p_run h) dcut icut) = Loaded L /\ l_nwod L = false /\
      forall h', Forall (wf_op crc) h' ->
        forall k, l_read crc (l_after crc L h') k = s_read (fst (s_run (h1 ++ h'))) k.
  Proof.
    intros h dcut icut Hwf Ha.
    destruct (crash_safe_forever h dcut icut Hwf Ha) as [h1 [h2 [L [Hh [Hlen [Hl [Hn Hc]]]]]]].
    assert (Hwf1 : Forall (wf_op crc) h1) by (rewrite Hh in Hwf; apply Forall_app in Hwf; tauto).
    destruct (running_reads_spec crc h1 Hwf1) as [Hs1 _].
    exists h1, h2, L. split; [assumption|]. split; [rewrite Hs1; assumption|]. split; [assumption|].
    split; [assumption|]. intros h' Hwf' k. destruct (Hc h' Hwf') as [Hr _]. rewrite (Hr k).
    assert (Hall : Forall (wf_op crc) (h1 ++ h')) by (apply Forall_app; split; assumption).
    destruct (running_reads_spec crc (h1 ++ h') Hall) as [_ Hs2]. apply Hs2.
  Qed.
End WithCrc.

(* ---------- the witnesses ---------- *)
(* hello / world!! / delete key 1 / second version: the history of harness cases 0 and 1 *)
Definition w_needle (k c : N) (d : list N) (ts : N) : needle :=
  {| cookie := c; id := k; data := d; flags := 0; name := []; mime := []; pairs_size := 0; pairs := [];
     last_modified := 0; ttl := None; checksum := toy_crc d; append_at_ns := ts |}.

Definition w_history : list op :=
  [ Write (w_needle 1 17 [104; 101; 108; 108; 111] 1000);
    Write (w_needle 2 305419896 [119; 111; 114; 108; 100; 33; 33] 2000);
    Delete 1 17 3000;
    Write (w_needle 2 305419896 [115; 101; 99; 111; 110; 100; 32; 118; 101; 114; 115; 105; 111; 110] 4000) ].

Lemma w_history_wf : Forall (wf_op toy_crc) w_history.
Proof.
  repeat constructor; try discriminate;
    unfold ranges_ok; vm_compute; repeat split; try reflexivity; discriminate.
Qed.

(* records end at 48, 96, 128 (the tombstone) and 176 *)
Lemma w_layout : map fst (p_recs (p_run w_history)) = [8; 48; 96; 128] /\ len (p_dat (p_run w_history)) = 176.
Proof. vm_compute. split; reflexivity. Qed.

Definition w_fresh : needle := w_needle 9 7 [102; 114; 101; 115; 104] 0.

(* further operations on the reopened volume: rewrite of key 1 (deleted in the history), delete of
   key 2, a fresh key, the same bytes again (unchanged), key 1 with another cookie (refused) *)
Definition w_post : list op :=
  [ Write (w_needle 1 17 [97; 103; 97; 105; 110] 0);
    Delete 2 305419896 0;
    Write w_fresh;
    Write w_fresh;
    Write (w_needle 1 81 [110; 111] 0) ].

(* the crash point of the repaired finding c03-tombstone-tail-readonly: three index entries
   survive (the last one is the tombstone of key 1) and the data file holds five more bytes, the
   beginning of the fourth record.  The tail is cut, the volume is writable, key 1 stays deleted;
   it serves the further operations; stopped again with the last index entry torn (9 bytes
   missing), it comes up with five entries, the record of key 9 behind them is cut off. *)
Lemma witness_tombstone_tail :
  admissible (p_run w_history) 133 48 = true /\ tombstone_tail (p_run w_history) 133 48 = true /\
  observe toy_crc (crash (p_run w_history) 133 48) [1; 2; 9] w_post 9 =
    {| o_load := 0; o_readonly := false; o_dat_len := 128; o_idx_len := 48;
       o_reads := [(2, 0, []); (0, 305419896, [119; 111; 114; 108; 100; 33; 33]); (1, 0, [])];
       o_post := [(0, 0%Z); (0, 12%Z); (0, 0%Z); (1, 0%Z); (3, 0%Z)];
       o_reads2 := [(0, 17, [97; 103; 97; 105; 110]); (2, 0, []); (0, 7, [102; 114; 101; 115; 104])];
       o_dat_len2 := 240; o_idx_len2 := 96; o_load3 := 0; o_readonly3 := false;
       o_reads3 := [(0, 17, [97; 103; 97; 105; 110]); (2, 0, []); (1, 0, [])];
       o_dat_len3 := 200; o_idx_len3 := 80 |}.
Proof. vm_compute. repeat split; reflexivity. Qed.

(* the same with a whole fourth record behind the tombstone, and a clean second stop *)
Lemma witness_tombstone_then_record :
  admissible (p_run w_history) 176 48 = true /\ tombstone_tail (p_run w_history) 176 48 = true /\
  observe toy_crc (crash (p_run w_history) 176 48) [1; 2; 9] w_post 0 =
    {| o_load := 0; o_readonly := false; o_dat_len := 128; o_idx_len := 48;
       o_reads := [(2, 0, []); (0, 305419896, [119; 111; 114; 108; 100; 33; 33]); (1, 0, [])];
       o_post := [(0, 0%Z); (0, 12%Z); (0, 0%Z); (1, 0%Z); (3, 0%Z)];
       o_reads2 := [(0, 17, [97; 103; 97; 105; 110]); (2, 0, []); (0, 7, [102; 114; 101; 115; 104])];
       o_dat_len2 := 240; o_idx_len2 := 96; o_load3 := 0; o_readonly3 := false;
       o_reads3 := [(0, 17, [97; 103; 97; 105; 110]); (2, 0, []); (0, 7, [102; 114; 101; 115; 104])];
       o_dat_len3 := 240; o_idx_len3 := 96 |}.
Proof. vm_compute. repeat split; reflexivity. Qed.

(* the crash point of the repaired finding c03-torn-index-entry-panic: the second index entry is
   torn after 7 bytes.  The torn bytes are dropped and the volume comes up with one entry; the
   delete of key 2 (whose record lies behind the cut) finds nothing. *)
Lemma witness_torn_index :
  admissible (p_run w_history) 96 23 = true /\ torn_index 23 = true /\
  observe toy_crc (crash (p_run w_history) 96 23) [1; 2; 9] w_post 0 =
    {| o_load := 0; o_readonly := false; o_dat_len := 48; o_idx_len := 16;
       o_reads := [(0, 17, [104; 101; 108; 108; 111]); (1, 0, []); (1, 0, [])];
       o_post := [(0, 0%Z); (0, 0%Z); (0, 0%Z); (1, 0%Z); (3, 0%Z)];
       o_reads2 := [(0, 17, [97; 103; 97; 105; 110]); (1, 0, []); (0, 7, [102; 114; 101; 115; 104])];
       o_dat_len2 := 128; o_idx_len2 := 48; o_load3 := 0; o_readonly3 := false;
       o_reads3 := [(0, 17, [97; 103; 97; 105; 110]); (1, 0, []); (0, 7, [102; 114; 101; 115; 104])];
       o_dat_len3 := 128; o_idx_len3 := 48 |}.
Proof. vm_compute. repeat split; reflexivity. Qed.

(* one more crash point of the same history: two index entries, the data file cut nine bytes
   into the tombstone's record; the second stop loses the last index entry whole *)
Lemma witness_torn_record :
  admissible (p_run w_history) 105 32 = true /\
  observe toy_crc (crash (p_run w_history) 105 32) [1; 2; 9] w_post 16 =
    {| o_load := 0; o_readonly := false; o_dat_len := 96; o_idx_len := 32;
       o_reads := [(0, 17, [104; 101; 108; 108; 111]); (0, 305419896, [119; 111; 114; 108; 100; 33; 33]); (1, 0, [])];
       o_post := [(0, 0%Z); (0, 12%Z); (0, 0%Z); (1, 0%Z); (3, 0%Z)];
       o_reads2 := [(0, 17, [97; 103; 97; 105; 110]); (2, 0, []); (0, 7, [102; 114; 101; 115; 104])];
       o_dat_len2 := 208; o_idx_len2 := 80; o_load3 := 0; o_readonly3 := false;
       o_reads3 := [(0, 17, [97; 103; 97; 105; 110]); (2, 0, []); (1, 0, [])];
       o_dat_len3 := 168; o_idx_len3 := 64 |}.
Proof. vm_compute. repeat split; reflexivity. Qed.

(* a crash point that write order excludes (the index is ahead of the data: two entries, the
   second record missing) is outside the theorem; the safety half still covers it *)
Lemma not_admissible_example : admissible (p_run w_history) 60 32 = false.
Proof. vm_compute. reflexivity. Qed.

(* ---------- finding 0: an empty blob does not come back ---------- *)
(* the payload may be empty *)
Definition wf_any (crc : list N -> N) (o : op) : Prop :=
  match o with
  | Write n => rec_ok n /\ checksum n = crc (data n)
  | Delete k c ts => k < 2 ^ 64 /\ c < 2 ^ 32 /\ ts < 2 ^ 64
  end.

Lemma is_nil_false : forall A (l : list A), is_nil l = false -> l <> [].
Proof. intros A [|x l] H; [discriminate|discriminate]. Qed.

Lemma wf_any_op : forall crc h, Forall (wf_any crc) h -> has_empty_write h = false -> Forall (wf_op crc) h.
Proof.
  intros crc h. induction h as [|o h IH]; intros Hw He; [constructor|].
  inversion Hw as [|? ? Ho Hh]; subst. cbn [has_empty_write existsb] in He. apply orb_false_iff in He.
  destruct He as [He1 He2]. constructor; [|apply IH; assumption].
  destruct o as [n|k c ts]; [|exact Ho]. destruct Ho as [H1 H2].
  split; [assumption|]. split; [apply is_nil_false; assumption|assumption].
Qed.

(* hello / EMPTY / x, stopped cleanly (harness case 2) *)
Definition w_empty_history : list op :=
  [ Write (w_needle 1 17 [104; 101; 108; 108; 111] 1000);
    Write (w_needle 2 305419896 [] 2000);
    Write (w_needle 3 4294967283 [120] 3000) ].

Lemma w_empty_history_wf : Forall (wf_any toy_crc) w_empty_history.
Proof.
  repeat constructor; try discriminate;
    unfold ranges_ok; vm_compute; repeat split; try reflexivity; discriminate.
Qed.

(* the volume is stopped with both files whole: the running volume answered (0, nil) for key 2
   (class 3), the reopened one does not know the key (class 1); the other keys are as before *)
Lemma witness_empty_blob :
  admissible (p_run w_empty_history) 120 48 = true /\
  len (p_dat (p_run w_empty_history)) = 120 /\ len (p_idx (p_run w_empty_history)) = 3 /\
  empty_live (p_run w_empty_history) 2 = true /\ key_has_empty_write w_empty_history 2 = true /\
  map (fun k => rres_proj (p_read (p_run w_empty_history) k)) [1; 2; 3] =
    [(0, 17, [104; 101; 108; 108; 111]); (3, 0, []); (0, 4294967283, [120])] /\
  o_reads (observe toy_crc (crash (p_run w_empty_history) 120 48) [1; 2; 3] [] 0) =
    [(0, 17, [104; 101; 108; 108; 111]); (1, 0, []); (0, 4294967283, [120])].
Proof. vm_compute. repeat split; reflexivity. Qed.

(* REFUTED: with empty payloads allowed the full statement fails, at a clean stop *)
Theorem crash_safe_refuted : exists crc h dcut icut, Forall (wf_any crc) h /\
  admissible (p_run h) dcut icut = true /\ ~ crash_safe_at crc h dcut icut.
Proof.
  exists toy_crc, w_empty_history, 120, 48. split; [exact w_empty_history_wf|]. split; [vm_compute; reflexivity|].
  intros [h1 [h2 [L [Hh [Hlen [Hload [_ [Hr _]]]]]]]].
  (* three index entries survive: h1 is the whole history *)
  assert (E1 : h1 = w_empty_history).
  { unfold w_empty_history in Hh.
    destruct h1 as [|a h1]; [vm_compute in Hlen; discriminate|]. cbn [app] in Hh. injection Hh as Ha Hh. subst a.
    destruct h1 as [|b h1]; [vm_compute in Hlen; discriminate|]. cbn [app] in Hh. injection Hh as Hb Hh. subst b.
    destruct h1 as [|c h1]; [vm_compute in Hlen; discriminate|]. cbn [app] in Hh. injection Hh as Hc Hh. subst c.
    destruct h1 as [|d h1]; [reflexivity|discriminate Hh]. }
  subst h1. specialize (Hr 2).
  assert (EL : load toy_crc (crash (p_run w_empty_history) 120 48) = Loaded L) by exact Hload.
  vm_compute in EL. inversion EL; subst L. vm_compute in Hr. discriminate.
Qed.

(* PARTIAL: histories that store no empty blob (decidable) *)
Theorem crash_safe_partial : forall crc h dcut icut, Forall (wf_any crc) h -> has_empty_write h = false ->
  admissible (p_run h) dcut icut = true -> crash_safe_at crc h dcut icut.
Proof. intros crc h dcut icut Hw He. apply crash_safe. apply wf_any_op; assumption. Qed.
